----------------------------- MODULE BandBits_mc -----------------------------
(***************************************************************************)
(* Design theorems of the band-quantisation bit ledger (module BandBits),  *)
(* checked by TLC for every signal: the signal-dependent part of a frame - *)
(* which theta value is coded at a split, what every symbol really costs   *)
(* in the range coder, which collapse mask a PVQ codeword has - is chosen  *)
(* by TLC inside its true bounds.                                          *)
(*                                                                         *)
(*   root -> cell     LM x C x band range x tf pattern x role              *)
(*   cell -> frame    an allocation computed by G04's model Alloc!Run for  *)
(*                    packet length x header size x trim x dynalloc        *)
(*                    pattern x skip policy x stereo parameters (a         *)
(*                    deterministic 1/FrameMod sample of that grid):       *)
(*                    pulses[], balance, codedBands, intensity,            *)
(*                    dual_stereo, and the tell at the first band (header  *)
(*                    + allocation symbols + fine energy bits)             *)
(*   frame -> btop -> bdone -> btop ...   the POLICY PATH: band after band *)
(*                    with every oracle entry taken from the frame's       *)
(*                    policy (four policies: all-mid / all-side / balanced *)
(*                    cheap / hashed)                                      *)
(*   btop -> btop'    FORK: from every band top of the path the same band  *)
(*     -> bpre* ->    is explored with its first Depth oracle entries      *)
(*        bdone       chosen from the menus (theta values x costs at the   *)
(*                    ends of their bounds, collapse masks), starting at   *)
(*                    the path's tell, at tells around it and at tells     *)
(*                    just below total_bits; bpre states are the oracle    *)
(*                    prefixes.  Forked bands are not continued.           *)
(* Every band summary (bdone) is checked against the theorems below.       *)
(***************************************************************************)
EXTENDS BandBits

CONSTANTS LMs, Cs, Ranges, Lens, Hdrs, Trims, Pats, Skips, TfPats, Spreads, Pols, Roles, Depth, Jit, Pts, XPts, CmPts, PlanMod, TellDeltas, NearEnd, FrameMod,
          RemSlack, BMaxExtra

VARIABLE node

(* ------------------------------------------------------------------------ *)
(* frames: inputs of quant_all_bands as the allocation produces them        *)
(* ------------------------------------------------------------------------ *)
Quanta(LM, jb) == LET w == Width(jb) * Pow2(LM) IN Min(w * 8, Max(48, w))
OffPat(pat, LM, lo, hi) ==
  [i \in 1..NB |->
     LET jb == i - 1 IN
     IF jb < lo \/ jb >= hi THEN 0
     ELSE CASE pat = 0 -> 0
            [] pat = 1 -> IF jb = lo + 2 THEN 2 * Quanta(LM, jb) ELSE 0
            [] pat = 2 -> IF (jb - lo) % 4 = 1 THEN Quanta(LM, jb) ELSE 0
            [] pat = 3 -> IF jb = hi - 1 THEN 3 * Quanta(LM, jb) ELSE 0
            [] pat = 4 -> IF jb = (lo + hi) \div 2 THEN 8 * Quanta(LM, jb) ELSE 0
            [] OTHER -> 0]
MkQ(LM, C, rg, tot, trim, pat) ==
  [C |-> C, LM |-> LM, st |-> rg \div 100, en |-> rg % 100, trim |-> trim, tot |-> tot,
   off |-> Force(OffPat(pat, LM, rg \div 100, rg % 100)), cap |-> Force(InitCaps(LM, C))]
RECURSIVE Zeros(_)
Zeros(n) == IF n = 0 THEN <<>> ELSE <<0>> \o Zeros(n - 1)

\* tf_change per band: the values tf_select_table offers for this LM and block type
TfLong(LM) == IF LM = 0 THEN <<0, 0 - 1>> ELSE IF LM = 1 THEN <<0, 0 - 1, 0 - 2>> ELSE <<0, 0 - 2, 0 - 3>>
TfShort(LM) == IF LM = 1 THEN <<1, 0, 0 - 1>> ELSE IF LM = 2 THEN <<2, 0, 1, 0 - 1>> ELSE <<3, 0, 1, 0 - 1>>
TfOf(tfp, LM, jb) ==
  CASE tfp = 1 -> TfLong(LM)[(jb % Len(TfLong(LM))) + 1]
    [] tfp = 2 /\ LM > 0 -> TfShort(LM)[(jb % Len(TfShort(LM))) + 1]
    [] OTHER -> 0
IsShort(tfp, LM) == tfp >= 2 /\ LM > 0

\* role 0: decoder; 1: encoder without resynthesis; 2: encoder with theta RDO (resynthesis)
MkFrame(LM, C, rg, tfp, role, len, hdr, trim, pat, nskip, spread, pol, ii, di) ==
  LET short == IF IsShort(tfp, LM) THEN Pow2(LM) ELSE 0
      bits0 == len * 64 - hdr - 1
      rsv == IF short # 0 /\ LM >= 2 /\ bits0 >= (LM + 2) * 8 THEN 8 ELSE 0
      q == MkQ(LM, C, rg, bits0 - rsv, trim, pat)
      pa == PreAll(q)
      nOff == SkipFrom(q, pa, Zeros(NB + 1)).nsk
      k == Min(nskip, nOff)
      s == SkipFrom(q, pa, IF k = nOff THEN Zeros(k) ELSE Zeros(k) \o <<1>>)
      r == Finish(q, pa, s, ROLE_ENC, 0, 0, ii, di)
      tell0 == hdr + SymbolCharge(r.nsk, r.iuse, r.ift, r.duse) + 8 * C * SumSeq(r.e, q.st + 1, q.en)
  IN [f |-> [enc |-> IF role = 0 THEN 0 ELSE 1, rdo |-> IF role = 2 THEN 1 ELSE 0, C |-> C, LM |-> LM, st |-> q.st, en |-> q.en,
             cb |-> r.cb, inten |-> r.inten, dual |-> r.dual, short |-> short, spread |-> spread,
             tf |-> Force([i \in 1..NB |-> IF i > q.st /\ i <= q.en THEN TfOf(tfp, LM, i - 1) ELSE 0]),
             p |-> Force([i \in 1..NB |-> IF i > q.st /\ i <= q.en THEN r.p[i] ELSE 0]),
             bal |-> r.bal, total |-> len * 64 - rsv, pol |-> pol, depth |-> 0, jit |-> Jit, pts |-> Pts, xpts |-> XPts, cmpts |-> CmPts],
      tell0 |-> tell0, len |-> len, rsv |-> rsv, allocBad |-> r.bad]

RECURSIVE GridHashR(_, _, _)
GridHashR(t, k, h) == IF k > Len(t) THEN h ELSE GridHashR(t, k + 1, (h * 131 + t[k] + 7) % 1000003)
GridHash(t) == GridHashR(t, 1, 17)

(* ------------------------------------------------------------------------ *)
(* state graph                                                              *)
(* ------------------------------------------------------------------------ *)
Init == node = [ph |-> "root"]

ToCell ==
  /\ node.ph = "root"
  /\ \E LM \in LMs, C \in Cs, rg \in Ranges, tfp \in TfPats, role \in Roles :
       /\ (role = 2 => C = 2)
       /\ (tfp >= 2 => LM > 0)
       /\ node' = [ph |-> "cell", LM |-> LM, C |-> C, rg |-> rg, tfp |-> tfp, role |-> role]

ToFrame ==
  /\ node.ph = "cell"
  /\ \E len \in Lens, hdr \in Hdrs, trim \in Trims, pat \in Pats, nskip \in Skips, spread \in Spreads, pol \in Pols,
        ii \in (IF node.C = 1 THEN {0} ELSE {node.rg \div 100, ((node.rg \div 100) + (node.rg % 100)) \div 2, node.rg % 100}),
        di \in (IF node.C = 1 \/ node.role = 2 THEN {0} ELSE {0, 1}) :
       /\ len * 64 > hdr
       \* a deterministic sample of the grid
       /\ GridHash(<<node.LM, node.C, node.rg, node.tfp, node.role, len, hdr, trim, pat, nskip, spread, pol, ii, di>>) % FrameMod = 0
       /\ LET fr == MkFrame(node.LM, node.C, node.rg, node.tfp, node.role, len, hdr, trim, pat, nskip, spread, pol, ii, di) IN
          /\ (node.role = 2 => fr.f.dual = 0)
          /\ node' = [ph |-> "frame", f |-> fr.f, tell0 |-> fr.tell0, len |-> fr.len, rsv |-> fr.rsv, allocBad |-> fr.allocBad]

Top(f, i, tell, g, t0) == [ph |-> "btop", f |-> f, i |-> i, tell |-> tell, g |-> g, orc |-> <<>>, t0 |-> t0, probe |-> FALSE]

\* from every band top of the policy path: the same band explored with the first Depth oracle entries chosen from the menus,
\* started at the path's tell, at tells around it (other signals spent more or less before this band) and at tells just below
\* total_bits (a starved frame).  The balance carried into a band does not depend on earlier tells, so each of these is the
\* ledger of some history (the first band's tell is the one term that stays in the balance: t0); the folding state is the path's.
Fork ==
  /\ node.ph = "btop" /\ ~node.probe
  /\ \E t \in {node.tell + d : d \in TellDeltas} \cup {node.tell - d : d \in TellDeltas} \cup {node.f.total - k : k \in NearEnd} :
       /\ t >= 0
       /\ node' = [node EXCEPT !.probe = TRUE, !.tell = t, !.f = [@ EXCEPT !.depth = Depth], !.t0 = IF node.i = node.f.st THEN t ELSE @]

Start ==
  /\ node.ph = "frame"
  /\ node' = Top(node.f, node.f.st, node.tell0, InitFold(node.f), node.tell0)

\* the ledger of the same band in the other role (an encoder that does not resynthesise keeps no folding state)
PlainEnc(f) == [f EXCEPT !.enc = 1, !.rdo = 0]
MirrorEv(e) == IF e[1] = 1 THEN <<1, e[2], e[3], e[4], e[5], e[6], e[7]>> ELSE e
MirrorSeq(t) == [j \in 1..Len(t) |-> MirrorEv(t[j])]

TagsOf(f, i, r) ==
  LET evs == r.s.out
      kinds == {<<evs[j][1], evs[j][4]>> : j \in 1..Len(evs)}
      ft3 == {evs[j][7] : j \in {x \in 1..Len(evs) : evs[x][1] = 1 /\ evs[x][4] = 3}}
  IN (IF <<1, 3>> \in kinds THEN {"range-coded theta"} ELSE {})
     \cup (IF <<1, 4>> \in kinds THEN {"uniform theta"} ELSE {})
     \cup (IF <<1, 5>> \in kinds THEN {"inversion flag"} ELSE {})
     \cup (IF <<1, 0>> \in kinds THEN {"split without symbol"} ELSE {})
     \cup (IF \E j \in 1..Len(evs) : evs[j][1] = 6 /\ evs[j][4] = 1 THEN {"one-coefficient band"} ELSE {})
     \cup (IF \E j \in 1..Len(evs) : evs[j][1] = 6 /\ evs[j][4] = 2 THEN {"two-coefficient stereo side sign"} ELSE {})
     \cup (IF r.s.ncut > 0 THEN {"leaf cut back by the budget"} ELSE {})
     \cup (IF r.s.nreb > 0 THEN {"rebalance"} ELSE {})
     \cup (IF r.s.lmmin = 0 - 1 THEN {"LM -1 leaf"} ELSE {})
     \cup (IF r.s.dep >= 3 THEN {"three levels of splits"} ELSE {})
     \cup (IF r.s.lo < 0 /\ r.rem0 >= 0 THEN {"remaining_bits below zero"} ELSE {})
     \cup (IF r.rem0 < 0 THEN {"band starts past the budget"} ELSE {})
     \cup (IF r.g.dual = 1 THEN {"dual stereo band"} ELSE {})
     \cup (IF f.C = 2 /\ r.g.dual = 0 /\ i >= f.inten THEN {"intensity stereo band"} ELSE {})
     \cup (IF f.tf[i + 1] > 0 THEN {"recombine"} ELSE {})
     \cup (IF f.tf[i + 1] < 0 THEN {"time divide"} ELSE {})
     \cup (IF r.useFold THEN {"folding from lower bands"} ELSE {})
     \cup (IF i >= f.cb THEN {"skipped band"} ELSE {})
     \cup (IF r.b = MAXB THEN {"b clamped to 16383"} ELSE {})
     \cup (IF r.b > 0 /\ r.b = r.rem0 + 1 THEN {"b clamped to remaining_bits+1"} ELSE {})
     \cup (IF f.st > 0 THEN {"hybrid start"} ELSE {})

\* (bound with \E over singleton sets: TLC evaluates a LET of an action again at every use)
Step ==
  /\ node.ph \in {"btop", "bpre"}
  /\ \E r \in {BandRun(node.f, node.i, node.tell, node.g, node.orc)} :
       IF r.s.short
       THEN \E c \in MenuOf(node.f, r.s.need) : node' = [node EXCEPT !.ph = "bpre", !.orc = Append(@, c)]
       ELSE \E m \in {BandRun(PlainEnc(node.f), node.i, node.tell, [InitFold(node.f) EXCEPT !.bal = node.g.bal, !.dual = node.g.dual],
                               SelectSeq(r.s.out, LAMBDA e : e[1] = 1 \/ (e[1] = 7 /\ e[7] > 0)))} :
            node' = [ph |-> "bdone", f |-> node.f, i |-> node.i, tell |-> node.tell, g2 |-> r.g, t0 |-> node.t0, probe |-> node.probe,
                     sum |-> [lo |-> r.s.lo, bmax |-> r.s.bmax, bmin |-> r.s.bmin, lmmin |-> r.s.lmmin, dep |-> r.s.dep,
                              bad |-> r.s.bad, tell2 |-> r.s.tell, b |-> r.b, rem0 |-> r.rem0, rem2 |-> r.s.rem,
                              items |-> r.s.nsym + r.s.nleaf, used |-> r.s.pos,
                              mirror |-> /\ ~m.s.short /\ m.s.pos = r.s.pos
                                         /\ MirrorSeq(m.s.out) = MirrorSeq(r.s.out)
                                         /\ m.s.rem = r.s.rem /\ m.s.tell = r.s.tell /\ m.b = r.b /\ m.g.bal = r.g.bal
                                         /\ m.g.upd = r.g.upd /\ m.g.dual = r.g.dual,
                              tags |-> TagsOf(node.f, node.i, r), masks |-> <<r.g.xm[node.i + 1], r.g.ym[node.i + 1]>>, B |-> r.B]]

NextBand ==
  /\ node.ph = "bdone" /\ ~node.probe
  /\ node' = IF node.i = node.f.en - 1
             THEN [ph |-> "fdone", f |-> node.f, tell |-> node.sum.tell2, t0 |-> node.t0]
             ELSE Top(node.f, node.i + 1, node.sum.tell2, node.g2, node.t0)

Next == ToCell \/ ToFrame \/ Start \/ Fork \/ Step \/ NextBand
Spec == Init /\ [][Next]_node

(* ------------------------------------------------------------------------ *)
(* theorems                                                                 *)
(* ------------------------------------------------------------------------ *)
Done == node.ph = "bdone"

\* the plan points are sound allocations (none of Alloc's assertions fails) and within the model's domain
FramesOK == node.ph = "frame" => node.allocBad = {} /\ TfOK(node.f) /\ node.f.cb > node.f.st /\ node.f.cb <= node.f.en

\* no model assertion fails: cache slots exist wherever they are read, N is even at every split, qn is 1 or even and <= 256,
\* fill and every collapse mask stay within B bits (<= 8 bits where the interleave tables index with them, <= 4 at the
\* deinterleave), B <= 16, the fold range only reads collapse masks already written, the lowband lies inside the written part
\* of norm, lowband_out inside norm, special_hybrid_folding's source inside norm
NoBad == Done => node.sum.bad = {}

\* the recursion ends: LM never goes below -1, at most LM+1 levels of splits
Terminates == Done => node.sum.lmmin >= 0 - 1 /\ node.sum.dep <= node.f.LM + 1

\* budget safety: a band that starts inside the budget never pushes ec_tell_frac past total_bits (with ideal costs; with a
\* jitter of Jit per symbol the overshoot is at most Jit per coded item of the band); a band that starts past it codes nothing
BudgetSafe ==
  Done => /\ node.sum.tell2 <= Max(node.f.total, node.tell) + Jit * node.sum.items
          /\ (node.tell > node.f.total - 1 => node.sum.tell2 = node.tell)
\* NOT a theorem once the coder's estimate may be off by Jit per symbol (witness configuration: must be refuted)
BudgetIdeal == Done => node.sum.tell2 <= Max(node.f.total, node.tell)
FrameBudget == node.ph = "fdone" => node.tell <= Max(node.f.total, node.t0) + Jit * 64

\* the tolerated overdraft of ctx.remaining_bits
RemFloor == Done => node.sum.lo >= Min(node.sum.rem0, 0) - RemSlack - Jit * node.sum.items
\* ledger identity: remaining_bits + tell never exceeds what the band started with (costs are charged at least what they cost)
LedgerCovers == Done => node.sum.rem2 + node.sum.tell2 <= node.f.total - 1 + Jit * node.sum.items

\* b at the leaves
LeafB == Done => node.sum.bmin >= 0 /\ node.sum.bmax <= node.sum.b + BMaxExtra /\ node.sum.b <= MAXB /\ node.sum.b <= Max(0, node.sum.rem0 + 1)

\* balance = what was allocated so far - what was spent so far
BalanceIdentity == Done => node.g2.bal = node.f.bal + SumSeq(node.f.p, node.f.st + 1, node.i + 1) + node.t0

\* encoder and decoder compute the identical ledger from the same symbols
Mirror == Done => node.sum.mirror

\* collapse masks within B bits (resynthesis only)
MasksInB == Done /\ Resynth(node.f) => node.sum.masks[1] < Pow2(node.sum.B) /\ node.sum.masks[2] < Pow2(node.sum.B)

(* ------------------------------------------------------------------------ *)
(* measured extremes and regime tags: printed when a worker sees a new one  *)
(* ------------------------------------------------------------------------ *)
ASSUME TLCSet(1, 100000) /\ TLCSet(2, 0 - 100000) /\ TLCSet(3, {}) /\ TLCSet(4, 0 - 100000) /\ TLCSet(5, 0 - 100000)
Probe ==
  Done =>
    LET over == node.sum.tell2 - Max(node.f.total, node.tell)
        under == node.sum.lo - Min(node.sum.rem0, 0)
        extra == node.sum.bmax - node.sum.b
    IN /\ (under < 0 /\ under < TLCGet(1) => TLCSet(1, under) /\ PrintT(<<"MINREM", under, node.f.LM, node.f.C, node.i, node.sum.b>>))
       /\ (over > 0 - 3 /\ over > TLCGet(2) => TLCSet(2, over) /\ PrintT(<<"MAXOVER", over, node.f.LM, node.f.C, node.i>>))
       /\ (~(node.sum.tags \subseteq TLCGet(3)) => PrintT(<<"TAGS", node.sum.tags \ TLCGet(3)>>) /\ TLCSet(3, TLCGet(3) \cup node.sum.tags))
       /\ (extra > 0 /\ extra > TLCGet(4) => TLCSet(4, extra) /\ PrintT(<<"MAXLEAFB", extra, node.sum.bmax, node.f.LM, node.f.C, node.i>>))
       /\ (node.sum.used > 8 /\ node.sum.used > TLCGet(5) => TLCSet(5, node.sum.used) /\ PrintT(<<"MAXITEMS", node.sum.used, node.f.LM, node.f.C, node.i>>))

(* ------------------------------------------------------------------------ *)
(* plan lines for the harness: one per frame                                *)
(* ------------------------------------------------------------------------ *)
PlanHash(f, t) == (f.total + 7 * f.bal + 13 * f.LM + 31 * f.C + 3 * f.en + 5 * f.cb + 11 * f.inten + f.dual + 17 * t + f.spread + 19 * f.pol) % PlanMod
Plan ==
  node.ph = "frame" /\ PlanHash(node.f, node.tell0) = 0 =>
    LET f == node.f IN
    PrintT("PLAN " \o ToString(f.C) \o " " \o ToString(f.LM) \o " " \o ToString(f.st) \o " " \o ToString(f.en) \o " " \o ToString(f.cb)
           \o " " \o ToString(f.inten) \o " " \o ToString(f.dual) \o " " \o ToString(f.short) \o " " \o ToString(f.spread) \o " "
           \o ToString(node.len) \o " " \o ToString(node.rsv) \o " " \o ToString(node.tell0) \o " " \o ToString(f.bal) \o " "
           \o ToString(f.enc + f.rdo) \o " | " \o ToString(f.tf) \o " | " \o ToString(f.p))
=============================================================================
