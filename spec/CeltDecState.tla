--------------------------- MODULE CeltDecState ---------------------------
(***************************************************************************)
(* Growth module G12.  The frame-to-frame CONTROL state of the CELT decoder  *)
(* (celt/celt_decoder.c, struct OpusCustomDecoder from DECODER_RESET_START   *)
(* on, plus start/end/stream_channels/downsample) and the mirrored part of   *)
(* the CELT encoder's (celt/celt_encoder.c, struct OpusCustomEncoder).        *)
(* Signal-dependent decisions are oracles (arguments of the operators).       *)
(*                                                                         *)
(* Decoder record d                                                         *)
(*   rng   <<hi16, lo16>>  st->rng        err   st->error                     *)
(*   lpi   last_pitch_index               ld    loss_duration (2.5 ms units)  *)
(*   skip  skip_plc                       fold  prefilter_and_fold            *)
(*   pp ppo pg pgo pt pto  postfilter_period/_old, gain/_old (Q15: 3072*(qg+1))*)
(*                         tapset/_old                                        *)
(*   start end sc ds ch    start band, end band, stream_channels, downsample,  *)
(*                         channels                                            *)
(* Header h (the coded fields that drive this state; names as in FrameHdr!H0) *)
(*   [silence, pf, period, qg, tapset, transient]                              *)
(*   period = 16*2^octave + raw - 1  (celt_decoder.c:1137): 15..1022           *)
(*                                                                         *)
(* Build constants: float build, ENABLE_DEEP_PLC / DRED off (the lpcnet        *)
(* branches of celt_decode_lost are disabled: DeepPlc == FALSE), RESYNTH off   *)
(* (the encoder has no prefilter_*_old fields: they are ghosts here).          *)
(***************************************************************************)
EXTENDS Integers, Sequences, FiniteSets

CONSTANTS LossSat,     \* loss_duration saturates here          (10000, celt_decoder.c:957)
          NoiseAt      \* loss_duration >= NoiseAt: noise PLC    (40 = 100 ms, celt_decoder.c:639)

MinPeriod  == 15       \* COMBFILTER_MINPERIOD (celt.h:222)
MaxPeriod  == 1024     \* COMBFILTER_MAXPERIOD = MAX_PERIOD (celt.h:221, modes.h:40)
DecBuf     == 2048     \* DECODE_BUFFER_SIZE (celt_decoder.c:72)
ShortMdct  == 120      \* mode->shortMdctSize
Overlap    == 120      \* mode->overlap
PlcLagMin  == 100      \* PLC_PITCH_LAG_MIN
PlcLagMax  == 720      \* PLC_PITCH_LAG_MAX
NbEBands   == 21
DeepPlc    == FALSE    \* lpcnet == NULL in this build
VcSat      == 970      \* vbr_count saturates (celt_encoder.c:2342)

Max(a, b) == IF a > b THEN a ELSE b
Min(a, b) == IF a < b THEN a ELSE b
P2(n) == IF n = 0 THEN 1 ELSE IF n = 1 THEN 2 ELSE IF n = 2 THEN 4 ELSE IF n = 3 THEN 8 ELSE IF n = 4 THEN 16 ELSE 32
LMs == 0..3
FrameN(lm) == ShortMdct * P2(lm)             \* samples at 48 kHz
GainQ15(qg) == 3072 * (qg + 1)               \* QCONST16(.09375f,15)*(qg+1)  (celt_decoder.c:1141)

\* eband5ms (celt/modes.c:42)
EBands == <<0, 1, 2, 3, 4, 5, 6, 7, 8, 10, 12, 14, 16, 20, 24, 28, 34, 40, 48, 60, 78, 100>>
EB(i) == EBands[i + 1]

-----------------------------------------------------------------------------
(* 32-bit words as <<hi16, lo16>> (TLC integers are 32-bit signed: R6).       *)
(* celt_lcg_rand(seed) = 1664525*seed + 1013904223  (bands.h)                 *)
W0 == <<0, 0>>
\* a*b for a, b < 2^16 as <<hi16, lo16>> without exceeding 2^31
Mul16(a, b) == LET a1 == a \div 256  a0 == a % 256
                   p1 == a1 * b  p0 == a0 * b          \* < 2^24
                   lo == (p1 % 256) * 256 + p0          \* < 2^25
               IN <<((p1 \div 256) + (lo \div 65536)) % 65536, lo % 65536>>
MulW(x, y) == LET ll == Mul16(x[2], y[2]) IN
              <<(ll[1] + Mul16(x[1], y[2])[2] + Mul16(x[2], y[1])[2]) % 65536, ll[2]>>
AddW(x, y) == LET l == x[2] + y[2] IN <<(x[1] + y[1] + l \div 65536) % 65536, l % 65536>>
LcgA == <<25, 26125>>          \* 1664525   = 25*65536 + 26125
LcgC == <<15470, 62303>>       \* 1013904223 = 15470*65536 + 62303
Lcg(x) == AddW(MulW(LcgA, x), LcgC)
\* the affine map x -> A*x + C composed n times, by squaring: <<A, C>>
AffCompose(f, g) == <<MulW(f[1], g[1]), AddW(MulW(f[1], g[2]), f[2])>>     \* f after g
\* (operator arguments are evaluated once; a LET would be re-evaluated at every use and make the recursion exponential)
AffStep(f, h, odd) == IF odd THEN AffCompose(f, AffCompose(h, h)) ELSE AffCompose(h, h)
RECURSIVE AffPow(_, _)
AffPow(f, n) == IF n = 0 THEN <<<<0, 1>>, W0>> ELSE AffStep(f, AffPow(f, n \div 2), n % 2 = 1)
AffApply(f, x) == AddW(MulW(f[1], x), f[2])
LcgN(x, n) == AffApply(AffPow(<<LcgA, LcgC>>, n), x)

-----------------------------------------------------------------------------
(* Header                                                                    *)
H0 == [silence |-> 0, pf |-> 0, period |-> 0, qg |-> 0, tapset |-> 0, transient |-> 0]
\* what a conforming header can carry given the frame's LM and the start band (celt_decoder.c:1115-1152)
HdrOK(h, lm, start) ==
  /\ h.silence \in 0..1 /\ h.pf \in 0..1 /\ h.transient \in 0..1
  /\ (h.silence = 1 \/ start # 0) => h.pf = 0
  /\ h.pf = 0 => (h.period = 0 /\ h.qg = 0 /\ h.tapset = 0)
  /\ h.pf = 1 => (h.period \in MinPeriod..(MaxPeriod - 2) /\ h.qg \in 0..7 /\ h.tapset \in 0..2)
  /\ lm = 0 => h.transient = 0
\* the triple a header leaves in the decoder
NewP(h) == IF h.pf = 1 THEN h.period ELSE 0
NewG(h) == IF h.pf = 1 THEN GainQ15(h.qg) ELSE 0
NewT(h) == IF h.pf = 1 THEN h.tapset ELSE 0

-----------------------------------------------------------------------------
(* Decoder                                                                   *)
\* everything from DECODER_RESET_START on, after OPUS_RESET_STATE (celt_decoder.c:1538-1553): cleared, skip_plc = 1
Cleared == [rng |-> W0, err |-> 0, lpi |-> 0, ld |-> 0, skip |-> 1, pp |-> 0, ppo |-> 0, pg |-> 0, pgo |-> 0, pt |-> 0, pto |-> 0, fold |-> 0]
ResetFields == DOMAIN Cleared
\* celt_decoder_init(Fs, channels) (celt_decoder.c:195-236): downsample = 48000/Fs
DInit(ch, ds) == [f \in ResetFields \cup {"start", "end", "sc", "ds", "ch"} |->
                    IF f \in ResetFields THEN Cleared[f]
                    ELSE IF f = "start" THEN 0 ELSE IF f = "end" THEN NbEBands ELSE IF f = "sc" THEN ch ELSE IF f = "ds" THEN ds ELSE ch]
DReset(d) == [f \in DOMAIN d |-> IF f \in ResetFields THEN Cleared[f] ELSE d[f]]

\* the ctls the Opus layer issues before every frame (opus_decoder.c:557-580); bad values leave the state alone (celt_decoder.c:1497-1520)
CtlStart(d, v) == IF v < 0 \/ v >= NbEBands THEN d ELSE [d EXCEPT !.start = v]
CtlEnd(d, v)   == IF v < 1 \/ v > NbEBands THEN d ELSE [d EXCEPT !.end = v]
CtlChannels(d, v) == IF v < 1 \/ v > 2 THEN d ELSE [d EXCEPT !.sc = v]
CtlGetClearError(d) == [val |-> d.err, next |-> [d EXCEPT !.err = 0]]
EndOfBw(bw) == IF bw = 0 THEN 13 ELSE IF bw \in {1, 2} THEN 17 ELSE IF bw = 3 THEN 19 ELSE 21     \* NB MB WB SWB FB

\* a frame that is decoded (celt_decode_with_ec_dred, len > 1).  rngNew = dec->rng at the end of the frame, errBit = ec_get_error.
\* 1296-1297: both periods are clamped IN THE STATE before the rotation, so for LM = 0 the old period is never below 15;
\* 1307-1318: rotation; for LM # 0 the old triple is the new one as well.
DecodeFrame(d, lm, h, rngNew, errBit) ==
  LET p1 == Max(d.pp, MinPeriod) IN
  [d EXCEPT !.skip = IF d.ld = 0 THEN 0 ELSE d.skip,                          \* 1098
            !.ppo = IF lm = 0 THEN p1 ELSE NewP(h), !.pgo = IF lm = 0 THEN d.pg ELSE NewG(h), !.pto = IF lm = 0 THEN d.pt ELSE NewT(h),
            !.pp = NewP(h), !.pg = NewG(h), !.pt = NewT(h),
            !.rng = rngNew, !.ld = 0, !.fold = 0, !.err = IF errBit = 1 THEN 1 ELSE d.err]
\* ghosts of that frame: was prefilter_and_fold() run (1289), and the comb-filter calls <<T0, T1, offset of y in decode_mem, n>> (1298-1304)
DecodeFoldRun(d) == d.fold = 1
DecodeCombs(d, lm, h) ==
  LET p1 == Max(d.pp, MinPeriod) po1 == Max(d.ppo, MinPeriod) n == FrameN(lm) IN
  <<  <<po1, p1, DecBuf - n, ShortMdct, d.pgo, d.pg>> >> \o
  (IF lm # 0 THEN << <<p1, NewP(h), DecBuf - n + ShortMdct, n - ShortMdct, d.pg, NewG(h)>> >> ELSE <<>>)
\* comb_filter(y, x, T0, T1, N, g0, g1, ...) reads x[i - T - 2 .. i - T + 2] after clamping T to >= 15 (celt.c:213-214) unless both gains
\* are zero: the lowest index it touches, relative to the start of decode_mem
CombLowest(c) == IF c[5] = 0 /\ c[6] = 0 THEN c[3] ELSE c[3] - Max(Max(c[1], MinPeriod), Max(c[2], MinPeriod)) - 2
\* prefilter_and_fold(st, N) (507-545): comb_filter over `overlap` samples at decode_mem + DecBuf - N with the state's two triples
FoldComb(d, lm) == <<d.ppo, d.pp, DecBuf - FrameN(lm), Overlap, d.pgo, d.pg>>

\* the branch celt_decode_lost takes (633-640); start is the start band the Opus layer set
NoiseBased(d) == IF DeepPlc THEN FALSE ELSE d.ld >= NoiseAt \/ d.start # 0 \/ d.skip = 1
\* number of celt_lcg_rand() calls of the noise concealment (669-685): C = st->channels (not stream_channels)
EffEnd(d) == Max(d.start, Min(d.end, NbEBands))
NoiseDraws(d, lm) == d.ch * (EB(EffEnd(d)) - EB(d.start)) * P2(lm)

\* a frame that is concealed (celt_decode_lost).  lpiNew = what celt_plc_pitch_search returns (used only when ld = 0, pitch branch)
\* (rngNew: the seed the noise branch leaves behind - LoseFrame computes it; the exhaustive runs abstract it)
LoseFrameR(d, lm, lpiNew, rngNew) ==
  IF NoiseBased(d)
  THEN [d EXCEPT !.rng = rngNew, !.fold = 0, !.skip = 1, !.ld = Min(LossSat, d.ld + P2(lm))]
  ELSE [d EXCEPT !.lpi = IF d.ld = 0 THEN lpiNew ELSE d.lpi, !.fold = 1, !.ld = Min(LossSat, d.ld + P2(lm))]
LoseFrame(d, lm, lpiNew) == LoseFrameR(d, lm, lpiNew, IF NoiseBased(d) THEN LcgN(d.rng, NoiseDraws(d, lm)) ELSE d.rng)
LoseFoldRun(d) == NoiseBased(d) /\ d.fold = 1                            \* 657-659
\* ghosts: the fade of the pitch concealment (697-711: Q15ONE first, .8 on the following frames), in Q15; the decay of the noise
\* concealment (662) in half log2-units (1.5 first, .5 later)
FadeQ15(d) == IF d.ld = 0 THEN 32767 ELSE 26214
DecayHalf(d) == IF d.ld = 0 THEN 3 ELSE 1

\* how opus_decode_frame cuts a concealment request of `rem` units (opus_decoder.c:308-358), fz = st->frame_size in units
PlcPiece(rem, fz) == LET a == Min(Min(rem, 48), fz) IN IF a >= 8 THEN 8 ELSE IF a > 4 THEN 4 ELSE IF a = 3 THEN 2 ELSE a
LmOfUnits(a) == IF a = 1 THEN 0 ELSE IF a = 2 THEN 1 ELSE IF a = 4 THEN 2 ELSE 3

DTypeOK(d) ==
  /\ d.rng[1] \in 0..65535 /\ d.rng[2] \in 0..65535 /\ d.err \in 0..1
  /\ d.lpi \in {0} \cup PlcLagMin..PlcLagMax
  /\ d.ld \in 0..LossSat /\ d.skip \in 0..1 /\ d.fold \in 0..1
  /\ d.pp \in {0} \cup MinPeriod..(MaxPeriod - 2) /\ d.ppo \in {0} \cup MinPeriod..(MaxPeriod - 2)      \* validate_celt_decoder 152-155
  /\ d.pg \in {0} \cup {GainQ15(q) : q \in 0..7} /\ d.pgo \in {0} \cup {GainQ15(q) : q \in 0..7}
  /\ d.pt \in 0..2 /\ d.pto \in 0..2
  /\ d.start \in {0, 17} /\ d.end \in 1..NbEBands /\ d.start < d.end /\ d.sc \in 1..2 /\ d.ch \in 1..2 /\ d.ds \in {1, 2, 3, 4, 6}

-----------------------------------------------------------------------------
(* Encoder (the part that mirrors the decoder, and the integer bookkeeping)   *)
(*   pp pg pt          prefilter_period/gain/tapset   (ppo pgo pto: RESYNTH ghosts)*)
(*   ct consec_transient   lcb lastCodedBands   td tapset_decision  sd spread_decision*)
(*   ity intensity   vr vd vo vc  vbr_reservoir/drift/offset/count               *)
EClearedI == [pp |-> 0, pg |-> 0, pt |-> 0, ppo |-> 0, pgo |-> 0, pto |-> 0, ct |-> 0, lcb |-> 0, td |-> 0, sd |-> 2, ta |-> 256, hf |-> 0, ity |-> 0,
              vr |-> 0, vd |-> 0, vo |-> 0, vc |-> 0, di |-> 1, rng |-> W0]          \* celt_encoder.c:2767-2784
EReset(e) == [f \in DOMAIN e |-> IF f \in DOMAIN EClearedI THEN EClearedI[f] ELSE e[f]]

\* vbr_rate in eighth bits for a frame of LM (celt_encoder.c:1750-1753): (bitrate*N + 3000) / 6000
VbrRate(br, lm) == (br * FrameN(lm) + 3000) \div 6000

\* oracle o of one frame: pf/period/qg (run_prefilter's decision), pfree (the period run_prefilter leaves when the filter is off),
\* transient (coded bit), tgd (transient_got_disabled), coded (codedBands of the allocation), td/sd/ity (the analysis' new decisions),
\* vr/vd (reservoir and drift after the frame: float arithmetic / the byte choice, not predicted), rng
\* cfg: [start, C, lfe, cx, vbrOn, cv, hybrid]
EncHdr(e, o) == [silence |-> o.silence, pf |-> o.pf, period |-> IF o.pf = 1 THEN o.period ELSE 0, qg |-> IF o.pf = 1 THEN o.qg ELSE 0,
                 tapset |-> IF o.pf = 1 THEN e.td ELSE 0, transient |-> o.transient]       \* 1868: the tapset coded is the PREVIOUS decision
EncodeFrame(e, lm, o, cfg) ==
  LET np == IF o.pf = 1 THEN o.period ELSE o.pfree          \* 2488: pitch_index, whatever run_prefilter left in it
      ng == IF o.pf = 1 THEN GainQ15(o.qg) ELSE 0
      nt == e.td                                             \* 2490: prefilter_tapset = st->tapset_decision on entry
      p1 == Max(e.pp, MinPeriod) IN
  [e EXCEPT !.ppo = IF lm = 0 THEN p1 ELSE np, !.pgo = IF lm = 0 THEN e.pg ELSE ng, !.pto = IF lm = 0 THEN e.pt ELSE nt,   \* RESYNTH 2469-2496
            !.pp = np, !.pg = ng, !.pt = nt,
            !.ct = IF o.transient = 1 \/ o.tgd = 1 THEN e.ct + 1 ELSE 0,                                       \* 2527-2530
            !.lcb = IF e.lcb # 0 THEN Min(e.lcb + 1, Max(e.lcb - 1, o.coded)) ELSE o.coded,                      \* 2408-2411
            !.td = o.td, !.sd = o.sd, !.ity = o.ity,
            !.vc = IF cfg.vbrOn THEN Min(VcSat, e.vc + 1) ELSE e.vc,                                              \* 2342-2345
            !.vr = IF cfg.vbrOn /\ cfg.cv THEN o.vr ELSE e.vr,                                                     \* 2349-2367
            !.vd = IF cfg.vbrOn /\ cfg.cv THEN o.vd ELSE e.vd, !.vo = IF cfg.vbrOn /\ cfg.cv THEN 0 - o.vd ELSE e.vo,  \* 2354-2358
            !.di = o.di, !.ta = o.ta, !.hf = o.hf, !.rng = o.rng]
\* which oracle values the code can produce (the deterministic branches of celt_encoder.c:2140-2190, 2243-2245, 1863-1866, 1413-1416)
OracleOK(e, lm, o, cfg) ==
  /\ o.pf \in 0..1 /\ o.silence \in 0..1 /\ o.transient \in 0..1 /\ o.tgd \in 0..1
  /\ o.pf = 1 => (o.period \in MinPeriod..(MaxPeriod - 2) /\ o.qg \in 0..7)
  /\ o.pfree \in MinPeriod..(MaxPeriod - 2)
  /\ (cfg.hybrid \/ o.silence = 1 \/ cfg.cx < 5 \/ cfg.start # 0) => (o.pf = 0 /\ o.pfree = MinPeriod)           \* `enabled` is false
  /\ o.coded \in 0..NbEBands
  /\ o.td \in 0..2 /\ o.sd \in 0..3
  /\ cfg.lfe => (o.td = 0 /\ o.sd = 2)
  /\ (~cfg.lfe /\ (cfg.hybrid \/ o.transient = 1 \/ cfg.cx < 3)) => o.td = e.td
  /\ (~cfg.lfe /\ cfg.hybrid) => o.sd \in {2, IF cfg.cx = 0 THEN 0 ELSE IF o.transient = 1 THEN 2 ELSE 3}
  /\ (~cfg.lfe /\ ~cfg.hybrid /\ (o.transient = 1 \/ cfg.cx < 3)) => o.sd \in {2, IF cfg.cx = 0 THEN 0 ELSE 2}
  /\ (cfg.C = 1 => o.ity = 0) /\ (cfg.C = 2 => o.ity \in 0..NbEBands)       \* (rate.c interp_bits2pulses writes *intensity: 0 for mono)
  /\ o.vr >= 0

\* the constrained-VBR bucket, transcribed (celt_encoder.c:2321-2370); b = nbAvailableBytes chosen before the reservoir is updated
\* (silence: 2), out = bytes the frame finally has when the space does not cap it.  Same shape as Cvbr!BucketStep.
Bucket(res, rate, b, silent) ==
  LET r1 == res + 64 * b - rate
      adj == IF r1 < 0 /\ ~silent THEN (0 - r1) \div 64 ELSE 0
  IN [res |-> Max(0, r1), bytes |-> b + adj]
\* the most the bucket lets a frame take (1801-1803), lo = 2 when the MDCT layer starts the packet
MaxAllowed(res, rate, lo) == Max(lo, (2 * rate - res) \div 64)
BucketBound(rate) == rate + 128

ETypeOK(e) ==
  /\ e.pp \in {0} \cup MinPeriod..(MaxPeriod - 2) /\ e.pg \in {0} \cup {GainQ15(q) : q \in 0..7} /\ e.pt \in 0..2
  /\ e.ct >= 0 /\ e.lcb \in 0..NbEBands /\ e.td \in 0..2 /\ e.sd \in 0..3 /\ e.vc \in 0..VcSat /\ e.vr >= 0 /\ e.vo = 0 - e.vd

-----------------------------------------------------------------------------
(* The post-filter mirror: what "the decoder has the same triple" means.  A   *)
(* filter that is off is coded as one bit: the decoder then holds (0,0,0), the *)
(* encoder keeps run_prefilter's period and its tapset decision with gain 0 -  *)
(* comb_filter ignores a period whose gain is zero.                            *)
Mirror(d, e) == /\ d.pg = e.pg /\ (d.pg # 0 => (d.pp = e.pp /\ d.pt = e.pt))
MirrorOld(d, e) == /\ d.pgo = e.pgo /\ (d.pgo # 0 => (d.ppo = e.ppo /\ d.pto = e.pto))
=============================================================================
