------------------------- MODULE CeltDecStateTrace -------------------------
(***************************************************************************)
(* Validation of in-situ executions (harness/celtdecstate.c) against the      *)
(* CeltDecState machine.  After EVERY public call the harness records the     *)
(* private control state of the CELT decoder / encoder inside the Opus        *)
(* objects (start-up-checked mirrors + the OPUS_VERIF peek hooks), the coded   *)
(* header fields of every CELT frame of the packet (read with the library's    *)
(* range decoder), levels and twin comparisons.  TLC replays the machine with   *)
(* the oracle choices the observation fixes and compares.                       *)
(*                                                                         *)
(* Judgement (R1)                                                            *)
(*   drift  the recorded state is not the one the machine reaches (SPEC-DRIFT;  *)
(*          the model is re-synchronised on the observation)                    *)
(*   prop   C02.lockStep      post-filter mirror broken AND final ranges or     *)
(*                            sample counts differ                               *)
(*          C09.duration      a concealment / FEC request of a multiple of       *)
(*                            2.5 ms returned another count, or non-finite audio  *)
(*          C09.bounded       concealed level above the recent decoded level by   *)
(*                            more than BoundUp (calibrated, R3)                  *)
(*          C12.resetEqualsFresh  a reset object and a fresh twin disagree        *)
(*                            (decoder: samples / final range; encoder: bytes)    *)
(* Events: new, enc, dec (kind 0 decode, 1 conceal, 2 FEC), rst, end.          *)
(***************************************************************************)
EXTENDS CeltDecState, Json, IOUtils, TLC

CONSTANTS BoundUp,     \* 1/100 dB: a concealed call may exceed the loudest of the last RecentN decoded calls by at most this
          MonoTol,     \* (unused: a call-to-call monotonicity clause was dropped - 5 ms pieces of click signals rise by > 30 dB inside the pitch phase)
          RecentN

VARIABLES cur, md, me, aux, tseen
vars == <<cur, md, me, aux, tseen>>

Tr == ndJsonDeserialize(IOEnv.TRACE)

E0 == [f \in DOMAIN EClearedI |-> EClearedI[f]]
Aux0 == [efr |-> <<0, 0>>, er |-> 0, eq |-> 0, epp |-> 0, epg |-> 0, ept |-> 0, lv |-> <<>>, phase |-> "none", pcb |-> 0, fresh |-> FALSE, silkE |-> FALSE]

ObsD(e) == [rng |-> <<e.rh, e.rl>>, err |-> e.err, lpi |-> e.lpi, ld |-> e.ld, skip |-> e.skip, pp |-> e.pp, ppo |-> e.ppo, pg |-> e.pg, pgo |-> e.pgo,
            pt |-> e.pt, pto |-> e.pto, fold |-> e.fold, start |-> e.start, end |-> e.end, sc |-> e.sc, ds |-> e.ds, ch |-> e.ch]
\* (the RESYNTH ghosts are carried over from the model)
ObsE(e, m) == [pp |-> e.epp, pg |-> e.epg, pt |-> e.ept, ppo |-> m.ppo, pgo |-> m.pgo, pto |-> m.pto, ct |-> e.ct, lcb |-> e.lcb, td |-> e.td, sd |-> e.sd,
               ta |-> e.ta, hf |-> e.hf, ity |-> e.ity, vr |-> e.vr, vd |-> e.vd, vo |-> e.vo, vc |-> e.vc, di |-> e.di, rng |-> <<e.erh, e.erl>>]

DiffD(o, m) == {"d." \o f : f \in {g \in DOMAIN o : o[g] # m[g]}}
DiffE(o, m, fields) == {"e." \o f : f \in {g \in fields : o[g] # m[g]}}

HdrOf(f) == [silence |-> f[2], pf |-> f[3], period |-> f[4], qg |-> f[5], tapset |-> f[6], transient |-> f[7]]

Rej(cls, names) == PrintT("REJ " \o ToString(<<cur, cls, names>>))
T(c, name) == IF c THEN {name} ELSE {}
MaxSeq(s) == IF Len(s) = 0 THEN 0 - 14000 ELSE LET S == {s[i] : i \in 1..Len(s)} IN CHOOSE v \in S : \A w \in S : w <= v
PushLv(s, v) == IF Len(s) < RecentN THEN Append(s, v) ELSE Append(Tail(s), v)

-----------------------------------------------------------------------------
(* decoder side                                                              *)
\* the ctls of opus_decode_frame before the CELT call (opus_decoder.c:535-580); a coded frame carries its bandwidth
PrepDec(x, e) == CtlStart(CtlChannels(CtlEnd(x, EndOfBw(e.bw)), e.st), IF e.hy = 1 THEN 17 ELSE 0)
PrepPlc(x, mode) == CtlStart(CtlChannels(x, x.sc), IF mode = 1 THEN 17 ELSE 0)

\* result of a fold: [d, tags]
RECURSIVE Conceal(_, _, _, _, _)
Conceal(x, tg, rem, fz, lpi) ==
  IF rem <= 0 THEN [d |-> x, tg |-> tg]
  ELSE LET a == PlcPiece(rem, fz) lm == LmOfUnits(a) IN
       Conceal(LoseFrame(x, lm, lpi),
               tg \cup T(NoiseBased(x), "noisePlc") \cup T(~NoiseBased(x), "pitchPlc") \cup T(LoseFoldRun(x), "foldByNoise")
                  \cup T(~NoiseBased(x) /\ x.fold = 1, "foldRearmed") \cup T(x.ld = LossSat, "saturated") \cup T(NoiseBased(x) /\ x.start = 17, "hybridNoise")
                  \cup T(NoiseBased(x) /\ x.skip = 0 /\ x.start = 0, "noiseAfter100ms") \cup T(a # rem, "plcPieces"),
               rem - a, fz, lpi)

RECURSIVE DecFrames(_, _, _, _, _)
DecFrames(x, tg, e, i, o) ==
  IF i > Len(e.fr) THEN [d |-> x, tg |-> tg]
  ELSE LET f == e.fr[i] IN
       IF f[1] <= 1 THEN LET c == Conceal(PrepPlc(x, e.hy), tg \cup {"dtxFrame"}, P2(e.lm), P2(e.lm), o.lpi) IN DecFrames(c.d, c.tg, e, i + 1, o)
       ELSE LET y == PrepDec(x, e) h == HdrOf(f) IN
            DecFrames(DecodeFrame(y, e.lm, h, o.rng, IF o.err > y.err THEN 1 ELSE 0),
                      tg \cup T(DecodeFoldRun(y), "foldByDecode") \cup T(h.pf = 1, "pfOn") \cup T(h.pf = 0, "pfOff") \cup T(e.lm = 0 /\ y.pp = 0, "oldClamped")
                         \cup T(y.skip = 1 /\ y.ld # 0, "skipKept") \cup T(y.skip = 1 /\ y.ld = 0, "skipCleared") \cup T(h.silence = 1, "silence")
                         \cup T(e.hy = 1, "hybrid") \cup T(i > 1, "multiFrame") \cup (IF e.lm \in 0..3 THEN {<<"lm0", "lm1", "lm2", "lm3">>[e.lm + 1]} ELSE {}) \cup T(y.ds # 1, "downsample")
                         \cup T(h.tapset # 0, "tapsetCoded") \cup T(~HdrOK(h, e.lm, y.start), "BADHDR"),
                      e, i + 1, o)

StepDec(e) ==
  LET o == ObsD(e)
      expect == e.n * e.u
      \* what the machine does
      run == IF e.kind = 0
             THEN LET x0 == IF e.pm \in {0, 1, 2} /\ e.pm # e.hy /\ e.pr = 0 THEN DReset(md) ELSE md IN DecFrames(x0, {}, e, 1, o)
             ELSE IF e.pm = 3 THEN [d |-> md, tg |-> {"plcBeforeAnyFrame"}]
             ELSE LET mode == IF e.pr = 1 THEN 0 ELSE e.pm IN
                  IF mode = 2 THEN [d |-> md, tg |-> {"silkPlc"}]
                  ELSE Conceal(PrepPlc(md, mode), T(e.kind = 2, "fecAsPlc") \cup T(e.n \notin {1, 2, 4, 8}, "plcOdd"), e.n, e.fz, o.lpi)
      dd == DiffD(o, run.d) \cup T("BADHDR" \in run.tg, "hdr")
      concealed == e.kind # 0
      \* SILK-only frames (an encoder forced to hybrid falls back to them at low rates) and what follows them are DecOp's domain
      oos == (e.kind = 0 /\ e.hy = 2) \/ e.pm = 2
      \* real encoder against real decoder, on a delivered packet
      mirrorOK == (e.kind # 0) \/ (e.pg = aux.epg /\ (e.pg # 0 => (e.pp = aux.epp /\ e.pt = aux.ept)))
      lock == <<e.frh, e.frl>> = aux.efr /\ e.r = aux.eq * e.u
      phase == IF ~concealed THEN "none" ELSE IF e.fold = 1 THEN "pitch" ELSE "noise"
      props == T(e.kind = 0 /\ ~oos /\ ~mirrorOK /\ ~lock, "C02.lockStep")
               \cup T(concealed /\ (e.r # expect \/ e.fin # 1), "C09.duration")
               \cup T(concealed /\ e.pm # 3 /\ ~aux.fresh /\ Len(aux.lv) > 0 /\ e.cb > MaxSeq(aux.lv) + BoundUp, "C09.bounded")
               \cup T(e.tw = 1 /\ e.tws # 1, "C12.resetEqualsFresh")
      drift == IF oos THEN {} ELSE
               dd \cup T(e.kind = 0 /\ ~mirrorOK /\ lock, "mirror")
               \cup T(concealed /\ (e.frh # 0 \/ e.frl # 0), "plcRangeZero")
  IN /\ (IF props = {} THEN TRUE ELSE Rej("prop", props))
     /\ (IF drift = {} THEN TRUE ELSE Rej("drift", drift))
     /\ md' = o
     /\ aux' = [aux EXCEPT !.lv = IF e.kind = 0 /\ e.r > 0 THEN PushLv(aux.lv, e.cb) ELSE aux.lv, !.phase = phase, !.pcb = e.cb,
                           !.fresh = IF e.kind = 0 THEN FALSE ELSE aux.fresh]
     /\ tseen' = IF oos THEN tseen \cup {"outOfScopeSilk"} ELSE IF dd = {} THEN tseen \cup run.tg \cup T(e.tw = 1, "twinDec") \cup T(e.kind = 0 /\ e.pg # 0 /\ e.pgo # 0 /\ e.pp # e.ppo, "oldDiffers")
                                   \cup T(e.kind = 0 /\ aux.epg = 0 /\ aux.epp > MinPeriod, "offKeepsPeriod")
                 ELSE tseen
     /\ UNCHANGED me

-----------------------------------------------------------------------------
(* encoder side                                                              *)
StepEnc(e) ==
  LET nf == Len(e.fr)
      celt == e.hy = 0
      last == IF nf > 0 THEN HdrOf(e.fr[nf]) ELSE H0
      first == IF nf > 0 THEN HdrOf(e.fr[1]) ELSE H0
      vbrOn == e.vbr = 1 /\ e.bmax = 0
      cv == e.cv = 1
      anyTr == \E i \in 1..nf : e.fr[i][7] = 1
      rate == IF e.lm >= 0 /\ e.br < 2000000 THEN VbrRate(e.br, e.lm) ELSE 0
      n1 == IF nf = 1 THEN e.fr[1][1] ELSE 0
      silent == nf = 1 /\ last.silence = 1
      bucketOK ==
        IF ~(vbrOn /\ cv) THEN e.vr = me.vr /\ e.vd = me.vd /\ e.vo = me.vo
        ELSE /\ e.vr >= 0 /\ e.vo = 0 - e.vd
             /\ (celt /\ nf = 1 /\ e.lm >= 0 /\ n1 < 1275 \div P2(3 - e.lm) /\ e.r < 1500) =>
                  IF silent THEN e.vr = Max(0, me.vr + 128 - rate)
                  ELSE IF e.vr > 0 THEN 64 * n1 = e.vr - me.vr + rate
                  ELSE 64 * n1 <= rate - me.vr
             /\ (celt /\ nf = 1 /\ e.lm >= 0) => e.vr <= Max(BucketBound(rate), me.vr)     \* (a bitrate / frame-size drop leaves it above the new bound: it drains)
      names ==
        T(e.r <= 0, "encodeFailed")
        \cup T(nf > 0 /\ celt /\ last.pf = 1 /\ ~(e.epp = last.period /\ e.epg = GainQ15(last.qg) /\ e.ept = last.tapset), "e.codedTriple")
        \cup T(nf > 0 /\ (~celt \/ last.pf = 0) /\ ~(e.epg = 0 /\ e.epp \in MinPeriod..(MaxPeriod - 2)), "e.offTriple")
        \cup T(nf > 0 /\ (~celt \/ last.silence = 1 \/ e.cx < 5) /\ e.epp # MinPeriod, "e.disabledPeriod")
        \cup T(nf > 0 /\ celt /\ first.pf = 1 /\ first.tapset # me.td, "e.tapsetFromPreviousDecision")
        \cup T(nf > 0 /\ ~(e.ct \in 0..(nf - 1) \/ e.ct = me.ct + nf) , "e.ct")
        \cup T(nf > 0 /\ celt /\ last.transient = 1 /\ e.ct = 0, "e.ctTransient")
        \cup T(nf > 0 /\ me.lcb # 0 /\ ~(e.lcb \in (me.lcb - nf)..(me.lcb + nf)), "e.lcbSlew")
        \cup T(e.lcb \notin 0..NbEBands, "e.lcbRange")
        \cup T(e.vc # (IF vbrOn THEN Min(VcSat, me.vc + nf) ELSE me.vc), "e.vc")
        \cup T(~bucketOK, "e.reservoir")
        \cup T(e.td \notin 0..2 \/ e.sd \notin 0..3, "e.decisions")
        \cup T(nf > 0 /\ (~celt \/ e.cx < 3) /\ e.lfe = 0 /\ e.td # me.td, "e.tdKept")
        \cup T(nf > 0 /\ ~celt /\ e.lfe = 0 /\ e.sd \notin {2, IF e.cx = 0 THEN 0 ELSE IF last.transient = 1 THEN 2 ELSE 3}, "e.sdHybrid")
        \cup T(nf > 0 /\ e.esc = 1 /\ e.ity # 0, "e.intensityMono")
        \cup T(nf > 0 /\ e.ity \notin 0..NbEBands, "e.intensityRange")
        \cup T(nf = 1 /\ <<e.erh, e.erl>> # <<e.frh, e.frl>>, "e.rngIsFinalRange")
      props == T(e.tw = 1 /\ e.same # 1, "C12.resetEqualsFresh")
      oos == e.hy = 2 \/ aux.silkE          \* a SILK-only frame, or the first frame after one (the CELT encoder is reset and pre-filled)
  IN /\ (IF props = {} THEN TRUE ELSE Rej("prop", props))
     /\ (IF names = {} \/ oos THEN TRUE ELSE Rej("drift", names))
     /\ me' = ObsE(e, IF nf > 0 /\ e.lm >= 0
                      THEN EncodeFrame(me, e.lm, [pf |-> last.pf, period |-> last.period, qg |-> last.qg, pfree |-> e.epp, transient |-> last.transient, tgd |-> 0,
                                                   coded |-> e.lcb, td |-> e.td, sd |-> e.sd, ity |-> e.ity, vr |-> e.vr, vd |-> e.vd, di |-> e.di, ta |-> e.ta,
                                                   hf |-> e.hf, rng |-> <<e.erh, e.erl>>, silence |-> last.silence],
                                       [start |-> 0, C |-> e.esc, lfe |-> FALSE, cx |-> e.cx, vbrOn |-> vbrOn, cv |-> cv, hybrid |-> ~celt])
                      ELSE me)
     /\ aux' = [aux EXCEPT !.efr = <<e.frh, e.frl>>, !.er = e.r, !.eq = e.q, !.epp = e.epp, !.epg = e.epg, !.ept = e.ept, !.silkE = (e.hy = 2)]
     /\ tseen' = IF oos THEN tseen \cup {"outOfScopeSilk"} ELSE IF names = {} THEN tseen \cup T(vbrOn /\ cv, "cvbr") \cup T(vbrOn /\ ~cv, "vbr") \cup T(~vbrOn, "cbr") \cup T(e.tw = 1, "twinEnc")
                                    \cup T(e.ct >= 2, "consecTransient") \cup T(me.lcb # 0 /\ e.lcb # me.lcb, "lcbSlew") \cup T(e.vr > 0, "reservoirFilled")
                                    \cup T(nf > 0 /\ celt /\ first.pf = 1 /\ first.tapset # 0, "tapsetFromDecision") \cup T(e.vc = VcSat, "vcSaturated")
                 ELSE tseen
     /\ UNCHANGED md

StepRst(e) ==
  LET o == ObsD(e)
      dx == IF e.who \in {0, 2} THEN DReset(md) ELSE md
      ex == IF e.who \in {1, 2} THEN EReset(me) ELSE me
      oe == ObsE(e, ex)
      names == DiffD(o, dx) \cup DiffE(oe, ex, DOMAIN ex) \cup T(e.who \in {0, 2} /\ e.eqd # 1, "resetRegionDec") \cup T(e.who \in {1, 2} /\ e.eqe # 1, "resetRegionEnc")
               \cup T(e.who \in {0, 2} /\ dx # [DInit(md.ch, md.ds) EXCEPT !.start = md.start, !.end = md.end, !.sc = md.sc], "resetIsInit")
  IN /\ (IF names = {} THEN TRUE ELSE Rej("drift", names))
     /\ md' = o /\ me' = oe
     /\ aux' = IF e.who \in {0, 2} THEN [aux EXCEPT !.lv = <<>>, !.phase = "none", !.fresh = TRUE] ELSE aux
     /\ tseen' = tseen \cup T(e.who \in {0, 2}, "resetDec") \cup T(e.who \in {1, 2}, "resetEnc")

StepNew(e) ==
  LET o == ObsD(e) dx == DInit(e.ch, e.ds) oe == ObsE(e, E0)
      names == DiffD(o, dx) \cup DiffE(oe, E0, DOMAIN E0) \cup T(e.ds * e.fs # 48000, "downsample")
  IN /\ (IF names = {} THEN TRUE ELSE Rej("drift", names))
     /\ md' = o /\ me' = oe /\ aux' = [Aux0 EXCEPT !.fresh = TRUE] /\ tseen' = tseen \cup {"new"}

Init == cur = 1 /\ md = DInit(1, 1) /\ me = E0 /\ aux = Aux0 /\ tseen = {}

Next ==
  /\ cur <= Len(Tr)
  /\ LET e == Tr[cur] IN
     CASE e.k = "new" -> StepNew(e)
       [] e.k = "enc" -> StepEnc(e)
       [] e.k = "dec" -> StepDec(e)
       [] e.k = "rst" -> StepRst(e)
       [] OTHER -> UNCHANGED <<md, me, aux, tseen>>
  /\ cur' = cur + 1

Spec == Init /\ [][Next]_vars

\* printed when the cursor has passed the last event
Done == (cur > Len(Tr)) => PrintT("SEEN " \o ToString(tseen))
=============================================================================
