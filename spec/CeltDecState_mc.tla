------------------------- MODULE CeltDecState_mc -------------------------
(***************************************************************************)
(* Exhaustive runs of the CeltDecState machine: one real encoder and one     *)
(* real decoder joined by a channel that delivers or drops each frame, with   *)
(* concealment calls of odd sizes, resets of either side and layer (start     *)
(* band) changes, closed over LM 0..3 x header choices x loss patterns.        *)
(* Scaled constants: LossSat, NoiseAt (the traces are judged with 10000, 40).  *)
(*                                                                         *)
(* Refinement mapping to DecOp (the Opus-level operational model carries       *)
(* [ld, skip, pf] per CELT decoder):  Ref(d) == [ld |-> d.ld, skip |-> d.skip, *)
(* pf |-> d.pp];  DecodeFrame refines DecOp!CeltGood, LoseFrame refines        *)
(* DecOp!CeltLost, NoiseBased = DecOp!CeltNoise, DReset/DInit = DecOp!CeltInit,*)
(* PlcPiece = DecCtl!PlcPiece (CELT / hybrid, in 2.5 ms units).                *)
(***************************************************************************)
EXTENDS CeltDecState, TLC

CONSTANTS Lms,          \* frame sizes used
          Periods, Qgs, \* post-filter parameters an encoder may choose
          Codeds,       \* codedBands values
          VbrModes,     \* subset of {0, 1, 2}: CBR, VBR, CVBR
          Tgds,         \* transient_got_disabled choices
          PlcUnits,     \* sizes of concealment-only calls (2.5 ms units)
          Hybrids,      \* subset of {FALSE, TRUE}
          Cx,           \* complexity
          CtCap, VcCap, \* exploration bounds on consec_transient / vbr_count
          GenLen        \* 0: model checking; > 0: print every op history of this length (behaviour generation)

DO == INSTANCE DecOp WITH LossSat <- LossSat, NoiseAt <- NoiseAt, CntCap <- 0, GainFix <- TRUE
CV == INSTANCE Cvbr

VARIABLES d, e,        \* decoder / encoder control state
          hy,          \* the stream is hybrid (start band 17)
          sync,        \* 0 nothing known, 1 the current triple is mirrored, 2 the old one as well
          run,         \* ghosts of the current loss run: [units, phase, amp, drop, n]
          last,        \* the step just taken: [op, lm, foldRun, pd (decoder state before), combs]
          hist

vars == <<d, e, hy, sync, run, last, hist>>

Run0 == [units |-> 0, phase |-> "none", amp |-> 32768, drop |-> 0, n |-> 0]
Last0 == [op |-> "init", lm |-> 0, foldRun |-> FALSE, pd |-> DInit(1, 1), combs |-> <<>>, arg |-> 0]

E0 == [f \in DOMAIN EClearedI |-> EClearedI[f]]

Init == /\ d = DInit(1, 1) /\ e = E0 /\ hy = FALSE /\ sync = 2 /\ run = Run0 /\ last = Last0 /\ hist = <<>>

Cfg(vm) == [start |-> IF hy THEN 17 ELSE 0, C |-> 1, lfe |-> FALSE, cx |-> Cx, vbrOn |-> vm > 0, cv |-> vm = 2, hybrid |-> hy]

Oracles(lm, cfg) ==
  {o \in [pf : 0..1, period : Periods, qg : Qgs, pfree : Periods \cup {MinPeriod}, silence : 0..1, transient : 0..1, tgd : Tgds, coded : Codeds,
          td : 0..2, sd : {2}, ity : {e.ity}, vr : {0, 64}, vd : {0, 7}, di : {0}, ta : {256}, hf : {0}, rng : {<<1, 2>>}] :
      /\ OracleOK(e, lm, o, cfg) /\ (lm = 0 => o.transient = 0) /\ (o.pf = 0 => (o.period = MinPeriod /\ o.qg = 0))
      /\ (o.silence = 1 => (o.transient = 0 /\ o.tgd = 0))}

\* the Opus layer's ctls before a CELT call
Prep(x) == CtlStart(CtlChannels(CtlEnd(x, 21), 1), IF hy THEN 17 ELSE 0)

LoseStep(x, r, lm) ==      \* ghosts of one concealed frame
  LET nb == NoiseBased(x) IN
  [units |-> r.units + P2(lm), n |-> r.n + 1,
   phase |-> IF nb THEN "noise" ELSE "pitch",
   amp |-> IF nb THEN r.amp ELSE (r.amp * FadeQ15(x)) \div 32768,
   drop |-> IF nb THEN r.drop + DecayHalf(x) ELSE r.drop]

RECURSIVE LosePieces(_, _, _, _)
\* conceal `rem` units: fold LoseFrame over the pieces; returns [d, run, foldRuns, ops]
LosePieces(x, r, rem, fz) ==
  IF rem <= 0 THEN [d |-> x, run |-> r, folds |-> 0, pitchThenNoise |-> FALSE]
  ELSE LET a == PlcPiece(rem, fz) lm == LmOfUnits(a)
           x1 == LoseFrame(x, lm, PlcLagMin) r1 == LoseStep(x, r, lm)
           rest == LosePieces(x1, r1, rem - a, fz) IN
       [rest EXCEPT !.folds = rest.folds + (IF LoseFoldRun(x) THEN 1 ELSE 0)]

Push(op) == hist' = IF GenLen > 0 THEN Append(hist, op) ELSE hist

\* a frame is encoded and delivered
Good(lm, vm, o) ==
  LET cfg == Cfg(vm) h == EncHdr(e, o) x == Prep(d) IN
  /\ HdrOK(h, lm, cfg.start)
  /\ e' = EncodeFrame(e, lm, o, cfg)
  /\ d' = DecodeFrame(x, lm, h, o.rng, 0)
  /\ sync' = IF lm # 0 THEN 2 ELSE IF sync >= 1 THEN 2 ELSE 1
  /\ run' = Run0
  /\ last' = [op |-> "dec", lm |-> lm, foldRun |-> DecodeFoldRun(x), pd |-> x, combs |-> DecodeCombs(x, lm, h) \o (IF DecodeFoldRun(x) THEN <<FoldComb(x, lm)>> ELSE <<>>), arg |-> NewP(h)]
  /\ Push(1) /\ UNCHANGED hy

\* a frame is encoded and lost: the decoder conceals its duration
Lost(lm, vm, o) ==
  LET cfg == Cfg(vm) x == Prep(d) IN
  /\ HdrOK(EncHdr(e, o), lm, cfg.start)
  /\ e' = EncodeFrame(e, lm, o, cfg)
  /\ d' = LoseFrame(x, lm, PlcLagMin)
  /\ sync' = 0
  /\ run' = LoseStep(x, run, lm)
  /\ last' = [op |-> IF NoiseBased(x) THEN "noise" ELSE "pitch", lm |-> lm, foldRun |-> LoseFoldRun(x), pd |-> x,
              combs |-> IF LoseFoldRun(x) THEN <<FoldComb(x, lm)>> ELSE <<>>, arg |-> P2(lm)]
  /\ Push(2) /\ UNCHANGED hy

\* a concealment call of u units with no frame consumed (the encoder does not move): the mirror is unaffected
Plc(u, fz) ==
  LET x == Prep(d) res == LosePieces(x, run, u, fz) IN
  /\ d' = res.d /\ run' = res.run
  /\ last' = [op |-> "plc", lm |-> 0, foldRun |-> res.folds > 0, pd |-> x, combs |-> <<>>, arg |-> Min(Min(u, 48), fz) + 0 * res.folds]
  /\ Push(IF u = 3 THEN 3 ELSE 4) /\ UNCHANGED <<e, hy, sync>>

ResetDec == /\ d' = DReset(d) /\ sync' = 0 /\ run' = Run0 /\ last' = [Last0 EXCEPT !.op = "rdec", !.pd = d] /\ Push(5) /\ UNCHANGED <<e, hy>>
ResetEnc == /\ e' = EReset(e) /\ sync' = 0 /\ last' = [Last0 EXCEPT !.op = "renc", !.pd = d] /\ Push(7) /\ UNCHANGED <<d, hy, run>>
ResetBoth == /\ d' = DReset(d) /\ e' = EReset(e) /\ sync' = 2 /\ run' = Run0 /\ last' = [Last0 EXCEPT !.op = "rboth", !.pd = d] /\ Push(6) /\ UNCHANGED hy
\* layer change (the Opus decoder resets the CELT decoder when the mode changes: opus_decoder.c:586; the encoder side likewise starts afresh)
SetHybrid(b) == /\ b # hy /\ hy' = b /\ d' = DReset(d) /\ e' = EReset(e) /\ sync' = 2 /\ run' = Run0
                /\ last' = [Last0 EXCEPT !.op = "mode", !.pd = d] /\ Push(8)

Next ==
  \/ \E lm \in Lms, vm \in VbrModes : \E o \in Oracles(lm, Cfg(vm)) : Good(lm, vm, o) \/ Lost(lm, vm, o)
  \/ \E u \in PlcUnits, fz \in {1, 2, 4, 8} : Plc(u, fz)
  \/ ResetDec \/ ResetEnc \/ ResetBoth
  \/ \E b \in Hybrids : SetHybrid(b)

Spec == Init /\ [][Next]_vars

Bound == e.ct <= CtCap /\ e.vc <= VcCap /\ Len(hist) <= GenLen /\ run.n <= 12
\* (rng, the float-valued drift and ghosts that only count are not part of the fingerprint)
View == <<[d EXCEPT !.rng = W0], [e EXCEPT !.rng = W0], hy, sync, run, last, hist>>
GenView == hist

-----------------------------------------------------------------------------
(* Theorems                                                                  *)
Ref(x) == [ld |-> x.ld, skip |-> x.skip, pf |-> x.pp]

TypeOK == DTypeOK(d) /\ ETypeOK(e)

\* post-filter mirror
MirrorThm == /\ sync >= 1 => Mirror(d, e)
             /\ sync = 2 => MirrorOld(d, e)
             /\ last.op = "dec" => Mirror(d, e)                        \* one delivered frame re-synchronises the current triple
             /\ (last.op = "dec" /\ last.lm # 0) => MirrorOld(d, e)

\* periods: >= 15 where a filter is on, <= 1022; no comb filter call reads before decode_mem (nor the encoder's before its
\* COMBFILTER_MAXPERIOD history: T + 2 <= 1024)
PeriodThm == /\ d.pg # 0 => d.pp >= MinPeriod
             /\ d.pgo # 0 => d.ppo >= MinPeriod
             /\ (last.op = "dec" /\ last.lm = 0) => d.ppo >= MinPeriod
             /\ \A i \in 1..Len(last.combs) : CombLowest(last.combs[i]) >= 0
             /\ e.pp + 2 <= MaxPeriod /\ d.pp + 2 <= MaxPeriod /\ d.ppo + 2 <= MaxPeriod
             /\ DecBuf - FrameN(3) - (MaxPeriod - 2) - 2 >= 0

\* loss_duration = concealed time of the current run in 2.5 ms units, saturating; refinement of DecOp's CELT bookkeeping
LossThm == /\ d.ld = Min(LossSat, run.units)
           /\ last.op = "dec" => (d.ld = 0 /\ Ref(d) = DO!CeltGood(Ref(last.pd), last.arg))
           /\ last.op \in {"pitch", "noise"} => /\ Ref(d) = DO!CeltLost(Ref(last.pd), last.arg, last.pd.start)
                                                /\ (last.op = "noise") = DO!CeltNoise(Ref(last.pd), last.pd.start)
                                                /\ d.ld > 0 /\ d.ld >= last.pd.ld
           /\ last.op \in {"rdec", "rboth", "mode"} => Ref(d) = DO!CeltInit
           /\ DO!CeltTypeOK(Ref(d))
           \* pitch concealment only after two consecutive decoded frames since the last reset / noise concealment, only in the first
           \* NoiseAt units of a run, never in hybrid
           /\ last.op = "pitch" => (DO!CeltNeed(Ref(last.pd)) = 0 /\ last.pd.ld < NoiseAt /\ last.pd.start = 0)

\* fades: within a run the pitch phase comes first and never returns; its fade bound starts at 1 and shrinks by .8 per further
\* frame; the noise phase lowers the band energies by 1.5 (first frame of a run) or .5 per frame
FadeThm == /\ run.phase = "pitch" => (run.drop = 0 /\ run.amp <= 32767)
           /\ (last.op = "pitch" /\ last.pd.ld > 0) => FadeQ15(last.pd) < 32767
           /\ (last.op = "pitch" /\ last.pd.ld = 0) => FadeQ15(last.pd) = 32767
           /\ (last.op = "noise") => run.drop >= 1
           /\ (last.op = "pitch") => run.phase = "pitch"
           /\ run.n >= 2 /\ run.phase = "pitch" => run.amp <= 26214
           /\ run.n >= 5 /\ run.phase = "pitch" => run.amp < 16384

\* prefilter_and_fold: armed by a pitch-concealed frame, consumed exactly once by the next frame that is decoded or noise-concealed
FoldThm == /\ (d.fold = 1) <=> (last.op = "pitch" \/ (last.op = "plc" /\ run.phase = "pitch"))
           /\ last.op \in {"dec", "noise"} => (last.foldRun <=> last.pd.fold = 1)
           /\ last.op = "pitch" => ~last.foldRun

\* OPUS_RESET_STATE leaves exactly the state celt_decoder_init() builds (C12), keeping start/end/stream_channels/downsample
ResetThm == /\ last.op \in {"rdec", "rboth", "mode"} =>
                 /\ \A f \in ResetFields : d[f] = DInit(d.ch, d.ds)[f]
                 /\ \A f \in DOMAIN d \ ResetFields : d[f] = last.pd[f]
            /\ last.op \in {"renc", "rboth", "mode"} => e = E0

\* what the run must have visited (vacuity guard, printed)
Tags == (IF last.op = "pitch" THEN {"pitchPlc"} ELSE {}) \cup (IF last.op = "noise" THEN {"noisePlc"} ELSE {})
        \cup (IF last.foldRun /\ last.op = "dec" THEN {"foldByDecode"} ELSE {}) \cup (IF last.foldRun /\ last.op = "noise" THEN {"foldByNoise"} ELSE {})
        \cup (IF d.ld = LossSat THEN {"saturated"} ELSE {}) \cup (IF last.op = "dec" /\ last.lm = 0 /\ d.ppo = MinPeriod /\ last.pd.pp = 0 THEN {"oldClamped"} ELSE {})
        \cup (IF sync = 2 /\ d.pg # 0 /\ d.pgo # 0 /\ d.pp # d.ppo THEN {"mirrorBothOn"} ELSE {}) \cup (IF last.op = "plc" THEN {"plcOdd"} ELSE {})
        \cup (IF last.op = "dec" /\ d.pg = 0 /\ e.pp > MinPeriod THEN {"offKeepsPeriod"} ELSE {}) \cup (IF hy /\ last.op = "noise" THEN {"hybridNoise"} ELSE {})
        \cup (IF last.op = "dec" /\ last.pd.skip = 1 /\ d.skip = 1 THEN {"skipKept"} ELSE {}) \cup (IF last.op = "dec" /\ last.pd.skip = 1 /\ d.skip = 0 THEN {"skipCleared"} ELSE {})
        \cup (IF e.vc > 0 THEN {"vbrCount"} ELSE {}) \cup (IF e.lcb # 0 /\ last.op = "dec" THEN {"lcbSlew"} ELSE {})
TagsSeen == Tags = {} \/ PrintT("TAGS " \o ToString(Tags))

GenOut == (GenLen > 0 /\ Len(hist) = GenLen) => PrintT("SEQ " \o ToString(hist))

-----------------------------------------------------------------------------
(* Static theorems (no state): LCG arithmetic, the piece rule, the bucket     *)
RECURSIVE LcgIter(_, _)
LcgIter(x, n) == IF n = 0 THEN x ELSE LcgIter(Lcg(x), n - 1)
ASSUME Lcg(W0) = LcgC /\ Lcg(<<0, 1>>) = <<15495, 22892>>                    \* 1664525 + 1013904223 = 1015568748 = 15495*65536 + 22892... checked below
ASSUME \A x \in {W0, <<1, 2>>, <<65535, 65535>>, <<4660, 22136>>} : \A n \in {0, 1, 2, 7, 100, 200} : LcgN(x, n) = LcgIter(x, n)
ASSUME \A x \in {<<1, 2>>, <<65535, 65535>>} : LcgN(LcgN(x, 800), 800) = LcgN(x, 1600)
\* the piece rule is DecCtl's (CELT mode = 1002, 48 kHz: one unit = 120 samples), and covers every request with CELT frame sizes
ASSUME \A rem \in 1..50, fz \in {1, 2, 4, 8, 16, 24} :
          LET dd == [DO!DInit(48000, 1) EXCEPT !.frameSize = 120 * fz] IN
          /\ 120 * PlcPiece(rem, fz) = DO!PlcPiece(dd, 1002, 120 * rem)
          /\ PlcPiece(rem, fz) \in {1, 2, 4, 8} /\ PlcPiece(rem, fz) <= rem
\* the bucket: our transcription equals Cvbr!BucketStep; within MaxAllowed the reservoir stays within Cvbr!BucketBound
ASSUME \A res \in {0, 1, 63, 64, 500, 3000, 6528}, rate \in {128, 640, 1280, 6400}, b \in {0, 1, 2, 3, 10, 20, 100, 199}, s \in BOOLEAN :
          LET m == Bucket(res, rate, b, s) c == CV!BucketStep(res, rate, b, s, 100000) IN
          /\ m.res = c.res /\ m.bytes = c.bytes /\ m.res >= 0
          /\ MaxAllowed(res, rate, 2) = CV!MaxAllowed(res, rate, 2, 100000)
          /\ (res <= BucketBound(rate) /\ b <= MaxAllowed(res, rate, 2)) => m.res <= BucketBound(rate)
          /\ BucketBound(rate) = CV!BucketBound(rate)
=============================================================================
