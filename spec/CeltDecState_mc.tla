------------------------- MODULE CeltDecState_mc -------------------------
(***************************************************************************)
(* Exhaustive runs of the CeltDecState machine: one real encoder and one     *)
(* real decoder joined by a channel that delivers or drops each frame, with   *)
(* concealment calls of odd sizes, resets of either side and layer (start     *)
(* band) changes, closed over LM 0..3 x header choices x loss patterns.        *)
(* Scaled constants: LossSat, NoiseAt (the traces are judged with 10000, 40).  *)
(*                                                                         *)
(* Refinement mapping to DecOp (the Opus-level operational model carries       *)
(* [ld, skip, pf] per CELT decoder):  Ref(d) == [ld |-> d.ld, skip |-> d.skip, *)
(* pf |-> d.pp];  DecodeFrame refines DecOp!CeltGood, LoseFrame refines        *)
(* DecOp!CeltLost, NoiseBased = DecOp!CeltNoise, DReset/DInit = DecOp!CeltInit,*)
(* PlcPiece = DecCtl!PlcPiece (CELT / hybrid, in 2.5 ms units).                *)
(***************************************************************************)
EXTENDS CeltDecState, TLC

CONSTANTS Lms,          \* frame sizes used
          Periods, Qgs, \* post-filter parameters an encoder may choose
          Codeds,       \* codedBands values
          VbrModes,     \* subset of {0, 1, 2}: CBR, VBR, CVBR
          Tgds,         \* transient_got_disabled choices
          PlcUnits,     \* sizes of concealment-only calls (2.5 ms units)
          Hybrids,      \* subset of {FALSE, TRUE}
          Cx,           \* complexity
          Tds, Vrs, Vds,
          CtCap, VcCap, \* exploration bounds on consec_transient / vbr_count
          GenLen        \* 0: model checking; > 0: print every op history of this length (behaviour generation)

DO == INSTANCE DecOp WITH LossSat <- LossSat, NoiseAt <- NoiseAt, CntCap <- 0, GainFix <- TRUE
CV == INSTANCE Cvbr

VARIABLES d, e,        \* decoder / encoder control state
          hy,          \* the stream is hybrid (start band 17)
          sync,        \* 0 nothing known, 1 the current triple is mirrored, 2 the old one as well
          run,         \* ghosts of the current loss run: [units, phase, amp, drop, n]
          hist

vars == <<d, e, hy, sync, run, hist>>

Run0 == [units |-> 0, phase |-> "none", amp |-> 32768, drop |-> 0, n |-> 0]
E0 == [f \in DOMAIN EClearedI |-> EClearedI[f]]

Init == /\ TLCSet(1, {})
        /\ d = DInit(1, 1) /\ e = E0 /\ hy = FALSE /\ sync = 2 /\ run = Run0 /\ hist = <<>>

Cfg(vm) == [start |-> IF hy THEN 17 ELSE 0, C |-> 1, lfe |-> FALSE, cx |-> Cx, vbrOn |-> vm > 0, cv |-> vm = 2, hybrid |-> hy]

\* the oracle values of one frame, built constructively (OracleOK is asserted on each in Good / Lost)
PfChoices(cfg) == IF cfg.hybrid \/ cfg.cx < 5 THEN {<<0, MinPeriod, 0, MinPeriod>>}
                  ELSE {<<0, MinPeriod, 0, pf>> : pf \in Periods \cup {MinPeriod}} \cup {<<1, p, q, MinPeriod>> : p \in Periods, q \in Qgs}
FlagChoices(lm) == {<<0, 0>>, <<1, 0>>} \cup (IF lm > 0 THEN {<<0, 1>>} ELSE {})
Oracles(lm, cfg) ==
  {[pf |-> pc[1], period |-> pc[2], qg |-> pc[3], pfree |-> pc[4], silence |-> fl[1], transient |-> fl[2], tgd |-> tg, coded |-> cb,
    td |-> IF cfg.hybrid \/ fl[2] = 1 THEN e.td ELSE t, sd |-> 2, ity |-> e.ity, vr |-> v[1], vd |-> v[2], di |-> 0, ta |-> 256, hf |-> 0, rng |-> <<1, 2>>] :
      pc \in {q \in PfChoices(cfg) : TRUE}, fl \in FlagChoices(lm), tg \in Tgds, cb \in Codeds, t \in Tds, v \in Vrs \X Vds}
OraOK(lm, o, cfg) == ~(o.silence = 1 /\ (o.pf = 1 \/ o.pfree # MinPeriod \/ o.tgd = 1)) /\ Assert(OracleOK(e, lm, o, cfg), <<"OracleOK", o>>)

\* the Opus layer's ctls before a CELT call
Prep(x) == CtlStart(CtlChannels(CtlEnd(x, 21), 1), IF hy THEN 17 ELSE 0)

LoseStep(x, r, lm) ==      \* ghosts of one concealed frame
  LET nb == NoiseBased(x) IN
  [units |-> Min(LossSat, r.units + P2(lm)), n |-> Min(6, r.n + 1),
   phase |-> IF nb THEN "noise" ELSE "pitch",
   amp |-> IF nb THEN r.amp ELSE (r.amp * FadeQ15(x)) \div 32768,
   drop |-> IF nb THEN Min(8, r.drop + DecayHalf(x)) ELSE r.drop]

Ref(x) == [ld |-> x.ld, skip |-> x.skip, pf |-> x.pp]

\* each worker prints a tag the first time it meets it (vacuity guard of lib/checks/G12.py)
Emit(t) == LET old == TLCGet(1) IN IF t \subseteq old THEN TRUE ELSE PrintT("TAGS " \o ToString(t \ old)) /\ TLCSet(1, old \cup t)
T(c, name) == IF c THEN {name} ELSE {}

-----------------------------------------------------------------------------
(* Step theorems, asserted on every transition that is generated              *)
\* a decoded frame: x before (after the ctls), y after, e1 the encoder after
DecStepThm(x, y, e1, lm, h) ==
  /\ Mirror(y, e1)                                                        \* one delivered frame re-synchronises the current triple
  /\ lm # 0 => MirrorOld(y, e1)
  /\ lm = 0 => y.ppo >= MinPeriod                                         \* the clamp in the state (1296-1297)
  /\ \A c \in {DecodeCombs(x, lm, h)[i] : i \in 1..Len(DecodeCombs(x, lm, h))} \cup (IF DecodeFoldRun(x) THEN {FoldComb(x, lm)} ELSE {}) : CombLowest(c) >= 0
  /\ y.ld = 0 /\ y.fold = 0
  /\ Ref(y) = DO!CeltGood(Ref(x), NewP(h))                                \* refinement of DecOp
  /\ DecodeFoldRun(x) <=> x.fold = 1
\* a concealed frame
LoseStepThm(x, y, lm) ==
  /\ Ref(y) = DO!CeltLost(Ref(x), P2(lm), x.start)
  /\ NoiseBased(x) = DO!CeltNoise(Ref(x), x.start)
  /\ y.ld > 0 /\ y.ld >= x.ld /\ y.ld = Min(LossSat, x.ld + P2(lm))
  /\ <<y.pp, y.ppo, y.pg, y.pgo, y.pt, y.pto>> = <<x.pp, x.ppo, x.pg, x.pgo, x.pt, x.pto>>      \* a lost frame leaves the filter alone
  /\ ~NoiseBased(x) => /\ DO!CeltNeed(Ref(x)) = 0 /\ x.ld < NoiseAt /\ x.start = 0        \* pitch PLC: two decoded frames, early, not hybrid
                       /\ y.fold = 1 /\ ~LoseFoldRun(x)                                     \* arms (or re-arms) the fold, never runs it
                       /\ FadeQ15(x) = (IF x.ld = 0 THEN 32767 ELSE 26214)
                       /\ (x.ld > 0 => y.lpi = x.lpi)
  /\ NoiseBased(x) => /\ y.fold = 0 /\ y.skip = 1 /\ (LoseFoldRun(x) <=> x.fold = 1)
                      /\ DecayHalf(x) = (IF x.ld = 0 THEN 3 ELSE 1) /\ y.lpi = x.lpi
                      /\ (LoseFoldRun(x) => CombLowest(FoldComb(x, lm)) >= 0)
ResetStepThm(x, y) ==
  /\ \A f \in ResetFields : y[f] = DInit(x.ch, x.ds)[f]
  /\ \A f \in DOMAIN x \ ResetFields : y[f] = x[f]
  /\ Ref(y) = DO!CeltInit

RECURSIVE LosePieces(_, _, _, _)
\* conceal `rem` units: fold LoseFrame over the pieces (asserting the step theorem on each); returns [d, run]
LosePieces(x, r, rem, fz) ==
  IF rem <= 0 THEN [d |-> x, run |-> r]
  ELSE LET a == PlcPiece(rem, fz) lm == LmOfUnits(a) x1 == LoseFrameR(x, lm, PlcLagMin, x.rng) IN
       IF Assert(LoseStepThm(x, x1, lm), <<"LoseStepThm", x, lm>>) THEN LosePieces(x1, LoseStep(x, r, lm), rem - a, fz) ELSE [d |-> x, run |-> r]

Push(op) == hist' = IF GenLen > 0 THEN Append(hist, op) ELSE hist

\* a frame is encoded and delivered
Good(lm, vm, o) ==
  LET cfg == Cfg(vm) h == EncHdr(e, o) x == Prep(d) IN
  \E y \in {DecodeFrame(x, lm, h, o.rng, 0)}, e1 \in {EncodeFrame(e, lm, o, cfg)} :
  /\ OraOK(lm, o, cfg) /\ Assert(HdrOK(h, lm, cfg.start), <<"HdrOK", h>>)
  /\ Assert(DecStepThm(x, y, e1, lm, h), <<"DecStepThm", x, lm, h>>)
  /\ e' = e1 /\ d' = y
  /\ sync' = IF lm # 0 THEN 2 ELSE IF sync >= 1 THEN 2 ELSE 1
  /\ run' = Run0
  /\ Emit(T(DecodeFoldRun(x), "foldByDecode") \cup T(lm = 0 /\ x.pp = 0, "oldClamped") \cup T(x.skip = 1 /\ y.skip = 1, "skipKept")
          \cup T(x.skip = 1 /\ y.skip = 0, "skipCleared") \cup T(y.pg = 0 /\ e1.pp > MinPeriod, "offKeepsPeriod")
          \cup T(y.pg # 0 /\ y.pgo # 0 /\ y.pp # y.ppo, "oldDiffers") \cup T(e1.vc > 0, "vbrCount") \cup T(e.lcb # 0 /\ e1.lcb # e.lcb, "lcbSlew")
          \cup T(e1.ct >= 2, "consecTransient") \cup T(o.silence = 1, "silence") \cup T(hy, "hybridFrame") \cup T(h.tapset # 0, "tapsetCoded"))
  /\ Push(1) /\ UNCHANGED hy

\* a frame is encoded and lost: the decoder conceals its duration
Lost(lm, vm, o) ==
  LET cfg == Cfg(vm) x == Prep(d) IN
  \E y \in {LoseFrameR(x, lm, PlcLagMin, x.rng)} :          \* (the seed is abstracted here: LcgN is checked by the ASSUMEs below and on the traces)
  /\ OraOK(lm, o, cfg)
  /\ Assert(LoseStepThm(x, y, lm), <<"LoseStepThm", x, lm>>)
  /\ e' = EncodeFrame(e, lm, o, cfg)
  /\ d' = y
  /\ sync' = 0
  /\ run' = LoseStep(x, run, lm)
  /\ Emit(T(NoiseBased(x), "noisePlc") \cup T(~NoiseBased(x), "pitchPlc") \cup T(LoseFoldRun(x), "foldByNoise") \cup T(y.ld = LossSat /\ x.ld = LossSat, "saturated")
          \cup T(hy /\ NoiseBased(x), "hybridNoise") \cup T(~NoiseBased(x) /\ x.fold = 1, "foldRearmed"))
  /\ Push(2) /\ UNCHANGED hy

\* a concealment call of u units with no frame consumed (the encoder does not move): the mirror is unaffected
Plc(u, fz) ==
  LET x == Prep(d) res == LosePieces(x, run, u, fz) IN
  /\ d' = res.d /\ run' = res.run
  /\ Emit({"plcOdd"})
  /\ Push(IF u = 3 THEN 3 ELSE 4) /\ UNCHANGED <<e, hy, sync>>

ResetDec == /\ Assert(ResetStepThm(d, DReset(d)), "ResetStepThm") /\ d' = DReset(d) /\ sync' = 0 /\ run' = Run0 /\ Push(5) /\ UNCHANGED <<e, hy>>
ResetEnc == /\ e' = EReset(e) /\ Assert(EReset(e) = E0, "EncResetThm") /\ sync' = 0 /\ Push(7) /\ UNCHANGED <<d, hy, run>>
ResetBoth == /\ d' = DReset(d) /\ e' = EReset(e) /\ sync' = 2 /\ run' = Run0 /\ Push(6) /\ UNCHANGED hy
\* layer change (the Opus decoder resets the CELT decoder when the mode changes: opus_decoder.c:586; the encoder side likewise starts afresh)
SetHybrid(b) == /\ b # hy /\ hy' = b /\ d' = DReset(d) /\ e' = EReset(e) /\ sync' = 2 /\ run' = Run0 /\ Push(8)

Next ==
  \/ \E lm \in Lms, vm \in VbrModes : \E o \in Oracles(lm, Cfg(vm)) : Good(lm, vm, o) \/ Lost(lm, vm, o)
  \/ \E u \in PlcUnits, fz \in {1, 2, 4, 8} : Plc(u, fz)
  \/ ResetDec \/ ResetEnc \/ ResetBoth
  \/ \E b \in Hybrids : SetHybrid(b)

Spec == Init /\ [][Next]_vars

Bound == e.ct <= CtCap /\ e.vc <= VcCap /\ Len(hist) <= GenLen
\* (rng is not part of the fingerprint)
View == <<[d EXCEPT !.rng = W0], [e EXCEPT !.rng = W0], hy, sync, run, hist>>
GenView == hist

-----------------------------------------------------------------------------
(* State theorems                                                            *)
TypeOK == DTypeOK(d) /\ ETypeOK(e)

\* post-filter mirror on loss-free streams (sync = 2 from a common reset as long as every frame is delivered)
MirrorThm == /\ sync >= 1 => Mirror(d, e)
             /\ sync = 2 => MirrorOld(d, e)

\* periods: >= 15 where a filter is on, <= 1022 (T + 2 <= COMBFILTER_MAXPERIOD: the encoder's history, and the decoder's
\* DECODE_BUFFER_SIZE - N - T - 2 >= 0 for the longest frame)
PeriodThm == /\ d.pg # 0 => d.pp >= MinPeriod
             /\ d.pgo # 0 => d.ppo >= MinPeriod
             /\ e.pp + 2 <= MaxPeriod /\ d.pp + 2 <= MaxPeriod /\ d.ppo + 2 <= MaxPeriod
             /\ DecBuf - FrameN(3) - (MaxPeriod - 2) - 2 >= 0

\* loss_duration = concealed time of the current run in 2.5 ms units, saturating
LossThm == d.ld = run.units /\ DO!CeltTypeOK(Ref(d))

\* fades: within a run the pitch phase comes first and never returns; its fade bound starts at 1 and shrinks by .8 per further
\* frame; the noise phase lowers the band energies by 1.5 (first frame of a run) or .5 per frame
FadeThm == /\ run.phase = "pitch" => (run.drop = 0 /\ run.amp <= 32767)
           /\ run.phase = "noise" => run.drop >= 1
           /\ (run.n >= 2 /\ run.phase = "pitch") => run.amp <= 26214
           /\ (run.n >= 5 /\ run.phase = "pitch") => run.amp < 16384
           /\ run.phase = "none" <=> run.n = 0

\* prefilter_and_fold is armed exactly while the last CELT frame was pitch-concealed
FoldThm == (d.fold = 1) <=> (run.phase = "pitch")

GenOut == (GenLen > 0 /\ Len(hist) = GenLen) => PrintT("SEQ " \o ToString(hist))

-----------------------------------------------------------------------------
(* Static theorems (no state): LCG arithmetic, the piece rule, the bucket     *)
RECURSIVE LcgIter(_, _)
LcgIter(x, n) == IF n = 0 THEN x ELSE LcgIter(Lcg(x), n - 1)
ASSUME Lcg(W0) = LcgC /\ Lcg(<<0, 1>>) = <<15496, 22892>>                    \* 1664525 + 1013904223
ASSUME \A x \in {W0, <<1, 2>>, <<65535, 65535>>, <<4660, 22136>>} : \A n \in {0, 1, 2, 7, 100, 200} : LcgN(x, n) = LcgIter(x, n)
ASSUME \A x \in {<<1, 2>>, <<65535, 65535>>} : LcgN(LcgN(x, 800), 800) = LcgN(x, 1600)
\* the piece rule is DecCtl's (CELT mode = 1002, 48 kHz: one unit = 120 samples), and covers every request with CELT frame sizes
ASSUME \A rem \in 1..50, fz \in {1, 2, 4, 8, 16, 24} :
          LET dd == [DO!DecInit(48000, 1) EXCEPT !.frameSize = 120 * fz] IN
          /\ 120 * PlcPiece(rem, fz) = DO!PlcPiece(dd, 1002, 120 * rem)
          /\ PlcPiece(rem, fz) \in {1, 2, 4, 8} /\ PlcPiece(rem, fz) <= rem
\* the bucket: our transcription equals Cvbr!BucketStep; within MaxAllowed the reservoir stays within Cvbr!BucketBound
ASSUME \A res \in {0, 1, 63, 64, 500, 3000, 6528}, rate \in {128, 640, 1280, 6400}, b \in {0, 1, 2, 3, 10, 20, 100, 199}, s \in BOOLEAN :
          LET m == Bucket(res, rate, b, s) c == CV!BucketStep(res, rate, b, s, 100000) IN
          /\ m.res = c.res /\ m.bytes = c.bytes /\ m.res >= 0
          /\ MaxAllowed(res, rate, 2) = CV!MaxAllowed(res, rate, 2, 100000)
          /\ (res <= BucketBound(rate) /\ b <= MaxAllowed(res, rate, 2)) => m.res <= BucketBound(rate)
          /\ BucketBound(rate) = CV!BucketBound(rate)
=============================================================================
