-------------------------------- MODULE Cvbr --------------------------------
(***************************************************************************)
(* Rate control of the Opus encoder as far as property C05 speaks about it: *)
(*  (i)   the size of a packet when VBR is off ("CBR"): the meaning of       *)
(*        round(bitrate x duration / 8) clipped to [1, min(max, 1276)], the   *)
(*        OPUS_BITRATE_MAX rule, and the integer expression the encoder uses  *)
(*        (src/opus_encoder.c, user_bitrate_to_bitrate and the cbr_bytes      *)
(*        computation) so that TLC can compare the two (Cvbr_mc, CbrFormula); *)
(*  (ii)  the constrained-VBR leaky bucket of the MDCT layer                 *)
(*        (celt/celt_encoder.c: vbr_reservoir), loose in what the encoder     *)
(*        chooses per frame, with the theorem that the bucket is bounded and  *)
(*        therefore the bytes of any run of frames exceed their target by at  *)
(*        most one bucket;                                                    *)
(*  (iii) the per-stream byte budget loop of the multistream encoder          *)
(*        (src/opus_multistream_encoder.c) with theorem NeverOverrun.         *)
(* Durations are counted in units of 2.5 ms (q = 1, 2, 4, 8, 16, 24, 32, 40,  *)
(* 48): frame_size = q * Fs / 400 for every legal frame size, so             *)
(* bitrate x duration / 8 = bitrate * q / 3200 bytes whatever Fs is.          *)
(***************************************************************************)
EXTENDS EncCtl

QSet == {1, 2, 4, 8, 16, 24, 32, 40, 48}
QOf(Fs, frameSize) == (frameSize * 400) \div Fs
Abs(i) == IF i < 0 THEN 0 - i ELSE i

-----------------------------------------------------------------------------
(* (i) CBR size.                                                            *)

\* the integers nearest to num/den (den > 0): one, or two when num/den lies exactly half way
Nearest(num, den) == LET f == num \div den IN {n \in {f, f + 1} : 2 * Abs(n * den - num) <= den}
\* ... ties upwards
RoundHalfUp(num, den) == CHOOSE n \in Nearest(num, den) : \A m \in Nearest(num, den) : m <= n

Clip(n, maxBytes) == Max(1, Min(n, Min(maxBytes, 1276)))

\* the property: every admissible size (a set, so that an exact tie does not decide the verdict)
CbrSizesQ(bitrate, q, maxBytes) == {Clip(n, maxBytes) : n \in Nearest(bitrate * q, 3200)}
CbrSizeQ(bitrate, q, maxBytes)  == Clip(RoundHalfUp(bitrate * q, 3200), maxBytes)
CbrSizes(bitrate, Fs, frameSize, maxBytes) == CbrSizesQ(bitrate, QOf(Fs, frameSize), maxBytes)
CbrSize(bitrate, Fs, frameSize, maxBytes)  == CbrSizeQ(bitrate, QOf(Fs, frameSize), maxBytes)

\* OPUS_BITRATE_MAX: the packet fills the buffer, up to 1276 bytes when it holds a single frame
MaxFill(count, maxBytes) == IF count = 1 THEN Min(maxBytes, 1276) ELSE maxBytes

\* what OPUS_AUTO stands for (not documented; bound as model conformance only)
AutoBitrate(Fs, ch, frameSize) == (60 * Fs) \div frameSize + Fs * ch

(* The implementation's integer arithmetic, transcribed.  12*bitrate <= 12*4083200 and           *)
(* mdb*8*Fs <= 1276*8*48000 stay below 2^31 (R6).                                                 *)
CodeResolve(user, Fs, ch, frameSize, mdb) ==
  IF user = OPUS_AUTO THEN AutoBitrate(Fs, ch, frameSize)
  ELSE IF user = OPUS_BITRATE_MAX THEN (mdb * 8 * Fs) \div frameSize
  ELSE user
CodeCbrBytes(bitrate, Fs, frameSize) ==
  LET fr12 == (12 * Fs) \div frameSize IN ((12 * bitrate) \div 8 + fr12 \div 2) \div fr12
CodeCbr(user, Fs, ch, frameSize, outBytes) ==
  LET mdb == Min(1276, outBytes)
      b   == CodeResolve(user, Fs, ch, frameSize, mdb)
  IN Max(1, Min(CodeCbrBytes(b, Fs, frameSize), mdb))

\* theorem CbrFormula (checked by Cvbr_mc over the grid)
CbrFormulaAt(user, Fs, ch, q, outBytes) ==
  LET fsz == (q * Fs) \div 400
      c   == CodeCbr(user, Fs, ch, fsz, outBytes) IN
  /\ QOf(Fs, fsz) = q
  /\ user = OPUS_BITRATE_MAX => c = MaxFill(1, outBytes)
  /\ user = OPUS_AUTO => c = CbrSize(AutoBitrate(Fs, ch, fsz), Fs, fsz, outBytes)
  /\ user > 0 => /\ c = CbrSize(user, Fs, fsz, outBytes)
                 /\ c \in CbrSizes(user, Fs, fsz, outBytes)
                 /\ c \in 1..Min(outBytes, 1276)

(* Multistream: one packet for all streams; no 1276 limit; it cannot be smaller than the      *)
(* smallest packet the layout allows.                                                          *)
SmallestPacket(S, is100) == 2 * S - 1 + (IF is100 THEN S ELSE 0)
MsClamp(v, nch) == IF v = OPUS_AUTO \/ v = OPUS_BITRATE_MAX THEN v
                   ELSE Min(300000 * nch, Max(500 * nch, v))
MsCbrSizesQ(bitrate, q, maxBytes, S) ==
  {Min(maxBytes, Max(SmallestPacket(S, q = 40), n)) : n \in Nearest(bitrate * q, 3200)}
\* what the implementation computes: 3*bitrate/(3*8*Fs/frame_size), i.e. the bytes rounded down
MsCodeCbrQ(bitrate, q, maxBytes, S) ==
  Min(maxBytes, Max(SmallestPacket(S, q = 40), (3 * bitrate) \div (9600 \div q)))

-----------------------------------------------------------------------------
(* (ii) The constrained-VBR bucket.  All quantities in eighth-bits, as in the code:              *)
(*  rate  target of the frame (vbr_rate), res  the reservoir,                                    *)
(*  a frame of b bytes has target 64*b; the encoder may choose any b between lo (2 when the       *)
(*  MDCT layer starts the packet, 0 in hybrid mode) and MaxAllowed, limited by the space cap.     *)
MaxAllowed(res, rate, lo, cap) == Min(Max(lo, (2 * rate - res) \div 64), cap)

\* one frame: b the encoder's choice (the model does not predict it), silent frames are not topped up
BucketStep(res, rate, b, silent, cap) ==
  LET r1 == res + 64 * b - rate
      adj == IF r1 < 0 /\ ~silent THEN (0 - r1) \div 64 ELSE 0
  IN [res |-> Max(0, r1), bytes |-> Min(cap, b + adj)]

\* design bound of the bucket: one frame's target plus the two bytes a frame may always take
BucketBound(rate) == rate + 128

-----------------------------------------------------------------------------
(* (iii) The multistream budget loop.  tot = bytes already written, s = 0-based stream index.     *)
MsFrameTmp == 6 * 1275 + 12
CurrMax(maxb, tot, s, S, is100) ==
  LET a == maxb - tot - Max(0, 2 * (S - s - 1) - 1) - (IF is100 THEN S - s - 1 ELSE 0)
      b == Min(a, MsFrameTmp)
  IN IF s # S - 1 THEN b - (IF b > 253 THEN 2 ELSE 1) ELSE b
\* the least a stream encoder can return (a 100 ms packet needs a frame count byte)
MinLen(is100) == IF is100 THEN 2 ELSE 1
\* bytes the self-delimiting form adds to a stream's packet of len bytes (one length field of the
\* last frame: two bytes only if that frame has 252 bytes or more)
SdOverhead(len) == IF len >= 253 THEN 2 ELSE 1
=============================================================================
