------------------------------ MODULE CvbrTrace ------------------------------
(* Validation of recorded encoder executions against module Cvbr (property C05).                   *)
(* Events (NDJSON, written by harness/cvbr.c):                                                     *)
(*   new  a fresh encoder: ms (0 single stream, 1 multistream), fs, ch, S streams, C coupled        *)
(*   set  a control call: rq request number, v value, ret return code                               *)
(*   enc  an encode call: r return value, mb max_data_bytes, q duration in 2.5 ms units, g = 1 iff   *)
(*        the guard bytes behind data[mb-1] are intact, and the first bytes of the packet:           *)
(*        single stream h; multistream off (sub-packet offsets as the library's own parser reports    *)
(*        them - a hint that is re-derived here) and hs (first bytes at each offset), sbr (what each *)
(*        stream encoder answers to OPUS_GET_BITRATE after the call);                               *)
(*        res / md: peeked MDCT-layer reservoir and mode (used only when Strict)                     *)
(*   end                                                                                            *)
(* Strict = FALSE: the clauses of the property only.  Strict = TRUE: additionally the peeked         *)
(* reservoir has to follow Cvbr!BucketStep and OPUS_AUTO has to mean Cvbr!AutoBitrate (model         *)
(* conformance, reported as SPEC-DRIFT).                                                             *)
EXTENDS Cvbr, Json, IOUtils, TLC
CONSTANTS Strict,
          TolC,       \* percent: MDCT-only packets under constrained VBR (the reservoir is in charge)
          TolS,       \* percent: any packets under constrained VBR at FloorS bits/s per channel or more
          TolM,       \* percent: multistream packets whose sub-packets are all MDCT-only, at FloorS b/s per channel or more
          FloorS,
          SmallPerStream   \* a buffer below SmallPerStream bytes per stream may be refused as too small
VARIABLES l, cf, es, seen, trC, trS, prv
vars == <<l, cf, es, seen, trC, trS, prv>>

Tr == ndJsonDeserialize(IOEnv.TRACE)

-----------------------------------------------------------------------------
(* Sliding-window tracker for "over any window of at least one second the bits do not exceed the     *)
(* allowance by more than the bucket".  t in 2.5 ms units, phi = sum of (bits - allowance) since the  *)
(* tracker was (re)started, pts = start points younger than a second (one every 50 ms at most), old =  *)
(* least phi among the start points at least a second old.  A window is admissible iff it starts at a  *)
(* recorded start point; checking fewer windows than the property names is sound.                     *)
NoOld == 1073741824
TrNew == [t |-> 0, phi |-> 0, old |-> NoOld, pts |-> << <<0, 0>> >>, mx |-> 0]

RECURSIVE Graduate(_, _, _)
Graduate(pts, old, now) ==
  IF pts # <<>> /\ now - Head(pts)[1] >= 400
  THEN Graduate(Tail(pts), Min(old, Head(pts)[2]), now)
  ELSE [pts |-> pts, old |-> old]

\* one packet of dq units carrying `bits', with allowance `allow' and frame target `ft' (bits)
TrStep(tr, dq, bits, allow, ft) ==
  LET t2   == tr.t + dq
      phi2 == tr.phi + bits - allow
      gr   == Graduate(tr.pts, tr.old, t2)
      lastT == IF gr.pts = <<>> THEN -1000 ELSE gr.pts[Len(gr.pts)][1]
      pts2 == IF t2 - lastT >= 20 THEN Append(gr.pts, <<t2, phi2>>) ELSE gr.pts
  IN IF phi2 < -536870912 THEN TrNew         \* far below target for a long time: start afresh (sound)
     ELSE [t |-> t2, phi |-> phi2, old |-> gr.old, pts |-> pts2, mx |-> Max(tr.mx, ft)]
\* the excess over the worst admissible window that ends now
TrExcess(tr) == IF tr.old = NoOld THEN 0 - NoOld ELSE tr.phi - tr.old

\* allowance in bits of a packet of q units at `bitrate' with tolerance tol percent, rounded up
Allow(bitrate, q, tol) == (((bitrate * q) \div 400 + 1) * (100 + tol)) \div 100 + 1
FrameTarget(bitrate, q, count) == (bitrate * q) \div (400 * count) + 1

-----------------------------------------------------------------------------
Init == /\ l = 1 /\ cf = [ms |-> 0, fs |-> 48000, ch |-> 1, S |-> 1]
        /\ es = [br |-> OPUS_AUTO, vbr |-> 1, cvbr |-> 1, dtx |-> 0]
        /\ seen = {} /\ trC = TrNew /\ trS = TrNew /\ prv = [res |-> 0, celt |-> FALSE, mx |-> 0]

TNew == /\ l <= Len(Tr) /\ Tr[l].k = "new"
        /\ cf' = Tr[l] /\ es' = [br |-> OPUS_AUTO, vbr |-> 1, cvbr |-> 1, dtx |-> 0]
        /\ seen' = {} /\ trC' = TrNew /\ trS' = TrNew /\ prv' = [res |-> 0, celt |-> FALSE, mx |-> 0]
        /\ l' = l + 1

TSkip == /\ l <= Len(Tr) /\ Tr[l].k = "end" /\ l' = l + 1
         /\ UNCHANGED <<cf, es, seen, trC, trS, prv>>

\* a control call: a successful one changes exactly the named setting (what C11 establishes); any
\* control call ends the stretch of "constant settings" and restarts the rate windows
TSet ==
  /\ l <= Len(Tr) /\ Tr[l].k = "set"
  /\ LET e == Tr[l] IN
     /\ es' = IF e.ret # OK THEN es
              ELSE IF e.rq = SET_BITRATE
                   THEN [es EXCEPT !.br = IF cf.ms = 1 THEN MsClamp(e.v, cf.ch) ELSE ClampBitrate(e.v, cf.ch)]
              ELSE IF e.rq = SET_VBR THEN [es EXCEPT !.vbr = e.v]
              ELSE IF e.rq = SET_VBR_CONSTRAINT THEN [es EXCEPT !.cvbr = e.v]
              ELSE IF e.rq = SET_DTX THEN [es EXCEPT !.dtx = e.v]
              ELSE es
     /\ prv' = IF e.rq = RESET_STATE THEN [prv EXCEPT !.res = 0, !.celt = FALSE] ELSE prv
  /\ seen' = {} /\ trC' = TrNew /\ trS' = TrNew
  /\ l' = l + 1 /\ UNCHANGED cf

-----------------------------------------------------------------------------
(* What a packet looks like to the framing layer.                                                   *)
Pk(h, n) == [hdr |-> h, len |-> n, fill |-> 0]
FramesTiny(r) == \A i \in 1..r.count : r.sizes[i] <= 1
DurOK(r, q) == r.count * Dur48(r.toc) = 120 * q
MdctOnly(r) == TocMode(r.toc) = MODE_CELT
HeaderLogged(r, h) == r.off <= Len(h)

\* single stream: "DTX packet" = DTX is enabled, every frame at most one byte and the packet at most two
IsDtx1(r, n) == es.dtx = 1 /\ n <= 2 /\ FramesTiny(r)

\* multistream: the S sub-packets, re-derived from the bytes (off is only a hint)
RECURSIVE SubsOK(_, _, _, _)
SubsOK(e, i, S, q) ==
  LET n  == e.r - e.off[i]
      sd == i < S
      r  == Parse(Pk(e.hs[i], n), sd) IN
  /\ n > 0 /\ r.ok /\ HeaderLogged(r, e.hs[i]) /\ DurOK(r, q)
  /\ IF sd THEN e.off[i + 1] = e.off[i] + r.consumed /\ SubsOK(e, i + 1, S, q)
     ELSE r.consumed = n
SubParse(e, i, S) == Parse(Pk(e.hs[i], e.r - e.off[i]), i < S)
MsValid(e, S, q) == Len(e.off) = S /\ Len(e.hs) = S /\ e.off[1] = 0 /\ SubsOK(e, 1, S, q)
MsPayload(e, S) == SumSeq([i \in 1..S |-> SumSeq(SubParse(e, i, S).sizes)])
\* every sub-packet a DTX packet (the self-delimiting form adds one length byte)
MsIsDtx(e, S) == es.dtx = 1 /\ \A i \in 1..S : LET r == SubParse(e, i, S) IN
                   FramesTiny(r) /\ (IF i < S THEN r.consumed <= 3 ELSE e.r - e.off[i] <= 2)

\* the sizes already seen under the present settings for this duration and buffer: one and the same
Constant(q, mb, n) == \A x \in seen : (x[1] = q /\ x[2] = mb) => x[3] = n

-----------------------------------------------------------------------------
(* The return contract common to both encoders.                                                     *)
RetOK(e, S) ==
  \/ e.r >= 1 /\ e.r <= e.mb
  \/ e.r = BUFFER_TOO_SMALL /\ e.mb < SmallPerStream * S

(* Single-stream encode call.                                                                       *)
Enc1 ==
  LET e  == Tr[l]
      r  == IF e.r > 0 THEN Parse(Pk(e.h, e.r), FALSE) ELSE Bad
      fsz == (e.q * cf.fs) \div 400
      explicit == es.br > 0
      cvbrOn == es.vbr = 1 /\ es.cvbr = 1 /\ explicit
      pay == IF e.r > 0 /\ r.ok THEN SumSeq(r.sizes) ELSE 0
      inC == cvbrOn /\ e.r > 0 /\ r.ok /\ MdctOnly(r)
      inS == cvbrOn /\ es.br >= FloorS * cf.ch
      ftg == IF e.r > 0 /\ r.ok THEN FrameTarget(es.br, e.q, r.count) ELSE 0
      \* frame target under whatever the bitrate setting resolves to (only for the Strict reservoir bound)
      ftAny == IF e.r > 0 /\ r.ok
               THEN FrameTarget(IF explicit THEN es.br ELSE IF es.br = OPUS_AUTO THEN AutoBitrate(cf.fs, cf.ch, fsz)
                                ELSE (1276 * 8 * 400) \div e.q, e.q, r.count)
               ELSE 0
      c2  == IF inC THEN TrStep(trC, e.q, 8 * pay, Allow(es.br, e.q, TolC), ftg) ELSE TrNew
      s2  == IF inS THEN TrStep(trS, e.q, 8 * pay, Allow(es.br, e.q, TolS), ftg) ELSE TrNew
  IN
  /\ RetOK(e, 1)
  /\ e.g = 1                                                       \* nothing written behind data[mb-1]
  /\ e.r > 0 =>
       /\ r.ok /\ HeaderLogged(r, e.h) /\ DurOK(r, e.q)            \* a valid packet of the right duration
       \* VBR off: exact size, whatever came before
       /\ (es.vbr = 0 /\ ~IsDtx1(r, e.r)) =>
            /\ es.br = OPUS_BITRATE_MAX => e.r = MaxFill(r.count, e.mb)
            /\ explicit => e.r \in CbrSizes(es.br, cf.fs, fsz, e.mb)
            \* (OPUS_AUTO has no documented value: one constant size while the settings stand)
            /\ es.br = OPUS_AUTO => Constant(e.q, e.mb, e.r)
            /\ (Strict /\ es.br = OPUS_AUTO) => e.r = CbrSize(AutoBitrate(cf.fs, cf.ch, fsz), cf.fs, fsz, e.mb)
       \* constrained VBR: long-term rate
       /\ inC => TrExcess(c2) <= 2 * (c2.mx + 16)
       /\ inS => TrExcess(s2) <= 2 * (s2.mx + 16)
       \* model conformance: the reservoir follows the bucket
       /\ (Strict /\ inC) =>
            /\ e.res >= 0 /\ e.res <= BucketBound(8 * Max(prv.mx, ftAny))
            /\ (prv.celt /\ r.count = 1 /\ pay >= 2 /\ e.md = MODE_CELT /\ e.q <= 8 /\ es.br <= 260000) =>   \* (the MDCT layer caps its rate at 260 kb/s per channel)
                 LET rate == (es.br * e.q * 120 + 3000) \div 6000 IN
                 e.res = 0 \/ e.res = prv.res + 64 * pay - rate
  /\ Strict => (e.gv = es.vbr /\ e.gc = es.cvbr)               \* the getters agree with the settings tracked here
  /\ seen' = IF e.r > 0 /\ r.ok /\ es.vbr = 0 /\ es.br = OPUS_AUTO /\ ~IsDtx1(r, e.r) THEN seen \cup {<<e.q, e.mb, e.r>>} ELSE seen
  /\ trC' = c2 /\ trS' = s2
  /\ prv' = [res |-> e.res, celt |-> e.r > 0 /\ e.md = MODE_CELT /\ r.ok /\ MdctOnly(r) /\ r.count = 1 /\ SumSeq(r.sizes) >= 2,
              mx |-> Max(prv.mx, ftAny)]

(* Multistream encode call.                                                                         *)
(* Constrained VBR, every sub-packet coded by the MDCT layer alone (class M): each stream's own      *)
(* reservoir is in charge of that stream's share of the request, so the payload bits of all streams  *)
(* together may exceed the REQUESTED bitrate over a window of >= 1 s by at most TolM percent plus     *)
(* two buckets, a bucket being one frame's target of the whole request plus 16 bit per stream.       *)
(* Payload = the frames' bytes (TOC, frame-count, padding and self-delimiting length bytes left out: *)
(* the conservative reading, the same as for a single stream).  Asserted from FloorS b/s per channel, *)
(* where the request covers the fixed per-channel cost of every layout driven (Surround!SumTheorem). *)
MinOf(Sx) == CHOOSE c \in Sx : \A d \in Sx : c <= d
EncM ==
  LET e  == Tr[l]
      S  == cf.S
      ok == e.r > 0 /\ MsValid(e, S, e.q)
      explicit == es.br > 0
      cvbrOn == es.vbr = 1 /\ es.cvbr = 1 /\ explicit
      inS == cvbrOn /\ es.br >= FloorS * cf.ch
      pay == IF ok THEN MsPayload(e, S) ELSE 0
      ftg == FrameTarget(IF explicit THEN es.br ELSE 0, e.q, 1)
      s2  == IF inS THEN TrStep(trS, e.q, 8 * pay, Allow(es.br, e.q, TolS), ftg) ELSE TrNew
      inM == inS /\ ok /\ \A i \in 1..S : MdctOnly(SubParse(e, i, S))
      cnt == IF inM THEN MinOf({SubParse(e, i, S).count : i \in 1..S}) ELSE 1
      ftm == FrameTarget(IF explicit THEN es.br ELSE 0, e.q, cnt) + 16 * S
      m2  == IF inM THEN TrStep(trC, e.q, 8 * pay, Allow(es.br, e.q, TolM), ftm) ELSE TrNew
      dtx == ok /\ MsIsDtx(e, S)
  IN
  /\ RetOK(e, S)
  /\ e.g = 1
  /\ e.r > 0 =>
       /\ ok                                                       \* S valid sub-packets of the right duration
       /\ (es.vbr = 0 /\ ~dtx) =>
            \* one and the same size while the settings stand; within a byte of the rounded size (the
            \* per-stream split is the encoder's business); OPUS_BITRATE_MAX fills the buffer
            /\ es.br # OPUS_BITRATE_MAX => Constant(e.q, e.mb, e.r)
            /\ explicit => \E x \in MsCbrSizesQ(es.br, e.q, e.mb, S) : Abs(e.r - x) <= 1
            /\ es.br = OPUS_BITRATE_MAX => (e.r = e.mb \/ e.r >= 1276 * S)
       /\ inS => TrExcess(s2) <= 2 * (s2.mx + 16)
       /\ inM => TrExcess(m2) <= 2 * m2.mx
       \* model conformance: with VBR on, the per-stream split hands out no more than was requested
       \* (Surround!SumTheorem + StoredTheorem, decided by G03 for every layout the create calls make)
       /\ (Strict /\ es.vbr = 1 /\ explicit /\ es.br >= FloorS * cf.ch) =>
            (Len(e.sbr) = S /\ SumSeq(e.sbr) <= es.br)
  /\ Strict => (e.gv = es.vbr /\ e.gc = es.cvbr)
  /\ seen' = IF ok /\ es.vbr = 0 /\ es.br # OPUS_BITRATE_MAX /\ ~dtx THEN seen \cup {<<e.q, e.mb, e.r>>} ELSE seen
  /\ trS' = s2 /\ trC' = m2 /\ UNCHANGED prv

TEnc == /\ l <= Len(Tr) /\ Tr[l].k = "enc"
        /\ IF cf.ms = 1 THEN EncM ELSE Enc1
        /\ l' = l + 1 /\ UNCHANGED <<cf, es>>

Next == TNew \/ TSkip \/ TSet \/ TEnc
Spec == Init /\ [][Next]_vars

Accepted ==
  LET n == TLCGet("stats").diameter IN
  IF n - 1 = Len(Tr) THEN TRUE
  ELSE PrintT(<<"REJECTED_AT", n, ToString(Tr[n])>>)
=============================================================================
