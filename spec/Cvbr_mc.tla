------------------------------ MODULE Cvbr_mc ------------------------------
(* Exhaustive TLC runs over module Cvbr.  One variable, four systems selected by INIT/NEXT in the    *)
(* configuration file:                                                                            *)
(*   InitF/NextF  CbrFormula: the encoder's integer expression against the meaning of "round"      *)
(*   InitB/NextB  the constrained-VBR bucket: reservoir bounded, hence bytes bounded over any run   *)
(*   InitM/NextM  the multistream budget loop: NeverOverrun                                        *)
(*   InitH/NextH  behaviour generation: histories that switch VBR/CVBR/CBR, bitrate, buffer,        *)
(*                duration and coding mode between packets (printed, replayed through the real encoder)            *)
EXTENDS Cvbr, TLC
CONSTANTS BrLo, BrStep, BrCount,   \* dense bitrate grid  BrLo + i*BrStep, i < BrCount
          BrCoarse,                \* bitrates checked against every buffer size 1..MbAll
          MbAll, MbFew,
          Rates, Caps, SlackCap,   \* bucket: frame targets (eighth-bits), space caps (bytes)
          MsMaxB, MsBig, MsS,      \* budget loop: buffer sizes SmallestPacket..MsMaxB and MsBig, streams
          GenDepth
VARIABLE st
vars == <<st>>

-----------------------------------------------------------------------------
(* CbrFormula *)
Users == {OPUS_AUTO, OPUS_BITRATE_MAX}
Dense == {BrLo + i * BrStep : i \in 0..(BrCount - 1)}
\* exact ties of bitrate*q/3200 (q = 8: 400n + 200; q = 16: 200n + 100; q = 1: 3200n + 1600 ...)
Ties  == {400 * n + 200 : n \in 1..40} \cup {200 * n + 100 : n \in 3..20} \cup {3200 * n + 1600 : n \in 0..9}
         \cup {800 * n + 400 : n \in 1..10} \cup {1600 * n + 800 : n \in 0..10}
InitF == st \in {[k |-> "F0", fs |-> f, q |-> qq, ch |-> c] : f \in FsSet, qq \in QSet, c \in {1, 2}}
NextF == /\ st.k = "F0"
         /\ \/ \E b \in Dense \cup Ties \cup Users : st' = [k |-> "F1", fs |-> st.fs, q |-> st.q, ch |-> st.ch, b |-> b, all |-> FALSE]
            \/ \E b \in BrCoarse \cup Users : st' = [k |-> "F1", fs |-> st.fs, q |-> st.q, ch |-> st.ch, b |-> b, all |-> TRUE]
CbrFormula ==
  st.k = "F1" => \A mb \in (IF st.all THEN 1..MbAll ELSE MbFew) : CbrFormulaAt(st.b, st.fs, st.ch, st.q, mb)
\* the multistream expression is the bytes rounded down: never more than the property's size, at most one less
MsFloorNote ==
  (st.k = "F1" /\ st.b > 0 /\ ~st.all) =>
     \A mb \in MbFew : \A S \in 1..4 :
        LET c == MsCodeCbrQ(st.b, st.q, mb, S) IN
        \E x \in MsCbrSizesQ(st.b, st.q, mb, S) : c <= x /\ x <= c + 1

-----------------------------------------------------------------------------
(* The bucket.  exc = 64*bytes - targets over the run that started at the last "restart",         *)
(* kept from falling below -SlackCap so that the state space closes.                               *)
InitB == st \in {[k |-> "B", res |-> 0, exc |-> 0, rate |-> r] : r \in Rates}
BSwitch  == st.k = "B" /\ \E r \in Rates : st' = [st EXCEPT !.rate = r]           \* bitrate / duration switch
BRestart == st.k = "B" /\ st' = [st EXCEPT !.exc = 0]                               \* a new window starts here
BFrame   == /\ st.k = "B"
            /\ \E lo \in {0, 2}, cap \in Caps, silent \in BOOLEAN :
                 \E b \in Min(lo, cap)..MaxAllowed(st.res, st.rate, lo, cap) :
                    LET o == BucketStep(st.res, st.rate, b, silent, cap) IN
                    st' = [st EXCEPT !.res = o.res, !.exc = Max(0 - SlackCap, st.exc + 64 * o.bytes - st.rate)]
NextB == BSwitch \/ BRestart \/ BFrame
MaxRate == CHOOSE r \in Rates : \A x \in Rates : x <= r
ResBoundedAll == st.k = "B" => (st.res >= 0 /\ st.res <= BucketBound(MaxRate))
\* over any run of frames: 64 * bytes <= sum of targets + one bucket
BytesBounded == st.k = "B" => st.exc <= BucketBound(MaxRate)
\* the excess never exceeds what the reservoir holds plus what it held when the window started
ExcWithinRes == st.k = "B" => st.exc <= st.res + BucketBound(MaxRate)

-----------------------------------------------------------------------------
(* The multistream budget loop.  ok records whether every step so far had room.                   *)
MsBufs(S, is100) == (SmallestPacket(S, is100)..MsMaxB) \cup {b \in MsBig : b >= SmallestPacket(S, is100)}
InitM == st \in {[k |-> "M", S |-> S, h |-> is100, maxb |-> 0, s |-> 0, tot |-> 0, ok |-> TRUE, cbr |-> c] :
                   S \in MsS, is100 \in BOOLEAN, c \in BOOLEAN}
LenCands(lo, cm) == {x \in {lo, lo + 1, 2, 3, 4, 250, 251, 252, 253, 254, 255, cm \div 2, cm - 3, cm - 2, cm - 1, cm} : x >= lo /\ x <= cm}
MPick   == /\ st.k = "M" /\ st.maxb = 0
           /\ \E b \in MsBufs(st.S, st.h) : st' = [st EXCEPT !.maxb = b]
MStream == /\ st.k = "M" /\ st.maxb > 0 /\ st.s < st.S /\ st.ok
           /\ LET cm   == CurrMax(st.maxb, st.tot, st.s, st.S, st.h)
                  last == st.s = st.S - 1
                  lo   == MinLen(st.h) IN
              IF cm < lo THEN st' = [st EXCEPT !.ok = FALSE]
              ELSE \E len \in LenCands(lo, cm) :
                     \* the repacketizer re-frames the stream's packet: padding is dropped, the self-delimiting
                     \* length is added (not for the last stream); with VBR off the last stream is padded to fill
                     \E out \in (IF last THEN (IF st.cbr THEN {st.maxb - st.tot} ELSE {lo, len})
                                 ELSE {lo + 1, len + SdOverhead(len)}) :
                        LET room == st.maxb - st.tot IN
                        st' = [st EXCEPT !.s = st.s + 1, !.tot = st.tot + out,
                                         !.ok = (len + (IF last THEN 0 ELSE SdOverhead(len)) <= room) /\ out <= room /\ out >= 1]
NextM == MPick \/ MStream
NeverOverrun == st.k = "M" => (st.ok /\ st.tot <= st.maxb /\ st.tot >= 0)
MsDoneFills  == (st.k = "M" /\ st.maxb > 0 /\ st.s = st.S /\ st.cbr) => st.tot = st.maxb

-----------------------------------------------------------------------------
(* Behaviour generation.  A history is a sequence of steps <<what, value>>: the runner gives the  *)
(* classes concrete values.  Every step is followed by encode calls.                              *)
Modes == {"cbr", "vbr", "cvbr"}
Brs   == {"lo", "mid", "hi", "auto", "max"}
Bufs  == {"tiny", "small", "ample", "huge"}
Durs  == {"short", "20", "long"}
Vias  == {"auto", "hybrid", "celt"}      \* how the coding mode is steered (OPUS_SET_FORCE_MODE), never touching the VBR ctls
InitH == st \in {[k |-> "G", h |-> << <<"mode", m>>, <<"br", b>> >>, cur |-> [mode |-> m, br |-> b, buf |-> "ample", dur |-> "20", via |-> "auto"]] :
                   m \in Modes, b \in Brs}
NextH ==
  /\ st.k = "G" /\ Len(st.h) < GenDepth + 2
  /\ \/ \E m \in Modes \ {st.cur.mode} : st' = [st EXCEPT !.h = Append(st.h, <<"mode", m>>), !.cur.mode = m]
     \/ \E b \in Brs \ {st.cur.br}     : st' = [st EXCEPT !.h = Append(st.h, <<"br", b>>), !.cur.br = b]
     \/ \E b \in Bufs \ {st.cur.buf}   : st' = [st EXCEPT !.h = Append(st.h, <<"buf", b>>), !.cur.buf = b]
     \/ \E d \in Durs \ {st.cur.dur}   : st' = [st EXCEPT !.h = Append(st.h, <<"dur", d>>), !.cur.dur = d]
     \/ \E w \in Vias \ {st.cur.via}   : st' = [st EXCEPT !.h = Append(st.h, <<"via", w>>), !.cur.via = w]
Emit == (st.k = "G" /\ Len(st.h) = GenDepth + 2) => PrintT(<<"HIST", ToString(st.h)>>)

SpecF == InitF /\ [][NextF]_vars
SpecB == InitB /\ [][NextB]_vars
SpecM == InitM /\ [][NextM]_vars
SpecG == InitH /\ [][NextH]_vars
=============================================================================
