------------------------------- MODULE DecCtl -------------------------------
(***************************************************************************)
(* The decoder object (OpusDecoder) as the API exposes it: the control      *)
(* state that survives between calls and the result contract of every       *)
(* decode / conceal / FEC / ctl call.  Property C01 (also used by C09, C19,  *)
(* C20, C02).                                                               *)
(*                                                                         *)
(* The contract is EXACT on success/failure and on the sample count, LOOSE  *)
(* on which documented error code a failing call returns (soundness rule    *)
(* R1).  The only value the model guesses is prevRedundancy (it depends on  *)
(* coded bits): every operator that can change it returns the SET of        *)
(* allowed successor states.                                                *)
(*                                                                         *)
(* A decoder state is a record                                              *)
(*   [Fs, ch,            configuration (never changes)                       *)
(*    prevMode,          mode of the last frame produced: 0 = none yet,      *)
(*                       MODE_SILK, MODE_HYBRID, MODE_CELT                   *)
(*    mode, bw,          from the TOC of the last accepted packet (0 = none) *)
(*    frameSize,         samples per frame of that TOC (Fs/400 when none)    *)
(*    streamCh,          channels coded in that packet                       *)
(*    prevRedundancy,    last frame ended with a SILK->CELT redundant frame  *)
(*    lastDur,           OPUS_GET_LAST_PACKET_DURATION                       *)
(*    gain]              OPUS_SET_GAIN (Q8 dB), survives a reset             *)
(***************************************************************************)
EXTENDS Framing

DecErrors == {BAD_ARG, BUFFER_TOO_SMALL, INVALID_PACKET}   \* the documented failures of a decode call
ModeSet   == {0, MODE_SILK, MODE_HYBRID, MODE_CELT}
BwSet     == {0, BW_NB, BW_MB, BW_WB, BW_SWB, BW_FB}

API_I16 == 0      \* opus_decode
API_I24 == 1      \* opus_decode24
API_F32 == 2      \* opus_decode_float
ApiSet  == {API_I16, API_I24, API_F32}

GAIN_MIN == -32768
GAIN_MAX == 32767

DecInit(Fs, ch) ==
  [Fs |-> Fs, ch |-> ch, prevMode |-> 0, mode |-> 0, bw |-> 0, frameSize |-> Fs \div 400,
   streamCh |-> ch, prevRedundancy |-> FALSE, lastDur |-> 0, gain |-> 0]

\* OPUS_RESET_STATE: everything but the configuration and the gain
DecReset(d) == [DecInit(d.Fs, d.ch) EXCEPT !.gain = d.gain]

Q(d)    == d.Fs \div 400          \* 2.5 ms
MaxFs(d) == 3 * (d.Fs \div 25)    \* 120 ms
OneSec(d) == d.Fs

DecTypeOK(d) ==
  /\ d.Fs \in FsSet /\ d.ch \in {1, 2}
  /\ d.prevMode \in ModeSet /\ d.mode \in ModeSet /\ d.bw \in BwSet
  /\ d.frameSize \in {k * Q(d) : k \in {1, 2, 4, 8, 16, 24}}
  /\ d.streamCh \in {1, 2} /\ d.prevRedundancy \in BOOLEAN
  /\ d.lastDur \in Nat /\ d.gain \in GAIN_MIN..GAIN_MAX

-----------------------------------------------------------------------------
(* Concealment.  The mode the PLC runs in: CELT when the last frame ended    *)
(* with CELT redundancy, else the mode of the last frame; 0 = nothing        *)
(* decoded yet => the output is digital silence and nothing is remembered.   *)
PlcMode(d) == IF d.prevRedundancy THEN MODE_CELT ELSE d.prevMode

Conceal(d) == IF PlcMode(d) = 0 THEN d
              ELSE [d EXCEPT !.prevMode = PlcMode(d), !.prevRedundancy = FALSE]

(* How opus_decode_native cuts a concealment request of fs samples (a        *)
(* multiple of 2.5 ms) into pieces handed to the SILK/CELT concealers:       *)
(* never more than the frame size of the last TOC, never more than 120 ms,   *)
(* pieces above 20 ms in 20 ms steps, then 10 ms, then (CELT, hybrid) 5 ms   *)
(* or 2.5 ms.  Operational model of opus_decode_frame(data=NULL).            *)
PlcPiece(d, m, rem) ==      \* size of the next leaf piece when `rem` samples are still missing
  LET q == Q(d) F5 == 2 * q F10 == 4 * q F20 == 8 * q
      a == Min(Min(rem, MaxFs(d)), d.frameSize) IN
  IF m = 0 THEN a
  ELSE IF a >= F20 THEN F20
  ELSE IF a > F10 THEN F10
  ELSE IF m # MODE_SILK /\ a > F5 /\ a < F10 THEN F5
  ELSE a

RECURSIVE PlcPieces(_, _, _)
PlcPieces(d, m, rem) ==
  IF rem <= 0 THEN <<>>
  ELSE LET a == PlcPiece(d, m, rem) IN <<a>> \o PlcPieces(d, m, rem - a)

\* what the CELT concealer accepts (it is used when the PLC mode is CELT or hybrid)
CeltSizeOK(d, a) == a \in {Q(d), 2 * Q(d), 4 * Q(d), 8 * Q(d)}
\* what the SILK concealer can deliver (10 or 20 ms natively, shorter through a 10 ms scratch buffer)
SilkSizeOK(d, a) == a <= 4 * Q(d) \/ a = 8 * Q(d)

-----------------------------------------------------------------------------
(* Frames of an accepted packet.  A frame of at most one byte carries no     *)
(* audio (DTX / lost frame): it is concealed.  A coded frame sets prevMode;  *)
(* whether it ended with SILK->CELT redundancy is the guess.                 *)
RedChoices(mode, fec) == IF fec \/ mode = MODE_CELT THEN {FALSE} ELSE BOOLEAN

FrameSteps(x, size, fec) ==
  IF size <= 1 THEN {Conceal(x)}
  ELSE {[x EXCEPT !.prevMode = x.mode, !.prevRedundancy = b] : b \in RedChoices(x.mode, fec)}

RECURSIVE FoldFrames(_, _, _)
FoldFrames(S, sizes, fec) ==
  IF sizes = <<>> THEN S
  ELSE FoldFrames(UNION {FrameSteps(x, Head(sizes), fec) : x \in S}, Tail(sizes), fec)

WithToc(d, toc) ==
  [d EXCEPT !.mode = TocMode(toc), !.bw = TocBandwidth(toc),
            !.frameSize = SamplesPerFrame(toc, d.Fs), !.streamCh = TocChannels(toc)]

-----------------------------------------------------------------------------
(* Results.  [ok, n, nexts, out]:                                            *)
(*   ok     the call succeeds                                                *)
(*   n      the sample count returned (per channel) when ok                  *)
(*   rets   the set of allowed return values                                 *)
(*   nexts  the set of allowed successor states                              *)
(*   out    what the PCM holds: "none", "zeros", "plc", "fec", "decoded"     *)
Fail(d) == [ok |-> FALSE, n |-> 0, rets |-> DecErrors, nexts |-> {d}, out |-> "none"]

Succ(n, S, out) == [ok |-> TRUE, n |-> n, rets |-> {n},
                    nexts |-> {[x EXCEPT !.lastDur = n] : x \in S}, out |-> out]

PlcRes(d, fs) == Succ(fs, {Conceal(d)}, IF PlcMode(d) = 0 THEN "zeros" ELSE "plc")

NormalRes(d, r) ==
  Succ(r.count * SamplesPerFrame(r.toc, d.Fs), FoldFrames({WithToc(d, r.toc)}, r.sizes, FALSE), "decoded")

\* in-band FEC can only be used when the packet is SILK/hybrid, the request covers at least one
\* frame of it and the decoder is not in CELT mode; otherwise the whole request is concealed
FecUsable(d, r, fs) ==
  /\ fs >= SamplesPerFrame(r.toc, d.Fs)
  /\ TocMode(r.toc) # MODE_CELT
  /\ d.mode # MODE_CELT

FecRes(d, r, fs) ==
  IF ~FecUsable(d, r, fs) THEN PlcRes(d, fs)
  ELSE LET pfs == SamplesPerFrame(r.toc, d.Fs)
           d1  == IF fs > pfs THEN Conceal(d) ELSE d
       IN Succ(fs, FrameSteps(WithToc(d1, r.toc), r.sizes[1], TRUE), "fec")

(* The contract of opus_decode_native, on a parse result.                    *)
(*   lost   data = NULL or len = 0                                           *)
(*   neg    len < 0 with data present                                        *)
(*   r      Framing!Parse of the packet (ignored when lost)                  *)
DecodeResP(d, lost, neg, r, fs, fec) ==
  IF fs <= 0 \/ fec \notin {0, 1} THEN Fail(d)
  ELSE IF lost THEN (IF fs % Q(d) = 0 THEN PlcRes(d, fs) ELSE Fail(d))
  ELSE IF neg \/ ~r.ok THEN Fail(d)
  ELSE IF fec = 1 THEN (IF fs % Q(d) = 0 THEN FecRes(d, r, fs) ELSE Fail(d))
  ELSE IF r.count * SamplesPerFrame(r.toc, d.Fs) > fs THEN Fail(d)
  ELSE NormalRes(d, r)

\* p is a Framing packet; p.len = 0 stands for "lost" (NULL pointer or zero length)
DecodeRes(d, p, fs, fec) ==
  DecodeResP(d, p.len = 0, p.len < 0, IF p.len > 0 THEN Parse(p, FALSE) ELSE Bad, fs, fec)

(* The named actions.  api (16-bit, 24-bit, float entry point) does not      *)
(* enter the contract: the three entry points are interchangeable views.     *)
Decode(d, pkt, frameSize, fec, api) == DecodeRes(d, pkt, frameSize, fec)
Lost(d, frameSize)                  == DecodeRes(d, [hdr |-> <<>>, len |-> 0, fill |-> 0], frameSize, 0)
Fec(d, pkt, frameSize)              == DecodeRes(d, pkt, frameSize, 1)

Reset(d) == [ret |-> OK, next |-> DecReset(d)]
SetGain(d, g) == IF g \in GAIN_MIN..GAIN_MAX THEN [ret |-> OK, next |-> [d EXCEPT !.gain = g]]
                 ELSE [ret |-> BAD_ARG, next |-> d]
\* getters: value reported through a non-NULL pointer; a NULL pointer is BAD_ARG and changes nothing
GetLastPacketDuration(d) == d.lastDur
GetBandwidth(d)          == d.bw
GetGain(d)               == d.gain
GetSampleRate(d)         == d.Fs
GetNull                  == BAD_ARG

-----------------------------------------------------------------------------
(* Multistream / projection decoding (opus_multistream_decode_native): N     *)
(* sub-packets, the first N-1 self-delimited (Appendix B), all of the same   *)
(* duration.  The packet is a Framing packet whose hdr holds ALL bytes that  *)
(* matter (the headers of the later sub-packets are inside).                 *)
MsSub(p, o) ==
  [hdr |-> IF o >= Len(p.hdr) THEN <<>> ELSE SubSeq(p.hdr, o + 1, Len(p.hdr)),
   len |-> p.len - o, fill |-> p.fill]

\* walk over the sub-packets s..N starting at byte offset o: Bad, or the parse result of the
\* first one visited and the announced durations (48 kHz samples) of all of them
RECURSIVE MsWalk(_, _, _, _)
MsWalk(p, o, s, N) ==
  IF p.len - o <= 0 THEN Bad
  ELSE LET r == Parse(MsSub(p, o), s # N) IN
       IF ~r.ok THEN Bad
       ELSE LET du == r.count * Dur48(r.toc) IN
            IF s = N THEN [ok |-> TRUE, first |-> r, durs |-> {du}]
            ELSE LET t == MsWalk(p, o + r.consumed, s + 1, N) IN
                 IF t.ok THEN [ok |-> TRUE, first |-> r, durs |-> {du} \cup t.durs] ELSE Bad

\* d0 is the state of the first stream's decoder (all getters of the multistream object read it);
\* F is the capacity handed to the stream decoders
MsDecodeResF(d0, N, p, fs, fec, F) ==
  IF fs <= 0 \/ p.len < 0 THEN Fail(d0)
  ELSE IF p.len = 0 THEN DecodeResP(d0, TRUE, FALSE, Bad, F, fec)
  ELSE LET w == MsWalk(p, 0, 1, N) IN
       IF ~w.ok THEN Fail(d0)
       ELSE LET du == CHOOSE x \in w.durs : TRUE IN
            IF w.durs # {du} \/ (du * Q(d0)) \div 120 > F THEN Fail(d0)
            ELSE DecodeResP(d0, FALSE, FALSE, w.first, F, fec)

\* the implementation clamps a request above 120 ms to 120 ms (DESIGN S6) ...
MsDecodeRes(d0, N, p, fs, fec) == MsDecodeResF(d0, N, p, fs, fec, Min(fs, MaxFs(d0)))

\* ... which the property does not demand (it only asks for 0 < n <= frame_size): concealing the whole
\* request would be as good.  The return values the PROPERTY allows (soundness rule R1):
MsAllowedRets(d0, N, p, fs, fec) ==
  MsDecodeRes(d0, N, p, fs, fec).rets \cup MsDecodeResF(d0, N, p, fs, fec, fs).rets

-----------------------------------------------------------------------------
(* Design theorems (checked by TLC in DecCtl_mc over all call sequences).    *)

\* every successful call returns 0 < n <= frameSize, a failing one a documented error
RetContractOf(res, fs) ==
  /\ res.ok => res.n > 0 /\ res.n <= fs /\ res.rets = {res.n}
  /\ ~res.ok => res.rets \subseteq DecErrors
  /\ res.rets \cap {INTERNAL_ERROR, UNIMPLEMENTED, ALLOC_FAIL, INVALID_STATE, OK} = {}

\* the last-packet-duration query reports the count of the last successful call
LastDurTracksOf(d, res) ==
  \A x \in res.nexts : x.lastDur = IF res.ok THEN res.n ELSE d.lastDur

\* a failing call leaves the whole state as it was
ErrorKeepsStateOf(d, res) == ~res.ok => res.nexts = {d}

\* the concealment pieces cover the request exactly and every piece is one the concealers accept
PlcPiecesOK(d, fs) ==
  LET m == PlcMode(d) ps == PlcPieces(d, m, fs) IN
  /\ SumSeq(ps) = fs
  /\ \A i \in 1..Len(ps) :
        /\ ps[i] > 0 /\ ps[i] % Q(d) = 0
        /\ m \in {MODE_CELT, MODE_HYBRID} => CeltSizeOK(d, ps[i])
        /\ m \in {MODE_SILK, MODE_HYBRID} => SilkSizeOK(d, ps[i])
=============================================================================
