----------------------------- MODULE DecCtl_mc -----------------------------
(***************************************************************************)
(* Exhaustive exploration of the decoder object over all sequences of       *)
(* calls from a finite alphabet, and generation of call sequences for       *)
(* replay through libopus (harness/dec.c).                                  *)
(*                                                                         *)
(* A call is a tuple of six integers (so that it prints and parses easily): *)
(*   <<1, cfg, stereo, shape, fsKind, fec>>   opus_decode*                   *)
(*   <<2, fs48, delta, 0, 0, 0>>              packet loss: frame_size =      *)
(*                                            fs48*Fs/48000 + delta          *)
(*   <<3, cfg, stereo, shape, fecKind, 0>>    decode_fec = 1                 *)
(*   <<4, 0, 0, 0, 0, 0>>                     OPUS_RESET_STATE               *)
(*   <<5, g, 0, 0, 0, 0>>                     OPUS_SET_GAIN(g)               *)
(* cfg is the TOC configuration number (RFC 6716 Table 2), shape selects the *)
(* framing of the packet (see MkPkt), fsKind/fecKind the requested           *)
(* frame_size relative to the packet (see DecFs, FecFs).                     *)
(***************************************************************************)
EXTENDS DecCtl, TLC, FiniteSets

CONSTANTS
  FsChoices,      \* sampling rates of the decoder
  ChChoices,      \* channel counts of the decoder
  Cfgs,           \* TOC configurations used for packets
  Stereos,        \* subset of {0, 1}
  Shapes,         \* valid packet shapes 1..9
  BadShapes,      \* invalid packet shapes 101..107
  DecKinds,       \* frame_size kinds for a normal decode
  BadFecs,        \* out-of-range decode_fec values tried (with shape 1 only)
  Lost48,         \* loss requests, 48 kHz samples (multiples of 120)
  LostOdd,        \* loss requests <<fs48, delta>> that are not multiples of 2.5 ms, or not positive
  FecKinds,       \* frame_size kinds for an FEC call
  Gains,          \* OPUS_SET_GAIN arguments
  MaxSteps,       \* bound on the number of calls (0 = unbounded: run to the fixpoint)
  GenMode         \* 0: model checking, 1: emit a transition tour, 2: emit every sequence of MaxSteps calls

VARIABLES d,      \* decoder state
          last,   \* the last call, its result and the state before it
          coded,  \* a coded frame (>= 2 bytes) was decoded since creation/reset
          steps,  \* number of calls so far
          hist    \* the calls so far (only in generation modes)

vars == <<d, last, coded, steps, hist>>

\* values a TLC configuration file cannot write (negative numbers); used as `X <- DefX`
DefBadFecs  == {-1, 2}
DefLostOdd  == {<<960, 1>>, <<120, -1>>, <<0, 0>>, <<0, -20>>, <<48000, -1>>, <<5760, 1>>}
DefLostOddQ == {<<960, 1>>, <<120, -1>>, <<0, 0>>}
DefGains    == {0, -32768, 32767, 32768, -32769, 256}
DefGainsQ   == {0, 32767, 32768, -32769}

-----------------------------------------------------------------------------
\* packets of the alphabet
Toc(cfg, st, code) == cfg * 8 + st * 4 + code
MaxM(cfg) == MaxDur48 \div Dur48OfConfig(cfg)

MkPkt(cfg, st, shape) ==
  CASE shape = 1 -> [hdr |-> <<Toc(cfg, st, 0)>>, len |-> 21, fill |-> 7]            \* one frame of 20 bytes
    [] shape = 2 -> [hdr |-> <<Toc(cfg, st, 0)>>, len |-> 1, fill |-> 7]             \* TOC only: a DTX frame
    [] shape = 3 -> [hdr |-> <<Toc(cfg, st, 0)>>, len |-> 2, fill |-> 7]             \* one byte: a DTX frame
    [] shape = 4 -> [hdr |-> <<Toc(cfg, st, 1)>>, len |-> 21, fill |-> 7]            \* two frames of 10 bytes
    [] shape = 5 -> [hdr |-> <<Toc(cfg, st, 2), 1>>, len |-> 15, fill |-> 7]         \* DTX frame + 12 bytes
    [] shape = 6 -> [hdr |-> <<Toc(cfg, st, 3), Min(3, MaxM(cfg))>>,
                     len |-> 2 + 8 * Min(3, MaxM(cfg)), fill |-> 7]                  \* CBR, up to 3 frames of 8
    [] shape = 7 -> [hdr |-> <<Toc(cfg, st, 3), 128 + 64 + 2, 3, 5>>, len |-> 18, fill |-> 7]  \* VBR 5+6, 3 bytes padding
    [] shape = 8 -> [hdr |-> <<Toc(cfg, st, 3), MaxM(cfg)>>, len |-> 2 + 2 * MaxM(cfg), fill |-> 7] \* 120 ms of 2-byte frames
    [] shape = 9 -> [hdr |-> <<Toc(cfg, st, 3), 128 + 2, 9>>, len |-> 12, fill |-> 7]  \* VBR 9 + a DTX frame
    \* framing corruptions
    [] shape = 101 -> [hdr |-> <<Toc(cfg, st, 1)>>, len |-> 4, fill |-> 7]           \* CBR pair with odd payload
    [] shape = 102 -> [hdr |-> <<Toc(cfg, st, 3), 0>>, len |-> 10, fill |-> 7]       \* zero frames
    [] shape = 103 -> [hdr |-> <<Toc(cfg, st, 3), MaxM(cfg) + 1>>, len |-> 2 + 2 * (MaxM(cfg) + 1), fill |-> 7] \* more than 120 ms
    [] shape = 104 -> [hdr |-> <<Toc(cfg, st, 2), 250>>, len |-> 20, fill |-> 7]     \* first length beyond the packet
    [] shape = 105 -> [hdr |-> <<Toc(cfg, st, 3), 64 + 1, 200>>, len |-> 10, fill |-> 7] \* padding beyond the packet
    [] shape = 106 -> [hdr |-> <<Toc(cfg, st, 0)>>, len |-> 1277, fill |-> 7]        \* frame of 1276 bytes
    [] shape = 107 -> [hdr |-> <<Toc(cfg, st, 3)>>, len |-> 1, fill |-> 7]           \* count byte missing

\* announced duration of a packet in samples at the decoder's rate (20 ms when it has none)
PktDur(s, p) == LET r == Parse(p, FALSE) IN
                IF r.ok THEN r.count * SamplesPerFrame(r.toc, s.Fs) ELSE 8 * Q(s)

\* frame_size requested by a normal decode, relative to the announced duration n
DecFs(kind, n, s) ==
  CASE kind = 0 -> n
    [] kind = 1 -> n - 1
    [] kind = 2 -> n + 1
    [] kind = 3 -> MaxFs(s)
    [] kind = 4 -> OneSec(s)
    [] kind = 5 -> 0
    [] kind = 6 -> n - Q(s)
    [] kind = 7 -> -1

\* frame_size requested by an FEC call, relative to the frame size pfs of the TOC and the duration n
FecFs(kind, pfs, n, s) ==
  CASE kind = 0 -> pfs
    [] kind = 1 -> pfs - Q(s)
    [] kind = 2 -> pfs + 8 * Q(s)
    [] kind = 3 -> pfs + 1
    [] kind = 4 -> n
    [] kind = 5 -> MaxFs(s)
    [] kind = 6 -> OneSec(s)
    [] kind = 7 -> 0

LostFs(fs48, delta, s) == (fs48 \div 120) * Q(s) + delta

Alphabet ==
  {<<1, c, st, sh, k, 0>> : c \in Cfgs, st \in Stereos, sh \in Shapes \cup BadShapes, k \in DecKinds}
  \cup {<<1, c, 0, 1, 0, f>> : c \in Cfgs, f \in BadFecs}
  \cup {<<2, x, 0, 0, 0, 0>> : x \in Lost48}
  \cup {<<2, x[1], x[2], 0, 0, 0>> : x \in LostOdd}
  \cup {<<3, c, st, sh, k, 0>> : c \in Cfgs, st \in Stereos, sh \in Shapes \cup BadShapes, k \in FecKinds}
  \cup {<<4, 0, 0, 0, 0, 0>>}
  \cup {<<5, g, 0, 0, 0, 0>> : g \in Gains}

\* everything about call c in state s, computed once: packet, parse, frame_size, result
CallInfo(c, s) ==
  LET p   == IF c[1] \in {1, 3} THEN MkPkt(c[2], c[3], c[4]) ELSE [hdr |-> <<>>, len |-> 0, fill |-> 0]
      r   == IF p.len > 0 THEN Parse(p, FALSE) ELSE Bad
      n   == IF r.ok THEN r.count * SamplesPerFrame(r.toc, s.Fs) ELSE 8 * Q(s)   \* announced duration (20 ms when none)
      fs  == CASE c[1] = 1 -> DecFs(c[5], n, s)
               [] c[1] = 2 -> LostFs(c[2], c[3], s)
               [] c[1] = 3 -> FecFs(c[5], SamplesPerFrame(Byte(p, 1), s.Fs), n, s)
               [] OTHER -> 0
      fec == IF c[1] = 3 THEN 1 ELSE IF c[1] = 1 THEN c[6] ELSE 0
      res == CASE c[1] \in {1, 2, 3} -> DecodeResP(s, p.len = 0, FALSE, r, fs, fec)
               [] c[1] = 4 -> [ok |-> TRUE, n |-> 0, rets |-> {Reset(s).ret}, nexts |-> {Reset(s).next}, out |-> "ctl"]
               [] c[1] = 5 -> [ok |-> SetGain(s, c[2]).ret = OK, n |-> 0, rets |-> {SetGain(s, c[2]).ret},
                               nexts |-> {SetGain(s, c[2]).next}, out |-> "ctl"]
      \* does the call decode at least one coded frame?
      aud == /\ res.ok /\ r.ok
             /\ \/ c[1] = 1 /\ \E i \in 1..Len(r.sizes) : r.sizes[i] >= 2
                \/ c[1] = 3 /\ res.out = "fec" /\ r.sizes[1] >= 2
  IN [p |-> p, r |-> r, fs |-> fs, fec |-> fec, res |-> res, aud |-> aud]

-----------------------------------------------------------------------------
NoCall == <<0, 0, 0, 0, 0, 0>>

Init == /\ \E Fs \in FsChoices, ch \in ChChoices : d = DecInit(Fs, ch)
        /\ last = [call |-> NoCall, fs |-> 0, fec |-> 0, r |-> Bad, prev |-> d, res |-> Fail(d), pcoded |-> FALSE]
        /\ coded = FALSE
        /\ steps = 0
        /\ hist = <<>>

Do(c) ==
  LET i == CallInfo(c, d) IN
  /\ \E x \in i.res.nexts : d' = x
  /\ last' = [call |-> c, fs |-> i.fs, fec |-> i.fec, r |-> i.r, prev |-> d, res |-> i.res, pcoded |-> coded]
  /\ coded' = IF c[1] = 4 THEN FALSE ELSE (coded \/ i.aud)
  /\ steps' = IF MaxSteps = 0 THEN 0 ELSE steps + 1
  /\ hist' = IF GenMode = 0 THEN <<>> ELSE Append(hist, c)

\* one sub-action per kind of call, so that -coverage shows each was taken
AlphaOf(k) == {c \in Alphabet : c[1] = k}
DoDecode  == \E c \in AlphaOf(1) : Do(c)
DoLost    == \E c \in AlphaOf(2) : Do(c)
DoFec     == \E c \in AlphaOf(3) : Do(c)
DoReset   == \E c \in AlphaOf(4) : Do(c)
DoSetGain == \E c \in AlphaOf(5) : Do(c)

Next == /\ (MaxSteps = 0 \/ steps < MaxSteps)
        /\ (DoDecode \/ DoLost \/ DoFec \/ DoReset \/ DoSetGain)

Spec == Init /\ [][Next]_vars

-----------------------------------------------------------------------------
(* Invariants *)
IsDecodeCall == last.call[1] \in {1, 2, 3}

TypeOK == DecTypeOK(d)

\* the alphabet is what it claims to be: valid shapes parse, corrupted ones do not
AlphabetSound ==
  \A c \in Cfgs, st \in Stereos :
     /\ \A sh \in Shapes : Parse(MkPkt(c, st, sh), FALSE).ok
     /\ \A sh \in BadShapes : ~Parse(MkPkt(c, st, sh), FALSE).ok

RetContract == IsDecodeCall => RetContractOf(last.res, last.fs)

\* exactness of success: valid framing and room (or a 2.5 ms multiple for PLC/FEC), nothing else
SuccessIff ==
  IsDecodeCall =>
    LET s == last.prev fs == last.fs fec == last.fec r == last.r
        lost == last.call[1] = 2
        n == IF r.ok THEN r.count * SamplesPerFrame(r.toc, s.Fs) ELSE 0 IN
    /\ last.res.ok <=> /\ fs > 0 /\ fec \in {0, 1} /\ (lost \/ r.ok)
                       /\ (lost \/ fec = 1) => fs % Q(s) = 0
                       /\ (~lost /\ fec = 0) => n <= fs
    /\ last.res.ok => last.res.n = IF lost \/ fec = 1 THEN fs ELSE n

LastDurTracks == IsDecodeCall => /\ LastDurTracksOf(last.prev, last.res)
                                 /\ GetLastPacketDuration(d) = IF last.res.ok THEN last.res.n ELSE last.prev.lastDur

ErrorKeepsState == ~last.res.ok => d = last.prev

\* concealment before any coded frame is silence, and only then
PlcBeforeFirstPacketSilent ==
  /\ ~coded => PlcMode(d) = 0
  /\ coded => d.prevMode # 0
  /\ (IsDecodeCall /\ last.res.ok /\ last.res.out \in {"zeros", "plc"}) => (last.res.out = "zeros" <=> ~last.pcoded)

FecNeedsSilkAndRoom ==
  (IsDecodeCall /\ last.res.ok /\ last.res.out = "fec") =>
     LET toc == last.r.toc IN
     /\ TocMode(toc) \in {MODE_SILK, MODE_HYBRID}
     /\ last.fs >= SamplesPerFrame(toc, d.Fs)
     /\ last.prev.mode # MODE_CELT
     /\ d.mode = TocMode(toc) /\ d.bw = TocBandwidth(toc)

\* structure of the control state
StateShape ==
  /\ d.prevRedundancy => d.prevMode \in {MODE_SILK, MODE_HYBRID}
  /\ d.mode = 0 => d.prevMode = 0 /\ d.bw = 0 /\ d.frameSize = Q(d)
  /\ d.mode # 0 => d.bw # 0
  /\ d.lastDur % Q(d) = 0
  /\ d.lastDur <= OneSec(d)

\* every concealment request that is a multiple of 2.5 ms (up to one second) is cut into pieces
\* the concealers accept, and the pieces add up to the request (the loop in opus_decode_native ends)
PlcSizes == {k * Q(d) : k \in (1..50) \cup {96, 97, 399, 400}}
PlcPiecesFit == \A fs \in PlcSizes : PlcPiecesOK(d, fs)

-----------------------------------------------------------------------------
(* Generation of call sequences.                                            *)
(* GenMode 1: a transition tour.  States are identified by GenView (the     *)
(* history and the values that do not influence later calls are left out),  *)
(* so TLC keeps one shortest history per abstract state; for every state    *)
(* the history extended by each call of the alphabet is printed.            *)
(* GenMode 2: every sequence of exactly MaxSteps calls.                      *)
GenView == <<[d EXCEPT !.lastDur = 0, !.gain = 0], coded, IF GenMode = 2 THEN hist ELSE <<>>>>

(* Model checking uses the same view: lastDur and gain are only ever written  *)
(* (no guard or result reads them), `last` is a record of the step just taken.*)
(* The per-call theorems are therefore stated on TRANSITIONS (TLC evaluates   *)
(* an action property on every transition it generates, also those that lead  *)
(* to a state it has already seen), the state theorems as invariants.         *)
StepOK == /\ RetContract' /\ SuccessIff' /\ LastDurTracks' /\ ErrorKeepsState'
          /\ PlcBeforeFirstPacketSilent' /\ FecNeedsSilkAndRoom' /\ StateShape' /\ TypeOK'
StepProp == [][StepOK]_vars

EmitSeqs ==
  CASE GenMode = 1 -> \A c \in Alphabet :
                         LET res == CallInfo(c, d).res IN     \* the model's outcome of the final call (vacuity evidence)
                         PrintT("SEQ " \o (IF res.ok THEN res.out ELSE "fail") \o " " \o ToString(Append(hist, c)))
    [] GenMode = 2 -> (steps = MaxSteps => PrintT("SEQ " \o (IF last.res.ok THEN last.res.out ELSE "fail") \o " " \o ToString(hist)))
    [] OTHER -> TRUE
=============================================================================
