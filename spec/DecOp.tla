------------------------------- MODULE DecOp -------------------------------
(***************************************************************************)
(* Growth module G05.  An OPERATIONAL model of opus_decode_native() and     *)
(* opus_decode_frame() (src/opus_decoder.c) that refines the contract model *)
(* DecCtl: DecCtl says WHAT every public decode / conceal / FEC call must    *)
(* return and how the control state may move; this module says HOW the code  *)
(* gets there, one sub-step at a time, and carries the concealment           *)
(* bookkeeping underneath:                                                   *)
(*   CELT  loss_duration, skip_plc, postfilter_period (celt/celt_decoder.c)  *)
(*   SILK  lossCnt, first_frame_after_reset, prevSignalType, sPLC.last_frame_ *)
(*         lost, fs_kHz per channel; nFramesDecoded, nFramesPerPacket,        *)
(*         nb_subfr, nChannelsInternal, prev_decode_only_middle               *)
(*                                            (silk/dec_API.c, decode_frame.c,*)
(*                                             PLC.c, decoder_set_fs.c)       *)
(* whether the soft clipper's memory is live (softclip_mem, only touched by    *)
(* a normal decode), and a ghost count of how often the decoder gain           *)
(* multiplies each piece of output (finding F12 was a second application on    *)
(* the transition audio).                                                     *)
(*                                                                         *)
(* The model is a small-step machine.  A configuration m holds the decoder    *)
(* state m.s, the arguments of the call in progress, the locals of           *)
(* opus_decode_native, and up to two activation records of opus_decode_frame  *)
(* (m.f: called from opus_decode_native; m.g: the recursive concealment call   *)
(* made by m.f - chunking a long concealment, or producing the transition      *)
(* audio).  MSucc(m, ora) is the set of successor configurations: ONE source    *)
(* of truth, used as the next-state relation of DecOp_mc (every program        *)
(* counter a separately named action) and iterated by DecOpTrace to judge      *)
(* recorded calls.  What depends on coded bits is an oracle: the redundancy    *)
(* flag and direction of a SILK/hybrid frame, the mid-only flag and the LBRR   *)
(* flags of a SILK frame, the decoded signal type; the model branches over     *)
(* them (or takes them from `ora` when they were observed).                    *)
(*                                                                         *)
(* Line numbers refer to src/opus_decoder.c of the pinned tree.               *)
(***************************************************************************)
EXTENDS DecCtl

CONSTANTS LossSat,    \* CELT loss_duration saturates here           (10000, celt_decoder.c:957)
          NoiseAt,    \* loss_duration >= NoiseAt: noise-based PLC    (40 = 100 ms, celt_decoder.c:639)
          CntCap,     \* 0: SILK lossCnt counts without bound (the code); k > 0: abstraction for model checking, sticks at k
          GainFix     \* TRUE: the recursive transition concealment runs with the gain switched off (tree after
                      \* ec737545); FALSE: the tree before it (finding F12), kept as a witness variant

F2_5(d) == Q(d)
F5(d)   == 2 * Q(d)
F10(d)  == 4 * Q(d)
F20(d)  == 8 * Q(d)

-----------------------------------------------------------------------------
(* CELT concealment bookkeeping: [ld, skip, pf] = loss_duration (in 2.5 ms    *)
(* units: 1<<LM per frame), skip_plc and postfilter_period (-1: the period the *)
(* last decoded frame carried, not modelled).                                 *)
CeltInit == [ld |-> 0, skip |-> 1, pf |-> 0]           \* OPUS_RESET_STATE of the CELT decoder (celt_decoder.c:1547-1552)

\* a frame that is decoded (celt_decoder.c:1098, 1310, 1354); also the 2-byte silence frame and the redundant frames.
\* pf: the post-filter period it leaves behind: 0 when no post-filter can be coded (start band 17, silence), else coded
CeltGood(ce, pf) == [ld |-> 0, skip |-> IF ce.ld = 0 THEN 0 ELSE ce.skip, pf |-> pf]

\* does celt_decode_lost take the noise branch?  (celt_decoder.c:639)
CeltNoise(ce, start) == ce.ld >= NoiseAt \/ start # 0 \/ ce.skip = 1

\* a frame of n units that is concealed with start band `start` (celt_decoder.c:633-691, 957)
CeltLost(ce, n, start) == [ld |-> Min(LossSat, ce.ld + n), skip |-> IF CeltNoise(ce, start) THEN 1 ELSE ce.skip, pf |-> ce.pf]

\* the meaning of skip_plc: how many further consecutive decoded frames are needed before the pitch-based
\* concealment may be used again (1 after a reset, 2 after a noise-based concealment)
CeltNeed(ce) == IF ce.skip = 0 THEN 0 ELSE IF ce.ld = 0 THEN 1 ELSE 2

CeltTypeOK(ce) == ce.ld \in 0..LossSat /\ ce.skip \in {0, 1} /\ ce.pf \in -1..1022

-----------------------------------------------------------------------------
(* SILK bookkeeping.  Per channel: l lossCnt, f first_frame_after_reset,      *)
(* ll sPLC.last_frame_lost, t prevSignalType (-1: the type the last decoded    *)
(* frame carried, not modelled), fs fs_kHz.  Decoder super-struct and          *)
(* DecControl: ci psDec->nChannelsInternal, nfd/npp/nsub of channel 0,          *)
(* dom prev_decode_only_middle, dci/drate/dpay DecControl.nChannelsInternal,    *)
(* internalSampleRate (kHz), payloadSize_ms (these three are outside the part   *)
(* of OpusDecoder that OPUS_RESET_STATE clears).                               *)
ChInit == [l |-> 0, f |-> 1, ll |-> 0, t |-> 0, fs |-> 0]
SilkInit == [ci |-> 0, nfd |-> 0, npp |-> 0, nsub |-> 0, dom |-> 0, dci |-> 0, drate |-> 0, dpay |-> 0,
             ch |-> <<ChInit, ChInit>>]
\* silk_ResetDecoder (dec_API.c:89): both channel states, the stereo state, prev_decode_only_middle
SilkReset(sk) == [sk EXCEPT !.nfd = 0, !.npp = 0, !.nsub = 0, !.dom = 0, !.ch = <<ChInit, ChInit>>]

Cnt(x) == IF CntCap > 0 THEN Min(x, CntCap) ELSE x

\* payloadSize_ms = IMAX(10, 1000 * audiosize / Fs)        (line 420)
Pay(d, a) == LET ms == (1000 * a) \div d.Fs IN IF ms < 10 THEN 10 ELSE ms
NSilk(pay) == IF pay <= 20 THEN 1 ELSE pay \div 20          \* SILK frames decoded for one Opus frame (loop 454-476)
RateOf(mode, bw) == IF mode = MODE_SILK THEN (IF bw = BW_NB THEN 8 ELSE IF bw = BW_MB THEN 12 ELSE 16) ELSE 16   \* 425-439

\* TLC does not cache LET definitions while it evaluates an action: a value that is used several times is bound
\* through a set constructor instead (the bound variable holds the evaluated value)
Let1(v, F(_)) == CHOOSE y \in {F(x) : x \in {v}} : TRUE

\* one call of silk_Decode (dec_API.c:132).  lf: 0 decode, 1 packet lost, 2 decode LBRR;  newp: first call for this
\* Opus frame;  o = [dom, lb0, lb1]: mid-only flag read, LBRR flag of the frame about to be decoded, per channel
SilkSetFs(c, rate) == IF c.fs # rate THEN [c EXCEPT !.fs = rate, !.f = 1, !.t = 0] ELSE c        \* decoder_set_fs.c:72-97
\* silk_decode_frame (decode_frame.c:70-159) followed by silk_PLC_glue_frames (PLC.c:444-492)
SilkChFrame(c, coded) == IF coded THEN [c EXCEPT !.l = 0, !.t = -1, !.f = 0, !.ll = 0]
                         ELSE [c EXCEPT !.l = Cnt(@ + 1), !.ll = 1]
SilkPrep(sk, newp) ==
  LET nci == sk.dci
      nfd == IF newp THEN 0 ELSE sk.nfd                                                  \* 164-168
      c2  == IF nci > sk.ci THEN ChInit ELSE sk.ch[2] IN                                 \* 171-173
  IF nfd = 0                                                                             \* 178-210
  THEN [sk EXCEPT !.nfd = 0, !.ci = nci,                                                 \* 217-218
                  !.npp = IF sk.dpay <= 20 THEN 1 ELSE sk.dpay \div 20,
                  !.nsub = IF sk.dpay = 10 THEN 2 ELSE 4,
                  !.ch = <<SilkSetFs(sk.ch[1], sk.drate), IF nci = 2 THEN SilkSetFs(c2, sk.drate) ELSE c2>>]
  ELSE [sk EXCEPT !.ci = nci, !.ch[2] = c2]
SilkRun(s4, lf, o) ==
  LET nci == s4.dci
      dom == CASE lf = 0 -> (nci = 2 /\ o.dom)                                           \* 280-298
               [] lf = 2 -> (nci = 2 /\ o.lb0 /\ ~o.lb1 /\ o.dom)
               [] OTHER  -> FALSE
      sideReset == nci = 2 /\ ~dom /\ s4.dom = 1                                         \* 301-308
      hasSide == IF lf = 0 THEN ~dom ELSE (s4.dom = 0 \/ (nci = 2 /\ lf = 2 /\ o.lb1))   \* 318-323
      c2a == IF sideReset THEN [s4.ch[2] EXCEPT !.t = 0, !.f = 1] ELSE s4.ch[2]
      c1  == SilkChFrame(s4.ch[1], lf = 0 \/ (lf = 2 /\ o.lb0))                          \* 326-361
      c2  == IF nci = 2 /\ hasSide THEN SilkChFrame(c2a, lf = 0 \/ (lf = 2 /\ o.lb1)) ELSE c2a
  IN [s4 EXCEPT !.ch = <<c1, c2>>, !.nfd = @ + 1,
                !.dom = IF lf = 1 THEN @ ELSE IF dom THEN 1 ELSE 0]                      \* 421-428
SilkFrame(sk, lf, newp, o) == Let1(SilkPrep(sk, newp), LAMBDA s4 : SilkRun(s4, lf, o))

NoOra == [dom |-> FALSE, lb0 |-> FALSE, lb1 |-> FALSE]

(* The oracle handed to the machine: lbfix = the LBRR flags were observed (lb0/lb1: one flag per SILK frame of   *)
(* the packet, per channel); rz = the final range was observed to be zero after the call (the only trace the     *)
(* "sanity" path of the redundancy parse leaves).                                                               *)
FreeOra == [lbfix |-> FALSE, lb0 |-> <<>>, lb1 |-> <<>>, rz |-> TRUE]

SilkOracles(sk, lf, k, ora) ==
  IF lf = 1 THEN {NoOra}
  ELSE IF lf = 0 THEN {[dom |-> b, lb0 |-> FALSE, lb1 |-> FALSE] : b \in (IF sk.dci = 2 THEN BOOLEAN ELSE {FALSE})}
  ELSE LET L0 == IF ora.lbfix THEN {ora.lb0[k + 1] = 1} ELSE BOOLEAN
           L1 == IF sk.dci # 2 THEN {FALSE} ELSE IF ora.lbfix THEN {ora.lb1[k + 1] = 1} ELSE BOOLEAN IN
       {z \in [dom : BOOLEAN, lb0 : L0, lb1 : L1] : z.dom => (sk.dci = 2 /\ z.lb0 /\ ~z.lb1)}

SilkTypeOK(sk) ==
  /\ sk.ci \in 0..2 /\ sk.dci \in 0..2 /\ sk.nfd \in 0..3 /\ sk.npp \in 0..3 /\ sk.nsub \in {0, 2, 4} /\ sk.dom \in {0, 1}
  /\ sk.drate \in {0, 8, 12, 16} /\ sk.dpay \in {0, 10, 20, 40, 60}
  /\ \A n \in 1..2 : /\ sk.ch[n].l \in Nat /\ sk.ch[n].f \in {0, 1} /\ sk.ch[n].ll \in {0, 1}
                     /\ sk.ch[n].t \in {-1, 0, 1, 2} /\ sk.ch[n].fs \in {0, 8, 12, 16}

-----------------------------------------------------------------------------
(* The whole decoder: c DecCtl control state, ce CELT, sk SILK, hk what the   *)
(* last opus_decode_frame that reached its end decided (verification hook     *)
(* fields 11, 12, 13 > 0, 14).                                                *)
(* cm: softclip_mem[0/1] # 0 (hook fields 9, 10): 0 cleared, -1 whatever the   *)
(* soft clipper left behind.                                                  *)
HookInit == [red |-> 0, c2s |-> 0, rbp |-> 0, tr |-> 0]
OpInit(Fs, ch) == [c |-> DecInit(Fs, ch), ce |-> CeltInit, sk |-> SilkInit, hk |-> HookInit, cm |-> <<0, 0>>]
\* OPUS_RESET_STATE (lines 1051-1065); DecControl survives
OpReset(s) == [c |-> DecReset(s.c), ce |-> CeltInit, sk |-> SilkReset(s.sk), hk |-> HookInit, cm |-> <<0, 0>>]
OpSetGain(s, g) == IF g \in GAIN_MIN..GAIN_MAX THEN [ret |-> OK, next |-> [s EXCEPT !.c.gain = g]]
                   ELSE [ret |-> BAD_ARG, next |-> s]

B01(b) == IF b THEN 1 ELSE 0

-----------------------------------------------------------------------------
(* opus_decode_frame: one activation record.                                  *)
(*  len   payload bytes of the frame (0: data = NULL)      cap  frame_size argument                           *)
(*  fec   decode_fec argument                              gsup the caller has set st->decode_gain to 0        *)
(*  data  data != NULL after the len <= 1 test             asz  audiosize          mode                       *)
(*  tr    transition     red, c2s  redundancy, celt_to_silk                                                   *)
(*  k     SILK frames decoded so far     rem  what the chunk loop still has to conceal                        *)
(*  gmain how often the gain has multiplied the frame's own audio; gtr the same for the transition audio       *)
(*        that was cross-faded into it (-1: none)                                                             *)
(*  xf    cross-fade of the transition audio: "none", "full" (2.5 ms copied + 2.5 ms faded), "short"           *)
(*  r     return value   out  what the PCM holds: "none" "zeros" "plc" "chunk" "dec" "fec"   sane  FALSE: the   *)
(*        hybrid main payload shrank to <= 1 byte (sanity path, lines 500-507) and CELT concealed              *)
NewFrame(len, cap, fec, gsup) ==
  [pc |-> "f_enter", len |-> len, cap |-> cap, fec |-> fec, gsup |-> gsup,
   data |-> FALSE, asz |-> 0, mode |-> 0, tr |-> FALSE, red |-> FALSE, c2s |-> FALSE,
   k |-> 0, rem |-> 0, gmain |-> 0, gtr |-> -1, xf |-> "none", r |-> 0, out |-> "none", sane |-> TRUE]
NoFrame == [NewFrame(0, 0, 0, FALSE) EXCEPT !.pc = "none"]

CallPcs == {"f_callT", "f_callS", "f_callK"}

\* the rounding of a concealment request below 20 ms (lines 353-359)
PlcRound(d, m, a) ==
  IF a >= F20(d) THEN a
  ELSE IF a > F10(d) THEN F10(d)
  ELSE IF m # MODE_SILK /\ a > F5(d) /\ a < F10(d) THEN F5(d)
  ELSE a

\* lines 368-371
TransitionAt(d, data, mode) ==
  /\ data /\ d.prevMode > 0
  /\ \/ mode = MODE_CELT /\ d.prevMode # MODE_CELT /\ ~d.prevRedundancy
     \/ mode # MODE_CELT /\ d.prevMode = MODE_CELT

RedChoices3 == {<<FALSE, FALSE>>, <<TRUE, TRUE>>, <<TRUE, FALSE>>}

One(s, x) == {[s |-> s, x |-> x]}

(* one step of an activation record x on decoder state s; pcs in CallPcs and "f_ret" are handled by the caller *)
FStep(s, x, ora, redSet) ==
  LET d == s.c IN
  CASE x.pc = "f_enter" ->                                                                   \* 302-315
         IF x.cap < F2_5(d) THEN One(s, [x EXCEPT !.pc = "f_ret", !.r = BUFFER_TOO_SMALL])
         ELSE LET cap1 == Min(x.cap, MaxFs(d)) IN
              IF x.len <= 1 THEN One(s, [x EXCEPT !.pc = "f_mode", !.data = FALSE, !.cap = Min(cap1, d.frameSize)])
              ELSE One(s, [x EXCEPT !.pc = "f_mode", !.data = TRUE, !.cap = cap1])
    [] x.pc = "f_mode" ->                                                                    \* 316-360
         IF x.data THEN One(s, [x EXCEPT !.asz = d.frameSize, !.mode = d.mode, !.pc = "f_trans"])
         ELSE LET m == PlcMode(d) a == x.cap IN
              IF m = 0 THEN One(s, [x EXCEPT !.asz = a, !.r = a, !.out = "zeros", !.pc = "f_ret"])
              ELSE IF a > F20(d) THEN One(s, [x EXCEPT !.asz = a, !.mode = m, !.rem = a, !.pc = "f_chunk"])
              ELSE One(s, [x EXCEPT !.asz = PlcRound(d, m, a), !.mode = m, !.pc = "f_trans"])
    [] x.pc = "f_chunk" ->                                                                   \* 339-352
         IF x.rem > 0 THEN One(s, [x EXCEPT !.pc = "f_callK"])
         ELSE One(s, [x EXCEPT !.r = x.cap, !.out = "chunk", !.pc = "f_ret"])
    [] x.pc = "f_trans" ->                                                                   \* 368-389
         LET tr == TransitionAt(d, x.data, x.mode) IN
         IF tr /\ x.mode = MODE_CELT THEN One(s, [x EXCEPT !.tr = TRUE, !.pc = "f_callT"])
         ELSE One(s, [x EXCEPT !.tr = tr, !.pc = "f_room"])
    [] x.pc = "f_room" ->                                                                    \* 390-397
         IF x.asz > x.cap THEN One(s, [x EXCEPT !.r = BAD_ARG, !.pc = "f_ret"])
         ELSE One(s, [x EXCEPT !.pc = IF x.mode # MODE_CELT THEN "f_silk" ELSE "f_red"])
    [] x.pc = "f_silk" ->                                                                    \* 400-453
         LET sk1 == IF d.prevMode = MODE_CELT THEN SilkReset(s.sk) ELSE s.sk
             sk2 == [sk1 EXCEPT !.dpay = Pay(d, x.asz)]
             sk3 == IF x.data THEN [sk2 EXCEPT !.dci = d.streamCh, !.drate = RateOf(x.mode, d.bw)] ELSE sk2
         IN One([s EXCEPT !.sk = sk3], [x EXCEPT !.k = 0, !.pc = "f_silkfr"])
    [] x.pc = "f_silkfr" ->                                                                  \* 454-476
         LET lf == IF ~x.data THEN 1 ELSE IF x.fec = 1 THEN 2 ELSE 0
             nx == IF x.k + 1 < NSilk(s.sk.dpay) THEN "f_silkfr" ELSE "f_red" IN
         {[s |-> [s EXCEPT !.sk = SilkFrame(s.sk, lf, x.k = 0, o)], x |-> [x EXCEPT !.k = @ + 1, !.pc = nx]]
          : o \in SilkOracles(s.sk, lf, x.k, ora)}
    [] x.pc = "f_red" ->                                                                     \* 482-519
         LET coded == x.data /\ x.fec = 0 /\ x.mode # MODE_CELT
             ch == IF coded THEN redSet ELSE {<<FALSE, FALSE>>}
             \* the "sanity" path (500-507): a hybrid frame announces more redundant bytes than it has; the redundancy is
             \* dropped (celt_to_silk keeps what was read), the main payload shrinks to nothing and the MDCT layer conceals
             sn == IF coded /\ x.mode = MODE_HYBRID /\ ora.rz /\ redSet = RedChoices3 THEN BOOLEAN ELSE {} IN
         {[s |-> s, x |-> [x EXCEPT !.red = rc[1], !.c2s = rc[2], !.tr = x.tr /\ ~rc[1], !.pc = "f_trsilk"]] : rc \in ch}
         \cup {[s |-> s, x |-> [x EXCEPT !.red = FALSE, !.c2s = c, !.sane = FALSE, !.pc = "f_trsilk"]] : c \in sn}
    [] x.pc = "f_trsilk" ->                                                                  \* 523-531
         One(s, [x EXCEPT !.pc = IF x.tr /\ x.mode # MODE_CELT THEN "f_callS" ELSE "f_cpre"])
    [] x.pc = "f_cpre" ->                                                                    \* 566-577: CELT->SILK redundant frame first
         One(IF x.red /\ x.c2s THEN [s EXCEPT !.ce = CeltGood(@, -1)] ELSE s, [x EXCEPT !.pc = "f_celt"])
    [] x.pc = "f_celt" ->                                                                    \* 580-609
         IF x.mode # MODE_SILK
         THEN LET ce1 == IF x.mode # d.prevMode /\ d.prevMode > 0 /\ ~d.prevRedundancy THEN CeltInit ELSE s.ce
                  n   == Min(F20(d), x.asz) \div Q(d)
                  st  == IF x.mode = MODE_HYBRID THEN 17 ELSE 0 IN
              IF x.data /\ x.fec = 0 /\ x.sane
              THEN One([s EXCEPT !.ce = CeltGood(ce1, IF x.mode = MODE_HYBRID THEN 0 ELSE -1)], [x EXCEPT !.pc = "f_cpost"])
              ELSE One([s EXCEPT !.ce = CeltLost(ce1, n, st)], [x EXCEPT !.pc = "f_cpost"])
         ELSE \* hybrid -> SILK: the MDCT fades out on a silence frame
              IF d.prevMode = MODE_HYBRID /\ ~(x.red /\ x.c2s /\ d.prevRedundancy)
              THEN One([s EXCEPT !.ce = CeltGood(@, 0)], [x EXCEPT !.pc = "f_cpost"])
              ELSE One(s, [x EXCEPT !.pc = "f_cpost"])
    [] x.pc = "f_cpost" ->                                                                   \* 617-627: SILK->CELT redundant frame last, after a reset
         One(IF x.red /\ ~x.c2s THEN [s EXCEPT !.ce = CeltGood(CeltInit, -1)] ELSE s, [x EXCEPT !.pc = "f_fade"])
    [] x.pc = "f_fade" ->                                                                    \* 631-660
         One(s, [x EXCEPT !.xf = IF ~x.tr THEN "none" ELSE IF x.asz >= F5(d) THEN "full" ELSE "short", !.pc = "f_gain"])
    [] x.pc = "f_gain" ->                                                                    \* 662-676
         IF d.gain # 0 /\ ~x.gsup
         THEN One(s, [x EXCEPT !.gmain = @ + 1, !.gtr = IF @ >= 0 THEN @ + 1 ELSE @, !.pc = "f_upd"])
         ELSE One(s, [x EXCEPT !.pc = "f_upd"])
    [] x.pc = "f_upd" ->                                                                     \* 678-699
         One([s EXCEPT !.c.prevMode = x.mode, !.c.prevRedundancy = (x.red /\ ~x.c2s),
                       !.hk = [red |-> B01(x.red), c2s |-> B01(x.c2s), rbp |-> B01(x.red), tr |-> B01(x.tr)]],
             [x EXCEPT !.r = x.asz, !.out = IF ~x.data THEN "plc" ELSE IF x.fec = 1 THEN "fec" ELSE "dec", !.pc = "f_ret"])

\* the concealment call an activation record makes: its frame_size argument and whether the gain is switched off
InnerOf(s, x) ==
  CASE x.pc = "f_callK" -> NewFrame(0, Min(x.rem, F20(s.c)), 0, FALSE)
    [] x.pc = "f_callT" -> NewFrame(0, Min(F5(s.c), x.asz), 0, GainFix)
    [] x.pc = "f_callS" -> NewFrame(0, Min(F5(s.c), x.asz), 0, GainFix)
\* ... and what the caller does with its result
AfterInner(x, g) ==
  CASE x.pc = "f_callK" -> IF g.r < 0 THEN [x EXCEPT !.r = g.r, !.pc = "f_ret"] ELSE [x EXCEPT !.rem = @ - g.r, !.pc = "f_chunk"]
    [] x.pc = "f_callT" -> [x EXCEPT !.gtr = g.gmain, !.pc = "f_room"]
    [] x.pc = "f_callS" -> [x EXCEPT !.gtr = g.gmain, !.pc = "f_cpre"]

\* the gain has multiplied everything an activation record delivers exactly once (C19)
GainOnceOf(d, x) ==
  (d.gain # 0 /\ ~x.gsup /\ x.r > 0 /\ x.out \in {"plc", "dec", "fec"}) => (x.gmain = 1 /\ x.gtr \in {-1, 1})

-----------------------------------------------------------------------------
(* opus_decode_native and the public wrappers.  A call:                       *)
(*   [kind ("dec" | "reset" | "gain"), api, lost (data = NULL or len = 0), neg (len < 0), r (Framing!Parse), nbs    *)
(*    (opus_packet_get_nb_samples), fs (frame_size), fec (decode_fec), g (gain argument), redc (planned redundancy    *)
(*    class of the packet: 0 none, 1 CELT->SILK on the first coded frame, 2 SILK->CELT on the last, 3 free)]         *)
Idle(s) == [pc |-> "idle", s |-> s, s0 |-> s, a |-> [kind |-> "none"], fs |-> 0, i |-> 0, nb |-> 0, tot |-> 0, done |-> 0,
            aft |-> "none", nret |-> "none", lvl |-> 0, f |-> NoFrame, g |-> NoFrame, ret |-> 0, out |-> "none",
            pieces |-> <<>>, gok |-> TRUE, sane |-> TRUE, clip |-> FALSE, tg |-> {}]

Start(s, a) == [Idle(s) EXCEPT !.pc = IF a.kind = "dec" THEN "n_wrap" ELSE "n_ctl", !.a = a, !.fs = IF a.kind = "dec" THEN a.fs ELSE 0]

Fin(m, ret, out) == [m EXCEPT !.pc = "n_ret", !.ret = ret, !.out = out, !.lvl = 0, !.f = NoFrame, !.g = NoFrame]

CallFrame(m, len, cap, fec, nret) == [m EXCEPT !.pc = "frame", !.lvl = 1, !.f = NewFrame(len, cap, fec, FALSE), !.nret = nret]

PlcLoop(m, tot, aft) == [m EXCEPT !.pc = "n_plc", !.tot = tot, !.done = 0, !.aft = aft, !.pieces = <<>>]

\* which redundancy decisions the machine branches over for the frame it is decoding
RedSetOf(m) ==
  IF m.a.redc = 3 THEN RedChoices3
  ELSE IF m.a.redc = 1 /\ m.i = 1 THEN {<<TRUE, TRUE>>}
  ELSE IF m.a.redc = 2 /\ m.i = m.a.r.count THEN {<<TRUE, FALSE>>}
  ELSE {<<FALSE, FALSE>>}

NStep(m, ora) ==
  LET s == m.s d == m.s.c a == m.a IN
  CASE m.pc = "n_ctl" ->
         IF a.kind = "reset" THEN {Fin([m EXCEPT !.s = OpReset(s)], OK, "ctl")}
         ELSE LET x == OpSetGain(s, a.g) IN {Fin([m EXCEPT !.s = x.next], x.ret, "ctl")}
    [] m.pc = "n_wrap" ->                                                    \* opus_decode / opus_decode24 / opus_decode_float
         IF a.fs <= 0 THEN {Fin(m, BAD_ARG, "none")}
         ELSE IF a.api # API_F32 /\ ~a.lost /\ ~a.neg /\ a.fec = 0
              THEN IF a.nbs <= 0 THEN {Fin(m, INVALID_PACKET, "none")}
                   ELSE {[m EXCEPT !.pc = "n_args", !.fs = Min(a.fs, a.nbs), !.clip = (a.api = API_I16)]}
              ELSE {[m EXCEPT !.pc = "n_args", !.clip = (a.api = API_I16)]}
    [] m.pc = "n_args" ->                                                    \* 714-718, 748, 763
         IF a.fec \notin {0, 1} THEN {Fin(m, BAD_ARG, "none")}
         ELSE IF (a.fec = 1 \/ a.lost) /\ m.fs % Q(d) # 0 THEN {Fin(m, BAD_ARG, "none")}
         ELSE IF a.lost THEN {PlcLoop(m, m.fs, "n_plcfin")}
         ELSE IF a.neg THEN {Fin(m, BAD_ARG, "none")}
         ELSE {[m EXCEPT !.pc = "n_parse"]}
    [] m.pc = "n_parse" ->                                                   \* 766-776
         IF ~a.r.ok THEN {Fin(m, INVALID_PACKET, "none")}
         ELSE {[m EXCEPT !.pc = IF a.fec = 1 THEN "n_fec" ELSE "n_room"]}
    [] m.pc = "n_fec" ->                                                     \* 778-796
         LET pfs == SamplesPerFrame(a.r.toc, d.Fs) IN
         IF m.fs < pfs \/ TocMode(a.r.toc) = MODE_CELT \/ d.mode = MODE_CELT THEN {PlcLoop(m, m.fs, "n_plcfin")}
         ELSE IF m.fs - pfs # 0 THEN {PlcLoop(m, m.fs - pfs, "n_fec2")}
         ELSE {[m EXCEPT !.pc = "n_fec2"]}
    [] m.pc = "n_fec2" ->                                                    \* 797-803
         LET pfs == SamplesPerFrame(a.r.toc, d.Fs) IN
         {CallFrame([m EXCEPT !.s.c = WithToc(d, a.r.toc), !.i = 1], a.r.sizes[1], pfs, 1, "n_fec3")}
    [] m.pc = "n_fec3" ->                                                    \* 804-811
         IF m.f.r < 0 THEN {Fin(m, m.f.r, "none")}
         ELSE {Fin([m EXCEPT !.s.c.lastDur = m.fs], m.fs, "fec")}
    [] m.pc = "n_room" ->                                                    \* 814-821
         IF a.r.count * SamplesPerFrame(a.r.toc, d.Fs) > m.fs THEN {Fin(m, BUFFER_TOO_SMALL, "none")}
         ELSE {[m EXCEPT !.s.c = WithToc(d, a.r.toc), !.i = 1, !.nb = 0, !.pc = "n_loop"]}
    [] m.pc = "n_loop" ->                                                    \* 824-833
         IF m.i <= a.r.count THEN {CallFrame(m, a.r.sizes[m.i], m.fs - m.nb, 0, "n_loopr")}
         ELSE {[m EXCEPT !.pc = "n_fin"]}
    [] m.pc = "n_loopr" ->
         IF m.f.r < 0 THEN {Fin(m, m.f.r, "none")}
         ELSE {[m EXCEPT !.nb = @ + m.f.r, !.i = @ + 1, !.f = NoFrame, !.pc = "n_loop"]}
    [] m.pc = "n_fin" ->                                                     \* 834-843: duration, then the soft clipper (16-bit API) or its memory
         \* cleared; concealment and FEC calls return before this point: neither clipped nor the memory touched
         {Fin([m EXCEPT !.s.c.lastDur = m.nb, !.s.cm = IF m.clip THEN <<-1, -1>> ELSE <<0, 0>>], m.nb, "decoded")}
    [] m.pc = "n_plc" ->                                                     \* 748-762
         IF m.done < m.tot THEN {CallFrame(m, 0, m.tot - m.done, 0, "n_plcr")}
         ELSE {[m EXCEPT !.s.c.lastDur = m.done, !.pc = m.aft]}
    [] m.pc = "n_plcr" ->
         IF m.f.r < 0                                                        \* (a failing FEC concealment restores last_packet_duration, 790-794)
         THEN {Fin(IF m.aft = "n_fec2" THEN [m EXCEPT !.s.c.lastDur = m.s0.c.lastDur] ELSE m, m.f.r, "none")}
         ELSE {[m EXCEPT !.done = @ + m.f.r, !.f = NoFrame, !.pc = "n_plc"]}
    [] m.pc = "n_plcfin" ->
         {Fin(m, m.done, IF PlcMode(m.s0.c) = 0 THEN "zeros" ELSE "plc")}

Active(m) == IF m.lvl = 2 THEN m.g ELSE m.f

(* The next-state relation of the machine. *)
MSucc(m, ora) ==
  IF m.pc = "idle" \/ m.pc = "n_ret" THEN {}
  ELSE IF m.pc # "frame" THEN NStep(m, ora)
  ELSE LET x == Active(m) IN
       IF m.lvl = 1 /\ x.pc \in CallPcs THEN {[m EXCEPT !.g = InnerOf(m.s, x), !.lvl = 2]}
       ELSE IF x.pc = "f_ret"
       THEN LET leaf == x.out \in {"plc", "zeros"} /\ m.nret = "n_plcr" /\ x.r > 0
                m1 == [m EXCEPT !.gok = @ /\ GainOnceOf(m.s.c, x), !.sane = @ /\ x.sane,
                                !.pieces = IF leaf THEN Append(@, x.r) ELSE @] IN
            IF m.lvl = 2 THEN {[m1 EXCEPT !.f = AfterInner(m.f, x), !.g = NoFrame, !.lvl = 1]}
            ELSE {[m1 EXCEPT !.pc = m.nret, !.lvl = 0]}
       ELSE {IF m.lvl = 2 THEN [m EXCEPT !.s = y.s, !.g = y.x] ELSE [m EXCEPT !.s = y.s, !.f = y.x]
             : y \in FStep(m.s, x, ora, RedSetOf(m))}

\* the name of the sub-step a configuration is about to take
PcOf(m) == IF m.pc = "frame" THEN Active(m).pc ELSE m.pc

NativePcs == {"n_ctl", "n_wrap", "n_args", "n_parse", "n_fec", "n_fec2", "n_fec3", "n_room", "n_loop", "n_loopr", "n_fin",
              "n_plc", "n_plcr", "n_plcfin"}
FramePcs  == {"f_enter", "f_mode", "f_chunk", "f_trans", "f_room", "f_silk", "f_silkfr", "f_red", "f_trsilk", "f_cpre",
              "f_celt", "f_cpost", "f_fade", "f_gain", "f_upd", "f_ret"} \cup CallPcs

-----------------------------------------------------------------------------
\* The sub-cases the description of the code distinguishes, as tags of the sub-step from configuration a to b.
X(a) == Active(a)
CeltSwitch(a) == X(a).mode # MODE_SILK /\ X(a).mode # a.s.c.prevMode /\ a.s.c.prevMode > 0 /\ ~a.s.c.prevRedundancy
CeltCoded(a)  == X(a).mode # MODE_SILK /\ X(a).data /\ X(a).fec = 0 /\ X(a).sane
T(c, t) == IF c THEN {t} ELSE {}
TagsOf(a, b) ==
  LET p == PcOf(a) x == X(a) y == X(b) IN
  CASE p = "n_wrap"  -> T(b.pc = "n_ret", "wrapReject") \cup T(b.pc # "n_ret" /\ b.fs < a.fs, "wrapClamp")
    [] p = "n_args"  -> T(b.pc = "n_ret", "argsReject") \cup T(b.pc = "n_plc", "lost")
    [] p = "n_parse" -> T(b.pc = "n_ret", "invalid")
    [] p = "n_fec"   -> T(b.pc = "n_plc" /\ b.aft = "n_plcfin", "fecFallback") \cup T(b.pc = "n_plc" /\ b.aft = "n_fec2", "fecPlcPart")
                        \cup T(b.pc = "n_fec2", "fecDirect")
    [] p = "n_room"  -> T(b.pc = "n_ret", "room")
    [] p = "n_loopr" -> T(b.i > 2, "multiFrame")
    [] p = "f_enter" -> T(~y.data /\ x.len = 1, "dtxFrame") \cup T(y.pc = "f_ret", "frameTooSmall")
    [] p = "f_mode"  -> T(y.out = "zeros", "zeros") \cup T(y.pc = "f_chunk", "chunk")
                        \cup T(~x.data /\ y.pc = "f_trans" /\ y.asz = F10(a.s.c) /\ x.cap # y.asz, "round10")
                        \cup T(~x.data /\ y.pc = "f_trans" /\ y.asz = F5(a.s.c) /\ x.cap # y.asz, "round5")
                        \cup T(~x.data /\ y.pc = "f_trans" /\ y.mode = MODE_SILK /\ y.asz < F10(a.s.c), "silkShort")
    [] p = "f_trans" -> T(y.tr /\ y.pc = "f_callT", "transCelt") \cup T(y.tr /\ y.pc # "f_callT", "transSilkPending")
    [] p = "f_silk"  -> T(a.s.c.prevMode = MODE_CELT, "silkResetAfterCelt") \cup T(b.s.sk.dpay >= 40, "silkMultiFrame")
    [] p = "f_silkfr" -> T(x.data /\ x.fec = 1 /\ b.s.sk.ch[1].l = 0, "fecLbrr") \cup T(x.data /\ x.fec = 1 /\ b.s.sk.ch[1].l # 0, "fecNoLbrr")
                        \cup T(a.s.sk.ch[1].ll = 1 /\ b.s.sk.ch[1].ll = 0, "glue") \cup T(~x.data, "silkConceal")
                        \cup T(b.s.sk.dom = 1, "midOnly") \cup T(a.s.sk.dom = 1 /\ b.s.sk.dom = 0 /\ x.data, "sideReset")
                        \cup T(a.s.sk.ch[1].fs # b.s.sk.ch[1].fs /\ a.s.sk.ch[1].fs # 0, "rateSwitch")
                        \cup T(a.s.sk.ci = 1 /\ b.s.sk.ci = 2, "monoToStereo")
    [] p = "f_red"   -> T(~y.sane, "sanity") \cup T(y.red /\ y.c2s, "redC2s") \cup T(y.red /\ ~y.c2s, "redS2c") \cup T(x.tr /\ ~y.tr, "redReplacesTransition")
    [] p = "f_trsilk" -> T(y.pc = "f_callS", "transSilk")
    [] p = "f_cpre"  -> T(x.red /\ x.c2s, "c2sFirst")
    [] p = "f_celt"  -> T(CeltCoded(a) /\ ~CeltSwitch(a), "celtDecode") \cup T(CeltCoded(a) /\ CeltSwitch(a), "celtResetDecode")
                        \cup T(x.mode # MODE_SILK /\ ~CeltCoded(a) /\ b.s.ce.skip = 0, "pitchPlc")
                        \cup T(x.mode # MODE_SILK /\ ~CeltCoded(a) /\ b.s.ce.skip = 1, "noisePlc")
                        \cup T(x.mode # MODE_SILK /\ ~CeltCoded(a) /\ CeltSwitch(a), "celtResetConceal")
                        \cup T(x.mode = MODE_HYBRID /\ x.data /\ x.fec = 1, "fecHybridCeltConceals")
                        \cup T(x.mode # MODE_SILK /\ a.s.ce.ld = LossSat /\ b.s.ce.ld = LossSat, "saturated")
                        \cup T(x.mode = MODE_SILK /\ a.s.c.prevMode = MODE_HYBRID /\ b.s.ce = CeltGood(a.s.ce, 0), "silence")
                        \cup T(x.mode = MODE_SILK /\ a.s.c.prevMode = MODE_HYBRID /\ x.red /\ x.c2s /\ a.s.c.prevRedundancy, "silenceSkipped")
                        \cup T(b.s.ce.skip = 0 /\ a.s.ce.skip = 1, "skipCleared")
    [] p = "f_cpost" -> T(x.red /\ ~x.c2s, "s2cLast")
    [] p = "f_fade"  -> T(y.xf = "full", "xfFull") \cup T(y.xf = "short", "xfShort")
                        \cup T(x.red /\ x.c2s /\ (a.s.c.prevMode # MODE_SILK \/ a.s.c.prevRedundancy), "c2sFadeUsed")
                        \cup T(x.red /\ x.c2s /\ ~(a.s.c.prevMode # MODE_SILK \/ a.s.c.prevRedundancy), "c2sAudioDropped")
    [] p = "f_gain"  -> T(y.gmain > x.gmain, "gain") \cup T(y.gmain > x.gmain /\ x.gtr >= 0, "gainOnTransition")
                        \cup T(x.gsup /\ a.s.c.gain # 0, "gainSuppressed")
    [] OTHER -> {}

AllTags == {"wrapReject", "wrapClamp", "argsReject", "lost", "invalid", "fecFallback", "fecPlcPart", "fecDirect", "room", "multiFrame",
            "dtxFrame", "zeros", "chunk", "round10", "round5", "silkShort", "transCelt", "transSilkPending", "silkResetAfterCelt",
            "silkMultiFrame", "fecLbrr", "fecNoLbrr", "glue", "silkConceal", "midOnly", "sideReset", "rateSwitch", "monoToStereo",
            "redC2s", "redS2c", "redReplacesTransition", "transSilk", "c2sFirst", "celtDecode", "celtResetDecode", "sanity", "pitchPlc",
            "noisePlc", "celtResetConceal", "fecHybridCeltConceals", "saturated", "silence", "silenceSkipped", "skipCleared", "s2cLast",
            "xfFull", "xfShort", "c2sFadeUsed", "c2sAudioDropped", "gain", "gainOnTransition", "gainSuppressed"}

-----------------------------------------------------------------------------
(* The contract the call must meet (DecCtl), computed on the control state    *)
(* the call started from.                                                     *)
ContractOf(c0, a) ==
  CASE a.kind = "dec"   -> DecodeResP(c0, a.lost, a.neg, a.r, a.fs, a.fec)
    [] a.kind = "reset" -> [ok |-> TRUE, n |-> 0, rets |-> {Reset(c0).ret}, nexts |-> {Reset(c0).next}, out |-> "ctl"]
    [] a.kind = "gain"  -> [ok |-> SetGain(c0, a.g).ret = OK, n |-> 0, rets |-> {SetGain(c0, a.g).ret},
                            nexts |-> {SetGain(c0, a.g).next}, out |-> "ctl"]

\* Op \subseteq Contract: return value, successor control state and output class of a finished call
RefinesAt(m) ==
  LET res == ContractOf(m.s0.c, m.a) IN
  /\ m.ret \in res.rets
  /\ m.s.c \in res.nexts
  /\ m.out = res.out

\* the leaf pieces of a concealment request are the ones DecCtl!PlcPieces lists (and FEC = concealment of
\* frame_size - packet_frame_size followed by one LBRR decode)
PiecesAt(m) ==
  /\ (m.a.kind = "dec" /\ m.out \in {"plc", "zeros"}) => m.pieces = PlcPieces(m.s0.c, PlcMode(m.s0.c), m.done)
  /\ (m.a.kind = "dec" /\ m.out = "fec") =>
        m.pieces = IF m.tot > 0 THEN PlcPieces(m.s0.c, PlcMode(m.s0.c), m.tot) ELSE <<>>

OpTypeOK(s) == /\ DecTypeOK(s.c) /\ CeltTypeOK(s.ce) /\ SilkTypeOK(s.sk) /\ s.hk \in [red : {0, 1}, c2s : {0, 1}, rbp : {0, 1}, tr : {0, 1}]
               /\ s.cm \in {<<0, 0>>, <<-1, -1>>}

\* state theorems of the bookkeeping
CounterShape(s) ==
  /\ \A n \in 1..2 : s.sk.ch[n].ll = B01(s.sk.ch[n].l > 0)             \* last_frame_lost <=> lossCnt > 0 (conceal -> glue)
  /\ s.hk.red = 1 => s.hk.tr = 0                                        \* a redundant frame replaces the transition
  /\ s.c.prevRedundancy => (s.hk.red = 1 /\ s.hk.c2s = 0)
  /\ s.c.prevMode = 0 => (s.ce = CeltInit /\ s.sk.ch = <<ChInit, ChInit>>)   \* nothing decoded since creation / reset
(* Call-level theorems of the bookkeeping (m: a finished call, m.s0 the state it started from). *)
LastCoded(a) == a.r.ok /\ a.r.sizes[a.r.count] >= 2
CountersAt(m) ==
  LET a == m.a s0 == m.s0 s == m.s pm == PlcMode(s0.c) IN
  a.kind = "dec" =>
    \* a failing call changes nothing (the model has no failure inside opus_decode_frame)
    /\ m.ret < 0 => s = s0
    \* a concealment request of n samples advances loss_duration by exactly n (in 2.5 ms units), saturating; SILK
    \* conceals one frame per leaf piece; the speech layer is untouched in MDCT mode and vice versa
    /\ (m.out = "plc" /\ pm \in {MODE_CELT, MODE_HYBRID}) =>
          (s.ce.ld = Min(LossSat, s0.ce.ld + m.done \div Q(s.c)) /\ s.ce.ld > 0)
    /\ (m.out = "plc" /\ pm = MODE_HYBRID) => s.ce.skip = 1            \* start band 17: always the noise branch
    /\ (m.out = "plc" /\ pm = MODE_SILK) => s.ce = s0.ce
    /\ (m.out = "plc" /\ pm = MODE_CELT) => s.sk = s0.sk
    /\ (m.out \in {"plc", "zeros", "fec"}) => s.cm = s0.cm             \* concealment / FEC output is not soft-clipped, memory untouched
    /\ (m.out \in {"plc", "zeros"}) => s.ce.pf = s0.ce.pf               \* concealment keeps the post-filter period
    /\ (m.out = "plc" /\ pm \in {MODE_SILK, MODE_HYBRID}) =>
          /\ s.sk.ch[1].l = (IF CntCap > 0 THEN Min(CntCap, s0.sk.ch[1].l + Len(m.pieces)) ELSE s0.sk.ch[1].l + Len(m.pieces))
          /\ s.sk.ch[1].ll = 1 /\ s.sk.nfd = 1 /\ s.sk.npp = 1
          /\ s.sk.ch[1].t = s0.sk.ch[1].t /\ s.sk.ch[1].f = s0.sk.ch[1].f /\ s.sk.ch[1].fs = s0.sk.ch[1].fs
    /\ m.out = "zeros" => [s EXCEPT !.c.lastDur = 0] = [s0 EXCEPT !.c.lastDur = 0]
    \* a decoded frame resets the counters of the layer(s) that coded it
    /\ (m.out = "decoded" /\ LastCoded(a) /\ TocMode(a.r.toc) # MODE_SILK /\ m.sane) => s.ce.ld = 0
    /\ (m.out = "decoded" /\ LastCoded(a) /\ TocMode(a.r.toc) # MODE_CELT) =>
          /\ s.sk.ch[1].l = 0 /\ s.sk.ch[1].ll = 0 /\ s.sk.ch[1].f = 0 /\ s.sk.ch[1].t = -1
          /\ s.sk.nfd = SilkFramesPerFrame(a.r.toc) /\ s.sk.npp = s.sk.nfd
          /\ s.sk.ch[1].fs = RateOf(TocMode(a.r.toc), TocBandwidth(a.r.toc)) /\ s.sk.ci = TocChannels(a.r.toc)
    \* the hook reports the last frame: no redundancy, no transition in MDCT-only / concealed / FEC frames
    /\ m.out = "plc" => s.hk.tr = 0
    /\ (m.out \in {"plc", "fec"}) => s.hk.red = 0

\* theorems about the CELT bookkeeping operators themselves (constant level)
CeltSemantics ==
  /\ CeltNeed(CeltInit) = 1
  /\ \A ld \in 0..LossSat, skip \in {0, 1} :
       LET ce == [ld |-> ld, skip |-> skip, pf |-> 0] g == CeltGood(ce, 0) IN
       /\ g.ld = 0 /\ CeltNeed(g) = Max(0, CeltNeed(ce) - 1)
       /\ \A n \in {1, 2, 4, 8}, st \in {0, 17} :
             LET x == CeltLost(ce, n, st) IN
             /\ x.ld = Min(LossSat, ld + n) /\ x.ld > 0 /\ x.ld >= ld
             /\ CeltNoise(ce, st) => CeltNeed(x) = 2
             /\ ~CeltNoise(ce, st) => (CeltNeed(ce) = 0 /\ CeltNeed(x) = 0 /\ ld < NoiseAt /\ st = 0)
=============================================================================
