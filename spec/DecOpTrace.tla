----------------------------- MODULE DecOpTrace -----------------------------
(***************************************************************************)
(* Validation of recorded decoder executions (harness/decop.c) against the  *)
(* operational model DecOp, step by step.  After EVERY public call the       *)
(* harness records the return value, the whole control state (verification   *)
(* hook opus_verif_decoder_peek fields 0-14), the CELT concealment state      *)
(* (opus_verif_celt_decoder_peek: loss_duration, skip_plc, postfilter_        *)
(* period), whether the soft-clip memory is non-zero, the SILK                *)
(* bookkeeping read from the decoder's memory (lossCnt, first_frame_after_     *)
(* reset, last_frame_lost, prevSignalType, fs_kHz of both channels,            *)
(* nFramesDecoded, nFramesPerPacket, nb_subfr, nChannelsInternal,              *)
(* prev_decode_only_middle, LBRR flags) and what two float twins with gain 0   *)
(* and gain g produced.  TLC runs the machine DecOp!MSucc from the model        *)
(* state to the end of the call (all oracle choices) and looks for a final      *)
(* configuration that equals the observation.                                  *)
(*                                                                         *)
(* Judgement (soundness rule R1):                                            *)
(*   prop C01   the return contract of DecCtl (success iff, exact count,       *)
(*              documented error, 0 < n <= frame_size, finite samples,          *)
(*              canaries, high-water mark, last-packet-duration)                *)
(*   prop C19   the gain multiplied everything delivered exactly once: the      *)
(*              twins' outputs differ by one common factor 10^(g/5120)          *)
(*   drift      everything else (the recorded state is not one the operational  *)
(*              model can reach): SPEC-DRIFT, the model is re-synchronised      *)
(*                                                                         *)
(* Events (one JSON object per line):                                        *)
(*   new  x Fs ch api                                                        *)
(*   dec  x api h n nul fs fec r hw fin can z  + state (see Obs)  + twins      *)
(*   ctl  x op (1 reset, 2 set gain) v r + state                               *)
(*   end  x                                                                  *)
(***************************************************************************)
EXTENDS DecOp, Json, IOUtils, TLC, FiniteSets

CONSTANTS SpreadTol,     \* 2^-30 units (C19's SoftClipTrace: one float rounding gives at most 2^-23 = 128)
          FactorTol      \* 1/25600 dB (50 = half a Q8 step)

VARIABLES cur,      \* cursor
          ms,      \* model state of the decoder under test
          eapi,    \* entry point of this execution
          tseen    \* tags of the sub-steps the accepted runs took (vacuity guard, printed at the end)

vars == <<cur, ms, eapi, tseen>>

Tr == ndJsonDeserialize(IOEnv.TRACE)

Pk(e) == [hdr |-> e.h, len |-> IF e.nul = 1 THEN 0 ELSE e.n, fill |-> 0]

CallOf(e) ==
  LET p == Pk(e) IN
  [kind |-> "dec", api |-> e.api, lost |-> (p.len = 0), neg |-> (p.len < 0),
   r |-> IF p.len > 0 THEN Parse(p, FALSE) ELSE Bad,
   nbs |-> IF p.len > 0 THEN NbSamplesOf(p, ms.c.Fs) ELSE 0,
   fs |-> e.fs, fec |-> e.fec, g |-> 0, redc |-> 3]

OraOf(e) == [lbfix |-> TRUE, lb0 |-> e.lb0, lb1 |-> e.lb1, rz |-> (e.rz = 1)]

\* the machine, with the tags of the sub-steps collected along each run
StepT(m, ora) == {[n EXCEPT !.tg = m.tg \cup TagsOf(m, n)] : n \in MSucc(m, ora)}
\* (TLC's cost of a recursive operator grows faster than linearly with the depth: the steps are taken in blocks of 64)
StepAll(M, ora) == UNION {IF m.pc = "n_ret" THEN {m} ELSE StepT(m, ora) : m \in M}
Step4(M, ora)  == StepAll(StepAll(StepAll(StepAll(M, ora), ora), ora), ora)
Step16(M, ora) == Step4(Step4(Step4(Step4(M, ora), ora), ora), ora)
Step64(M, ora) == Step16(Step16(Step16(Step16(M, ora), ora), ora), ora)
RECURSIVE RunSet(_, _)
RunSet(M, ora) == IF \A m \in M : m.pc = "n_ret" THEN M ELSE RunSet(Step64(M, ora), ora)

\* the observation after a call, in the shape of a DecOp state (what is not observable is taken from x)
\* (wild: a signal type the model does not predict, -1, stands for any of the three types)
ObsCh(e, n, x, wild) == [l |-> e.sl[n], f |-> e.sr[n], ll |-> e.sq[n], fs |-> e.sf[n],
                         t |-> IF wild /\ x.sk.ch[n].t = -1 /\ e.st[n] \in {0, 1, 2} THEN -1 ELSE e.st[n]]
Obs(e, x, wild) ==
  [c  |-> [x.c EXCEPT !.prevMode = e.pm, !.prevRedundancy = (e.pr # 0), !.mode = e.md, !.bw = e.bw, !.frameSize = e.fz,
                      !.streamCh = e.sc, !.lastDur = e.ld, !.gain = e.g],
   ce |-> [ld |-> e.cl, skip |-> e.cs, pf |-> IF wild /\ x.ce.pf = -1 THEN -1 ELSE e.cp],
   cm |-> [i \in 1..2 |-> IF wild /\ x.cm[i] = -1 THEN -1 ELSE e.cm[i]],
   sk |-> [x.sk EXCEPT !.ci = e.sci, !.nfd = e.snf, !.npp = e.snp, !.nsub = e.sns, !.dom = e.sdm,
                       !.ch = <<ObsCh(e, 1, x, wild), ObsCh(e, 2, x, wild)>>],
   hk |-> [red |-> e.hk[1], c2s |-> e.hk[2], rbp |-> B01(e.hk[3] > 0), tr |-> e.hk[4]]]

\* which parts of a candidate final configuration disagree with the observation
Diff(e, m) ==
  LET o == Obs(e, m.s, TRUE) IN
  (IF m.ret # e.r THEN {"ret"} ELSE {}) \cup (IF m.s.c # o.c THEN {"control"} ELSE {}) \cup (IF m.s.hk # o.hk THEN {"hook"} ELSE {})
  \cup (IF m.s.ce # o.ce THEN {"celt"} ELSE {}) \cup (IF m.s.sk # o.sk THEN {"silk"} ELSE {}) \cup (IF m.s.cm # o.cm THEN {"softclip"} ELSE {})

\* the decoder's decision about a redundant frame is one the bit stream can carry (Link!DecFrameAllows: speech only
\* 2 <= bytes <= len - 1, hybrid 2..257 with at least three bytes left), judged on the last frame of the packet
RedAllowed(e, a) ==
  (a.r.ok /\ e.r > 0 /\ e.fec = 0 /\ ~a.lost) =>
    LET len == a.r.sizes[a.r.count] mode == TocMode(a.r.toc) rb == e.hk[3] IN
    IF mode = MODE_CELT \/ len <= 1 \/ e.hk[1] = 0
    THEN e.hk[1] = 0 /\ rb = 0 /\ (e.hk[2] = 0 \/ (mode = MODE_HYBRID /\ e.rz = 1))       \* (sanity path: the direction bit stays as read)
    ELSE IF mode = MODE_HYBRID THEN rb \in 2..257 /\ len - rb >= 3
    ELSE rb >= 2 /\ rb <= len - 1

\* C01: the return contract (DecCtl) and the memory clauses
PropC01(e, a) ==
  LET res == ContractOf(ms.c, a) IN
  /\ e.can = 1
  /\ e.hw <= (IF e.fs > 0 THEN e.fs ELSE 0) * ms.c.ch
  /\ e.r \in res.rets
  /\ e.r \notin DecErrors => (0 < e.r /\ e.r <= e.fs /\ e.fin = 1 /\ e.ld = e.r)

\* C19: one common factor 10^(g/5120) between the gain-0 twin and the gain-g twin (gq = 100 x 20*256*log10 of the
\* geometric mean of the extreme ratios, gs = their spread in 2^-30 units, gneg = a ratio was not positive,
\* gz = samples that are zero in one twin only); the twins' calls return alike
PropC19(e) ==
  /\ e.tr0 = e.trg
  /\ (e.trg > 0) => (e.gz = 0 /\ (e.gn > 0 => (e.gneg = 0 /\ e.gs <= SpreadTol /\ e.gq - 100 * e.g <= FactorTol /\ 100 * e.g - e.gq <= FactorTol)))

Best(e, F) ==
  IF Cardinality(F) = 1 THEN CHOOSE m \in F : TRUE
  ELSE LET D == [m \in F |-> Cardinality(Diff(e, m))] IN CHOOSE m \in F : \A n \in F : D[m] <= D[n]

Rej(cls, names) == PrintT("REJ " \o ToString(<<cur, cls, names>>))

\* (the values that are used more than once are bound by quantifiers: TLC does not cache LET inside an action)
StepDec(e) ==
  \E a \in {CallOf(e)} :
  \E F \in {RunSet({Start(ms, a)}, OraOf(e))} :
  \E b \in {Best(e, F)} :
  \E d \in {Diff(e, b) \cup (IF RedAllowed(e, a) THEN {} ELSE {"redundancyBytes"})} :
  \E pr \in {(IF PropC01(e, a) THEN {} ELSE {"C01.returnContract"}) \cup (IF PropC19(e) THEN {} ELSE {"C19.gainOnce"})} :
     /\ (IF pr = {} THEN TRUE ELSE Rej("prop", pr))
     /\ (IF d = {} THEN TRUE ELSE Rej("drift", d))
     /\ ms' = Obs(e, b.s, FALSE)
     /\ tseen' = IF d = {} THEN tseen \cup b.tg ELSE tseen
     /\ UNCHANGED eapi

StepCtl(e) ==
  \E exp \in {IF e.op = 1 THEN [ret |-> OK, next |-> OpReset(ms)] ELSE OpSetGain(ms, e.v)} :
  \E o \in {Obs(e, exp.next, FALSE)} :
  \E d \in {(IF e.r # exp.ret THEN {"ctlRet"} ELSE {}) \cup (IF o # exp.next THEN {"ctlState"} ELSE {})} :
  /\ (IF d = {} THEN TRUE ELSE Rej("drift", d))
  /\ ms' = o
  /\ tseen' = tseen \cup {IF e.op = 1 THEN "reset" ELSE "setGain"}
  /\ UNCHANGED eapi

Init == cur = 1 /\ ms = OpInit(48000, 1) /\ eapi = 0 /\ tseen = {}

Next ==
  /\ cur <= Len(Tr)
  /\ LET e == Tr[cur] IN
     CASE e.k = "new" -> ms' = OpInit(e.Fs, e.ch) /\ eapi' = e.api /\ UNCHANGED tseen
       [] e.k = "dec" -> StepDec(e)
       [] e.k = "ctl" -> StepCtl(e)
       [] OTHER -> UNCHANGED <<ms, eapi, tseen>>
  /\ cur' = cur + 1

Spec == Init /\ [][Next]_vars

\* printed when the cursor has passed the last event
Done == (cur > Len(Tr)) => PrintT("SEEN " \o ToString(tseen))
=============================================================================
