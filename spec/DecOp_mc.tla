----------------------------- MODULE DecOp_mc -----------------------------
(***************************************************************************)
(* Exhaustive exploration of the operational decoder model DecOp and the    *)
(* REFINEMENT statement  Op \subseteq Contract :  for every call of the      *)
(* DecCtl alphabet (DecCtl_mc!Alphabet: decode of valid and corrupted        *)
(* packets of each mode x duration x channels x framing code, loss, FEC,     *)
(* reset, gain) issued in every reachable state, the operational machine      *)
(* runs sub-step by sub-step to its return and the (return value, successor   *)
(* control state, output class) it produces is one DecCtl allows.  TLC runs   *)
(* to the fixpoint of the state graph, so the statement holds for call        *)
(* sequences of any length.                                                  *)
(*                                                                         *)
(* Every program counter of the machine is a separately named action          *)
(* The sub-cases the description of the code distinguishes (transition        *)
(* concealment in either direction, redundant frame first / last, FEC with    *)
(* and without LBRR data, noise / pitch concealment, ...) are tags; every     *)
(* worker prints a tag or program counter the first time it takes such a      *)
(* sub-step: the vacuity guard (TLC's -coverage is far too slow here).         *)
(*                                                                         *)
(* Three uses, selected by the configuration file:                            *)
(*   refinement   VIEW RefView   (the bookkeeping does not steer the control  *)
(*                state, so it is left out of the fingerprint; big alphabet)   *)
(*   counters     VIEW CeltView / SilkView with small LossSat / NoiseAt /      *)
(*                CntCap: the bookkeeping theorems on the full product         *)
(*   generation   GenMode 1 (transition tour) / 2 (all sequences of MaxSteps   *)
(*                calls): behaviours printed for replay through libopus        *)
(***************************************************************************)
EXTENDS DecOp, TLC, FiniteSets

CONSTANTS FsChoices, ChChoices, Cfgs, Stereos, Shapes, BadShapes, DecKinds, BadFecs, Lost48, LostOdd, FecKinds, Gains,
          MaxSteps, GenMode,        \* as in DecCtl_mc
          Apis,                     \* entry points tried: subset of {API_I16, API_I24, API_F32}
          RedCs                     \* redundancy plans tried for a SILK/hybrid packet: 3 = free (the machine branches), 0/1/2 see DecOp

VARIABLES m,       \* configuration of the machine
          hist,    \* calls so far (generation modes only)
          steps    \* number of calls so far (0 when unbounded)

vars == <<m, hist, steps>>

DC == INSTANCE DecCtl_mc WITH d <- m.s.c, last <- 0, coded <- FALSE, steps <- 0, hist <- <<>>

DefBadFecs  == {-1, 2}
DefLostOdd  == {<<960, 1>>, <<120, -1>>, <<0, 0>>, <<0, -20>>, <<48000, -1>>, <<5760, 1>>}
DefLostOddQ == {<<960, 1>>, <<0, 0>>}
DefGains    == {0, -32768, 32767, 32768, -32769, 256}
DefGainsQ   == {0, 256, 32768}

\* a DecCtl call c (6-tuple) made through entry point api with redundancy plan rc, in control state c0
MkCall(c, api, rc, c0) ==
  LET i == DC!CallInfo(c, c0) IN
  CASE c[1] \in {1, 2, 3} ->
         [kind |-> "dec", api |-> api, lost |-> (c[1] = 2), neg |-> FALSE, r |-> i.r,
          nbs |-> IF c[1] = 2 THEN 0 ELSE NbSamplesOf(i.p, c0.Fs), fs |-> i.fs, fec |-> i.fec, g |-> 0,
          redc |-> IF c[1] = 1 /\ i.r.ok /\ TocMode(i.r.toc) # MODE_CELT THEN rc ELSE 0]
    [] c[1] = 4 -> [kind |-> "reset", api |-> 0, lost |-> FALSE, neg |-> FALSE, r |-> Bad, nbs |-> 0, fs |-> 0, fec |-> 0, g |-> 0, redc |-> 0]
    [] c[1] = 5 -> [kind |-> "gain", api |-> 0, lost |-> FALSE, neg |-> FALSE, r |-> Bad, nbs |-> 0, fs |-> 0, fec |-> 0, g |-> c[2], redc |-> 0]

Init == /\ \E Fs \in FsChoices, ch \in ChChoices : m = Idle(OpInit(Fs, ch))
        /\ hist = <<>> /\ steps = 0 /\ TLCSet(1, {})

StartCall ==
  /\ m.pc = "idle"
  /\ MaxSteps = 0 \/ steps < MaxSteps
  /\ \E c \in DC!Alphabet, api \in Apis, rc \in RedCs :
        LET a == MkCall(c, api, rc, m.s.c) IN
        /\ (a.redc = rc \/ rc = CHOOSE x \in RedCs : TRUE)          \* one representative where the plan does not matter
        /\ m' = Start(m.s, a)
        /\ hist' = IF GenMode = 0 THEN <<>> ELSE Append(hist, <<c[1], c[2], c[3], c[4], c[5], c[6], a.redc>>)
  /\ steps' = IF MaxSteps = 0 THEN 0 ELSE steps + 1

Return == /\ m.pc = "n_ret" /\ m' = Idle(m.s) /\ UNCHANGED <<hist, steps>>

\* each worker prints a tag the first time it takes such a sub-step (register 1 is initialised in Init): the vacuity guard
\* of lib/checks/G05.py demands the tags listed in its cfg-specific list (TLC's -coverage is far too slow on this module)
EmitTags(a, b) ==
  LET old == TLCGet(1) t == TagsOf(a, b) \cup {PcOf(a)} IN
  IF t \subseteq old THEN TRUE ELSE PrintT("TAGS " \o ToString(t \ old)) /\ TLCSet(1, old \cup t)      \* (LET is lazy: print first)

\* one sub-step at program counter p
At(p) == /\ PcOf(m) = p
         /\ m' \in MSucc(m, FreeOra)
         /\ EmitTags(m, m')
         /\ UNCHANGED <<hist, steps>>

\* opus_decode_native and the wrappers
NCtl == At("n_ctl")        NWrap == At("n_wrap")      NArgs == At("n_args")     NParse == At("n_parse")
NFec == At("n_fec")        NFec2 == At("n_fec2")      NFec3 == At("n_fec3")     NRoom == At("n_room")
NLoop == At("n_loop")      NLoopR == At("n_loopr")    NFin == At("n_fin")       NPlc == At("n_plc")
NPlcR == At("n_plcr")      NPlcFin == At("n_plcfin")
\* opus_decode_frame
FEnter == At("f_enter")    FMode == At("f_mode")      FChunk == At("f_chunk")   FTrans == At("f_trans")
FRoom == At("f_room")      FSilk == At("f_silk")      FSilkFrame == At("f_silkfr")   FRed == At("f_red")
FTrSilk == At("f_trsilk")  FCeltPre == At("f_cpre")   FCelt == At("f_celt")     FCeltPost == At("f_cpost")
FFade == At("f_fade")      FGain == At("f_gain")      FUpdate == At("f_upd")    FRet == At("f_ret")
FCallTransCelt == At("f_callT")   FCallTransSilk == At("f_callS")   FCallChunk == At("f_callK")

Next == \/ StartCall \/ Return
        \/ NCtl \/ NWrap \/ NArgs \/ NParse \/ NFec \/ NFec2 \/ NFec3 \/ NRoom \/ NLoop \/ NLoopR \/ NFin \/ NPlc \/ NPlcR \/ NPlcFin
        \/ FEnter \/ FMode \/ FChunk \/ FTrans \/ FRoom \/ FSilk \/ FSilkFrame \/ FRed \/ FTrSilk \/ FCeltPre \/ FCelt \/ FCeltPost
        \/ FFade \/ FGain \/ FUpdate \/ FRet \/ FCallTransCelt \/ FCallTransSilk \/ FCallChunk

Spec == Init /\ [][Next]_vars

-----------------------------------------------------------------------------
(* Theorems. *)
Done == m.pc = "n_ret"

\* THE refinement: Op \subseteq Contract on every finished call
Refines == Done => RefinesAt(m)
\* concealment pieces as DecCtl lists them; FEC = concealment + one LBRR frame
Pieces == Done => PiecesAt(m)
\* the gain multiplied every delivered sample exactly once (violated by the variant GainFix = FALSE: finding F12)
GainOnce == Done => m.gok
\* bookkeeping
Counters == Done => CountersAt(m)
Shape == (m.pc \in {"idle", "n_ret"}) => (OpTypeOK(m.s) /\ CounterShape(m.s))
CeltSem == CeltSemantics
\* the machine never gets stuck inside a call, and the defensive tests of opus_decode_frame never fire through the API
NoStuck == (m.pc \notin {"idle", "n_ret"}) => MSucc(m, FreeOra) # {}
RoomNeverFails == (m.pc = "frame" /\ Active(m).pc = "f_ret") => Active(m).r > 0
FirstImpliesQuiet == \A n \in 1..2 : m.s.sk.ch[n].f = 1 => m.s.sk.ch[n].t = 0
\* structure of the recursion: the inner activation record only conceals, never recurses
InnerShape == m.lvl = 2 => (~m.g.data /\ m.g.len = 0 /\ m.g.pc \notin CallPcs /\ m.g.pc # "f_chunk" /\ m.f.pc \in CallPcs)

\* views.  lastDur is write-only (no guard reads it) and would multiply the states; what Refines needs of it - equal to the
\* return value after a successful call, unchanged by a failing one - is kept as two flags, so the view preserves the property
Norm(c) == [c EXCEPT !.lastDur = 0]
LdFlags == <<m.s.c.lastDur = m.s0.c.lastDur, m.s.c.lastDur = m.ret>>
RefView  == <<[m EXCEPT !.s.ce = CeltInit, !.s.sk = SilkInit, !.s.c = Norm(@), !.s0 = Norm(@.c)], LdFlags, steps>>
CeltView == <<[m EXCEPT !.s.sk = SilkInit, !.s0.sk = SilkInit, !.s.c = Norm(@), !.s0.c = Norm(@)], LdFlags, steps>>
SilkView == <<[m EXCEPT !.s.ce = CeltInit, !.s0.ce = CeltInit, !.s.c = Norm(@), !.s0.c = Norm(@)], LdFlags, steps>>
GenView  == <<[m EXCEPT !.s.ce = CeltInit, !.s.sk = SilkInit, !.s0 = 0, !.s.c = [Norm(@) EXCEPT !.gain = 0], !.s.hk = HookInit],
              IF GenMode = 2 THEN hist ELSE <<>>>>

\* generation of call sequences (printed from an invariant, parsed by lib/checks/G05.py)
EmitSeqs ==
  CASE GenMode = 1 -> (m.pc = "idle") =>
                         \A c \in DC!Alphabet, rc \in RedCs :
                            LET a == MkCall(c, API_F32, rc, m.s.c) IN
                            (a.redc = rc) => PrintT("SEQ " \o ToString(Append(hist, <<c[1], c[2], c[3], c[4], c[5], c[6], a.redc>>)))
    [] GenMode = 2 -> (m.pc = "idle" /\ steps = MaxSteps) => PrintT("SEQ " \o ToString(hist))
    [] OTHER -> TRUE
=============================================================================
