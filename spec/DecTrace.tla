------------------------------ MODULE DecTrace ------------------------------
(***************************************************************************)
(* Validation of recorded decoder executions (harness/dec.c) against        *)
(* DecCtl + Framing.  Stateful: a cursor walks over the events, the model    *)
(* state of every live decoder object is kept in a function keyed by the     *)
(* decoder id.  Several executions are concatenated; a "new" event           *)
(* (re)creates an object.                                                    *)
(*                                                                         *)
(* Two kinds of judgement (soundness rule R1):                               *)
(*  - property obligations of C01 (PropOK, InspOK): when one fails the        *)
(*    event is REJECTED (printed as <<"REJECTED_AT", line>>);                 *)
(*  - model conformance (ConfOK: control state seen through the peek hook     *)
(*    and the getters, state untouched by failing calls, silence before the   *)
(*    first packet, nothing written beyond the returned count): a mismatch    *)
(*    is printed as <<"DRIFT", line, ...>>, the model state is re-synchronised *)
(*    with the observed one and validation continues.                         *)
(*                                                                         *)
(* Events (one JSON object per line):                                        *)
(*  new   id ty(0 single, 1 multistream, 2 projection) Fs ch(output channels)  *)
(*        ns(streams) nc(coupled) dch(channels of the first stream's decoder)  *)
(*  dec   id api h(header bytes; all bytes for ty>0) n(len) nul(data=NULL)     *)
(*        fs(frame_size) fec r(return) ld bw(getters after the call)           *)
(*        hw(high-water mark of modified PCM samples, all channels)            *)
(*        fin(all r*ch samples finite) can(canaries intact) z(all r*ch zero)   *)
(*        md pm pr fz sc (peeked mode, prev_mode, prev_redundancy, frame_size,  *)
(*        stream_channels of the first stream's decoder)                       *)
(*  ctl   id op(1 reset, 2 set gain, 3 getter with NULL) v r g ld bw md pm pr fz sc *)
(*  insp  h n Fs nf ns dns pr lb   packet-inspection functions                 *)
(*  mark  position marker written before inspection calls                     *)
(***************************************************************************)
EXTENDS DecCtl, Json, IOUtils, TLC

VARIABLES l,     \* cursor: next event; -k after event k was rejected
          st,    \* id -> [ty, N, nch, d]   (d: DecCtl state of the first stream's decoder)
          nd     \* number of conformance mismatches so far

vars == <<l, st, nd>>

Tr == ndJsonDeserialize(IOEnv.TRACE)

MaxDriftPrints == 5

Pk(e) == [hdr |-> e.h, len |-> IF e.nul = 1 THEN 0 ELSE e.n, fill |-> 0]

ResOf(e, m) == IF m.ty = 0 THEN DecodeRes(m.d, Pk(e), e.fs, e.fec)
               ELSE MsDecodeRes(m.d, m.N, Pk(e), e.fs, e.fec)

\* the return values the property allows for this call
Allowed(e, m, res) == IF m.ty = 0 THEN res.rets ELSE MsAllowedRets(m.d, m.N, Pk(e), e.fs, e.fec)

(* Property obligations of a decode call (C01):                              *)
(*  canaries intact, nothing modified beyond frame_size x channels;           *)
(*  success exactly when the contract says so, with exactly the contract's    *)
(*  count; a failure returns a documented error (never an internal error);    *)
(*  0 < n <= frame_size; every sample produced is finite; the last-packet-    *)
(*  duration query reports the count.                                         *)
PropOK(e, m, res) ==
  /\ e.can = 1
  /\ e.hw <= (IF e.fs > 0 THEN e.fs ELSE 0) * m.nch
  /\ e.r \in Allowed(e, m, res)
  /\ e.r \notin DecErrors => /\ 0 < e.r /\ e.r <= e.fs
                             /\ e.fin = 1
                             /\ e.ld = e.r

\* the control state as observed after the call
Obs(e, d) == [d EXCEPT !.prevMode = e.pm, !.prevRedundancy = (e.pr # 0), !.mode = e.md, !.bw = e.bw,
                       !.frameSize = e.fz, !.streamCh = e.sc, !.lastDur = e.ld]

ConfOK(e, m, res, obs) ==
  /\ e.r \in res.rets
  /\ obs \in res.nexts
  /\ res.ok => /\ e.hw <= e.r * m.nch
               /\ (res.out = "zeros" /\ m.ty = 0) => e.z = 1     \* (other streams may carry audio)

\* packet-inspection functions against Framing (stateless): helper values exact, opus_packet_parse accepts
\* exactly valid framing, opus_packet_has_lbrr returns a flag or a documented error (an error for an empty
\* byte string, a flag for valid framing)
InspOK(e) ==
  LET p == [hdr |-> e.h, len |-> e.n, fill |-> 0]
      r == Parse(p, FALSE) IN
  /\ e.nf = NbFramesOf(p)
  /\ e.ns = NbSamplesOf(p, e.Fs)
  /\ e.dns = e.ns
  /\ IF r.ok THEN e.pr = r.count ELSE e.pr \in DecErrors
  /\ e.lb \in {0, 1} \cup DecErrors
  /\ r.ok => e.lb \in {0, 1}
  /\ e.n < 1 => e.lb \in DecErrors

\* the value of opus_packet_has_lbrr (conformance with Framing!HasLbrrOf; which error code is free)
LbrrConf(e) ==
  LET x == HasLbrrOf([hdr |-> e.h, len |-> e.n, fill |-> 0]) IN
  IF x < 0 THEN e.lb < 0 ELSE e.lb = x

Drift(what) == nd' = nd + 1 /\ (nd >= MaxDriftPrints \/ PrintT(<<"DRIFT", l, what>>))
NoDrift == nd' = nd

Reject == l' = 0 - l /\ PrintT(<<"REJECTED_AT", l>>) /\ UNCHANGED <<st, nd>>

Step(e) ==
  CASE e.k = "new" ->
         /\ st' = (e.id :> [ty |-> e.ty, N |-> e.ns, nch |-> e.ch, d |-> DecInit(e.Fs, e.dch)]) @@ st
         /\ l' = l + 1 /\ NoDrift
    [] e.k = "dec" ->
         IF e.id \notin DOMAIN st THEN Reject
         ELSE LET m == st[e.id]
                  res == ResOf(e, m)
                  obs == Obs(e, m.d) IN
              IF ~PropOK(e, m, res) THEN Reject
              ELSE /\ st' = [st EXCEPT ![e.id].d = obs]
                   /\ l' = l + 1
                   /\ IF ConfOK(e, m, res, obs) THEN NoDrift ELSE Drift("dec")
    [] e.k = "ctl" ->
         IF e.id \notin DOMAIN st THEN Reject
         ELSE LET m == st[e.id]
                  exp == CASE e.op = 1 -> Reset(m.d)
                           [] e.op = 2 -> SetGain(m.d, e.v)
                           [] OTHER -> [ret |-> GetNull, next |-> m.d]
                  obs == [Obs(e, m.d) EXCEPT !.gain = e.g] IN
              /\ st' = [st EXCEPT ![e.id].d = obs]
              /\ l' = l + 1
              /\ IF e.r = exp.ret /\ obs = exp.next THEN NoDrift ELSE Drift("ctl")
    [] e.k = "insp" ->
         IF ~InspOK(e) THEN Reject
         ELSE /\ l' = l + 1 /\ UNCHANGED st
              /\ IF LbrrConf(e) THEN NoDrift ELSE Drift("lbrr")
    [] e.k = "mark" -> l' = l + 1 /\ UNCHANGED st /\ NoDrift      \* position marker written before inspection calls
    [] OTHER -> Reject          \* "Hang", or anything the harness should not have written

Init == l = 1 /\ st = <<>> /\ nd = 0

Next == \/ /\ l >= 1 /\ l <= Len(Tr)
           /\ Step(Tr[l])
        \/ /\ (l < 1 \/ l > Len(Tr))
           /\ UNCHANGED vars

Spec == Init /\ [][Next]_vars

\* printed once at the end: how far the cursor got and how many conformance mismatches were seen
Done == (l > Len(Tr) \/ l < 1) => PrintT(<<"END", l, nd>>)
=============================================================================
