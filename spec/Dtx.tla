------------------------------- MODULE Dtx -------------------------------
(***************************************************************************)
(* Discontinuous transmission of the Opus encoder (property C20).          *)
(*                                                                         *)
(* Two detectors can be in charge of a stream:                             *)
(*  - the generalised one ("gen"): a counter of consecutive inactive time   *)
(*    in half-milliseconds (Q1 ms), updated once per coded sub-frame;       *)
(*  - the speech layer's ("silk"): a counter of consecutive inactive speech *)
(*    frames (10 or 20 ms each), updated once per speech frame.            *)
(* A packet is a DTX packet (at most two bytes on the wire) iff every       *)
(* sub-frame it carries was decided "DTX".                                  *)
(* All times are in Q1 ms: 5 = 2.5 ms, 40 = 20 ms, 240 = 120 ms.            *)
(***************************************************************************)
EXTENDS Integers, Sequences

BEFORE == 400          \* 200 ms of inactivity before DTX may start
MAXRUN == 800          \* 400 ms of consecutive DTX before a refresh
SILK_BEFORE == 10      \* speech frames before DTX
SILK_MAXRUN == 20      \* consecutive DTX speech frames

Durations == {5, 10, 20, 40, 80, 120, 160, 200, 240}

\* ---- one update of a detector ------------------------------------------
GenStep(ctr, active, q) ==
  IF active THEN [ctr |-> 0, dtx |-> FALSE]
  ELSE LET c == ctr + q IN
       IF c > BEFORE
         THEN IF c <= BEFORE + MAXRUN THEN [ctr |-> c, dtx |-> TRUE]
              ELSE [ctr |-> BEFORE, dtx |-> FALSE]            \* refresh
         ELSE [ctr |-> c, dtx |-> FALSE]

SilkStep(cnt, active) ==
  IF active THEN [ctr |-> 0, dtx |-> FALSE]
  ELSE LET c == cnt + 1 IN
       IF c <= SILK_BEFORE THEN [ctr |-> c, dtx |-> FALSE]
       ELSE IF c > SILK_BEFORE + SILK_MAXRUN THEN [ctr |-> SILK_BEFORE, dtx |-> FALSE]   \* refresh
       ELSE [ctr |-> c, dtx |-> TRUE]

\* ---- how a packet of duration d is cut into detector updates ------------
Rep(x, n) == [i \in 1..n |-> x]
\* generalised detector: one update per coded sub-frame.  The MDCT and hybrid layers code at most
\* 20 ms at a time, the speech layer up to 60 ms; which layer codes a packet is the encoder's choice.
GenSplits(d) ==
  IF d <= 40 THEN {<<d>>}
  ELSE IF d = 80  THEN {<<80>>, Rep(40, 2)}
  ELSE IF d = 120 THEN {<<120>>, Rep(40, 3)}
  ELSE IF d = 160 THEN {Rep(80, 2), Rep(40, 4)}
  ELSE IF d = 200 THEN {Rep(40, 5)}
  ELSE {Rep(120, 2), Rep(40, 6)}
\* speech-layer detector: one update per speech frame (a 10 ms packet is one frame)
SilkFrames(d) == IF d <= 40 THEN 1 ELSE d \div 40

\* ---- a whole packet ------------------------------------------------------
\* acts[i] = TRUE iff the detector calls sub-frame i active
RECURSIVE GenRun(_, _, _, _)
GenRun(ctr, split, acts, i) ==
  IF i > Len(split) THEN [ctr |-> ctr, all |-> TRUE, any |-> FALSE]
  ELSE LET s == GenStep(ctr, acts[i], split[i])
           r == GenRun(s.ctr, split, acts, i + 1)
       IN [ctr |-> r.ctr, all |-> s.dtx /\ r.all, any |-> s.dtx \/ r.any]
GenPacket(ctr, split, acts) == GenRun(ctr, split, acts, 1)

RECURSIVE SilkRun(_, _, _, _)
SilkRun(cnt, n, acts, i) ==
  IF i > n THEN [ctr |-> cnt, all |-> TRUE, any |-> FALSE]
  ELSE LET s == SilkStep(cnt, acts[i])
           r == SilkRun(s.ctr, n, acts, i + 1)
       IN [ctr |-> r.ctr, all |-> s.dtx /\ r.all, any |-> s.dtx \/ r.any]
SilkPacket(cnt, n, acts) == SilkRun(cnt, n, acts, 1)

\* what the in-DTX query reports from the counters
GenInDtx(ctr)  == ctr >= BEFORE
SilkInDtx(cnt) == cnt >= SILK_BEFORE

\* The generalised detector is in charge when the activity analysis runs (float build)
AnalysisRuns(cx, fs) == cx >= 7 /\ fs >= 16000

\* ---- the property's clauses as predicates on packet-level observations --------
\* since: time from the end of the last non-silent packet to the start of this packet
\* (the first DTX packet must start inside (BEFORE - d, BEFORE + d))
StartUpperOK(since, sawDtx, isDtx)    == (~sawDtx /\ since >= BEFORE) => isDtx
StartLowerOK(since, sawDtx, isDtx, d) == (~sawDtx /\ isDtx) => since > BEFORE - d
RunBoundOK(run, d)                    == run < MAXRUN + d
=============================================================================
