----------------------------- MODULE DtxTrace -----------------------------
(* Validation of recorded encoder/decoder executions against module Dtx (property C20).      *)
(* One "new" event starts an execution; one "enc" event per packet carries what the real    *)
(* encoder returned (size, in-DTX query, peeked counters) and what two real decoders made    *)
(* of the packet (given as is / DTX packets treated as losses).                              *)
(* Strict = FALSE: only the clauses of the property.  Strict = TRUE: additionally the peeked *)
(* counters must follow Dtx!GenPacket / Dtx!SilkPacket step by step (model conformance).     *)
EXTENDS Dtx, Json, IOUtils, TLC
CONSTANTS Strict, GapMaxNeg, LoudMinNeg, TolerateBust
GapMax == 0 - GapMaxNeg
LoudMin == 0 - LoudMinNeg
VARIABLES l, cfg, since, sawDtx, refreshed, clean, run, loudRun, afterQuiet, mctr
vars == <<l, cfg, since, sawDtx, refreshed, clean, run, loudRun, afterQuiet, mctr>>

Tr == ndJsonDeserialize(IOEnv.TRACE)
CAP == 4000
Cap(x) == IF x > CAP THEN CAP ELSE x
Mx(a, b) == IF a > b THEN a ELSE b

\* R2: the size clauses are asserted only well inside "bitrate and buffer allow at least three
\* bytes per frame": at least six bytes per 20 ms frame (and per shorter packet), >= 6 kb/s,
\* and a buffer of at least 40 bytes per 20 ms
Budget(c) == /\ c.maxb >= Mx(40, c.dq)
             /\ \/ c.br \in {-1000, -1}
                \/ c.br >= 6000 /\ c.br * c.dq >= 96000

\* The DTX-off clause is asserted on the domain in which the encoder is not forced onto its "too little
\* space: emit TOC-only packets" path.  Packets of up to 20 ms: exactly the property's antecedent, at least
\* three bytes per packet in bitrate and buffer.  Longer packets: the encoder additionally wants 2400 b/s
\* and 300 bytes/s of buffer, computed with a truncated packet rate (a literal "three bytes per 20 ms
\* frame" does not hold on the pinned tree: at 1200..2399 b/s every 40-120 ms packet is TOC-only), so
\* there the antecedent is read with a factor two of margin (R2): >= 4800 b/s, >= 12 bytes per 20 ms.
TinyBudget(c) == /\ c.maxb >= 3
                 /\ \/ c.br \in {-1000, -1}
                    \/ c.br * c.dq >= 48000 /\ (c.dq > 40 => c.br >= 4800)
                 /\ c.dq > 40 => c.maxb * 2000 >= 600 * c.dq

Init == /\ l = 1 /\ cfg = [dq |-> 0] /\ since = 0 /\ sawDtx = FALSE /\ refreshed = FALSE /\ clean = TRUE /\ run = 0
        /\ loudRun = 0 /\ afterQuiet = FALSE /\ mctr = 0

TNew == /\ l <= Len(Tr) /\ Tr[l].k = "new"
        /\ cfg' = Tr[l] /\ since' = 0 /\ sawDtx' = FALSE /\ refreshed' = FALSE /\ clean' = TRUE /\ run' = 0
        /\ loudRun' = 0 /\ afterQuiet' = FALSE /\ mctr' = 0 /\ l' = l + 1

TSkip == /\ l <= Len(Tr) /\ Tr[l].k \in {"end"} /\ l' = l + 1
         /\ UNCHANGED <<cfg, since, sawDtx, refreshed, clean, run, loudRun, afterQuiet, mctr>>

\* OPUS_SET_DTX between two packets.  The start window is stated for silence that begins while DTX is
\* enabled; a change in the middle of a silent stretch (since > 0) suspends both start clauses until the
\* next activity (sawDtx is what both clauses are conditioned on) and the stretch is no longer "clean".
TDtx == /\ l <= Len(Tr) /\ Tr[l].k = "dtx"
        /\ cfg' = [cfg EXCEPT !.dtx = Tr[l].v]
        /\ sawDtx' = (sawDtx \/ since > 0)
        /\ clean' = (clean /\ since = 0)
        /\ run' = IF Tr[l].v = 0 THEN 0 ELSE run
        /\ l' = l + 1
        /\ UNCHANGED <<since, refreshed, loudRun, afterQuiet, mctr>>

AllFalse(n) == [i \in 1..n |-> FALSE]

\* model conformance of the peeked counters (only evaluated when Strict)
Conforms(e, isDtx) ==
  LET D == cfg.dq IN
  IF cfg.dtx = 0 THEN TRUE
  ELSE IF AnalysisRuns(cfg.cx, cfg.fs)
    THEN IF e.cls = 0
           THEN \E sp \in GenSplits(D) : LET r == GenPacket(mctr, sp, AllFalse(Len(sp))) IN r.ctr = e.c /\ r.all = isDtx
           ELSE \E sp \in GenSplits(D) : \E acts \in [1..Len(sp) -> BOOLEAN] :
                   LET r == GenPacket(mctr, sp, acts) IN r.ctr = e.c /\ (r.all = isDtx)
    \* (with in-band FEC on, the speech layer's counter does not advance once per coded frame -
    \*  observed on the pinned tree - so the step-by-step model is bound only with FEC off)
    ELSE IF cfg.ch = 1 /\ e.md # 1002 /\ cfg.fec = 0
      THEN LET n == SilkFrames(D) IN
           \E acts \in [1..n -> BOOLEAN] : LET r == SilkPacket(mctr, n, acts) IN r.ctr = e.sc /\ (r.all = isDtx)
      ELSE TRUE

TEnc ==
  /\ l <= Len(Tr) /\ Tr[l].k = "enc"
  /\ LET e == Tr[l]
         D == cfg.dq
         \* the speech layer overran its byte budget and the encoder sent TOC + one zero byte instead
         \* (the decoder conceals): a tiny packet that is not a DTX packet
         isBust == e.r = 2 /\ e.b1 = 0 /\ e.toc % 4 = 0
         isDtx == e.r \in {1, 2} /\ ~isBust
         run2 == IF isDtx THEN run + D ELSE 0
         sizeClauses == Budget(cfg)
     IN
     \* --- encoder clauses, DTX enabled
     /\ (cfg.dtx = 1 /\ sizeClauses) =>
          /\ isDtx => e.indtx = 1                                   \* in-DTX query true on every DTX packet
          /\ RunBoundOK(run2, D)                                    \* run < 400 ms + one packet
          /\ (AnalysisRuns(cfg.cx, cfg.fs) /\ e.cls = 0) =>         \* digital silence, analysis running
                /\ StartUpperOK(since, sawDtx, isDtx)
                /\ clean => StartLowerOK(since, sawDtx, isDtx, D)
          /\ (e.cls = 1 /\ afterQuiet) => ~isDtx                    \* renewed activity coded at once
          \* ... also when the onset lies inside the packet (silence, then at least a quarter of the
          \* packet loud): asserted where the activity analysis runs
          /\ (AnalysisRuns(cfg.cx, cfg.fs) /\ e.cls = 2 /\ e.lf >= 25 /\ afterQuiet) => ~isDtx
     \* --- DTX disabled: never a packet of two bytes or fewer
     /\ (cfg.dtx = 0 /\ TinyBudget(cfg)) => ((e.r > 2 \/ (TolerateBust /\ isBust)) /\ e.indtx = 0)
     \* --- decoder: requested durations, near-silence in the gap, audio afterwards
     /\ e.r > 0 => (e.d1 = e.fr /\ e.d2 = e.fr)
     \* (until the first refresh packet has told the decoder what the gap sounds like, comfort noise is
     \*  still shaped by the preceding audio - measured up to -23 dBFS with 10 ms speech frames - so no
     \*  level is demanded before it)
     /\ (cfg.dtx = 1 /\ sizeClauses /\ isDtx /\ e.cls = 0 /\ since >= BEFORE /\ refreshed) =>
           (e.l1 <= GapMax /\ e.l2 <= GapMax)
     /\ (sizeClauses /\ e.cls = 1 /\ loudRun >= 400) => (e.l1 >= LoudMin /\ e.l2 >= LoudMin /\ e.l1 < 30000 /\ e.l2 < 30000)
     /\ e.l1 < 30000 /\ e.l2 < 30000                                \* finite output
     \* --- model conformance
     /\ (Strict /\ sizeClauses) => Conforms(e, isDtx)
     \* --- bookkeeping
     /\ since' = IF e.cls = 0 THEN Cap(since + D) ELSE 0
     /\ sawDtx' = IF e.cls = 0 THEN sawDtx \/ isDtx ELSE FALSE
     /\ refreshed' = IF e.cls = 0 THEN refreshed \/ (sawDtx /\ ~isDtx /\ e.r > 2) ELSE FALSE
     /\ clean' = IF e.cls = 0 THEN clean ELSE e.cls = 1
     /\ run' = run2
     /\ loudRun' = IF e.cls = 1 THEN Cap(loudRun + D) ELSE 0
     /\ afterQuiet' = (e.cls # 1)
     /\ mctr' = IF AnalysisRuns(cfg.cx, cfg.fs) THEN e.c ELSE e.sc
  /\ l' = l + 1 /\ UNCHANGED cfg

Next == TNew \/ TSkip \/ TEnc \/ TDtx
Spec == Init /\ [][Next]_vars

Accepted ==
  LET n == TLCGet("stats").diameter IN
  IF n - 1 = Len(Tr) THEN TRUE
  ELSE PrintT(<<"REJECTED_AT", n, ToString(Tr[n])>>) /\ FALSE
=============================================================================
