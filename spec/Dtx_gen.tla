------------------------------ MODULE Dtx_gen ------------------------------
(* Behaviour generation for the conformance run: every activity schedule made of a warm-up   *)
(* burst followed by up to MaxSeg segments (loud / digital silence / faint noise) whose       *)
(* lengths come from the boundary grid Lens (milliseconds; 0 stands for "one packet").       *)
(* Each maximal schedule is printed once; the runner replays it through the real encoder.    *)
EXTENDS Integers, Sequences, TLC
CONSTANTS MaxSeg, Lens, Warm
VARIABLE sched

Kinds == {"a", "s", "n"}
Init == \E w \in Warm : sched = << <<"a", w>> >>
Next == /\ Len(sched) < MaxSeg + 1
        /\ \E k \in Kinds \ {sched[Len(sched)][1]}, n \in Lens : sched' = Append(sched, <<k, n>>)
Spec == Init /\ [][Next]_sched
Emit == (Len(sched) = MaxSeg + 1) => PrintT(<<"SCHED", ToString(sched)>>)
=============================================================================
