------------------------------ MODULE Dtx_gen2 ------------------------------
(* Behaviour generation, second family: activity schedules in which the application also    *)
(* switches DTX off and on again (OPUS_SET_DTX) between packets.  A schedule is a warm-up   *)
(* burst followed by up to MaxSeg items; an item is a stretch of loud audio or of digital   *)
(* silence with a length from Lens (ms), or a toggle "D" (zero length, at most MaxTog of     *)
(* them, never two in a row, never last).  After a toggle the same kind of audio may go on   *)
(* (a change in the middle of a stretch) or the other kind may start (a change that          *)
(* coincides with the start of a silence or of a burst - the case in which the start window  *)
(* of the property is asserted).  Each maximal schedule is printed once.                     *)
EXTENDS Integers, Sequences, FiniteSets, TLC
CONSTANTS MaxSeg, MaxTog, Lens, Warm
VARIABLE sched

Kinds == {"a", "s"}
NTog(s) == Cardinality({i \in 1..Len(s) : s[i][1] = "D"})
LastAudio(s) == LET I == {i \in 1..Len(s) : s[i][1] # "D"} IN s[CHOOSE i \in I : \A j \in I : j <= i][1]
Init == \E w \in Warm : sched = << <<"a", w>> >>
Next == /\ Len(sched) < MaxSeg + 1
        /\ \/ \E k \in Kinds, n \in Lens :
                /\ (sched[Len(sched)][1] # "D") => k # sched[Len(sched)][1]
                /\ sched' = Append(sched, <<k, n>>)
           \/ /\ sched[Len(sched)][1] # "D" /\ NTog(sched) < MaxTog /\ Len(sched) < MaxSeg
              /\ sched' = Append(sched, <<"D", 0>>)
Spec == Init /\ [][Next]_sched
Emit == (Len(sched) = MaxSeg + 1 /\ NTog(sched) >= 1) => PrintT(<<"SCHED", ToString(sched)>>)
=============================================================================
