------------------------------ MODULE Dtx_mc ------------------------------
(* Exhaustive check of the DTX design: every packet duration, both detectors, every way the   *)
(* encoder may cut a packet into sub-frames, every activity schedule (the state is bounded, so *)
(* the breadth-first search closes: schedules of any length are covered).                      *)
EXTENDS Dtx, TLC
VARIABLES d, det, ctr, since, sawDtx, clean, run, kind, lastSilent, okU, okL, okR, okF, okA
vars == <<d, det, ctr, since, sawDtx, clean, run, kind, lastSilent, okU, okL, okR, okF, okA>>

CAP == 2000

Init == /\ d \in Durations /\ det \in {"gen", "silk"}
        /\ ctr = 0 /\ since = 0 /\ sawDtx = FALSE /\ clean = TRUE /\ run = 0
        /\ kind = "none" /\ lastSilent = FALSE
        /\ okU = TRUE /\ okL = TRUE /\ okR = TRUE /\ okF = TRUE /\ okA = TRUE

Packet(split, acts, noisy) ==
  LET n == Len(split)
      r == IF det = "gen" THEN GenPacket(ctr, split, acts) ELSE SilkPacket(ctr, n, acts)
      silent == (\A i \in 1..n : ~acts[i]) /\ ~noisy
      allActive == \A i \in 1..n : acts[i]
      isDtx == r.all
  IN /\ ctr' = r.ctr
     /\ since' = IF silent THEN (IF since + d > CAP THEN CAP ELSE since + d) ELSE 0
     /\ sawDtx' = IF silent THEN sawDtx \/ isDtx ELSE FALSE
     /\ clean' = IF silent THEN clean ELSE allActive
     /\ run' = IF isDtx THEN run + d ELSE 0
     /\ kind' = IF isDtx THEN "dtx" ELSE "regular"
     /\ lastSilent' = silent
     \* start clause: generalised detector, digital silence
     /\ okU' = ((det = "gen" /\ silent) => StartUpperOK(since, sawDtx, isDtx))
     /\ okL' = ((det = "gen" /\ silent /\ clean) => StartLowerOK(since, sawDtx, isDtx, d))
     /\ okR' = RunBoundOK(run', d)
     \* the in-DTX query is true on every DTX packet
     /\ okF' = (isDtx => IF det = "gen" THEN GenInDtx(ctr') ELSE SilkInDtx(ctr'))
     \* renewed activity is coded at once
     /\ okA' = (allActive => ~isDtx)

Next == /\ UNCHANGED <<d, det>>
        /\ IF det = "gen"
             THEN \E split \in GenSplits(d) : \E acts \in [1..Len(split) -> BOOLEAN], noisy \in BOOLEAN :
                     Packet(split, acts, noisy)
             ELSE \E acts \in [1..SilkFrames(d) -> BOOLEAN], noisy \in BOOLEAN :
                     Packet(Rep(0, SilkFrames(d)), acts, noisy)

Spec     == Init /\ [][Next]_vars
FairSpec == Spec /\ WF_vars(Next)

StartsOnTime  == okU /\ okL
RunBound      == okR
InDtxOnDtx    == okF
ResumeAtOnce  == okA
CounterBound  == IF det = "gen" THEN ctr \in 0..(BEFORE + MAXRUN) ELSE ctr \in 0..(SILK_BEFORE + SILK_MAXRUN)
\* under endless digital silence a regular (refresh) packet is sent again and again
RefreshForever == (<>[]lastSilent) => ([]<>(kind = "regular"))
\* ... and DTX packets too (the encoder does not fall back to continuous transmission)
DtxForever     == (<>[]lastSilent) => ([]<>(kind = "dtx"))
=============================================================================
