------------------------------ MODULE Dtx_mc ------------------------------
(* Exhaustive check of the DTX design: every packet duration, both detectors, every way the   *)
(* encoder may cut a packet into sub-frames, every activity schedule (the state is bounded, so *)
(* the breadth-first search closes: schedules of any length are covered).  The application may *)
(* also switch DTX off and on again between any two packets (OPUS_SET_DTX): with DTX off the    *)
(* generalised detector's counter is cleared on every coded sub-frame and no packet is a DTX    *)
(* packet, while the speech layer's counter keeps running (its DTX flag is masked by the        *)
(* setting at the start of every call) - src/opus_encoder.c "else nb_no_activity_ms_Q1 = 0",    *)
(* silk/enc_API.c "inDTX = useDTX".                                                              *)
EXTENDS Dtx, TLC
CONSTANT MaxTog     \* how many times the application may change the DTX setting in one behaviour
VARIABLES d, det, ctr, since, sawDtx, clean, run, kind, lastSilent, okU, okL, okR, okF, okA,
          on,      \* the DTX setting
          tog,     \* the setting was changed in the middle of the current silent stretch
          ntog     \* changes so far
vars == <<d, det, ctr, since, sawDtx, clean, run, kind, lastSilent, okU, okL, okR, okF, okA, on, tog, ntog>>

CAP == 2000

Init == /\ d \in Durations /\ det \in {"gen", "silk"}
        /\ ctr = 0 /\ since = 0 /\ sawDtx = FALSE /\ clean = TRUE /\ run = 0
        /\ kind = "none" /\ lastSilent = FALSE
        /\ okU = TRUE /\ okL = TRUE /\ okR = TRUE /\ okF = TRUE /\ okA = TRUE
        /\ on \in (IF MaxTog = 0 THEN {TRUE} ELSE BOOLEAN) /\ tog = FALSE /\ ntog = 0

Packet(split, acts, noisy) ==
  LET n == Len(split)
      r == IF det = "gen" THEN (IF on THEN GenPacket(ctr, split, acts) ELSE [ctr |-> 0, all |-> FALSE, any |-> FALSE])
                           ELSE SilkPacket(ctr, n, acts)
      silent == (\A i \in 1..n : ~acts[i]) /\ ~noisy
      allActive == \A i \in 1..n : acts[i]
      isDtx == on /\ r.all
  IN /\ ctr' = r.ctr
     /\ UNCHANGED <<on, ntog>> /\ tog' = (silent /\ tog)
     /\ since' = IF silent THEN (IF since + d > CAP THEN CAP ELSE since + d) ELSE 0
     /\ sawDtx' = IF silent THEN sawDtx \/ isDtx ELSE FALSE
     /\ clean' = IF silent THEN clean ELSE allActive
     /\ run' = IF isDtx THEN run + d ELSE 0
     /\ kind' = IF isDtx THEN "dtx" ELSE "regular"
     /\ lastSilent' = silent
     \* start clause: generalised detector, digital silence
     \* (stated for silence that begins, and stays, under DTX enabled: not after a change of the setting inside it)
     /\ okU' = ((det = "gen" /\ on /\ ~tog /\ silent) => StartUpperOK(since, sawDtx, isDtx))
     /\ okL' = ((det = "gen" /\ on /\ ~tog /\ silent /\ clean) => StartLowerOK(since, sawDtx, isDtx, d))
     /\ okR' = RunBoundOK(run', d)
     \* the in-DTX query is true on every DTX packet
     /\ okF' = (isDtx => IF det = "gen" THEN GenInDtx(ctr') ELSE SilkInDtx(ctr'))
     \* renewed activity is coded at once
     /\ okA' = (allActive => ~isDtx)

Toggle == /\ ntog < MaxTog /\ ntog' = ntog + 1
          /\ on' = ~on /\ tog' = (tog \/ since > 0)
          /\ run' = IF on THEN 0 ELSE run          \* switched off: whatever follows is not a DTX packet
          /\ UNCHANGED <<d, det, ctr, since, sawDtx, clean, kind, lastSilent, okU, okL, okR, okF, okA>>

Pkt ==  /\ UNCHANGED <<d, det>>
        /\ IF det = "gen"
             THEN \E split \in GenSplits(d) : \E acts \in [1..Len(split) -> BOOLEAN], noisy \in BOOLEAN :
                     Packet(split, acts, noisy)
             ELSE \E acts \in [1..SilkFrames(d) -> BOOLEAN], noisy \in BOOLEAN :
                     Packet(Rep(0, SilkFrames(d)), acts, noisy)

Next == Pkt \/ Toggle
Spec     == Init /\ [][Next]_vars
FairSpec == Spec /\ WF_vars(Pkt)

StartsOnTime  == okU /\ okL
RunBound      == okR
InDtxOnDtx    == okF
ResumeAtOnce  == okA
CounterBound  == IF det = "gen" THEN ctr \in 0..(BEFORE + MAXRUN) ELSE ctr \in 0..(SILK_BEFORE + SILK_MAXRUN)
\* under endless digital silence a regular (refresh) packet is sent again and again
RefreshForever == (<>[]lastSilent) => ([]<>(kind = "regular"))
\* ... and DTX packets too (the encoder does not fall back to continuous transmission)
DtxForever     == ((<>[]lastSilent) /\ (<>[]on)) => ([]<>(kind = "dtx"))
=============================================================================
