------------------------------- MODULE EncCtl -------------------------------
(***************************************************************************)
(* The settings objects of the Opus API: what a control request may do to  *)
(* the user-visible configuration of an encoder / decoder / multistream /   *)
(* projection object, and what that configuration promises about the TOC    *)
(* byte of every later packet (property C11; reused by C02 C05 C20).        *)
(*                                                                         *)
(* Sources: include/opus_defines.h (documented domain of every request),    *)
(* include/opus.h, RFC 6716 table 2 (through OpusConst).  The encoder's own *)
(* decisions (mode, bandwidth, channels, rate) are NOT modelled: `Encode'   *)
(* is an envelope that only states what the property promises (R1).         *)
(*                                                                         *)
(*   S   settings record  - what the setters write and the getters report   *)
(*   G   ghost record     - signal state the obligations have to refer to   *)
(*                          (first frame not yet coded, last frame size,    *)
(*                          age of the forced channel count, ...)           *)
(***************************************************************************)
EXTENDS Framing, FiniteSets

-----------------------------------------------------------------------------
(* Request numbers (include/opus_defines.h, src/opus_private.h).            *)
SET_APPLICATION == 4000            GET_APPLICATION == 4001
SET_BITRATE == 4002                GET_BITRATE == 4003
SET_MAX_BANDWIDTH == 4004          GET_MAX_BANDWIDTH == 4005
SET_VBR == 4006                    GET_VBR == 4007
SET_BANDWIDTH == 4008              GET_BANDWIDTH == 4009
SET_COMPLEXITY == 4010             GET_COMPLEXITY == 4011
SET_INBAND_FEC == 4012             GET_INBAND_FEC == 4013
SET_PACKET_LOSS_PERC == 4014       GET_PACKET_LOSS_PERC == 4015
SET_DTX == 4016                    GET_DTX == 4017
SET_VBR_CONSTRAINT == 4020         GET_VBR_CONSTRAINT == 4021
SET_FORCE_CHANNELS == 4022         GET_FORCE_CHANNELS == 4023
SET_SIGNAL == 4024                 GET_SIGNAL == 4025
GET_LOOKAHEAD == 4027
RESET_STATE == 4028
GET_SAMPLE_RATE == 4029
GET_FINAL_RANGE == 4031
GET_PITCH == 4033
SET_GAIN == 4034                   GET_GAIN == 4045
SET_LSB_DEPTH == 4036              GET_LSB_DEPTH == 4037
GET_LAST_PACKET_DURATION == 4039
SET_EXPERT_FRAME_DURATION == 4040  GET_EXPERT_FRAME_DURATION == 4041
SET_PREDICTION_DISABLED == 4042    GET_PREDICTION_DISABLED == 4043
SET_PHASE_INVERSION_DISABLED == 4046  GET_PHASE_INVERSION_DISABLED == 4047
GET_IN_DTX == 4049
SET_FORCE_MODE == 11002            \* private (src/opus_private.h), reachable through opus_encoder_ctl
SET_VOICE_RATIO == 11018           GET_VOICE_RATIO == 11019      \* private
MS_GET_ENCODER_STATE == 5120       MS_GET_DECODER_STATE == 5122
PROJ_GET_DEMIXING_MATRIX_GAIN == 6001
PROJ_GET_DEMIXING_MATRIX_SIZE == 6003
PROJ_GET_DEMIXING_MATRIX == 6005

SIGNAL_VOICE == 3001
SIGNAL_MUSIC == 3002
FRAMESIZE_ARG == 5000              \* 5001 = 2.5 ms ... 5009 = 120 ms

Apps      == {APP_VOIP, APP_AUDIO, APP_LOWDELAY}
BwSet     == BW_NB..BW_FB
ModeSet   == MODE_SILK..MODE_CELT
DurSet    == 5000..5009
SignalSet == {OPUS_AUTO, SIGNAL_VOICE, SIGNAL_MUSIC}

-----------------------------------------------------------------------------
(* Encoder: creation.                                                      *)
EncCreateOK(Fs, ch, app) == Fs \in FsSet /\ ch \in {1, 2} /\ app \in Apps

\* documented defaults (opus_defines.h says "(default)" next to them); complexity and the
\* private fields are the implementation's.  Defaults are bound as SPEC-DRIFT only (R1).
InitS(Fs, ch, app) ==
  [application |-> app, Fs |-> Fs, channels |-> ch, bitrate |-> OPUS_AUTO, vbr |-> 1, cvbr |-> 1,
   complexity |-> 9, forceChannels |-> OPUS_AUTO, userBandwidth |-> OPUS_AUTO, maxBandwidth |-> BW_FB,
   signal |-> OPUS_AUTO, fec |-> 0, lossPerc |-> 0, dtx |-> 0, lsbDepth |-> 24,
   frameDuration |-> FRAMESIZE_ARG, predictionDisabled |-> 0, phaseInvDisabled |-> 0,
   forcedMode |-> OPUS_AUTO]

(* Ghost state.                                                             *)
(*  first       no frame has been coded since creation / reset              *)
(*  pfs         size (samples) of the last coded frame, 0 = none            *)
(*  started     an encode call has been made since creation / reset         *)
(*  bwStable    forced and maximum bandwidth unchanged since `started'      *)
(*  fcFromStart forced channel count unchanged since `started'              *)
(*  fcAge       audio-coding packets since the last change of the forced    *)
(*              channel count, saturating at 2                              *)
(*  voiceRatio  private hint; overwritten by the encoder's own analysis     *)
InitG == [first |-> TRUE, pfs |-> 0, started |-> FALSE, bwStable |-> TRUE,
          fcFromStart |-> TRUE, fcAge |-> 2, voiceRatio |-> -1]

BitrateDomain(ch) == {OPUS_AUTO, OPUS_BITRATE_MAX} \cup 500..(300000 * ch)

DomainsHold(S) ==
  /\ S.application \in Apps /\ S.Fs \in FsSet /\ S.channels \in {1, 2}
  /\ S.bitrate \in BitrateDomain(S.channels)
  /\ S.vbr \in {0, 1} /\ S.cvbr \in {0, 1} /\ S.complexity \in 0..10
  /\ S.forceChannels \in {OPUS_AUTO} \cup 1..S.channels
  /\ S.userBandwidth \in {OPUS_AUTO} \cup BwSet /\ S.maxBandwidth \in BwSet
  /\ S.signal \in SignalSet /\ S.fec \in 0..2 /\ S.lossPerc \in 0..100 /\ S.dtx \in {0, 1}
  /\ S.lsbDepth \in 8..24 /\ S.frameDuration \in DurSet
  /\ S.predictionDisabled \in {0, 1} /\ S.phaseInvDisabled \in {0, 1}
  /\ S.forcedMode \in {OPUS_AUTO} \cup ModeSet

-----------------------------------------------------------------------------
(* Encoder: the table of setters.                                          *)
EncSetReqs == {SET_APPLICATION, SET_BITRATE, SET_MAX_BANDWIDTH, SET_VBR, SET_BANDWIDTH, SET_COMPLEXITY,
               SET_INBAND_FEC, SET_PACKET_LOSS_PERC, SET_DTX, SET_VBR_CONSTRAINT, SET_FORCE_CHANNELS,
               SET_SIGNAL, SET_LSB_DEPTH, SET_EXPERT_FRAME_DURATION, SET_PREDICTION_DISABLED,
               SET_PHASE_INVERSION_DISABLED, SET_FORCE_MODE, SET_VOICE_RATIO}
EncGetReqs == {GET_APPLICATION, GET_BITRATE, GET_MAX_BANDWIDTH, GET_VBR, GET_BANDWIDTH, GET_COMPLEXITY,
               GET_INBAND_FEC, GET_PACKET_LOSS_PERC, GET_DTX, GET_VBR_CONSTRAINT, GET_FORCE_CHANNELS,
               GET_SIGNAL, GET_LOOKAHEAD, GET_SAMPLE_RATE, GET_FINAL_RANGE, GET_LSB_DEPTH,
               GET_EXPERT_FRAME_DURATION, GET_PREDICTION_DISABLED, GET_PHASE_INVERSION_DISABLED,
               GET_IN_DTX, GET_VOICE_RATIO}
\* request numbers no header defines for an encoder (DRED 4050..4052 and the CELT-private range
\* 10000..10030 depend on the build and are left out)
EncUnknownReqs == {-1, 0, 1, 3999, 4018, 4019, 4026, 4030, 4032, GET_PITCH, SET_GAIN, 4035, 4038,
                   GET_LAST_PACKET_DURATION, 4044, GET_GAIN, 4048, 4053, 4999, MS_GET_ENCODER_STATE,
                   MS_GET_DECODER_STATE, 6001, 12345, 2147483647}

\* documented domain of each setter
EncLegal(S, req, v) ==
  CASE req = SET_APPLICATION              -> v \in Apps
    [] req = SET_BITRATE                  -> v = OPUS_AUTO \/ v = OPUS_BITRATE_MAX \/ v > 0
    [] req = SET_MAX_BANDWIDTH            -> v \in BwSet
    [] req = SET_VBR                      -> v \in {0, 1}
    [] req = SET_BANDWIDTH                -> v = OPUS_AUTO \/ v \in BwSet
    [] req = SET_COMPLEXITY               -> v \in 0..10
    [] req = SET_INBAND_FEC               -> v \in 0..2
    [] req = SET_PACKET_LOSS_PERC         -> v \in 0..100
    [] req = SET_DTX                      -> v \in {0, 1}
    [] req = SET_VBR_CONSTRAINT           -> v \in {0, 1}
    [] req = SET_FORCE_CHANNELS           -> v = OPUS_AUTO \/ v \in 1..S.channels
    [] req = SET_SIGNAL                   -> v \in SignalSet
    [] req = SET_LSB_DEPTH                -> v \in 8..24
    [] req = SET_EXPERT_FRAME_DURATION    -> v \in DurSet
    [] req = SET_PREDICTION_DISABLED      -> v \in {0, 1}
    [] req = SET_PHASE_INVERSION_DISABLED -> v \in {0, 1}
    [] req = SET_FORCE_MODE               -> v = OPUS_AUTO \/ v \in ModeSet
    [] req = SET_VOICE_RATIO              -> v \in -1..100
    [] OTHER                              -> FALSE

\* the documented clamping of a legal bitrate
ClampBitrate(v, ch) ==
  IF v = OPUS_AUTO \/ v = OPUS_BITRATE_MAX THEN v
  ELSE IF v <= 500 THEN 500 ELSE IF v > 300000 * ch THEN 300000 * ch ELSE v

\* a legal value is stored in exactly one field
EncStore(S, req, v) ==
  CASE req = SET_APPLICATION              -> [S EXCEPT !.application = v]
    [] req = SET_BITRATE                  -> [S EXCEPT !.bitrate = ClampBitrate(v, S.channels)]
    [] req = SET_MAX_BANDWIDTH            -> [S EXCEPT !.maxBandwidth = v]
    [] req = SET_VBR                      -> [S EXCEPT !.vbr = v]
    [] req = SET_BANDWIDTH                -> [S EXCEPT !.userBandwidth = v]
    [] req = SET_COMPLEXITY               -> [S EXCEPT !.complexity = v]
    [] req = SET_INBAND_FEC               -> [S EXCEPT !.fec = v]
    [] req = SET_PACKET_LOSS_PERC         -> [S EXCEPT !.lossPerc = v]
    [] req = SET_DTX                      -> [S EXCEPT !.dtx = v]
    [] req = SET_VBR_CONSTRAINT           -> [S EXCEPT !.cvbr = v]
    [] req = SET_FORCE_CHANNELS           -> [S EXCEPT !.forceChannels = v]
    [] req = SET_SIGNAL                   -> [S EXCEPT !.signal = v]
    [] req = SET_LSB_DEPTH                -> [S EXCEPT !.lsbDepth = v]
    [] req = SET_EXPERT_FRAME_DURATION    -> [S EXCEPT !.frameDuration = v]
    [] req = SET_PREDICTION_DISABLED      -> [S EXCEPT !.predictionDisabled = v]
    [] req = SET_PHASE_INVERSION_DISABLED -> [S EXCEPT !.phaseInvDisabled = v]
    [] req = SET_FORCE_MODE               -> [S EXCEPT !.forcedMode = v]
    [] OTHER                              -> S           \* SET_VOICE_RATIO lives in the ghost

\* what a successful setter does to the ghost: a bandwidth / channel request issued after the
\* first encode call is a "mid-stream" change
EncGhostAfterSet(G, req, v) ==
  CASE req \in {SET_BANDWIDTH, SET_MAX_BANDWIDTH} /\ G.started -> [G EXCEPT !.bwStable = FALSE]
    [] req = SET_FORCE_CHANNELS /\ G.started -> [G EXCEPT !.fcFromStart = FALSE, !.fcAge = 0]
    [] req = SET_VOICE_RATIO -> [G EXCEPT !.voiceRatio = v]
    [] OTHER -> G

Out(ret, S, G) == [ret |-> ret, S |-> S, G |-> G]

(* Set(req, v): the set of permitted outcomes.  Exactly one, except for a   *)
(* change of application after the first coded frame, whose legality no      *)
(* document fixes (the implementation refuses it): both outcomes the         *)
(* property allows are accepted - refused and untouched, or applied.         *)
EncSet(S, G, req, v) ==
  IF req \notin EncSetReqs THEN {Out(UNIMPLEMENTED, S, G)}
  ELSE IF ~EncLegal(S, req, v) THEN {Out(BAD_ARG, S, G)}
  ELSE IF req = SET_APPLICATION /\ v # S.application /\ ~G.first
       THEN {Out(BAD_ARG, S, G), Out(OK, EncStore(S, req, v), G)}
  ELSE {Out(OK, EncStore(S, req, v), EncGhostAfterSet(G, req, v))}

\* a getter called with a null pointer; an unknown request; both leave everything alone
EncGetNull(S, G, req) == IF req \in EncGetReqs THEN Out(BAD_ARG, S, G) ELSE Out(UNIMPLEMENTED, S, G)
EncUnknown(S, G, req) == Out(UNIMPLEMENTED, S, G)

\* OPUS_RESET_STATE keeps the configuration and forgets the stream
EncReset(S, G) == Out(OK, S, [InitG EXCEPT !.voiceRatio = G.voiceRatio])

(* OPUS_GET_BITRATE: the stored value, or AUTO / MAX resolved for the size   *)
(* of the last coded frame (2.5 ms before the first one).  60*Fs <= 2.88e6   *)
(* and 10208*Fs <= 4.9e8 stay below 2^31 (R6).                               *)
ResolveBitrate(S, pfs) ==
  LET f == IF pfs = 0 THEN S.Fs \div 400 ELSE pfs IN
  IF S.bitrate = OPUS_AUTO THEN (60 * S.Fs) \div f + S.Fs * S.channels
  ELSE IF S.bitrate = OPUS_BITRATE_MAX THEN (10208 * S.Fs) \div f
  ELSE S.bitrate

\* what the read-back getters report
EncGetters(S, G) ==
  [app |-> S.application, sr |-> S.Fs, br |-> ResolveBitrate(S, G.pfs), vbr |-> S.vbr, cvbr |-> S.cvbr,
   cx |-> S.complexity, fc |-> S.forceChannels, maxbw |-> S.maxBandwidth, sig |-> S.signal,
   fec |-> S.fec, loss |-> S.lossPerc, dtx |-> S.dtx, lsb |-> S.lsbDepth, dur |-> S.frameDuration,
   pred |-> S.predictionDisabled, pinv |-> S.phaseInvDisabled, fm |-> S.forcedMode]

-----------------------------------------------------------------------------
(* Encoder: the envelope of an encode call.                                *)

\* frame sizes the API takes at rate Fs: 2.5, 5, 10, 20, 40, 60, 80, 100, 120 ms
FrameSizes(Fs) == {Fs \div 400, Fs \div 200, Fs \div 100, Fs \div 50, Fs \div 25,
                   (3 * Fs) \div 50, (4 * Fs) \div 50, (5 * Fs) \div 50, (6 * Fs) \div 50}

DurSamples(dur, Fs) ==       \* OPUS_FRAMESIZE_x in samples
  IF dur <= 5005 THEN (Fs \div 400) * (2 ^ (dur - 5001)) ELSE ((dur - 5003) * Fs) \div 50

\* the number of samples an encode call consumes, -1 = refused
FrameSizeSelect(fs, dur, Fs) ==
  IF fs < Fs \div 400 THEN -1
  ELSE LET n == IF dur = FRAMESIZE_ARG THEN fs ELSE DurSamples(dur, Fs) IN
       IF n > fs \/ n \notin FrameSizes(Fs) THEN -1 ELSE n

(* frame_size_select() of src/opus_encoder.c, transcribed statement by statement (x << k as x * 2^k;    *)
(* every product stays below 2^31 for buffers up to 2^22 samples, R6).  EncCtlFsel_mc checks on the whole *)
(* grid (Fs, duration setting, buffer length) that it is FrameSizeSelect, i.e. the declarative reading    *)
(* SelectedFrameSize of opus_defines.h: "the selected frame size is the requested duration when one is    *)
(* set and the buffer holds that much, and the buffer length itself under OPUS_FRAMESIZE_ARG".            *)
FrameSizeSelectC(fs, dur, Fs) ==
  IF fs < Fs \div 400 THEN -1
  ELSE IF dur # FRAMESIZE_ARG /\ ~(dur >= 5001 /\ dur <= 5009) THEN -1
  ELSE LET new == IF dur = FRAMESIZE_ARG THEN fs
                  ELSE IF dur <= 5005 THEN (Fs \div 400) * (2 ^ (dur - 5001))
                  ELSE ((dur - 5001 - 2) * Fs) \div 50 IN
       IF new > fs THEN -1
       ELSE IF /\ 400 * new # Fs /\ 200 * new # Fs /\ 100 * new # Fs
               /\ 50 * new # Fs /\ 25 * new # Fs /\ 50 * new # 3 * Fs
               /\ 50 * new # 4 * Fs /\ 50 * new # 5 * Fs /\ 50 * new # 6 * Fs
            THEN -1 ELSE new

\* OPUS_FRAMESIZE_2_5_MS .. OPUS_FRAMESIZE_120_MS in units of 2.5 ms (opus_defines.h)
DurQ == <<1, 2, 4, 8, 16, 24, 32, 40, 48>>
SelectedFrameSize(buf, dur, Fs) ==
  LET want == IF dur = FRAMESIZE_ARG THEN buf ELSE (DurQ[dur - 5000] * Fs) \div 400 IN
  IF want <= buf /\ want \in FrameSizes(Fs) THEN want ELSE -1

\* r is an accepted Framing!Parse result; the obligations only look at these attributes of it
CodesAudio(r)        == \E i \in 1..r.count : r.sizes[i] >= 2
PacketSamples(r, Fs) == r.count * SamplesPerFrame(r.toc, Fs)
PktAttr(r, Fs) == [audio |-> CodesAudio(r), mode |-> TocMode(r.toc), bw |-> TocBandwidth(r.toc),
                   ch |-> TocChannels(r.toc), fsz |-> SamplesPerFrame(r.toc, Fs),
                   samples |-> PacketSamples(r, Fs)]

NyquistBw(Fs) == IF Fs <= 8000 THEN BW_NB ELSE IF Fs <= 12000 THEN BW_MB ELSE IF Fs <= 16000 THEN BW_WB
                 ELSE IF Fs <= 24000 THEN BW_SWB ELSE BW_FB
\* the MDCT layer has no medium band: a medium-band limit is coded as wideband
BwCap(mode, b) == IF mode = MODE_CELT /\ b = BW_MB THEN BW_WB ELSE b
\* a forced bandwidth replaces the maximum ("the maximum bandpass that the encoder will select
\* automatically", opus_defines.h)
BwLimit(S) == IF S.userBandwidth # OPUS_AUTO THEN S.userBandwidth ELSE S.maxBandwidth

(* The obligations.  S settings, G ghost, p = PktAttr of the packet,        *)
(* nS = FrameSizeSelect(frame_size argument, S.frameDuration, S.Fs).         *)
DurationMatches(S, nS, p)    == p.samples = nS
(* DurationHonoured: the packet's duration is the requested one - whichever PCM entry point took the    *)
(* call and however long the caller's buffer (buf samples per channel) was.  ns is what the library's     *)
(* own opus_packet_get_nb_samples() says about the packet, p.samples what Framing!Parse says.             *)
DurationHonoured(S, buf, p, ns) ==
  LET nS == FrameSizeSelect(buf, S.frameDuration, S.Fs) IN p.samples = nS /\ ns = nS
ShortFramesAreCelt(S, nS, p) == (nS > 0 /\ nS < S.Fs \div 100) => p.mode = MODE_CELT
NyquistHonoured(S, p)        == p.bw <= BwCap(p.mode, NyquistBw(S.Fs))
BandwidthHonoured(S, G, p) ==
  /\ NyquistHonoured(S, p)
  /\ G.bwStable => p.bw <= BwCap(p.mode, Min(BwLimit(S), NyquistBw(S.Fs)))
ChannelsHonoured(S, G, p) == (S.forceChannels # OPUS_AUTO /\ G.fcFromStart) => p.ch = S.forceChannels
\* this packet is number fcAge+1 since the change; the third one must obey
ForceTakesEffect(S, G, p) ==
  (S.forceChannels # OPUS_AUTO /\ ~G.fcFromStart /\ G.fcAge >= 2) => p.ch = S.forceChannels
LowDelayIsCelt(S, p) == S.application = APP_LOWDELAY => p.mode = MODE_CELT

\* "non-DTX packet": DTX is off, or the packet codes audio (R2)
NonDtx(S, p) == S.dtx = 0 \/ p.audio

\* all TOC obligations of a successful encode call
EncodeHonours(S, G, nS, p) ==
  /\ NonDtx(S, p) => (DurationMatches(S, nS, p) /\ ShortFramesAreCelt(S, nS, p))
  /\ p.audio => /\ ChannelsHonoured(S, G, p) /\ ForceTakesEffect(S, G, p)
                /\ BandwidthHonoured(S, G, p) /\ LowDelayIsCelt(S, p)
\* the same as named pairs (for diagnostics)
EncodeObligations(S, G, nS, p) ==
  << <<"DurationMatches",    NonDtx(S, p) => DurationMatches(S, nS, p)>>,
     <<"ShortFramesAreCelt", NonDtx(S, p) => ShortFramesAreCelt(S, nS, p)>>,
     <<"ChannelsHonoured",   p.audio => ChannelsHonoured(S, G, p)>>,
     <<"ForceTakesEffect",   p.audio => ForceTakesEffect(S, G, p)>>,
     <<"BandwidthHonoured",  p.audio => BandwidthHonoured(S, G, p)>>,
     <<"LowDelayIsCelt",     p.audio => LowDelayIsCelt(S, p)>> >>

(* Ghost after an encode call (ret = its return value, p = PktAttr of the   *)
(* packet when ret > 0).  `first' and `pfs' are signal state: a packet that  *)
(* codes audio ends `first' and sets pfs to its frame size; a packet that     *)
(* does not (DTX, "TOC-only" low-budget packet) may or may not.               *)
EncGhostAfterEncode(S, G, ret, p, VR) ==      \* VR: admissible new values of the voice-ratio hint
  LET G1 == [G EXCEPT !.started = TRUE] IN
  IF ret <= 0 THEN {G1}
  ELSE IF p.audio
       THEN {[G1 EXCEPT !.first = FALSE, !.pfs = p.fsz, !.fcAge = Min(2, G.fcAge + 1), !.voiceRatio = vr] :
               vr \in VR}
       ELSE {[G1 EXCEPT !.first = f, !.pfs = q, !.voiceRatio = vr] :
               f \in {G.first, FALSE}, q \in {G.pfs, p.fsz}, vr \in VR}

\* SettingsUntouched: an encode call never changes S (so Encode has no S')

-----------------------------------------------------------------------------
(* Decoder settings object.                                                *)
DecCreateOK(Fs, ch) == Fs \in FsSet /\ ch \in {1, 2}
DecInitS(Fs, ch) == [Fs |-> Fs, channels |-> ch, gain |-> 0, complexity |-> 0,
                     phaseInvDisabled |-> IF ch = 1 THEN 1 ELSE 0]
DecDomainsHold(S) == /\ S.Fs \in FsSet /\ S.channels \in {1, 2} /\ S.gain \in -32768..32767
                     /\ S.complexity \in 0..10 /\ S.phaseInvDisabled \in {0, 1}
DecSetReqs == {SET_GAIN, SET_COMPLEXITY, SET_PHASE_INVERSION_DISABLED}
DecGetReqs == {GET_GAIN, GET_COMPLEXITY, GET_PHASE_INVERSION_DISABLED, GET_BANDWIDTH, GET_SAMPLE_RATE,
               GET_FINAL_RANGE, GET_PITCH, GET_LAST_PACKET_DURATION}
DecUnknownReqs == {-1, 0, 1, 3999, SET_APPLICATION, GET_APPLICATION, SET_BITRATE, GET_BITRATE, SET_VBR,
                   SET_BANDWIDTH, SET_FORCE_CHANNELS, GET_LOOKAHEAD, 4035, SET_LSB_DEPTH, GET_IN_DTX,
                   4053, 4999, MS_GET_ENCODER_STATE, MS_GET_DECODER_STATE, 12345, 2147483647}
DecLegal(req, v) ==
  CASE req = SET_GAIN -> v \in -32768..32767
    [] req = SET_COMPLEXITY -> v \in 0..10
    [] req = SET_PHASE_INVERSION_DISABLED -> v \in {0, 1}
    [] OTHER -> FALSE
DecStore(S, req, v) ==
  CASE req = SET_GAIN -> [S EXCEPT !.gain = v]
    [] req = SET_COMPLEXITY -> [S EXCEPT !.complexity = v]
    [] req = SET_PHASE_INVERSION_DISABLED -> [S EXCEPT !.phaseInvDisabled = v]
    [] OTHER -> S
DOut(ret, S) == [ret |-> ret, S |-> S]
\* hasCx: whether this decoder has the (undocumented) complexity request at all
DecSet(S, hasCx, req, v) ==
  IF req \notin DecSetReqs \/ (req = SET_COMPLEXITY /\ ~hasCx) THEN DOut(UNIMPLEMENTED, S)
  ELSE IF DecLegal(req, v) THEN DOut(OK, DecStore(S, req, v)) ELSE DOut(BAD_ARG, S)
DecGetNull(S, hasCx, req) ==
  IF req \in DecGetReqs /\ (req # GET_COMPLEXITY \/ hasCx) THEN DOut(BAD_ARG, S) ELSE DOut(UNIMPLEMENTED, S)
DecReset(S) == DOut(OK, S)              \* "This setting survives decoder reset"
DecGetters(S) == [sr |-> S.Fs, gain |-> S.gain, cx |-> S.complexity, pinv |-> S.phaseInvDisabled]

-----------------------------------------------------------------------------
(* Multistream / projection objects: a request is fanned out to every       *)
(* stream; the object is a sequence of per-stream settings records.          *)
(*   SS   sequence of encoder (decoder) records, coupled streams first        *)
(* A fanned-out setter succeeds iff it is legal for every stream, and then    *)
(* changes that field in every stream; otherwise BAD_ARG and nothing changes  *)
(* anywhere (the property's "leaves all settings unchanged").                  *)
MsEncCreateOK(Fs, nch, streams, coupled, app) ==
  /\ Fs \in FsSet /\ app \in Apps /\ nch \in 1..255 /\ streams >= 1 /\ coupled >= 0
  /\ coupled <= streams /\ streams + coupled <= 255 /\ streams + coupled <= nch
MsDecCreateOK(Fs, nch, streams, coupled) ==
  /\ Fs \in FsSet /\ nch \in 1..255 /\ streams >= 1 /\ coupled >= 0
  /\ coupled <= streams /\ streams + coupled <= 255

\* requests a multistream encoder forwards to all streams (bitrate and frame duration are kept
\* at the multistream level)
MsEncFanoutReqs == EncSetReqs \ {SET_BITRATE, SET_EXPERT_FRAME_DURATION, SET_VOICE_RATIO}
MsEncSetReqs == MsEncFanoutReqs \cup {SET_BITRATE, SET_EXPERT_FRAME_DURATION}
\* MS-level record M = [bitrate, frameDuration]
MsEncSet(SS, GG, M, req, v) ==
  IF req \in MsEncFanoutReqs
  THEN LET outs == [s \in 1..Len(SS) |-> EncSet(SS[s], GG[s], req, v)] IN
       IF \A s \in 1..Len(SS) : \E o \in outs[s] : o.ret = OK
       THEN [ret |-> OK, SS |-> [s \in 1..Len(SS) |-> (CHOOSE o \in outs[s] : o.ret = OK).S],
             GG |-> [s \in 1..Len(SS) |-> (CHOOSE o \in outs[s] : o.ret = OK).G], M |-> M]
       ELSE [ret |-> BAD_ARG, SS |-> SS, GG |-> GG, M |-> M]
  ELSE IF req = SET_BITRATE
  THEN IF v = OPUS_AUTO \/ v = OPUS_BITRATE_MAX \/ v > 0
       THEN [ret |-> OK, SS |-> SS, GG |-> GG, M |-> [M EXCEPT !.bitrate = v]]
       ELSE [ret |-> BAD_ARG, SS |-> SS, GG |-> GG, M |-> M]
  ELSE IF req = SET_EXPERT_FRAME_DURATION
  THEN IF v \in DurSet
       THEN [ret |-> OK, SS |-> SS, GG |-> GG, M |-> [M EXCEPT !.frameDuration = v]]
       ELSE [ret |-> BAD_ARG, SS |-> SS, GG |-> GG, M |-> M]
  ELSE [ret |-> UNIMPLEMENTED, SS |-> SS, GG |-> GG, M |-> M]

MsDecSetReqs == {SET_GAIN, SET_PHASE_INVERSION_DISABLED}
MsDecGetReqs == {GET_BANDWIDTH, GET_SAMPLE_RATE, GET_GAIN, GET_LAST_PACKET_DURATION,
                 GET_PHASE_INVERSION_DISABLED, GET_FINAL_RANGE}
MsDecSet(SS, req, v) ==
  IF req \notin MsDecSetReqs THEN [ret |-> UNIMPLEMENTED, SS |-> SS]
  ELSE IF DecLegal(req, v) THEN [ret |-> OK, SS |-> [s \in 1..Len(SS) |-> DecStore(SS[s], req, v)]]
  ELSE [ret |-> BAD_ARG, SS |-> SS]
\* per-stream state getter: stream id in range and non-null destination
MsStateGet(nStreams, id, null) == IF id < 0 \/ id >= nStreams \/ null THEN BAD_ARG ELSE OK
=============================================================================
