--------------------------- MODULE EncCtlFsel_mc ---------------------------
(***************************************************************************)
(* The frame-size selection of an encode call (property C11, "the packet's  *)
(* duration is the requested one") on the WHOLE grid                        *)
(*   Fs x OPUS_SET_EXPERT_FRAME_DURATION setting x application x channels   *)
(*      x every buffer length 0 .. 120 ms + 2.5 ms + 8 samples:             *)
(* the statement-by-statement transcription of frame_size_select()          *)
(* (EncCtl!FrameSizeSelectC), the model's FrameSizeSelect used by the trace *)
(* spec and the declarative reading SelectedFrameSize agree; the selection   *)
(* does not depend on application or channel count; a requested duration is  *)
(* a legal frame size at every rate and is selected whenever the buffer      *)
(* holds it; a shorter buffer is refused; under OPUS_FRAMESIZE_ARG exactly   *)
(* the nine legal lengths are accepted.                                      *)
(* One small initial state, one fan-out step (initial-state enumeration is   *)
(* single-threaded).                                                         *)
(***************************************************************************)
EXTENDS EncCtl, TLC
VARIABLES pt, seen

MaxBuf(Fs) == (6 * Fs) \div 50 + Fs \div 400 + 8
Grid == FsSet \X DurSet \X Apps \X {1, 2}

Init == pt = <<0, 0, 0, 0>> /\ seen = 0
Next == /\ pt[1] = 0
        /\ pt' \in Grid
        /\ seen' = Cardinality({b \in 0..MaxBuf(pt'[1]) : FrameSizeSelect(b, pt'[2], pt'[1]) > 0})
Spec == Init /\ [][Next]_<<pt, seen>>

SelOf(S, buf) == FrameSizeSelect(buf, S.frameDuration, S.Fs)

InvSelect ==
  pt[1] # 0 =>
    LET Fs == pt[1]  dur == pt[2]
        S == [InitS(Fs, pt[4], pt[3]) EXCEPT !.frameDuration = dur]
        S0 == [InitS(Fs, 1, APP_AUDIO) EXCEPT !.frameDuration = dur] IN
    /\ DomainsHold(S)
    /\ \A b \in 0..MaxBuf(Fs) :
         LET n == SelOf(S, b) IN
         /\ n = FrameSizeSelectC(b, dur, Fs)
         /\ n = SelectedFrameSize(b, dur, Fs)
         /\ n = SelOf(S0, b)                                  \* application and channel count play no part
         /\ n = -1 \/ (n \in FrameSizes(Fs) /\ n <= b)
         /\ dur # FRAMESIZE_ARG =>
              /\ DurSamples(dur, Fs) * 400 = DurQ[dur - 5000] * Fs          \* 5001 = 2.5 ms ... 5009 = 120 ms, exactly
              /\ DurSamples(dur, Fs) \in FrameSizes(Fs)
              /\ (b >= DurSamples(dur, Fs) => n = DurSamples(dur, Fs))      \* a longer buffer does not change the packet
              /\ (b < DurSamples(dur, Fs) => n = -1)                        \* a shorter one is refused
         /\ dur = FRAMESIZE_ARG => (n = b <=> b \in FrameSizes(Fs)) /\ (n # b => n = -1)
    \* vacuity: how many buffer lengths are accepted
    /\ seen = IF dur = FRAMESIZE_ARG THEN 9 ELSE MaxBuf(Fs) - DurSamples(dur, Fs) + 1
=============================================================================
