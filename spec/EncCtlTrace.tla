---------------------------- MODULE EncCtlTrace ----------------------------
(***************************************************************************)
(* Stateful validation of recorded control / encode histories against       *)
(* module EncCtl (property C11).  The harness (harness/ctl.c) records, after *)
(* EVERY call, the return code and what ALL getters report; this module      *)
(* replays the history on the model and accepts an event iff                 *)
(*   - the return code is one the model permits for that call,               *)
(*   - the complete read-back record equals the model's record afterwards    *)
(*     (a rejected call, a reset, an encode or decode call leave it alone),  *)
(*   - the TOC of a produced packet honours the settings in force; its       *)
(*     duration is the requested one for each of the three PCM entry points  *)
(*     (16 bit, 24 bit, float) and every length of the caller's buffer.      *)
(* A trace is a concatenation of executions; each starts with a "create"     *)
(* event.  A rejected event is printed (REJECTED_AT, WHY) and validation      *)
(* resumes at the next execution, so one pass reports every rejection.        *)
(* Hook-observed signal state (first, prev_framesize) and documented          *)
(* defaults are bound as SPEC-DRIFT only (R1): printed as DRIFT lines.        *)
(***************************************************************************)
EXTENDS EncCtl, Json, IOUtils, TLC
VARIABLES l, st, skip

Tr == ndJsonDeserialize(IOEnv.TRACE)
NEv == Len(Tr)

None == [o |-> "none"]

EncKeys == {"app", "sr", "br", "vbr", "cvbr", "cx", "fc", "maxbw", "sig", "fec", "loss", "dtx", "lsb",
            "dur", "pred", "pinv", "fm"}
DecKeys == {"sr", "gain", "cx", "pinv"}
Restrict(g, keys) == [k \in keys |-> g[k]]
DiffKeys(a, b) == {k \in DOMAIN a : a[k] # b[k]}

\* settings record read off a getter record (userBandwidth has no getter: the default is assumed
\* at creation and the model's own value is used afterwards)
SFromG(g, ch) ==
  [application |-> g.app, Fs |-> g.sr, channels |-> ch, bitrate |-> OPUS_AUTO, vbr |-> g.vbr, cvbr |-> g.cvbr,
   complexity |-> g.cx, forceChannels |-> g.fc, userBandwidth |-> OPUS_AUTO, maxBandwidth |-> g.maxbw,
   signal |-> g.sig, fec |-> g.fec, lossPerc |-> g.loss, dtx |-> g.dtx, lsbDepth |-> g.lsb,
   frameDuration |-> g.dur, predictionDisabled |-> g.pred, phaseInvDisabled |-> g.pinv, forcedMode |-> g.fm]
DecSFromG(g, ch) == [Fs |-> g.sr, channels |-> ch, gain |-> g.gain, complexity |-> IF g.cxrc = OK THEN g.cx ELSE 0,
                     phaseInvDisabled |-> g.pinv]

\* every getter answered OK and the signal-state getters report documented values
EncSignalSane(g) == /\ g.nok = 0 /\ g.bw \in BwSet /\ g.indtx \in {0, 1} /\ g.vr \in -1..100
                    /\ g.frh \in 0..65535 /\ g.frl \in 0..65535 /\ g.la > 0
DecSignalSane(g) == /\ g.nok = 0 /\ g.bw \in {0} \cup BwSet /\ g.lpd >= 0 /\ g.pitch >= 0
                    /\ g.frh \in 0..65535 /\ g.frl \in 0..65535

-----------------------------------------------------------------------------
(* Verdicts: [ok, st, why, drift]                                          *)
(* cnt: how often the antecedent of each obligation was true (vacuity guard):*)
(*  1 packets coding audio   2 ChannelsHonoured binds  3 ForceTakesEffect binds *)
(*  4 BandwidthHonoured binds below Nyquist  5 LowDelayIsCelt binds  6 ShortFramesAreCelt binds *)
(*  7 setter applied  8 request refused  9 SettingsUntouched compared  10 objects created       *)
(*  11 creations refused  12 allocation failures                                               *)
(*  13/14/15 DurationHonoured binds with a requested duration SHORTER than the caller's buffer,  *)
(*  through the 16-bit / 24-bit / float entry point   16 the same on a multistream object        *)
(*  17 ChannelsHonoured binds on the first audio packet after OPUS_RESET_STATE                   *)
(*  18 an encode call refused because the buffer is shorter than the requested duration          *)
NCnt == 18
Zero == [i \in 1..NCnt |-> 0]
One(i) == [Zero EXCEPT ![i] = 1]
B2N(b) == IF b THEN 1 ELSE 0
Good(s)        == [ok |-> TRUE, st |-> s, why |-> <<>>, drift |-> <<>>, cnt |-> Zero]
GoodD(s, d)    == [ok |-> TRUE, st |-> s, why |-> <<>>, drift |-> d, cnt |-> Zero]
GoodC(s, d, c) == [ok |-> TRUE, st |-> s, why |-> <<>>, drift |-> d, cnt |-> c]
Rej(why)       == [ok |-> FALSE, st |-> None, why |-> why, drift |-> <<>>, cnt |-> Zero]
WithCnt(v, c)  == IF v.ok THEN [v EXCEPT !.cnt = c] ELSE v

\* compare the complete record; name the clause that fails and the fields that differ
RecCheck(clause, expected, got) ==
  IF expected = got THEN <<>> ELSE <<clause, DiffKeys(expected, got)>>

-----------------------------------------------------------------------------
(* Creation of any object kind: allocation failure and argument checks.    *)
\* rej: the error codes a refusal may carry (which documented code is the implementation's choice
\* for the multistream / projection constructors; OPUS_BAD_ARG for encoder and decoder)
CreateVerdict(e, legal, rej, onSuccess) ==
  IF e.failed > 0
  THEN IF e.null = 1 /\ e.r = ALLOC_FAIL THEN GoodC(None, <<>>, One(12)) ELSE Rej(<<"AllocFailReported", e.r, e.null>>)
  ELSE IF ~legal
  THEN IF e.null = 1 /\ e.r \in rej THEN GoodC(None, <<>>, One(11)) ELSE Rej(<<"CreateRejects", e.r, e.null>>)
  ELSE IF e.null = 1 \/ e.r # OK THEN Rej(<<"CreateAccepts", e.r, e.null>>)
  ELSE WithCnt(onSuccess, One(10))

EncCreate(e) ==
  CreateVerdict(e, EncCreateOK(e.Fs, e.ch, e.app), {BAD_ARG},
    \* the default bitrate is OPUS_AUTO (drift if it is not: then the reported number is taken)
    LET S1 == SFromG(e.g, e.ch)
        S0 == IF e.g.br = ResolveBitrate(S1, 0) THEN S1 ELSE [S1 EXCEPT !.bitrate = e.g.br] IN
    IF ~(EncSignalSane(e.g) /\ e.g.app = e.app /\ e.g.sr = e.Fs /\ DomainsHold(S0))
    THEN Rej(<<"CreateReadBack", e.g>>)
    ELSE GoodD([o |-> "enc", S |-> S0, G |-> [InitG EXCEPT !.voiceRatio = e.g.vr], rs |-> FALSE],
               IF S0 = InitS(e.Fs, e.ch, e.app) /\ e.g.first = 1 /\ e.g.pfs = 0 THEN <<>>
               ELSE <<"defaults", DiffKeys(S0, InitS(e.Fs, e.ch, e.app))>>))

DecCreate(e) ==
  CreateVerdict(e, DecCreateOK(e.Fs, e.ch), {BAD_ARG},
    LET S0 == DecSFromG(e.g, e.ch) IN
    IF ~(DecSignalSane([e.g EXCEPT !.nok = IF e.g.cxrc = OK THEN e.g.nok ELSE e.g.nok - 1])
         /\ e.g.sr = e.Fs /\ DecDomainsHold(S0) /\ e.g.cxrc \in {OK, UNIMPLEMENTED})
    THEN Rej(<<"CreateReadBack", e.g>>)
    ELSE GoodD([o |-> "dec", S |-> S0, hasCx |-> e.g.cxrc = OK],
               IF S0 = DecInitS(e.Fs, e.ch) THEN <<>> ELSE <<"defaults", DiffKeys(S0, DecInitS(e.Fs, e.ch))>>))

-----------------------------------------------------------------------------
(* Encoder events.                                                         *)
EncRecord(S, G) == EncGetters(S, G)
\* the hook-observed part of the ghost must not move on a control request
CtlDrift(s, e) == IF e.g.first = (IF s.G.first THEN 1 ELSE 0) /\ e.g.pfs = s.G.pfs THEN <<>>
                  ELSE <<"ctl moved signal state", e.g.first, e.g.pfs>>

EncCtlOutcome(s, e, outs, rejectClause) ==
  LET byRet == {o \in outs : o.ret = e.r} IN
  IF byRet = {} THEN Rej(<<"ReturnCode", e.r, {o.ret : o \in outs}>>)
  ELSE IF ~EncSignalSane(e.g) THEN Rej(<<"GettersAnswer", e.g>>)
  ELSE LET o == CHOOSE o \in byRet : TRUE
           d == RecCheck(IF e.r = OK THEN "GetterReports" ELSE rejectClause,
                         EncRecord(o.S, o.G), Restrict(e.g, EncKeys)) IN
       IF d # <<>> THEN Rej(d)
       ELSE IF e.g.vr # o.G.voiceRatio THEN Rej(<<IF e.r = OK THEN "GetterReports" ELSE rejectClause, {"vr"}>>)
       ELSE GoodC([s EXCEPT !.S = o.S, !.G = o.G], CtlDrift(s, e), IF e.r = OK THEN One(7) ELSE One(8))

\* the PCM entry points of an encode call: 0 = 16 bit, 1 = 24 bit, 2 = float
EntryPoints == {0, 1, 2}

EncEncode(s, e) ==
  LET S == s.S  G == s.G
      \* e.fs is the length of the caller's buffer (samples per channel)
      nS == FrameSizeSelect(e.fs, S.frameDuration, S.Fs)
      pr == IF e.r > 0 THEN Parse([hdr |-> e.h, len |-> e.r, fill |-> 0], FALSE) ELSE [ok |-> FALSE] IN
  IF e.ep \notin EntryPoints THEN Rej(<<"UnknownEvent", "entry point", e.ep>>)
  ELSE IF e.r > 0 /\ ~pr.ok THEN Rej(<<"DurationHonoured", "packet does not parse">>)
  ELSE LET p == IF e.r > 0 THEN PktAttr(pr, S.Fs) ELSE [audio |-> FALSE, fsz |-> 0]
           failed == IF e.r > 0
                     THEN {i \in 1..6 : ~EncodeObligations(S, G, nS, p)[i][2]} ELSE {}
           \* the requested duration the harness read before the call is the model's; the packet's duration is the
           \* selected one, by Framing!Parse and by the library's own count - for every entry point and buffer length
           durOK == /\ e.rd = S.frameDuration
                    /\ (e.r > 0 /\ NonDtx(S, p)) => DurationHonoured(S, e.fs, p, e.ns)
           \* ghost: the model's bookkeeping with the hook-observed signal state
           G2 == [G EXCEPT !.started = TRUE, !.first = (e.g.first = 1), !.pfs = e.g.pfs,
                           !.voiceRatio = e.g.vr,
                           !.fcAge = IF e.r > 0 /\ p.audio THEN Min(2, G.fcAge + 1) ELSE G.fcAge]
           d == RecCheck("SettingsUntouched", EncRecord(S, G2), Restrict(e.g, EncKeys)) IN
       IF ~durOK THEN Rej(<<"DurationHonoured", [ep |-> e.ep, requested |-> e.rd, modelRequested |-> S.frameDuration,
                                                  buffer |-> e.fs, selected |-> nS, libSamples |-> e.ns,
                                                  parsedSamples |-> IF e.r > 0 THEN p.samples ELSE 0]>>)
       ELSE IF failed # {} THEN Rej(<<EncodeObligations(S, G, nS, p)[CHOOSE i \in failed : TRUE][1], e.h[1], p>>)
       ELSE IF ~EncSignalSane(e.g) THEN Rej(<<"GettersAnswer", e.g>>)
       ELSE IF d # <<>> THEN Rej(d)
       ELSE GoodC([s EXCEPT !.G = G2, !.rs = IF e.r > 0 /\ p.audio THEN FALSE ELSE @],
                  (IF G2 \in EncGhostAfterEncode(S, G, e.r, p, {e.g.vr}) THEN <<>>
                   ELSE <<"ghost after encode", e.g.first, e.g.pfs>>)
                  \o (IF nS = -1 /\ e.r # BAD_ARG /\ e.r <= 0 THEN <<"refused frame size reported as", e.r>> ELSE <<>>),
                  LET a == e.r > 0 /\ p.audio
                      longer == e.r > 0 /\ NonDtx(S, p) /\ S.frameDuration # FRAMESIZE_ARG /\ nS > 0 /\ e.fs > nS IN
                  [i \in 1..NCnt |->
                     CASE i = 1 -> B2N(a)
                       [] i = 2 -> B2N(a /\ S.forceChannels # OPUS_AUTO /\ G.fcFromStart /\ S.channels = 2)
                       [] i = 3 -> B2N(a /\ S.forceChannels # OPUS_AUTO /\ ~G.fcFromStart /\ G.fcAge >= 2 /\ S.channels = 2)
                       [] i = 4 -> B2N(a /\ G.bwStable /\ BwLimit(S) < NyquistBw(S.Fs))
                       [] i = 5 -> B2N(a /\ S.application = APP_LOWDELAY)
                       [] i = 6 -> B2N(e.r > 0 /\ NonDtx(S, p) /\ nS > 0 /\ nS < S.Fs \div 100)
                       [] i = 9 -> 1
                       [] i = 13 -> B2N(longer /\ e.ep = 0)
                       [] i = 14 -> B2N(longer /\ e.ep = 1)
                       [] i = 15 -> B2N(longer /\ e.ep = 2)
                       [] i = 17 -> B2N(a /\ s.rs /\ S.forceChannels # OPUS_AUTO /\ G.fcFromStart /\ S.channels = 2)
                       [] i = 18 -> B2N(e.r = BAD_ARG /\ S.frameDuration # FRAMESIZE_ARG /\ e.fs >= S.Fs \div 400
                                        /\ e.fs < DurSamples(S.frameDuration, S.Fs))
                       [] OTHER -> 0])

EncEvent(s, e) ==
  CASE e.k = "set"     -> EncCtlOutcome(s, e, EncSet(s.S, s.G, e.req, e.v), "RejectKeepsAll")
    [] e.k = "getnull" -> EncCtlOutcome(s, e, {EncGetNull(s.S, s.G, e.req)}, "RejectKeepsAll")
    [] e.k = "unk"     -> EncCtlOutcome(s, e, {EncUnknown(s.S, s.G, e.req)}, "RejectKeepsAll")
    [] e.k = "reset"   -> \* keeps the configuration; the (private) voice-ratio hint is re-read
                          LET o == EncReset(s.S, [s.G EXCEPT !.voiceRatio = e.g.vr])
                              d == RecCheck("ResetKeepsSettings", EncRecord(o.S, o.G), Restrict(e.g, EncKeys)) IN
                          IF e.r # OK THEN Rej(<<"ReturnCode", e.r, {OK}>>)
                          ELSE IF ~EncSignalSane(e.g) THEN Rej(<<"GettersAnswer", e.g>>)
                          ELSE IF d # <<>> THEN Rej(d)
                          ELSE GoodD([s EXCEPT !.G = o.G, !.rs = TRUE],
                                     IF e.g.first = 1 /\ e.g.pfs = 0 THEN <<>> ELSE <<"reset signal state", e.g.first, e.g.pfs>>)
    [] e.k = "enc"     -> EncEncode(s, e)
    [] OTHER           -> Rej(<<"UnknownEvent", e.k>>)

-----------------------------------------------------------------------------
(* Decoder events.                                                         *)
DecOutcome(s, e, o, rejectClause) ==
  IF o.ret # e.r THEN Rej(<<"ReturnCode", e.r, {o.ret}>>)
  ELSE IF ~DecSignalSane([e.g EXCEPT !.nok = IF s.hasCx THEN e.g.nok ELSE e.g.nok - 1]) THEN Rej(<<"GettersAnswer", e.g>>)
  ELSE LET d == RecCheck(IF e.r = OK THEN "GetterReports" ELSE rejectClause,
                         DecGetters(o.S), Restrict([e.g EXCEPT !.cx = IF s.hasCx THEN e.g.cx ELSE 0], DecKeys)) IN
       IF d # <<>> THEN Rej(d)
       ELSE GoodC([s EXCEPT !.S = o.S], <<>>, IF e.k = "dec" THEN One(9) ELSE IF e.r = OK THEN One(7) ELSE One(8))

DecEvent(s, e) ==
  CASE e.k = "set"     -> DecOutcome(s, e, DecSet(s.S, s.hasCx, e.req, e.v), "RejectKeepsAll")
    [] e.k = "getnull" -> DecOutcome(s, e, DecGetNull(s.S, s.hasCx, e.req), "RejectKeepsAll")
    [] e.k = "unk"     -> DecOutcome(s, e, DOut(UNIMPLEMENTED, s.S), "RejectKeepsAll")
    [] e.k = "reset"   -> DecOutcome(s, e, DecReset(s.S), "ResetKeepsSettings")
    [] e.k = "dec"     -> DecOutcome(s, [e EXCEPT !.r = 0], DOut(0, s.S), "SettingsUntouched")
    [] OTHER           -> Rej(<<"UnknownEvent", e.k>>)

-----------------------------------------------------------------------------
(* Multistream / projection encoder.  e.ss = per-stream getter records       *)
(* (through OPUS_MULTISTREAM_GET_ENCODER_STATE), e.m = what the object's own  *)
(* getters report ([v, rc] per getter).                                       *)
\* ambisonics channel counts: (n+1)^2 + {0, 2}
AmbiOK(n) == \E k \in 1..15 : (n = k * k \/ n = k * k + 2) /\ n < (k + 1) * (k + 1)
MsEncLegal(e) ==
  IF e.fam = -1 THEN MsEncCreateOK(e.Fs, e.nch, e.streams, e.coupled, e.app)
  ELSE /\ e.Fs \in FsSet /\ e.app \in Apps
       /\ IF e.o = "pje"
          THEN e.fam = 3 /\ AmbiOK(e.nch) /\ e.nch \in 4..38        \* mixing matrices exist for orders 1..5
          ELSE \/ (e.fam = 0 /\ e.nch \in {1, 2})
               \/ (e.fam = 1 /\ e.nch \in 1..8)
               \/ (e.fam = 255 /\ e.nch \in 1..255)
               \/ (e.fam = 2 /\ AmbiOK(e.nch))

StreamCh(e, i) == IF i <= e.coupled THEN 2 ELSE 1
\* fields the multistream layer itself manages on its streams during an encode call: the rate split
\* always; bandwidth, mode and channel forcing for surround / ambisonics mappings (R2)
MsManaged(fam) == IF fam = -1 THEN {"br"} ELSE {"br", "fc", "fm"}

\* the object's own getters forward to the first stream; bitrate is the sum over the streams;
\* the frame duration is kept at the multistream level
MsForward(e, SS, GG, M) ==
  /\ \A k \in DOMAIN e.m : e.m[k][2] \in {OK, UNIMPLEMENTED}
  /\ \A k \in (DOMAIN e.m) \cap (EncKeys \ {"br", "dur", "fm"}) :
        e.m[k][2] = OK => e.m[k][1] = EncRecord(SS[1], GG[1])[k]
  /\ e.m["dur"][2] = OK /\ e.m["dur"][1] = M.frameDuration
MsBitrateSum(e) ==
  LET RECURSIVE Sum(_)
      Sum(i) == IF i = 0 THEN 0 ELSE e.ss[i].br + Sum(i - 1) IN
  e.m["br"][2] = OK /\ e.m["br"][1] = Sum(Len(e.ss))

MsEncCreate(e, kind) ==
  CreateVerdict(e, MsEncLegal(e), {BAD_ARG, UNIMPLEMENTED, ALLOC_FAIL},
    LET n == Len(e.ss)
        SS == [i \in 1..n |-> LET S1 == SFromG(e.ss[i], StreamCh(e, i)) IN
                                 IF e.ss[i].br = ResolveBitrate(S1, 0) THEN S1 ELSE [S1 EXCEPT !.bitrate = e.ss[i].br]]
        GG == [i \in 1..n |-> [InitG EXCEPT !.voiceRatio = e.ss[i].vr]]
        M == [bitrate |-> OPUS_AUTO, frameDuration |-> e.m["dur"][1]] IN
    IF ~(/\ n = e.streams /\ n >= 1
         /\ \A i \in 1..n : /\ EncSignalSane(e.ss[i]) /\ e.ss[i].app = e.app /\ e.ss[i].sr = e.Fs
                            /\ DomainsHold(SS[i])
         /\ M.frameDuration \in DurSet /\ MsForward(e, SS, GG, M))
    THEN Rej(<<"CreateReadBack", e.m>>)
    ELSE GoodD([o |-> kind, SS |-> SS, GG |-> GG, M |-> M, fam |-> e.fam, coupled |-> e.coupled],
               IF MsBitrateSum(e) THEN <<>> ELSE <<"ms bitrate is not the sum of the streams", e.m["br"]>>))

MsStreamsCheck(clause, SS, GG, e, free) ==
  LET bad == {i \in 1..Len(SS) :
                \/ ~EncSignalSane(e.ss[i])
                \/ Restrict(EncRecord(SS[i], GG[i]), EncKeys \ free) # Restrict(e.ss[i], EncKeys \ free)
                \/ ("vr" \notin free /\ e.ss[i].vr # GG[i].voiceRatio)} IN
  IF bad = {} THEN <<>>
  ELSE LET i == CHOOSE i \in bad : TRUE IN
       <<clause, i - 1, DiffKeys(Restrict(EncRecord(SS[i], GG[i]), EncKeys \ free), Restrict(e.ss[i], EncKeys \ free))>>

\* the frame duration is kept at the multistream level and selects the frame size of every stream; the harness
\* reports the duration of the first stream's packet (opus_packet_get_nb_samples).  Not asserted with DTX on.
MsDurOK(s, e) ==
  /\ e.rd = s.M.frameDuration
  /\ (e.r > 0 /\ s.SS[1].dtx = 0) => e.ns = FrameSizeSelect(e.fs, s.M.frameDuration, s.SS[1].Fs)

MsEncEvent(s, e) ==
  LET n == Len(s.SS) IN
  IF Len(e.ss) # n THEN Rej(<<"StreamCount", Len(e.ss)>>)
  ELSE
  CASE e.k = "set" ->
         LET o == MsEncSet(s.SS, s.GG, s.M, e.req, e.v) IN
         IF o.ret # e.r THEN
            \* the refusal of a change of application after the first frame is the implementation's choice
            IF e.req = SET_APPLICATION /\ e.v \in Apps /\ e.r = BAD_ARG
            THEN LET d == MsStreamsCheck("RejectKeepsAll", s.SS, s.GG, e, {}) IN IF d = <<>> THEN Good(s) ELSE Rej(d)
            ELSE Rej(<<"ReturnCode", e.r, {o.ret}>>)
         ELSE LET d == MsStreamsCheck(IF e.r = OK THEN "GetterReports" ELSE "RejectKeepsAll", o.SS, o.GG, e, {}) IN
              IF d # <<>> THEN Rej(d)
              ELSE IF ~MsForward(e, o.SS, o.GG, o.M) THEN Rej(<<IF e.r = OK THEN "GetterReports" ELSE "RejectKeepsAll", "ms", e.m>>)
              ELSE GoodC([s EXCEPT !.SS = o.SS, !.GG = o.GG, !.M = o.M],
                         IF MsBitrateSum(e) THEN <<>> ELSE <<"ms bitrate is not the sum of the streams", e.m["br"]>>,
                         IF e.r = OK THEN One(7) ELSE One(8))
    [] e.k \in {"getnull", "unk", "reset", "sget"} ->
         LET want == CASE e.k = "getnull" -> IF e.req \in EncGetReqs \ {GET_MAX_BANDWIDTH, GET_IN_DTX} THEN {BAD_ARG}
                                             ELSE {BAD_ARG, UNIMPLEMENTED}
                       [] e.k = "unk" -> {UNIMPLEMENTED}
                       [] e.k = "reset" -> {OK}
                       [] e.k = "sget" -> {MsStateGet(n, e.id, e.null = 1)}
             GG2 == IF e.k = "reset" THEN [i \in 1..n |-> EncReset(s.SS[i], s.GG[i]).G] ELSE s.GG
             d == MsStreamsCheck(IF e.k = "reset" THEN "ResetKeepsSettings" ELSE "RejectKeepsAll", s.SS, GG2, e, {}) IN
         IF e.r \notin want THEN Rej(<<"ReturnCode", e.r, want>>)
         ELSE IF d # <<>> THEN Rej(d)
         ELSE IF ~MsForward(e, s.SS, GG2, s.M) THEN Rej(<<"RejectKeepsAll", "ms", e.m>>)
         ELSE GoodC([s EXCEPT !.GG = GG2], <<>>, IF e.r = OK THEN Zero ELSE One(8))
    [] e.k = "enc" ->
         \* settings untouched, except what the multistream layer manages itself; the per-stream ghost
         \* is re-read from the hooks
         LET free == MsManaged(s.fam) \cup {"vr"}
             GG2 == [i \in 1..n |-> [s.GG[i] EXCEPT !.started = TRUE, !.first = (e.ss[i].first = 1),
                                                   !.pfs = e.ss[i].pfs, !.voiceRatio = e.ss[i].vr]]
             d == MsStreamsCheck("SettingsUntouched", s.SS, GG2, e, free)
             \* the rate the stream was given (kept if the getter still resolves the old setting)
             SS2 == [i \in 1..n |-> [s.SS[i] EXCEPT !.bitrate = IF e.ss[i].br = ResolveBitrate(s.SS[i], GG2[i].pfs) THEN @ ELSE e.ss[i].br,
                                        !.forceChannels = IF "fc" \in free THEN e.ss[i].fc ELSE @,
                                        !.forcedMode = IF "fm" \in free THEN e.ss[i].fm ELSE @]] IN
         IF e.ep \notin EntryPoints THEN Rej(<<"UnknownEvent", "entry point", e.ep>>)
         ELSE IF ~MsDurOK(s, e) THEN Rej(<<"DurationHonoured", [ep |-> e.ep, requested |-> e.rd, modelRequested |-> s.M.frameDuration,
                                                              buffer |-> e.fs, libSamples |-> e.ns,
                                                              selected |-> FrameSizeSelect(e.fs, s.M.frameDuration, s.SS[1].Fs)]>>)
         ELSE IF d # <<>> THEN Rej(d)
         ELSE IF \E i \in 1..n : ~DomainsHold(SS2[i]) THEN Rej(<<"SettingsUntouched", "stream left its domain">>)
         ELSE IF ~MsForward(e, SS2, GG2, s.M) THEN Rej(<<"SettingsUntouched", "ms", e.m>>)
         ELSE GoodC([s EXCEPT !.SS = SS2, !.GG = GG2], <<>>,
                    [One(9) EXCEPT ![16] = B2N(e.r > 0 /\ s.SS[1].dtx = 0 /\ s.M.frameDuration # FRAMESIZE_ARG /\ e.fs > e.ns)])
    [] OTHER -> Rej(<<"UnknownEvent", e.k>>)

-----------------------------------------------------------------------------
(* Multistream / projection decoder.  e.ss = per-stream decoder records.     *)
MsDecLegal(e) ==
  IF e.fam = -1 THEN MsDecCreateOK(e.Fs, e.nch, e.streams, e.coupled)
  ELSE /\ e.Fs \in FsSet /\ e.nch \in 1..255 /\ e.streams >= 1 /\ e.coupled >= 0 /\ e.coupled <= e.streams
       /\ e.streams + e.coupled <= 255 /\ e.dmOK = 1
MsDecForward(e, SS) ==
  /\ e.m["gain"][2] = OK /\ e.m["gain"][1] = SS[1].gain
  /\ e.m["pinv"][2] = OK /\ e.m["pinv"][1] = SS[1].phaseInvDisabled
  /\ e.m["sr"][2] = OK /\ e.m["sr"][1] = SS[1].Fs
MsDecStreams(clause, SS, e) ==
  LET bad == {i \in 1..Len(SS) : \/ ~DecSignalSane([e.ss[i] EXCEPT !.nok = IF e.ss[i].cxrc = OK THEN @ ELSE @ - 1])
                                 \/ Restrict(DecGetters(SS[i]), DecKeys \ {"cx"}) # Restrict(e.ss[i], DecKeys \ {"cx"})} IN
  IF bad = {} THEN <<>> ELSE <<clause, (CHOOSE i \in bad : TRUE) - 1>>

MsDecCreate(e, kind) ==
  CreateVerdict(e, MsDecLegal(e), {BAD_ARG, UNIMPLEMENTED, ALLOC_FAIL},
    LET n == Len(e.ss)
        SS == [i \in 1..n |-> DecSFromG(e.ss[i], StreamCh(e, i))] IN
    IF ~(n = e.streams /\ MsDecStreams("x", SS, e) = <<>> /\ (\A i \in 1..n : DecDomainsHold(SS[i]) /\ SS[i].Fs = e.Fs)
         /\ MsDecForward(e, SS))
    THEN Rej(<<"CreateReadBack", e.m>>)
    ELSE Good([o |-> kind, SS |-> SS]))

MsDecEvent(s, e) ==
  LET n == Len(s.SS) IN
  IF Len(e.ss) # n THEN Rej(<<"StreamCount", Len(e.ss)>>)
  ELSE LET o == CASE e.k = "set" -> MsDecSet(s.SS, e.req, e.v)
                  [] e.k = "getnull" -> [ret |-> IF e.req \in MsDecGetReqs THEN BAD_ARG ELSE UNIMPLEMENTED, SS |-> s.SS]
                  [] e.k = "unk" -> [ret |-> UNIMPLEMENTED, SS |-> s.SS]
                  [] e.k = "reset" -> [ret |-> OK, SS |-> s.SS]
                  [] e.k = "sget" -> [ret |-> MsStateGet(n, e.id, e.null = 1), SS |-> s.SS]
                  [] e.k = "dec" -> [ret |-> e.r, SS |-> s.SS]           \* any result; the settings stay
                  [] OTHER -> [ret |-> -99, SS |-> s.SS]
           clause == IF e.k = "set" /\ e.r = OK THEN "GetterReports"
                     ELSE IF e.k = "reset" THEN "ResetKeepsSettings"
                     ELSE IF e.k = "dec" THEN "SettingsUntouched" ELSE "RejectKeepsAll"
           d == MsDecStreams(clause, o.SS, e) IN
       IF o.ret # e.r THEN Rej(<<"ReturnCode", e.r, {o.ret}>>)
       ELSE IF d # <<>> THEN Rej(d)
       ELSE IF ~MsDecForward(e, o.SS) THEN Rej(<<clause, "ms", e.m>>)
       ELSE GoodC([s EXCEPT !.SS = o.SS], <<>>,
                  IF e.k = "dec" THEN One(9) ELSE IF e.k = "set" /\ e.r = OK THEN One(7) ELSE IF e.r # OK THEN One(8) ELSE Zero)

-----------------------------------------------------------------------------
Verdict(s, e) ==
  IF e.k = "create"
  THEN CASE e.o = "enc" -> EncCreate(e)
         [] e.o = "dec" -> DecCreate(e)
         [] e.o \in {"mse", "pje"} -> MsEncCreate(e, e.o)
         [] e.o \in {"msd", "pjd"} -> MsDecCreate(e, e.o)
         [] OTHER -> Rej(<<"UnknownObject", e.o>>)
  ELSE CASE s.o = "enc" -> EncEvent(s, e)
         [] s.o = "dec" -> DecEvent(s, e)
         [] s.o \in {"mse", "pje"} -> MsEncEvent(s, e)
         [] s.o \in {"msd", "pjd"} -> MsDecEvent(s, e)
         [] OTHER -> Rej(<<"EventWithoutObject", e.k>>)

Init == l = 1 /\ st = None /\ skip = FALSE /\ \A i \in 1..NCnt : TLCSet(i, 0)
Bump(c) == \A i \in 1..NCnt : c[i] = 0 \/ TLCSet(i, TLCGet(i) + c[i])

Step ==
  /\ l <= NEv
  /\ LET e == Tr[l] IN
     IF skip /\ e.k # "create"
     THEN l' = l + 1 /\ UNCHANGED <<st, skip>>
     ELSE \E v \in {Verdict(st, e)} :      \* (a bound variable is evaluated once; a LET would be re-evaluated per use)
          /\ l' = l + 1
          /\ IF v.ok
             THEN /\ st' = v.st /\ skip' = FALSE /\ Bump(v.cnt)
                  /\ (v.drift = <<>> \/ PrintT("DRIFT " \o ToString(l) \o " " \o ToString(v.drift)))
             ELSE /\ st' = None /\ skip' = TRUE
                  /\ PrintT("REJECTED_AT " \o ToString(l) \o " " \o ToString(v.why))
Done == l > NEv /\ UNCHANGED <<l, st, skip>> /\ PrintT("COUNTS " \o ToString([i \in 1..NCnt |-> TLCGet(i)]))
Next == Step \/ Done
Spec == Init /\ [][Next]_<<l, st, skip>>

\* the whole trace was consumed
Post == TLCGet("stats").diameter >= NEv + 1 \/ (PrintT("TRUNCATED_AT " \o ToString(TLCGet("stats").diameter)) /\ FALSE)
=============================================================================
