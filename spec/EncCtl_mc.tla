----------------------------- MODULE EncCtl_mc -----------------------------
(***************************************************************************)
(* Exhaustive exploration of the encoder / decoder settings objects of      *)
(* module EncCtl: every sequence of at most Depth control requests over the *)
(* per-request boundary grid, interleaved with (envelope) encode calls.     *)
(*   GenMode = FALSE : model checking  (DomainsHold, RejectKeepsAll,        *)
(*                     EncodeFeasible, GetterTotal, decoder twins)          *)
(*   GenMode = TRUE  : every maximal history is printed (one line each) for *)
(*                     replay against the library                           *)
(***************************************************************************)
EXTENDS EncCtl, TLC
CONSTANTS Depth,      \* number of steps
          GenMode,    \* BOOLEAN
          Dense,      \* BOOLEAN: full boundary grid or the sparse one
          Configs,    \* set of <<Fs, channels, application>>
          BasePre     \* subset of {0, 1}: base state = fresh / after one coded frame
VARIABLES S, G, D, lastRet, n, hist, act

vars == <<S, G, D, lastRet, n, hist, act>>

INTMAX == 2147483647

\* configuration sets selectable from a cfg file (Configs <- Cfg...)
CfgAll   == FsSet \X {1, 2} \X Apps
CfgTen   == {<<48000, 2, 2048>>, <<48000, 1, 2049>>, <<24000, 2, 2051>>, <<24000, 1, 2048>>, <<16000, 2, 2049>>,
             <<16000, 1, 2051>>, <<12000, 2, 2048>>, <<12000, 1, 2049>>, <<8000, 2, 2051>>, <<8000, 1, 2048>>}
CfgTwo   == {<<48000, 2, 2048>>, <<8000, 1, 2051>>}
CfgFew   == {<<48000, 2, 2048>>, <<8000, 1, 2051>>, <<12000, 2, 2049>>}
CfgSome  == {<<48000, 2, 2048>>, <<8000, 1, 2051>>, <<12000, 2, 2049>>, <<16000, 1, 2048>>, <<24000, 2, 2051>>}
CfgGen2  == {<<48000, 2, 2048>>, <<12000, 2, 2051>>}
BaseBoth == {0, 1}

\* [lo, hi] of the documented interval of a setter
Range(ch, req) ==
  CASE req = SET_APPLICATION              -> <<2048, 2051>>
    [] req = SET_BITRATE                  -> <<500, 300000 * ch>>
    [] req = SET_MAX_BANDWIDTH            -> <<BW_NB, BW_FB>>
    [] req = SET_VBR                      -> <<0, 1>>
    [] req = SET_BANDWIDTH                -> <<BW_NB, BW_FB>>
    [] req = SET_COMPLEXITY               -> <<0, 10>>
    [] req = SET_INBAND_FEC               -> <<0, 2>>
    [] req = SET_PACKET_LOSS_PERC         -> <<0, 100>>
    [] req = SET_DTX                      -> <<0, 1>>
    [] req = SET_VBR_CONSTRAINT           -> <<0, 1>>
    [] req = SET_FORCE_CHANNELS           -> <<1, ch>>
    [] req = SET_SIGNAL                   -> <<SIGNAL_VOICE, SIGNAL_MUSIC>>
    [] req = SET_LSB_DEPTH                -> <<8, 24>>
    [] req = SET_EXPERT_FRAME_DURATION    -> <<5000, 5009>>
    [] req = SET_PREDICTION_DISABLED      -> <<0, 1>>
    [] req = SET_PHASE_INVERSION_DISABLED -> <<0, 1>>
    [] req = SET_FORCE_MODE               -> <<MODE_SILK, MODE_CELT>>
    [] req = SET_VOICE_RATIO              -> <<-1, 100>>
    [] req = SET_GAIN                     -> <<-32768, 32767>>
    [] OTHER                              -> <<0, 0>>

\* {min-1, min, min+1, mid, max-1, max, max+1, AUTO, MAX, 0, -1, INT_MAX, -INT_MAX}
Grid(ch, req) ==
  LET lo == Range(ch, req)[1]  hi == Range(ch, req)[2] IN
  IF Dense
  THEN {lo - 1, lo, lo + 1, (lo + hi) \div 2, hi - 1, hi, hi + 1, OPUS_AUTO, OPUS_BITRATE_MAX, 0, INTMAX, -INTMAX}
       \cup (IF req = SET_APPLICATION THEN {2050} ELSE {})
       \cup (IF req = SET_BITRATE THEN {1, 6000, 64000} ELSE {})
  ELSE {lo - 1, lo, hi, hi + 1, OPUS_AUTO, INTMAX}
       \cup (IF req = SET_APPLICATION THEN {2050} ELSE {})
       \cup (IF req = SET_BITRATE THEN {OPUS_BITRATE_MAX, 1} ELSE {})

\* packet outlines whose duration is nS samples at rate Fs: 32 configurations x mono/stereo x
\* coded/uncoded, as attribute records (PktAttr)
Outline(toc, cnt, audio) == [ok |-> TRUE, toc |-> toc, count |-> cnt,
                             sizes |-> [i \in 1..cnt |-> IF audio THEN 2 ELSE 0]]
Outlines(nS, Fs) ==
  { PktAttr(Outline(4 * c, nS \div SamplesPerFrame(4 * c, Fs), a), Fs) : c \in {c \in 0..63 :
        /\ nS % SamplesPerFrame(4 * c, Fs) = 0
        /\ nS \div SamplesPerFrame(4 * c, Fs) \in 1..48}, a \in BOOLEAN }
\* constant table (TLC evaluates a constant definition once)
OutlineTable == [Fs \in FsSet |-> [nS \in FrameSizes(Fs) |-> Outlines(nS, Fs)]]
Honoured(nS) == {p \in OutlineTable[S.Fs][nS] : EncodeHonours(S, G, nS, p)}

FrameArgs(Fs) == {Fs \div 400, Fs \div 100, Fs \div 50, (3 * Fs) \div 50, (6 * Fs) \div 50, Fs \div 400 - 1, Fs \div 50 + 1}

-----------------------------------------------------------------------------
Lbl(x) == IF GenMode THEN Append(hist, x) ELSE hist
Tick(a) == n < Depth /\ n' = n + 1 /\ act' = a      \* act: the kind of the last step (keeps the actions' successors apart)

DoSet ==
  /\ Tick("set")
  /\ \E req \in EncSetReqs : \E v \in Grid(S.channels, req) :
       \E o \in (IF GenMode THEN {CHOOSE p \in EncSet(S, G, req, v) : TRUE} ELSE EncSet(S, G, req, v)) :
          /\ S' = o.S /\ G' = o.G /\ lastRet' = o.ret /\ hist' = Lbl(<<"S", req, v>>) /\ UNCHANGED D
DoGetNull ==
  /\ Tick("getnull")
  /\ \E req \in EncGetReqs \cup {GET_PITCH} :
       LET o == EncGetNull(S, G, req) IN
       S' = o.S /\ G' = o.G /\ lastRet' = o.ret /\ hist' = Lbl(<<"Q", req>>) /\ UNCHANGED D
DoUnknown ==
  /\ Tick("unk")
  /\ \E req \in EncUnknownReqs :
       LET o == EncUnknown(S, G, req) IN
       S' = o.S /\ G' = o.G /\ lastRet' = o.ret /\ hist' = Lbl(<<"U", req>>) /\ UNCHANGED D
DoReset ==
  /\ Tick("reset")
  /\ LET o == EncReset(S, G) IN
     S' = o.S /\ G' = o.G /\ lastRet' = o.ret /\ hist' = Lbl(<<"R">>) /\ UNCHANGED D
\* the envelope: any outcome that honours the settings; a refused frame size is BAD_ARG
DoEncode ==
  /\ Tick("enc")
  /\ \E fsArg \in FrameArgs(S.Fs) :
       LET nS == FrameSizeSelect(fsArg, S.frameDuration, S.Fs) IN
       /\ hist' = Lbl(<<"E", fsArg>>) /\ UNCHANGED <<S, D>>
       /\ IF nS < 0
          THEN /\ lastRet' = BAD_ARG
               /\ G' \in EncGhostAfterEncode(S, G, BAD_ARG, [audio |-> FALSE], {-1})
          ELSE /\ lastRet' = OK
               /\ IF GenMode
                  THEN \* one canonical outcome per label, so that histories are not duplicated
                       G' = CHOOSE g \in EncGhostAfterEncode(S, G, 1,
                                   CHOOSE p \in OutlineTable[S.Fs][nS] : p.audio /\ EncodeHonours(S, G, nS, p), {-1}) : TRUE
                  ELSE \* the ghost depends on the packet only through <<codes audio, frame size>>
                       \E k \in {<<p.audio, p.fsz>> : p \in Honoured(nS)} :
                          G' \in EncGhostAfterEncode(S, G, 1, [audio |-> k[1], fsz |-> k[2]], {-1})

\* the decoder object runs beside the encoder (same step counter)
DoDecSet ==
  /\ Tick("dset") /\ ~GenMode
  /\ \E req \in DecSetReqs \cup {SET_BITRATE} : \E v \in Grid(D.channels, req) :
       LET o == DecSet(D, TRUE, req, v) IN
       D' = o.S /\ lastRet' = o.ret /\ hist' = hist /\ UNCHANGED <<S, G>>
DoDecGetNull ==
  /\ Tick("dget") /\ ~GenMode
  /\ \E req \in DecGetReqs \cup {GET_BITRATE} :
       LET o == DecGetNull(D, TRUE, req) IN
       D' = o.S /\ lastRet' = o.ret /\ hist' = hist /\ UNCHANGED <<S, G>>
DoDecReset ==
  /\ Tick("dreset") /\ ~GenMode
  /\ D' = DecReset(D).S /\ lastRet' = OK /\ hist' = hist /\ UNCHANGED <<S, G>>

Init ==
  /\ \E c \in Configs, pre \in BasePre :
       /\ S = InitS(c[1], c[2], c[3])
       /\ D = DecInitS(c[1], c[2])
       /\ IF pre = 0
          THEN G = InitG /\ hist = << <<"N", c[1], c[2], c[3]>> >>
          ELSE \* base state "one 20 ms frame has been coded"
               /\ G = [InitG EXCEPT !.first = FALSE, !.pfs = c[1] \div 50, !.started = TRUE]
               /\ hist = << <<"N", c[1], c[2], c[3]>>, <<"E", c[1] \div 50>> >>
  /\ lastRet = OK /\ n = 0 /\ act = "init"

Next == DoSet \/ DoGetNull \/ DoUnknown \/ DoReset \/ DoEncode \/ DoDecSet \/ DoDecGetNull \/ DoDecReset
Spec == Init /\ [][Next]_vars

-----------------------------------------------------------------------------
(* Design theorems.                                                        *)
InvDomainsHold == DomainsHold(S) /\ DecDomainsHold(D)
\* every getter is total and reports a documented value
InvGetterTotal ==
  LET g == EncGetters(S, G) IN
  /\ g.br > 0 /\ g.br <= 4083200            \* 1276 bytes per 2.5 ms
  /\ (S.bitrate \notin {OPUS_AUTO, OPUS_BITRATE_MAX} => g.br = S.bitrate)
\* the TOC obligations can always be met together (they never contradict each other),
\* for every frame size the API accepts and both for coded and uncoded packets
InvEncodeFeasible ==
  \A f \in FrameSizes(S.Fs) :
     LET nS == FrameSizeSelect(f, S.frameDuration, S.Fs) IN
     nS > 0 => \A a \in BOOLEAN : \E p \in Honoured(nS) : p.audio = a
\* a refused request leaves every setting alone; a step changes at most one field
RejectKeepsAll ==
  [][ /\ lastRet' # OK => (S' = S /\ D' = D)
      /\ Cardinality({f \in DOMAIN S : S'[f] # S[f]}) + Cardinality({f \in DOMAIN D : D'[f] # D[f]}) <= 1
    ]_vars
\* only a successful setter writes a setting; and no setter touches the signal state
OnlySettersWrite ==
  [][ (S' # S) => (lastRet' = OK /\ G'.first = G.first /\ G'.pfs = G.pfs) ]_vars

\* GenMode: print each maximal history on one line
Emit == (GenMode /\ n = Depth) => PrintT(<<"H", ToString(hist)>>)
=============================================================================
