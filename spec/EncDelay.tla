----------------------------- MODULE EncDelay -----------------------------
(* G16 - the Opus encoder's input path as an exact sample-index machine (src/opus_encoder.c).          *)
(*                                                                                                     *)
(* The input is an abstract stream of sample INDICES per channel.  All contents are kept relative to   *)
(* the stream position at the start of the slice being encoded: a cell holding "s r" holds stream      *)
(* sample (pos + r), so r < 0 is the past.  Because of that the state after every slice is canonical   *)
(* (theorem DbAfter) and the machine closes: TLC explores it for arbitrarily long call sequences.       *)
(*                                                                                                     *)
(* Arrays are run-length coded (a handful of runs, never per cell):                                    *)
(*   [t |-> "s", r, n]  n consecutive stream samples r .. r+n-1, as the HP / DC-reject filter left them *)
(*   [t |-> "f", r, n]  the same cells after the SILK-prefill gain_fade (onset ramp)                    *)
(*   [t |-> "z", n]     zeros: cleared by OPUS_RESET_STATE / opus_encoder_init / OPUS_CLEAR            *)
(*   [t |-> "u", n]     uninitialised stack                                                            *)
(* Contents are per channel FRAME; array accesses are intervals in interleaved ELEMENTS computed        *)
(* literally as the C code computes them (channels * ...), so that the bounds theorems are theorems     *)
(* about the code's arithmetic.                                                                        *)
(*                                                                                                     *)
(* The mode / redundancy / prefill DECISIONS are G01's (EncMode): here they are inputs, one record per *)
(* slice   d = [mode, prev, red, c2s, pf, tc, cm]                                                       *)
(*   mode   st->mode of the slice            prev  st->prev_mode before it (0 = first frame / reset)    *)
(*   red    redundancy as finally in effect  c2s   celt_to_silk                                         *)
(*   pf     prefill (0, 1, 2 = bandwidth switch)      tc  to_celt                                        *)
(*   cm     the main celt_encode_with_ec call is made (0: "we already busted the budget")               *)
(*                                                                                                     *)
(* WIT selects a deliberately wrong variant of one line (witness configurations; 0 = the code):        *)
(*   1  prefill_offset without the Fs/400 term        2  whole-buffer copy source without total_buffer  *)
(*   3  slice stride without channels                 4  CELT handed &pcm_buf[total_buffer*channels]    *)
EXTENDS Integers, Sequences, FiniteSets
CONSTANT WIT

MODE_SILK == 1000
MODE_HYB  == 1001
MODE_CELT == 1002
APP_VOIP  == 2048
APP_AUDIO == 2049
APP_LOWDELAY == 2051

FsSet   == {8000, 12000, 16000, 24000, 48000}
AppSet  == {APP_VOIP, APP_AUDIO, APP_LOWDELAY}
Configs == [Fs : FsSet, ch : {1, 2}, app : AppSet]

Min(a, b) == IF a < b THEN a ELSE b
Max(a, b) == IF a > b THEN a ELSE b

\* opus_encoder_init, opus_encoder.c:276, 282; MAX_ENCODER_BUFFER = 480 (line 62)
EB(c) == c.Fs \div 100                          \* st->encoder_buffer
DC(c) == c.Fs \div 250                          \* st->delay_compensation
N4(c) == c.Fs \div 400
N2(c) == c.Fs \div 200
TB(c) == IF c.app = APP_LOWDELAY THEN 0 ELSE DC(c)     \* total_buffer, opus_encoder.c:1805-1809
MAX_ENCODER_BUFFER == 480
\* OPUS_GET_LOOKAHEAD, opus_encoder.c:2926-2936
Lookahead(c) == N4(c) + (IF c.app # APP_LOWDELAY THEN DC(c) ELSE 0)

QS == {1, 2, 4, 8, 16, 24, 32, 40, 48}
FrameSizes(c) == {q * N4(c) : q \in QS}

\* the multi-frame branch of opus_encode_native (opus_encoder.c:1616-1643)
IsMulti(c, fs, mode) == (fs > c.Fs \div 50 /\ mode # MODE_SILK) \/ fs > (3 * c.Fs) \div 50
EncFrameSize(c, fs, mode) ==
  IF ~IsMulti(c, fs, mode) THEN fs
  ELSE IF mode = MODE_SILK THEN (IF fs = (2 * c.Fs) \div 25 THEN c.Fs \div 25
                                 ELSE IF fs = (3 * c.Fs) \div 25 THEN (3 * c.Fs) \div 50 ELSE c.Fs \div 50)
  ELSE c.Fs \div 50
NbFrames(c, fs, mode) == fs \div EncFrameSize(c, fs, mode)
\* pcm + i*(st->channels*enc_frame_size)   (opus_encoder.c:1710)
SliceLo(c, efs, i) == IF WIT = 3 THEN i * efs ELSE i * (c.ch * efs)
SliceIv(c, efs, i) == [lo |-> SliceLo(c, efs, i), n |-> efs * c.ch]
\* the slices tile the caller's buffer of exactly fs*channels elements
RECURSIVE TilesFrom(_, _, _, _, _)
TilesFrom(c, efs, nb, i, cur) ==
  IF i = nb THEN TRUE ELSE SliceIv(c, efs, i).lo = cur /\ TilesFrom(c, efs, nb, i + 1, cur + SliceIv(c, efs, i).n)
SlicesTile(c, fs, mode) ==
  LET efs == EncFrameSize(c, fs, mode) nb == NbFrames(c, fs, mode) IN
  /\ nb >= 1 /\ nb * efs = fs /\ nb <= 6
  /\ TilesFrom(c, efs, nb, 0, 0)
  /\ SliceIv(c, efs, nb - 1).lo + SliceIv(c, efs, nb - 1).n = fs * c.ch

\* ---------------------------------------------------------------------------------------------------
\* run-length coded contents
Z(n) == [t |-> "z", r |-> 0, n |-> n]
U(n) == [t |-> "u", r |-> 0, n |-> n]
S(r, n) == [t |-> "s", r |-> r, n |-> n]
Indexed(x) == x.t \in {"s", "f"}
Mergeable(a, b) == a.t = b.t /\ (~Indexed(a) \/ a.r + a.n = b.r)
RECURSIVE Norm(_)
Norm(rs) ==
  IF rs = <<>> THEN <<>>
  ELSE IF Head(rs).n <= 0 THEN Norm(Tail(rs))
  ELSE LET t == Norm(Tail(rs)) IN
       IF t # <<>> /\ Mergeable(Head(rs), Head(t))
       THEN <<[Head(rs) EXCEPT !.n = Head(rs).n + Head(t).n]>> \o Tail(t)
       ELSE <<Head(rs)>> \o t
RECURSIVE RLen(_)
RLen(rs) == IF rs = <<>> THEN 0 ELSE Head(rs).n + RLen(Tail(rs))
\* cells lo .. lo+n-1 (shorter when the range leaves the array: the bounds theorems catch that separately)
RECURSIVE Sub(_, _, _)
Sub(rs, lo, n) ==
  IF n <= 0 \/ rs = <<>> THEN <<>>
  ELSE LET h == Head(rs) IN
       IF lo >= h.n THEN Sub(Tail(rs), lo - h.n, n)
       ELSE LET k == Min(h.n - lo, n) IN
            <<[t |-> h.t, r |-> IF Indexed(h) THEN h.r + Max(lo, 0) ELSE 0, n |-> k]>> \o Sub(Tail(rs), 0, n - k)
Put(rs, lo, new) == Norm(Sub(rs, 0, lo) \o new \o Sub(rs, lo + RLen(new), RLen(rs) - lo - RLen(new)))
Shift(rs, d) == [i \in 1..Len(rs) |-> IF Indexed(rs[i]) THEN [rs[i] EXCEPT !.r = rs[i].r - d] ELSE rs[i]]
Fade(rs) == [i \in 1..Len(rs) |-> IF rs[i].t = "s" THEN [rs[i] EXCEPT !.t = "f"] ELSE rs[i]]
\* the stream window lo .. lo+n-1 as an encoder that has seen `filled` samples since init/reset holds it
Expect(lo, n, filled) ==
  LET zc == Max(0, Min(n, (0 - lo) - filled)) IN Norm(<<Z(zc), S(lo + zc, n - zc)>>)
\* the delay buffer holds the last encoder_buffer input samples (zeros before the start of the stream)
Canon(c, filled) == Expect(0 - EB(c), EB(c), filled)

\* ---------------------------------------------------------------------------------------------------
\* decisions
DecisionsRaw == [mode : {MODE_SILK, MODE_HYB, MODE_CELT}, prev : {0, MODE_SILK, MODE_HYB, MODE_CELT},
                 red : {0, 1}, c2s : {0, 1}, pf : {0, 1, 2}, tc : {0, 1}, cm : {0, 1}]
\* normal form (what opus_encode_frame_native actually uses): CELT-only clears redundancy (1845) and has no SILK
\* part; c2s only matters with red; cm only with a CELT part
LegalDecision(d) ==
  /\ (d.mode = MODE_CELT => d.red = 0 /\ d.pf = 0 /\ d.tc = 0)
  /\ (d.red = 0 => d.c2s = 0)
  /\ (d.mode = MODE_SILK => d.cm = 0)
  /\ (d.tc = 1 => d.c2s = 0)
Decisions == {d \in DecisionsRaw : LegalDecision(d)}
\* frame sizes a slice can have in each layer (opus_encoder.c:1455, 1616)
SliceSizes(c, mode) ==
  IF mode = MODE_SILK THEN {q * N4(c) : q \in {4, 8, 16, 24}}
  ELSE IF mode = MODE_HYB THEN {q * N4(c) : q \in {4, 8}} ELSE {q * N4(c) : q \in {1, 2, 4, 8}}

\* ---------------------------------------------------------------------------------------------------
\* one opus_encode_frame_native call on a slice of fs frames, delay buffer db (relative to the slice start)
Acc(rw, arr, lo, n) == [rw |-> rw, arr |-> arr, lo |-> lo, n |-> n]
Call(k, arr, off, n, pf, role, rst, cont) ==
  [k |-> k, arr |-> arr, off |-> off, n |-> n, pf |-> pf, role |-> role, rst |-> rst, cont |-> cont]

Slice(c, db, d, fs) ==
  LET ch == c.ch  eb == EB(c)  dc == DC(c)  tb == TB(c)  n4 == N4(c)  n2 == N2(c)
      \* ALLOC(pcm_buf, (total_buffer+frame_size)*channels); OPUS_COPY(pcm_buf, &delay_buffer[(eb-tb)*ch], tb*ch) (1858-1859)
      \* hp_cutoff / dc_reject (pcm -> &pcm_buf[tb*ch], frame_size)                                       (1874, 1895)
      P == Norm(Sub(db, eb - tb, tb) \o <<S(0, fs)>>)
      acc1 == << Acc("r", "D", (eb - tb) * ch, tb * ch), Acc("w", "P", 0, tb * ch),
                 Acc("r", "I", 0, fs * ch), Acc("w", "P", tb * ch, fs * ch) >>
      silkOn == d.mode # MODE_CELT
      doPf == silkOn /\ d.pf > 0
      \* prefill_offset = channels*(encoder_buffer - st->delay_compensation - Fs/400)                      (2083)
      po == ch * (eb - dc - (IF WIT = 1 THEN 0 ELSE n4))
      \* gain_fade(delay_buffer+po, same, 0, 1, overlap, Fs/400, ...); OPUS_CLEAR(delay_buffer, po)          (2084-2086)
      D1 == IF doPf THEN Put(Put(db, po \div ch, Fade(Sub(db, po \div ch, n4))), 0, <<Z(po \div ch)>>) ELSE db
      acc2 == IF doPf THEN << Acc("rw", "D", po, n4 * ch), Acc("w", "D", 0, po) >> ELSE <<>>
      \* silk_Encode(.., delay_buffer, encoder_buffer, NULL, &zero, prefill, ..)                            (2088)
      \* silk_Encode(.., pcm_buf+total_buffer*channels, frame_size, &enc, &nBytes, 0, ..)                   (2093-2094)
      silk == (IF doPf THEN <<Call("silk", "D", 0, eb, d.pf, "prefill", TRUE, D1)>> ELSE <<>>)
              \o (IF silkOn THEN <<Call("silk", "P", tb * ch, fs, 0, "main", FALSE, Norm(Sub(P, tb, fs)))>> ELSE <<>>)
      \* ALLOC(tmp_prefill, channels*Fs/400); copied when mode != SILK && mode != prev_mode && prev_mode > 0  (2168-2172)
      doTp == d.mode # MODE_SILK /\ d.mode # d.prev /\ d.prev > 0
      T == IF doTp THEN Norm(Sub(D1, eb - tb - n4, n4)) ELSE <<U(n4)>>
      acc3 == IF doTp THEN << Acc("r", "D", (eb - tb - n4) * ch, n4 * ch), Acc("w", "T", 0, n4 * ch) >> ELSE <<>>
      \* the delay buffer update                                                                           (2174-2182)
      mv == ch * (eb - (fs + tb)) > 0
      D2 == IF mv THEN Put(Put(D1, 0, Sub(D1, fs, eb - fs - tb)), eb - fs - tb, Sub(P, 0, fs + tb))
            ELSE Norm(Sub(P, fs + (IF WIT = 2 THEN 0 ELSE tb) - eb, eb))
      acc4 == IF mv THEN << Acc("r", "D", ch * fs, ch * (eb - fs - tb)), Acc("w", "D", 0, ch * (eb - fs - tb)),
                            Acc("r", "P", 0, (fs + tb) * ch), Acc("w", "D", ch * (eb - fs - tb), (fs + tb) * ch) >>
              ELSE << Acc("r", "P", (fs + tb - eb) * ch, eb * ch), Acc("w", "D", 0, eb * ch) >>
      \* gain_fade / stereo_fade over pcm_buf[0 .. frame_size*channels) change gains, not indices           (2185-2216)
      acc5 == << Acc("rw", "P", 0, fs * ch) >>
      \* CELT calls, in program order
      cR1 == IF d.red = 1 /\ d.c2s = 1                                                                  \* (2295)
             THEN <<Call("celt", "P", 0, n2, 0, "red", FALSE, Norm(Sub(P, 0, n2)))>> ELSE <<>>
      cPf == IF d.mode # MODE_SILK /\ doTp                                                              \* (2343)
             THEN <<Call("celt", "T", 0, n4, 0, "prefill", TRUE, T)>> ELSE <<>>
      mo == IF WIT = 4 THEN tb ELSE 0
      cM  == IF d.mode # MODE_SILK /\ d.cm = 1                                                          \* (2349)
             THEN <<Call("celt", "P", mo * ch, fs, 0, "main", (cR1 # <<>> /\ cPf = <<>>), Norm(Sub(P, mo, fs)))>> ELSE <<>>
      cR2 == IF d.red = 1 /\ d.c2s = 0                                                                  \* (2386, 2388)
             THEN << Call("celt", "P", ch * (fs - n2 - n4), n4, 0, "prefill2", TRUE, Norm(Sub(P, fs - n2 - n4, n4))),
                     Call("celt", "P", ch * (fs - n2), n2, 0, "red", FALSE, Norm(Sub(P, fs - n2, n2))) >> ELSE <<>>
      celt == cR1 \o cPf \o cM \o cR2
  IN [ db    |-> Norm(Shift(D2, fs)),            \* relative to the position after the slice
       D1    |-> D1, P |-> P, T |-> T, mv |-> mv,
       acc   |-> acc1 \o acc2 \o acc3 \o acc4 \o acc5,
       calls |-> silk \o celt,                    \* silk_Encode calls precede every celt_encode_with_ec call
       silk  |-> silk, celt |-> celt ]

ArrSize(c, fs, arr) ==
  CASE arr = "D" -> EB(c) * c.ch               \* (the declared MAX_ENCODER_BUFFER*2 is >= that: theorem DeclOK)
    [] arr = "P" -> (TB(c) + fs) * c.ch
    [] arr = "T" -> (c.ch * c.Fs) \div 400
    [] arr = "I" -> fs * c.ch

\* ---------------------------------------------------------------------------------------------------
\* theorems about one slice (checked by EncDelay_mc over every configuration, fill level and decision)
DeclOK(c) == EB(c) * c.ch <= MAX_ENCODER_BUFFER * 2 /\ TB(c) <= EB(c) /\ DC(c) + N4(c) <= EB(c)

InBounds(c, fs, R) ==
  /\ \A i \in 1..Len(R.acc) : LET a == R.acc[i] IN a.lo >= 0 /\ a.n >= 0 /\ a.lo + a.n <= ArrSize(c, fs, a.arr)
  /\ \A i \in 1..Len(R.calls) : LET x == R.calls[i] IN x.off >= 0 /\ x.n > 0 /\ x.off + x.n * c.ch <= ArrSize(c, fs, x.arr)
  /\ \A i \in 1..Len(R.acc) : R.acc[i].lo % c.ch = 0 /\ R.acc[i].n % c.ch = 0
  /\ \A i \in 1..Len(R.calls) : RLen(R.calls[i].cont) = R.calls[i].n

\* the delay buffer after every slice holds the last encoder_buffer input samples, unmodified
DbAfter(c, filled, fs, R) == R.db = Canon(c, Min(filled + fs, EB(c)))

Role(R, k, role) == {i \in 1..Len(R.calls) : R.calls[i].k = k /\ R.calls[i].role = role}
\* SILK receives the stream with no delay: exactly the slice's own samples
SilkExact(c, filled, fs, R) == \A i \in Role(R, "silk", "main") : R.calls[i].cont = <<S(0, fs)>> /\ R.calls[i].off = TB(c) * c.ch
\* the SILK prefill buffer: zeros, then the onset ramp over exactly the 2.5 ms that the CELT prefill window covers,
\* then delay_compensation untouched samples ending where the slice begins
SilkPrefillShape(c, filled, fs, R) ==
  \A i \in Role(R, "silk", "prefill") :
     R.calls[i].cont = Norm(<<Z(EB(c) - DC(c) - N4(c))>> \o Fade(Expect(0 - DC(c) - N4(c), N4(c), filled))
                            \o Expect(0 - DC(c), DC(c), filled))
\* the CELT layer receives the stream delayed by exactly total_buffer samples
CeltDelayed(c, filled, fs, R) ==
  \A i \in Role(R, "celt", "main") : R.calls[i].cont = Expect(0 - TB(c), fs, filled)
\* the CELT prefill window is the 2.5 ms just before the CELT frame (faded when SILK was prefilled in the same slice:
\* "only the part after the ramp really gets used")
CeltPrefillAbuts(c, filled, fs, d, R) ==
  \A i \in Role(R, "celt", "prefill") :
     LET w == Expect(0 - TB(c) - N4(c), N4(c), filled) IN
     R.calls[i].cont = (IF d.mode # MODE_CELT /\ d.pf > 0 THEN Norm(Fade(w)) ELSE w)
\* redundancy: CELT->SILK codes the first 5 ms of the (delayed) frame, continuing the CELT stream; SILK->CELT codes
\* the last 5 ms of the delayed frame after a 2.5 ms prefill, ending exactly where the next CELT frame starts
RedWindows(c, filled, fs, d, R) ==
  /\ d.red = 1 /\ d.c2s = 1 => \A i \in Role(R, "celt", "red") : R.calls[i].cont = Expect(0 - TB(c), N2(c), filled)
  /\ d.red = 1 /\ d.c2s = 0 =>
        /\ \A i \in Role(R, "celt", "prefill2") : R.calls[i].cont = Expect(fs - N2(c) - N4(c) - TB(c), N4(c), filled)
        /\ \A i \in Role(R, "celt", "red") : R.calls[i].cont = Expect(fs - N2(c) - TB(c), N2(c), filled)
\* no layer ever reads uninitialised stack; only stream samples, faded stream samples or reset zeros
CleanReads(R) == \A i \in 1..Len(R.calls) : \A j \in 1..Len(R.calls[i].cont) : R.calls[i].cont[j].t # "u"

\* first and last stream index (relative to the slice start) a call covers, zeros counted as the stream before time 0
\* (a call's window is [off/ch - tb, +n) for pcm_buf, computed from the contents where they are indexed)
WinLo(c, x) == IF x.arr = "P" THEN x.off \div c.ch - TB(c)
               ELSE IF x.arr = "T" THEN 0 - TB(c) - N4(c) ELSE 0 - EB(c)
WinHi(c, x) == WinLo(c, x) + x.n
\* inside a slice every CELT call that is not preceded by a CELT reset starts where the previous one ended
CeltChain(c, R) == \A i \in 2..Len(R.celt) : ~R.celt[i].rst => WinLo(c, R.celt[i]) = WinHi(c, R.celt[i - 1])
\* the first CELT call of a slice that continues the CELT state of the previous slice starts at -total_buffer: exactly where
\* a previous slice whose CELT state is "live" ended (contiguity across slices and calls of different frame sizes)
FirstCeltAt(c, R) == R.celt # <<>> /\ ~R.celt[1].rst => WinLo(c, R.celt[1]) = 0 - TB(c)
\* where the CELT state stands after the slice, relative to the NEXT slice's start: -tb when the last call ended at
\* the end of the delayed frame (main frame or SILK->CELT redundancy)
CeltEndsAt(c, fs, R) == IF R.celt = <<>> THEN "none" ELSE
                        IF R.celt[Len(R.celt)].role = "red" /\ Len(R.celt) = 1 THEN "reset"      \* CELT->SILK: reset after (2301)
                        ELSE IF WinHi(c, R.celt[Len(R.celt)]) = fs - TB(c) THEN "live" ELSE "off"
SliceFailures(c, filled, fs, d, R) ==
  LET T == { <<"InBounds", InBounds(c, fs, R)>>, <<"DbAfter", DbAfter(c, filled, fs, R)>>, <<"SilkExact", SilkExact(c, filled, fs, R)>>,
             <<"SilkPrefillShape", SilkPrefillShape(c, filled, fs, R)>>, <<"CeltDelayed", CeltDelayed(c, filled, fs, R)>>,
             <<"CeltPrefillAbuts", CeltPrefillAbuts(c, filled, fs, d, R)>>, <<"RedWindows", RedWindows(c, filled, fs, d, R)>>,
             <<"CleanReads", CleanReads(R)>>, <<"CeltChain", CeltChain(c, R)>>, <<"FirstCeltAt", FirstCeltAt(c, R)>>,
             <<"CeltEnds", CeltEndsAt(c, fs, R) \notin {"none", "reset", "live"} => d.mode # MODE_SILK /\ d.cm = 0 /\ ~(d.red = 1 /\ d.c2s = 0)>>,
             \* a prefilled SILK slice always takes the whole-buffer copy: the ramp never survives in the delay buffer
             <<"RampOverwritten", d.mode # MODE_CELT /\ d.pf > 0 => ~R.mv>> }
  IN {t[1] : t \in {x \in T : ~x[2]}}
SliceTheorems(c, filled, fs, d, R) == SliceFailures(c, filled, fs, d, R) = {}

\* the reported look-ahead is the CELT path's input delay plus CELT's own 2.5 ms (and the 5 ms redundant frame is
\* two of those: what the decoder cross-fades, DecOp!F5 = 2 * DecOp!F2_5 at the decoder's rate)
LookaheadExact(c) == Lookahead(c) = TB(c) + N4(c) /\ N2(c) = 2 * N4(c) /\ 200 * N2(c) = c.Fs /\ 250 * DC(c) = c.Fs /\ 100 * EB(c) = c.Fs

\* OPUS_RESET_STATE clears delay_buffer (it lies after OPUS_ENCODER_RESET_START) and prev_mode: reset == fresh
InitDb(c) == Canon(c, 0)
=============================================================================
