--------------------------- MODULE EncDelayTrace ---------------------------
(* Stateful validation of recorded encoder executions (harness/encdelay.c) against the EncDelay machine.              *)
(* The cursor carries the model's configuration tc and fill level tf (the delay buffer is canonical: Canon(tc, tf)).  *)
(* Every event is judged twice:                                                                                      *)
(*  prop   clauses one of the listed properties states (a failure is a VIOLATION of that property):                   *)
(*    C11  OPUS_GET_LOOKAHEAD returns Lookahead(c) = Fs/400 (+ Fs/250 unless RESTRICTED_LOWDELAY) at creation,        *)
(*         after every ctl and after every encode call: the value itself, constant over the object's life             *)
(*    C02  an encode call with a sane buffer (>= 3 bytes) succeeds                                                    *)
(*    C05  the canaries around the packet buffer are intact (sanitizer aborts are reported by the runner)             *)
(*    C12  OPUS_RESET_STATE leaves the delay buffer all zero, prev_mode = 0, first = 1 (reset == fresh for this state; *)
(*         the calls after it are replayed from the model's initial state like those of a fresh encoder)              *)
(*  drift  conformance to the machine (SPEC-DRIFT): SOME decision record per slice makes EncDelay!Slice produce        *)
(*         exactly the recorded layer calls - kind, role, prefill flag, length, pointer (offset inside delay_buffer;   *)
(*         offsets relative to the slice's pcm_buf; tmp_prefill outside pcm_buf) - and every recorded buffer lies in   *)
(*         the filtered stream exactly where the model's window says (lag), the SILK prefill buffer has the model's    *)
(*         zero / ramp / clean-tail shape, and the delay buffer after the call equals the last encoder_buffer samples  *)
(*         of the filtered stream.  This is the index-level half of the look-ahead contract (C04 / C11).              *)
EXTENDS EncDelay, Json, IOUtils, TLC
VARIABLES tl, tc, tf, ts, tq

tvars == <<tl, tc, tf, ts, tq>>
Tr == ndJsonDeserialize(IOEnv.TRACE)
NEv == Len(Tr)
Names(pairs) == {p[1] : p \in {x \in pairs : ~x[2]}}

\* observed call: <<kind, role, region, offset, n, prefillFlag, lag, ambiguous, leadingZeros, tailMatch, scaled>>
ObsRole(o) == IF o[1] = 0 THEN (IF o[2] = 0 THEN {"main"} ELSE {"prefill"})
              ELSE IF o[2] = 0 THEN {"main"} ELSE IF o[2] = 1 THEN {"prefill", "prefill2"} ELSE {"red"}

MatchCall(c, x, o, b, i, nb, efs, filled, strict, fadedT, clean) ==
  LET expLag == c.ch * ((nb - i) * efs - WinLo(c, x)) IN
  /\ (x.k = "silk") = (o[1] = 0)
  /\ x.role \in ObsRole(o)
  /\ o[5] = x.n /\ o[6] = x.pf
  /\ CASE x.arr = "D" -> o[3] = 0 /\ o[4] = x.off
       [] x.arr = "P" -> o[3] = 1 /\ o[4] = b + x.off
       [] x.arr = "T" -> o[3] = 1 /\ (o[4] + N4(c) * c.ch <= b \/ o[4] >= b + (TB(c) + efs) * c.ch)
  /\ CASE x.k = "silk" /\ x.role = "main" -> o[7] = expLag /\ o[11] = 0
       [] x.k = "silk" /\ x.role = "prefill" ->
            /\ o[9] >= c.ch * (EB(c) - DC(c) - N4(c)) /\ (filled = EB(c) => o[9] = c.ch * (EB(c) - DC(c) - N4(c)))
            /\ (clean => o[10] >= DC(c) * c.ch)
       [] x.arr = "T" -> o[8] = 1 \/ o[7] = expLag \/ (o[7] = 0 - 1 /\ (fadedT \/ ~clean))
       [] OTHER -> o[8] = 1 \/ o[7] = expLag \/ (o[7] = 0 - 1 /\ ~(strict /\ x.n >= 2 * N4(c)))

FirstP(R) == LET PS == {j \in 1..Len(R.calls) : R.calls[j].arr = "P"} IN IF PS = {} THEN 0 ELSE CHOOSE j \in PS : \A k \in PS : j <= k

\* the (kind, role) signature of a slice's calls, straight from the decision record (a cheap filter before Slice is evaluated)
Sig(d) ==
  LET doTp == d.mode # MODE_SILK /\ d.mode # d.prev /\ d.prev > 0 IN
     (IF d.mode # MODE_CELT /\ d.pf > 0 THEN << <<0, 1>> >> ELSE <<>>) \o (IF d.mode # MODE_CELT THEN << <<0, 0>> >> ELSE <<>>)
  \o (IF d.red = 1 /\ d.c2s = 1 THEN << <<1, 2>> >> ELSE <<>>) \o (IF doTp THEN << <<1, 1>> >> ELSE <<>>)
  \o (IF d.mode # MODE_SILK /\ d.cm = 1 THEN << <<1, 0>> >> ELSE <<>>)
  \o (IF d.red = 1 /\ d.c2s = 0 THEN << <<1, 1>>, <<1, 2>> >> ELSE <<>>)
SigFits(d, obs, pos, last) ==
  LET g == Sig(d) IN
  /\ pos + Len(g) <= Len(obs) /\ (last => pos + Len(g) = Len(obs))
  /\ \A j \in 1..Len(g) : obs[pos + j][1] = g[j][1] /\ obs[pos + j][2] = g[j][2]

MatchSlice(c, filled, R, d, efs, obs, pos, i, nb, strict, clean) ==
  LET L == Len(R.calls)
      jp == FirstP(R)
  IN /\ pos + L <= Len(obs)
     /\ (i = nb - 1 => pos + L = Len(obs))
     /\ LET b == IF jp = 0 \/ pos + jp > Len(obs) THEN 0 ELSE obs[pos + jp][4] - R.calls[jp].off IN
        \A j \in 1..L : MatchCall(c, R.calls[j], obs[pos + j], b, i, nb, efs, filled, strict, d.mode # MODE_CELT /\ d.pf > 0, clean)

RECURSIVE MatchFrom(_, _, _, _, _, _, _, _, _, _, _)
MatchFrom(c, filled, mode, prev0, efs, nb, i, obs, pos, strict, clean) ==
  IF i = nb THEN pos = Len(obs)
  ELSE \E d \in {x \in Decisions : x.mode = mode /\ (i = 0 => x.prev = prev0) /\ SigFits(x, obs, pos, i = nb - 1)} :
         \E R \in {Slice(c, Canon(c, filled), d, efs)} :
           /\ MatchSlice(c, filled, R, d, efs, obs, pos, i, nb, strict, clean)
           /\ MatchFrom(c, Min(filled + efs, EB(c)), mode, prev0, efs, nb, i + 1, obs, pos + Len(R.calls), strict, clean)

JudgeEnc(c, e, filled, clean) ==
  LET low   == e.calls = <<>>
      mode  == e.post[1]
      legal == mode \in {MODE_SILK, MODE_HYB, MODE_CELT} /\ e.fs \in FrameSizes(c)
      efs   == IF legal THEN EncFrameSize(c, e.fs, mode) ELSE 1
      nb    == IF legal THEN NbFrames(c, e.fs, mode) ELSE 1
      \* the harness rebuilds the filtered stream H from what SILK's main call is handed, or - in CELT-only frames - from
      \* pcm_buf as CELT sees it, i.e. after stereo_fade: H is the true stream only when no stereo narrowing was in effect
      \* (sn).  `clean` says that the last encoder_buffer samples of H were true before this call.
      sn     == c.ch = 1 \/ (e.fade[2] = 16384 /\ e.fade[4] = 16384 /\ e.fade[5] = 16384)
      cleanCall == mode # MODE_CELT \/ sn
      cleanAfter == IF low \/ e.r <= 0 THEN clean ELSE cleanCall /\ (e.fs >= EB(c) \/ clean)
      \* a CELT window must be located (bit-exactly, or mono up to one gain) in single-slice calls on a clean history
      strict == nb = 1 /\ sn /\ clean /\ (c.ch = 1 \/ (e.fade[1] = 1 /\ e.fade[3] = 1))
      prop == Names({
         <<"C02.EncodeSucceeds", e.mx < 3 \/ e.r > 0>>,
         <<"C11.LookaheadGetter", e.la = Lookahead(c)>>,
         <<"C05.PacketCanary", e.can = 1>> })
      drift == Names({
         <<"LayerCalls", low \/ e.r <= 0 \/ (legal /\ e.ovf = 0 /\ MatchFrom(c, filled, mode, e.pre[2], efs, nb, 0, e.calls, 0, strict, clean))>>,
         <<"DelayBufferHoldsLastInput", cleanAfter => e.dbm = 0>>,
         <<"SlicesTile", ~legal \/ SlicesTile(c, e.fs, mode)>> })
      oc(j) == e.calls[j]
      nc == Len(e.calls)
      tags == (IF low THEN {"low"} ELSE {"normal"})
         \cup (IF ~low /\ nb > 1 THEN {"multi"} ELSE {})
         \cup (IF ~low /\ efs + TB(c) < EB(c) THEN {"moveBranch"} ELSE {"copyBranch"})
         \cup (IF ~low /\ filled < EB(c) THEN {"filling"} ELSE {})
         \cup (IF \E j \in 1..nc : oc(j)[1] = 0 /\ oc(j)[2] = 1 THEN {"silkPrefill"} ELSE {})
         \cup (IF \E j \in 1..nc : oc(j)[1] = 0 /\ oc(j)[6] = 2 THEN {"bwSwitchPrefill"} ELSE {})
         \cup (IF \E j \in 1..nc : oc(j)[1] = 1 /\ oc(j)[2] = 1 /\ j < nc /\ oc(j + 1)[1] = 1 /\ oc(j + 1)[2] = 0 THEN {"celtPrefill"} ELSE {})
         \cup (IF \E j \in 2..nc : oc(j)[1] = 1 /\ oc(j)[2] = 2 /\ oc(j - 1)[1] = 1 /\ oc(j - 1)[2] = 1 THEN {"s2cRed"} ELSE {})
         \cup (IF \E j \in 1..nc : oc(j)[1] = 1 /\ oc(j)[2] = 2 /\ (j = 1 \/ oc(j - 1)[1] = 0) THEN {"c2sRed"} ELSE {})
         \cup (IF \E j \in 1..nc : oc(j)[1] = 1 /\ oc(j)[2] = 0 /\ oc(j)[7] > 0 /\ oc(j)[11] = 0 THEN {"celtWindowExact"} ELSE {})
         \cup (IF \E j \in 1..nc : oc(j)[1] = 1 /\ oc(j)[2] = 0 /\ oc(j)[7] > 0 /\ oc(j)[11] = 1 THEN {"celtWindowScaled"} ELSE {})
         \cup (IF mode = MODE_SILK THEN {"silk"} ELSE IF mode = MODE_HYB THEN {"hybrid"} ELSE {"celt"})
  IN [prop |-> prop, drift |-> drift, tags |-> tags \cup (IF cleanAfter /\ ~low THEN {"delayBufferCompared"} ELSE {}), clean |-> cleanAfter,
      filled |-> IF low \/ e.r <= 0 THEN filled ELSE Min(filled + e.fs, EB(c))]

-----------------------------------------------------------------------------
Init == /\ tl = 1 /\ tc = [Fs |-> 48000, ch |-> 1, app |-> APP_AUDIO] /\ tf = 0 /\ ts = {} /\ tq = TRUE

Report(kind, names) == PrintT("REJ " \o ToString(<<tl, kind, names>>))
Finish(s) == IF tl = NEv THEN PrintT("SEEN " \o ToString(s)) ELSE TRUE

Step ==
  /\ tl <= NEv
  /\ LET e == Tr[tl] IN
     CASE e.k = "new" ->
            LET c == [Fs |-> e.Fs, ch |-> e.ch, app |-> e.app] IN
            /\ tc' = c /\ tf' = 0 /\ tq' = TRUE
            /\ (IF c \notin Configs \/ e.eb # EB(c) \/ e.dc # DC(c) \/ e.dz # 1 \/ e.st[2] # 0 THEN Report("drift", {"InitialState"}) ELSE TRUE)
            /\ (IF c \in Configs /\ e.la # Lookahead(c) THEN Report("prop", {"C11.LookaheadGetter"}) ELSE TRUE)
            /\ ts' = ts \cup {"new"} /\ Finish(ts')
       [] e.k = "ctl" ->
            LET isrs == e.rq = "rs" /\ e.r = 0 IN
            /\ tf' = IF isrs THEN 0 ELSE tf
            /\ tq' = (isrs \/ tq)
            /\ UNCHANGED tc
            /\ (IF e.la # Lookahead(tc) THEN Report("prop", {"C11.LookaheadGetter"}) ELSE TRUE)
            /\ (IF isrs /\ (e.dz # 1 \/ e.st[2] # 0 \/ e.st[3] # 1) THEN Report("prop", {"C12.ResetIsFresh"}) ELSE TRUE)
            /\ ts' = ts \cup (IF isrs THEN {"reset"} ELSE {}) /\ Finish(ts')
       [] e.k = "enc" ->
            \E v \in {JudgeEnc(tc, e, tf, tq)} :
              /\ tf' = v.filled /\ tq' = v.clean /\ UNCHANGED tc
              /\ (IF v.prop # {} THEN Report("prop", v.prop) ELSE TRUE)
              /\ (IF v.drift # {} THEN Report("drift", v.drift) ELSE TRUE)
              /\ ts' = ts \cup v.tags /\ Finish(ts')
       [] OTHER -> UNCHANGED <<tc, tf, ts, tq>> /\ Finish(ts)
  /\ tl' = tl + 1

Spec == Init /\ [][Step]_tvars

Accepted == LET n == TLCGet("stats").diameter IN
            IF n - 1 = NEv THEN TRUE ELSE PrintT(<<"REJECTED_AT", n>>) /\ FALSE
=============================================================================
