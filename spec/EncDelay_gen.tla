--------------------------- MODULE EncDelay_gen ---------------------------
(* Behaviour generation for G16: every sequence of Depth calls (frame size in 2.5 ms units, forced layer) that is      *)
(* legal for the configuration - frame-size changes between calls included (2.5 ms after 120 ms and vice versa).       *)
EXTENDS EncDelay, TLC
CONSTANTS CfgSet, Depth, QGen
VARIABLES c, hist

CfgAll == Configs
CfgQuick == {x \in Configs : x.Fs \in {8000, 16000, 48000}}
ModesFor(cc, q) == IF cc.app = APP_LOWDELAY \/ q < 4 THEN {MODE_CELT} ELSE {MODE_SILK, MODE_HYB, MODE_CELT}
Init == c \in CfgSet /\ hist = <<>>
Next == /\ Len(hist) < Depth
        /\ \E q \in QGen : \E m \in ModesFor(c, q) : hist' = Append(hist, <<q, m>>)
        /\ c' = c
Emit == Len(hist) = Depth => PrintT("SCHED " \o ToString(<<<<c.Fs, c.ch, c.app>>, hist>>))
=============================================================================
