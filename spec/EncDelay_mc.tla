--------------------------- MODULE EncDelay_mc ---------------------------
(* Closed exploration of the EncDelay machine: every configuration (Fs x channels x application), every legal      *)
(* frame size per call, every layer, every decision record per slice, resets at any call boundary - call          *)
(* sequences of any length (the state after every slice is canonical, so the graph closes).                          *)
EXTENDS EncDelay, TLC
CONSTANTS CfgSet
VARIABLES c, filled, db, job, bad, cst

vars == <<c, filled, db, job, bad, cst>>
Idle == [fs |-> 0, mode |-> 0, efs |-> 0, nb |-> 0, i |-> 0]
CfgAll == Configs
CfgQuick == {x \in Configs : x.Fs \in {8000, 48000}}

Init == /\ c \in CfgSet /\ filled = 0 /\ db = InitDb(c) /\ job = Idle /\ bad = {} /\ cst = "fresh"

ModesFor(cc, fs) == IF cc.app = APP_LOWDELAY \/ fs < EB(cc) THEN {MODE_CELT} ELSE {MODE_SILK, MODE_HYB, MODE_CELT}

Start == /\ job.nb = 0
         /\ \E fs \in FrameSizes(c) : \E m \in ModesFor(c, fs) :
              /\ job' = [fs |-> fs, mode |-> m, efs |-> EncFrameSize(c, fs, m), nb |-> NbFrames(c, fs, m), i |-> 0]
              /\ bad' = (IF SlicesTile(c, fs, m) THEN {} ELSE {"SlicesTile"}) \cup (IF EncFrameSize(c, fs, m) \in SliceSizes(c, m) THEN {} ELSE {"SliceSizes"})
         /\ UNCHANGED <<c, filled, db, cst>>

Step == /\ job.nb > 0
        /\ \E d \in Decisions :
             /\ d.mode = job.mode
             /\ LET R == Slice(c, db, d, job.efs) IN
                /\ bad' = SliceFailures(c, filled, job.efs, d, R)
                /\ db' = R.db
                /\ cst' = CeltEndsAt(c, job.efs, R)
        /\ filled' = Min(filled + job.efs, EB(c))
        /\ job' = IF job.i + 1 = job.nb THEN Idle ELSE [job EXCEPT !.i = job.i + 1]
        /\ c' = c

\* OPUS_RESET_STATE between calls: the delay buffer is cleared with everything after OPUS_ENCODER_RESET_START
Reset == /\ job.nb = 0 /\ filled > 0
         /\ db' = InitDb(c) /\ filled' = 0 /\ cst' = "fresh" /\ bad' = {}
         /\ UNCHANGED <<c, job>>

Next == Start \/ Step \/ Reset

\* G11 (AnalysisRing) owns the analysis ring; its EncFrame is the slice size used here (tonality_get_info per slice)
AR == INSTANCE AnalysisRing WITH CountMax <- 10000, DS <- 100
AgreesWithG11 == \A Fs \in AR!FsSet : \A q \in QS : \A so \in BOOLEAN :
                   LET cc == [Fs |-> Fs, ch |-> 1, app |-> APP_AUDIO] fs == q * N4(cc) IN
                   (so => fs >= EB(cc)) =>
                   AR!EncFrame(fs, Fs, so) = EncFrameSize(cc, fs, IF so THEN MODE_SILK ELSE MODE_CELT)
ASSUME AgreesWithG11

Theorems == /\ bad = {}
            /\ DeclOK(c) /\ LookaheadExact(c)
            /\ db = Canon(c, filled)                         \* at every slice boundary, for every history
            /\ (filled = 0 => db = InitDb(c))                \* Reset == fresh for this state (C12)
=============================================================================
