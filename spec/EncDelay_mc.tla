--------------------------- MODULE EncDelay_mc ---------------------------
(* Closed exploration of the EncDelay machine: every configuration (Fs x channels x application), every legal      *)
(* frame size per call, every layer, every decision record per slice, resets at any call boundary - call          *)
(* sequences of any length (the state after every slice is canonical, so the graph closes).                          *)
EXTENDS EncDelay, TLC
CONSTANTS CfgSet
VARIABLES c, filled, db, job, ok, cst

vars == <<c, filled, db, job, ok, cst>>
Idle == [fs |-> 0, mode |-> 0, efs |-> 0, nb |-> 0, i |-> 0]
CfgAll == Configs
CfgQuick == {x \in Configs : x.Fs \in {8000, 16000, 48000}}

Init == /\ c \in CfgSet /\ filled = 0 /\ db = InitDb(c) /\ job = Idle /\ ok = TRUE /\ cst = "fresh"

ModesFor(cc, fs) == IF cc.app = APP_LOWDELAY \/ fs < EB(cc) THEN {MODE_CELT} ELSE {MODE_SILK, MODE_HYB, MODE_CELT}

Start == /\ job.nb = 0
         /\ \E fs \in FrameSizes(c) : \E m \in ModesFor(c, fs) :
              /\ job' = [fs |-> fs, mode |-> m, efs |-> EncFrameSize(c, fs, m), nb |-> NbFrames(c, fs, m), i |-> 0]
              /\ ok' = (SlicesTile(c, fs, m) /\ EncFrameSize(c, fs, m) \in SliceSizes(c, m))
         /\ UNCHANGED <<c, filled, db, cst>>

Step == /\ job.nb > 0
        /\ \E d \in Decisions :
             /\ d.mode = job.mode
             /\ LET R == Slice(c, db, d, job.efs) IN
                /\ ok' = SliceTheorems(c, filled, job.efs, d, R)
                /\ db' = R.db
                /\ cst' = CeltEndsAt(c, job.efs, R)
        /\ filled' = Min(filled + job.efs, EB(c))
        /\ job' = IF job.i + 1 = job.nb THEN Idle ELSE [job EXCEPT !.i = job.i + 1]
        /\ c' = c

\* OPUS_RESET_STATE between calls: the delay buffer is cleared with everything after OPUS_ENCODER_RESET_START
Reset == /\ job.nb = 0 /\ filled > 0
         /\ db' = InitDb(c) /\ filled' = 0 /\ cst' = "fresh" /\ ok' = TRUE
         /\ UNCHANGED <<c, job>>

Next == Start \/ Step \/ Reset

Theorems == /\ ok
            /\ DeclOK(c) /\ LookaheadExact(c)
            /\ db = Canon(c, filled)                         \* at every slice boundary, for every history
            /\ (filled = 0 => db = InitDb(c))                \* Reset == fresh for this state (C12)
=============================================================================
