------------------------------- MODULE EncMode -------------------------------
(***************************************************************************)
(* G01 - the encoder's mode / bandwidth / channel-count decision machine    *)
(* and its transition discipline: the control state machine inside          *)
(* opus_encode_native() / opus_encode_frame_native() of src/opus_encoder.c, *)
(* together with the decoder's side of the redundancy/transition handshake  *)
(* (opus_decode_frame() of src/opus_decoder.c).                             *)
(*                                                                         *)
(* The machine is NONDETERMINISTIC where the code's choice depends on the   *)
(* signal or on tuned thresholds (which layer the heuristics prefer, the    *)
(* rate-dependent stereo decision, the automatic audio bandwidth, SILK's    *)
(* "ready to switch the internal rate" flag, whether a frame ends up as a   *)
(* DTX frame, whether the byte budget lets a redundant frame through) and   *)
(* EXACT where the code is rule-driven.  Every rule carries its source line *)
(* (src/opus_encoder.c of the pinned tree unless another file is named).    *)
(*                                                                         *)
(*   S   settings record of module EncCtl (only the fields read here)       *)
(*   M   machine state = the read-only projection opus_verif_encoder_peek   *)
(*       exposes: mode(0) prevMode(1) sch(2) prevCh(3) bw(4) first(5)       *)
(*       toMono(7) pfq(10, in 2.5 ms units) bwSwitch(15) canSwitch(19)      *)
(*       swReady(20)                                                        *)
(*   I   per-call input classes [q, low, one, belowT, rateLow, lfe]:        *)
(*       q frame duration in 2.5 ms units, the rest are exact integer       *)
(*       predicates of (bitrate, max_data_bytes, q) defined below           *)
(*   h   the nondeterministic choices of one call                            *)
(*       [wc, sc, bw, sw, kinds, drops]                                      *)
(* Durations are in units of 2.5 ms (q \in {1,2,4,8,16,24,32,40,48}), so     *)
(* frame_rate = Fs/frame_size = 400 \div q for every supported Fs.           *)
(***************************************************************************)
EXTENDS EncCtl

QSet == {1, 2, 4, 8, 16, 24, 32, 40, 48}

-----------------------------------------------------------------------------
(* Machine state.                                                          *)
\* opus_encoder_init(): lines 255-277 (everything else is zeroed by OPUS_CLEAR, line 213)
MInit(ch) == [mode |-> MODE_HYBRID, prevMode |-> 0, sch |-> ch, prevCh |-> 0, bw |-> BW_FB, first |-> 1,
              bwSwitch |-> 0, toMono |-> 0, canSwitch |-> 0, swReady |-> 0, pfq |-> 0]
\* OPUS_RESET_STATE, lines 3061-3087: clears from stream_channels on (line 106) and re-initialises
\* stream_channels, first, mode, bandwidth; silk_mode (toMono, opusCanSwitch, switchReady) lies before
\* OPUS_ENCODER_RESET_START and silk_InitEncoder() is given a dummy control struct, so these three survive
MReset(M, ch) == [MInit(ch) EXCEPT !.toMono = M.toMono, !.canSwitch = M.canSwitch, !.swReady = M.swReady]

MTypeOK(M, ch) ==
  /\ M.mode \in ModeSet /\ M.prevMode \in {0} \cup ModeSet /\ M.sch \in 1..ch /\ M.prevCh \in 0..ch
  /\ M.bw \in BwSet /\ M.first \in {0, 1} /\ M.bwSwitch \in {0, 1} /\ M.toMono \in {0, 1}
  /\ M.canSwitch \in {0, 1} /\ M.swReady \in {0, 1} /\ M.pfq \in {0} \cup QSet

-----------------------------------------------------------------------------
(* Exact budget arithmetic (all intermediates < 2^31, R6).                 *)
FrameRate(q) == 400 \div q                 \* Fs/frame_size, line 1251
Fr12(q) == 4800 \div q                     \* 12*Fs/frame_size, line 1255 (exact for every q in QSet)
\* line 1258: bitrate_bps = cbr_bytes*frame_rate12*8/12; the smallest (and only) cbr_bytes with that image
CbrBytes(br, q) == LET a == 8 * Fr12(q) IN (12 * br + a - 1) \div a
\* max_data_bytes as the decisions see it: line 1154 (VBR) / lines 1257-1260 (CBR); br = st->bitrate_bps after the call
MdbEff(vbr, mdbArg, br, q) == IF vbr = 1 THEN Min(1276, mdbArg) ELSE Max(1, CbrBytes(br, q))
\* lines 1267-1268: too little room - emit a TOC-only ("PLC") packet and leave the machine alone
LowBudget(mdb, br, q) ==
  LET fr == FrameRate(q) IN mdb < 3 \/ br < 3 * fr * 8 \/ (fr < 50 /\ (mdb * fr < 300 \/ br < 2400))
\* line 1450: max_data_bytes below 6 kb/s (9 kb/s for frames under 20 ms) forces the MDCT layer in automatic mode
BelowT(mdb, q) == mdb < ((IF FrameRate(q) > 50 THEN 9000 ELSE 6000) * q) \div 3200
\* lines 1334, 1557: max_rate < 15000 keeps SILK/hybrid out of the hybrid bandwidths
RateLow(mdb, q) == FrameRate(q) * mdb * 8 < 15000
\* lines 1179-1197 (float build): the activity analysis can run
AnalysisMayRun(S) == S.complexity >= 7 /\ S.Fs >= 16000

\* compute_redundancy_bytes(), lines 1081-1107: bytes offered to a 5 ms redundant frame; 0 = not worth it.
\* fr = Fs/frame_size of the frame, ch = stream channels.  (C truncates towards zero: with avail < 0 the cap is at
\* most base/8 <= 4+8*ch, hence 0 without evaluating the quotient.)
RedBytes(mdb, br, fr, ch) ==
  LET base  == 40 * ch + 20
      rb1   == ((3 * (br + base * (200 - fr))) \div 2) \div 1600
      avail == mdb * 8 - 2 * base
  IN IF avail < 0 THEN 0
     ELSE LET cap == ((avail * 240) \div (240 + 48000 \div fr) + base) \div 8
              rb2 == Min(rb1, cap)
          IN IF rb2 > 4 + 8 * ch THEN Min(257, rb2) ELSE 0

-----------------------------------------------------------------------------
(* Packet structure.                                                       *)
\* line 1616: more than 20 ms outside SILK-only, or more than 60 ms, is coded as several frames
Multi(q, mode) == (q > 8 /\ mode # MODE_SILK) \/ q > 24
\* lines 1631-1641
EncQ(q, mode) == IF ~Multi(q, mode) THEN q
                 ELSE IF mode = MODE_SILK THEN (IF q = 32 THEN 16 ELSE IF q = 48 THEN 24 ELSE 8) ELSE 8
NbFr(q, mode) == q \div EncQ(q, mode)

\* the byte budget (curr_max, TOC included) of each frame of a packet: lines 1658-1701 and 1747.  sz = payload bytes of
\* the frames as they left the repacketizer (0 = DTX frame), out = the caller's buffer size, ubr = the user's bitrate
FrameBudgets(vbr, ubr, out, br, q, encq, nf, sz, mdb) ==
  IF nf = 1 THEN <<mdb>>
  ELSE LET repLen == IF vbr = 1 \/ ubr = OPUS_BITRATE_MAX THEN out ELSE Min(CbrBytes(br, q), out)      \* 1660-1665
           mls    == nf + repLen - (IF nf = 2 THEN 3 ELSE 2 + (nf - 1) * 2)                            \* 1658, 1666
           per    == Min((3 * br) \div (9600 \div encq), mls \div nf)                                   \* 1694
           RECURSIVE go(_, _, _)
           go(i, tot, acc) ==
             IF i > nf THEN acc
             ELSE LET cm   == Min(Min(mls - tot, per), 1276)                                          \* 1699-1701
                      \* what the frame call returned: 1 for a DTX frame, the padded budget under CBR (line 2498)
                      used == IF sz[i] = 0 THEN 1 ELSE IF vbr = 1 THEN sz[i] + 1 ELSE cm
                  IN go(i + 1, tot + used, Append(acc, cm))
       IN go(1, 0, <<>>)

-----------------------------------------------------------------------------
(* Which layer: lines 1393-1460.  hw = what the heuristics (lines 1416-1446) *)
(* would like; it is consulted only in automatic mode with enough room.      *)
WantCelt(S, I, hw) ==
  LET w0 == IF S.application = APP_LOWDELAY THEN TRUE                     \* line 1394
            ELSE IF S.forcedMode = OPUS_AUTO THEN (IF I.belowT THEN TRUE ELSE hw)   \* lines 1397-1451
            ELSE S.forcedMode = MODE_CELT                                  \* line 1453
  IN w0 \/ I.q < 4 \/ I.lfe = 1                                            \* lines 1457-1460

(* Audio bandwidth envelope: lines 1504-1604.  celt = st->mode is CELT-only  *)
(* at that point.  The automatic choice (a tuned, rate-dependent table) is   *)
(* free among NB/WB/SWB/FB - "we don't use mediumband anymore", line 1541 -  *)
(* and is only re-evaluated in CELT-only mode, on the first frame, or when   *)
(* SILK allows (not observable: both are admitted); everything after it is   *)
(* a rule.                                                                   *)
BwSetOf(M, S, I, celt) ==
  LET nyq   == NyquistBw(S.Fs)
      auto  == {BW_NB, BW_WB, BW_SWB, BW_FB}
      s1    == IF celt \/ M.first = 1 THEN auto ELSE auto \cup {M.bw}                       \* 1505-1548
      s2    == {Min(x, S.maxBandwidth) : x \in s1}                                           \* 1550
      s3    == IF S.userBandwidth # OPUS_AUTO THEN {S.userBandwidth} ELSE s2                \* 1553
      s4    == IF ~celt /\ I.rateLow THEN {Min(x, BW_WB) : x \in s3} ELSE s3                \* 1557
      s5    == {Min(x, nyq) : x \in s4}                                                      \* 1564-1571
      \* 1574-1594: the detected bandwidth may lower it; never below wideband in SILK/hybrid
      s6    == IF S.userBandwidth = OPUS_AUTO /\ AnalysisMayRun(S)
               THEN UNION {{y \in BW_NB..x : celt \/ y >= Min(x, BW_WB)} : x \in s5} ELSE s5
      \* 1596, decide_fec() lines 875-906: with FEC and more than 5 % loss the bandwidth may be lowered
      s7    == IF S.fec # 0 /\ S.lossPerc > 5 /\ ~celt THEN UNION {BW_NB..x : x \in s6} ELSE s6
      s8    == {IF celt /\ x = BW_MB THEN BW_WB ELSE x : x \in s7}                          \* 1601
  IN IF I.lfe = 1 THEN {BW_NB} ELSE s8                                                        \* 1603

-----------------------------------------------------------------------------
(* One coded frame: opus_encode_frame_native(), lines 1763-2509.            *)
(* K = what the call decided: [mode, sch, red0, c2s0, toCelt, encq, nf,      *)
(*     kinds, drops, sw]; r = running [prevMode, prevCh, first, pfq,         *)
(*     bwSwitch, outs]; i = 1..nf.                                           *)
(* kinds[i]: "c" coded (also the "busted budget" fallback, line 2432),       *)
(*           "g" dropped by the generalised DTX after coding (line 2418),    *)
(*           "s" SILK produced nothing (its own DTX, line 2117).             *)
(* drops: frames whose redundant frame does not fit the budget (lines        *)
(*        1846-1848, 2128-2129, or the check of line 2218).                  *)
FrameStep(r, i, K) ==
  LET last    == i = K.nf
      fToCelt == K.toCelt /\ last                                   \* line 1691
      fRed    == K.red0 /\ (fToCelt \/ (~K.toCelt /\ i = 1))        \* line 1692
      \* lines 1830-1837: first frame at a new SILK bandwidth
      r1      == IF r.bwSwitch = 1 THEN TRUE ELSE fRed
      c1      == IF r.bwSwitch = 1 THEN TRUE ELSE K.c2s0
      nonCelt == K.mode # MODE_CELT
      r2      == nonCelt /\ r1                                      \* line 1841
      cs      == nonCelt /\ last /\ K.sw = 1                        \* lines 2115, 2126: SILK is ready, Opus may switch
      drop    == i \in K.drops
      r4      == IF cs THEN ~drop ELSE r2 /\ ~drop                  \* lines 2128-2129 / 1844-1849, 2218-2244
      c4      == IF cs THEN FALSE ELSE c1                           \* line 2130
  IN IF K.kinds[i] = "s"
     THEN \* line 2117-2123: returns before the state update; silk_bw_switch was consumed at line 1834
          [r EXCEPT !.bwSwitch = 0, !.outs = Append(@, [red |-> FALSE, c2s |-> FALSE, kind |-> "s"])]
     ELSE [prevMode |-> IF fToCelt THEN MODE_CELT ELSE K.mode,      \* lines 2405-2408
           prevCh   |-> K.sch,                                      \* line 2409
           pfq      |-> K.encq,                                     \* line 2410
           first    |-> 0,                                          \* line 2412
           bwSwitch |-> IF cs /\ r4 THEN 1 ELSE 0,                  \* lines 2131, 2246-2250
           outs     |-> Append(r.outs, [red |-> r4, c2s |-> r4 /\ c4, kind |-> K.kinds[i]])]

RECURSIVE Frames(_, _, _)
Frames(r, i, K) == IF i > K.nf THEN r ELSE Frames(FrameStep(r, i, K), i + 1, K)

-----------------------------------------------------------------------------
(* One encode call on the normal path: lines 1334-1760.                    *)
(* h = [wc |-> the heuristics prefer the MDCT layer, sc |-> rate-dependent   *)
(*      channel count, bw |-> resulting bandwidth (must lie in BwSetOf),     *)
(*      sw |-> SILK's switchReady after the last frame, kinds, drops]        *)
CallDecision(M, S, I, h) ==
  LET wc2    == WantCelt(S, I, h.wc)
      pm     == M.prevMode
      swi    == pm > 0 /\ (wc2 # (pm = MODE_CELT))                 \* lines 1462-1464
      toCelt == swi /\ wc2 /\ I.q >= 4                             \* lines 1468-1475: SILK/hybrid -> CELT is delayed
      red0   == swi /\ (~wc2 \/ I.q >= 4)                          \* lines 1466, 1476
      c2s0   == swi /\ ~wc2                                        \* line 1467
      celt   == wc2 /\ ~toCelt                                     \* st->mode after line 1479
      sc0    == IF S.forceChannels # OPUS_AUTO /\ S.channels = 2 THEN S.forceChannels   \* line 1355
                ELSE IF S.channels = 2 THEN h.sc ELSE 1                                  \* lines 1367-1378
      \* lines 1483-1491: stereo -> mono inside the SILK family is delayed by one call
      tm     == sc0 = 1 /\ M.prevCh = 2 /\ M.toMono = 0 /\ ~celt /\ pm # MODE_CELT
      sch    == IF tm THEN 2 ELSE sc0
      \* lines 1610-1613: hybrid <=> SILK family above wideband
      mode   == IF celt THEN MODE_CELT ELSE IF h.bw > BW_WB THEN MODE_HYBRID ELSE MODE_SILK
  IN [celt |-> celt, toCelt |-> toCelt, red0 |-> red0, c2s0 |-> c2s0, tm |-> tm, sch |-> sch, mode |-> mode,
      prefill |-> ~celt /\ pm = MODE_CELT,                          \* lines 1497-1502
      bwOK |-> h.bw \in BwSetOf(M, S, I, celt)]

Call(M, S, I, h) ==
  LET d     == CallDecision(M, S, I, h)
      multi == Multi(I.q, d.mode)
      K     == [mode |-> d.mode, sch |-> d.sch, red0 |-> d.red0, c2s0 |-> d.c2s0, toCelt |-> d.toCelt,
                encq |-> EncQ(I.q, d.mode), nf |-> NbFr(I.q, d.mode), kinds |-> h.kinds, drops |-> h.drops,
                sw |-> h.sw]
      \* lines 1674-1676: a multi-frame packet that is not in the delayed stereo->mono step records the channel
      \* count before its first frame
      r0    == [prevMode |-> M.prevMode, prevCh |-> IF multi /\ ~d.tm THEN d.sch ELSE M.prevCh, first |-> M.first,
                pfq |-> M.pfq, bwSwitch |-> M.bwSwitch, outs |-> <<>>]
      fit   == Len(h.kinds) = K.nf             \* (records are built eagerly: never walk kinds past its end)
      rN    == IF fit THEN Frames(r0, 1, K) ELSE r0
      silk  == d.mode # MODE_CELT            \* silk_Encode ran (line 2094): it rewrites switchReady, line 2115 opusCanSwitch
  IN [ok |-> d.bwOK /\ fit
             /\ \A i \in 1..(IF fit THEN K.nf ELSE 0) : /\ h.kinds[i] = "s" => (silk /\ S.dtx = 1)                  \* line 1388
                                   /\ h.kinds[i] = "g" => (S.dtx = 1 /\ AnalysisMayRun(S)),    \* line 2416
      M  |-> [mode |-> d.mode, prevMode |-> rN.prevMode, sch |-> d.sch, prevCh |-> rN.prevCh, bw |-> h.bw,
              first |-> rN.first, bwSwitch |-> rN.bwSwitch,
              toMono |-> IF d.tm THEN 1 ELSE 0,                        \* lines 1487/1490, 1743
              canSwitch |-> IF silk THEN h.sw ELSE M.canSwitch, swReady |-> IF silk THEN h.sw ELSE M.swReady,
              pfq |-> rN.pfq],
      pk |-> [low |-> FALSE, mode |-> d.mode, bw |-> h.bw, ch |-> d.sch, fq |-> K.encq, nf |-> K.nf],
      frames |-> rN.outs, d |-> d]

-----------------------------------------------------------------------------
(* The TOC-only low-budget path: lines 1270-1333.  Reuses the mode, the     *)
(* bandwidth and the channel count of the previous call; changes nothing.   *)
LowPacket(M, q, one) ==
  LET fr   == FrameRate(q)
      m0   == IF M.mode = 0 THEN MODE_SILK ELSE M.mode              \* 1276
      m1   == IF fr > 100 THEN MODE_CELT ELSE m0                    \* 1278
      long == fr <= 16                                              \* 1288
      toS  == long /\ (one \/ (m1 = MODE_SILK /\ fr # 10))          \* 1291
      m2   == IF toS THEN MODE_SILK ELSE m1
      fq   == IF fr = 25 /\ m1 # MODE_SILK THEN 8                   \* 1281: 40 ms -> 2 x 20 ms
              ELSE IF ~long THEN q
              ELSE IF toS THEN (IF fr = 12 THEN 16 ELSE 24)         \* 1296
              ELSE 8                                                \* 1300-1302
      nf   == IF fr = 25 /\ m1 # MODE_SILK THEN 2
              ELSE IF ~long THEN 1
              ELSE IF toS THEN (IF fr <= 12 THEN 2 ELSE 1)          \* 1295
              ELSE 50 \div fr
      code == IF fr = 25 /\ m1 # MODE_SILK THEN 1
              ELSE IF ~long THEN 0
              ELSE IF toS THEN (IF fr <= 12 THEN 1 ELSE 0) ELSE 3
      b0   == IF M.bw = 0 THEN BW_NB ELSE M.bw                      \* 1272
      bw   == IF m2 = MODE_SILK /\ b0 > BW_WB THEN BW_WB            \* 1306
              ELSE IF m2 = MODE_CELT /\ b0 = BW_MB THEN BW_NB       \* 1308
              ELSE IF m2 = MODE_HYBRID /\ b0 <= BW_SWB THEN BW_SWB  \* 1310
              ELSE b0
  IN [low |-> TRUE, mode |-> m2, bw |-> bw, ch |-> M.sch, fq |-> fq, nf |-> nf, code |-> code]

-----------------------------------------------------------------------------
(* The decoder's side: opus_decode_frame(), src/opus_decoder.c.  D = [prev,  *)
(* pred] (prev_mode, prev_redundancy).  A frame of at most one payload byte  *)
(* is concealed (line 306); otherwise the frame carries (red, c2s) as the    *)
(* decoder reads them (lines 477-506).                                       *)
DInit == [prev |-> 0, pred |-> FALSE]
DecFrame(D, mode, size, red, c2s) ==
  IF size <= 1
  THEN LET m == IF D.pred THEN MODE_CELT ELSE D.prev IN            \* line 324
       IF m = 0 THEN [D |-> D, tr |-> FALSE, red |-> FALSE, plc |-> TRUE]          \* lines 327-334
       ELSE [D |-> [prev |-> m, pred |-> FALSE], tr |-> FALSE, red |-> FALSE, plc |-> TRUE]   \* lines 677-678
  ELSE LET tr0 == D.prev > 0 /\ ( (mode = MODE_CELT /\ D.prev # MODE_CELT /\ ~D.pred)
                               \/ (mode # MODE_CELT /\ D.prev = MODE_CELT) )        \* lines 368-371
       IN [D |-> [prev |-> mode, pred |-> red /\ ~c2s],                            \* lines 677-678
           tr |-> tr0 /\ ~red,                                                      \* lines 510-514
           red |-> red, plc |-> FALSE]
\* the decoder discards its MDCT state before decoding (line 578): the layer changed and no redundant frame bridged it
DecCeltReset(D, mode) == mode # MODE_SILK /\ mode # D.prev /\ D.prev > 0 /\ ~D.pred
\* the encoder does the same (line 2337; redundant frames reset it too, lines 2302, 2373)
EncCeltReset(prevMode, mode) == mode # MODE_SILK /\ mode # prevMode /\ prevMode > 0
\* the layer the decoder believes coded the previous frame
DecEff(D) == IF D.pred THEN MODE_CELT ELSE D.prev

-----------------------------------------------------------------------------
(* What the ENCODER decided about (redundancy, celt_to_silk) for frame i of  *)
(* nf, inferred from peeks only: pre = machine state before the call, post   *)
(* after it, tocMode the packet's layer.  Returns the set of admissible      *)
(* (red, c2s) pairs: a singleton wherever the code's decision is observable. *)
(* This is the handshake clause (property C02: encoder and decoder in        *)
(* lock-step): what the decoder reads must be one of these.                  *)
EncHandshake(pre, post, tocMode, i, nf, size) ==
  LET none == {<<FALSE, FALSE>>} IN
  IF size <= 1 \/ tocMode = MODE_CELT THEN none                     \* nothing reaches the decoder / line 1841
  ELSE IF i = nf /\ post.canSwitch = 1
       THEN IF post.bwSwitch = 1 THEN {<<TRUE, FALSE>>} ELSE none   \* lines 2126-2132, 2246-2250
  ELSE IF i = 1 /\ pre.bwSwitch = 1 THEN none \cup {<<TRUE, TRUE>>}                 \* lines 1830-1837
  ELSE IF i = 1 /\ pre.prevMode = MODE_CELT THEN none \cup {<<TRUE, TRUE>>}         \* lines 1466-1467, 1692
  ELSE IF i = nf /\ post.prevMode = MODE_CELT /\ pre.prevMode \in {MODE_SILK, MODE_HYBRID}
       THEN none \cup {<<TRUE, FALSE>>}                                              \* lines 1473-1474, 1691-1692
  ELSE none
=============================================================================
