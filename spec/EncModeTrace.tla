---------------------------- MODULE EncModeTrace ----------------------------
(***************************************************************************)
(* Stateful validation of recorded encoder executions (harness/encmode.c)   *)
(* against the machine of module EncMode.  The cursor carries the MODEL's   *)
(* machine state tm and decoder state td from event to event; every event    *)
(* is judged twice:                                                         *)
(*                                                                         *)
(*  prop   clauses that one of the listed properties states (a failure is a  *)
(*         VIOLATION of that property):                                      *)
(*    C02  the call succeeds (a one-byte buffer is refused only for 100 ms), *)
(*         the packet's announced duration is the submitted frame size, both *)
(*         decoders return exactly that duration, the encoder's final range  *)
(*         equals both decoders', and - the handshake - what the decoder     *)
(*         read for (redundancy, celt_to_silk) in EVERY frame is what the    *)
(*         encoder decided, as inferred from its peeks by EncMode!EncHandshake*)
(*    C11  the low-delay application and frames under 10 ms use the MDCT     *)
(*         layer only; a forced channel count is in effect from the third    *)
(*         audio packet after it was set (at once when set before the first  *)
(*         call) - all on packets that code audio.  tg = [started, age] is   *)
(*         EncCtl's ghost for that clause                                    *)
(*  drift  conformance to the machine (SPEC-DRIFT): the state before the     *)
(*         call is the model's; the call is the TOC-only path exactly when   *)
(*         the budget arithmetic says so and then reuses mode / bandwidth /  *)
(*         channels and writes nothing; otherwise SOME choice h of           *)
(*         EncMode!Call yields exactly the peeked state afterwards, the TOC, *)
(*         the frame structure and the per-frame redundancy decisions; the   *)
(*         decoder's (prev_mode, prev_redundancy, transition) follow         *)
(*         EncMode!DecFrame; ctl calls other than reset leave the machine    *)
(*         alone and reset is MReset.                                        *)
(*                                                                         *)
(* A rejected event is printed ("REJ ...") and validation resumes from the   *)
(* recorded state, so one pass reports every rejection.  `ts' collects the   *)
(* tags of the machine transitions the executions really took (vacuity       *)
(* guard, printed at the end as "SEEN ...").                                 *)
(***************************************************************************)
EXTENDS EncMode, Json, IOUtils, TLC
VARIABLES tl, tc, tm, td, ts, tg

tvars == <<tl, tc, tm, td, ts, tg>>
Tr == ndJsonDeserialize(IOEnv.TRACE)
NEv == Len(Tr)

\* peek vector (field f at index f+1) -> machine state
PeekM(p, Fs) == [mode |-> p[1], prevMode |-> p[2], sch |-> p[3], prevCh |-> p[4], bw |-> p[5], first |-> p[6],
                 toMono |-> p[8], bwSwitch |-> p[16], canSwitch |-> p[20], swReady |-> p[21],
                 pfq |-> (p[11] * 400) \div Fs]
B(x) == x = 1

SOfEv(c, e) == [application |-> c.app, Fs |-> c.Fs, channels |-> c.ch, forcedMode |-> e.fm, forceChannels |-> e.fc,
                userBandwidth |-> e.ubw, maxBandwidth |-> e.mxb, vbr |-> e.vbr, complexity |-> e.cx, dtx |-> e.dtx,
                fec |-> e.fec, lossPerc |-> e.loss]

Names(pairs) == {p[1] : p \in {x \in pairs : ~x[2]}}

-----------------------------------------------------------------------------
(* Candidate choices for one recorded call.                                *)
KindSeqs(sz, nf) ==
  LET opt(i) == IF sz[i] = 0 THEN {"g", "s"} ELSE {"c"} IN
  {ks \in [1..nf -> {"c", "g", "s"}] : \A i \in 1..nf : ks[i] \in opt(i)}

\* the decoder-visible part of a model frame
Vis(f, size) == <<f.red /\ size > 1, f.c2s /\ size > 1>>
DecSaw(dd) == <<B(dd[1]), B(dd[1]) /\ B(dd[2])>>

MachineAccepts(pre, post, S, I, e, nf) ==
  \E wc \in BOOLEAN, sc \in 1..S.channels, drops \in SUBSET {1, nf} :
    \E ks \in KindSeqs(e.sz, nf) :
      \E r \in {Call(pre, S, I, [wc |-> wc, sc |-> sc, bw |-> post.bw, sw |-> post.swReady,
                                  kinds |-> [i \in 1..nf |-> ks[i]], drops |-> drops])} :
        /\ r.ok /\ r.M = post /\ r.pk.nf = nf
        /\ \A i \in 1..nf : Vis(r.frames[i], e.sz[i]) = DecSaw(e.d2[i])

-----------------------------------------------------------------------------
(* Judging one encode event.  Returns [prop, drift, m, d, tags].            *)
JudgeEnc(c, e, m, d, g) ==
  LET S    == SOfEv(c, e)
      pre  == PeekM(e.pre, c.Fs)
      post == PeekM(e.post, c.Fs)
      br   == e.post[10]
      mdb  == MdbEff(e.vbr, e.mx, br, e.q)
      low  == LowBudget(mdb, br, e.q)
      I    == [q |-> e.q, belowT |-> BelowT(mdb, e.q), rateLow |-> RateLow(mdb, e.q), lfe |-> e.lfe]
      want == e.q * (c.Fs \div 400)                 \* submitted frame size in samples
  IN
  IF e.r <= 0
  THEN [prop  |-> Names({<<"C02.EncodeSucceeds", e.r = BUFFER_TOO_SMALL /\ e.mx = 1 /\ e.q = 40>>}),
        drift |-> Names({<<"PreIsModel", pre = m>>, <<"RefusalWritesNothing", post = pre>>}),
        m |-> post, d |-> d, tags |-> {"refused"}, audio |-> FALSE]
  ELSE
  LET nf    == e.nf
      tmode == TocMode(e.toc)
      audio == nf >= 1 /\ \E i \in 1..nf : e.sz[i] >= 2
      lastd == IF nf >= 1 THEN e.d2[nf] ELSE <<0, 0, 0, 0, 0, 0>>
      \* the decoder model fed with what the decoder itself read
      RECURSIVE DRun(_, _, _)
      DRun(dx, i, ok) == IF i > nf THEN [d |-> dx, ok |-> ok]
                         ELSE LET o == DecFrame(dx, tmode, e.sz[i], B(e.d2[i][1]), B(e.d2[i][2])) IN
                              DRun(o.D, i + 1, ok /\ (o.tr = B(e.d2[i][4])) /\ o.D.prev = e.d2[i][5] /\ (o.D.pred = B(e.d2[i][6]))
                                                     /\ (e.sz[i] <= 1 => e.d2[i][1] = 0))
      dr    == DRun(d, 1, TRUE)
      lp    == LowPacket(pre, e.q, e.mx = 1)
      prop  == Names({
         <<"C02.EncodeSucceeds", e.r >= 1 /\ e.r <= e.mx>>,
         <<"C02.PacketParses", nf >= 1>>,
         <<"C02.DurationIsFrameSize", nf >= 1 /\ nf * e.spf = want>>,
         <<"C02.DecoderDuration", nf >= 1 /\ e.d1n = want /\ e.d2n = nf * e.spf2>>,
         <<"C02.FinalRange", nf >= 1 /\ e.rngE = e.d1r /\ e.rngE = e.d2r>>,
         <<"C02.Handshake", nf >= 1 /\ \A i \in 1..nf : DecSaw(e.d2[i]) \in EncHandshake(pre, post, tmode, i, nf, e.sz[i])>>,
         <<"C11.LowDelayIsCelt", (audio /\ c.app = APP_LOWDELAY) => tmode = MODE_CELT>>,
         <<"C11.ShortFramesAreCelt", (audio /\ e.q < 4) => tmode = MODE_CELT>>,
         <<"C11.ForceTakesEffect", (audio /\ c.ch = 2 /\ e.fc # OPUS_AUTO /\ g.age >= 2) => TocChannels(e.toc) = e.fc>> })
      tocOK == IF low
               THEN /\ tmode = lp.mode /\ TocBandwidth(e.toc) = lp.bw /\ TocChannels(e.toc) = lp.ch
                    /\ nf = lp.nf /\ Dur48(e.toc) = 120 * lp.fq /\ (e.vbr = 1 => e.code = lp.code)     \* CBR: padded, hence code 3
                    /\ \A i \in 1..nf : e.sz[i] = 0
                    /\ LET base == IF lp.code <= 1 THEN 1 ELSE 2 IN
                       IF e.vbr = 1 THEN e.r = base ELSE e.r = Max(mdb, base)
               ELSE /\ tmode = post.mode /\ TocChannels(e.toc) = post.sch
                    /\ nf = NbFr(e.q, post.mode) /\ Dur48(e.toc) = 120 * EncQ(e.q, post.mode)
                    /\ IF tmode = MODE_SILK THEN TocBandwidth(e.toc) <= Min(BW_WB, NyquistBw(c.Fs))
                       ELSE TocBandwidth(e.toc) = post.bw
      \* a redundant frame the machine asks for is sent exactly when compute_redundancy_bytes() grants it room - unless
      \* the speech layer overran its share (line 2218), in which case the frame fills its budget (6 bytes of slack)
      cms   == FrameBudgets(e.vbr, e.ubr, e.mx, br, e.q, EncQ(e.q, post.mode), nf, e.sz, mdb)
      redRoomOK(i) ==
        LET cand == EncHandshake(pre, post, tmode, i, nf, e.sz[i])
            rb0  == RedBytes(cms[i], br, 400 \div EncQ(e.q, post.mode), post.sch)
        IN (Cardinality(cand) = 2) =>
             /\ (rb0 = 0 => DecSaw(e.d2[i]) = <<FALSE, FALSE>>)
             /\ (rb0 > 0 /\ DecSaw(e.d2[i]) = <<FALSE, FALSE>> => e.sz[i] + 1 >= cms[i] - 6)
      drift == Names({
         <<"RedundancyWhenRoom", low \/ nf # NbFr(e.q, post.mode) \/ \A i \in 1..nf : redRoomOK(i)>>,
         <<"PreIsModel", pre = m>>,
         <<"LowPathWritesNothing", low => post = pre>>,
         <<"TocFollowsMachine", nf >= 1 /\ tocOK>>,
         <<"MachineStep", low \/ (nf >= 1 /\ nf = NbFr(e.q, post.mode) /\ MachineAccepts(pre, post, S, I, e, nf))>>,
         <<"DecoderModel", nf >= 1 /\ dr.ok>>,
         <<"DecodersAgree", nf >= 1 /\ <<e.d1p[1], e.d1p[2], e.d1p[3], e.d1p[4], e.d1p[6], e.d1p[7]>> = lastd>> })
      hs(i) == DecSaw(e.d2[i])
      tags  == (IF low THEN {"low"} \cup (IF tmode # pre.mode THEN {"lowOverride"} ELSE {}) ELSE {"normal"})
         \cup (IF nf > 1 /\ ~low THEN {"multi"} ELSE {})
         \cup (IF tmode = MODE_SILK THEN {"silk"} ELSE IF tmode = MODE_HYBRID THEN {"hybrid"} ELSE {"celt"})
         \cup (IF ~low /\ pre.first = 1 /\ post.first = 0 THEN {"firstCleared"} ELSE {})
         \cup (IF ~low /\ nf >= 1 /\ pre.prevMode = MODE_CELT /\ tmode # MODE_CELT /\ e.sz[1] > 1
               THEN (IF hs(1) = <<TRUE, TRUE>> THEN {"c2sRed"} ELSE {"c2sDrop"}) ELSE {})
         \cup (IF ~low /\ nf >= 1 /\ post.prevMode = MODE_CELT /\ tmode # MODE_CELT /\ pre.prevMode \in {MODE_SILK, MODE_HYBRID} /\ e.sz[nf] > 1
               THEN (IF hs(nf) = <<TRUE, FALSE>> THEN {"toCeltRed"} \cup (IF nf > 1 THEN {"toCeltRedMultiLast"} ELSE {})
                     ELSE {"toCeltDrop"}) ELSE {})
         \cup (IF ~low /\ e.q < 4 /\ pre.prevMode \in {MODE_SILK, MODE_HYBRID} THEN {"shortSwitch"} ELSE {})
         \cup (IF ~low /\ post.bwSwitch = 1 THEN {"bwSwitchRed"} ELSE {})
         \cup (IF ~low /\ post.canSwitch = 1 /\ post.bwSwitch = 0 /\ tmode # MODE_CELT THEN {"bwSwitchNoRed"} ELSE {})
         \cup (IF ~low /\ nf >= 1 /\ pre.bwSwitch = 1 /\ hs(1) = <<TRUE, TRUE>> THEN {"bwSwitchPrefill"} ELSE {})
         \cup (IF ~low /\ post.toMono = 1 THEN {"toMono"} ELSE {})
         \cup (IF ~low /\ pre.toMono = 1 /\ post.sch = 1 THEN {"monoAfterToMono"} ELSE {})
         \cup (IF ~low /\ nf >= 1 /\ \E i \in 1..nf : e.sz[i] = 0 THEN {"dtxFrame"} ELSE {})
         \cup (IF nf >= 1 /\ \E i \in 1..nf : e.d2[i][4] = 1 THEN {"decTransition"} ELSE {})
         \cup (IF ~low /\ pre.prevMode # 0 /\ pre.sch = 2 /\ post.sch = 1 /\ tmode = MODE_CELT THEN {"monoInCelt"} ELSE {})
  IN [prop |-> prop, drift |-> drift, m |-> post,
      d |-> IF nf >= 1 THEN [prev |-> lastd[5], pred |-> B(lastd[6])] ELSE d,
      tags |-> tags \cup (IF audio /\ c.ch = 2 /\ e.fc # OPUS_AUTO /\ g.age >= 2 THEN {"forcedChannelsBind"} ELSE {}),
      audio |-> audio]

-----------------------------------------------------------------------------
G0 == [started |-> FALSE, age |-> 2]
Init == /\ tl = 1 /\ tc = [Fs |-> 48000, ch |-> 1, app |-> APP_AUDIO] /\ tm = MInit(1) /\ td = DInit /\ ts = {} /\ tg = G0

Report(kind, names) == PrintT("REJ " \o ToString(<<tl, kind, names>>))
Finish(s) == IF tl = NEv THEN PrintT("SEEN " \o ToString(s)) ELSE TRUE

Step ==
  /\ tl <= NEv
  /\ LET e == Tr[tl] IN
     CASE e.k = "new" ->
            LET c == [Fs |-> e.Fs, ch |-> e.ch, app |-> e.app] IN
            /\ tc' = c /\ tm' = PeekM(e.st, e.Fs) /\ td' = DInit /\ tg' = G0
            /\ (IF PeekM(e.st, e.Fs) # MInit(e.ch) THEN Report("drift", {"InitialState"}) ELSE TRUE)
            /\ ts' = ts \cup {"new"} /\ Finish(ts')
       [] e.k = "ctl" ->
            LET st == PeekM(e.st, tc.Fs)
                exp == IF e.rq = "rs" /\ e.r = OK THEN MReset(tm, tc.ch) ELSE tm IN
            /\ tm' = st /\ UNCHANGED <<tc, td>>
            \* EncCtl!EncGhostAfterSet / EncReset: a forced channel count set after the first call starts counting afresh
            /\ tg' = IF e.rq = "rs" /\ e.r = OK THEN G0
                     ELSE IF e.rq = "fc" /\ e.r = OK /\ tg.started THEN [tg EXCEPT !.age = 0] ELSE tg
            /\ (IF st # exp THEN Report("drift", {IF e.rq = "rs" THEN "ResetIsMReset" ELSE "CtlLeavesMachineAlone"}) ELSE TRUE)
            /\ ts' = ts \cup (IF e.rq = "rs" THEN {"reset"} ELSE {}) /\ Finish(ts')
       [] e.k = "enc" ->
            \E v \in {JudgeEnc(tc, e, tm, td, tg)} :
              /\ tm' = v.m /\ td' = v.d /\ UNCHANGED tc
              /\ tg' = [started |-> TRUE, age |-> IF v.audio THEN Min(2, tg.age + 1) ELSE tg.age]
              /\ (IF v.prop # {} THEN Report("prop", v.prop) ELSE TRUE)
              /\ (IF v.drift # {} THEN Report("drift", v.drift) ELSE TRUE)
              /\ ts' = ts \cup v.tags /\ Finish(ts')
       [] OTHER -> UNCHANGED <<tc, tm, td, ts, tg>> /\ Finish(ts)
  /\ tl' = tl + 1

Spec == Init /\ [][Step]_tvars

\* the whole trace was consumed
Accepted == LET n == TLCGet("stats").diameter IN
            IF n - 1 = NEv THEN TRUE ELSE PrintT(<<"REJECTED_AT", n>>) /\ FALSE
=============================================================================
