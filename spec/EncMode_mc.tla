----------------------------- MODULE EncMode_mc -----------------------------
(***************************************************************************)
(* Exhaustive exploration of the machine of module EncMode together with    *)
(* the decoder's side of the handshake, over abstract signal classes (the   *)
(* nondeterministic choices h of EncMode!Call) and arbitrary changes of the *)
(* settings between calls.  Three systems in one module (chosen by INIT /   *)
(* NEXT in the gc):                                                        *)
(*                                                                         *)
(*  InitM/NextM   the machine.  State = (gc, gm, gd); every call draws *)
(*                fresh settings from the sets FmSet x FcSet x QS x DtxSet   *)
(*                (= "any ctl may happen between two frames"), a budget      *)
(*                class, and every admissible h.  `last' records the step    *)
(*                for the step theorems (action property StepOK; VIEW drops  *)
(*                it).  The state graph is finite and closes.                *)
(*  InitR/NextR   the rule tables (WantCelt, BwSetOf, LowPacket) over their *)
(*                whole argument grid, one state per argument tuple.          *)
(*  InitGen/NextGen   behaviour generation: every schedule of at most Depth      *)
(*                settings changes over the alphabet GenOps is printed for   *)
(*                replay (audio is coded before the first and after each).   *)
(***************************************************************************)
EXTENDS EncMode, TLC
CONSTANTS Configs,     \* set of <<Fs, channels, application>>
          FmSet,       \* forced-mode values a call may see
          FcSet,       \* forced-channel values a call may see (clipped to the channel count)
          QS,          \* frame durations (2.5 ms units)
          DtxSet,      \* subset of {0, 1}
          AllowLow,    \* the TOC-only path may be taken
          AllowDrop,   \* a redundant frame may be dropped for lack of room
          AllowReset,  \* OPUS_RESET_STATE may be issued
          Depth, GenOps
VARIABLES gc, gm, gd, last, hist

vars == <<gc, gm, gd, last, hist>>
View == <<gc, [gm EXCEPT !.pfq = 0], gd>>       \* pfq (prev_framesize) is never read by the machine

CfgAll == FsSet \X {1, 2} \X Apps
CfgSix == {<<48000, 2, APP_AUDIO>>, <<48000, 1, APP_VOIP>>, <<16000, 2, APP_VOIP>>, <<12000, 1, APP_AUDIO>>,
           <<8000, 2, APP_AUDIO>>, <<24000, 2, APP_LOWDELAY>>}
CfgTwo == {<<48000, 2, APP_AUDIO>>, <<16000, 1, APP_VOIP>>}
CfgLD  == {<<48000, 2, APP_LOWDELAY>>}
CfgLDA == {<<48000, 2, APP_AUDIO>>, <<48000, 2, APP_LOWDELAY>>}
CfgOne == {<<48000, 2, APP_AUDIO>>}
CfgGenQ == {<<48000, 2, APP_AUDIO>>}
CfgGenT == {<<48000, 2, APP_AUDIO>>, <<16000, 1, APP_VOIP>>}
FmAll  == {OPUS_AUTO, MODE_SILK, MODE_HYBRID, MODE_CELT}
FmAuto == {OPUS_AUTO}
FmCelt == {MODE_CELT}
FmSilk == {MODE_SILK, MODE_HYBRID}
FcAll  == {OPUS_AUTO, 1, 2}
FcAuto == {OPUS_AUTO}
FcMono == {1}

SOf(c, fm, fc, dtx) ==
  [InitS(c[1], c[2], c[3]) EXCEPT !.forcedMode = fm, !.forceChannels = fc, !.dtx = dtx, !.complexity = 9]

-----------------------------------------------------------------------------
(* The machine.                                                            *)
None == [kind |-> "none"]
InitM == /\ gc \in Configs /\ gm = MInit(gc[2]) /\ gd = DInit /\ last = None /\ hist = <<>>

\* frame-kind patterns: all coded, all dropped by either DTX, only the first / only the last dropped
KindPatterns(nf, S, silk) ==
  LET ks == {"c"} \cup (IF S.dtx = 1 /\ silk THEN {"s"} ELSE {}) \cup (IF S.dtx = 1 /\ AnalysisMayRun(S) THEN {"g"} ELSE {})
      all(k) == [i \in 1..nf |-> k]
  IN {all(k) : k \in ks}
     \cup {[all("c") EXCEPT ![1] = k] : k \in ks} \cup {[all("c") EXCEPT ![nf] = k] : k \in ks}

\* feed the frames of a packet to the decoder model
RECURSIVE DecFrames(_, _, _, _, _)
DecFrames(d, mode, frames, i, acc) ==
  IF i > Len(frames) THEN [D |-> d, res |-> acc]
  ELSE LET f == frames[i]
           size == IF f.kind = "c" THEN 2 ELSE 0
           r == DecFrame(d, mode, size, f.red, f.c2s)
       IN DecFrames(r.D, mode, frames, i + 1, Append(acc, [tr |-> r.tr, red |-> r.red, plc |-> r.plc,
                                                          dreset |-> ~r.plc /\ DecCeltReset(d, mode),
                                                          \* the decoder sees the layer change at this frame ...
                                                          sw |-> ~r.plc /\ d.prev > 0 /\ ((mode = MODE_CELT) # (d.prev = MODE_CELT)),
                                                          \* ... after SILK -> CELT redundancy in the frame before
                                                          bridgedBefore |-> d.pred /\ mode = MODE_CELT]))

\* the choices that cannot matter are fixed (forced channels: sc; forced layer / short frame: wc; CELT-only: sw;
\* drops: only frames that can carry a redundant frame)
EncodeNormal ==
  \E fm \in FmSet, fc \in FcSet \cap ({OPUS_AUTO} \cup 1..gc[2]), q \in QS, dtx \in DtxSet :
    \E S \in {SOf(gc, fm, fc, dtx)}, I \in {[q |-> q, belowT |-> FALSE, rateLow |-> FALSE, lfe |-> 0]} :
      \E wc \in (IF fm # OPUS_AUTO \/ gc[3] = APP_LOWDELAY \/ q < 4 THEN {FALSE} ELSE BOOLEAN),
         sc \in (IF fc # OPUS_AUTO THEN {1} ELSE 1..gc[2]) :
        \E dd \in {CallDecision(gm, S, I, [wc |-> wc, sc |-> sc, bw |-> BW_NB])} :        \* everything but the bandwidth
          \E bw \in BwSetOf(gm, S, I, dd.celt) :
            \E mode \in {IF dd.celt THEN MODE_CELT ELSE IF bw > BW_WB THEN MODE_HYBRID ELSE MODE_SILK} :
              \E sw \in (IF mode = MODE_CELT THEN {0} ELSE {0, 1}), kinds \in KindPatterns(NbFr(q, mode), S, mode # MODE_CELT) :
                \E drops \in (IF ~AllowDrop \/ mode = MODE_CELT THEN {{}}
                              ELSE SUBSET ( (IF gm.bwSwitch = 1 \/ (dd.red0 /\ ~dd.toCelt) THEN {1} ELSE {})
                                            \cup (IF dd.toCelt \/ sw = 1 THEN {NbFr(q, mode)} ELSE {}) )) :
                 \E r \in {Call(gm, S, I, [wc |-> wc, sc |-> sc, bw |-> bw, sw |-> sw, kinds |-> kinds, drops |-> drops])} :
                  \E dr \in {DecFrames(gd, r.pk.mode, r.frames, 1, <<>>)} :
                    /\ r.ok
                    /\ gm' = r.M /\ gd' = dr.D
                    /\ last' = [kind |-> "enc", fm |-> fm, app |-> S.application, q |-> q, pre |-> gm, preD |-> gd, pk |-> r.pk,
                                frames |-> r.frames, dec |-> dr.res,
                                clean |-> (drops = {} /\ \A i \in 1..r.pk.nf : kinds[i] = "c")]
                    /\ UNCHANGED <<gc, hist>>

EncodeLow ==
  /\ AllowLow
  /\ \E q \in QS, one \in BOOLEAN :
       LET p == LowPacket(gm, q, one)
           fr == [i \in 1..p.nf |-> [red |-> FALSE, c2s |-> FALSE, kind |-> "t"]]
           dr == DecFrames(gd, p.mode, fr, 1, <<>>)
       IN /\ ~(one /\ q = 40)                       \* refused: line 1164
          /\ gm' = gm /\ gd' = dr.D
          /\ last' = [kind |-> "low", q |-> q, pre |-> gm, preD |-> gd, pk |-> p, dec |-> dr.res, one |-> one]
          /\ UNCHANGED <<gc, hist>>

ResetM == /\ AllowReset /\ gm' = MReset(gm, gc[2]) /\ last' = [kind |-> "reset", pre |-> gm]
          /\ UNCHANGED <<gc, gd, hist>>

NextM == EncodeNormal \/ EncodeLow \/ ResetM
SpecM == InitM /\ [][NextM]_vars

-----------------------------------------------------------------------------
(* Theorems about every step (action property; `last' describes the step).  *)
\* the relation between the encoder's prev_mode and the decoder's (prev_mode, prev_redundancy) that clean steps preserve
InStep(Mx, Dx) == \/ (Mx.prevMode = Dx.prev /\ ~Dx.pred)
                  \/ (Mx.prevMode = MODE_CELT /\ Dx.prev \in {MODE_SILK, MODE_HYBRID} /\ Dx.pred)      \* after the delayed switch
                  \/ (Mx.prevMode = Dx.prev /\ Dx.pred /\ Mx.bwSwitch = 1)                             \* SILK bandwidth switch
X1(e, Mn) == e.pre.bwSwitch = 1 /\ Mn.prevMode = MODE_CELT /\ e.pk.mode # MODE_CELT
StepTheorems(e, Mn, Dn) ==
  /\ MTypeOK(Mn, gc[2])
  /\ e.kind = "reset" =>
       (Mn.first = 1 /\ Mn.prevMode = 0 /\ Mn.mode = MODE_HYBRID /\ Mn.bw = BW_FB /\ Mn.bwSwitch = 0 /\ Mn.prevCh = 0)
  /\ e.kind = "low" =>
       /\ Mn = e.pre                                                    \* reuses, never writes
       /\ (e.q < 4 => e.pk.mode = MODE_CELT)                            \* short frames are MDCT even here
       /\ (e.q >= 4 /\ e.q <= 16 => e.pk.mode = e.pre.mode)             \* "TOC mode = mode recorded"
       /\ e.pk.nf * e.pk.fq = e.q                                       \* the announced duration is the submitted one
       /\ (e.pk.mode = MODE_HYBRID => (e.pk.bw >= BW_SWB /\ e.pk.fq \in {4, 8}))
       /\ (e.pk.mode = MODE_SILK => (e.pk.bw <= BW_WB /\ e.pk.fq \in {4, 8, 16, 24}))
       /\ (e.pk.mode = MODE_CELT => (e.pk.bw # BW_MB /\ e.pk.fq \in {1, 2, 4, 8}))
       /\ \A i \in 1..Len(e.dec) : e.dec[i].plc /\ ~e.dec[i].red
  /\ e.kind = "enc" =>
       LET nf == e.pk.nf  fs == e.frames  pm == e.pre.prevMode
           upd == \E i \in 1..nf : fs[i].kind # "s"
       IN
       /\ e.pk.mode = Mn.mode /\ e.pk.bw = Mn.bw /\ e.pk.ch = Mn.sch    \* TOC of packet k = state recorded for call k
       /\ e.pk.nf * e.pk.fq = e.q
       /\ (e.q < 4 => e.pk.mode = MODE_CELT)                            \* frames under 10 ms: MDCT only
       /\ (e.app = APP_LOWDELAY => e.pk.mode = MODE_CELT)     \* low-delay application: MDCT only
       /\ (e.pk.mode = MODE_HYBRID <=> (e.pk.mode # MODE_CELT /\ e.pk.bw >= BW_SWB))
       /\ (e.pk.mode = MODE_CELT => e.pk.bw # BW_MB)                    \* the MDCT layer never signals medium band
       /\ (e.pk.mode = MODE_HYBRID => e.pk.fq \in {4, 8})
       /\ (e.pk.mode = MODE_SILK => e.pk.fq \in {4, 8, 16, 24})
       /\ (e.pk.mode = MODE_CELT => e.pk.fq \in {1, 2, 4, 8})
       /\ e.pk.bw <= BwCap(e.pk.mode, NyquistBw(gc[1]))                \* (at 12 kHz the MDCT layer codes the medium-band limit as wideband)
       \* forced mode: CELT is honoured at the latest one call later, SILK/hybrid at once (10 ms and longer)
       /\ (e.fm = MODE_CELT => (e.pk.mode = MODE_CELT \/ (fs[nf].kind # "s" => Mn.prevMode = MODE_CELT)))
       /\ (e.fm \in {MODE_SILK, MODE_HYBRID} /\ e.q >= 4 /\ e.app # APP_LOWDELAY
             => e.pk.mode # MODE_CELT)
       \* prev_mode: the layer just used, or CELT after the delayed switch
       /\ (upd => Mn.prevMode \in {Mn.mode, MODE_CELT}) /\ (~upd => Mn.prevMode = pm)
       /\ (upd => Mn.first = 0) /\ (~upd => Mn.first = e.pre.first)
       /\ (upd /\ Mn.prevMode = MODE_CELT /\ Mn.mode # MODE_CELT => (pm \in {MODE_SILK, MODE_HYBRID} /\ e.q >= 4))
       \* a switch to/from CELT-only inside a multi-frame packet happens only at its ends: redundant frames ride
       \* on the first frame (CELT -> SILK, or the first frame at a new SILK bandwidth) or on the last one
       /\ \A i \in 1..nf : fs[i].red => (i = 1 \/ i = nf)
       /\ \A i \in 1..nf : (fs[i].red /\ fs[i].c2s) => i = 1
       /\ \A i \in 1..nf : (fs[i].red /\ ~fs[i].c2s) => i = nf
       /\ \A i \in 1..nf : fs[i].red => e.pk.mode # MODE_CELT
       \* silk_bw_switch is only ever left set by a last frame that carries SILK -> CELT redundancy
       /\ (Mn.bwSwitch = 1 => (Mn.canSwitch = 1 /\ Mn.mode # MODE_CELT /\ fs[nf].red /\ ~fs[nf].c2s))
       \* stereo -> mono inside the SILK family only through the toMono step
       /\ (pm \in {MODE_SILK, MODE_HYBRID} /\ e.pk.mode # MODE_CELT /\ e.pre.prevCh = 2 /\ e.pk.ch = 1 => e.pre.toMono = 1)
       /\ (Mn.toMono = 1 => (e.pk.ch = 2 /\ e.pk.mode # MODE_CELT))
       /\ (upd => Mn.prevCh = Mn.sch)
       \* what the decoder reads is what the encoder's peeks imply (the handshake clause is satisfiable and tight)
       /\ \A i \in 1..nf :
            LET size == IF fs[i].kind = "c" THEN 2 ELSE 0 IN
            <<fs[i].red /\ size > 1, fs[i].c2s /\ size > 1>> \in EncHandshake(e.pre, Mn, e.pk.mode, i, nf, size)
       \* the decoder never conceals-and-crossfades when a redundant frame bridges the switch
       /\ \A i \in 1..nf : e.dec[i].tr => ~e.dec[i].red
       \* no CELT <-> SILK/hybrid switch reaches the decoder bare: a redundant frame in this frame, one at the end of the
       \* frame before, or the decoder's own reset path (concealment cross-fade + MDCT reset)
       /\ \A i \in 1..nf : e.dec[i].sw => (e.dec[i].red \/ e.dec[i].bridgedBefore \/ e.dec[i].tr)
       \* lock-step of "which layer coded the previous frame": as long as nothing was dropped (no DTX frame, no
       \* redundant frame refused for lack of room, no TOC-only packet, no encoder reset), encoder and decoder agree,
       \* hence they discard their MDCT state at the same frames
       \* (corner X1, found by TLC: the delayed switch to CELT falls on the frame that consumes silk_bw_switch; that frame
       \*  carries CELT -> SILK redundancy, line 1833, so the decoder is not told and bridges the switch by concealment)
       /\ (InStep(e.pre, e.preD) /\ e.clean /\ ~X1(e, Mn) => InStep(Mn, Dn))
       \* hence both sides discard their MDCT state at the same frames - except in one corner TLC found: the frame after
       \* a SILK bandwidth switch (redundancy at its end, silk_bw_switch pending) is CELT-only of under 10 ms: the
       \* encoder resets its MDCT state (line 2337), the decoder sees prev_redundancy and does not (decoder line 578)
       \* (corner X3, found by TLC at depth 5: the delayed switch to CELT is revoked in favour of hybrid - the encoder resets
       \*  and prefills its MDCT state, line 2337, the decoder, having seen SILK -> CELT redundancy, keeps its own)
       /\ (InStep(e.pre, e.preD) /\ e.clean /\ nf = 1 /\ e.pre.bwSwitch = 0 /\ ~(e.preD.pred /\ e.pk.mode = MODE_HYBRID)
             => (EncCeltReset(pm, e.pk.mode) <=> e.dec[1].dreset))
       \* ... and then the decoder needs its concealment cross-fade only for the switch no redundancy can cover:
       \* into CELT-only with frames under 10 ms
       /\ (InStep(e.pre, e.preD) /\ e.clean => \A i \in 1..nf : e.dec[i].tr => (e.q < 4 /\ e.pk.mode = MODE_CELT))

StepOK == [][StepTheorems(last', gm', gd')]_vars

\* witness: without the "nothing dropped" premise the lock-step theorem fails (a delayed SILK -> CELT switch whose
\* redundant frame did not fit: the encoder believes CELT coded the previous frame, the decoder does not)
LockStepAlways == [][(last'.kind = "enc" /\ InStep(gm, gd) /\ \A i \in 1..last'.pk.nf : last'.frames[i].kind = "c")
                       => InStep(gm', gd')]_vars

ResetAgreeAlways == [][(last'.kind = "enc" /\ InStep(gm, gd) /\ last'.clean /\ last'.pk.nf = 1)
                         => (EncCeltReset(gm.prevMode, last'.pk.mode) <=> last'.dec[1].dreset)]_vars

\* vacuity guard: these must all be reachable (each invariant below must be VIOLATED in a witness run)
NoToCeltRed   == ~(last.kind = "enc" /\ last.frames[last.pk.nf].red /\ ~last.frames[last.pk.nf].c2s /\ gm.prevMode = MODE_CELT /\ last.pk.nf > 1)
NoC2sRed      == ~(last.kind = "enc" /\ last.frames[1].red /\ last.frames[1].c2s /\ last.pre.prevMode = MODE_CELT)
NoBwSwitchRed == ~(last.kind = "enc" /\ last.pre.bwSwitch = 1 /\ last.frames[1].red /\ last.frames[1].c2s /\ last.pre.prevMode # MODE_CELT)
NoToMono      == ~(last.kind = "enc" /\ gm.toMono = 1)
NoTransition  == ~(last.kind = "enc" /\ \E i \in 1..last.pk.nf : last.dec[i].tr)

-----------------------------------------------------------------------------
(* The rule tables, one state per argument tuple.                          *)
\* three families; the arguments a rule does not read are held fixed
RState(c, mode, bw, first, sch, fm, ubw, mxb, q, fec, cx, belowT, rateLow, lfe, one, fam) ==
  /\ gc = c /\ gd = DInit /\ hist = <<>>
  /\ gm = [MInit(c[2]) EXCEPT !.mode = mode, !.bw = bw, !.first = first, !.sch = sch]
  /\ last = [fam |-> fam,
             S |-> [InitS(c[1], c[2], c[3]) EXCEPT !.forcedMode = fm, !.userBandwidth = ubw, !.maxBandwidth = mxb,
                     !.fec = fec, !.lossPerc = 20 * fec, !.complexity = cx],
             I |-> [q |-> q, belowT |-> belowT, rateLow |-> rateLow, lfe |-> lfe], one |-> one]
InitR ==
  \/ \E Fs \in FsSet, bw \in BwSet, first \in {0, 1}, ubw \in {OPUS_AUTO} \cup BwSet, mxb \in BwSet, fec \in {0, 1},
        cx \in {5, 9}, rateLow \in BOOLEAN, lfe \in {0, 1} :
        RState(<<Fs, 1, APP_AUDIO>>, MODE_SILK, bw, first, 1, OPUS_AUTO, ubw, mxb, 8, fec, cx, FALSE, rateLow, lfe, FALSE, "bw")
  \/ \E app \in Apps, fm \in FmAll, q \in QS, belowT \in BOOLEAN, lfe \in {0, 1} :
        RState(<<48000, 1, app>>, MODE_SILK, BW_FB, 0, 1, fm, OPUS_AUTO, BW_FB, q, 0, 9, belowT, FALSE, lfe, FALSE, "want")
  \/ \E mode \in ModeSet, bw \in BwSet, sch \in {1, 2}, q \in QS, one \in BOOLEAN :
        RState(<<48000, 2, APP_AUDIO>>, mode, bw, 0, sch, OPUS_AUTO, OPUS_AUTO, BW_FB, q, 0, 9, FALSE, FALSE, 0, one, "low")
NextR == UNCHANGED vars

RuleTheorems ==
  LET S == last.S  I == last.I  nyq == NyquistBw(S.Fs) IN
  /\ last.fam = "bw" => \A celt \in BOOLEAN :
       LET bs == BwSetOf(gm, S, I, celt) IN
       /\ bs # {} /\ bs \subseteq BwSet
       /\ (I.lfe = 0 => \A b \in bs : b <= BwCap(IF celt THEN MODE_CELT ELSE MODE_SILK, nyq))       \* Nyquist
       /\ (celt => BW_MB \notin bs)
       \* a forced bandwidth is exact (below the Nyquist and low-rate caps) unless FEC may lower it
       /\ (S.userBandwidth # OPUS_AUTO /\ I.lfe = 0 /\ (S.fec = 0 \/ celt) =>
             bs = {BwCap(IF celt THEN MODE_CELT ELSE MODE_SILK,
                         Min(Min(S.userBandwidth, nyq), IF ~celt /\ I.rateLow THEN BW_WB ELSE BW_FB))})
       \* the maximum bandwidth binds the automatic choice
       /\ (S.userBandwidth = OPUS_AUTO /\ I.lfe = 0 /\ (celt \/ gm.first = 1) =>
             \A b \in bs : b <= BwCap(IF celt THEN MODE_CELT ELSE MODE_SILK, S.maxBandwidth))
       /\ (~celt /\ I.rateLow /\ I.lfe = 0 => \A b \in bs : b <= BW_WB)
  /\ last.fam = "want" => \A hw \in BOOLEAN :
       LET w == WantCelt(S, I, hw) IN
       /\ (S.application = APP_LOWDELAY \/ I.q < 4 \/ I.lfe = 1 => w)
       /\ (S.application # APP_LOWDELAY /\ I.q >= 4 /\ I.lfe = 0 /\ S.forcedMode # OPUS_AUTO => (w <=> S.forcedMode = MODE_CELT))
       /\ (S.application # APP_LOWDELAY /\ I.q >= 4 /\ I.lfe = 0 /\ S.forcedMode = OPUS_AUTO /\ ~I.belowT => (w <=> hw))
  /\ (last.fam = "low" /\ ~(last.one /\ I.q = 40)) =>
       LET p == LowPacket(gm, I.q, last.one) IN
       /\ p.nf * p.fq = I.q /\ p.ch = gm.sch
       /\ (p.code = 0 <=> p.nf = 1) /\ (p.code = 1 <=> p.nf = 2) /\ (p.code = 3 <=> p.nf > 2)
       /\ (p.mode = MODE_SILK => (p.fq \in {4, 8, 16, 24} /\ p.bw <= BW_WB))
       /\ (p.mode = MODE_HYBRID => (p.fq \in {4, 8} /\ p.bw >= BW_SWB))
       /\ (p.mode = MODE_CELT => (p.fq \in {1, 2, 4, 8} /\ p.bw # BW_MB))
       /\ (last.one => p.nf <= 2)                     \* a one-byte packet cannot carry a frame count

-----------------------------------------------------------------------------
(* Behaviour generation.                                                   *)
InitGen == /\ gc \in Configs /\ gm = MInit(gc[2]) /\ gd = DInit /\ last = None /\ hist = <<>>
Kind(op) == op[1]
\* a schedule is a sequence of settings changes; the replay codes a short run of audio before the first and after
\* every change (signal classes are drawn by the runner)
NextGen == /\ Len(hist) < Depth
           /\ \E op \in GenOps :
                /\ (hist # <<>> => Kind(hist[Len(hist)]) # Kind(op))      \* no two settings of a kind in a row
                /\ hist' = Append(hist, op)
           /\ UNCHANGED <<gc, gm, gd, last>>
EmitG == (Len(hist) = Depth) => PrintT("SCHED " \o ToString(<<gc, hist>>))

\* alphabets (gc files cannot hold tuples inside sets)
OpsQuick == {<<"fm", 1000>>, <<"fm", 1002>>, <<"fm", -1000>>, <<"fc", 1>>, <<"fc", -1000>>,
             <<"q", 2>>, <<"q", 8>>, <<"q", 24>>, <<"q", 48>>, <<"bud", 0>>, <<"bud", 1>>, <<"bud", 2>>,
             <<"rate", 12>>, <<"rate", 96>>, <<"rs", 0>>}
OpsThorough == OpsQuick \cup {<<"fm", 1001>>, <<"fc", 2>>, <<"q", 1>>, <<"q", 4>>, <<"q", 16>>, <<"q", 32>>, <<"q", 40>>,
                              <<"rate", 24>>, <<"rate", 40>>, <<"bw", 1101>>, <<"bw", 1103>>, <<"bw", 1105>>, <<"bw", -1000>>,
                              <<"dtx", 1>>, <<"cbr", 0>>}
=============================================================================
