------------------------------- MODULE Energy -------------------------------
(***************************************************************************)
(* Growth module G09: CELT band-energy quantisation and the energy state   *)
(* that encoder and decoder carry from frame to frame.                     *)
(*                                                                         *)
(* Code: celt/quant_bands.c  quant_coarse_energy, quant_coarse_energy_impl,*)
(*       unquant_coarse_energy, quant_fine_energy, unquant_fine_energy,    *)
(*       quant_energy_finalise, unquant_energy_finalise, loss_distortion;  *)
(*       celt/celt_decoder.c celt_decode_with_ec (energy state update,     *)
(*       recovery after loss), celt_decode_lost (noise-PLC decay);         *)
(*       celt/celt_encoder.c celt_encode_with_ec (energy state update,     *)
(*       energyError).                                                     *)
(*                                                                         *)
(* The model is the FIXED-POINT build: celt_glog is a 32-bit integer in    *)
(* Q24 (DB_SHIFT = 24), so every operator below is an exact integer        *)
(* function.  R6: TLC integers are 32 bit; 16x32 products are split into   *)
(* halves (Mul15), the decoder's 64-bit `prev` is kept in units of 2^9     *)
(* (it is always a multiple of 2^9 because q is a multiple of 2^24).       *)
(*                                                                         *)
(* Symbols are an explicit oracle: a coarse pass is judged given the       *)
(* ec_tell() seen before each symbol (the budget tiers 15/2/1/0 of         *)
(* FrameHdr depend on it) - tell evolves identically in ec_enc and ec_dec  *)
(* (C08/C17), so the mirror theorem quantifies over tell sequences.        *)
(*                                                                         *)
(* Named deviations of the code from the mirror (what the code does is     *)
(* modelled; the deviation is a predicate of the encoder run):             *)
(*   OneBitTierDeviation  budget - tell = 1: the encoder clamps qi only    *)
(*                        from above and continues with qi <= -2 while the *)
(*                        decoder reconstructs -1                          *)
(*                        (findings/OBS_g02_coarse_one_bit_tier.c)         *)
(*   UpperClampDeviation  the decoder saturates the coarse energy at +28,  *)
(*                        the encoder only at -28                          *)
(***************************************************************************)
EXTENDS FrameHdr

NB == NbEBands
QOne == 16777216                     \* 1.0 in Q24
QHalf == 8388608
E28 == 28 * QOne
E20 == 20 * QOne
E9 == 9 * QOne
E14 == 14 * QOne
MaxFineBits == 8
Milli == 16777                       \* GCONST(0.001f) = (int)(.5 + 0.001 * 2^24)

\* tables of celt/quant_bands.c (RFC 6716 values; the harness exports the tree's and EnergyTrace compares)
EMeansQ4 == <<103, 100, 92, 85, 81, 77, 72, 70, 78, 75, 73, 71, 78, 74, 69, 72, 70, 74, 76, 71, 60, 60, 60, 60, 60>>
PredCoef == <<29440, 26112, 21248, 16384>>
BetaCoef == <<30147, 22282, 12124, 6554>>
BetaIntra == 4915
SmallEnergyIcdf == <<2, 1, 0>>

EnCoef(intra, LM) == IF intra = 1 THEN 0 ELSE PredCoef[LM + 1]
EnBeta(intra, LM) == IF intra = 1 THEN BetaIntra ELSE BetaCoef[LM + 1]

AbsV(x) == IF x < 0 THEN 0 - x ELSE x
\* MULT16_32_Q15(a, b) = floor(a * b / 2^15), a in 0..32767, |b| <= 2^30 (both variants of fixed_generic.h agree)
Mul15(a, b) == LET bh == b \div 65536  bl == b % 65536 IN 2 * a * bh + (a * bl) \div 32768
Sext8(v) == ((v + 128) % 256) - 128
Sext16(v) == ((v + 32768) % 65536) - 32768
Wrap23(s) == ((s + 4194304) % 8388608) - 4194304
Idx(i, c) == i + c * NB + 1          \* oldEBands[i + c*nbEBands], 1-based

\* budget tier of a coarse-energy symbol (the same test in encoder and decoder)
EnTier(budget, tell) == IF budget - tell >= 15 THEN 15 ELSE IF budget - tell >= 2 THEN 2 ELSE IF budget - tell >= 1 THEN 1 ELSE 0

(***************************************************************************)
(* unquant_coarse_energy                                                   *)
(***************************************************************************)
\* one band/channel.  q = SHL32(qi, 24) wraps to sext8(qi) * 2^24; prev is 64 bit = pu * 2^9;
\* tmp = (opus_val32)(M + prev + q) is the low 32 bits (gcc), then saturated to +-28
DecStep(old, pu, qi, coef, beta) ==
  LET k == Sext8(qi)
      oc == Max(0 - E9, old)
      m == Mul15(coef, oc)
      sh == (m \div 512) + pu + k * 32768
      w == Wrap23(sh)
      t32 == IF w = 0 - 4194304 THEN 0 - E28 - 1 ELSE w * 512 + (m % 512)
  IN [new |-> Min(E28, Max(0 - E28, t32)), pu |-> pu + k * (32768 - beta), wrapped |-> (w # sh) \/ (k # qi)]

QiLegal(tier, qi) == CASE tier = 15 -> qi > 0 - 17000 /\ qi < 17000
                       [] tier = 2 -> qi \in {0 - 1, 0, 1}
                       [] tier = 1 -> qi \in {0 - 1, 0}
                       [] OTHER -> qi = 0 - 1

\* f: [C, LM, start, end, intra, budget]; syms: <<tell before, qi>> per band and channel in coding order
RECURSIVE DecCoarse(_, _, _, _)
DecCoarse(f, syms, k, s) ==
  IF k = (f.end - f.start) * f.C THEN s
  ELSE LET i == f.start + (k \div f.C)
           c == k % f.C
           tell == syms[k + 1][1]
           qi == syms[k + 1][2]
           d == DecStep(s.old[Idx(i, c)], s.pu[c + 1], qi, EnCoef(f.intra, f.LM), EnBeta(f.intra, f.LM))
       IN DecCoarse(f, syms, k + 1,
                    [old |-> [s.old EXCEPT ![Idx(i, c)] = d.new], pu |-> [s.pu EXCEPT ![c + 1] = d.pu],
                     legal |-> s.legal /\ QiLegal(EnTier(f.budget, tell), qi), wrapped |-> s.wrapped \/ d.wrapped])
DecCoarseRun(f, old, syms) == DecCoarse(f, syms, 0, [old |-> old, pu |-> <<0, 0>>, legal |-> TRUE, wrapped |-> FALSE])

(***************************************************************************)
(* quant_coarse_energy_impl                                                *)
(***************************************************************************)
MaxDecay(f) == IF f.lfe = 1 THEN 3 * QOne
               ELSE IF f.end - f.start > 10 THEN Min(128, f.nbAvail) * 2097152 ELSE 16 * QOne

EncDomain(x, old, prev) == AbsV(x) <= 32 * QOne /\ AbsV(old) <= 30 * QOne /\ AbsV(prev) <= 40 * QOne

\* one band/channel; tell = ec_tell(enc) before the symbol
EncStep(f, i, x, old, prev, tell) ==
  LET coef == EnCoef(f.intra, f.LM)
      beta == EnBeta(f.intra, f.LM)
      oc == Max(0 - E9, old)
      m == Mul15(coef, oc)
      fv == x - m - prev
      qa == (fv + QHalf) \div QOne                         \* rounding to nearest
      db == Max(0 - E28, old - MaxDecay(f))
      qb == IF qa < 0 /\ x < db THEN Min(0, qa + ((db - x) \div QOne)) ELSE qa
      bl == f.budget - tell - 3 * f.C * (f.end - i)
      q1 == IF i # f.start /\ bl < 30 /\ bl < 24 THEN Min(1, qb) ELSE qb
      qc == IF i # f.start /\ bl < 30 /\ bl < 16 THEN Max(0 - 1, q1) ELSE q1
      qd == IF f.lfe = 1 /\ i >= 2 THEN Min(qc, 0) ELSE qc
      tier == EnTier(f.budget, tell)
      pm == EProb[f.LM + 1][f.intra + 1]
      pi == 2 * Min(i, 20)
      qe == CASE tier = 15 -> LapEnc(pm[pi + 1] * 128, pm[pi + 2] * 64, qd)[3]
              [] tier = 2 -> Max(0 - 1, Min(qd, 1))
              [] tier = 1 -> Min(0, qd)
              [] OTHER -> 0 - 1
      q == qe * QOne
      tmp == (m + prev) + q
  IN [qi0 |-> qb, qpre |-> qd, qi |-> qe, tier |-> tier,
      coded |-> IF tier = 1 THEN (IF qe = 0 THEN 0 ELSE 0 - 1) ELSE qe,      \* what a decoder reconstructs from the symbol
      err |-> fv - q, new |-> Max(0 - E28, tmp), prev |-> prev + (q - beta * qe * 512),
      onebit |-> tier = 1 /\ qe < 0 - 1, hi |-> tmp > E28]

\* f: [C, LM, start, end, intra, budget, lfe, nbAvail]; eb: 2*NB energies; tells: ec_tell before each symbol
RECURSIVE EncCoarse(_, _, _, _, _)
EncCoarse(f, eb, tells, k, s) ==
  IF k = (f.end - f.start) * f.C \/ ~s.dom THEN s
  ELSE LET i == f.start + (k \div f.C)
           c == k % f.C
           j == Idx(i, c)
       IN IF ~EncDomain(eb[j], s.old[j], s.pv[c + 1]) THEN [s EXCEPT !.dom = FALSE]
          ELSE LET e == EncStep(f, i, eb[j], s.old[j], s.pv[c + 1], tells[k + 1])
               IN EncCoarse(f, eb, tells, k + 1,
                            [old |-> [s.old EXCEPT ![j] = e.new], err |-> [s.err EXCEPT ![j] = e.err],
                             pv |-> [s.pv EXCEPT ![c + 1] = e.prev], bad |-> s.bad + AbsV(e.qi0 - e.qi),
                             qs |-> Append(s.qs, <<e.tier, e.qpre, e.qi, e.coded>>),
                             onebit |-> s.onebit \/ e.onebit, hi |-> s.hi \/ e.hi, dom |-> TRUE])
EncCoarseRun(f, eb, old, err, tells) ==
  EncCoarse(f, eb, tells, 0, [old |-> old, err |-> err, pv |-> <<0, 0>>, bad |-> 0, qs |-> <<>>, onebit |-> FALSE, hi |-> FALSE, dom |-> TRUE])

OneBitTierDeviation(run) == run.onebit
UpperClampDeviation(run) == run.hi

\* quant_coarse_energy: which passes run (1 = intra, 0 = inter), in order
EncIntraFirst(f) == f.force = 1 \/ (f.twopass = 0 /\ f.dI > 2 * f.C * (f.end - f.start) /\ f.nbAvail > (f.end - f.start) * f.C)
EncPasses(f) ==
  LET starved == f.tell0 + 3 > f.budget
      intra == IF starved THEN FALSE ELSE EncIntraFirst(f)
      two == IF starved THEN FALSE ELSE f.twopass = 1
  IN (IF two \/ intra THEN <<1>> ELSE <<>>) \o (IF ~intra THEN <<0>> ELSE <<>>)
IntraFlagCoded(f) == f.tell0 + 3 <= f.budget

\* loss_distortion (Q7 differences truncated to 16 bits as MAC16_16 does) and the delayedIntra recursion
RECURSIVE LossDist(_, _, _, _, _, _)
LossDist(eb, old, k, n, f, acc) ==
  IF k = n THEN Min(200, acc \div 16384)
  ELSE LET i == f.start + (k % (f.effEnd - f.start))
           c == k \div (f.effEnd - f.start)
           d == Sext16((eb[Idx(i, c)] - old[Idx(i, c)] + 65536) \div 131072)
       IN LossDist(eb, old, k + 1, n, f, acc + d * d)
NewDistortion(f, eb, old) == IF f.effEnd <= f.start THEN 0 ELSE LossDist(eb, old, 0, (f.effEnd - f.start) * f.C, f, 0)
DelayedIntraNext(f, intra, nd) ==
  IF intra = 1 THEN nd ELSE Mul15((PredCoef[f.LM + 1] * PredCoef[f.LM + 1]) \div 32768, f.dI) + nd

(***************************************************************************)
(* fine energy and the final bits (encoder and decoder)                    *)
(***************************************************************************)
FineOffset(q2, fq) == (2 * q2 + 1) * P2(23 - fq) - QHalf         \* VSHR32(2*q2+1, fq-24+1) - .5
FinalOffset(q2, fq) == IF q2 = 1 THEN P2(22 - fq) ELSE 0 - P2(22 - fq)   \* SHR32((q2<<24) - .5, fq+1), exact
EncFineQ2(err, fq) == Max(0, Min(P2(fq) - 1, (err + QHalf) \div P2(24 - fq)))

\* the (band, channel) slots that carry fine bits, in coding order
RECURSIVE FineSlots(_, _, _)
FineSlots(f, fq, i) == IF i >= f.end THEN <<>>
                       ELSE (IF fq[i + 1] > 0 THEN [c \in 1..f.C |-> <<i, c - 1>>] ELSE <<>>) \o FineSlots(f, fq, i + 1)
\* the slots of the final pass given bits_left: priority 0 bands first, then priority 1, each while bits_left >= C
RECURSIVE FinalSlotsP(_, _, _, _, _, _)
FinalSlotsP(f, fq, prio, p, i, left) ==
  IF i >= f.end \/ left < f.C THEN [slots |-> <<>>, left |-> left]
  ELSE IF fq[i + 1] >= MaxFineBits \/ prio[i + 1] # p THEN FinalSlotsP(f, fq, prio, p, i + 1, left)
  ELSE LET r == FinalSlotsP(f, fq, prio, p, i + 1, left - f.C)
       IN [slots |-> [c \in 1..f.C |-> <<i, c - 1>>] \o r.slots, left |-> r.left]
FinalSlots(f, fq, prio, left) ==
  LET a == FinalSlotsP(f, fq, prio, 0, f.start, left)
      b == FinalSlotsP(f, fq, prio, 1, f.start, a.left)
  IN [slots |-> a.slots \o b.slots, left |-> b.left]

RECURSIVE ApplyOffsets(_, _, _, _, _)
\* add sign*offset(k) at slot k: old += off (sign 1) / error -= off (sign -1)
ApplyOffsets(arr, slots, offs, k, sign) ==
  IF k > Len(slots) THEN arr
  ELSE ApplyOffsets([arr EXCEPT ![Idx(slots[k][1], slots[k][2])] = @ + sign * offs[k]], slots, offs, k + 1, sign)

\* decoder: bits -> energies
DecFine(f, old, fq, bits) ==
  LET sl == FineSlots(f, fq, f.start)
  IN [old |-> ApplyOffsets(old, sl, [k \in 1..Len(sl) |-> FineOffset(bits[k], fq[sl[k][1] + 1])], 1, 1), n |-> Len(sl),
      nbits |-> [k \in 1..Len(sl) |-> fq[sl[k][1] + 1]]]
DecFinal(f, old, fq, prio, left, bits) ==
  LET r == FinalSlots(f, fq, prio, left)
      sl == r.slots
  IN [old |-> ApplyOffsets(old, sl, [k \in 1..Len(sl) |-> FinalOffset(bits[k], fq[sl[k][1] + 1])], 1, 1), n |-> Len(sl), left |-> r.left]

\* encoder: error -> bits, energies, error.  The final pass reads the error left by the bands before it: sequential.
RECURSIVE EncFineSeq(_, _, _, _, _)
EncFineSeq(s, sl, fq, k, final) ==
  IF k > Len(sl) THEN s
  ELSE LET j == Idx(sl[k][1], sl[k][2])
           fqi == fq[sl[k][1] + 1]
           q2 == IF final THEN (IF s.err[j] < 0 THEN 0 ELSE 1) ELSE EncFineQ2(s.err[j], fqi)
           off == IF final THEN FinalOffset(q2, fqi) ELSE FineOffset(q2, fqi)
       IN EncFineSeq([old |-> [s.old EXCEPT ![j] = @ + off], err |-> [s.err EXCEPT ![j] = @ - off], bits |-> Append(s.bits, q2)], sl, fq, k + 1, final)
EncFine(f, old, err, fq) == EncFineSeq([old |-> old, err |-> err, bits |-> <<>>], FineSlots(f, fq, f.start), fq, 1, FALSE)
EncFinal(f, old, err, fq, prio, left) ==
  LET r == FinalSlots(f, fq, prio, left)
      s == EncFineSeq([old |-> old, err |-> err, bits |-> <<>>], r.slots, fq, 1, TRUE)
  IN [old |-> s.old, err |-> s.err, bits |-> s.bits, left |-> r.left]

(***************************************************************************)
(* frame-to-frame state                                                    *)
(* decoder state: four arrays of 2*NB (oldEBands, oldLogE, oldLogE2,       *)
(* backgroundLogE), loss_duration, skip_plc                                *)
(***************************************************************************)
InBand(f, j) == LET i == (j - 1) % NB IN i >= f.start /\ i < f.end

\* celt_decode_with_ec before the header: a mono frame takes the louder of the two channels' memories
DecMonoFold(C, e) == IF C = 1 THEN [j \in 1..(2 * NB) |-> IF j <= NB THEN Max(e[j], e[j + NB]) ELSE e[j]] ELSE e

\* recovery after loss (no intra energy, loss_duration # 0): both channels, bands start..end-1
SafeOne(E0, E1, E2, missing, safety) ==
  (IF E0 < Max(E1, E2)
   THEN LET sl == Min(Max(E1 - E0, (E2 - E0) \div 2), 2 * QOne)
        IN Max(0 - E20, E0 - Max(0, (1 + missing) * sl))
   ELSE Min(Min(E0, E1), E2)) - safety
DecSafety(f, ld, e, l1, l2) ==
  IF f.intra = 1 \/ ld = 0 THEN e
  ELSE LET missing == Min(10, ld \div P2(f.LM))
           safety == IF f.LM = 0 THEN QOne + QHalf ELSE IF f.LM = 1 THEN QHalf ELSE 0
       IN [j \in 1..(2 * NB) |-> IF InBand(f, j) THEN SafeOne(e[j], l1[j], l2[j], missing, safety) ELSE e[j]]

\* after the final bits: silence, mono copy, history, background, clearing outside start..end, loss_duration := 0
DecUpdate(f, ld, e0, l1, l2, bg, transient, silence) ==
  LET e1 == IF silence THEN [j \in 1..(2 * NB) |-> IF j <= f.C * NB THEN 0 - E28 ELSE e0[j]] ELSE e0
      e2 == IF f.C = 1 THEN [j \in 1..(2 * NB) |-> IF j > NB THEN e1[j - NB] ELSE e1[j]] ELSE e1
      nl2 == IF transient THEN l2 ELSE l1
      nl1 == IF transient THEN [j \in 1..(2 * NB) |-> Min(l1[j], e2[j])] ELSE e2
      inc == Min(160, ld + P2(f.LM)) * Milli
      nbg == [j \in 1..(2 * NB) |-> Min(bg[j] + inc, e2[j])]
  IN [e |-> [j \in 1..(2 * NB) |-> IF InBand(f, j) THEN e2[j] ELSE 0],
      l1 |-> [j \in 1..(2 * NB) |-> IF InBand(f, j) THEN nl1[j] ELSE 0 - E28],
      l2 |-> [j \in 1..(2 * NB) |-> IF InBand(f, j) THEN nl2[j] ELSE 0 - E28],
      bg |-> nbg, ld |-> 0]
MaxBackgroundIncrease(ld, LM) == Min(160, ld + P2(LM)) * Milli

\* celt_decode_lost: works on all CCd channels of the decoder object (C = st->channels), not on the stream's channel count
NoiseBased(f, ld, skip) == ld >= 40 \/ f.start # 0 \/ skip # 0
DecLost(f, CCd, ld, skip, e, bg) ==
  LET decay == IF ld = 0 THEN QOne + QHalf ELSE QHalf
  IN [e |-> IF NoiseBased(f, ld, skip)
            THEN [j \in 1..(2 * NB) |-> IF InBand(f, j) /\ j <= CCd * NB THEN Max(bg[j], e[j] - decay) ELSE e[j]] ELSE e,
      ld |-> Min(10000, ld + P2(f.LM))]

\* encoder: arrays of CC*NB (oldBandE, oldLogE, oldLogE2, energyError)
EncUpdate(f, CC, e0, err, l1, l2, transient, silence) ==
  LET n == CC * NB
      e1 == IF silence THEN [j \in 1..n |-> IF j <= f.C * NB THEN 0 - E28 ELSE e0[j]] ELSE e0
      e2 == IF CC = 2 /\ f.C = 1 THEN [j \in 1..n |-> IF j > NB THEN e1[j - NB] ELSE e1[j]] ELSE e1
      nl2 == IF transient THEN l2 ELSE l1
      nl1 == IF transient THEN [j \in 1..n |-> Min(l1[j], e2[j])] ELSE e2
  IN [e |-> [j \in 1..n |-> IF InBand(f, j) THEN e2[j] ELSE 0],
      l1 |-> [j \in 1..n |-> IF InBand(f, j) THEN nl1[j] ELSE 0 - E28],
      l2 |-> [j \in 1..n |-> IF InBand(f, j) THEN nl2[j] ELSE 0 - E28],
      ee |-> [j \in 1..n |-> IF InBand(f, j) /\ j <= f.C * NB THEN Max(0 - QHalf, Min(QHalf, err[j])) ELSE 0]]

\* the range every stored energy stays in: coarse saturates at +-28, fine adds less than 1/2, the final bit less than 1/4;
\* the recovery rule stays above -20 - 1.5
StateLo == 0 - E28 - QHalf - 4194304
StateHi == E28 + QHalf + 4194304
InStateRange(v) == v >= StateLo /\ v <= StateHi
=============================================================================
