----------------------------- MODULE EnergyTrace -----------------------------
(***************************************************************************)
(* Judges what hx_energy recorded (IOEnv.TRACE, NDJSON).  Stateless: one   *)
(* initial state per recorded line (every line carries the state before    *)
(* and after the packet).                                                  *)
(*   tab    the static tables of celt/quant_bands.c of the tree under test *)
(*   pkt    one packet: the encoder's three energy calls (qc coarse with   *)
(*          every pass it tried, qf fine, qz final bits), the calls of the *)
(*          decoder that got the packet undamaged (uc, uf, uz), both final *)
(*          ranges, and for whole-codec runs the four energy arrays of the *)
(*          real encoder and decoder before and after the packet           *)
(*   decB   a second decoder that loses packets / gets damaged ones        *)
(* Two levels:                                                             *)
(*   PropNames   C02: decoded energies differ from the encoder's AND the   *)
(*               final ranges differ (the coder lost lock-step inside the  *)
(*               energy symbols); C01: an energy call left the coder or    *)
(*               the state outside any defined range         -> VIOLATION  *)
(*   ModelNames  every value equals Energy's (symbols given)  -> SPEC-DRIFT *)
(***************************************************************************)
EXTENDS Energy, Json, IOUtils, TLC
VARIABLE l

Tr == ndJsonDeserialize(IOEnv.TRACE)

N2 == 2 * NB
Arr(a, from, n) == [j \in 1..n |-> a[from + j]]
HasCall(c) == c.n = 1
NSlots(c) == (c.end - c.start) * c.C
EqOn(a, b, f, C) == \A j \in 1..(C * NB) : InBand(f, j) => a[j] = b[j]

(* ------------------------------------------------------------------------ *)
(* encoder side                                                             *)
(* ------------------------------------------------------------------------ *)
EncF(c, intra) == [C |-> c.C, LM |-> c.LM, start |-> c.start, end |-> c.end, intra |-> intra, budget |-> c.budget, lfe |-> c.lfe,
                   nbAvail |-> c.nbAvail, force |-> c.force, twopass |-> c.twopass, dI |-> c.dI, tell0 |-> c.tell0, effEnd |-> c.effEnd]
EncShapeOK(c) ==
  /\ c.C \in 1..2 /\ c.LM \in 0..3 /\ c.start >= 0 /\ c.start < c.end /\ c.end <= NB /\ c.effEnd <= c.end
  /\ c.budget >= 0 /\ c.budget <= 1275 * 8 /\ c.tell0 >= 0 /\ c.tell0 <= 1276 * 8 /\ c.lfe \in 0..1 /\ c.force \in 0..1 /\ c.twopass \in 0..1
  /\ c.nbAvail >= 0 /\ c.nbAvail < 100000 /\ c.dI >= 0 /\ c.dI < 100000
  /\ \A j \in 1..(c.C * NB) : AbsV(c.eb[j]) <= 32 * QOne /\ AbsV(c.in[j]) <= 30 * QOne
PassRun(c, t, intra) ==
  LET n == NSlots(c) IN EncCoarseRun(EncF(c, intra), c.eb, c.in, c.ei, [k \in 1..n |-> c.sl[(t - 1) * n + k][1]])
SlotsAgree(c, t, run) ==
  LET n == NSlots(c) IN
  \A k \in 1..n :
    LET s == c.sl[(t - 1) * n + k]  q == run.qs[k] IN
      /\ s[2] = q[1]
      /\ q[1] = 0 \/ s[3] = q[4]
      /\ q[1] # 15 \/ s[4] = q[2]
      /\ q[1] # 1 \/ s[4] = q[3]
\* the passes whose result equals what the encoder kept (both when they coincide)
FitSet(c, passes, runs) ==
  {t \in 1..Len(passes) : runs[t].dom /\ EqOn(runs[t].old, c.out, EncF(c, 0), c.C) /\ EqOn(runs[t].err, c.eo, EncF(c, 0), c.C)}
KeptPass(c, passes, runs) ==
  LET fits == FitSet(c, passes, runs) IN IF fits = {} THEN 0 ELSE CHOOSE t \in fits : \A u \in fits : t <= u
EncCoarseNames(c) ==
  IF ~EncShapeOK(c) THEN {"quant_coarse_energy call outside the model's domain"}
  ELSE LET f == EncF(c, 0)
           passes == EncPasses(f)
           n == NSlots(c)
       IN IF Len(c.sl) # n * Len(passes) THEN {"coarse passes run by the encoder"}
          ELSE LET runs == [t \in 1..Len(passes) |-> PassRun(c, t, passes[t])]
                   kept == KeptPass(c, passes, runs)
               IN (IF \A t \in 1..Len(passes) : runs[t].dom THEN {} ELSE {"coarse energies outside the model's domain"})
                  \cup (IF c.fl = (IF IntraFlagCoded(f) THEN passes ELSE <<>>) THEN {} ELSE {"intra flag coded by the encoder"})
                  \cup (IF \A t \in 1..Len(passes) : ~runs[t].dom \/ SlotsAgree(c, t, runs[t]) THEN {} ELSE {"coarse symbols (tier, qi before / after the clamps)"})
                  \cup (IF kept # 0 THEN {} ELSE {"encoder's coarse energies / error"})
                  \cup (IF kept = 0 \/ Len(passes) < 2 \/ ~(runs[1].dom /\ runs[2].dom) \/ runs[1].old = runs[2].old THEN {}
                        ELSE IF c.lfe = 0 /\ ((runs[1].bad < runs[2].bad /\ kept # 1) \/ (runs[1].bad > runs[2].bad /\ kept # 2)) THEN {"two-pass choice against badness"} ELSE {})
                  \cup (IF kept = 0 \/ (\E j \in 1..(c.C * NB) : AbsV(c.eb[j] - c.in[j]) > 50 * QOne) THEN {}
                        ELSE IF c.dI1 = DelayedIntraNext(f, passes[kept], NewDistortion(f, c.eb, c.in)) \/ (Len(passes) = 2 /\ runs[1].old = runs[2].old
                                     /\ c.dI1 = DelayedIntraNext(f, passes[3 - kept], NewDistortion(f, c.eb, c.in)))
                             THEN {} ELSE {"delayedIntra"})
\* the candidates for the pass the encoder kept, with their deviation predicates
EncKept(c) ==
  IF ~EncShapeOK(c) THEN {}
  ELSE LET f == EncF(c, 0)  passes == EncPasses(f)  n == NSlots(c) IN
       IF Len(c.sl) # n * Len(passes) THEN {}
       ELSE LET runs == [t \in 1..Len(passes) |-> PassRun(c, t, passes[t])]
            IN {[intra |-> passes[t], onebit |-> runs[t].onebit, hi |-> runs[t].hi, t |-> t,
                 syms |-> [k \in 1..n |-> <<c.sl[(t - 1) * n + k][1], c.sl[(t - 1) * n + k][3]>>], flagged |-> Len(c.fl) > 0] : t \in FitSet(c, passes, runs)}

FineShapeOK(c) == /\ c.C \in 1..2 /\ c.start >= 0 /\ c.start < c.end /\ c.end <= NB
                  /\ \A i \in 1..NB : c.fq[i] >= 0 /\ c.fq[i] <= MaxFineBits
                  /\ \A j \in 1..N2 : AbsV(c.in[j]) <= 40 * QOne
FF(c) == [C |-> c.C, start |-> c.start, end |-> c.end]
BitVals(c) == [k \in 1..Len(c.bits) |-> c.bits[k][1]]
EncFineNames(c) ==
  IF ~FineShapeOK(c) \/ (\E j \in 1..N2 : AbsV(c.ei[j]) > 100 * QOne) THEN {"quant_fine_energy call outside the model's domain"}
  ELSE LET r == EncFine(FF(c), c.in, c.ei, c.fq)
           sl == FineSlots(FF(c), c.fq, c.start)
       IN (IF r.bits = BitVals(c) /\ Len(sl) = Len(c.bits) /\ (\A k \in 1..Len(sl) : c.bits[k][2] = c.fq[sl[k][1] + 1]) THEN {} ELSE {"fine bits (q2, width, order)"})
          \cup (IF EqOn(r.old, c.out, FF(c), c.C) /\ EqOn(r.err, c.eo, FF(c), c.C) THEN {} ELSE {"energies / error after the fine bits"})
EncFinalNames(c) ==
  IF ~FineShapeOK(c) \/ (\E j \in 1..N2 : AbsV(c.ei[j]) > 100 * QOne) \/ c.left > 100000 \/ c.left < 0 - 100000 THEN {"quant_energy_finalise call outside the model's domain"}
  ELSE LET r == EncFinal(FF(c), c.in, c.ei, c.fq, c.pr, c.left)
       IN (IF r.bits = BitVals(c) /\ (\A k \in 1..Len(c.bits) : c.bits[k][2] = 1) THEN {} ELSE {"final bits (which bands, priority order, bits_left)"})
          \cup (IF EqOn(r.old, c.out, FF(c), c.C) /\ EqOn(r.err, c.eo, FF(c), c.C) THEN {} ELSE {"energies / error after the final bits"})
          \cup (IF Len(c.bits) <= Max(0, c.left) THEN {} ELSE {"more final bits than bits_left"})

(* ------------------------------------------------------------------------ *)
(* decoder side                                                             *)
(* ------------------------------------------------------------------------ *)
DecF(c) == [C |-> c.C, LM |-> c.LM, start |-> c.start, end |-> c.end, intra |-> c.intra, budget |-> c.budget]
DecShapeOK(c) == /\ c.C \in 1..2 /\ c.LM \in 0..3 /\ c.start >= 0 /\ c.start < c.end /\ c.end <= NB /\ c.intra \in 0..1
                 /\ c.budget >= 0 /\ c.budget <= 1275 * 8 /\ Len(c.sl) = NSlots(c)
                 /\ \A j \in 1..N2 : AbsV(c.in[j]) <= 40 * QOne
                 /\ \A k \in 1..Len(c.sl) : c.sl[k][1] >= 0 /\ c.sl[k][1] < 20000 /\ AbsV(c.sl[k][3]) < 17000
DecSyms(c) == [k \in 1..Len(c.sl) |-> <<c.sl[k][1], c.sl[k][3]>>]
DecCoarseNames(c) ==
  IF ~DecShapeOK(c) THEN {"unquant_coarse_energy call outside the model's domain"}
  ELSE LET r == DecCoarseRun(DecF(c), c.in, DecSyms(c))
       IN (IF \A k \in 1..Len(c.sl) : c.sl[k][2] = EnTier(c.budget, c.sl[k][1]) THEN {} ELSE {"decoder's budget tier"})
          \cup (IF r.legal THEN {} ELSE {"decoded qi outside the tier's alphabet"})
          \cup (IF r.old = c.out THEN {} ELSE {"decoder's coarse energies"})
DecFineNames(c) ==
  IF ~FineShapeOK(c) THEN {"unquant_fine_energy call outside the model's domain"}
  ELSE LET sl == FineSlots(FF(c), c.fq, c.start) IN
       IF Len(sl) # Len(c.bits) \/ (\E k \in 1..Len(sl) : c.bits[k][2] # c.fq[sl[k][1] + 1] \/ c.bits[k][1] < 0 \/ c.bits[k][1] >= P2(c.bits[k][2]))
       THEN {"fine bits read (width, order)"}
       ELSE IF DecFine(FF(c), c.in, c.fq, BitVals(c)).old = c.out THEN {} ELSE {"decoder's energies after the fine bits"}
DecFinalNames(c) ==
  IF ~FineShapeOK(c) \/ c.left > 100000 \/ c.left < 0 - 100000 THEN {"unquant_energy_finalise call outside the model's domain"}
  ELSE LET sl == FinalSlots(FF(c), c.fq, c.pr, c.left).slots IN
       IF Len(sl) # Len(c.bits) \/ (\E k \in 1..Len(sl) : c.bits[k][2] # 1 \/ c.bits[k][1] \notin 0..1)
       THEN {"final bits read (which bands, priority order, bits_left)"}
       ELSE (IF DecFinal(FF(c), c.in, c.fq, c.pr, c.left, BitVals(c)).old = c.out THEN {} ELSE {"decoder's energies after the final bits"})
            \cup (IF Len(c.bits) <= Max(0, c.left) THEN {} ELSE {"more final bits than bits_left"})

DecCallsNames(e) ==
  IF ~(HasCall(e.uc) /\ HasCall(e.uf) /\ HasCall(e.uz)) THEN {}
  ELSE DecCoarseNames(e.uc) \cup DecFineNames(e.uf) \cup DecFinalNames(e.uz)
       \cup (IF e.uf.in = e.uc.out /\ e.uz.in = e.uf.out THEN {} ELSE {"energies change between the decoder's energy calls"})

\* decoder state: <<oldEBands, oldLogE, oldLogE2, backgroundLogE>>
DSt(a) == [e |-> Arr(a, 0, N2), l1 |-> Arr(a, N2, N2), l2 |-> Arr(a, 2 * N2, N2), bg |-> Arr(a, 3 * N2, N2)]
StateArrOK(a) == Len(a) = 4 * N2 /\ \A j \in 1..Len(a) : AbsV(a[j]) <= 60 * QOne
AllTier0(c) == \A k \in 1..Len(c.sl) : c.sl[k][2] = 0
DecStateNames(e) ==
  IF e.hasS # 1 \/ ~StateArrOK(e.dS0) \/ ~StateArrOK(e.dS1) \/ e.L0 < 0 \/ e.L0 > 10000 THEN (IF e.hasS = 1 THEN {"decoder state outside the model's domain"} ELSE {})
  ELSE LET s0 == DSt(e.dS0)  s1 == DSt(e.dS1) IN
   IF HasCall(e.uc) /\ HasCall(e.uz) /\ DecShapeOK(e.uc)
   THEN LET f == DecF(e.uc) IN
        (IF e.uc.in = DecSafety(f, e.L0, DecMonoFold(f.C, s0.e), s0.l1, s0.l2) THEN {} ELSE {"recovery rule after loss / mono fold before the coarse energy"})
        \cup (IF \E tr \in (IF f.LM > 0 THEN {FALSE, TRUE} ELSE {FALSE}) : \E si \in (IF AllTier0(e.uc) THEN {FALSE, TRUE} ELSE {FALSE}) :
                   LET u == DecUpdate(f, e.L0, e.uz.out, s0.l1, s0.l2, s0.bg, tr, si) IN
                   u.e = s1.e /\ u.l1 = s1.l1 /\ u.l2 = s1.l2 /\ u.bg = s1.bg /\ e.L1 = 0
              THEN {} ELSE {"decoder state update (oldEBands / oldLogE / oldLogE2 / backgroundLogE / loss_duration)"})
        \cup (IF \A j \in 1..N2 : s1.bg[j] - s0.bg[j] <= MaxBackgroundIncrease(e.L0, f.LM) THEN {} ELSE {"background energy rises faster than max_background_increase"})
   ELSE {}
LostNames(e) ==
  IF e.hasS # 1 \/ ~StateArrOK(e.dS0) \/ ~StateArrOK(e.dS1) \/ e.L0 < 0 \/ e.L0 > 10000 THEN {}
  ELSE LET s0 == DSt(e.dS0)  s1 == DSt(e.dS1)
           f == [C |-> e.C, LM |-> e.LM, start |-> e.start, end |-> e.end]
           u == DecLost(f, e.DC, e.L0, e.K0, s0.e, s0.bg) IN
       (IF u.e = s1.e /\ s1.l1 = s0.l1 /\ s1.l2 = s0.l2 /\ s1.bg = s0.bg /\ e.L1 = u.ld THEN {} ELSE {"state after a lost frame (decay / loss_duration)"})
       \cup (IF \A j \in 1..N2 : s1.e[j] <= s0.e[j] \/ s1.e[j] = s0.bg[j] THEN {} ELSE {"energy rises during loss"})
RangeNames(e) ==
  IF e.hasS = 1 /\ Len(e.dS1) = 4 * N2 /\ ~(\A j \in 1..(4 * N2) : InStateRange(e.dS1[j])) THEN {"decoder energy state out of range"} ELSE {}

\* encoder state: <<oldBandE, oldLogE, oldLogE2, energyError>> of CC*NB each
EncStateNames(e) ==
  IF e.hasS # 1 \/ ~HasCall(e.qz) \/ ~HasCall(e.qc) \/ e.er <= 0 THEN {}
  ELSE LET n == e.CC * NB IN
   IF Len(e.eS0) # 4 * n \/ Len(e.eS1) # 4 * n \/ (\E j \in 1..(4 * n) : AbsV(e.eS0[j]) > 60 * QOne) THEN {"encoder state outside the model's domain"}
   ELSE LET f == [C |-> e.qz.C, LM |-> e.qc.LM, start |-> e.qz.start, end |-> e.qz.end]
            e0 == [j \in 1..n |-> IF j <= f.C * NB THEN e.qz.out[j] ELSE e.eS0[j]]
            er == [j \in 1..n |-> IF j <= f.C * NB THEN e.qz.eo[j] ELSE 0]
            l1 == Arr(e.eS0, n, n)  l2 == Arr(e.eS0, 2 * n, n)
        IN IF (\E j \in 1..n : AbsV(er[j]) > 100 * QOne) THEN {"encoder state outside the model's domain"}
           ELSE IF \E tr \in (IF f.LM > 0 THEN {FALSE, TRUE} ELSE {FALSE}) : \E si \in {FALSE, TRUE} :
                   LET u == EncUpdate(f, e.CC, e0, er, l1, l2, tr, si) IN
                   u.e = Arr(e.eS1, 0, n) /\ u.l1 = Arr(e.eS1, n, n) /\ u.l2 = Arr(e.eS1, 2 * n, n) /\ u.ee = Arr(e.eS1, 3 * n, n)
           THEN {} ELSE {"encoder state update (oldBandE / oldLogE / oldLogE2 / energyError)"}

(* ------------------------------------------------------------------------ *)
(* a packet                                                                 *)
(* ------------------------------------------------------------------------ *)
EncCallsOK(e) == HasCall(e.qc) /\ HasCall(e.qf) /\ HasCall(e.qz)
DecCallsOK(e) == HasCall(e.uc) /\ HasCall(e.uf) /\ HasCall(e.uz)
Usable(e) == EncCallsOK(e) /\ DecCallsOK(e) /\ e.er >= 0 /\ e.dr >= 0 /\ e.eerr = 0
EnergiesAgree(e) == EqOn(e.uz.out, e.qz.out, FF(e.qz), e.qz.C)
\* the mirror is a statement about one frame: it needs equal predictor states (after an earlier named deviation they differ)
PreStatesAgree(e) == EqOn(e.uc.in, e.qc.in, FF(e.qz), e.qz.C)
\* StarvedSilenceDeviation: a frame that finds no bit left (tell >= total_bits) is "silence" for the decoder (energies := -28) but not
\* for the encoder, which keeps its quantised energies: the two states differ from the next frame on
StarvedSilence(e) == e.hasS = 1 /\ Usable(e) /\ AllTier0(e.uc) /\ EnergiesAgree(e) /\ Len(e.dS1) = 4 * N2 /\ Len(e.eS1) = 4 * e.CC * NB
                     /\ ~EqOn(e.dS1, e.eS1, FF(e.qz), e.qz.C)
RangesAgree(e) == e.eh = e.dh /\ e.el = e.dl
SymbolsAgree(e, k) == DecShapeOK(e.uc) /\ DecSyms(e.uc) = k.syms /\ (~k.flagged \/ e.uc.intra = k.intra)
Deviation(ks) == \E k \in ks : k.onebit \/ k.hi

PktPropNames(e) ==
  IF ~Usable(e) THEN {}
  ELSE (IF ~EnergiesAgree(e) /\ ~RangesAgree(e) /\ PreStatesAgree(e) THEN {"C02: decoded band energies differ from the encoder's and the final ranges differ"} ELSE {})
       \cup (IF e.uc.err = 0 /\ e.uf.err = 0 /\ e.uz.err = 0 /\ e.derr = 0 THEN {} ELSE {"C02: the decoder's range coder reports an error on an encoder-made packet"})
       \* C17 (decode inverts encode, for the table-driven coarse-energy symbol code): the decoder started from the encoder's
       \* predictor state, read exactly the symbols, tells and flags the encoder wrote (so both range coders ended in the same
       \* state) and the same fine / final bits - and still reconstructs different band energies, outside the named deviations
       \* of the pinned tree.  Only the value <-> symbol mapping is left to differ.
       \cup (LET k == EncKept(e.qc) IN
             IF ~EnergiesAgree(e) /\ RangesAgree(e) /\ PreStatesAgree(e) /\ ~Deviation(k) /\ k # {} /\ (\E kk \in k : SymbolsAgree(e, kk))
                /\ e.uf.bits = e.qf.bits /\ e.uz.bits = e.qz.bits
             THEN {"C17: the decoder read exactly the symbols the encoder wrote, from the same predictor state, and reconstructs different band energies (decode does not invert encode for the coarse-energy symbol code)"}
             ELSE {})
PktModelNames(e) ==
  (IF HasCall(e.qc) THEN EncCoarseNames(e.qc) ELSE IF e.qc.n = 0 THEN {} ELSE {"more than one quant_coarse_energy call per packet"})
  \cup (IF HasCall(e.qf) THEN EncFineNames(e.qf) ELSE {})
  \cup (IF HasCall(e.qz) THEN EncFinalNames(e.qz) ELSE {})
  \cup (IF EncCallsOK(e) /\ (~EqOn(e.qf.in, e.qc.out, FF(e.qf), e.qf.C) \/ ~EqOn(e.qz.in, e.qf.out, FF(e.qf), e.qf.C)) THEN {"energies change between the encoder's energy calls"} ELSE {})
  \cup DecCallsNames(e) \cup DecStateNames(e) \cup EncStateNames(e)
  \cup (IF ~Usable(e) THEN {}
        ELSE LET k == EncKept(e.qc) IN
             (IF EnergiesAgree(e) \/ Deviation(k) \/ ~PreStatesAgree(e) THEN {} ELSE {"mirror: decoder energies differ from the encoder's outside OneBitTierDeviation / UpperClampDeviation"})
             \cup (IF k = {} \/ (\E kk \in k : SymbolsAgree(e, kk)) THEN {} ELSE {"mirror: decoded coarse symbols / tells / intra flag differ from the coded ones"})
             \cup (IF e.uf.bits = e.qf.bits /\ e.uz.bits = e.qz.bits THEN {} ELSE {"mirror: fine / final bits read differ from the bits written"}))

DecBPropNames(e) == {}
DecBModelNames(e) == DecCallsNames(e) \cup (IF e.how = 1 /\ ~HasCall(e.uc) THEN LostNames(e) ELSE DecStateNames(e)) \cup RangeNames(e)

TabNames(e) ==
  (IF e.db_shift = 24 /\ e.maxfine = MaxFineBits /\ e.nb = NB /\ e.g28 = E28 /\ e.g9 = E9 /\ e.g20 = E20 /\ e.milli = Milli /\ e.half = QHalf
      /\ e.g1_5 = QOne + QHalf /\ e.g16 = 16 * QOne /\ e.g3 = 3 * QOne /\ e.g2 = 2 * QOne THEN {} ELSE {"Q format / constants"})
  \cup (IF e.emeans = EMeansQ4 THEN {} ELSE {"eMeans"}) \cup (IF e.pred = PredCoef THEN {} ELSE {"pred_coef"})
  \cup (IF e.beta = BetaCoef /\ e.beta_intra = BetaIntra THEN {} ELSE {"beta_coef / beta_intra"})
  \cup (IF e.small = SmallEnergyIcdf THEN {} ELSE {"small_energy_icdf"}) \cup (IF e.eprob = EProb THEN {} ELSE {"e_prob_model"})

PropNames(e) == IF e.k = "pkt" THEN PktPropNames(e) ELSE IF e.k = "decB" THEN DecBPropNames(e) ELSE {}
ModelNames(e) == IF e.k = "pkt" THEN PktModelNames(e) \cup (IF e.hasS = 1 /\ DecCallsOK(e) THEN RangeNames(e) ELSE {})
                 ELSE IF e.k = "decB" THEN DecBModelNames(e)
                 ELSE IF e.k = "tab" THEN TabNames(e) ELSE {"unknown record kind"}

CaseOK == PropNames(Tr[l]) = {} /\ ModelNames(Tr[l]) = {}

\* explain run: never fails, prints the failed obligations of every rejected line and the named deviations met
Explain ==
  LET e == Tr[l]
      pn == PropNames(e)
      mn == ModelNames(e)
  IN IF pn = {} /\ mn = {} THEN TRUE
     ELSE PrintT("WHY " \o ToString(l) \o " prop " \o ToString(pn) \o " model " \o ToString(mn))
\* census run: which named deviations / regimes the accepted packets went through
Census ==
  LET e == Tr[l] IN
  IF e.k # "pkt" \/ ~HasCall(e.qc) THEN TRUE
  ELSE LET ks == EncKept(e.qc) IN
       IF StarvedSilence(e) THEN PrintT("DEV " \o ToString(l) \o " starved")
       ELSE IF Deviation(ks) /\ Usable(e)
       THEN PrintT("DEV " \o ToString(l) \o (IF \E k \in ks : k.onebit THEN " onebit" ELSE "") \o (IF \E k \in ks : k.hi THEN " hi" ELSE "") \o (IF EnergiesAgree(e) THEN " same" ELSE " differ"))
       ELSE TRUE

Init == l \in 1..Len(Tr)
Next == UNCHANGED l
Spec == Init /\ [][Next]_l
=============================================================================
