------------------------------ MODULE Energy_mc ------------------------------
(***************************************************************************)
(* Design theorems of Energy.tla, checked by TLC on a slice: NBands bands   *)
(* from each start band, a grid of band energies / previous energies,      *)
(* budgets around every tier boundary, several symbol-cost policies, intra *)
(* and inter, LM 0..3, C 1..2, lfe; and the frame-to-frame state machine   *)
(* of one band over decoded frames and losses.                             *)
(*                                                                         *)
(* One initial state; Next fans out (initial-state enumeration is single-  *)
(* threaded).  ph = 1: a quantisation point; ph = 2: a state-machine state. *)
(***************************************************************************)
EXTENDS Energy, TLC
CONSTANTS LMs, Cs, Starts, NBands, Levels, OldLevels, Gaps, Pols, FqPats, Lefts, Lfes, StLevels, MaxSteps, Strict, PlanMod
VARIABLE st

\* cfg files cannot hold negative numbers: level v stands for (v - 112) quarter units, i.e. -28.0 .. +32.0 for 0..240
Lvl(v) == (v - 112) * 4194304

FqPat(k) == CASE k = 0 -> <<0, 2, 8>> [] k = 1 -> <<1, 3, 0>> [] k = 2 -> <<7, 7, 8>> [] OTHER -> <<0, 0, 0>>
\* ---------------------------------------------------------------- quantisation points
Tile(vals, start, nb) == [j \in 1..(2 * NB) |-> LET i == (j - 1) % NB  c == (j - 1) \div NB IN
                            IF i >= start /\ i < start + nb THEN Lvl(vals[((i - start + c) % Len(vals)) + 1]) + c * 1234567 ELSE 0]
FOf(p) == [C |-> p.C, LM |-> p.LM, start |-> p.start, end |-> p.start + NBands, intra |-> p.intra, budget |-> p.tell0 + p.gap,
           lfe |-> p.lfe, nbAvail |-> 40, force |-> 0, twopass |-> 0, dI |-> 0, tell0 |-> p.tell0, effEnd |-> p.start + NBands]
\* cost in whole bits of the k-th symbol under policy pol (tier 15: 1..15; tier 2: 1..2; tier 1: 1; tier 0: nothing coded)
Cost(tier, pol, k) ==
  CASE tier = 15 -> (CASE pol = 0 -> 1 [] pol = 1 -> 15 [] pol = 2 -> 3 + 4 * (k % 3) [] OTHER -> 1 + ((7 * k) % 14))
    [] tier = 2 -> IF pol % 2 = 0 THEN 1 ELSE 2
    [] tier = 1 -> 1
    [] OTHER -> 0
RECURSIVE TellsOf(_, _, _, _, _)
TellsOf(f, pol, k, n, tell) == IF k = n THEN <<>> ELSE <<tell>> \o TellsOf(f, pol, k + 1, n, tell + Cost(EnTier(f.budget, tell), pol, k))

Eval(p) ==
  LET f == FOf(p)
      n == NBands * p.C
      eb == Tile(p.xs, p.start, NBands)
      old == Tile(p.olds, p.start, NBands)
      t1 == p.tell0 + (IF IntraFlagCoded(f) THEN (IF p.intra = 1 THEN 3 ELSE 0) ELSE 0)
      tells == TellsOf(f, p.pol, 0, n, t1)
      zero == [j \in 1..(2 * NB) |-> 0]
      enc == EncCoarseRun(f, eb, old, zero, tells)
      syms == [k \in 1..n |-> <<tells[k], enc.qs[k][4]>>]
      dec == DecCoarseRun(f, old, syms)
      fq == [i \in 1..NB |-> IF i - 1 >= f.start /\ i - 1 < f.end THEN p.fq[((i - 1 - f.start) % Len(p.fq)) + 1] ELSE 0]
      prio == [i \in 1..NB |-> (i + p.pol) % 2]
      ef == EncFine(f, enc.old, enc.err, fq)
      df == DecFine(f, dec.old, fq, ef.bits)
      ez == EncFinal(f, ef.old, ef.err, fq, prio, p.left)
      dz == DecFinal(f, df.old, fq, prio, p.left, ez.bits)
  IN [f |-> f, eb |-> eb, old |-> old, tells |-> tells, enc |-> enc, dec |-> dec, fq |-> fq, prio |-> prio, ef |-> ef, df |-> df, ez |-> ez, dz |-> dz, n |-> n]

Rz == st.r
InB(f, j) == InBand(f, j) /\ j <= f.C * NB

\* the encoder run never leaves the domain in which no 32-bit intermediate can overflow (|x| <= 32, |old| <= 30, |prev| <= 40:
\* |f| <= 99 < 128 = 2^31 / 2^24), for every input of the grid
DomainClosed == st.ph = 1 => Rz.enc.dom
\* decoder energies after coarse + fine + final bits = the encoder's, outside the two named deviations
Mirror == st.ph = 1 =>
  LET r == Rz IN
  (r.enc.dom /\ (Strict \/ (~OneBitTierDeviation(r.enc) /\ ~UpperClampDeviation(r.enc)))) =>
     /\ \A j \in 1..(2 * NB) : InB(r.f, j) => r.dec.old[j] = r.enc.old[j] /\ r.df.old[j] = r.ef.old[j] /\ r.dz.old[j] = r.ez.old[j]
     /\ r.dec.legal /\ ~r.dec.wrapped
\* what the one-bit tier does when the deviation strikes: the decoder sits exactly (-1 - qi) steps above the encoder... at least one
OneBitShape == st.ph = 1 =>
  LET r == Rz IN (r.enc.dom /\ OneBitTierDeviation(r.enc) /\ ~UpperClampDeviation(r.enc)) =>
     \E j \in 1..(2 * NB) : InB(r.f, j) /\ r.dec.old[j] > r.enc.old[j]
\* coarse energies saturate: decoder in [-28, 28], encoder >= -28; all three stages stay inside the state range
Ranges == st.ph = 1 =>
  LET r == Rz IN r.enc.dom =>
     \A j \in 1..(2 * NB) : InB(r.f, j) =>
        /\ r.dec.old[j] >= 0 - E28 /\ r.dec.old[j] <= E28 /\ r.enc.old[j] >= 0 - E28
        /\ InStateRange(r.dz.old[j]) /\ InStateRange(r.df.old[j])
\* fine bits: exactly fine_quant bits per band and channel, q2 inside its width; final bits: at most bits_left, one per channel,
\* only bands below MAX_FINE_BITS, priority 0 before priority 1; bits_left accounting
FineBits == st.ph = 1 =>
  LET r == Rz IN r.enc.dom =>
     /\ Len(r.ef.bits) = r.df.n /\ \A k \in 1..Len(r.ef.bits) : r.ef.bits[k] >= 0 /\ r.ef.bits[k] < P2(r.df.nbits[k])
     /\ Len(r.ez.bits) <= Max(0, st.p.left) /\ r.ez.left = st.p.left - Len(r.ez.bits) /\ r.dz.left = r.ez.left /\ r.dz.n = Len(r.ez.bits)
     /\ LET sl == FinalSlots(r.f, r.fq, r.prio, st.p.left).slots IN
          \A k \in 1..Len(sl) : /\ r.fq[sl[k][1] + 1] < MaxFineBits
                                /\ \A k2 \in k..Len(sl) : r.prio[sl[k][1] + 1] <= r.prio[sl[k2][1] + 1]
\* a residual error within half a coarse step shrinks to half a fine step, and the final bit never widens it
ErrorShrinks == st.ph = 1 =>
  LET r == Rz IN r.enc.dom =>
     \A j \in 1..(2 * NB) : (InB(r.f, j) /\ AbsV(r.enc.err[j]) <= QHalf) =>
        LET w == P2(23 - r.fq[((j - 1) % NB) + 1]) IN
        /\ r.ef.err[j] >= 0 - w /\ r.ef.err[j] <= w /\ r.ez.err[j] >= 0 - w /\ r.ez.err[j] <= w
        /\ r.ef.old[j] + r.ef.err[j] = r.enc.old[j] + r.enc.err[j] /\ r.ez.old[j] + r.ez.err[j] = r.enc.old[j] + r.enc.err[j]
\* the coded symbols are inside the alphabet of their tier and what the tier codes is what the decoder reconstructs
Alphabet == st.ph = 1 => LET r == Rz IN r.enc.dom => \A k \in 1..r.n : QiLegal(r.enc.qs[k][1], r.enc.qs[k][4])

\* plan lines for the harness (a sample of the points, and every point that meets a named deviation) with the regimes it is in
Plan == st.ph = 1 => LET p == st.p  r == Rz IN
   IF (p.gap + p.pol + p.xs[1] + p.xs[2] + p.olds[1] + p.LM + p.C) % PlanMod = 0 \/ OneBitTierDeviation(r.enc) \/ UpperClampDeviation(r.enc)
   THEN PrintT("PLAN " \o ToString(<<p.C, p.LM, p.start, p.start + NBands, p.intra, p.tell0, p.gap, p.lfe, p.left>>) \o " | " \o ToString(p.fq)
               \o " | " \o ToString(p.xs) \o " | " \o ToString(p.olds) \o " | "
               \o ToString(<<{q[1] : q \in {r.enc.qs[k] : k \in 1..r.n}}, OneBitTierDeviation(r.enc), UpperClampDeviation(r.enc), r.enc.bad > 0,
                            Len(r.ez.bits) > 0, Len(r.ef.bits) > 0, \E k \in 1..r.n : r.enc.qs[k][2] # r.enc.qs[k][3]>>))
   ELSE TRUE

\* ---------------------------------------------------------------- the state machine of one band (band 0, channel 0 of a mono stream)
SF(LM) == [C |-> 1, LM |-> LM, start |-> 0, end |-> 1, intra |-> 0, budget |-> 0]
Const(v) == [j \in 1..(2 * NB) |-> v]
One(v, rest) == [j \in 1..(2 * NB) |-> IF j = 1 \/ j = NB + 1 THEN v ELSE rest]
S0 == [ph |-> 2, e |-> 0, l1 |-> 0 - E28, l2 |-> 0 - E28, bg |-> 0, ld |-> 0, skip |-> 0, n |-> 0, lastlost |-> FALSE, pe |-> 0, pbg |-> 0, pld |-> 0, pLM |-> 0]
DecodeStep(s, LM, intra, lv, tr) ==
  LET f == [SF(LM) EXCEPT !.intra = intra]
      safe == DecSafety(f, s.ld, One(s.e, 0), One(s.l1, 0 - E28), One(s.l2, 0 - E28))
      \* coarse + fine + final land anywhere in the state range: the new energy is lv (a free choice), except that an inter frame
      \* predicts from the recovered energy - the recovery result must itself be in range
      u == DecUpdate(f, s.ld, One(lv, 0), One(s.l1, 0 - E28), One(s.l2, 0 - E28), One(s.bg, 0), tr, FALSE)
  IN [ph |-> 2, e |-> u.e[1], l1 |-> u.l1[1], l2 |-> u.l2[1], bg |-> u.bg[1], ld |-> u.ld, skip |-> 0, n |-> s.n + 1, lastlost |-> FALSE,
      pe |-> safe[1], pbg |-> s.bg, pld |-> s.ld, pLM |-> LM]
LoseStep(s, LM, skip) ==
  LET u == DecLost(SF(LM), 2, s.ld, skip, One(s.e, 0), One(s.bg, 0))
  IN [ph |-> 2, e |-> u.e[1], l1 |-> s.l1, l2 |-> s.l2, bg |-> s.bg, ld |-> u.ld, skip |-> skip, n |-> s.n + 1, lastlost |-> TRUE,
      pe |-> s.e, pbg |-> s.bg, pld |-> s.ld, pLM |-> LM]

StateRange == st.ph = 2 => InStateRange(st.e) /\ InStateRange(st.l1) /\ InStateRange(st.l2) /\ InStateRange(st.bg) /\ st.ld >= 0 /\ st.ld <= 10000
               /\ st.pe >= StateLo - (QOne + QHalf) /\ st.pe <= StateHi     \* what the recovery rule hands to the coarse decoder
BackgroundSlow == (st.ph = 2 /\ ~st.lastlost /\ st.n > 0) =>
   /\ st.bg <= st.pbg + MaxBackgroundIncrease(st.pld, st.pLM) /\ st.bg <= st.e
   /\ MaxBackgroundIncrease(st.pld, st.pLM) <= 160 * Milli
LossDecays == (st.ph = 2 /\ st.lastlost) =>
   /\ st.e <= st.pe \/ st.e = st.bg
   /\ st.ld = Min(10000, st.pld + P2(st.pLM))
   /\ (NoiseBased(SF(st.pLM), st.pld, st.skip) /\ st.pe - QHalf >= st.bg) => st.e <= st.pe - QHalf

\* ---------------------------------------------------------------- the run
Init == st = [ph |-> 0]
Next ==
  \/ /\ st.ph = 0
     /\ \/ \E C \in Cs, LM \in LMs, start \in Starts, intra \in 0..1, gap \in Gaps, pol \in Pols, lfe \in Lfes :
             /\ lfe = 0 \/ (C = 1 /\ start = 0)
             /\ st' = [ph |-> 5, C |-> C, LM |-> LM, start |-> start, intra |-> intra, gap |-> gap, pol |-> pol, lfe |-> lfe]
        \/ st' = S0
        \/ \E ld \in {0, 40, 9990} : st' = [S0 EXCEPT !.ld = ld, !.e = Lvl(140), !.l1 = Lvl(150), !.l2 = Lvl(120), !.bg = Lvl(60)]
  \/ /\ st.ph = 5
     /\ \E left \in Lefts, fq \in FqPats, x1 \in Levels, x2 \in Levels, x3 \in Levels, o1 \in OldLevels, o2 \in OldLevels :
          LET p == [C |-> st.C, LM |-> st.LM, start |-> st.start, intra |-> st.intra, tell0 |-> IF st.start = 0 THEN 1 ELSE 170, gap |-> st.gap, pol |-> st.pol,
                    lfe |-> st.lfe, left |-> left, fq |-> FqPat(fq), xs |-> <<x1, x2, x3>>, olds |-> <<o1, o2>>]
          IN st' = [ph |-> 1, p |-> p, r |-> Eval(p)]
  \/ /\ st.ph = 2 /\ st.n < MaxSteps
     /\ \/ \E LM \in LMs, intra \in 0..1, lv \in StLevels, tr \in {FALSE, TRUE} : (tr => LM > 0) /\ st' = DecodeStep(st, LM, intra, Lvl(lv) + 1234 * lv, tr)
        \/ \E LM \in LMs, skip \in 0..1 : st' = LoseStep(st, LM, skip)
Spec == Init /\ [][Next]_st
=============================================================================
