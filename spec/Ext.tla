-------------------------------- MODULE Ext --------------------------------
(***************************************************************************)
(* Opus packet extensions: the wire format of the padding area, written     *)
(* declaratively from the format rules (draft-ietf-mlcodec-opus-extension,  *)
(* as pinned by tests/test_opus_extensions.c), and the contract of the      *)
(* generator.  No VARIABLES, no CONSTANTS: EXTEND or INSTANCE it anywhere.   *)
(*                                                                         *)
(*  d   the padding bytes, a sequence over 0..255 (1-based as a TLA+ tuple)  *)
(*  n   the number of audio frames in the packet (0..48)                     *)
(*                                                                         *)
(* An extension as reported by a parser is [id, frame, at, len]: `at` is the *)
(* 0-based offset in d of the first payload byte, `len` the payload length,  *)
(* so the payload is SubSeq(d, at + 1, at + len).                            *)
(*                                                                         *)
(* Format rules.  Each element starts with a byte b: id = b \div 2,         *)
(* L = b % 2.                                                               *)
(*  id 0       padding.  L = 0: everything up to the end of d is padding;    *)
(*             L = 1: this byte only.                                        *)
(*  id 1       frame separator.  L = 0: the following extensions belong to   *)
(*             the next frame; L = 1: the next byte is the increment.  An    *)
(*             increment of 0 is a no-op (it does not even end the repeat    *)
(*             window).  Moving to a frame >= n is invalid.                  *)
(*  id 2       "repeat these extensions": for every later frame g in turn,   *)
(*             the extensions (id >= 3) of the current frame that appeared   *)
(*             since the last effective separator or the previous repeat     *)
(*             (the window) are repeated: ids (and for short ids the L bit)  *)
(*             come from the window, only the payloads follow.  Long         *)
(*             payloads are coded with L = 1 (laced length), except that     *)
(*             with indicator L = 0 the last long extension of the window,   *)
(*             in the last frame n-1, is coded with L = 0: it extends to the *)
(*             end of d minus the payload bytes of the short extensions that *)
(*             follow it in the window.  After an L = 0 indicator the        *)
(*             following extensions belong to the next frame; if there is no *)
(*             next frame, whatever follows is padding.  L = 1: the current  *)
(*             frame continues (with an empty window).                       *)
(*  id 3..31   short extension, L payload bytes.                             *)
(*  id 32..127 long extension.  L = 1: the payload length is laced (sum of   *)
(*             bytes up to and including the first one that is not 255);     *)
(*             L = 0: the payload extends to the end of d.                   *)
(* Anything that needs bytes beyond the end of d is invalid.                 *)
(***************************************************************************)
EXTENDS OpusConst

XId(b) == b \div 2
XL(b)  == b % 2
XIsLong(id) == id >= 32

(* 255-lacing starting at 1-based index p: hdr = number of length bytes.     *)
RECURSIVE XLace(_, _)
XLace(d, p) ==
  IF p > Len(d) THEN [ok |-> FALSE]
  ELSE IF d[p] = 255
       THEN LET r == XLace(d, p + 1) IN
            IF r.ok THEN [ok |-> TRUE, hdr |-> r.hdr + 1, val |-> r.val + 255] ELSE r
       ELSE [ok |-> TRUE, hdr |-> 1, val |-> d[p]]

(* The payload of an extension with the given id and L whose payload area    *)
(* (length bytes included) starts at 1-based index p.  resv = bytes at the    *)
(* end of d that an L = 0 long payload must leave to what follows it.        *)
XPayload(d, p, id, L, resv) ==
  LET avail == Len(d) - (p - 1) IN
  IF ~XIsLong(id)
  THEN IF L > avail THEN [ok |-> FALSE]
       ELSE [ok |-> TRUE, at |-> p - 1, len |-> L, next |-> p + L]
  ELSE IF L = 0
  THEN IF resv > avail THEN [ok |-> FALSE]
       ELSE [ok |-> TRUE, at |-> p - 1, len |-> avail - resv, next |-> p + (avail - resv)]
  ELSE LET lc == XLace(d, p) IN
       IF ~lc.ok THEN [ok |-> FALSE]
       ELSE IF lc.hdr + lc.val > avail THEN [ok |-> FALSE]
       ELSE [ok |-> TRUE, at |-> p - 1 + lc.hdr, len |-> lc.val, next |-> p + lc.hdr + lc.val]

(* first index in lo..hi-1 whose byte is not v (hi if none); logarithmic depth *)
RECURSIVE XFirstNot(_, _, _, _)
XFirstNot(d, v, lo, hi) ==
  IF lo >= hi THEN hi
  ELSE IF hi = lo + 1 THEN (IF d[lo] # v THEN lo ELSE hi)
  ELSE LET mid == (lo + hi) \div 2
           l   == XFirstNot(d, v, lo, mid) IN
       IF l < mid THEN l ELSE XFirstNot(d, v, mid, hi)

(* The rules are stated as a step relation on a cursor                       *)
(*   [p, f, W, rg, ri, rl, rll, rtr]                                         *)
(*  p   1-based index of the next byte          f   current frame            *)
(*  W   the repeat window: the [id, L] of the extensions of frame f since    *)
(*      the last effective separator / the end of the previous repeat        *)
(*  rg  0, or (while the payloads of a repeat are being read) the frame      *)
(*      whose repeated extensions come next; ri index into W; rl the L bit   *)
(*      of the indicator; rll index in W of its last long extension (0:      *)
(*      none); rtr payload bytes of the short extensions of W after it       *)
(* A step yields [c, out, st]: the next cursor, the extensions recognised    *)
(* (none or one) and st \in {"go", "stop", "fail"}.                          *)
XLastLong(W) == IF \E i \in 1..Len(W) : XIsLong(W[i].id)
                THEN CHOOSE i \in 1..Len(W) : XIsLong(W[i].id) /\ \A j \in (i + 1)..Len(W) : ~XIsLong(W[j].id)
                ELSE 0
RECURSIVE XSumL(_, _)
XSumL(W, i) == IF i > Len(W) THEN 0 ELSE W[i].L + XSumL(W, i + 1)

XCursor0 == [p |-> 1, f |-> 0, W |-> <<>>, rg |-> 0, ri |-> 0, rl |-> 0, rll |-> 0, rtr |-> 0]
XGo(c)       == [c |-> c, out |-> <<>>, st |-> "go"]
XEmit(c, e)  == [c |-> c, out |-> <<e>>, st |-> "go"]
XHalt(c, st) == [c |-> c, out |-> <<>>, st |-> st]

XStep(d, n, c) ==
  IF c.rg > 0 THEN                              \* reading the payloads of repeated extensions
       IF c.rg >= n                              \* every later frame done: the repeat is over
       THEN IF c.rl = 1 THEN XGo([c EXCEPT !.rg = 0, !.W = <<>>])
            ELSE IF c.f + 1 >= n THEN XHalt(c, "stop")          \* no next frame: the rest is padding
            ELSE XGo([c EXCEPT !.rg = 0, !.W = <<>>, !.f = c.f + 1])
       ELSE IF c.ri > Len(c.W) THEN XGo([c EXCEPT !.rg = c.rg + 1, !.ri = 1])
       ELSE LET w      == c.W[c.ri]
                forced == c.rl = 0 /\ c.rg = n - 1 /\ c.ri = c.rll
                pl     == XPayload(d, c.p, w.id, IF forced THEN 0 ELSE w.L, IF forced THEN c.rtr ELSE 0) IN
            IF ~pl.ok THEN XHalt(c, "fail")
            ELSE XEmit([c EXCEPT !.p = pl.next, !.ri = c.ri + 1],
                       [id |-> w.id, frame |-> c.rg, at |-> pl.at, len |-> pl.len])
  ELSE IF c.p > Len(d) THEN XHalt(c, "stop")
  ELSE LET id == XId(d[c.p])  L == XL(d[c.p]) IN
  IF id = 0 THEN
       IF L = 0 THEN XHalt(c, "stop")
       ELSE XGo([c EXCEPT !.p = XFirstNot(d, 1, c.p + 1, Len(d) + 1)])     \* a run of one-byte paddings
  ELSE IF id = 1 THEN
       IF L = 1 /\ c.p + 1 > Len(d) THEN XHalt(c, "fail")
       ELSE LET inc == IF L = 0 THEN 1 ELSE d[c.p + 1]
                q   == c.p + 1 + L IN
            IF inc = 0 THEN XGo([c EXCEPT !.p = q])
            ELSE IF c.f + inc >= n THEN XHalt(c, "fail")
            ELSE XGo([c EXCEPT !.p = q, !.f = c.f + inc, !.W = <<>>])
  ELSE IF id = 2 THEN
       LET ll == XLastLong(c.W) IN
       XGo([c EXCEPT !.p = c.p + 1, !.rg = c.f + 1, !.ri = 1, !.rl = L, !.rll = ll, !.rtr = XSumL(c.W, ll + 1)])
  ELSE LET pl == XPayload(d, c.p + 1, id, L, 0) IN
       IF ~pl.ok THEN XHalt(c, "fail")
       ELSE XEmit([c EXCEPT !.p = pl.next, !.W = Append(c.W, [id |-> id, L |-> L])],
                  [id |-> id, frame |-> c.f, at |-> pl.at, len |-> pl.len])

(* Steps are chained in blocks of XBlock so that the evaluation depth stays  *)
(* small for inputs with thousands of elements (a TLC concern only).         *)
XBlock == 96
RECURSIVE XRun(_, _, _, _)
XRun(d, n, c, k) ==              \* at most k steps: [c, exts, st]
  IF k = 0 THEN [c |-> c, exts |-> <<>>, st |-> "go"]
  ELSE LET s == XStep(d, n, c) IN
       IF s.st # "go" THEN [c |-> s.c, exts |-> s.out, st |-> s.st]
       ELSE LET r == XRun(d, n, s.c, k - 1) IN [r EXCEPT !.exts = s.out \o r.exts]
RECURSIVE XRunAll(_, _, _)
XRunAll(d, n, c) ==
  LET b == XRun(d, n, c, XBlock) IN
  IF b.st # "go" THEN [ok |-> b.st = "stop", exts |-> b.exts]
  ELSE LET r == XRunAll(d, n, b.c) IN [r EXCEPT !.exts = b.exts \o r.exts]

XStop == [ok |-> TRUE, exts |-> <<>>]

(* ParseRaw: [ok, exts]; when ~ok, exts are the extensions that are complete  *)
(* before the point at which the data becomes invalid (what a streaming      *)
(* parser has reported by then).  With no frames there is nothing to report. *)
ParseRaw(d, n) == IF n <= 0 THEN XStop ELSE XRunAll(d, n, XCursor0)

(* ParseAll: "invalid" or the sequence of [id, frame, at, len] in bitstream  *)
(* order.                                                                   *)
ParseAll(d, n) == LET r == ParseRaw(d, n) IN IF r.ok THEN r.exts ELSE "invalid"

ExtPayload(d, e) == SubSeq(d, e.at + 1, e.at + e.len)

(* the extensions with their payloads: sequence of [id, frame, data]        *)
XContentsOf(d, exts) == [i \in 1..Len(exts) |->
                           [id |-> exts[i].id, frame |-> exts[i].frame, data |-> ExtPayload(d, exts[i])]]
ExtContents(d, n) == XContentsOf(d, ParseRaw(d, n).exts)

(* frame order, bitstream (list) order within a frame                       *)
RECURSIVE XSortFrom(_, _, _)
XSortFrom(list, f, n) ==
  IF f >= n THEN <<>>
  ELSE SelectSeq(list, LAMBDA e : e.frame = f) \o XSortFrom(list, f + 1, n)
StableSortByFrame(list, n) == XSortFrom(list, 0, n)

ExtsOfFrame(list, f) == SelectSeq(list, LAMBDA e : e.frame = f)

-----------------------------------------------------------------------------
(* Generator contract.  list: sequence of [id, frame, data].                *)
GenArgsLegal(list, n) ==
  /\ n \in 0..MaxFrames
  /\ \A i \in 1..Len(list) :
        /\ list[i].id \in 3..127
        /\ list[i].frame \in 0..(n - 1)
        /\ (list[i].id < 32 => Len(list[i].data) <= 1)

(* out parses back to the same extensions per frame, in the same per-frame   *)
(* order, with identical payloads.  (Bitstream order is not frame order: a   *)
(* repeat puts extensions of later frames before the rest of this frame.)    *)
GenRoundTrip(list, n, out) ==
  LET r == ParseRaw(out, n) IN
  /\ r.ok
  /\ StableSortByFrame(XContentsOf(out, r.exts), n) = StableSortByFrame(list, n)

(* One call generate(buf, cap, list, n, pad) -> ret, with out = the first    *)
(* ret bytes of buf (<<>> when ret < 0 or the call was a dry run), judged    *)
(* against S = the size a dry run without padding reported for the list.     *)
GenOK(list, n, S, cap, pad, ret, out, dryrun) ==
  IF ~GenArgsLegal(list, n) THEN ret \in {BAD_ARG, BUFFER_TOO_SMALL}
  ELSE /\ S >= 0
       /\ IF cap < S THEN ret = BUFFER_TOO_SMALL
          ELSE /\ ret = (IF pad THEN cap ELSE S)
               /\ dryrun \/ (Len(out) = ret /\ GenRoundTrip(list, n, out))

(* A canonical serialisation (no repeats, explicit separators, every long    *)
(* extension laced): used to state the fixed-point theorem on the model.     *)
RECURSIVE XLaceBytes(_)
XLaceBytes(v) == IF v >= 255 THEN <<255>> \o XLaceBytes(v - 255) ELSE <<v>>
XEmitOne(e) == IF e.id < 32 THEN <<2 * e.id + Len(e.data)>> \o e.data
               ELSE <<2 * e.id + 1>> \o XLaceBytes(Len(e.data)) \o e.data
RECURSIVE XEmitFrom(_, _, _)
XEmitFrom(sorted, i, f) ==
  IF i > Len(sorted) THEN <<>>
  ELSE LET e == sorted[i]
           sep == IF e.frame = f THEN <<>> ELSE IF e.frame = f + 1 THEN <<2>> ELSE <<3, e.frame - f>> IN
       sep \o XEmitOne(e) \o XEmitFrom(sorted, i + 1, e.frame)
GenCanon(list, n) == XEmitFrom(StableSortByFrame(list, n), 1, 0)
=============================================================================
