---- MODULE ExtDbg ----
EXTENDS ExtTrace
Dbg == LET e == Tr[1] r == ParseRaw(e.d, e.n) IN
  /\ PrintT(<<"ok", r.ok, XList(e.list), XContentsOf(e.d, r.exts), XList(e.list) = XContentsOf(e.d, r.exts)>>)
  /\ PrintT(<<"gen", GenArgsLegal(XList(e.list), e.n), GenOK(XList(e.list), e.n, e.S, e.cap, e.pad = 1, e.r, e.out, FALSE), ParseRaw(e.out, e.n), StableSortByFrame(XList(e.list), e.n)>>)
  /\ PrintT(<<"rest", GenOK(XList(e.list), e.n, e.S, e.cap, e.pad=1, e.rd, <<>>, TRUE), Has(e, "rx"), Has(e,"rl")>>)
ASSUME Dbg
====
