------------------------------ MODULE ExtIter ------------------------------
(***************************************************************************)
(* The extension iterator (OpusExtensionIterator) as a state machine: one   *)
(* operator per public call, on an explicit state record.  Unlike Ext, this *)
(* module is shaped like the implementation, because C16 quantifies over    *)
(* call interleavings (reset / set_frame_max / find in the middle of an      *)
(* iteration) that only a stateful model can judge.  That it computes the   *)
(* format of module Ext is a theorem checked by TLC (Ext_mc!InvIterRefines). *)
(*                                                                         *)
(* State (offsets are 0-based from the start of the data d; d and the frame  *)
(* count n are parameters of every operator):                                *)
(*  pos        cursor in d                 rem      bytes left (-1: invalid) *)
(*  repFrom    start of the repeat window  repLen   its length               *)
(*  srcPos     cursor in the window        srcLen   bytes left in the window *)
(*  lastLong   offset just after the last long extension of the window (-1) *)
(*  trail      payload bytes of the short extensions after that extension   *)
(*  frame      current frame               repFrame frame being repeated (0: *)
(*  repL       L bit of the repeat indicator          not repeating)         *)
(*  frameMax   no extension of a frame >= frameMax is returned               *)
(***************************************************************************)
EXTENDS Ext

ItInit(d, n) ==
  [pos |-> 0, rem |-> Len(d), repFrom |-> 0, repLen |-> 0, srcPos |-> 0, srcLen |-> 0,
   lastLong |-> -1, trail |-> 0, frame |-> 0, repFrame |-> 0, repL |-> 0, frameMax |-> n]

ItReset(d, s) ==
  [s EXCEPT !.pos = 0, !.rem = Len(d), !.repFrom = 0, !.lastLong = -1, !.trail = 0, !.frame = 0, !.repFrame = 0]

ItSetFrameMax(s, m) == [s EXCEPT !.frameMax = m]

ItBad(pos) == [len |-> -1, pos |-> pos, hdr |-> 0]

(* laced length: bytes are read while they are 255; len is what remains      *)
RECURSIVE ItLace(_, _, _, _, _)
ItLace(d, pos, len, bytes, hdr) ==
  IF len < 1 THEN ItBad(pos)
  ELSE LET lacing == d[pos + 1] IN
       IF lacing = 255 THEN ItLace(d, pos + 1, len - 256, bytes + 255, hdr + 1)
       ELSE IF len - lacing - 1 < 0 THEN ItBad(pos)
       ELSE [len |-> len - lacing - 1, pos |-> pos + 1 + bytes + lacing, hdr |-> hdr + 1]

(* skip the payload of an extension whose id byte is b; pos is the offset of *)
(* the byte after the id byte, len the bytes left from there                 *)
ItSkipPayload(d, pos, len, b, trail) ==
  LET id == b \div 2  L == b % 2 IN
  IF (id = 0 /\ L = 1) \/ id = 2 THEN [len |-> len, pos |-> pos, hdr |-> 0]
  ELSE IF id > 0 /\ id < 32
       THEN IF len < L THEN ItBad(pos) ELSE [len |-> len - L, pos |-> pos + L, hdr |-> 0]
  ELSE IF L = 0
       THEN IF len < trail THEN ItBad(pos) ELSE [len |-> trail, pos |-> pos + len - trail, hdr |-> 0]
  ELSE ItLace(d, pos, len, 0, 0)

ItSkip(d, pos, len) ==
  IF len = 0 THEN [len |-> 0, pos |-> pos, hdr |-> 0]
  ELSE LET r == ItSkipPayload(d, pos + 1, len - 1, d[pos + 1], 0) IN
       IF r.len >= 0 THEN [r EXCEPT !.hdr = r.hdr + 1] ELSE ItBad(pos)

ItRes(s, ret, ext) == [st |-> s, ret |-> ret, ext |-> ext]

RECURSIVE ItNext(_, _, _), ItRepeating(_, _, _), ItMain(_, _, _)

(* opus_extension_iterator_next: result [st, ret, ext]; ext = <<id, frame,   *)
(* at, len>> when ret = 1                                                    *)
ItNext(d, n, s) ==
  IF s.rem < 0 THEN ItRes(s, INVALID_PACKET, <<>>)
  ELSE IF s.repFrame > 0 THEN ItRepeating(d, n, s)
  ELSE IF s.frame >= s.frameMax THEN ItRes(s, 0, <<>>)
  ELSE ItMain(d, n, s)

ItRepeating(d, n, s) ==
  IF s.repFrame < n
  THEN IF s.srcLen > 0
       THEN LET b  == d[s.srcPos + 1]
                sk == ItSkip(d, s.srcPos, s.srcLen)
                s1 == [s EXCEPT !.srcPos = sk.pos, !.srcLen = sk.len] IN
            IF b = 1             \* a run of one-byte paddings in the window is stepped over in one go
            THEN LET q  == XFirstNot(d, 1, s.srcPos + 1, s.srcPos + s.srcLen + 1) - 1
                     sp == [s EXCEPT !.srcPos = q, !.srcLen = s.srcLen - (q - s.srcPos)] IN
                 ItRepeating(d, n, sp)
            ELSE IF b <= 3 THEN ItRepeating(d, n, s1)     \* padding and zero-increment separators are not repeated
            ELSE LET b2 == IF s.repL = 0 /\ s.repFrame + 1 >= n /\ sk.pos = s.lastLong THEN b - (b % 2) ELSE b
                     pl == ItSkipPayload(d, s.pos, s.rem, b2, s.trail) IN
                 IF pl.len < 0 THEN ItRes([s1 EXCEPT !.rem = -1], INVALID_PACKET, <<>>)
                 ELSE LET s2 == [s1 EXCEPT !.pos = pl.pos, !.rem = pl.len] IN
                      IF s.repFrame >= s.frameMax THEN ItRepeating(d, n, s2)
                      ELSE ItRes(s2, 1, <<b2 \div 2, s.repFrame, s.pos + pl.hdr, pl.pos - s.pos - pl.hdr>>)
       ELSE ItRepeating(d, n, [s EXCEPT !.srcPos = s.repFrom, !.srcLen = s.repLen, !.repFrame = s.repFrame + 1])
  ELSE LET s1 == [s EXCEPT !.repFrom = s.pos, !.lastLong = -1, !.repFrame = 0,
                           !.frame = IF s.repL = 0 THEN s.frame + 1 ELSE s.frame,
                           !.rem = IF s.repL = 0 /\ s.frame + 1 >= n THEN 0 ELSE s.rem] IN
       IF s1.frame >= s1.frameMax THEN ItRes(s1, 0, <<>>) ELSE ItMain(d, n, s1)

ItMain(d, n, s) ==
  IF s.rem <= 0 THEN ItRes(s, 0, <<>>)
  ELSE LET b  == d[s.pos + 1]
           id == b \div 2
           L  == b % 2
           sk == ItSkip(d, s.pos, s.rem) IN
       IF sk.len < 0 THEN ItRes([s EXCEPT !.rem = -1], INVALID_PACKET, <<>>)
       ELSE LET s1 == [s EXCEPT !.pos = sk.pos, !.rem = sk.len] IN
       IF id = 1
       THEN LET inc == IF L = 0 THEN 1 ELSE d[s.pos + 2] IN
            IF inc = 0 THEN ItMain(d, n, s1)
            ELSE IF s.frame + inc >= n
                 THEN ItRes([s1 EXCEPT !.frame = s.frame + inc, !.rem = -1], INVALID_PACKET, <<>>)
                 ELSE ItMain(d, n, [s1 EXCEPT !.frame = s.frame + inc,
                                        !.rem = IF s.frame + inc >= s.frameMax THEN 0 ELSE sk.len,
                                        !.repFrom = sk.pos, !.lastLong = -1, !.trail = 0])
       ELSE IF id = 2
       THEN ItNext(d, n, [s1 EXCEPT !.repL = L, !.repFrame = s.frame + 1, !.repLen = s.pos - s.repFrom,
                              !.srcPos = s.repFrom, !.srcLen = s.pos - s.repFrom])
       ELSE IF id > 2
       THEN ItRes([s1 EXCEPT !.lastLong = IF id >= 32 THEN sk.pos ELSE @,
                             !.trail = IF id >= 32 THEN 0 ELSE @ + L],
                  1, <<id, s.frame, s.pos + sk.hdr, sk.pos - s.pos - sk.hdr>>)
       ELSE IF b = 1        \* a run of one-byte paddings is stepped over in one go (same result as byte by byte)
       THEN LET q == XFirstNot(d, 1, s.pos + 1, Len(d) + 1) - 1 IN
            ItMain(d, n, [s EXCEPT !.pos = q, !.rem = s.rem - (q - s.pos)])
       ELSE ItMain(d, n, s1)

(* opus_extension_iterator_find *)
RECURSIVE ItFind(_, _, _, _)
ItFind(d, n, s, id) ==
  LET r == ItNext(d, n, s) IN
  IF r.ret <= 0 THEN r ELSE IF r.ext[1] = id THEN r ELSE ItFind(d, n, r.st, id)

(* next until it stops: [ret, exts (sequence of <<id, frame, at, len>>), st] *)
RECURSIVE ItRun(_, _, _)
ItRun(d, n, s) ==
  LET r == ItNext(d, n, s) IN
  IF r.ret <= 0 THEN [ret |-> r.ret, exts |-> <<>>, st |-> r.st]
  ELSE LET t == ItRun(d, n, r.st) IN [t EXCEPT !.exts = <<r.ext>> \o t.exts]

(* what module Ext reports, in the iterator's tuple form *)
ExtQuads(exts) == [i \in 1..Len(exts) |-> <<exts[i].id, exts[i].frame, exts[i].at, exts[i].len>>]

(* opus_packet_extensions_count_ext / parse_ext: per-frame counts, then each  *)
(* extension is placed at the next free slot of its frame's range             *)
ItCountPerFrame(q, n) == [f \in 1..n |-> Len(SelectSeq(q, LAMBDA x : x[2] = f - 1))]
RECURSIVE ItPlace(_, _, _, _)
ItPlace(q, i, cum, out) ==          \* cum[f+1] = next free 1-based slot of frame f
  IF i > Len(q) THEN out
  ELSE LET f == q[i][2] + 1 IN ItPlace(q, i + 1, [cum EXCEPT ![f] = @ + 1], [out EXCEPT ![cum[f]] = q[i]])
RECURSIVE ItCum(_, _, _)
ItCum(cnt, f, acc) == IF f > Len(cnt) THEN <<>> ELSE <<acc + 1>> \o ItCum(cnt, f + 1, acc + cnt[f])
ItParseExt(q, n) == ItPlace(q, 1, ItCum(ItCountPerFrame(q, n), 1, 0), [i \in 1..Len(q) |-> <<>>])
=============================================================================
