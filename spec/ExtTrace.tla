----------------------------- MODULE ExtTrace -----------------------------
(* Validation of recorded calls of the extension API (harness/ext.c) against *)
(* modules Ext (format, generator contract) and ExtIter (iterator machine).   *)
(* Stateless: one initial state per recorded case, INVARIANT CaseOK.  An      *)
(* iterator call sequence is one case: its calls are folded through the       *)
(* ExtIter operators in order (ItOps).                                        *)
EXTENDS ExtIter, Json, IOUtils, TLC
VARIABLE l

Tr == ndJsonDeserialize(IOEnv.TRACE)

Has(e, k) == k \in DOMAIN e

(* every reported extension lies inside the buffer and belongs to a frame that exists *)
QuadsInside(q, len, n) ==
  \A i \in 1..Len(q) : /\ q[i][1] \in 3..127 /\ q[i][2] \in 0..(n - 1)
                       /\ q[i][3] >= 0 /\ q[i][4] >= 0 /\ q[i][3] + q[i][4] <= len

(* ---- parse side: parse, count, count_ext, parse_ext and a full iterator run on (d, n) ---- *)
ParseOK(e) ==
  LET r    == ParseRaw(e.d, e.n)
      q    == ExtQuads(r.exts)
      code == IF r.ok THEN OK ELSE INVALID_PACKET
      nq   == Len(q)
      small == IF nq > 0 THEN BUFFER_TOO_SMALL ELSE 0 IN
  /\ e.r = code /\ e.c = nq /\ e.ex = q                 \* opus_packet_extensions_parse = Ext!ParseAll
  /\ e.cnt = nq                                         \* _count agrees
  /\ e.sr = small                                       \* an output array one entry short is refused
  /\ e.cx = nq /\ e.nfe = ItCountPerFrame(q, e.n)       \* _count_ext agrees
  /\ e.px = code /\ e.pc = nq
  /\ e.pe = ExtQuads(StableSortByFrame(r.exts, e.n))    \* _parse_ext = stable sort by frame
  /\ e.psr = small
  /\ e.ir = code /\ e.ir2 = code /\ e.ie = q            \* iterating agrees, and the end is sticky
  /\ QuadsInside(e.ex, Len(e.d), e.n) /\ QuadsInside(e.pe, Len(e.d), e.n) /\ QuadsInside(e.ie, Len(e.d), e.n)

(* ---- iterator call sequences ---- *)
RECURSIVE ItOps(_, _, _, _, _)
ItOps(d, n, s, ops, i) ==
  IF i > Len(ops) THEN TRUE
  ELSE LET o == ops[i]  op == o[1]  arg == o[2] IN
       IF op = 0 \/ op = 3 \/ op = 4
       THEN LET r == IF op = 3 THEN ItFind(d, n, s, arg) ELSE ItNext(d, n, s) IN
            /\ o[3] = r.ret
            /\ (op # 4 /\ r.ret = 1) => <<o[4], o[5], o[6], o[7]>> = r.ext
            /\ ItOps(d, n, r.st, ops, i + 1)
       ELSE IF op = 1 THEN ItOps(d, n, ItReset(d, s), ops, i + 1)
       ELSE IF op = 2 THEN ItOps(d, n, ItSetFrameMax(s, arg), ops, i + 1)
       ELSE FALSE
IterOK(e) == ItOps(e.d, e.n, ItInit(e.d, e.n), e.ops, 1)

(* the obligations of the property alone on a call sequence (used to tell a   *)
(* broken property from a drift of the ExtIter sub-model).  As long as no     *)
(* frame_max below n has been set, iterating is determined by the format      *)
(* (ParseRaw from the last reset) and must be exact.  Otherwise: whatever is  *)
(* returned lies inside the buffer, belongs to an existing frame below the    *)
(* frame_max in force, is an extension of Ext!ParseRaw(d, n), and the data is *)
(* reported invalid only if it is                                            *)
RECURSIVE ItObl(_, _, _, _, _, _)
ItObl(e, r, q, ops, i, fmax) ==
  IF i > Len(ops) THEN TRUE
  ELSE LET o == ops[i] IN
       /\ o[3] \in {0, 1, INVALID_PACKET}
       /\ (o[3] = INVALID_PACKET) => ~r.ok
       /\ (o[1] \in {0, 3} /\ o[3] = 1) =>
             /\ o[5] \in 0..(e.n - 1) /\ o[5] < fmax /\ o[6] + o[7] <= Len(e.d)
             /\ \E j \in 1..Len(q) : q[j] = <<o[4], o[5], o[6], o[7]>>
             /\ o[1] = 3 => o[4] = o[2]
       /\ ItObl(e, r, q, ops, i + 1, IF o[1] = 2 THEN o[2] ELSE fmax)
IterObl(e) ==
  IF \A i \in 1..Len(e.ops) : e.ops[i][1] = 2 => e.ops[i][2] >= e.n
  THEN IterOK(e)
  ELSE LET r == ParseRaw(e.d, e.n) IN ItObl(e, r, ExtQuads(r.exts), e.ops, 1, e.n)

(* ---- generate side ---- *)
XList(l2) == [i \in 1..Len(l2) |-> [id |-> l2[i][1], frame |-> l2[i][2], data |-> l2[i][3]]]

GenEvOK(e) ==
  LET list == XList(e.list)
      pad  == e.pad = 1 IN
  IF ~GenArgsLegal(list, e.n)
  THEN /\ e.S \in {BAD_ARG, BUFFER_TOO_SMALL} /\ e.r \in {BAD_ARG, BUFFER_TOO_SMALL} /\ e.cl = 1
  ELSE /\ e.S >= 0
       /\ GenOK(list, e.n, e.S, e.cap, pad, e.r, e.out, FALSE)          \* the call with a real buffer
       /\ GenOK(list, e.n, e.S, e.cap, pad, e.rd, <<>>, TRUE)           \* the dry run with the same arguments
       /\ Has(e, "rx") => GenOK(list, e.n, e.S, e.S, FALSE, e.rx, e.ox, FALSE)   \* exact-size buffer suffices
       /\ Has(e, "rl") => /\ e.rl = BUFFER_TOO_SMALL /\ e.cl = 1         \* one byte less: refused, canaries intact
                          /\ e.rdl = BUFFER_TOO_SMALL
                          /\ e.rm = BUFFER_TOO_SMALL /\ e.cm = 1         \* any smaller capacity too

(* parse, then generate what was parsed, then parse: a fixed point per frame *)
RtOK(e) ==
  LET r == ParseRaw(e.d, e.n) IN
  /\ r.ok
  /\ XList(e.list) = XContentsOf(e.d, r.exts)
  /\ GenEvOK(e)

(* ---- repacketizer carriage (small driver; the full treatment is C07's) ---- *)
RECURSIVE RpExpected(_, _, _, _, _)
RpExpected(ins, i, off, b, en) ==
  IF i > Len(ins) THEN <<>>
  ELSE LET c == ExtContents(ins[i].pad, ins[i].m)
           mv == [j \in 1..Len(c) |-> [c[j] EXCEPT !.frame = c[j].frame + off - b]] IN
       SelectSeq(mv, LAMBDA x : x.frame >= 0 /\ x.frame < en - b) \o RpExpected(ins, i + 1, off + ins[i].m, b, en)
(* For every out_range [b, e) - including ranges that cut through an input     *)
(* packet - the output carries exactly the extensions of the selected audio     *)
(* frames, each on the output frame that holds its audio frame (i - b), with     *)
(* identical payloads and the per-frame order preserved.  Packets whose cat was  *)
(* refused (e.g. more than 120 ms) add no frames; the driver builds paddings     *)
(* that are well-formed extension lists and a range inside the accepted frames   *)
(* (re-checked here, so the obligation cannot hold vacuously).                   *)
RpOK(e) ==
  LET ins == SelectSeq(e["in"], LAMBDA p : p.cat = 0) IN
  /\ Len(ins) >= 1
  /\ \A i \in 1..Len(ins) : ParseRaw(ins[i].pad, ins[i].m).ok
  /\ 0 <= e.b /\ e.b < e.e /\ e.e <= SumSeq([i \in 1..Len(ins) |-> ins[i].m])
  /\ e.r > 0
  /\ e.m = e.e - e.b
  /\ GenRoundTrip(RpExpected(ins, 1, 0, e.b, e.e), e.m, e.pad)

CaseOK == LET e == Tr[l] IN
          CASE e.k = "parse" -> ParseOK(e)
            [] e.k = "iter"  -> IterOK(e)
            [] e.k = "gen"   -> GenEvOK(e)
            [] e.k = "rt"    -> RtOK(e)
            [] e.k = "rp"    -> RpOK(e)
            [] OTHER -> FALSE

CaseObl == LET e == Tr[l] IN e.k = "iter" => IterObl(e)

Init == l \in 1..Len(Tr)
Next == UNCHANGED l
Spec == Init /\ [][Next]_l
=============================================================================
