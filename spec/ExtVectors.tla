----------------------------- MODULE ExtVectors -----------------------------
(* The packets of tests/test_opus_extensions.c:test_extensions_repeating (the   *)
(* generator's output for the first nb_ext entries of the test's table, and the *)
(* test's hand-modified variants: repeat in the last frame and trailing junk    *)
(* after an L=0 repeat, padding before a repeat indicator, a zero-increment      *)
(* separator inside the window, an empty L=0 repeat, several repeat indicators   *)
(* per frame) with the extension lists the test expects (its table, in frame    *)
(* order).  VectorsOK: module Ext parses each packet to the expected list.       *)
(* Bytes printed by a scratch program that replays the test's steps on the       *)
(* pinned tree; expectations are the test's.                                    *)
EXTENDS Ext

V0genD == <<>>
V0genX == <<>>
V1genD == <<7, 97>>
V1genX == <<[id |-> 3, frame |-> 0, data |-> <<97>>]>>
V2genD == <<7, 97, 2, 7, 98>>
V2genX == <<[id |-> 3, frame |-> 0, data |-> <<97>>], [id |-> 3, frame |-> 1, data |-> <<98>>]>>
V3genD == <<7, 97, 4, 98, 99>>
V3genX == <<[id |-> 3, frame |-> 0, data |-> <<97>>], [id |-> 3, frame |-> 1, data |-> <<98>>], [id |-> 3, frame |-> 2, data |-> <<99>>]>>
V4genD == <<7, 97, 5, 98, 99, 9, 100>>
V4genX == <<[id |-> 3, frame |-> 0, data |-> <<97>>], [id |-> 4, frame |-> 0, data |-> <<100>>], [id |-> 3, frame |-> 1, data |-> <<98>>], [id |-> 3, frame |-> 2, data |-> <<99>>]>>
V5genD == <<7, 97, 5, 98, 99, 9, 100, 2, 8>>
V5genX == <<[id |-> 3, frame |-> 0, data |-> <<97>>], [id |-> 4, frame |-> 0, data |-> <<100>>], [id |-> 3, frame |-> 1, data |-> <<98>>], [id |-> 4, frame |-> 1, data |-> <<>>], [id |-> 3, frame |-> 2, data |-> <<99>>]>>
V6genD == <<7, 97, 5, 98, 99, 9, 100, 2, 8, 4>>
V6genX == <<[id |-> 3, frame |-> 0, data |-> <<97>>], [id |-> 4, frame |-> 0, data |-> <<100>>], [id |-> 3, frame |-> 1, data |-> <<98>>], [id |-> 4, frame |-> 1, data |-> <<>>], [id |-> 3, frame |-> 2, data |-> <<99>>], [id |-> 4, frame |-> 2, data |-> <<>>]>>
V6modD == <<7, 97, 5, 98, 99, 9, 100, 2, 8, 4, 4, 6>>
V6modX == <<[id |-> 3, frame |-> 0, data |-> <<97>>], [id |-> 4, frame |-> 0, data |-> <<100>>], [id |-> 3, frame |-> 1, data |-> <<98>>], [id |-> 4, frame |-> 1, data |-> <<>>], [id |-> 3, frame |-> 2, data |-> <<99>>], [id |-> 4, frame |-> 2, data |-> <<>>]>>
V7genD == <<7, 97, 5, 98, 99, 9, 100, 2, 8, 4, 64, 68, 82, 69, 68, 50>>
V7genX == <<[id |-> 3, frame |-> 0, data |-> <<97>>], [id |-> 4, frame |-> 0, data |-> <<100>>], [id |-> 3, frame |-> 1, data |-> <<98>>], [id |-> 4, frame |-> 1, data |-> <<>>], [id |-> 3, frame |-> 2, data |-> <<99>>], [id |-> 4, frame |-> 2, data |-> <<>>], [id |-> 32, frame |-> 2, data |-> <<68, 82, 69, 68, 50>>]>>
V8genD == <<7, 97, 5, 98, 99, 9, 100, 2, 8, 65, 4, 68, 82, 69, 68, 4, 68, 82, 69, 68, 50>>
V8genX == <<[id |-> 3, frame |-> 0, data |-> <<97>>], [id |-> 4, frame |-> 0, data |-> <<100>>], [id |-> 3, frame |-> 1, data |-> <<98>>], [id |-> 4, frame |-> 1, data |-> <<>>], [id |-> 32, frame |-> 1, data |-> <<68, 82, 69, 68>>], [id |-> 3, frame |-> 2, data |-> <<99>>], [id |-> 4, frame |-> 2, data |-> <<>>], [id |-> 32, frame |-> 2, data |-> <<68, 82, 69, 68, 50>>]>>
V8modD == <<7, 97, 5, 98, 99, 9, 100, 2, 8, 65, 4, 68, 82, 69, 68, 1, 4, 68, 82, 69, 68, 50>>
V8modX == <<[id |-> 3, frame |-> 0, data |-> <<97>>], [id |-> 4, frame |-> 0, data |-> <<100>>], [id |-> 3, frame |-> 1, data |-> <<98>>], [id |-> 4, frame |-> 1, data |-> <<>>], [id |-> 32, frame |-> 1, data |-> <<68, 82, 69, 68>>], [id |-> 3, frame |-> 2, data |-> <<99>>], [id |-> 4, frame |-> 2, data |-> <<>>], [id |-> 32, frame |-> 2, data |-> <<68, 82, 69, 68, 50>>]>>
V8mod2D == <<7, 97, 5, 98, 99, 5, 9, 100, 2, 8, 5, 65, 4, 68, 82, 69, 68, 1, 4, 68, 82, 69, 68, 50>>
V8mod2X == <<[id |-> 3, frame |-> 0, data |-> <<97>>], [id |-> 4, frame |-> 0, data |-> <<100>>], [id |-> 3, frame |-> 1, data |-> <<98>>], [id |-> 4, frame |-> 1, data |-> <<>>], [id |-> 32, frame |-> 1, data |-> <<68, 82, 69, 68>>], [id |-> 3, frame |-> 2, data |-> <<99>>], [id |-> 4, frame |-> 2, data |-> <<>>], [id |-> 32, frame |-> 2, data |-> <<68, 82, 69, 68, 50>>]>>
V9genD == <<7, 97, 5, 98, 99, 9, 100, 2, 8, 65, 4, 68, 82, 69, 68, 5, 5, 68, 82, 69, 68, 50, 10>>
V9genX == <<[id |-> 3, frame |-> 0, data |-> <<97>>], [id |-> 4, frame |-> 0, data |-> <<100>>], [id |-> 3, frame |-> 1, data |-> <<98>>], [id |-> 4, frame |-> 1, data |-> <<>>], [id |-> 32, frame |-> 1, data |-> <<68, 82, 69, 68>>], [id |-> 5, frame |-> 1, data |-> <<>>], [id |-> 3, frame |-> 2, data |-> <<99>>], [id |-> 4, frame |-> 2, data |-> <<>>], [id |-> 32, frame |-> 2, data |-> <<68, 82, 69, 68, 50>>]>>
V10genD == <<7, 97, 5, 98, 99, 9, 100, 2, 8, 65, 4, 68, 82, 69, 68, 10, 4, 68, 82, 69, 68, 50>>
V10genX == <<[id |-> 3, frame |-> 0, data |-> <<97>>], [id |-> 4, frame |-> 0, data |-> <<100>>], [id |-> 3, frame |-> 1, data |-> <<98>>], [id |-> 4, frame |-> 1, data |-> <<>>], [id |-> 32, frame |-> 1, data |-> <<68, 82, 69, 68>>], [id |-> 5, frame |-> 1, data |-> <<>>], [id |-> 3, frame |-> 2, data |-> <<99>>], [id |-> 4, frame |-> 2, data |-> <<>>], [id |-> 32, frame |-> 2, data |-> <<68, 82, 69, 68, 50>>], [id |-> 5, frame |-> 2, data |-> <<>>]>>
V10modD == <<7, 97, 5, 98, 99, 9, 100, 2, 8, 65, 4, 68, 82, 69, 68, 3, 0, 10, 4, 68, 82, 69, 68, 50>>
V10modX == <<[id |-> 3, frame |-> 0, data |-> <<97>>], [id |-> 4, frame |-> 0, data |-> <<100>>], [id |-> 3, frame |-> 1, data |-> <<98>>], [id |-> 4, frame |-> 1, data |-> <<>>], [id |-> 32, frame |-> 1, data |-> <<68, 82, 69, 68>>], [id |-> 5, frame |-> 1, data |-> <<>>], [id |-> 3, frame |-> 2, data |-> <<99>>], [id |-> 4, frame |-> 2, data |-> <<>>], [id |-> 32, frame |-> 2, data |-> <<68, 82, 69, 68, 50>>], [id |-> 5, frame |-> 2, data |-> <<>>]>>
V11genD == <<7, 97, 5, 98, 99, 9, 100, 2, 8, 65, 4, 68, 82, 69, 68, 10, 5, 5, 68, 82, 69, 68, 50, 2, 13, 102>>
V11genX == <<[id |-> 3, frame |-> 0, data |-> <<97>>], [id |-> 4, frame |-> 0, data |-> <<100>>], [id |-> 3, frame |-> 1, data |-> <<98>>], [id |-> 4, frame |-> 1, data |-> <<>>], [id |-> 32, frame |-> 1, data |-> <<68, 82, 69, 68>>], [id |-> 5, frame |-> 1, data |-> <<>>], [id |-> 3, frame |-> 2, data |-> <<99>>], [id |-> 4, frame |-> 2, data |-> <<>>], [id |-> 32, frame |-> 2, data |-> <<68, 82, 69, 68, 50>>], [id |-> 5, frame |-> 2, data |-> <<>>], [id |-> 6, frame |-> 2, data |-> <<102>>]>>
V12genD == <<7, 97, 5, 98, 99, 9, 100, 2, 8, 65, 4, 68, 82, 69, 68, 10, 13, 101, 4, 68, 82, 69, 68, 50, 102>>
V12genX == <<[id |-> 3, frame |-> 0, data |-> <<97>>], [id |-> 4, frame |-> 0, data |-> <<100>>], [id |-> 3, frame |-> 1, data |-> <<98>>], [id |-> 4, frame |-> 1, data |-> <<>>], [id |-> 32, frame |-> 1, data |-> <<68, 82, 69, 68>>], [id |-> 5, frame |-> 1, data |-> <<>>], [id |-> 6, frame |-> 1, data |-> <<101>>], [id |-> 3, frame |-> 2, data |-> <<99>>], [id |-> 4, frame |-> 2, data |-> <<>>], [id |-> 32, frame |-> 2, data |-> <<68, 82, 69, 68, 50>>], [id |-> 5, frame |-> 2, data |-> <<>>], [id |-> 6, frame |-> 2, data |-> <<102>>]>>
V13genD == <<7, 97, 5, 98, 99, 9, 100, 2, 8, 65, 4, 68, 82, 69, 68, 10, 13, 101, 5, 5, 68, 82, 69, 68, 50, 102, 2, 64, 68, 82, 69, 68, 116, 104, 114, 101, 101>>
V13genX == <<[id |-> 3, frame |-> 0, data |-> <<97>>], [id |-> 4, frame |-> 0, data |-> <<100>>], [id |-> 3, frame |-> 1, data |-> <<98>>], [id |-> 4, frame |-> 1, data |-> <<>>], [id |-> 32, frame |-> 1, data |-> <<68, 82, 69, 68>>], [id |-> 5, frame |-> 1, data |-> <<>>], [id |-> 6, frame |-> 1, data |-> <<101>>], [id |-> 3, frame |-> 2, data |-> <<99>>], [id |-> 4, frame |-> 2, data |-> <<>>], [id |-> 32, frame |-> 2, data |-> <<68, 82, 69, 68, 50>>], [id |-> 5, frame |-> 2, data |-> <<>>], [id |-> 6, frame |-> 2, data |-> <<102>>], [id |-> 32, frame |-> 2, data |-> <<68, 82, 69, 68, 116, 104, 114, 101, 101>>]>>
V13modD == <<7, 97, 5, 98, 99, 9, 100, 2, 8, 65, 4, 68, 82, 69, 68, 10, 13, 101, 5, 5, 68, 82, 69, 68, 50, 102, 4, 64, 68, 82, 69, 68, 116, 104, 114, 101, 101>>
V13modX == <<[id |-> 3, frame |-> 0, data |-> <<97>>], [id |-> 4, frame |-> 0, data |-> <<100>>], [id |-> 3, frame |-> 1, data |-> <<98>>], [id |-> 4, frame |-> 1, data |-> <<>>], [id |-> 32, frame |-> 1, data |-> <<68, 82, 69, 68>>], [id |-> 5, frame |-> 1, data |-> <<>>], [id |-> 6, frame |-> 1, data |-> <<101>>], [id |-> 3, frame |-> 2, data |-> <<99>>], [id |-> 4, frame |-> 2, data |-> <<>>], [id |-> 32, frame |-> 2, data |-> <<68, 82, 69, 68, 50>>], [id |-> 5, frame |-> 2, data |-> <<>>], [id |-> 6, frame |-> 2, data |-> <<102>>], [id |-> 32, frame |-> 2, data |-> <<68, 82, 69, 68, 116, 104, 114, 101, 101>>]>>

XVecOK(D, X) == LET r == ParseRaw(D, 3) IN r.ok /\ StableSortByFrame(XContentsOf(D, r.exts), 3) = X
VectorsOK ==
  /\ XVecOK(V0genD, V0genX)
  /\ XVecOK(V1genD, V1genX)
  /\ XVecOK(V2genD, V2genX)
  /\ XVecOK(V3genD, V3genX)
  /\ XVecOK(V4genD, V4genX)
  /\ XVecOK(V5genD, V5genX)
  /\ XVecOK(V6genD, V6genX)
  /\ XVecOK(V6modD, V6modX)
  /\ XVecOK(V7genD, V7genX)
  /\ XVecOK(V8genD, V8genX)
  /\ XVecOK(V8modD, V8modX)
  /\ XVecOK(V8mod2D, V8mod2X)
  /\ XVecOK(V9genD, V9genX)
  /\ XVecOK(V10genD, V10genX)
  /\ XVecOK(V10modD, V10modX)
  /\ XVecOK(V11genD, V11genX)
  /\ XVecOK(V12genD, V12genX)
  /\ XVecOK(V13genD, V13genX)
  /\ XVecOK(V13modD, V13modX)
=============================================================================
