------------------------------ MODULE Ext_mc ------------------------------
(* Exhaustive TLC runs for the extension format.                            *)
(*  SpecStr : every byte string over the reduced alphabet Sigma up to MaxLen *)
(*            x every n in NSet is a state; the theorems below are its       *)
(*            invariants (declarative format = iterator machine, agreement   *)
(*            of count/count_ext/parse_ext, extents inside the data, frames   *)
(*            below n, fixed point, reset, frame_max).                       *)
(*  SpecIt  : the iterator as a real state machine: every interleaving of    *)
(*            next / find / reset / set_frame_max on every string up to      *)
(*            ItLen; invariants on what each call returned and on the state.  *)
(* The alphabet is the small-scope argument of DESIGN 4.3: the format only   *)
(* distinguishes id bytes by (class, L) and length bytes by {< 255, 255}.    *)
EXTENDS ExtIter, ExtVectors, TLC, FiniteSets
CONSTANTS Sigma, MaxLen, NSet, ItLen, FindIds
VARIABLES d, n, stage, it, last

vars == <<d, n, stage, it, last>>

(* the hand-made packets of the repository's own test parse to what the test expects *)
ASSUME VectorsOK

Strs(lo, hi) == UNION {[1..j -> Sigma] : j \in lo..hi}

-----------------------------------------------------------------------------
(* SpecStr: two levels so that TLC's workers share the enumeration.          *)
InitStr == /\ n \in NSet /\ d \in Strs(0, 2) /\ stage = 0 /\ it = 0 /\ last = 0
NextStr == /\ stage = 0 /\ Len(d) = 2
           /\ \E x \in Strs(1, MaxLen - 2) : d' = d \o x
           /\ stage' = 1 /\ UNCHANGED <<n, it, last>>
SpecStr == InitStr /\ [][NextStr]_vars

R  == ParseRaw(d, n)
Q  == ExtQuads(R.exts)

(* the iterator, run to exhaustion, yields exactly the declarative parse,    *)
(* becomes invalid at the same point, and its end is sticky                  *)
IterRefines(r, q) ==
  LET run  == ItRun(d, n, ItInit(d, n))
      code == IF r.ok THEN OK ELSE INVALID_PACKET IN
  /\ run.exts = q /\ run.ret = code
  /\ ItNext(d, n, run.st).ret = code

(* every extension lies inside the data, belongs to an existing frame, has a *)
(* legal id; extents do not overlap and come in increasing order             *)
Inside(r, q) ==
  /\ \A i \in 1..Len(q) : /\ q[i][1] \in 3..127 /\ q[i][2] \in 0..(n - 1)
                          /\ q[i][3] >= 1 /\ q[i][4] >= 0 /\ q[i][3] + q[i][4] <= Len(d)
                          /\ (q[i][1] < 32 => q[i][4] <= 1)
  /\ \A i \in 1..(Len(q) - 1) : q[i][3] + q[i][4] <= q[i + 1][3]
  /\ Len(q) <= Len(d) * n

(* count_ext sums to count, parse_ext (slot placement) = stable sort by frame *)
ParseExtSorted(r, q) ==
  /\ SumSeq(ItCountPerFrame(q, n)) = Len(q)
  /\ ItParseExt(q, n) = ExtQuads(StableSortByFrame(r.exts, n))

(* parse -> generate -> parse is a fixed point on lists (with the canonical  *)
(* serialisation as the generator; the real generator is bound by GenOK)     *)
FixedPoint(r, q) ==
  r.ok => LET L1 == XContentsOf(d, r.exts)
              c  == GenCanon(L1, n)
              R2 == ParseRaw(c, n)
              L2 == XContentsOf(c, R2.exts) IN
          /\ GenArgsLegal(L1, n)
          /\ R2.ok /\ L2 = StableSortByFrame(L1, n)      \* (this is GenRoundTrip(L1, n, c), L2 being in frame order)
          /\ GenCanon(L2, n) = c

InvIterRefines == IterRefines(R, Q)
InvInside      == Inside(R, Q)
InvParseExt    == ParseExtSorted(R, Q)
InvFixedPoint  == FixedPoint(R, Q)
(* the four of them with the parse shared (used by the big runs) *)
InvCore == LET r == ParseRaw(d, n)  q == ExtQuads(r.exts) IN
           IterRefines(r, q) /\ Inside(r, q) /\ ParseExtSorted(r, q) /\ FixedPoint(r, q)

(* the state after k calls of next *)
RECURSIVE AfterK(_, _)
AfterK(s, k) == IF k = 0 THEN s ELSE AfterK(ItNext(d, n, s).st, k - 1)
Drop(q, k) == SubSeq(q, k + 1, Len(q))
IsPrefix(a, b) == Len(a) <= Len(b) /\ SubSeq(b, 1, Len(a)) = a

(* reset at any point restarts the iteration from the first extension        *)
InvReset ==
  LET fresh == ItRun(d, n, ItInit(d, n)) IN
  \A k \in 0..(Len(Q) + 1) :
     LET run == ItRun(d, n, ItReset(d, AfterK(ItInit(d, n), k))) IN
     run.exts = fresh.exts /\ run.ret = fresh.ret

(* set_frame_max(m) at any point: afterwards no extension of a frame >= m is *)
(* returned, nothing below m is lost, and a valid string is never reported    *)
(* invalid                                                                   *)
InvFrameMax ==
  \A k \in 0..Len(Q), m \in 0..n :
     LET run  == ItRun(d, n, ItSetFrameMax(AfterK(ItInit(d, n), k), m))
         want == SelectSeq(Drop(Q, k), LAMBDA x : x[2] < m) IN
     /\ \A i \in 1..Len(run.exts) : run.exts[i][2] < m
     /\ IsPrefix(run.exts, want)
     /\ R.ok => (run.exts = want /\ run.ret = 0)
     /\ run.ret \in {0, INVALID_PACKET}

InvHeavy == InvReset /\ InvFrameMax

-----------------------------------------------------------------------------
(* SpecIt: the iterator object under arbitrary call interleavings.           *)
InitIt == /\ n \in NSet /\ d \in Strs(0, ItLen) /\ stage = 2
          /\ it = ItInit(d, n) /\ last = <<"init">>
DoNext == /\ stage = 2 /\ UNCHANGED <<d, n, stage>>
          /\ LET r == ItNext(d, n, it) IN
             /\ it' = r.st /\ last' = <<"next", r.ret, r.ext, it.frameMax, 0>>
DoFind == /\ stage = 2 /\ UNCHANGED <<d, n, stage>>
          /\ \E id \in FindIds : LET r == ItFind(d, n, it, id) IN
             /\ it' = r.st /\ last' = <<"find", r.ret, r.ext, it.frameMax, id>>
DoReset == /\ stage = 2 /\ UNCHANGED <<d, n, stage>>
           /\ it' = ItReset(d, it) /\ last' = <<"reset">>
DoSetFrameMax == /\ stage = 2 /\ UNCHANGED <<d, n, stage>>
                 /\ \E m \in 0..n : /\ it' = ItSetFrameMax(it, m) /\ last' = <<"fmax">>
NextIt == DoNext \/ DoFind \/ DoReset \/ DoSetFrameMax
SpecIt == InitIt /\ [][NextIt]_vars

InvCall ==
  last[1] \in {"next", "find"} =>
     /\ last[2] \in {0, 1, INVALID_PACKET}
     /\ last[2] = 1 =>
          LET x == last[3] IN
          /\ x[2] \in 0..(n - 1) /\ x[2] < last[4]
          /\ x[3] >= 1 /\ x[4] >= 0 /\ x[3] + x[4] <= Len(d)
          /\ \E j \in 1..Len(Q) : Q[j] = x
          /\ last[1] = "find" => x[1] = last[5]
     /\ (last[2] = INVALID_PACKET) => ~R.ok

(* the consistency the implementation asserts (celt_assert) *)
InvState ==
  /\ it.rem >= -1
  /\ it.rem >= 0 => it.pos + it.rem = Len(d) \/ (it.rem = 0 /\ it.pos <= Len(d))
  /\ it.srcLen >= 0 /\ it.repFrame >= 0 /\ it.frame >= 0
  /\ it.repFrom <= it.pos /\ it.srcPos + it.srcLen <= Len(d)
=============================================================================
