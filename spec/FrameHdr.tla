------------------------------ MODULE FrameHdr ------------------------------
(***************************************************************************)
(* The bit-exact frame-header layers of the two codecs of Opus, written as  *)
(* decoders (and mirror-image encoders) of SYMBOL SEQUENCES:                *)
(*                                                                         *)
(*  (a) the MDCT-layer frame header, RFC 6716 section 4.3 (Table 56):       *)
(*      silence, post-filter (octave, period, gain, tapset), transient,     *)
(*      intra, coarse energy, tf_change/tf_select, spread, dynalloc boosts, *)
(*      allocation trim, and the anti-collapse / skip / intensity /         *)
(*      dual-stereo reservations - each with its exact budget guard and the *)
(*      default taken when the guard fails.                                 *)
(*      Code: celt/celt_decoder.c celt_decode_with_ec, tf_decode;           *)
(*      celt/quant_bands.c unquant_coarse_energy; celt/rate.c               *)
(*      clt_compute_allocation (the reservations); mirrored in              *)
(*      celt/celt_encoder.c.                                                *)
(*                                                                         *)
(*  (b) the speech-layer packet header, RFC 6716 sections 4.2.3 - 4.2.7:    *)
(*      VAD flags and LBRR flag per channel, per-frame LBRR flags, LBRR     *)
(*      frames before regular frames, stereo prediction weights and the     *)
(*      mid-only flag, the choice of conditional coding, nFramesDecoded     *)
(*      bookkeeping, normal / lost / FEC (LBRR) decoding.                   *)
(*      Code: silk/dec_API.c silk_Decode, silk/decode_frame.c; mirrored in  *)
(*      silk/enc_API.c silk_Encode.                                         *)
(*                                                                         *)
(* The guards of (a) compare ec_tell()/ec_tell_frac() with the budget, so   *)
(* the model carries the part of the range coder that decides them: the     *)
(* pair (nbits_total, rng).  It evolves with the coded symbols only - the   *)
(* same way in ec_enc and ec_dec - and never needs the code value, so the   *)
(* header layer is a function of the ABSTRACT SYMBOL STREAM: a sequence of  *)
(* integer choices, one consumed per symbol that is actually read.          *)
(*                                                                         *)
(* An operation (op) is a tuple <<kind, p, q, v>>:                          *)
(*   <<1, logp, 0, bit>>      ec_*_bit_logp                                 *)
(*   <<2, ftb, table, sym>>   ec_*_icdf with table TblById[table]           *)
(*   <<3, ft, 0, sym>>        ec_*_uint   (ft <= 256 here)                  *)
(*   <<4, n, 0, value>>       ec_*_bits   (raw bits)                        *)
(*   <<5, fs, decay, value>>  ec_laplace_*                                  *)
(*   <<7, k, 0, 0>>           k one-bit symbols (logp 1) of value 0            *)
(*   <<6, f, c, seed>>        one speech frame body (indices + excitation), *)
(*                            f = 100*channel + 10*frame + lbrr,            *)
(*                            c = 10*condCoding + voiceActivityClass        *)
(* Every machine logs the ops it reads (with tell, tell_frac and rng after  *)
(* the op) and, separately, every decision incl. the skipped symbols.       *)
(***************************************************************************)
EXTENDS OpusConst

R == INSTANCE RangeDec32 WITH CODE_BITS <- 32, SYM_BITS <- 8, UINT_BITS <- 8, WINDOW <- 32, BITRES <- 3

P2(n) == 2 ^ n
Xor(a, b) == (a + b) % 2
Only(s) == CHOOSE x \in s : TRUE

-----------------------------------------------------------------------------
(* Tables (RFC 6716 section 4.3 / celt/*.c, section 4.2 / silk/tables_other.c) *)

NbEBands == 21
EBands == <<0, 1, 2, 3, 4, 5, 6, 7, 8, 10, 12, 14, 16, 20, 24, 28, 34, 40, 48, 60, 78, 100>>
BandWidth(i) == EBands[i + 2] - EBands[i + 1]             \* band i, 0-based

\* e_prob_model[LM][intra][2*band], [2*band+1]: Laplace parameters of the coarse energy
EProb ==
<<
  << <<72, 127, 65, 129, 66, 128, 65, 128, 64, 128, 62, 128, 64, 128, 64, 128, 92, 78, 92, 79, 92, 78, 90, 79, 116, 41, 115, 40, 114, 40, 132, 26, 132, 26, 145, 17, 161, 12, 176, 10, 177, 11>>,
     <<24, 179, 48, 138, 54, 135, 54, 132, 53, 134, 56, 133, 55, 132, 55, 132, 61, 114, 70, 96, 74, 88, 75, 88, 87, 74, 89, 66, 91, 67, 100, 59, 108, 50, 120, 40, 122, 37, 97, 43, 78, 50>> >>,
  << <<83, 78, 84, 81, 88, 75, 86, 74, 87, 71, 90, 73, 93, 74, 93, 74, 109, 40, 114, 36, 117, 34, 117, 34, 143, 17, 145, 18, 146, 19, 162, 12, 165, 10, 178, 7, 189, 6, 190, 8, 177, 9>>,
     <<23, 178, 54, 115, 63, 102, 66, 98, 69, 99, 74, 89, 71, 91, 73, 91, 78, 89, 86, 80, 92, 66, 93, 64, 102, 59, 103, 60, 104, 60, 117, 52, 123, 44, 138, 35, 133, 31, 97, 38, 77, 45>> >>,
  << <<61, 90, 93, 60, 105, 42, 107, 41, 110, 45, 116, 38, 113, 38, 112, 38, 124, 26, 132, 27, 136, 19, 140, 20, 155, 14, 159, 16, 158, 18, 170, 13, 177, 10, 187, 8, 192, 6, 175, 9, 159, 10>>,
     <<21, 178, 59, 110, 71, 86, 75, 85, 84, 83, 91, 66, 88, 73, 87, 72, 92, 75, 98, 72, 105, 58, 107, 54, 115, 52, 114, 55, 112, 56, 129, 51, 132, 40, 150, 33, 140, 29, 98, 35, 77, 42>> >>,
  << <<42, 121, 96, 66, 108, 43, 111, 40, 117, 44, 123, 32, 120, 36, 119, 33, 127, 33, 134, 34, 139, 21, 147, 23, 152, 20, 158, 25, 154, 26, 166, 21, 173, 16, 184, 13, 184, 10, 150, 13, 139, 15>>,
     <<22, 178, 63, 114, 74, 82, 84, 83, 92, 82, 103, 62, 96, 72, 96, 67, 101, 73, 107, 72, 113, 55, 118, 52, 125, 52, 118, 52, 117, 55, 135, 49, 137, 39, 157, 32, 145, 29, 97, 33, 77, 40>> >>
>>

\* cache.caps[NbEBands*(2*LM+C-1)+band] of the 48 kHz / 960 mode
Caps ==
<<
   224, 224, 224, 224, 224, 224, 224, 224, 160, 160, 160, 160, 185, 185, 185, 178, 178, 168, 134, 61, 37,
   224, 224, 224, 224, 224, 224, 224, 224, 240, 240, 240, 240, 207, 207, 207, 198, 198, 183, 144, 66, 40,
   160, 160, 160, 160, 160, 160, 160, 160, 185, 185, 185, 185, 193, 193, 193, 183, 183, 172, 138, 64, 38,
   240, 240, 240, 240, 240, 240, 240, 240, 207, 207, 207, 207, 204, 204, 204, 193, 193, 180, 143, 66, 40,
   185, 185, 185, 185, 185, 185, 185, 185, 193, 193, 193, 193, 193, 193, 193, 183, 183, 172, 138, 65, 39,
   207, 207, 207, 207, 207, 207, 207, 207, 204, 204, 204, 204, 201, 201, 201, 188, 188, 176, 141, 66, 40,
   193, 193, 193, 193, 193, 193, 193, 193, 193, 193, 193, 193, 194, 194, 194, 184, 184, 173, 139, 65, 39,
   204, 204, 204, 204, 204, 204, 204, 204, 201, 201, 201, 201, 198, 198, 198, 187, 187, 175, 140, 66, 40
>>
\* init_caps(): cap[i] = (caps+64)*C*N >> 2, N = width << LM
CapOf(i, LM, C) == ((Caps[NbEBands * (2 * LM + C - 1) + i + 1] + 64) * C * (BandWidth(i) * P2(LM))) \div 4

Log2Frac == <<0, 8, 13, 16, 19, 21, 23, 24, 26, 27, 28, 29, 30, 31, 32, 32, 33, 34, 34, 35, 36, 36, 37, 37>>

\* tf_select_table[LM][4*isTransient + 2*tf_select + tf_changed/raw]
TfSel == << <<0, -1, 0, -1, 0, -1, 0, -1>>,
            <<0, -1, 0, -2, 1, 0, 1, -1>>,
            <<0, -2, 0, -3, 2, 0, 1, -1>>,
            <<0, -2, 0, -3, 3, 0, 1, -1>> >>

\* inverse-CDF tables by number
T_TAPSET == 1   T_SMALL == 2   T_SPREAD == 3   T_TRIM == 4   T_LBRR2 == 5   T_LBRR3 == 6
T_JOINT == 7    T_UNI3 == 8    T_UNI5 == 9     T_MIDONLY == 10
TblById ==
<< <<2, 1, 0>>,                                              \* tapset_icdf (ftb 2)
   <<2, 1, 0>>,                                              \* small_energy_icdf (ftb 2)
   <<25, 23, 2, 0>>,                                         \* spread_icdf (ftb 5)
   <<126, 124, 119, 109, 87, 41, 19, 9, 4, 2, 0>>,           \* trim_icdf (ftb 7)
   <<203, 150, 0>>,                                          \* silk_LBRR_flags_2_iCDF (ftb 8)
   <<215, 195, 166, 125, 110, 82, 0>>,                       \* silk_LBRR_flags_3_iCDF
   <<249, 247, 246, 245, 244, 234, 210, 202, 201, 200, 197, 174, 82, 59, 56, 55, 54, 46, 22, 12, 11, 10, 9, 7, 0>>,  \* silk_stereo_pred_joint_iCDF
   <<171, 85, 0>>,                                           \* silk_uniform3_iCDF
   <<205, 154, 102, 51, 0>>,                                 \* silk_uniform5_iCDF
   <<64, 0>> >>                                              \* silk_stereo_only_code_mid_iCDF

SPREAD_NORMAL == 2
TRIM_DEFAULT == 5
CODE_INDEPENDENTLY == 0
CODE_INDEPENDENTLY_NO_LTP_SCALING == 1
CODE_CONDITIONALLY == 2
FLAG_DECODE_NORMAL == 0
FLAG_PACKET_LOST == 1
FLAG_DECODE_LBRR == 2

-----------------------------------------------------------------------------
(* The bit counter of the range coder: c = [nbits, rm], rm = rng - 1 (R6).  *)
(* ec_enc_init / ec_dec_init both leave nbits_total = 33, rng = 2^31.       *)

RcInit == [nbits |-> 33, rm |-> R!TOPM]
RECURSIVE RcNorm(_)
RcNorm(c) == IF c.rm < 8388608 THEN RcNorm([nbits |-> c.nbits + 8, rm |-> c.rm * 256 + 255]) ELSE c
\* a symbol occupying [fl, fh) of ft (ec_encode / ec_dec_update; r = rng/ft, or rng>>bits when ft = 2^bits)
RcSym(c, fl, fh, ft) ==
  LET ext == R!DivP1(c.rm, ft) IN
  RcNorm([c EXCEPT !.rm = IF fl > 0 THEN ext * (fh - fl) - 1 ELSE c.rm - ext * (ft - fh)])
RcRaw(c, n) == [c EXCEPT !.nbits = c.nbits + n]
\* ilog(rng) for rng = rm+1 in (2^23, 2^31], as a comparison chain (FrameHdr_mc checks it against RangeDec32)
IlogRng(rm) == IF rm >= 1073741823 THEN (IF rm = 2147483647 THEN 32 ELSE 31)
               ELSE IF rm >= 536870911 THEN 30 ELSE IF rm >= 268435455 THEN 29 ELSE IF rm >= 134217727 THEN 28
               ELSE IF rm >= 67108863 THEN 27 ELSE IF rm >= 33554431 THEN 26 ELSE IF rm >= 16777215 THEN 25 ELSE 24
Tell(c) == c.nbits - IlogRng(c.rm)
\* ec_tell_frac: 8*nbits - (8*ilog + the 3-bit fraction of log2 of the top 16 bits of rng)
TellFrac(c) ==
  LET lg == IlogRng(c.rm)
      m == R!DivP1(c.rm, P2(lg - 16))
      b == (m \div 4096) - 8 IN
  8 * c.nbits - (8 * lg + b + (IF m > R!Correction[b + 1] THEN 1 ELSE 0))
TellAgrees(c) == Tell(c) = c.nbits - R!IlogP1(c.rm) /\ TellFrac(c) = R!TellFracOf(c.nbits, c.rm, TRUE)

\* ec_laplace_encode(fs0, decay, v), laplace.c transcribed: <<fl, fh, value after the encoder's clamping>> of 32768.
\* (FrameHdrLap_mc checks it against the declarative Laplace model of SymCodes, which TLC is too slow to load everywhere)
LapFreq1(fs0, decay) == ((32768 - 32 - fs0) * (16384 - decay)) \div 32768
RECURSIVE LapSearch(_, _, _, _, _)
LapSearch(fl, fs, i, a, decay) ==
  IF fs > 0 /\ i < a THEN LapSearch(fl + 2 * fs + 2, (2 * fs * decay) \div 32768, i + 1, a, decay) ELSE <<fl, fs, i>>
LapEnc(fs0, decay, v) ==
  IF v = 0 THEN <<0, fs0, 0>>
  ELSE LET neg == v < 0
           a == IF neg THEN -v ELSE v
           r == LapSearch(fs0, LapFreq1(fs0, decay), 1, a, decay)
           fl == r[1]  fs == r[2]  i == r[3] IN
       IF fs = 0
       THEN LET ndi == IF neg THEN (32768 - fl + 1) \div 2 ELSE (32768 - fl) \div 2
                di == Min(a - i, ndi - 1)
                fl2 == fl + 2 * di + (IF neg THEN 0 ELSE 1)
                fs2 == Min(1, 32768 - fl2)
            IN <<fl2, fl2 + fs2, IF neg THEN -(i + di) ELSE i + di>>
       ELSE IF neg THEN <<fl, fl + fs + 1, v>> ELSE <<fl + fs + 1, fl + 2 * (fs + 1), v>>

\* [fl, fh) of ft for each kind of op
IcdfIv(tid, ftb, s) ==
  LET T == TblById[tid]  ft == P2(ftb) IN <<IF s = 0 THEN 0 ELSE ft - T[s], ft - T[s + 1], ft>>
BitIv(logp, b) == LET ft == P2(logp) IN IF b = 1 THEN <<ft - 1, ft, ft>> ELSE <<0, ft - 1, ft>>
\* worst-case cost in whole bits of a symbol of the kind (ceil(-log2(min probability)))
RECURSIVE MinGap(_, _, _)
MinGap(T, k, prev) == IF k > Len(T) THEN 100000 ELSE Min(prev - T[k], MinGap(T, k + 1, T[k]))
CeilLog2(x) == R!Ilog(x - 1)                                  \* x >= 1
IcdfWorstBits(tid, ftb) == LET T == TblById[tid] IN ftb - (R!Ilog(MinGap(T, 1, P2(ftb))) - 1)

\* k one-bit symbols halve the range k times: from the initial state in closed form (FrameHdr_mc: PreClosedForm)
RECURSIVE Halve(_, _)
Halve(c, k) == IF k = 0 THEN c ELSE Halve(RcSym(c, 0, 1, 2), k - 1)
RcPre(c, k) == IF c = RcInit /\ k > 0
               THEN [nbits |-> 33 + 8 * (k \div 8), rm |-> IF k % 8 = 0 THEN R!TOPM ELSE P2(31 - (k % 8)) - 1]
               ELSE Halve(c, k)
\* the effect of op on the counter (kind 6 is opaque)
RcOp(c, op) ==
  CASE op[1] = 1 -> LET iv == BitIv(op[2], op[4]) IN RcSym(c, iv[1], iv[2], iv[3])
    [] op[1] = 2 -> LET iv == IcdfIv(op[3], op[2], op[4]) IN RcSym(c, iv[1], iv[2], iv[3])
    [] op[1] = 3 -> RcSym(c, op[4], op[4] + 1, op[2])
    [] op[1] = 4 -> RcRaw(c, op[2])
    [] op[1] = 5 -> LET iv == LapEnc(op[2], op[3], op[4]) IN RcSym(c, iv[1], iv[2], 32768)
    [] op[1] = 7 -> RcPre(c, op[2])
    [] OTHER -> c

-----------------------------------------------------------------------------
(* Machine state shared by all the layers.                                  *)
(*  rq    the request: frame parameters and the abstract symbol stream vals *)
(*  c     bit counter; i index of the next unused choice                    *)
(*  ops   the symbols read so far, dl every decision incl. skipped symbols   *)
(*  need  the first steering op that found the stream exhausted (<<>>: none) *)
(*        and needAt its position in the stream - used by the model checker  *)
(*        to extend the stream one choice at a time                          *)
(*  pc    what is decided next; h the header decoded so far; x scratch      *)

Choice(ds) == IF ds.i <= Len(ds.rq.vals) THEN ds.rq.vals[ds.i] ELSE 0

\* a step keeps the counter after the op (c.nbits = -1: unknown, after an opaque frame body)
MkStep(name, op, c2, cok) == [n |-> name, op |-> op, c |-> IF cok THEN c2 ELSE [nbits |-> -1, rm |-> 0]]
StepTell(s) == IF s.c.nbits < 0 THEN -1 ELSE Tell(s.c)
StepFrac(s) == IF s.c.nbits < 0 THEN -1 ELSE TellFrac(s.c)
StepRng(s) == IF s.c.nbits < 0 THEN <<0, 0>> ELSE R!RngHalves(s.c.rm)

\* a symbol with an explicit value (the writers), consuming no choice
Put(ds, name, op) ==
  LET cok == ds.cok /\ op[1] # 6
      c2 == IF cok THEN RcOp(ds.c, op) ELSE ds.c IN
  [ds EXCEPT !.c = c2, !.cok = cok, !.last = op[4],
             !.ops = Append(ds.ops, MkStep(name, op, c2, cok)),
             !.dl = Append(ds.dl, <<name, TRUE>>)]
\* a symbol whose value is the next choice of the stream (the readers); val(ch) maps the choice
\* into the alphabet of the symbol
\* symbols whose value steers nothing (neither a later decision nor the counter): raw bits, the stereo weights,
\* the frame bodies; an exhausted stream reads them as 0 without asking for more
Steers(op3) == op3[1] \notin {4, 6} /\ ~(op3[1] = 2 /\ op3[3] \in {T_JOINT, T_UNI3, T_UNI5})
Get(ds, name, op3, v) ==
  LET d == Put(ds, name, <<op3[1], op3[2], op3[3], v>>)
      ask == ds.need = <<>> /\ ds.i > Len(ds.rq.vals) /\ Steers(op3) IN
  [d EXCEPT !.i = ds.i + 1,
            !.need = IF ask THEN op3 ELSE ds.need,
            !.needAt = IF ask THEN ds.i ELSE ds.needAt]
Skip(ds, name) == [ds EXCEPT !.dl = Append(ds.dl, <<name, FALSE>>)]

RdBit(ds, name, logp)       == Get(ds, name, <<1, logp, 0>>, Choice(ds) % 2)
RdIcdf(ds, name, tid, ftb)  == Get(ds, name, <<2, ftb, tid>>, Choice(ds) % Len(TblById[tid]))
RdUint(ds, name, ft)        == Get(ds, name, <<3, ft, 0>>, Choice(ds) % ft)
RdRaw(ds, name, n)          == Get(ds, name, <<4, n, 0>>, Choice(ds) % P2(n))
RdLap(ds, name, fs, decay)  == Get(ds, name, <<5, fs, decay>>, LapEnc(fs, decay, Choice(ds))[3])
RdBody(ds, name, f, cc)     == Get(ds, name, <<6, f, cc>>, Choice(ds) % 1000000)

-----------------------------------------------------------------------------
(* (a) MDCT-layer frame header.                                             *)
(* Request: [len, LM, C, start, end, pre, vals]: len bytes (budget 8*len    *)
(* bits, also dec->storage*8), frame size 120<<LM, C coded channels, bands   *)
(* start..end-1, pre one-bit symbols already consumed from the same range    *)
(* coder before the frame starts (the speech layer of a hybrid frame; tell   *)
(* at frame start is 1+pre).                                                 *)

H0 == [silence |-> 0, pf |-> 0, octave |-> 0, period |-> 0, qg |-> 0, tapset |-> 0, transient |-> 0,
       intra |-> 0, coarse |-> <<>>, tfraw |-> <<>>, tfsel |-> 0, tfres |-> <<>>, spread |-> SPREAD_NORMAL,
       offsets |-> <<>>, trim |-> TRIM_DEFAULT, bits |-> 0, acr |-> 0, skip |-> 0, irsv |-> 0, drsv |-> 0,
       atotal |-> 0, tell0 |-> 0]
X0 == [k |-> 0, tfb |-> 0, logp |-> 0, curr |-> 0, chg |-> 0, rsv |-> FALSE, totf |-> 0, tellf |-> 0,
       dlogp |-> 6, llogp |-> 0, boost |-> 0, tboost |-> 0, nb |-> 0]

InitDs(rq, pc0) == [rq |-> rq, c |-> RcInit, cok |-> TRUE, i |-> 1, ops |-> <<>>, dl |-> <<>>, need |-> <<>>, needAt |-> 0,
                    last |-> 0, pc |-> pc0, b |-> 0, ch |-> 0, tellv |-> 0, h |-> H0,
                    x |-> [X0 EXCEPT !.k = rq.pre]]

Total(rq) == 8 * rq.len
SmallToQi(s) == IF s = 0 THEN 0 ELSE IF s = 1 THEN -1 ELSE 1       \* (s>>1) ^ -(s&1)
QiToSmall(q) == IF q = 0 THEN 0 ELSE IF q < 0 THEN 1 ELSE 2        \* 2*qi ^ -(qi<0)
TfMap(LM, tr, sel, raw) == TfSel[LM + 1][4 * tr + 2 * sel + raw + 1]
TfSelMatters(LM, tr, chg) == TfSel[LM + 1][4 * tr + chg + 1] # TfSel[LM + 1][4 * tr + 2 + chg + 1]
Quanta(i, LM, C) == LET w == C * BandWidth(i) * P2(LM) IN Min(8 * w, Max(48, w))

\* the reservations taken after the last header symbol: celt_decode_with_ec (anti-collapse) and the
\* head of clt_compute_allocation (skip, intensity, dual stereo); everything in 1/8 bit
\* head of clt_compute_allocation(total, C, start, end): skip, intensity, dual stereo
AllocRsv(total, C, nbands) ==
  LET t0 == Max(total, 0)
      skip == IF t0 >= 8 THEN 8 ELSE 0
      t1 == t0 - skip
      ir0 == IF C = 2 THEN Log2Frac[nbands + 1] ELSE 0
      irsv == IF ir0 > t1 THEN 0 ELSE ir0
      t2 == t1 - irsv
      drsv == IF C = 2 /\ ir0 <= t1 /\ t2 >= 8 THEN 8 ELSE 0
  IN [skip |-> skip, irsv |-> irsv, drsv |-> drsv, atotal |-> t2 - drsv]
Reserve(h, rq, tellf) ==
  LET bits0 == 64 * rq.len - tellf - 1
      acr == IF h.transient = 1 /\ rq.LM >= 2 /\ bits0 >= (rq.LM + 2) * 8 THEN 8 ELSE 0
      a == AllocRsv(bits0 - acr, rq.C, rq.end - rq.start)
  IN [h EXCEPT !.bits = bits0 - acr, !.acr = acr, !.skip = a.skip, !.irsv = a.irsv, !.drsv = a.drsv, !.atotal = a.atotal]

\* one decision of the DECODER (celt_decode_with_ec)
CeltDecStep(ds) ==
  LET rq == ds.rq  tot == Total(rq)  LM == rq.LM  C == rq.C  h == ds.h  x == ds.x IN
  CASE ds.pc = "pre" ->
         IF x.k > 0 THEN [Put(ds, "pre", <<7, x.k, 0, 0>>) EXCEPT !.x.k = 0]
         ELSE [ds EXCEPT !.pc = "silence", !.tellv = Tell(ds.c), !.h.tell0 = Tell(ds.c)]
    [] ds.pc = "silence" ->
         \* tell >= total_bits: silence without reading; tell == 1: the flag; otherwise no silence
         LET t == ds.tellv
             Sil(d) == [d EXCEPT !.h.silence = 1, !.c.nbits = d.c.nbits + (tot - Tell(d.c)), !.tellv = tot, !.pc = "pf"]
         IN IF t >= tot THEN Sil(Skip(ds, "silence"))
            ELSE IF t = 1 THEN Only({IF d.last = 1 THEN Sil(d) ELSE [d EXCEPT !.pc = "pf"] : d \in {RdBit(ds, "silence", 15)}})
            ELSE [Skip(ds, "silence") EXCEPT !.pc = "pf"]
    [] ds.pc = "pf" ->
         IF rq.start = 0 /\ ds.tellv + 16 <= tot
         THEN Only({IF d.last = 1 THEN [d EXCEPT !.h.pf = 1, !.pc = "octave"]
                    ELSE [d EXCEPT !.tellv = Tell(d.c), !.pc = "transient"] : d \in {RdBit(ds, "pf", 1)}})
         ELSE [Skip(ds, "pf") EXCEPT !.pc = "transient"]
    [] ds.pc = "octave" ->
         Only({[d EXCEPT !.h.octave = d.last, !.pc = "period"] : d \in {RdUint(ds, "octave", 6)}})
    [] ds.pc = "period" ->
         Only({[d EXCEPT !.h.period = 16 * P2(h.octave) + d.last - 1, !.pc = "gain"] : d \in {RdRaw(ds, "period", 4 + h.octave)}})
    [] ds.pc = "gain" ->
         Only({[d EXCEPT !.h.qg = d.last, !.pc = "tapset"] : d \in {RdRaw(ds, "gain", 3)}})
    [] ds.pc = "tapset" ->
         IF Tell(ds.c) + 2 <= tot
         THEN Only({[d EXCEPT !.h.tapset = d.last, !.tellv = Tell(d.c), !.pc = "transient"] : d \in {RdIcdf(ds, "tapset", T_TAPSET, 2)}})
         ELSE [Skip(ds, "tapset") EXCEPT !.tellv = Tell(ds.c), !.pc = "transient"]
    [] ds.pc = "transient" ->
         IF LM > 0 /\ ds.tellv + 3 <= tot
         THEN Only({[d EXCEPT !.h.transient = d.last, !.tellv = Tell(d.c), !.pc = "intra"] : d \in {RdBit(ds, "transient", 3)}})
         ELSE [Skip(ds, "transient") EXCEPT !.pc = "intra"]
    [] ds.pc = "intra" ->
         IF ds.tellv + 3 <= tot
         THEN Only({[d EXCEPT !.h.intra = d.last, !.pc = "coarse", !.b = rq.start, !.ch = 0] : d \in {RdBit(ds, "intra", 3)}})
         ELSE [Skip(ds, "intra") EXCEPT !.pc = "coarse", !.b = rq.start, !.ch = 0]
    [] ds.pc = "coarse" ->
         \* unquant_coarse_energy: budget = dec->storage*8
         IF ds.b >= rq.end
         THEN LET t == Tell(ds.c)
                  lp == IF h.transient = 1 THEN 2 ELSE 4
                  rsv == LM > 0 /\ t + lp + 1 <= tot IN
              [ds EXCEPT !.pc = "tf", !.b = rq.start, !.tellv = t,
                         !.x.logp = lp, !.x.rsv = rsv, !.x.tfb = tot - (IF rsv THEN 1 ELSE 0), !.x.curr = 0, !.x.chg = 0]
         ELSE LET left == tot - Tell(ds.c)
                  pm == EProb[LM + 1][h.intra + 1]
                  pi == 2 * Min(ds.b, 20)
                  Adv(d, qi) == [d EXCEPT !.h.coarse = Append(h.coarse, qi),
                                          !.ch = IF ds.ch + 1 < C THEN ds.ch + 1 ELSE 0,
                                          !.b = IF ds.ch + 1 < C THEN ds.b ELSE ds.b + 1]
              IN IF left >= 15 THEN Only({Adv(d, d.last) : d \in {RdLap(ds, "coarse", pm[pi + 1] * 128, pm[pi + 2] * 64)}})
                 ELSE IF left >= 2 THEN Only({Adv(d, SmallToQi(d.last)) : d \in {RdIcdf(ds, "coarse2", T_SMALL, 2)}})
                 ELSE IF left >= 1 THEN Only({Adv(d, -d.last) : d \in {RdBit(ds, "coarse1", 1)}})
                 ELSE Adv(Skip(ds, "coarse0"), -1)
    [] ds.pc = "tf" ->
         \* tf_decode: one change flag per band while tell+logp <= budget (one bit kept for tf_select)
         IF ds.b >= rq.end THEN [ds EXCEPT !.pc = "tfsel"]
         ELSE LET Adv(d, cur) == [d EXCEPT !.h.tfraw = Append(h.tfraw, cur), !.b = ds.b + 1,
                                           !.x.logp = IF h.transient = 1 THEN 4 ELSE 5]
              IN IF ds.tellv + x.logp <= x.tfb
                 THEN Only({LET cur == Xor(x.curr, d.last) IN
                            [Adv(d, cur) EXCEPT !.x.curr = cur, !.x.chg = Max(x.chg, cur), !.tellv = Tell(d.c)]
                            : d \in {RdBit(ds, "tf", x.logp)}})
                 ELSE Adv(Skip(ds, "tf"), x.curr)
    [] ds.pc = "tfsel" ->
         LET Fin(d, sel) == [d EXCEPT !.h.tfsel = sel, !.pc = "spread",
                                      !.h.tfres = [j \in 1..Len(h.tfraw) |-> TfMap(LM, h.transient, sel, h.tfraw[j])]]
         IN IF x.rsv /\ TfSelMatters(LM, h.transient, x.chg)
            THEN Only({Fin(d, d.last) : d \in {RdBit(ds, "tfsel", 1)}})
            ELSE Fin(Skip(ds, "tfsel"), 0)
    [] ds.pc = "spread" ->
         LET Go(d) == [d EXCEPT !.pc = "dyn0", !.b = rq.start, !.x.dlogp = 6, !.x.totf = 8 * tot, !.x.tellf = TellFrac(d.c)]
         IN IF Tell(ds.c) + 4 <= tot
            THEN Only({Go([d EXCEPT !.h.spread = d.last]) : d \in {RdIcdf(ds, "spread", T_SPREAD, 5)}})
            ELSE Go(Skip(ds, "spread"))
    [] ds.pc = "dyn0" ->
         IF ds.b >= rq.end THEN [ds EXCEPT !.pc = "trim"]
         ELSE [ds EXCEPT !.pc = "dyn", !.x.llogp = x.dlogp, !.x.boost = 0]
    [] ds.pc = "dyn" ->
         \* dynalloc: boosts of one quantum while tell+logp < total (total shrinks by each boost) and boost < cap
         LET q == Quanta(ds.b, LM, C)
             End(d) == [d EXCEPT !.h.offsets = Append(h.offsets, x.boost), !.b = ds.b + 1, !.pc = "dyn0",
                                 !.x.dlogp = IF x.boost > 0 THEN Max(2, x.dlogp - 1) ELSE x.dlogp]
         IN IF x.tellf + 8 * x.llogp < x.totf /\ x.boost < CapOf(ds.b, LM, C)
            THEN Only({IF d.last = 0 THEN End([d EXCEPT !.x.tellf = TellFrac(d.c)])
                       ELSE [d EXCEPT !.x.tellf = TellFrac(d.c), !.x.boost = x.boost + q, !.x.totf = x.totf - q, !.x.llogp = 1]
                       : d \in {RdBit(ds, "dyn", x.llogp)}})
            ELSE End(Skip(ds, "dyn"))
    [] ds.pc = "trim" ->
         IF x.tellf + 48 <= x.totf
         THEN Only({[d EXCEPT !.h.trim = d.last, !.pc = "rsv"] : d \in {RdIcdf(ds, "trim", T_TRIM, 7)}})
         ELSE [Skip(ds, "trim") EXCEPT !.pc = "rsv"]
    [] ds.pc = "rsv" ->
         [ds EXCEPT !.h = Reserve(h, rq, TellFrac(ds.c)), !.pc = "done"]
    [] OTHER -> ds

RECURSIVE CeltDecRun(_)
CeltDecRun(ds) == IF ds.pc = "done" THEN ds ELSE Only({CeltDecRun(d) : d \in {CeltDecStep(ds)}})
CeltDec(rq) == CeltDecRun(InitDs(rq, "pre"))
\* the same machine, pausing in front of the first symbol that finds the stream exhausted (need says which)
\* and resumed with one more choice: the model checker grows the stream this way
CeltDecPause(ds) == Only({IF d.need # <<>> THEN [ds EXCEPT !.need = d.need, !.needAt = d.needAt] ELSE d : d \in {CeltDecStep(ds)}})
RECURSIVE CeltDecRunP(_)
CeltDecRunP(ds) == IF ds.pc = "done" \/ ds.need # <<>> THEN ds ELSE Only({CeltDecRunP(d) : d \in {CeltDecPause(ds)}})
CeltDecStart(rq) == CeltDecRunP(InitDs(rq, "pre"))
\* the stream grown to reach position at, with v there (zeros for the non-steering symbols in between)
Grow(vals, at, v) == [j \in 1..at |-> IF j <= Len(vals) THEN vals[j] ELSE IF j = at THEN v ELSE 0]
CeltDecFeed(ds, v) == CeltDecRunP([ds EXCEPT !.rq.vals = Grow(@, ds.needAt, v), !.need = <<>>])

(* The ENCODER's order (celt_encode_with_ec, quant_coarse_energy_impl, tf_encode), writing the header  *)
(* w it wants where its own guards allow; what it cannot write takes the default.  Only the bitstream  *)
(* guards are modelled: which values the encoder wants is its freedom.  The one value-dependent        *)
(* condition is that the post-filter is only ever switched on when more than 12*C bytes (3 for the LFE  *)
(* stream) are still free, which is why the encoder writes the tapset without a budget test.            *)
AvailBytes(rq, tell0) == rq.len - ((tell0 + 4) \div 8)
CeltEncStep(ds) ==
  LET rq == ds.rq  tot == Total(rq)  LM == rq.LM  C == rq.C  h == ds.h  x == ds.x  w == rq.w IN
  CASE ds.pc = "pre" ->
         IF x.k > 0 THEN [Put(ds, "pre", <<7, x.k, 0, 0>>) EXCEPT !.x.k = 0]
         ELSE [ds EXCEPT !.pc = "silence", !.tellv = Tell(ds.c), !.h.tell0 = Tell(ds.c)]
    [] ds.pc = "silence" ->
         IF ds.tellv = 1
         THEN LET d == Put(ds, "silence", <<1, 15, 0, w.silence>>) IN
              IF w.silence = 1
              THEN [d EXCEPT !.h.silence = 1, !.c.nbits = d.c.nbits + (tot - Tell(d.c)), !.tellv = tot, !.pc = "pf"]
              ELSE [d EXCEPT !.pc = "pf"]
         ELSE [Skip(ds, "silence") EXCEPT !.pc = "pf"]
    [] ds.pc = "pf" ->
         LET room == rq.start = 0 /\ ds.tellv + 16 <= tot
             on == w.pf = 1 /\ room /\ h.silence = 0 /\ AvailBytes(rq, h.tell0) > rq.pfmin IN
         IF on THEN [Put(ds, "pf", <<1, 1, 0, 1>>) EXCEPT !.h.pf = 1, !.pc = "octave"]
         ELSE IF room THEN Only({[d EXCEPT !.tellv = Tell(d.c), !.pc = "transient"] : d \in {Put(ds, "pf", <<1, 1, 0, 0>>)}})
         ELSE [Skip(ds, "pf") EXCEPT !.pc = "transient"]
    [] ds.pc = "octave" -> [Put(ds, "octave", <<3, 6, 0, w.octave>>) EXCEPT !.h.octave = w.octave, !.pc = "period"]
    [] ds.pc = "period" -> [Put(ds, "period", <<4, 4 + h.octave, 0, w.period - 16 * P2(h.octave) + 1>>) EXCEPT !.h.period = w.period, !.pc = "gain"]
    [] ds.pc = "gain" -> [Put(ds, "gain", <<4, 3, 0, w.qg>>) EXCEPT !.h.qg = w.qg, !.pc = "tapset"]
    [] ds.pc = "tapset" ->          \* no budget test here
         Only({[d EXCEPT !.h.tapset = w.tapset, !.tellv = Tell(d.c), !.pc = "transient"] : d \in {Put(ds, "tapset", <<2, 2, T_TAPSET, w.tapset>>)}})
    [] ds.pc = "transient" ->
         IF LM > 0 /\ Tell(ds.c) + 3 <= tot
         THEN [Put(ds, "transient", <<1, 3, 0, w.transient>>) EXCEPT !.h.transient = w.transient, !.pc = "intra"]
         ELSE [Skip(ds, "transient") EXCEPT !.pc = "intra"]
    [] ds.pc = "intra" ->
         IF Tell(ds.c) + 3 <= tot
         THEN [Put(ds, "intra", <<1, 3, 0, w.intra>>) EXCEPT !.h.intra = w.intra, !.pc = "coarse", !.b = rq.start, !.ch = 0]
         ELSE [Skip(ds, "intra") EXCEPT !.pc = "coarse", !.b = rq.start, !.ch = 0]
    [] ds.pc = "coarse" ->
         IF ds.b >= rq.end
         THEN LET t == Tell(ds.c)
                  lp == IF h.transient = 1 THEN 2 ELSE 4
                  rsv == LM > 0 /\ t + lp + 1 <= tot IN
              [ds EXCEPT !.pc = "tf", !.b = rq.start, !.tellv = t,
                         !.x.logp = lp, !.x.rsv = rsv, !.x.tfb = tot - (IF rsv THEN 1 ELSE 0), !.x.curr = 0, !.x.chg = 0]
         ELSE LET left == tot - Tell(ds.c)
                  pm == EProb[LM + 1][h.intra + 1]
                  pi == 2 * Min(ds.b, 20)
                  k == Len(h.coarse) + 1
                  want == IF k <= Len(w.coarse) THEN w.coarse[k] ELSE 0
                  Adv(d, qi) == [d EXCEPT !.h.coarse = Append(h.coarse, qi),
                                          !.ch = IF ds.ch + 1 < C THEN ds.ch + 1 ELSE 0,
                                          !.b = IF ds.ch + 1 < C THEN ds.b ELSE ds.b + 1]
              IN IF left >= 15
                 THEN LET q == LapEnc(pm[pi + 1] * 128, pm[pi + 2] * 64, want)[3] IN
                      Adv(Put(ds, "coarse", <<5, pm[pi + 1] * 128, pm[pi + 2] * 64, q>>), q)
                 ELSE IF left >= 2
                 THEN LET q == Max(-1, Min(want, 1)) IN Adv(Put(ds, "coarse2", <<2, 2, T_SMALL, QiToSmall(q)>>), q)
                 ELSE IF left >= 1
                 THEN \* qi = IMIN(0, qi); the clamp qi = IMAX(-1, qi) (bits_left < 16, certainly true here) is skipped for i == start
                      LET q == IF ds.b # rq.start THEN Max(-1, Min(0, want)) ELSE Min(0, want) IN
                      Adv(Put(ds, "coarse1", <<1, 1, 0, IF q # 0 THEN 1 ELSE 0>>), q)
                 ELSE Adv(Skip(ds, "coarse0"), -1)
    [] ds.pc = "tf" ->
         IF ds.b >= rq.end THEN [ds EXCEPT !.pc = "tfsel"]
         ELSE LET k == Len(h.tfraw) + 1
                  want == IF k <= Len(w.tfraw) THEN w.tfraw[k] ELSE 0
                  Adv(d, cur) == [d EXCEPT !.h.tfraw = Append(h.tfraw, cur), !.b = ds.b + 1,
                                           !.x.logp = IF h.transient = 1 THEN 4 ELSE 5]
              IN IF ds.tellv + x.logp <= x.tfb
                 THEN Only({[Adv(d, want) EXCEPT !.x.curr = want, !.x.chg = Max(x.chg, want), !.tellv = Tell(d.c)]
                            : d \in {Put(ds, "tf", <<1, x.logp, 0, Xor(want, x.curr)>>)}})
                 ELSE Adv(Skip(ds, "tf"), x.curr)
    [] ds.pc = "tfsel" ->
         LET Fin(d, sel) == [d EXCEPT !.h.tfsel = sel, !.pc = "spread",
                                      !.h.tfres = [j \in 1..Len(h.tfraw) |-> TfMap(LM, h.transient, sel, h.tfraw[j])]]
         IN IF x.rsv /\ TfSelMatters(LM, h.transient, x.chg)
            THEN Fin(Put(ds, "tfsel", <<1, 1, 0, w.tfsel>>), w.tfsel)
            ELSE Fin(Skip(ds, "tfsel"), 0)
    [] ds.pc = "spread" ->
         LET Go(d) == [d EXCEPT !.pc = "dyn0", !.b = rq.start, !.x.dlogp = 6, !.x.totf = 8 * tot, !.x.tboost = 0, !.x.tellf = TellFrac(d.c)]
         IN IF Tell(ds.c) + 4 <= tot
            THEN Only({Go([d EXCEPT !.h.spread = w.spread]) : d \in {Put(ds, "spread", <<2, 5, T_SPREAD, w.spread>>)}})
            ELSE Go(Skip(ds, "spread"))
    [] ds.pc = "dyn0" ->
         IF ds.b >= rq.end THEN [ds EXCEPT !.pc = "trim"]
         ELSE [ds EXCEPT !.pc = "dyn", !.x.llogp = x.dlogp, !.x.boost = 0, !.x.nb = 0]
    [] ds.pc = "dyn" ->
         \* the encoder keeps total_bits and subtracts total_boost in the test
         LET q == Quanta(ds.b, LM, C)
             k == Len(h.offsets) + 1
             wantn == IF k <= Len(w.nboost) THEN w.nboost[k] ELSE 0
             End(d) == [d EXCEPT !.h.offsets = Append(h.offsets, x.boost), !.b = ds.b + 1, !.pc = "dyn0",
                                 !.x.dlogp = IF x.nb > 0 THEN Max(2, x.dlogp - 1) ELSE x.dlogp]
         IN IF x.tellf + 8 * x.llogp < x.totf - x.tboost /\ x.boost < CapOf(ds.b, LM, C)
            THEN LET flag == IF x.nb < wantn THEN 1 ELSE 0 IN
                 Only({IF flag = 0 THEN End([d EXCEPT !.x.tellf = TellFrac(d.c)])
                       ELSE [d EXCEPT !.x.tellf = TellFrac(d.c), !.x.boost = x.boost + q, !.x.tboost = x.tboost + q,
                                      !.x.llogp = 1, !.x.nb = x.nb + 1]
                       : d \in {Put(ds, "dyn", <<1, x.llogp, 0, flag>>)}})
            ELSE End(Skip(ds, "dyn"))
    [] ds.pc = "trim" ->
         IF x.tellf + 48 <= x.totf - x.tboost
         THEN [Put(ds, "trim", <<2, 7, T_TRIM, w.trim>>) EXCEPT !.h.trim = w.trim, !.pc = "rsv"]
         ELSE [Skip(ds, "trim") EXCEPT !.pc = "rsv"]
    [] ds.pc = "rsv" ->
         [ds EXCEPT !.h = Reserve(h, rq, TellFrac(ds.c)), !.pc = "done"]
    [] OTHER -> ds

RECURSIVE CeltEncRun(_)
CeltEncRun(ds) == IF ds.pc = "done" THEN ds ELSE Only({CeltEncRun(d) : d \in {CeltEncStep(ds)}})
\* rq carries w (the header wanted) and pfmin (12*C, or 3 for the LFE stream)
CeltEnc(rq) == CeltEncRun(InitDs(rq, "pre"))

\* what a decoded header asks of an encoder that wants to reproduce it
RECURSIVE NBoost(_, _, _, _)
NBoost(offs, rq, k, acc) ==
  IF k > Len(offs) THEN acc
  ELSE NBoost(offs, rq, k + 1, Append(acc, offs[k] \div Quanta(rq.start + k - 1, rq.LM, rq.C)))
WantOf(h, rq) == [silence |-> h.silence, pf |-> h.pf, octave |-> h.octave, period |-> h.period, qg |-> h.qg,
                  tapset |-> h.tapset, transient |-> h.transient, intra |-> h.intra, coarse |-> h.coarse,
                  tfraw |-> h.tfraw, tfsel |-> h.tfsel, spread |-> h.spread,
                  nboost |-> NBoost(h.offsets, rq, 1, <<>>), trim |-> h.trim]

OpsOf(ds) == [j \in 1..Len(ds.ops) |-> ds.ops[j].op]
\* which kinds of decision a run contains, as a bit set (bit j-1: kinds[j] occurs) - used to pick behaviours that
\* cover every kind when only a sample of the generated behaviours is replayed
CeltKinds == << <<"silence", TRUE>>, <<"silence", FALSE>>, <<"pf", TRUE>>, <<"pf", FALSE>>, <<"octave", TRUE>>, <<"period", TRUE>>,
                <<"gain", TRUE>>, <<"tapset", TRUE>>, <<"tapset", FALSE>>, <<"transient", TRUE>>, <<"transient", FALSE>>,
                <<"intra", TRUE>>, <<"intra", FALSE>>, <<"coarse", TRUE>>, <<"coarse2", TRUE>>, <<"coarse1", TRUE>>, <<"coarse0", FALSE>>,
                <<"tf", TRUE>>, <<"tf", FALSE>>, <<"tfsel", TRUE>>, <<"tfsel", FALSE>>, <<"spread", TRUE>>, <<"spread", FALSE>>,
                <<"dyn", TRUE>>, <<"dyn", FALSE>>, <<"trim", TRUE>>, <<"trim", FALSE>> >>
SilkKinds == << <<"vad", TRUE>>, <<"lbrrflag", TRUE>>, <<"lbrrsym", TRUE>>, <<"lbrr_pred", TRUE>>, <<"lbrr_midonly", TRUE>>,
                <<"lbrr_frame", TRUE>>, <<"pred", TRUE>>, <<"midonly", TRUE>>, <<"midonly", FALSE>>, <<"frame", TRUE>>,
                <<"frame_side", FALSE>> >>
RECURSIVE SigRec(_, _, _)
SigRec(S, kinds, j) == IF j > Len(kinds) THEN 0 ELSE (IF kinds[j] \in S THEN P2(j - 1) ELSE 0) + SigRec(S, kinds, j + 1)
Sig(dl, kinds) == SigRec({dl[j] : j \in 1..Len(dl)}, kinds, 1)
\* the header as a flat sequence of integers (what the conformance harness needs for the rest of the frame)
HdrSeq(h) == <<h.silence, h.pf, h.period, h.qg, h.tapset, h.transient, h.intra, h.tfsel, h.spread, h.trim,
               h.bits, h.acr, h.skip, h.irsv, h.drsv, Len(h.tfres)>> \o h.tfres \o h.offsets \o h.coarse

-----------------------------------------------------------------------------
(* Design theorems of (a), evaluated by FrameHdr_mc over budgets and streams *)

\* guard adequacy: a symbol that passed its guard cannot push tell past the budget
\* ("pre" symbols are outside the frame); after the silence flag tell is the budget itself
BudgetSafeLast(ds) == ds.ops = <<>> \/ ds.ops[Len(ds.ops)].n = "pre" \/ StepTell(ds.ops[Len(ds.ops)]) <= Total(ds.rq)
BudgetSafe(ds) == \A j \in 1..Len(ds.ops) : ds.ops[j].n = "pre" \/ StepTell(ds.ops[j]) <= Total(ds.rq)
\* the static reason: the guard of every symbol is at least its worst-case cost in bits
GuardBitsOK ==
  /\ IcdfWorstBits(T_TAPSET, 2) <= 2 /\ IcdfWorstBits(T_SMALL, 2) <= 2
  /\ IcdfWorstBits(T_SPREAD, 5) <= 4 /\ IcdfWorstBits(T_TRIM, 7) <= 6
  /\ 1 + CeilLog2(6) + (4 + 5) + 3 <= 16          \* post-filter flag, octave, longest period, gain
\* the closed form used for the symbols in front of the frame
PreClosedForm(k) == RcPre(RcInit, k) = Halve(RcInit, k) /\ Tell(RcPre(RcInit, k)) = 1 + k
\* the reservations never take more than there is
ReserveOK(ds) == LET h == ds.h IN
  /\ h.acr + h.skip + h.irsv + h.drsv + h.atotal = Max(h.bits, 0) + h.acr
  /\ h.atotal >= 0 /\ (h.drsv > 0 => h.irsv > 0) /\ (ds.rq.C = 1 => h.irsv = 0 /\ h.drsv = 0)
  /\ (h.silence = 1 => h.acr + h.skip + h.irsv + h.drsv = 0)
\* a silent frame reads nothing after its flag
SilenceReadsNothing(ds) ==
  ds.h.silence = 1 => \A j \in 1..Len(ds.ops) : ds.ops[j].n \in {"pre", "silence"}
\* structure: one coarse value per band and channel, one tf value and one offset per band
ShapeOK(ds) == LET nb == ds.rq.end - ds.rq.start IN
  /\ Len(ds.h.coarse) = nb * ds.rq.C /\ Len(ds.h.tfres) = nb /\ Len(ds.h.offsets) = nb
  /\ \A j \in 1..nb : ds.h.offsets[j] <= CapOf(ds.rq.start + j - 1, ds.rq.LM, ds.rq.C) + Quanta(ds.rq.start + j - 1, ds.rq.LM, ds.rq.C)
\* mirror image: an encoder that wants the decoded header writes exactly the symbols the decoder read,
\* with the same counter after each, and ends with the same header - unless the post-filter is on in a
\* frame too short for the encoder ever to switch it on
MirrorOK(ds) ==
  LET rq == ds.rq
      e == CeltEnc([len |-> rq.len, LM |-> rq.LM, C |-> rq.C, start |-> rq.start, end |-> rq.end, pre |-> rq.pre,
                    vals |-> rq.vals, w |-> WantOf(ds.h, rq), pfmin |-> 3]) IN
  \/ (ds.h.pf = 1 /\ AvailBytes(rq, ds.h.tell0) <= 3)
  \/ (ds.h.silence = 1 /\ ds.h.tell0 # 1)                          \* decoder-only reading of an exhausted budget
  \/ (e.ops = ds.ops /\ e.h = ds.h /\ e.dl = ds.dl /\ e.c = ds.c)
\* Observation recorded with the model (not a clause of a listed property; FrameHdr_mc_quirk.cfg is the witness): in
\* the one-bit tier quant_coarse_energy_impl clamps only from above (qi = IMIN(0, qi)) and the lower clamp
\* (qi = IMAX(-1, qi)) is skipped for the first band (i == start), so an encoder that wants qi <= -2 there sends
\* the bit 1 and goes on with its own qi while the decoder reconstructs -1: the energy state of that band differs
\* between the two until the next intra frame.  Needs a frame whose first coarse symbol finds exactly one bit left
\* (a hybrid frame whose speech layer used all but one bit).  EncoderKeepsDecodedValue is the theorem that fails.
EncoderKeepsDecodedValue(ds) ==
  LET rq == ds.rq
      lower == [j \in 1..Len(ds.h.coarse) |-> IF ds.h.coarse[j] < 0 THEN ds.h.coarse[j] - 2 ELSE ds.h.coarse[j]]
      e == CeltEnc([len |-> rq.len, LM |-> rq.LM, C |-> rq.C, start |-> rq.start, end |-> rq.end, pre |-> rq.pre,
                    vals |-> rq.vals, w |-> [WantOf(ds.h, rq) EXCEPT !.coarse = lower], pfmin |-> 3]) IN
  \* wanting lower values where the decoder saw negative ones: in the one- and two-bit tiers the same symbols go out
  \* (the value is clamped) and the encoder must then continue with the value the decoder will reconstruct
  (\A j \in 1..Len(ds.ops) : ds.ops[j].n # "coarse") /\ OpsOf(e) = OpsOf(ds) => e.h.coarse = ds.h.coarse
\* ... and in the excluded post-filter corner the only difference is the tapset the decoder may have to skip
TapsetAlwaysRead(ds) ==
  (ds.h.pf = 1 /\ AvailBytes(ds.rq, ds.h.tell0) > 3) => <<"tapset", FALSE>> \notin {ds.dl[j] : j \in 1..Len(ds.dl)}

-----------------------------------------------------------------------------
(* (b) speech-layer packet header.                                          *)
(* Request: [nf, nch, vals]: nf 20 ms frames per packet (1 for a 10 ms       *)
(* packet), nch coded channels (mid, side).  The machine below is one call   *)
(* of silk_Decode: it decodes frame sd.nfd of the packet for all channels.   *)
(* Decoder state kept between calls: nfd (nFramesDecoded), vad, lbrrf        *)
(* (LBRR_flag), lbrr (LBRR_flags), pdom (prev_decode_only_middle).           *)

Z3 == <<0, 0, 0>>
SilkInit(rq, pdom) ==
  [rq |-> rq, c |-> RcInit, cok |-> TRUE, i |-> 1, ops |-> <<>>, dl |-> <<>>, need |-> <<>>, needAt |-> 0, last |-> 0,
   nfd |-> 0, vad |-> <<Z3, Z3>>, lbrrf |-> <<0, 0>>, lbrr |-> <<Z3, Z3>>, pdom |-> pdom, dom |-> 0,
   calls |-> <<>>]

BitOfN(x, k) == (x \div P2(k)) % 2
FrameOp(n, fr, lb) == 100 * n + 10 * fr + lb
PredTables == <<T_JOINT, T_UNI3, T_UNI5, T_UNI3, T_UNI5>>
RECURSIVE StereoPredK(_, _, _)
StereoPredK(ds, tag, k) == IF k > 5 THEN ds ELSE Only({StereoPredK(d, tag, k + 1) : d \in {RdIcdf(ds, tag, PredTables[k], 8)}})
StereoPred(ds, tag) == StereoPredK(ds, tag, 1)   \* silk_stereo_decode_pred: joint index, then (3-way, 5-way) per predictor

\* VAD flags and LBRR flag per channel, then the per-frame LBRR flags
RECURSIVE RdFlags(_, _, _)
RdFlags(ds, n, fr) ==
  LET nf == ds.rq.nf IN
  IF n >= ds.rq.nch THEN ds
  ELSE IF fr < nf THEN Only({RdFlags([d EXCEPT !.vad[n + 1][fr + 1] = d.last], n, fr + 1) : d \in {RdBit(ds, "vad", 1)}})
  ELSE Only({RdFlags([d EXCEPT !.lbrrf[n + 1] = d.last], n + 1, 0) : d \in {RdBit(ds, "lbrrflag", 1)}})
RECURSIVE RdLbrrSym(_, _)
RdLbrrSym(ds, n) ==
  LET nf == ds.rq.nf IN
  IF n >= ds.rq.nch THEN ds
  ELSE IF ds.lbrrf[n + 1] = 0 THEN RdLbrrSym([ds EXCEPT !.lbrr[n + 1] = Z3], n + 1)
  ELSE IF nf = 1 THEN RdLbrrSym([ds EXCEPT !.lbrr[n + 1] = <<1, 0, 0>>], n + 1)
  ELSE Only({RdLbrrSym([d EXCEPT !.lbrr[n + 1] = [j \in 1..3 |-> IF j <= nf THEN BitOfN(d.last + 1, j - 1) ELSE 0]], n + 1)
             : d \in {RdIcdf(ds, "lbrrsym", IF nf = 2 THEN T_LBRR2 ELSE T_LBRR3, 8)}})
\* regular decoding skips the LBRR data: frames in order, mid before side
RECURSIVE SkipLbrr(_, _, _)
SkipLbrr(ds, fr, n) ==
  IF fr >= ds.rq.nf THEN ds
  ELSE IF n >= ds.rq.nch THEN SkipLbrr(ds, fr + 1, 0)
  ELSE IF ds.lbrr[n + 1][fr + 1] = 0 THEN SkipLbrr(ds, fr, n + 1)
  ELSE LET d1 == IF ds.rq.nch = 2 /\ n = 0
                 THEN Only({IF ds.lbrr[2][fr + 1] = 0 THEN RdIcdf(d, "lbrr_midonly", T_MIDONLY, 8) ELSE d : d \in {StereoPred(ds, "lbrr_pred")}})
                 ELSE ds
           cc == IF fr > 0 /\ ds.lbrr[n + 1][fr] = 1 THEN CODE_CONDITIONALLY ELSE CODE_INDEPENDENTLY
       IN Only({SkipLbrr(RdBody(d, "lbrr_frame", FrameOp(n, fr, 1), 10 * cc + 1), fr, n + 1) : d \in {d1}})

\* one call of silk_Decode(lostFlag, newPacketFlag)
SilkCall(sd0, lost, first) ==
  LET rq == sd0.rq
      sdA == IF first THEN [sd0 EXCEPT !.nfd = 0] ELSE sd0
      i0 == Len(sdA.ops)
      \* header, once per packet
      sdB == IF lost # FLAG_PACKET_LOST /\ sdA.nfd = 0
             THEN Only({IF lost = FLAG_DECODE_NORMAL THEN SkipLbrr(d, 0, 0) ELSE d : d \in {RdLbrrSym(RdFlags(sdA, 0, 0), 0)}})
             ELSE sdA
      fr == sdB.nfd
      \* stereo prediction weights and mid-only flag of this frame
      readPred == rq.nch = 2 /\ (lost = FLAG_DECODE_NORMAL \/ (lost = FLAG_DECODE_LBRR /\ sdB.lbrr[1][fr + 1] = 1))
      readMO == readPred /\ ((lost = FLAG_DECODE_NORMAL /\ sdB.vad[2][fr + 1] = 0) \/ (lost = FLAG_DECODE_LBRR /\ sdB.lbrr[2][fr + 1] = 0))
      sdC == IF readPred
             THEN Only({IF readMO THEN Only({[e EXCEPT !.dom = e.last] : e \in {RdIcdf(d, "midonly", T_MIDONLY, 8)}})
                        ELSE [Skip(d, "midonly") EXCEPT !.dom = 0] : d \in {StereoPred(sdB, "pred")}})
             ELSE [sdB EXCEPT !.dom = 0]
      hasSide == IF lost = FLAG_DECODE_NORMAL THEN sdC.dom = 0
                 ELSE sdC.pdom = 0 \/ (rq.nch = 2 /\ lost = FLAG_DECODE_LBRR /\ sdC.lbrr[2][fr + 1] = 1)
      Cond(n) == IF fr <= 0 THEN CODE_INDEPENDENTLY
                 ELSE IF lost = FLAG_DECODE_LBRR THEN (IF sdC.lbrr[n + 1][fr] = 1 THEN CODE_CONDITIONALLY ELSE CODE_INDEPENDENTLY)
                 ELSE IF n > 0 /\ sdC.pdom = 1 THEN CODE_INDEPENDENTLY_NO_LTP_SCALING
                 ELSE CODE_CONDITIONALLY
      \* silk_decode_frame reads a frame body in normal mode, or in LBRR mode when the frame's LBRR flag is set
      Reads(n) == lost = FLAG_DECODE_NORMAL \/ (lost = FLAG_DECODE_LBRR /\ sdC.lbrr[n + 1][fr + 1] = 1)
      Cls(n) == IF lost = FLAG_DECODE_LBRR THEN 1 ELSE sdC.vad[n + 1][fr + 1]
      Fr(d, n) == IF (n = 0 \/ hasSide) /\ Reads(n)
                  THEN RdBody(d, IF lost = FLAG_DECODE_LBRR THEN "lbrr_frame" ELSE "frame",
                              FrameOp(n, fr, IF lost = FLAG_DECODE_LBRR THEN 1 ELSE 0), 10 * Cond(n) + Cls(n))
                  ELSE Skip(d, IF n = 0 THEN "frame_mid" ELSE "frame_side")
      sdD == Only({IF rq.nch = 2 THEN Fr(d, 1) ELSE d : d \in {Fr(sdC, 0)}})
  IN [sdD EXCEPT !.nfd = fr + 1,
                 !.pdom = IF lost = FLAG_PACKET_LOST THEN sdD.pdom ELSE sdC.dom,
                 !.calls = Append(sdD.calls, [lost |-> lost, from |-> i0 + 1, to |-> Len(sdD.ops),
                                              concealMid |-> ~Reads(0), side |-> rq.nch = 2 /\ hasSide /\ Reads(1)])]

\* a whole packet: nf calls with the same flag (opus_decode_frame's loop)
RECURSIVE SilkCalls(_, _, _)
SilkCalls(sd, lost, k) == IF k >= sd.rq.nf THEN sd ELSE Only({SilkCalls(d, lost, k + 1) : d \in {SilkCall(sd, lost, k = 0)}})
SilkDec(rq, lost, pdom) == SilkCalls(SilkInit(rq, pdom), lost, 0)

(* The ENCODER's order (silk_Encode): w = [vad, lbrr, lmo, mo, pred seeds]: a placeholder for the flags   *)
(* (ec_enc_patch_initial_bits fills it at the end: the same range as (nf+1)*nch one-bit symbols), the     *)
(* LBRR symbols, the LBRR frames of the previous packet, then frame by frame: weights, mid-only flag if  *)
(* the side has no voice activity, mid frame, side frame unless mid-only.                                *)
PutPred(ds, tag, s) ==
  Put(Put(Put(Put(Put(ds, tag, <<2, 8, T_JOINT, s[1]>>), tag, <<2, 8, T_UNI3, s[2]>>), tag, <<2, 8, T_UNI5, s[3]>>),
          tag, <<2, 8, T_UNI3, s[4]>>), tag, <<2, 8, T_UNI5, s[5]>>)
RECURSIVE EncFlags(_, _, _)
EncFlags(ds, n, fr) ==
  LET w == ds.rq.w  nf == ds.rq.nf IN
  IF n >= ds.rq.nch THEN ds
  ELSE IF fr < nf THEN EncFlags(Put(ds, "vad", <<1, 1, 0, w.vad[n + 1][fr + 1]>>), n, fr + 1)
  ELSE EncFlags(Put(ds, "lbrrflag", <<1, 1, 0, IF SumSeq(w.lbrr[n + 1]) > 0 THEN 1 ELSE 0>>), n + 1, 0)
LbrrSymOf(fl) == fl[1] + 2 * fl[2] + 4 * fl[3]
RECURSIVE EncLbrrSym(_, _)
EncLbrrSym(ds, n) ==
  LET w == ds.rq.w  nf == ds.rq.nf IN
  IF n >= ds.rq.nch THEN ds
  ELSE IF LbrrSymOf(w.lbrr[n + 1]) > 0 /\ nf > 1
       THEN EncLbrrSym(Put(ds, "lbrrsym", <<2, 8, IF nf = 2 THEN T_LBRR2 ELSE T_LBRR3, LbrrSymOf(w.lbrr[n + 1]) - 1>>), n + 1)
       ELSE EncLbrrSym(ds, n + 1)
RECURSIVE EncLbrr(_, _, _)
EncLbrr(ds, fr, n) ==
  LET w == ds.rq.w IN
  IF fr >= ds.rq.nf THEN ds
  ELSE IF n >= ds.rq.nch THEN EncLbrr(ds, fr + 1, 0)
  ELSE IF w.lbrr[n + 1][fr + 1] = 0 THEN EncLbrr(ds, fr, n + 1)
  ELSE LET d1 == IF ds.rq.nch = 2 /\ n = 0
                 THEN LET d == PutPred(ds, "lbrr_pred", w.lpred[fr + 1]) IN
                      IF w.lbrr[2][fr + 1] = 0 THEN Put(d, "lbrr_midonly", <<2, 8, T_MIDONLY, w.lmo[fr + 1]>>) ELSE d
                 ELSE ds
           cc == IF fr > 0 /\ w.lbrr[n + 1][fr] = 1 THEN CODE_CONDITIONALLY ELSE CODE_INDEPENDENTLY
       IN EncLbrr(Put(d1, "lbrr_frame", <<6, FrameOp(n, fr, 1), 10 * cc + 1, w.lseed[n + 1][fr + 1]>>), fr, n + 1)
RECURSIVE EncFrames(_, _, _)
EncFrames(ds, fr, pdom) ==
  LET w == ds.rq.w IN
  IF fr >= ds.rq.nf THEN ds
  ELSE LET mo == IF ds.rq.nch = 2 THEN w.mo[fr + 1] ELSE 0
           vadS == IF ds.rq.nch = 2 THEN w.vad[2][fr + 1] ELSE 0
           d1 == IF ds.rq.nch = 2
                 THEN LET d == PutPred(ds, "pred", w.pred[fr + 1]) IN
                      IF vadS = 0 THEN Put(d, "midonly", <<2, 8, T_MIDONLY, mo>>) ELSE Skip(d, "midonly")
                 ELSE ds
           Cond(n) == IF fr <= 0 THEN CODE_INDEPENDENTLY            \* nFramesEncoded - n, the mid counter already advanced for n = 1
                      ELSE IF n > 0 /\ pdom = 1 THEN CODE_INDEPENDENTLY_NO_LTP_SCALING ELSE CODE_CONDITIONALLY
           d2 == Put(d1, "frame", <<6, FrameOp(0, fr, 0), 10 * Cond(0) + w.vad[1][fr + 1], w.seed[1][fr + 1]>>)
           d3 == IF ds.rq.nch = 2
                 THEN IF mo = 0 THEN Put(d2, "frame", <<6, FrameOp(1, fr, 0), 10 * Cond(1) + vadS, w.seed[2][fr + 1]>>)
                      ELSE Skip(d2, "frame_side")
                 ELSE d2
       IN EncFrames(d3, fr + 1, mo)
SilkEnc(rq) == EncFrames(EncLbrr(EncLbrrSym(EncFlags(SilkInit(rq, 0), 0, 0), 0), 0, 0), 0, rq.w.pdom)
\* the encoder's wants are consistent when mid-only frames carry side VAD 0 (silk_Encode clears the flag)
SilkWantOK(rq) == rq.nch = 2 => \A fr \in 1..rq.nf : rq.w.mo[fr] = 1 => rq.w.vad[2][fr] = 0

-----------------------------------------------------------------------------
(* Design theorems of (b)                                                   *)

Values(ops) == [j \in 1..Len(ops) |-> ops[j].op[4]]
IsPrefixOps(a, b) == Len(a) <= Len(b) /\ \A j \in 1..Len(a) : a[j] = b[j]
\* FEC decoding reads a prefix of what regular decoding reads: flags, LBRR symbols, LBRR frames
\* (LBRR frames come before the regular frames, in the same order, with the same conditional coding)
FecIsPrefix(rq, pdom) ==
  LET a == SilkDec(rq, FLAG_DECODE_LBRR, pdom)
      b == SilkDec(rq, FLAG_DECODE_NORMAL, pdom) IN
  IsPrefixOps(OpsOf(a), OpsOf(b))
\* a lost packet reads nothing and keeps prev_decode_only_middle
LostReadsNothing(rq, pdom) ==
  LET a == SilkDec(rq, FLAG_PACKET_LOST, pdom) IN a.ops = <<>> /\ a.pdom = pdom /\ a.nfd = rq.nf
\* the symbol order of a packet does not depend on what was decoded before (prev_decode_only_middle
\* only changes the conditional coding class of side frames after a mid-only frame of the same packet)
OrderIndependentOfHistory(rq) ==
  \A lost \in {FLAG_DECODE_NORMAL, FLAG_DECODE_LBRR} :
     LET a == SilkDec(rq, lost, 0)  b == SilkDec(rq, lost, 1) IN
     /\ Len(a.ops) = Len(b.ops)
     /\ \A j \in 1..Len(a.ops) : a.ops[j].op = b.ops[j].op
\* bookkeeping: every call advances nFramesDecoded of all channels by one; the calls partition the ops
CallsPartition(sd) ==
  /\ Len(sd.calls) = sd.rq.nf /\ sd.nfd = sd.rq.nf
  /\ \A k \in 1..Len(sd.calls) : sd.calls[k].from = (IF k = 1 THEN 1 ELSE sd.calls[k - 1].to + 1)
  /\ (sd.calls # <<>> => sd.calls[Len(sd.calls)].to = Len(sd.ops))
\* first frame of a packet is coded independently, whatever happened before
FirstIndependent(sd) ==
  \A j \in 1..Len(sd.ops) : (sd.ops[j].op[1] = 6 /\ (sd.ops[j].op[2] \div 10) % 10 = 0) => sd.ops[j].op[3] \div 10 = CODE_INDEPENDENTLY
\* mirror image: the decoder reads what the encoder wrote
SilkMirrorOK(rq) ==
  SilkWantOK(rq) =>
    LET e == SilkEnc(rq)
        d == SilkDec([rq EXCEPT !.vals = Values(e.ops)], FLAG_DECODE_NORMAL, rq.w.pdom) IN
    OpsOf(d) = OpsOf(e) /\ d.need = <<>>
\* the flag placeholder: (nf+1)*nch one-bit symbols of any value leave the counter where one symbol of
\* probability 2^-((nf+1)*nch) leaves it (silk_Encode reserves the flags that way and patches them in)
PlaceholderOK(nf, nch, ds) ==
  LET nb == (nf + 1) * nch
      ph == RcSym(RcInit, 0, P2(8 - nb), 256) IN
  /\ ph = Halve(RcInit, nb)
  /\ Len(ds.ops) >= nb => ds.ops[nb].c = ph
=============================================================================
