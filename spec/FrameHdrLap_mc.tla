--------------------------- MODULE FrameHdrLap_mc ---------------------------
(* Cross-module lemma: the transcription of ec_laplace_encode that FrameHdr uses for its bit counter       *)
(* (LapEnc) gives, for every energy-model parameter pair and every value, the interval and the clamped     *)
(* value of the declarative Laplace model of SymCodes (property C17's model).                              *)
EXTENDS FrameHdr, TLC
S == INSTANCE SymCodes
CONSTANT VMax
VARIABLE st
Init == st = [k |-> "root"]
Next == st.k = "root" /\ \E LM \in 0..3, intra \in 0..1 : st' = [k |-> "pm", LM |-> LM, intra |-> intra]
AgreeAt(fs0, decay, v) ==
  LET e == LapEnc(fs0, decay, v)  iv == S!LapEncode(fs0, decay, v) IN
  e[1] = iv[1] /\ e[2] = iv[2] /\ e[3] = S!LapClamp(fs0, decay, v)
InvLapAgrees == st.k = "pm" =>
  \A b \in 0..20 : LET pm == EProb[st.LM + 1][st.intra + 1] IN
     /\ S!LapStructureOK(pm[2 * b + 1] * 128, pm[2 * b + 2] * 64)
     /\ \A v \in (-VMax..VMax) \cup {-20000, 20000} : AgreeAt(pm[2 * b + 1] * 128, pm[2 * b + 2] * 64, v)
=============================================================================
