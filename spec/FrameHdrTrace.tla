--------------------------- MODULE FrameHdrTrace ---------------------------
(***************************************************************************)
(* Binding of module FrameHdr to libopus.  Stateless: one initial state per *)
(* line of IOEnv.TRACE (NDJSON).                                            *)
(*                                                                         *)
(*  PlanOut  (cfg FrameHdrPlan.cfg)  the lines are REQUESTS (frame           *)
(*           parameters + abstract symbol stream); TLC evaluates the model   *)
(*           and prints the plan: the ops to write, in the model's order,    *)
(*           the decoded header, the decision log.  harness/framehdr.c       *)
(*           writes the packets from these plans.                            *)
(*  CaseOK   (cfg FrameHdrTrace.cfg)  the lines are EVENTS recorded by the    *)
(*           harness; TLC recomputes the model from the request echoed in    *)
(*           the event and judges everything that was observed.              *)
(*  DriftOK / DriftNote  a clause that is stricter than any listed property  *)
(*           (reported as SPEC-DRIFT only).                                  *)
(***************************************************************************)
EXTENDS FrameHdr, Json, IOUtils, TLC
VARIABLE l

Tr == ndJsonDeserialize(IOEnv.TRACE)

RECURSIVE Flat(_)
Flat(ops) == IF ops = <<>> THEN <<>> ELSE Head(ops) \o Flat(Tail(ops))
Names(dl) == [j \in 1..Len(dl) |-> dl[j][1] \o (IF dl[j][2] THEN "+" ELSE "-")]

CeltRq(e) == [len |-> e.len, LM |-> e.LM, C |-> e.C, start |-> e.s, end |-> e.e, pre |-> e.pre, vals |-> e.vals]
SilkNf(ms) == IF ms <= 20 THEN 1 ELSE ms \div 20
SilkRq(e) == [nf |-> SilkNf(e.ms), nch |-> e.nch, vals |-> e.vals]

-----------------------------------------------------------------------------
PlanOf(e) ==
  IF e.k = "C"
  THEN LET r == CeltDec(CeltRq(e)) IN
       "PLAN C " \o ToString(e.id) \o " | " \o ToString(HdrSeq(r.h)) \o " | " \o ToString(Flat(OpsOf(r))) \o " | " \o ToString(Names(r.dl))
  ELSE LET r == SilkDec(SilkRq(e), FLAG_DECODE_NORMAL, 0) IN
       "PLAN S " \o ToString(e.id) \o " | " \o ToString(Flat(OpsOf(r))) \o " | " \o ToString(Names(r.dl))
PlanOut == PrintT(PlanOf(Tr[l]))
\* the tables, as the model states them (printed once, by the first case)
TablesOut == l = 1 => \A t \in 1..Len(TblById) : PrintT("TABLE " \o ToString(t) \o " " \o ToString(TblById[t]))

-----------------------------------------------------------------------------
(* (a) one MDCT-layer frame *)
Seq4(ops, k) == [j \in 1..Len(ops) |-> ops[j].op[k]]
\* a frame that starts beyond the end of the packet (the decoder-only "tell >= total" reading): the writer cannot
\* hold the symbols in front of it, so neither its error flag nor the values read back are constrained
Busted(e, r) == r.ops # <<>> /\ StepTell(r.ops[Len(r.ops)]) > 8 * e.len
CeltWriterOK(e, r) ==            \* what was executed is the model's plan for the request (an exhausted stream reads zeros)
  /\ e.ops = Flat(OpsOf(r)) /\ e.hd = HdrSeq(r.h) /\ (~Busted(e, r) => e.ee = 0)
CeltCounterOK(e, r) ==           \* the library's range decoder, reading the ops back, agrees with the model's counter op by op
  /\ (~Busted(e, r) => e.sv = Values(r.ops))
  /\ e.st = [j \in 1..Len(r.ops) |-> StepTell(r.ops[j])]
  /\ e.sf = [j \in 1..Len(r.ops) |-> StepFrac(r.ops[j])]
  /\ e.sh = [j \in 1..Len(r.ops) |-> StepRng(r.ops[j])[1]]
  /\ e.sl = [j \in 1..Len(r.ops) |-> StepRng(r.ops[j])[2]]
  /\ (r.ops # <<>> => /\ e.et = StepTell(r.ops[Len(r.ops)])
                      /\ <<e.eh, e.el>> = StepRng(r.ops[Len(r.ops)]))
CeltDecoderOK(e, r) ==           \* the real decoder consumed exactly the model's symbols
  /\ e.ret = 120 * P2(e.LM)
  /\ <<e.rh, e.rl>> = <<e.qh, e.ql>>
  /\ e.pp = r.h.period
  /\ (r.h.silence = 1 => e.mx = 0)
  /\ e.rt <= 8 * e.len
CeltOK(e) == LET r == CeltDec(CeltRq(e)) IN CeltWriterOK(e, r) /\ CeltCounterOK(e, r) /\ CeltDecoderOK(e, r)

(* (b) one speech-layer packet *)
Samples(e) == (e.dfs \div 1000) * e.ms
SilkOK(e) ==
  LET rq == SilkRq(e)
      a == SilkDec(rq, FLAG_DECODE_NORMAL, 0)
      f == SilkDec(rq, FLAG_DECODE_LBRR, 0)
      na == Len(a.ops)  nf == Len(f.ops) IN
  /\ e.ops = Flat(OpsOf(a))
  \* normal decoding: duration, and the decoder ends where the writer ended
  /\ e.nr = Samples(e)
  /\ <<e.nh, e.nl>> = <<e.rh[na], e.rl[na]>>
  \* the LBRR helper reads the flags where the model puts them
  /\ e.lb = (IF a.lbrrf[1] = 1 \/ a.lbrrf[2] = 1 THEN 1 ELSE 0)
  \* FEC decoding: duration, and it reads the flags, the LBRR symbols and the LBRR frames - no more, no less
  /\ e.fr = Samples(e) /\ e.pr = Samples(e)
  /\ nf >= 1 /\ <<e.fh, e.fl>> = <<e.rh[nf], e.rl[nf]>>
\* stricter than any listed property (SPEC-DRIFT only): when the packet carries LBRR data for the mid channel, what
\* FEC decoding returns is not what concealment returns from the same decoder state (unless the output is degenerate:
\* all samples zero or saturated, field fz)
SilkDriftOK(e) ==
  LET f == SilkDec(SilkRq(e), FLAG_DECODE_LBRR, 0) IN
  (\E k \in 1..Len(f.calls) : ~f.calls[k].concealMid) => (e.feq = 0 \/ e.fz = 1)

(* the reservations of clt_compute_allocation seen from the encoder side *)
AllocOK(e) ==
  LET a == AllocRsv(e.total, e.C, e.e - e.s) IN
  /\ (e.int > 0) = (a.irsv > 0)
  /\ (e.ds > 0) = (a.drsv > 0)

(* the real MDCT-layer encoder against the real decoder (frames with budgets around the guard thresholds, symbols of
   the speech layer in front): whatever the encoder decided to write, the decoder - bound to the model by the "celt"
   events - must have read exactly that: equal final ranges (the clause of C02 at the level of the layer), durations,
   and the post-filter period the decoder applies is the pre-filter period the encoder used *)
CencOK(e) ==
  /\ e.er = e.len /\ e.ee = 0
  /\ e.dr = 120 * P2(e.LM)
  /\ <<e.eh, e.el>> = <<e.rh, e.rl>>
  /\ (e.pp > 0 => e.pp = e.pe)

(* the real Opus encoder in the speech or hybrid mode, in-band FEC on: lock-step with the decoder (clause of C02), and
   the LBRR flag the helper reports is the one the model reads from the first payload byte: the flags sit where
   RdFlags puts them (single-frame packets; the bits are taken from the byte with the real range decoder) *)
RECURSIVE BitsOfByte(_, _, _, _)
BitsOfByte(buf, d, k, acc) == IF k = 0 THEN acc ELSE LET a == R!BitLogp(buf, d, 1) IN BitsOfByte(buf, a[1], k - 1, Append(acc, a[2]))
ModelLbrr(toc, b0) ==
  LET nf == IF Dur48(toc) > 960 THEN Dur48(toc) \div 960 ELSE 1
      nch == TocChannels(toc)
      buf == <<b0, 0, 0, 0>>
      sd == RdFlags(SilkInit([nf |-> nf, nch |-> nch, vals |-> BitsOfByte(buf, R!Init(buf, 4), (nf + 1) * nch, <<>>)], 0), 0, 0)
  IN IF sd.lbrrf[1] = 1 \/ sd.lbrrf[2] = 1 THEN 1 ELSE 0
OpencOK(e) ==
  /\ e.er > 0
  /\ e.dr = e.frame
  /\ <<e.eh, e.el>> = <<e.rh, e.rl>>
  /\ (e.n >= 3 /\ TocCode(e.toc) = 0 /\ TocMode(e.toc) # MODE_CELT) => e.lb = ModelLbrr(e.toc, e.b0)

CaseOK == LET e == Tr[l] IN
  CASE e.k = "celt" -> CeltOK(e)
    [] e.k = "silk" -> SilkOK(e)
    [] e.k = "alloc" -> AllocOK(e)
    [] e.k = "cenc" -> CencOK(e)
    [] e.k = "openc" -> OpencOK(e)
    [] e.k \in {"snew", "sbig"} -> TRUE
    [] OTHER -> FALSE
DriftOK == LET e == Tr[l] IN e.k = "silk" => SilkDriftOK(e)
\* always true; prints the drifting events while CaseOK judges (one TLC pass for both)
DriftNote == LET e == Tr[l] IN (e.k = "silk" /\ ~SilkDriftOK(e)) => PrintT("DRIFT " \o ToString(e.id))

\* diagnosis of a rejected event: which group of clauses fails, and what the model expected
Dbg == LET e == Tr[l] IN
  IF e.k = "celt"
  THEN LET r == CeltDec(CeltRq(e)) IN
       PrintT("DBG " \o ToString(<<e.id, CeltWriterOK(e, r), CeltCounterOK(e, r), CeltDecoderOK(e, r)>>) \o " ops " \o ToString(Flat(OpsOf(r)))
              \o " hd " \o ToString(HdrSeq(r.h)) \o " st " \o ToString([j \in 1..Len(r.ops) |-> StepTell(r.ops[j])])
              \o " sf " \o ToString([j \in 1..Len(r.ops) |-> StepFrac(r.ops[j])]) \o " dl " \o ToString(Names(r.dl)))
  ELSE IF e.k = "silk"
  THEN LET a == SilkDec(SilkRq(e), FLAG_DECODE_NORMAL, 0)  f == SilkDec(SilkRq(e), FLAG_DECODE_LBRR, 0) IN
       PrintT("DBG " \o ToString(<<e.id, Len(a.ops), Len(f.ops), a.lbrrf, a.vad, a.lbrr>>) \o " ops " \o ToString(Flat(OpsOf(a))) \o " dl " \o ToString(Names(a.dl)))
  ELSE TRUE

Init == l \in 1..Len(Tr)
Next == UNCHANGED l
Spec == Init /\ [][Next]_l
=============================================================================
