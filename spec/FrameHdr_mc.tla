---------------------------- MODULE FrameHdr_mc ----------------------------
(***************************************************************************)
(* Exhaustive evaluation of the FrameHdr design theorems.                  *)
(*                                                                         *)
(* One variable st, several systems chosen by INIT/NEXT in the cfg:         *)
(*  InitC/NextC  MDCT-layer header: every (len, LM, C, bands, tell at frame *)
(*               start) of the grid, and from there every symbol stream:    *)
(*               the stream is extended one choice at a time by the         *)
(*               alphabet of the symbol the decoder asks for next, so every *)
(*               combination of guards that a stream can reach is visited.  *)
(*               A state whose stream is complete is a leaf (no successor). *)
(*  InitS/NextS  speech-layer header, decoder side, same construction.      *)
(*  InitE/NextE  speech-layer header, encoder side: every flag combination  *)
(*               an encoder can want, mirrored through the decoder.         *)
(* Leaves are printed as REQ lines when Gen is TRUE: they are replayed      *)
(* through libopus by the check (behaviour generation).                     *)
(***************************************************************************)
EXTENDS FrameHdr, TLC, FiniteSets

CONSTANTS LenSet,        \* packet lengths in bytes
          RemSet,        \* bits left at frame start (8*len - tell), for the frames that start late in the packet
          LMSet, CSet,
          BandSel,       \* which of Bands below
          LapSel,        \* which of LapSets below: the coarse-energy values explored (cfg files cannot hold negative numbers)
          Rich,          \* fuller alphabets for the multi-valued symbols
          NfSet, NchSet, \* speech layer: frames per packet, coded channels
          Gen,           \* print the leaves
          CheckIncremental

VARIABLE st

FR == INSTANCE Framing

\* (the decoder object accepts start 0 or 17 only)
Bands == << <<0, 1>>, <<0, 2>>, <<17, 19>>, <<17, 21>>, <<0, 3>>, <<17, 18>>, <<0, 21>>, <<0, 13>> >>

LapSets == << {0, 2}, {0, -1, 2}, {0, -1, 1, -3, 4} >>
\* the values explored for the symbol the decoder asks for next
Alpha(op3) ==
  CASE op3[1] = 1 -> {0, 1}
    [] op3[1] = 2 ->
         CASE op3[3] = T_TAPSET -> IF Rich THEN {0, 1, 2} ELSE {0, 2}
           [] op3[3] = T_SMALL -> {0, 1, 2}
           [] op3[3] = T_SPREAD -> IF Rich THEN {0, 1, 2, 3} ELSE {1, 2}
           [] op3[3] = T_TRIM -> IF Rich THEN {0, 3, 5, 10} ELSE {0, 5}
           [] op3[3] = T_LBRR2 -> {0, 1, 2}
           [] op3[3] = T_LBRR3 -> 0..6
           [] op3[3] = T_MIDONLY -> {0, 1}
           [] OTHER -> {0}                         \* stereo weights: values do not steer anything
    [] op3[1] = 3 -> IF Rich THEN 0..(op3[2] - 1) ELSE {0, op3[2] - 1}
    [] op3[1] = 4 -> {0, P2(op3[2]) - 1}
    [] op3[1] = 5 -> LapSets[LapSel]
    [] OTHER -> {0}

Root == [k |-> "root"]

-----------------------------------------------------------------------------
(* MDCT layer *)
PreOf(len) == {0} \cup {8 * len - 1 - r : r \in {x \in RemSet : x <= 8 * len - 1}}
CeltGrid ==
  UNION {{[len |-> len, LM |-> LM, C |-> C, start |-> Bands[b][1], end |-> Bands[b][2], pre |-> pre, vals |-> <<>>] :
            LM \in LMSet, C \in CSet, b \in BandSel, pre \in PreOf(len)} : len \in LenSet}

InitC == st = Root
NextC == \/ st.k = "root" /\ \E rq \in CeltGrid : st' = [k |-> "celt", r |-> CeltDecStart(rq)]
         \/ st.k = "celt" /\ st.r.need # <<>>
            /\ \E v \in Alpha(st.r.need) : st' = [k |-> "celt", r |-> CeltDecFeed(st.r, v)]
SpecC == InitC /\ [][NextC]_st

IsCelt == st.k = "celt"
Leaf == st.k = "celt" /\ st.r.need = <<>>
LastOps(r) == {j \in 1..Len(r.ops) : j > Len(r.ops) - 3}
InvBudgetSafe   == IsCelt => IF Leaf THEN BudgetSafe(st.r) ELSE BudgetSafeLast(st.r)
InvGuardBits    == st.k = "root" => GuardBitsOK /\ \A k \in 0..400 : PreClosedForm(k)
InvTellAgrees   == IsCelt => \A j \in LastOps(st.r) : TellAgrees(st.r.ops[j].c)
InvReserve      == (IsCelt /\ Leaf) => ReserveOK(st.r)
InvSilence      == (IsCelt /\ Leaf) => SilenceReadsNothing(st.r)
InvShape        == (IsCelt /\ Leaf) => ShapeOK(st.r)
InvMirror       == (IsCelt /\ Leaf) => MirrorOK(st.r)
InvEncKeeps     == (IsCelt /\ Leaf) => EncoderKeepsDecodedValue(st.r)      \* expected to FAIL: see FrameHdr
InvTapset       == (IsCelt /\ Leaf) => TapsetAlwaysRead(st.r)
\* every read of the stream was used in order and nothing is left over at a leaf
InvStreamUsed   == (IsCelt /\ Leaf) => st.r.i >= Len(st.r.rq.vals) + 1 /\ st.r.pc = "done"
\* growing the stream choice by choice gives what decoding the whole stream gives
InvIncremental  == (IsCelt /\ Leaf /\ CheckIncremental) => CeltDec(st.r.rq) = [st.r EXCEPT !.needAt = 0]
GenCelt == (Gen /\ IsCelt /\ Leaf) =>
             PrintT("REQ C " \o ToString(<<st.r.rq.len, st.r.rq.LM, st.r.rq.C, st.r.rq.start, st.r.rq.end, st.r.rq.pre, Sig(st.r.dl, CeltKinds)>>) \o " " \o ToString(st.r.rq.vals))

-----------------------------------------------------------------------------
(* speech layer, decoder side *)
SilkGrid == {[nf |-> nf, nch |-> nch, vals |-> <<>>] : nf \in NfSet, nch \in NchSet}
RunS(rq, pdom) == Only({[k |-> "silk", pdom |-> pdom, rq |-> rq, need |-> d.need, at |-> d.needAt] : d \in {SilkDec(rq, FLAG_DECODE_NORMAL, pdom)}})
InitS == st = Root
\* (InvHistory compares both values of prev_decode_only_middle at every leaf, so one is explored)
NextS == \/ st.k = "root" /\ \E rq \in SilkGrid, pdom \in {0} : st' = RunS(rq, pdom)
         \/ st.k = "silk" /\ st.need # <<>>
            /\ \E v \in Alpha(st.need) : st' = RunS([st.rq EXCEPT !.vals = Grow(@, st.at, v)], st.pdom)
SpecS == InitS /\ [][NextS]_st

IsSilk == st.k = "silk"
SLeaf == IsSilk /\ st.need = <<>>
SR == SilkDec(st.rq, FLAG_DECODE_NORMAL, st.pdom)
\* (a state whose stream is incomplete behaves like the leaf that continues it with zeros: the leaves suffice)
InvSilkLeaf     == SLeaf => LET r == SR IN
                     /\ CallsPartition(r) /\ FirstIndependent(r) /\ PlaceholderOK(st.rq.nf, st.rq.nch, r)
InvFecPrefix    == SLeaf => FecIsPrefix(st.rq, st.pdom)
InvLost         == SLeaf => LostReadsNothing(st.rq, st.pdom)
InvHistory      == SLeaf => OrderIndependentOfHistory(st.rq)
InvFecCalls     == SLeaf => CallsPartition(SilkDec(st.rq, FLAG_DECODE_LBRR, st.pdom))
GenSilk == (Gen /\ SLeaf) =>
             PrintT("REQ S " \o ToString(<<st.rq.nf, st.rq.nch, Sig(SR.dl, SilkKinds)>>) \o " " \o ToString(st.rq.vals))

\* the flag layout is the one opus_packet_has_lbrr reads (Framing!HasLbrrOf, RFC 6716 4.2.3/4.2.4): decode the
\* first payload byte with the real range decoder (RangeDec32), hand the bits to the header machine as its
\* symbol stream, and compare its LBRR flags with the bit positions of the helper
RECURSIVE BitsOf(_, _, _, _)
BitsOf(buf, d, k, acc) == IF k = 0 THEN acc ELSE LET a == R!BitLogp(buf, d, 1) IN BitsOf(buf, a[1], k - 1, Append(acc, a[2]))
LayoutAt(toc, b) ==
  LET nf == FR!SilkFramesPerFrame(toc)
      nch == TocChannels(toc)
      buf == <<b, 0, 0, 0>>
      bits == BitsOf(buf, R!Init(buf, 4), (nf + 1) * nch, <<>>)
      sd == RdFlags(SilkInit([nf |-> nf, nch |-> nch, vals |-> bits], 0), 0, 0)      \* the flag part of silk_Decode
      p == [hdr |-> <<toc, b>>, len |-> 5, fill |-> 0]
  IN FR!HasLbrrOf(p) = (IF sd.lbrrf[1] = 1 \/ sd.lbrrf[2] = 1 THEN 1 ELSE 0)
\* one state per TOC (speech and hybrid configurations, mono and stereo, code 0) so that the workers share the sweep
InitL == st = Root
NextL == st.k = "root" /\ \E cfgno \in 0..15, s \in 0..1 : st' = [k |-> "lay", toc |-> 8 * cfgno + 4 * s]
InvLbrrLayout == st.k = "lay" => \A b \in 0..255 : LayoutAt(st.toc, b)

-----------------------------------------------------------------------------
(* speech layer, encoder side *)
Bits3(nf) == {<<a, b, c>> : a \in {0, 1}, b \in (IF nf >= 2 THEN {0, 1} ELSE {0}), c \in (IF nf >= 3 THEN {0, 1} ELSE {0})}
P5 == <<0, 0, 0, 0, 0>>
\* three levels so that the workers share the enumeration: (nf, nch), then the VAD flags, then the rest
WantGrid(nf, nch, v1, v2) ==
  {[vad |-> <<v1, v2>>, lbrr |-> <<l1, l2>>, lmo |-> lmo, mo |-> mo, pdom |-> pd,
    pred |-> <<P5, P5, P5>>, lpred |-> <<P5, P5, P5>>, seed |-> <<Z3, Z3>>, lseed |-> <<Z3, Z3>>] :
     l1 \in Bits3(nf), l2 \in (IF nch = 2 THEN Bits3(nf) ELSE {Z3}),
     lmo \in (IF nch = 2 THEN (IF Rich THEN Bits3(nf) ELSE {Z3, <<1, 1, 1>>}) ELSE {Z3}), mo \in (IF nch = 2 THEN Bits3(nf) ELSE {Z3}), pd \in {0, 1}}
InitE == st = Root
NextE == \/ st.k = "root" /\ \E nf \in NfSet, nch \in NchSet : st' = [k |-> "grid", nf |-> nf, nch |-> nch]
         \/ st.k = "grid" /\ \E v1 \in Bits3(st.nf), v2 \in (IF st.nch = 2 THEN Bits3(st.nf) ELSE {Z3}) :
               st' = [k |-> "grid2", nf |-> st.nf, nch |-> st.nch, v1 |-> v1, v2 |-> v2]
         \/ st.k = "grid2" /\ \E w \in WantGrid(st.nf, st.nch, st.v1, st.v2) :
               st' = [k |-> "senc", rq |-> [nf |-> st.nf, nch |-> st.nch, vals |-> <<>>, w |-> w]]
SpecE == InitE /\ [][NextE]_st
InvSilkMirror == st.k = "senc" => SilkMirrorOK(st.rq)
=============================================================================
