------------------------------ MODULE Framing ------------------------------
(***************************************************************************)
(* RFC 6716 section 3 (frame packing, rules R1-R7) and Appendix B           *)
(* (self-delimiting framing), written declaratively.                        *)
(*                                                                         *)
(* A packet is [hdr, len, fill]: byte i (1-based, i <= len) is hdr[i] when  *)
(* i <= Len(hdr) and fill otherwise.  Only header bytes are ever inspected  *)
(* by the framing layer, so the payload is represented by its length.       *)
(***************************************************************************)
EXTENDS OpusConst

Byte(p, i) == IF i <= Len(p.hdr) THEN p.hdr[i] ELSE p.fill

Bad == [ok |-> FALSE]

(* R1/section 3.2.1: a frame length is coded in one byte (0..251) or two   *)
(* bytes (252..255 + 4*second).  Lens parses K consecutive frame lengths    *)
(* starting at byte index pos; bytes with index > lim do not belong to the  *)
(* frame-length area (they are padding or do not exist).                    *)
RECURSIVE Lens(_, _, _, _)
Lens(p, pos, K, lim) ==
  IF K = 0 THEN [ok |-> TRUE, vals |-> <<>>, n |-> 0]
  ELSE IF pos > lim THEN Bad
  ELSE LET b == Byte(p, pos) IN
       IF b < 252
       THEN LET r == Lens(p, pos + 1, K - 1, lim) IN
            IF r.ok THEN [ok |-> TRUE, vals |-> <<b>> \o r.vals, n |-> r.n + 1] ELSE Bad
       ELSE IF pos + 1 > lim THEN Bad
       ELSE LET r == Lens(p, pos + 2, K - 1, lim)
                v == b + 4 * Byte(p, pos + 1) IN
            IF r.ok THEN [ok |-> TRUE, vals |-> <<v>> \o r.vals, n |-> r.n + 2] ELSE Bad

(* Section 3.2.5: padding length chain; a byte 255 means 254 bytes of       *)
(* padding plus another length byte.                                        *)
RECURSIVE Chain(_, _)
Chain(p, pos) ==
  IF pos > p.len THEN Bad
  ELSE LET b == Byte(p, pos) IN
       IF b = 255
       THEN LET r == Chain(p, pos + 1) IN
            IF r.ok THEN [ok |-> TRUE, n |-> r.n + 1, pad |-> r.pad + 254] ELSE Bad
       ELSE [ok |-> TRUE, n |-> 1, pad |-> b]

(* The part of the header before the frame lengths:                        *)
(*  h0  number of bytes (TOC, frame-count byte, padding length chain)        *)
(*  pad number of padding bytes at the end, M frame count, vbr              *)
Fixed(p) ==
  LET toc == Byte(p, 1) code == toc % 4 IN
  IF code = 0 THEN [ok |-> TRUE, h0 |-> 1, pad |-> 0, M |-> 1, vbr |-> FALSE]
  ELSE IF code = 1 THEN [ok |-> TRUE, h0 |-> 1, pad |-> 0, M |-> 2, vbr |-> FALSE]
  ELSE IF code = 2 THEN [ok |-> TRUE, h0 |-> 1, pad |-> 0, M |-> 2, vbr |-> TRUE]
  ELSE IF p.len < 2 THEN Bad
  ELSE LET b2 == Byte(p, 2)
           M  == b2 % 64
           v  == b2 >= 128
           hasPad == (b2 \div 64) % 2 = 1 IN
       IF M = 0 \/ M * Dur48(toc) > MaxDur48 THEN Bad      \* R5: 1..48 frames, at most 120 ms
       ELSE IF hasPad
            THEN LET c == Chain(p, 3) IN
                 IF c.ok THEN [ok |-> TRUE, h0 |-> 2 + c.n, pad |-> c.pad, M |-> M, vbr |-> v] ELSE Bad
            ELSE [ok |-> TRUE, h0 |-> 2, pad |-> 0, M |-> M, vbr |-> v]

Rep(M, x) == [i \in 1..M |-> x]

(* Parse(p, sd): the framing of packet p in standard (sd = FALSE) or        *)
(* self-delimited (sd = TRUE, Appendix B) form.                             *)
(* Result: Bad, or toc, frame count, frame sizes, offset of the first frame,*)
(* number of padding bytes, offset of the padding, number of bytes that      *)
(* belong to this packet (all 0-based byte counts from the packet start).    *)
Parse(p, sd) ==
  IF p.len <= 0 THEN Bad
  ELSE LET f == Fixed(p) IN
  IF ~f.ok THEN Bad
  ELSE IF f.h0 + f.pad > p.len THEN Bad                     \* R6/R7: padding fits
  ELSE LET K   == (IF f.vbr THEN f.M - 1 ELSE 0) + (IF sd THEN 1 ELSE 0)
           lim == p.len - f.pad
           L   == Lens(p, f.h0 + 1, K, lim) IN
  IF ~L.ok THEN Bad
  ELSE LET off   == f.h0 + L.n
           body  == lim - off
           sizes == IF sd THEN (IF f.vbr THEN L.vals ELSE Rep(f.M, L.vals[1]))
                    ELSE IF f.vbr THEN L.vals \o <<body - SumSeq(L.vals)>>
                    ELSE IF body % f.M = 0 THEN Rep(f.M, body \div f.M)   \* R3/R6: CBR divides
                    ELSE <<-1>>
           tot   == SumSeq(sizes) IN
  IF (\E i \in 1..Len(sizes) : sizes[i] < 0 \/ sizes[i] > MaxFrameBytes) \/ tot > body THEN Bad
  ELSE [ok |-> TRUE, toc |-> Byte(p, 1), count |-> f.M, sizes |-> sizes, off |-> off,
        pad |-> f.pad, padAt |-> off + tot,
        consumed |-> IF sd THEN off + tot + f.pad ELSE p.len]

\* offset of frame i (0-based byte offset from the packet start)
RECURSIVE FrameOffsets(_, _)
FrameOffsets(off, sizes) ==
  IF sizes = <<>> THEN <<>> ELSE <<off>> \o FrameOffsets(off + Head(sizes), Tail(sizes))

(* Header helpers of the API, as the RFC defines the quantities.           *)
NbFramesOf(p) ==            \* opus_packet_get_nb_frames: looks at two bytes only
  IF p.len < 1 THEN BAD_ARG
  ELSE LET code == Byte(p, 1) % 4 IN
       IF code = 0 THEN 1 ELSE IF code < 3 THEN 2
       ELSE IF p.len < 2 THEN INVALID_PACKET ELSE Byte(p, 2) % 64

NbSamplesOf(p, Fs) ==       \* opus_packet_get_nb_samples
  LET c == NbFramesOf(p) IN
  IF c < 0 THEN c
  ELSE LET s == c * SamplesPerFrame(Byte(p, 1), Fs) IN
       IF s * 25 > Fs * 3 THEN INVALID_PACKET ELSE s

\* opus_packet_has_lbrr: the LBRR flag(s) in the speech-layer header of the first frame
\* (RFC 6716 section 4.2.3/4.2.4): per channel, one VAD bit per 20 ms speech frame then one LBRR bit;
\* the mid channel comes first, the side channel (stereo) follows.  MDCT-only packets have none.
BitOf(x, k) == (x \div (2 ^ k)) % 2
SilkFramesPerFrame(toc) == IF Dur48(toc) > 960 THEN Dur48(toc) \div 960 ELSE 1
HasLbrrOf(p) ==
  IF p.len < 1 THEN BAD_ARG
  ELSE LET toc == Byte(p, 1) IN
       IF TocMode(toc) = MODE_CELT THEN 0
       ELSE LET r == Parse(p, FALSE) IN
            IF ~r.ok THEN INVALID_PACKET
            ELSE IF r.sizes[1] = 0 THEN 0
            ELSE LET b == Byte(p, r.off + 1)
                     nf == SilkFramesPerFrame(toc)
                     mid == BitOf(b, 7 - nf)
                     side == IF TocStereo(toc) THEN BitOf(b, 6 - 2 * nf) ELSE 0
                 IN IF mid = 1 \/ side = 1 THEN 1 ELSE 0

(* Frame length coding (section 3.2.1), used by the packet writers.        *)
EncSize(s) == IF s < 252 THEN <<s>> ELSE <<252 + (s % 4), (s - (252 + (s % 4))) \div 4>>

-----------------------------------------------------------------------------
(* Design-level theorems, evaluated by TLC over a header grid (Framing_mc).  *)

FramesInside(p, sd) ==
  LET r == Parse(p, sd) IN
  r.ok => /\ r.off + SumSeq(r.sizes) = r.padAt
          /\ r.padAt + r.pad = r.consumed
          /\ r.consumed <= p.len
          /\ (~sd => r.consumed = p.len)
          /\ r.off >= 1

Limits(p, sd) ==
  LET r == Parse(p, sd) IN
  r.ok => /\ r.count \in 1..MaxFrames
          /\ r.count * Dur48(r.toc) <= MaxDur48
          /\ Len(r.sizes) = r.count
          /\ \A i \in 1..r.count : r.sizes[i] \in 0..MaxFrameBytes

(* Appendix B: a self-delimited packet is a prefix code - what follows it   *)
(* cannot change its parse, and cutting the buffer at `consumed` keeps it.  *)
PrefixProperty(p, k, fill2) ==
  LET r == Parse(p, TRUE) IN
  \* the bytes that follow may have any value (fill2) when every header byte is explicit in hdr
  r.ok => /\ Parse([p EXCEPT !.len = p.len + k,
                              !.fill = IF r.off <= Len(p.hdr) /\ p.len >= Len(p.hdr) THEN fill2 ELSE p.fill], TRUE) = r
          /\ Parse([p EXCEPT !.len = r.consumed], TRUE) = r

(* Dropping the extra length of an accepted self-delimited packet gives an *)
(* accepted standard packet with the same frames.                           *)
HelpersAgree(p, sd, Fs) ==
  LET r == Parse(p, sd) IN
  r.ok => /\ NbFramesOf(p) = r.count
          /\ NbSamplesOf(p, Fs) = r.count * SamplesPerFrame(r.toc, Fs)
=============================================================================
