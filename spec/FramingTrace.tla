--------------------------- MODULE FramingTrace ---------------------------
(* Validation of recorded parser/helper calls against module Framing.      *)
(* Stateless: one initial state per recorded case, INVARIANT CaseOK.        *)
EXTENDS Framing, Json, IOUtils, TLC
VARIABLE l

Tr == ndJsonDeserialize(IOEnv.TRACE)

Pk(e) == [hdr |-> e.h, len |-> e.n, fill |-> 0]

\* the LBRR helper is logged with every standard-framing parse case (field lb)
LbrrOK(e) == e.sd = 0 => e.lb = HasLbrrOf(Pk(e))

ParseOK0(e) ==
  LET r == Parse(Pk(e), e.sd = 1) IN
  IF e.n < 0 THEN e.r = BAD_ARG
  ELSE IF ~r.ok THEN e.r = INVALID_PACKET
  ELSE /\ e.r = r.count
       /\ e.toc = r.toc
       /\ e.sz = r.sizes
       /\ e.fo = FrameOffsets(r.off, r.sizes)
       /\ e.po = r.off
       /\ e.ko = r.consumed
       /\ e.pa = r.padAt
       /\ e.pl = r.pad
       /\ (e.sd = 0 => e.pub = 1)

ParseOK(e) == LbrrOK(e) /\ ParseOK0(e)

FsSeq == <<8000, 12000, 16000, 24000, 48000>>
HelpOK(e) ==
  LET p == Pk(e) IN
  /\ e.nf = NbFramesOf(p)
  /\ e.n >= 1 =>
       /\ \A i \in 1..5 : e.spf[i] = SamplesPerFrame(e.h[1], FsSeq[i])
       /\ \A i \in 1..5 : e.ns[i] = NbSamplesOf(p, FsSeq[i])
       /\ e.bw = TocBandwidth(e.h[1])
       /\ e.ch = TocChannels(e.h[1])
  /\ e.n < 1 => \A i \in 1..5 : e.ns[i] = BAD_ARG

CaseOK == LET e == Tr[l] IN
          IF e.k = "parse" THEN ParseOK(e) ELSE IF e.k = "help" THEN HelpOK(e) ELSE FALSE

Init == l \in 1..Len(Tr)
Next == UNCHANGED l
Spec == Init /\ [][Next]_l
=============================================================================
