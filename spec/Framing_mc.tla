---------------------------- MODULE Framing_mc ----------------------------
(* Exhaustive evaluation of the Framing theorems over a header grid.       *)
EXTENDS Framing, TLC, FiniteSets
CONSTANTS TocSet, B2Set, ByteSet, NExtra, SmallLens, FillSet
VARIABLES p, sd

Big == 100000

\* lengths around every boundary at which the header h can become valid
Cand(h, fill) ==
  LET q == [hdr |-> h, len |-> Big, fill |-> fill]
      f == Fixed(q) IN
  IF ~f.ok THEN {}
  ELSE LET Kn == IF f.vbr THEN f.M - 1 ELSE 0
           Ln == Lens(q, f.h0 + 1, Kn, Big)
           Ls == Lens(q, f.h0 + 1, Kn + 1, Big)
           mult == IF f.vbr THEN 1 ELSE f.M
           bn == IF Ln.ok THEN {f.h0 + f.pad + Ln.n + SumSeq(Ln.vals)} ELSE {}
           bs == IF Ls.ok THEN {f.h0 + f.pad + Ls.n +
                                 (IF f.vbr THEN SumSeq(Ls.vals) ELSE f.M * Ls.vals[1])} ELSE {}
       IN UNION { {b - 1, b, b + 1, b + mult - 1, b + mult, b + mult + 1,
                   b + 1275 * mult - 1, b + 1275 * mult, b + 1275 * mult + 1, b + 1276 * mult,
                   \* implicit sizes that wrap to a small or negative 16-bit value must stay rejected
                   b + 32768 * mult, b + 65536 * mult, b + 65546 * mult, b + 66811 * mult, b + 131082 * mult} : b \in bn }
          \cup UNION { {b - 1, b, b + 1, b + 5} : b \in bs }


\* Two levels so that TLC's workers share the enumeration: an initial state per (toc, b2),
\* one successor per completed case.
Init == /\ sd \in BOOLEAN
        /\ \E t \in TocSet, b \in B2Set : p = [hdr |-> <<t, b>>, len |-> -1, fill |-> 0]
Next == /\ p.len = -1
        /\ \E x \in [1..NExtra -> ByteSet], fill \in FillSet :
             LET h == p.hdr \o x IN
             \E n \in SmallLens \cup {c \in Cand(h, fill) : c >= 0} :
                p' = [hdr |-> h, len |-> n, fill |-> fill]
        /\ UNCHANGED sd
Spec == Init /\ [][Next]_<<p, sd>>

InvFramesInside == FramesInside(p, sd)
InvLimits       == Limits(p, sd)
InvPrefix       == sd => \A k \in {1, 3}, f2 \in {0, 255} : PrefixProperty(p, k, f2)
InvHelpers      == \A Fs \in FsSet : HelpersAgree(p, sd, Fs)
\* Appendix B: a self-delimited packet that fills its buffer, with its extra (last explicit)
\* length removed, is a standard packet with the same frames; and the other way round.
InvStdVsSd ==
  LET r == Parse(p, TRUE) IN
  (sd /\ r.ok /\ r.consumed = p.len /\ r.off <= Len(p.hdr)) =>
     LET last == r.sizes[r.count]
         n == IF last < 252 THEN 1 ELSE 2
         q == [hdr |-> SubSeq(p.hdr, 1, r.off - n), len |-> p.len - n, fill |-> p.fill]
         s == Parse(q, FALSE) IN
     /\ s.ok /\ s.sizes = r.sizes /\ s.off = r.off - n /\ s.pad = r.pad /\ s.toc = r.toc
=============================================================================
