-------------------------------- MODULE Link --------------------------------
(***************************************************************************)
(* Encoder -> (lossy) channel -> decoder.  Properties C02 (every encoded    *)
(* packet is valid and decodes in lock-step) and C09 (packet loss: PLC and  *)
(* FEC return the requested audio, stay bounded, recover); reused by C20.   *)
(*                                                                         *)
(* Composition of                                                           *)
(*   E == EncCtl   settings, the argument rules and the loose envelope of   *)
(*                 an encode call (what the TOC must honour)                 *)
(*   R == Repack   the packet writer (code 0/1/2/3, padding) the encoder     *)
(*                 uses for multi-frame and constant-rate packets            *)
(*   D == DecCtl   decoder control state and the return contract of every    *)
(*                 decode / conceal / FEC call                               *)
(* with a channel that delivers or drops each packet and a receiver that     *)
(* follows one of the policies below.  No VARIABLES here: Link_mc wraps the   *)
(* operators into state machines, LinkTrace judges recorded executions.      *)
(*                                                                         *)
(* Time is counted in units of 2.5 ms (u): a packet lasts U units,           *)
(* U \in {1, 2, 4, 8, 16, 24, 32, 40, 48}.                                    *)
(***************************************************************************)
EXTENDS Framing
E == INSTANCE EncCtl
R == INSTANCE Repack
D == INSTANCE DecCtl

Units == {1, 2, 4, 8, 16, 24, 32, 40, 48}
Q(Fs) == Fs \div 400                       \* samples in 2.5 ms
CeilDiv8(x) == (x + 7) \div 8

-----------------------------------------------------------------------------
(* 1. The encode call (C02, first sentence).                                *)
(*    fs  the frame_size argument, mb the size of the output buffer,         *)
(*    nS  the number of samples the call consumes (E!FrameSizeSelect).       *)
(*    The return value is loose exactly as far as the property is (R1):      *)
(*    which documented error a refused call returns is free, an internal     *)
(*    error is never allowed, a call with valid arguments and two bytes of   *)
(*    space must succeed, one byte may only be refused for 100 ms.           *)
SelectedSamples(S, fs) == E!FrameSizeSelect(fs, S.frameDuration, S.Fs)
Is100ms(nS, Fs) == nS * 10 = Fs

EncRetOK(S, fs, mb, r) ==
  LET nS == SelectedSamples(S, fs) IN
  /\ r # INTERNAL_ERROR /\ r # 0 /\ r >= ALLOC_FAIL
  /\ (nS > 0 /\ mb >= 2) => r >= 1
  /\ (nS > 0 /\ mb = 1 /\ ~Is100ms(nS, S.Fs)) => r >= 1
  /\ (nS > 0 /\ mb = 1 /\ Is100ms(nS, S.Fs)) => r < 0        \* no one-byte packet lasts 100 ms
  /\ (nS <= 0 \/ mb <= 0) => r < 0
  /\ r >= 1 => r <= mb

\* a multistream / projection encoder with N streams needs room for N packets and N-1 length
\* prefixes; success is demanded only where that is beyond doubt (R2): 4 bytes per stream
MsEncRetOK(nS, N, mb, r) ==
  /\ r # INTERNAL_ERROR /\ r # 0 /\ r >= ALLOC_FAIL
  /\ (nS > 0 /\ mb >= 4 * N) => r >= 1
  /\ (nS <= 0 \/ mb <= 0) => r < 0
  /\ r >= 1 => r <= mb

\* the packet: well formed, and it announces exactly the submitted duration
PacketOK(p, nS, Fs) ==
  LET r == Parse(p, FALSE) IN r.ok /\ r.count * SamplesPerFrame(r.toc, Fs) = nS

\* N streams, the first N-1 self-delimited, every one of the submitted duration
MsPacketOK(p, N, nS, Fs) ==
  LET w == D!MsWalk(p, 0, 1, N) IN w.ok /\ w.durs = {(nS \div Q(Fs)) * 120}

\* what a decoder running at rate fo must return for that packet
DecodeWant(nS, Fs, fo) == (nS \div Q(Fs)) * Q(fo)

-----------------------------------------------------------------------------
(* 2. The packets an encoder may emit for U units (the envelope, loose):    *)
(*    how the frame is cut (speech layer: one frame up to 60 ms, 80 = 2x40,  *)
(*    100 = 5x20, 120 = 2x60; MDCT and hybrid layers: 20 ms frames), the TOC *)
(*    of RFC 6716 table 2, and the frame packing of Repack (canonical code,   *)
(*    or code 3 with padding at constant rate).                              *)
ModeOKFor(mode, U) ==
  /\ mode = MODE_HYBRID => U >= 4
  /\ mode = MODE_SILK => U >= 4
Cut(mode, U) ==          \* <<number of frames, units per frame>>
  IF mode = MODE_SILK
  THEN IF U <= 24 THEN <<1, U>> ELSE IF U = 32 THEN <<2, 16>> ELSE IF U = 48 THEN <<2, 24>> ELSE <<5, 8>>
  ELSE IF U <= 8 THEN <<1, U>> ELSE <<U \div 8, 8>>

BwOKFor(mode, bw) ==
  CASE mode = MODE_SILK   -> bw \in {BW_NB, BW_MB, BW_WB}
    [] mode = MODE_HYBRID -> bw \in {BW_SWB, BW_FB}
    [] OTHER              -> bw \in {BW_NB, BW_WB, BW_SWB, BW_FB}

\* the configuration number of RFC 6716 table 2 (defined through the table's own columns)
ConfigOf(mode, bw, fu) ==
  CHOOSE c \in 0..31 : ModeOfConfig(c) = mode /\ BwOfConfig(c) = bw /\ Dur48OfConfig(c) = 120 * fu
TocOf(mode, bw, fu, stereo) == 8 * ConfigOf(mode, bw, fu) + (IF stereo THEN 4 ELSE 0)

\* sizes: one payload size per frame; padTo = 0 (variable rate) or the constant packet size
EncPacket(mode, bw, stereo, U, sizes, padTo) ==
  LET c   == Cut(mode, U)
      cfg == TocOf(mode, bw, c[2], stereo) \div 4
      k   == R!Canon(cfg, sizes, FALSE)
      b   == R!Enc(cfg, sizes, FALSE, 0, TRUE) IN
  IF padTo = 0 \/ padTo <= k.len THEN [hdr |-> k.hdr, len |-> k.len, fill |-> 0]
  ELSE LET x == R!Enc(cfg, sizes, FALSE, IF padTo > b.len THEN padTo - b.len ELSE 0, TRUE) IN
       [hdr |-> x.hdr, len |-> x.len, fill |-> 0]

\* "too little space": TOC-only packets (src/opus_encoder.c, the PLC-frame path); one byte for
\* code 0/1, two bytes for code 3 with the frame count
TocOnlyPacket(mode, bw, stereo, U) ==
  LET c == Cut(mode, U) IN EncPacket(mode, bw, stereo, U, [i \in 1..c[1] |-> 0], 0)

-----------------------------------------------------------------------------
(* 3. The redundancy / transition handshake inside one SILK or hybrid frame. *)
(*    After the speech layer has written `tell' bits into a payload of B      *)
(*    bytes (the frame without its TOC), the encoder signals a 5 ms MDCT      *)
(*    redundancy frame of rb bytes at the end of the payload:                 *)
(*      hybrid: a flag (probability 2^-12 for "present"), then the direction  *)
(*              bit, then rb-2 in 8 bits - but only if tell+37 <= 8B;         *)
(*      speech only: no flag; the presence is INFERRED FROM THE LENGTH: the   *)
(*              decoder assumes redundancy iff tell+17 <= 8*len, reads the     *)
(*              direction bit and takes rb = len - bytes used so far.         *)
(*    The decoder evaluates the same inequalities on the length it received.  *)
(*    Both sides see the same `tell' (theorem TellEqual of RangeCoder, C08).  *)
(*    Whole-bit cost of the symbols as ec_tell() reports it: a flag that is   *)
(*    set costs 12, a clear one 0 or 1, the direction bit 0 or 1, the length  *)
(*    7 or 8.                                                                *)
(*    Reserve: the number of bits the MDCT layer keeps in a variable-rate     *)
(*    hybrid frame beyond the position at which it started (37: "creating a   *)
(*    shorter packet would create an entropy coder desync").                  *)
IsHyb(mode) == mode = MODE_HYBRID
CondBits(mode) == IF IsHyb(mode) THEN 37 ELSE 17
SignalRoom(mode, tell, bytes) == tell + CondBits(mode) <= 8 * bytes

FlagCost(set) == IF set THEN {12} ELSE {0, 1}
\* the direction bit (probability 1/2): "CELT to SILK" (1) costs exactly one whole bit; "SILK to CELT" (0)
\* costs one bit too unless the coder's range is exactly 2^k - 1 before it (one value in 2^23), when
\* ec_tell() does not move.  Z = TRUE admits that corner.
DirCost(c2s, Z) == IF c2s \/ ~Z THEN {1} ELSE {0, 1}
LenCost == {7, 8}

\* Encoder side.  want: the encoder wants redundancy; c2s its direction; rbWant the size it
\* would like (compute_redundancy_bytes); cbr: constant rate (the MDCT layer fills its budget).
\* Result: the set of frames [len, main, red, c2s, rb, wrote, tellEnd] it may produce.
EncFrames(mode, tell, B, want, c2s, rbWant, cbr, Reserve, Z) ==
  IF tell > 8 * B THEN {}                       \* the speech layer overran the budget: fallback frame, below
  ELSE IF mode = MODE_SILK
  THEN IF want /\ SignalRoom(mode, tell, B)
       THEN {LET t1 == tell + dc
                 maxRed == B - CeilDiv8(t1)
                 rb == Min(257, Max(2, Min(maxRed, rbWant)))
                 main == CeilDiv8(t1) IN
             [len |-> main + rb, main |-> main, red |-> TRUE, c2s |-> c2s, rb |-> rb, wrote |-> FALSE, tellEnd |-> t1]
             : dc \in DirCost(c2s, Z)}
       \* no redundancy: the range coder's bytes; trailing zero bytes may be stripped down to two
       ELSE LET main == CeilDiv8(tell) IN
            {[len |-> k, main |-> k, red |-> FALSE, c2s |-> FALSE, rb |-> 0, wrote |-> FALSE, tellEnd |-> tell]
             : k \in Min(2, main)..main}
  ELSE IF ~SignalRoom(mode, tell, B)
  THEN LET lo == IF cbr THEN B ELSE Min(B, CeilDiv8(tell + Reserve)) IN
       {[len |-> k, main |-> k, red |-> FALSE, c2s |-> FALSE, rb |-> 0, wrote |-> FALSE, tellEnd |-> tell] : k \in lo..B}
  ELSE IF ~want
  THEN UNION {LET t1 == tell + fc
                  lo == IF cbr THEN B ELSE Min(B, CeilDiv8(t1 + Reserve)) IN
              {[len |-> k, main |-> k, red |-> FALSE, c2s |-> FALSE, rb |-> 0, wrote |-> TRUE, tellEnd |-> t1] : k \in lo..B}
              : fc \in FlagCost(FALSE)}
  ELSE UNION {LET t1 == tell + fc + dc
                  maxRed == B - ((t1 + 8 + 3 + 7) \div 8)
                  rb == Min(257, Max(2, Min(maxRed, rbWant)))
                  t2 == t1 + lc
                  nb == B - rb
                  lo == IF cbr THEN nb ELSE Min(nb, CeilDiv8(t2 + Reserve)) IN
              {[len |-> k + rb, main |-> k, red |-> TRUE, c2s |-> c2s, rb |-> rb, wrote |-> TRUE, tellEnd |-> t2] : k \in lo..nb}
              : fc \in FlagCost(TRUE), dc \in DirCost(c2s, Z), lc \in LenCost}

\* Decoder side, on a frame of len bytes.  `read' says what the decoder finds in the bit stream
\* where it looks: [flag, c2s, rbcode] - equal to what the encoder wrote there if it wrote it.
DecFrame(mode, tell, len, flag, c2s, rbcode, tellEnd) ==
  IF len <= 1 THEN [plc |-> TRUE, red |-> FALSE, c2s |-> FALSE, rb |-> 0, main |-> 0, readFlag |-> FALSE, sane |-> TRUE]
  ELSE IF ~SignalRoom(mode, tell, len)
  THEN [plc |-> FALSE, red |-> FALSE, c2s |-> FALSE, rb |-> 0, main |-> len, readFlag |-> FALSE, sane |-> TRUE]
  ELSE LET red == IF IsHyb(mode) THEN flag ELSE TRUE IN
       IF ~red THEN [plc |-> FALSE, red |-> FALSE, c2s |-> FALSE, rb |-> 0, main |-> len, readFlag |-> IsHyb(mode), sane |-> TRUE]
       ELSE LET rb == IF IsHyb(mode) THEN rbcode + 2 ELSE len - CeilDiv8(tellEnd)
                main == len - rb IN
            IF main * 8 < tellEnd      \* "sanity check, should never happen for a valid packet"
            THEN [plc |-> FALSE, red |-> FALSE, c2s |-> FALSE, rb |-> 0, main |-> 0, readFlag |-> IsHyb(mode), sane |-> FALSE]
            ELSE [plc |-> FALSE, red |-> TRUE, c2s |-> c2s, rb |-> rb, main |-> main, readFlag |-> IsHyb(mode), sane |-> TRUE]

\* the decoder, fed what the encoder produced (symbols the encoder did not write read as garbage g)
DecOf(mode, tell, f, g) ==
  DecFrame(mode, tell, f.len,
           IF f.wrote THEN f.red ELSE g.flag,
           IF f.red THEN f.c2s ELSE g.c2s,
           IF f.red /\ f.wrote THEN f.rb - 2 ELSE g.rbcode,
           f.tellEnd)

Garbage == [flag : BOOLEAN, c2s : BOOLEAN, rbcode : {0, 255}]

\* THEOREM RedundancySignalAgrees: for every frame the encoder may produce, whatever lies in the
\* bits it did not write, the decoder reads the flag iff the encoder wrote it, finds the same
\* redundancy decision, direction and size, and the same main payload; the frame fits the budget.
FrameAgrees(mode, tell, B, f, g) ==
  LET d == DecOf(mode, tell, f, g) IN
  /\ f.len <= B /\ (f.red => f.main * 8 >= f.tellEnd) /\ f.rb \in {0} \cup 2..257
  /\ f.len >= 2 =>
       /\ ~d.plc /\ d.sane
       /\ d.readFlag = f.wrote
       /\ d.red = f.red /\ d.rb = f.rb /\ d.main = f.main
       /\ f.red => d.c2s = f.c2s

RedundancySignalAgreesAt(mode, tell, B, want, c2s, rbWant, cbr, Reserve, Z) ==
  \A f \in EncFrames(mode, tell, B, want, c2s, rbWant, cbr, Reserve, Z) : \A g \in Garbage :
     FrameAgrees(mode, tell, B, f, g)

\* What a decoder may report for a frame of len bytes when the bit position is not observed: there is a bit
\* position and there are symbol costs for which DecFrame yields exactly obs = [red, c2s, rb] ...
DecFrameExplains(mode, len, obs) ==
  IF mode = MODE_CELT \/ len <= 1 THEN ~obs.red /\ ~obs.c2s /\ obs.rb = 0
  ELSE \E tell \in 1..(8 * len), c1 \in {0, 1, 12}, c2 \in {0, 1}, c3 \in {0, 7, 8} :
          /\ c1 \in (IF IsHyb(mode) THEN FlagCost(obs.red) ELSE {0})
          /\ c3 \in (IF IsHyb(mode) /\ obs.red THEN LenCost ELSE {0})
          /\ (~obs.red => c2 = 0)
          /\ (IsHyb(mode) /\ obs.red => obs.rb - 2 \in 0..255)         \* the size is an 8-bit symbol
          /\ LET d == DecFrame(mode, tell, len, obs.red, obs.c2s, obs.rb - 2, tell + c1 + c2 + c3) IN
             d.sane /\ ~d.plc /\ d.red = obs.red /\ d.c2s = obs.c2s /\ d.rb = obs.rb
\* ... in closed form (theorem ExplainsClosedForm of Link_mc: equal to the above for every len <= 14):
\* speech only: 2 <= rb <= len - 1; hybrid: 2 <= rb <= 257 and at least three bytes left for the main payload
DecFrameAllows(mode, len, obs) ==
  IF mode = MODE_CELT \/ len <= 1 \/ ~obs.red THEN ~obs.red /\ ~obs.c2s /\ obs.rb = 0
  ELSE IF IsHyb(mode) THEN obs.rb \in 2..257 /\ len - obs.rb >= 3
  ELSE obs.rb >= 2 /\ obs.rb <= len - 1

\* the decoder cross-fades from a concealed frame ("transition") when a coded frame changes between the MDCT-only
\* mode and the others without a redundant frame to bridge it; x = decoder state before the frame
TransitionOf(x, mode, coded, red) ==
  /\ coded /\ x.prevMode # 0 /\ ~red
  /\ \/ mode = MODE_CELT /\ x.prevMode # MODE_CELT /\ ~x.prevRedundancy
     \/ mode # MODE_CELT /\ x.prevMode = MODE_CELT

\* a constant-rate packet is padded at packet level: the frame the decoder sees is the one written
PaddingInvisible(toc, len, padTo) ==
  LET cfg == toc \div 4
      b == R!Enc(cfg, <<len>>, FALSE, 0, TRUE)
      x == R!Enc(cfg, <<len>>, FALSE, padTo - b.len, TRUE)
      r == Parse([hdr |-> x.hdr, len |-> x.len, fill |-> 0], FALSE) IN
  padTo > b.len => (x.len = padTo /\ r.ok /\ r.count = 1 /\ r.sizes = <<len>>)

\* the overrun fallback (TOC + one zero byte) and the DTX packet (TOC alone): the decoder conceals
\* and both final ranges are zero
FallbackConceals(len) == len <= 1

-----------------------------------------------------------------------------
(* 4. Channel and receiver.                                                 *)
(*    Calls the receiver makes on the decoder:                               *)
(*      [t |-> "D", i]     decode packet i                                    *)
(*      [t |-> "X", i]     decode packet i, but conceal if it is a DTX packet *)
(*                         (at most two bytes): "treat DTX packets as losses" *)
(*      [t |-> "P", u]     conceal u units (null packet)                      *)
(*      [t |-> "F", i, u]  in-band FEC from packet i, asking for u units      *)
(*    Policies: what the receiver does with a lost packet.                    *)
(*      PW   conceal the whole packet duration in one call                    *)
(*      PSa, PSb, PSc  conceal it in pieces of 2.5 - 20 ms                    *)
(*      F1   wait for the next packet: FEC with frame_size = one packet        *)
(*           duration if it arrives, conceal if it is lost too                *)
(*      F2   as F1, but two consecutive losses are recovered by ONE call with   *)
(*           frame_size = two packet durations                                *)
(*      DX   PW, and delivered DTX packets are treated as losses               *)
Policies == {"PW", "PSa", "PSb", "PSc", "F1", "F2", "DX"}

CallD(i)    == [t |-> "D", i |-> i, u |-> 0]
CallX(i)    == [t |-> "X", i |-> i, u |-> 0]
CallP(u)    == [t |-> "P", i |-> -1, u |-> u]
CallF(i, u) == [t |-> "F", i |-> i, u |-> u]

\* cut `rem' units into pieces following the cyclic pattern pat (a piece never exceeds what is left)
RECURSIVE SplitBy(_, _, _)
SplitBy(pat, k, rem) ==
  IF rem <= 0 THEN <<>>
  ELSE LET a == Min(pat[(k % Len(pat)) + 1], rem) IN <<a>> \o SplitBy(pat, k + 1, rem - a)
Pieces(policy, U) ==
  CASE policy = "PSa" -> SplitBy(<<1, 2, 4, 8>>, 0, U)
    [] policy = "PSb" -> SplitBy(<<8, 4, 1, 2, 1>>, 0, U)
    [] policy = "PSc" -> SplitBy(<<3, 5, 6, 7, 1>>, 0, U)
    [] OTHER          -> <<U>>
ConcealCalls(policy, U) == LET ps == Pieces(policy, U) IN [j \in 1..Len(ps) |-> CallP(ps[j])]

\* receiver state: owed = number of lost packets whose audio has not been produced yet (F1: <= 1, F2: <= 2)
OwedMax(policy) == IF policy = "F1" THEN 1 ELSE IF policy = "F2" THEN 2 ELSE 0

\* packet i is lost: <<calls, owed'>>
OnDrop(policy, owed, U) ==
  IF OwedMax(policy) = 0 THEN <<ConcealCalls(policy, U), 0>>
  ELSE IF owed < OwedMax(policy) THEN <<<<>>, owed + 1>>
  ELSE <<<<CallP(U)>>, owed>>              \* the oldest owed packet can no longer be recovered: conceal it
\* packet i arrives
OnDeliver(policy, owed, i, U) ==
  LET first == IF owed > 0 THEN <<CallF(i, owed * U)>> ELSE <<>> IN
  <<first \o <<IF policy = "DX" THEN CallX(i) ELSE CallD(i)>>, 0>>
\* the stream ends
OnEnd(policy, owed, U) == <<[j \in 1..owed |-> CallP(U)], 0>>

\* the calls for one fate pattern (sequence of BOOLEAN, TRUE = lost) over packets first..first+n-1
RECURSIVE Schedule(_, _, _, _, _)
Schedule(policy, fates, k, first, U) ==      \* returns <<calls, owed>> after k packets
  IF k = 0 THEN <<<<>>, 0>>
  ELSE LET prev == Schedule(policy, fates, k - 1, first, U)
           step == IF fates[k] THEN OnDrop(policy, prev[2], U) ELSE OnDeliver(policy, prev[2], first + k - 1, U) IN
       <<prev[1] \o step[1], step[2]>>
FullSchedule(policy, fates, first, U) ==
  LET s == Schedule(policy, fates, Len(fates), first, U) IN s[1] \o OnEnd(policy, s[2], U)[1]

CallUnits(c, U) == IF c.t \in {"D", "X"} THEN U ELSE c.u
RECURSIVE ScheduleUnits(_, _)
ScheduleUnits(cs, U) == IF cs = <<>> THEN 0 ELSE CallUnits(Head(cs), U) + ScheduleUnits(Tail(cs), U)

\* what a call hands to the decoder (model side): the DecCtl result
\* pkts: function from packet index to Framing packet; d decoder state; capacity 120 ms for D
CallRes(d, c, pk, U) ==
  LET q == D!Q(d) IN
  CASE c.t = "D" -> D!DecodeRes(d, pk, 48 * q, 0)
    [] c.t = "X" -> IF pk.len <= 2 THEN D!Lost(d, U * q) ELSE D!DecodeRes(d, pk, 48 * q, 0)
    [] c.t = "P" -> D!Lost(d, c.u * q)
    [] OTHER     -> D!Fec(d, pk, c.u * q)

\* the sample count the property demands of a call
CallWant(d, c, U) == (IF c.t \in {"D", "X"} THEN U ELSE c.u) * D!Q(d)

\* in-band FEC data can actually be used by an F call: LBRR present in the packet, the request
\* covers the frame, neither side in MDCT-only mode (otherwise the call is one more concealment)
FecPossible(d, pk, c) ==
  /\ c.t = "F" /\ HasLbrrOf(pk) = 1
  /\ LET r == Parse(pk, FALSE) IN r.ok /\ D!FecUsable(d, r, c.u * D!Q(d))

-----------------------------------------------------------------------------
(* 5. Level bookkeeping for C09 (all levels in centi-dB re full scale).      *)
(*    level = maximum RMS over the last five good packets.                    *)
NoLevel == -30000
PushLevel(lv5, x) == <<x>> \o SubSeq(lv5, 1, 4)
LevelOf(lv5) == LET m(a, b) == IF a > b THEN a ELSE b IN m(m(m(lv5[1], lv5[2]), m(lv5[3], lv5[4])), lv5[5])
NoLevels == <<NoLevel, NoLevel, NoLevel, NoLevel, NoLevel>>
=============================================================================
