----------------------------- MODULE LinkTrace -----------------------------
(***************************************************************************)
(* Validation of recorded encoder -> channel -> decoder executions against  *)
(* module Link (properties C02 and C09).  harness/link.c records, TLC        *)
(* judges.  A rejected event prints <<"REJECTED_AT", line, why>> and stops    *)
(* the cursor; a mismatch with the stricter control-state model of DecCtl is  *)
(* printed as <<"DRIFT", line, what>> (SPEC-DRIFT, not a violation: R1).      *)
(*                                                                         *)
(* C02 events (one execution = new .. end):                                  *)
(*   new   kind t, Fs, ch, app, streams S, decoders nd                        *)
(*   set / rst   control request / reset on the encoder (not judged here)     *)
(*   enc   fs (frame_size argument), mb (buffer), dur (the frame-duration     *)
(*         setting read back before the call), r (return), h (header bytes;   *)
(*         the whole packet for multistream objects), er (encoder final range  *)
(*         as hex string), dec: one record per decoder [fo, co, a, r, dr]      *)
(* C09 events (one stream = L .. endL, receiver runs W .. endW inside):       *)
(*   L     the stream's configuration, U units per packet, decoder (fo, co)   *)
(*   pk    packet i as encoded and as decoded by the loss-free twin           *)
(*   W     a receiver run starts at packet `start' from the twin's state there *)
(*   rx    one receiver call: t in D X P F T, p position before the call       *)
(*         (units), i packet, u units asked for, r return, nul null packet,    *)
(*         er / dr ranges, lv output level, tl twin level, e error vs twin     *)
(*         (centi-dB), F only: fe / pe error energy of this call / of the       *)
(*         concealing reference receiver over the span the in-band data is for  *)
(*         (1e-5 full scale^2), pk peeked decoder control state after the call  *)
(***************************************************************************)
EXTENDS Link, Json, IOUtils, TLC
CONSTANTS M1, M2, M2After, M2Late, M2LateAfter, M3Num, M3Den, M4, M5, M5U, M5After, M5Slack, M6, M6After, M7, M7After,      \* calibrated thresholds (centi-dB; M3 as a ratio of energies), R3
          LevelFloorNeg,                  \* level clauses only above this level (negated centi-dB), R2
          MinFecFrames,                   \* M3 is judged per stream once that many frames were recovered
          CheckM3, CheckM4                \* clauses that calibration left in force
VARIABLES l, cf, w, acc
vars == <<l, cf, w, acc>>

Tr == ndJsonDeserialize(IOEnv.TRACE)
LevelFloor == 0 - LevelFloorNeg
CAPU == 100000
CapU(x) == IF x > CAPU THEN CAPU ELSE x

NoCfg == [k |-> "none"]
NoW == [on |-> FALSE]
\* sf, sp, nf: error energy of FEC / of concealment over the recovered frames, their number;
\* o1, o2, o4 (n1, n2, n4): largest observed value of the quantity each level clause bounds (and how
\* often the clause applied) - printed per stream for the calibration table, not judged
NoObs == -100000
NoAcc == [sf |-> 0, sp |-> 0, nf |-> 0, drift |-> 0, o1 |-> NoObs, o2 |-> NoObs, o2b |-> NoObs, o2c |-> NoObs, o4 |-> NoObs, n1 |-> 0, n2 |-> 0, n4 |-> 0,
          o5 |-> NoObs, o5b |-> NoObs, n5 |-> 0, sf3 |-> 0, sp3 |-> 0, nf3 |-> 0, qpos |-> 0, o6 |-> NoObs, n6 |-> 0, cng |-> <<>>, single |-> TRUE, n5b |-> 0,
          o7 |-> NoObs, n7 |-> 0, o7b |-> NoObs, n7b |-> 0]
BigErr == 100000
Mn(a, b) == IF a < b THEN a ELSE b
Mx(a, b) == IF a > b THEN a ELSE b

Init == l = 1 /\ cf = NoCfg /\ w = NoW /\ acc = NoAcc

Reject(why) == /\ l' = 0 - l /\ PrintT(<<"REJECTED_AT", l, ToString(why)>>) /\ UNCHANGED <<cf, w, acc>>
Drift(what) == IF acc.drift >= 5 THEN TRUE ELSE PrintT(<<"DRIFT", l, ToString(what)>>)

PktOf(e) == [hdr |-> e.h, len |-> e.r, fill |-> 0]

DecOfPeekAt(pk, fo, co) == [Fs |-> fo, ch |-> co, prevMode |-> pk[2], mode |-> pk[1], bw |-> pk[6], frameSize |-> pk[4],
                            streamCh |-> pk[5], prevRedundancy |-> (pk[3] # 0), lastDur |-> pk[7], gain |-> 0]

-----------------------------------------------------------------------------
(* C02 *)
\* the first clause of the property that the event breaks (<<>>: none)
EncWhy(e) ==
  LET S == [Fs |-> cf.Fs, frameDuration |-> e.dur]
      nS == SelectedSamples(S, e.fs)
      ms == cf.t # "enc"
      p == PktOf(e) IN
  IF e.r = INTERNAL_ERROR THEN <<"internal error", e.r>>
  ELSE IF ~ms /\ ~EncRetOK(S, e.fs, e.mb, e.r) THEN <<"return value", e.r, nS, e.mb>>
  ELSE IF ms /\ ~MsEncRetOK(nS, cf.S, e.mb, e.r) THEN <<"return value", e.r, nS, e.mb>>
  ELSE IF e.r < 1 THEN <<>>
  ELSE IF ~ms /\ ~Parse(p, FALSE).ok THEN <<"packet is not well formed">>
  ELSE IF ~ms /\ ~PacketOK(p, nS, cf.Fs) THEN <<"announced duration", nS>>
  ELSE IF ms /\ ~MsPacketOK(p, cf.S, nS, cf.Fs) THEN <<"multistream packet malformed or wrong duration", nS>>
  ELSE IF Len(e.dec) # cf.nd THEN <<"decoders missing">>
  ELSE LET badn == {j \in 1..Len(e.dec) : e.dec[j].r # DecodeWant(nS, cf.Fs, e.dec[j].fo)}
           badr == {j \in 1..Len(e.dec) : e.dec[j].dr # e.er} IN
       IF badn # {} THEN <<"decoder sample count", e.dec[CHOOSE j \in badn : TRUE], DecodeWant(nS, cf.Fs, e.dec[CHOOSE j \in badn : TRUE].fo)>>
       ELSE IF badr # {} THEN <<"final range", e.er, e.dec[CHOOSE j \in badr : TRUE]>>
       ELSE <<>>

\* Model conformance of the first decoder on an accepted packet (SPEC-DRIFT only): its control state after the
\* call is one DecCtl allows, and what its last frame decided about redundancy / transition (hook fields 11..14:
\* hs = <<redundancy, celt_to_silk, redundancy_bytes, transition>>) is what Link!DecFrame can yield for a frame of
\* that mode and length, consistent with the new prev_redundancy and with Link!TransitionOf.  <<>>: conforms.
EncConf(e) ==
  IF cf.t # "enc" \/ e.r < 1 \/ "hs" \notin DOMAIN e THEN <<>>
  ELSE LET p == PktOf(e)
           pr == Parse(p, FALSE)
           mode == TocMode(pr.toc)
           lenLast == pr.sizes[pr.count]
           coded == lenLast > 1
           obs == [red |-> e.hs[1] # 0, c2s |-> e.hs[2] # 0, rb |-> e.hs[3]]
           fo == e.dec[1].fo
           d0 == DecOfPeekAt(e.pk0, fo, e.dec[1].co)
           d1 == DecOfPeekAt(e.pk1, fo, e.dec[1].co)
           res == D!DecodeRes(d0, p, 48 * Q(fo), 0)
           pre == D!FoldFrames({D!WithToc(d0, pr.toc)}, SubSeq(pr.sizes, 1, pr.count - 1), FALSE) IN
       IF ~res.ok \/ d1 \notin res.nexts THEN <<"decoder control state", e.pk0, e.pk1>>
       ELSE IF d0.prevMode = 0 /\ ~coded THEN <<>>            \* nothing decoded yet: the frame is skipped, nothing is decided
       ELSE IF ~DecFrameAllows(mode, lenLast, obs) THEN <<"redundancy decision", mode, lenLast, e.hs>>
       ELSE IF coded /\ d1.prevRedundancy # (obs.red /\ ~obs.c2s) THEN <<"prev_redundancy", e.hs, e.pk1>>
       ELSE IF (e.hs[4] # 0) \notin {TransitionOf(x, mode, coded, obs.red) : x \in pre} THEN <<"transition", e.hs, e.pk0>>
       ELSE <<>>

-----------------------------------------------------------------------------
(* C09 *)
Qo == Q(cf.fo)
DecOfPeek(pk) == DecOfPeekAt(pk, cf.fo, cf.co)

PkWhy(e) ==
  IF e.r < 1 THEN <<"encoder failed", e.r>>
  ELSE IF ~PacketOK(PktOf(e), cf.U * Q(cf.Fs), cf.Fs) THEN <<"packet malformed or wrong duration">>
  ELSE IF e.tr # cf.U * Qo THEN <<"loss-free decoder sample count", e.tr>>
  ELSE IF e.tg # e.er THEN <<"loss-free decoder final range", e.er, e.tg>>
  ELSE IF e.tl >= 30000 THEN <<"loss-free output not finite">>
  ELSE <<>>

\* the call as the model sees it
CallOf(e) == CASE e.t = "D" -> CallD(e.i) [] e.t = "X" -> CallX(e.i) [] e.t = "P" -> CallP(e.u) [] OTHER -> CallF(e.i, e.u)
RxPkt(e) == IF e.t = "P" THEN [hdr |-> <<>>, len |-> 0, fill |-> 0] ELSE [hdr |-> e.h, len |-> e.len, fill |-> 0]
Decodes(e) == e.t = "D" \/ (e.t = "X" /\ e.len > 2)

\* in-band FEC data is there and usable (read conservatively, R2): the encoder had FEC switched on,
\* the packet says it carries LBRR, the model says the call can use it
FecRecovers(e) == /\ e.t = "F" /\ cf.fec >= 1 /\ e.lb = 1
                  /\ FecPossible(w.d, RxPkt(e), CallOf(e))

Level == LevelOf(w.lv5)
\* M1 / M2 were calibrated on the signal families without pauses and onsets from digital silence (0..10); with the
\* talk-spurt families 11 / 12 "the recently decoded level" (five packets, 12..100 ms) is ill-defined at an onset
\* (measured +20.6 dB) and the MDCT layer's noise floor estimate is the signal: they serve M3 / M5 / M6 only (R2)
Stationary == cf.sig <= 10

\* Depth of the MDCT layer's concealment floor (M7).  Under sustained loss the MDCT layer's noise-based concealment decays
\* to the decoder's BACKGROUND-NOISE estimate, which follows the quietest level the stream has had and may rise only slowly
\* (about 2.4 dB per second of received audio).  On the families with a quiet start (15 / 16: 300 ms of faint noise around
\* -60 dBFS, then a STATIONARY loud signal - so the pre-loss level is well defined and the floor is 40+ dB below it) the
\* clause "falls well below the pre-loss level under sustained loss" is asserted with a depth: after M7After units of ANY
\* sustained loss - whatever was lost or received before it in this receiver run, in particular after an EARLIER long
\* outage followed by a stretch of received packets - the concealed level is at least M7 below the pre-loss level.
\* MDCT-only concealment only (R2).  w.prevrun: the longest earlier loss run of this receiver run (units).
QuietStart == cf.sig \in {15, 16}

\* R2 sub-domains of the two clauses that hold only there (calibration table in spec/cfg/LinkTrace.cfg):
\* clean talk spurts separated by exact digital silence (family 11: harmonic, modulated; family 14: unvoiced, fricative-
\* like noise bursts, partly after a voiced start; no noise between the spurts, so the
\* decoder's comfort-noise floor is zero) concealed by the speech / hybrid layer.  (Family 12, the same without
\* pauses, is measured but not asserted: its concealment settles only 3 dB below the level.)
\* Only once the stream has contained a pause (acc.qpos: end of the first packet the loss-free decoder rendered as
\* silence): before that the comfort-noise estimate still holds the level of the stream's first frames.
\* The speech layer's concealment decays to its COMFORT NOISE, which the decoder learns from the frames the encoder
\* flagged as inactive (voice-activity bit 0 in the packet): acc.cng[i + 1] is the loudest level the loss-free twin
\* rendered for an inactive-flagged packet up to packet i since the last packet rendered as silence (NoObs: none) - an
\* upper bound of that estimate.  The clause: after M5After units of loss the concealed level is M5 below the pre-loss
\* level OR within M5Slack of that comfort-noise reference.  Streams of single-frame packets only (the flags of the
\* later frames of a multi-frame packet are not among the logged header bytes).
M5Of == IF cf.sig = 14 THEN M5U ELSE M5
CngRef == IF w.lastgood + 1 >= 1 /\ w.lastgood + 1 <= Len(acc.cng) THEN acc.cng[w.lastgood + 1] ELSE 0
CleanSpeechLayer == /\ cf.sig \in {11, 14} /\ D!PlcMode(w.d) \in {MODE_SILK, MODE_HYBRID}
                    /\ acc.qpos > 0 /\ w.pos - w.run >= acc.qpos /\ acc.single /\ w.lastgood >= 0
M5Target == Mx(Level - M5Of, CngRef + M5Slack)
\* a packet is flagged inactive if a voice-activity bit of its (first) frame is 0 (mid channel; side channel too in stereo)
AnyInactive(p) ==
  LET r == Parse(p, FALSE) IN
  IF ~r.ok \/ TocMode(r.toc) = MODE_CELT \/ r.sizes[1] < 1 THEN TRUE
  ELSE LET b == Byte(p, r.off + 1)
           nf == SilkFramesPerFrame(r.toc) IN
       \/ \E k \in 1..nf : BitOf(b, 8 - k) = 0
       \/ (TocStereo(r.toc) /\ \E k \in 1..nf : BitOf(b, 7 - nf - k) = 0)

\* strong in-band FEC: speech-only wideband mono stream, FEC on with >= 20 % announced loss, >= 32 kb/s,
\* speech-like signal; an isolated loss (the packets before it arrived) recovered by a one-packet FEC call
StrongFecStream == /\ cf.fm = MODE_SILK /\ cf.Fs = 16000 /\ cf.ch = 1 /\ cf.fec >= 1 /\ cf.loss >= 20 /\ cf.br >= 32000
                   /\ cf.sig \in {1, 11, 12} /\ cf.U \in {8, 16, 24}
\* sharp convergence (R2 sub-domain with margin, see the calibration table): stream held in ONE mode of the speech
\* family (speech only or hybrid: no mode transitions), >= 16 kHz, 10 ms packets, talk spurts with pauses (family 11),
\* exactly one concealment call in this receiver run (a single isolated lost packet).  Once the stream has passed a
\* pause after the loss (a packet the loss-free twin renders as silence) and M6After units have gone by, every loud
\* packet (twin level >= LoudFloor) is within -M6 of the twin, relative to its own level.
LoudFloor == -2500
ConvDomain == /\ cf.fm \in {MODE_SILK, MODE_HYBRID} /\ cf.sig = 11 /\ cf.dtx = 0 /\ cf.U = 4 /\ cf.Fs >= 16000
              /\ cf.br >= 24000 /\ cf.fo = cf.Fs /\ cf.co = cf.ch          \* >= 24 kb/s, decoder at the encoder's rate and channel count
              /\ w.nlost = 1
\* over the packets of a T event: <<worst error re level among the judged packets, a pause has been passed>>
RECURSIVE WorstRel(_, _, _, _, _)
WorstRel(e, j, since0, after, paused) ==
  IF j > Len(e.es) THEN <<NoObs, paused>>
  ELSE LET p2 == paused \/ e.ts[j] <= -9000
           rest == WorstRel(e, j + 1, since0, after, p2) IN
       IF paused /\ e.ts[j] >= LoudFloor /\ since0 + (j - 1) * cf.U >= after
       THEN <<Mx(e.es[j] - e.ts[j], rest[1]), rest[2]>> ELSE rest
IsolatedFec(e) == StrongFecStream /\ FecRecovers(e) /\ e.u = cf.U /\ w.run = 0 /\ w.since >= 2 * cf.U

RxWhy(e) ==
  LET c == CallOf(e)
      want == CallWant(w.d, c, cf.U)
      conceals == ~Decodes(e) /\ ~FecRecovers(e) IN
  IF e.p # w.pos THEN <<"harness: position", e.p, w.pos>>
  ELSE IF e.t \in {"D", "X"} /\ e.p # e.i * cf.U THEN <<"harness: packet decoded at the wrong place", e.p, e.i>>
  ELSE IF e.t = "F" /\ e.p + e.u # e.i * cf.U THEN <<"harness: FEC at the wrong place", e.p, e.i, e.u>>
  ELSE IF e.t = "X" /\ (e.nul = 1) # (e.len <= 2) THEN <<"harness: DTX rule">>
  ELSE IF e.r # want THEN <<"returned duration", e.r, want>>                                  \* exact durations
  ELSE IF e.lv >= 30000 THEN <<"output not finite">>
  ELSE IF Decodes(e) /\ e.dr # e.er THEN <<"final range of a received packet", e.er, e.dr>>     \* received packets unaffected
  ELSE IF conceals /\ Stationary /\ Level >= LevelFloor /\ e.lv > Level + M1
       THEN <<"concealment exceeds the recent level", e.lv, Level, M1>>
  \* (asserted for the MDCT layer's concealment only: the speech layer's comfort noise keeps the level of whatever
  \*  its activity detector took for background - measured: no decay at all over 10 s - see the calibration notes)
  ELSE IF conceals /\ Stationary /\ Level >= LevelFloor /\ w.run >= M2After /\ D!PlcMode(w.d) = MODE_CELT /\ e.lv > Level - M2 /\ e.lv > LevelFloor - M2
       THEN <<"concealment does not decay under sustained loss", e.lv, Level, w.run>>
  ELSE IF conceals /\ Stationary /\ Level >= LevelFloor /\ w.run >= M2LateAfter /\ D!PlcMode(w.d) = MODE_CELT /\ e.lv > Level - M2Late /\ e.lv > LevelFloor - M2Late
       THEN <<"concealment does not decay under sustained loss (late)", e.lv, Level, w.run>>
  ELSE IF conceals /\ Level >= LevelFloor /\ w.run >= M5After /\ CleanSpeechLayer /\ e.lv > M5Target /\ e.lv > LevelFloor - M5Of
       THEN <<"speech-layer concealment of a clean signal does not decay under sustained loss", e.lv, Level, CngRef, w.run>>
  ELSE IF conceals /\ QuietStart /\ Level >= LevelFloor /\ w.run >= M7After /\ D!PlcMode(w.d) = MODE_CELT /\ e.lv > Level - M7 /\ e.lv > LevelFloor - M7
       THEN <<"MDCT concealment does not fall well below the pre-loss level under sustained loss (stream with a quiet start)", e.lv, Level, w.run, w.prevrun>>
  ELSE <<>>

TWhy(e) ==
  IF e.p # w.pos \/ e.p # e.i * cf.U THEN <<"harness: position", e.p, w.pos, e.i>>
  ELSE IF \E j \in 1..Len(e.rets) : e.rets[j] # cf.U * Qo THEN <<"returned duration", e.rets>>
  ELSE IF e.ed # e.dd THEN <<"final ranges of received packets", e.i, e.n>>
  ELSE IF e.e >= 30000 THEN <<"output not finite">>
  ELSE IF ConvDomain /\ WorstRel(e, 1, w.since, M6After, w.paused)[1] > 0 - M6
       THEN <<"output diverges from the loss-free decoder long after an isolated loss", WorstRel(e, 1, w.since, M6After, w.paused)[1], w.since>>
  ELSE <<>>

\* model conformance of the decoder's control state (DecCtl): the observed state after the call is
\* one the model allows
Conforms(e) ==
  LET res == CallRes(w.d, CallOf(e), RxPkt(e), cf.U) IN
  /\ res.ok /\ DecOfPeek(e.pk) \in res.nexts

Step(e) ==
  CASE e.k = "new" -> /\ cf' = e /\ w' = NoW /\ acc' = [NoAcc EXCEPT !.drift = acc.drift] /\ l' = l + 1
    [] e.k \in {"set", "rst"} -> /\ l' = l + 1 /\ UNCHANGED <<cf, w, acc>>
    [] e.k = "end" -> /\ l' = l + 1 /\ UNCHANGED <<cf, w, acc>>
                      /\ (IF acc.nf = 0 THEN TRUE ELSE PrintT("RED " \o ToString(acc.nf)))
    [] e.k = "enc" ->
         IF cf.k # "new" \/ cf.ok # 1 THEN Reject(<<"harness: no object">>)
         ELSE LET why == EncWhy(e) IN
              IF why # <<>> THEN Reject(why)
              ELSE LET c == EncConf(e) IN
                   /\ l' = l + 1 /\ UNCHANGED <<cf, w>>
                   /\ acc' = [acc EXCEPT !.drift = IF c = <<>> THEN acc.drift ELSE acc.drift + 1,
                                         !.nf = IF "hs" \in DOMAIN e /\ e.hs[1] # 0 THEN acc.nf + 1 ELSE acc.nf]
                   /\ (IF c = <<>> THEN TRUE ELSE Drift(c))
    [] e.k = "L" -> /\ cf' = e /\ w' = NoW /\ acc' = [NoAcc EXCEPT !.drift = acc.drift] /\ l' = l + 1
    [] e.k = "pk" ->
         IF cf.k # "L" THEN Reject(<<"harness: no stream">>)
         ELSE LET why == PkWhy(e) IN
              IF why # <<>> THEN Reject(why)
              ELSE /\ l' = l + 1 /\ UNCHANGED <<cf, w>>
                   /\ LET prev == IF acc.cng = <<>> THEN 0 ELSE acc.cng[Len(acc.cng)]     \* (before any pause: unknown, 0 dBFS)
                          p == PktOf(e)
                          ref == IF e.tl <= -9000 THEN NoObs ELSE IF AnyInactive(p) THEN Mx(prev, e.tl) ELSE prev IN
                      acc' = [acc EXCEPT !.qpos = IF acc.qpos = 0 /\ e.tl <= -9000 THEN (e.i + 1) * cf.U ELSE acc.qpos,
                                         !.cng = Append(acc.cng, ref),
                                         !.single = acc.single /\ Parse(p, FALSE).count = 1]
    [] e.k = "W" ->
         /\ w' = [on |-> TRUE, pos |-> e.start * cf.U, run |-> 0, lv5 |-> NoLevels, since |-> 0, lost |-> FALSE, nlost |-> 0, paused |-> FALSE, lastgood |-> e.start - 1, best |-> BigErr, tailu |-> 0, prevrun |-> 0, d |-> DecOfPeek(e.pk)]
         /\ l' = l + 1 /\ UNCHANGED <<cf, acc>>
    [] e.k = "rx" /\ e.t = "T" ->
         IF ~w.on THEN Reject(<<"harness: no receiver run">>)
         ELSE LET why == TWhy(e) IN
              IF why # <<>> THEN Reject(why)
              ELSE /\ w' = [w EXCEPT !.pos = w.pos + e.u, !.run = 0, !.since = CapU(w.since + e.u),
                                     !.lv5 = <<e.tl, e.tl, e.tl, e.tl, e.tl>>, !.d = DecOfPeek(e.pk),
                                     !.best = IF w.lost /\ e.tl >= LevelFloor THEN Mn(w.best, e.e - e.tl) ELSE w.best,
                                     !.tailu = CapU(w.tailu + e.u),
                                     !.prevrun = Mx(w.prevrun, w.run),
                                     !.lastgood = e.i + e.n - 1,
                                     !.paused = WorstRel(e, 1, w.since, 0, w.paused)[2]]
                   /\ acc' = IF ConvDomain /\ WorstRel(e, 1, w.since, 80, w.paused)[1] > NoObs
                              THEN [acc EXCEPT !.o6 = Mx(acc.o6, WorstRel(e, 1, w.since, 80, w.paused)[1]), !.n6 = IF acc.n6 < 1000000 THEN acc.n6 + 1 ELSE acc.n6] ELSE acc
                   /\ l' = l + 1 /\ UNCHANGED cf
    [] e.k = "rx" ->
         IF ~w.on THEN Reject(<<"harness: no receiver run">>)
         ELSE LET why == RxWhy(e)
                  good == Decodes(e)
                  rec == FecRecovers(e) /\ acc.nf < 4000
                  c1 == ~good /\ ~FecRecovers(e) /\ Level >= LevelFloor
                  c2 == c1 /\ Stationary /\ w.run >= 160 /\ D!PlcMode(w.d) = MODE_CELT
                  c5 == c1 /\ CleanSpeechLayer /\ w.run >= 160
                  c7 == c1 /\ QuietStart /\ w.run >= 400 /\ D!PlcMode(w.d) = MODE_CELT
                  c7b == c7 /\ w.prevrun >= 400
                  r3 == IsolatedFec(e) /\ acc.nf3 < 4000
                  units == e.r \div Qo IN
              IF why # <<>> THEN Reject(why)
              ELSE /\ w' = [w EXCEPT !.pos = w.pos + units,
                                     !.run = IF good THEN 0 ELSE CapU(w.run + units),
                                     !.since = IF good THEN CapU(w.since + units) ELSE 0,
                                     !.lost = w.lost \/ ~good,
                                     !.lastgood = IF good THEN e.i ELSE w.lastgood,
                                     !.nlost = IF good \/ w.nlost >= 1000 THEN w.nlost ELSE w.nlost + 1,
                                     !.best = IF good THEN w.best ELSE BigErr,
                                     !.paused = IF good THEN (w.paused \/ (w.lost /\ e.tl <= -9000)) ELSE FALSE,
                                     !.tailu = IF good THEN w.tailu ELSE 0,
                                     !.prevrun = IF good THEN Mx(w.prevrun, w.run) ELSE w.prevrun,
                                     !.lv5 = IF good THEN PushLevel(w.lv5, e.lv) ELSE w.lv5,
                                     !.d = DecOfPeek(e.pk)]
                   /\ acc' = [acc EXCEPT !.sf = IF rec THEN acc.sf + e.fe ELSE acc.sf,
                                         !.sp = IF rec THEN acc.sp + e.pe ELSE acc.sp,
                                         !.nf = IF rec THEN acc.nf + 1 ELSE acc.nf,
                                         !.drift = IF Conforms(e) THEN acc.drift ELSE acc.drift + 1,
                                         !.o1 = IF c1 /\ Stationary THEN Mx(acc.o1, e.lv - Level) ELSE acc.o1,
                                         !.n1 = IF c1 /\ Stationary /\ acc.n1 < 1000000 THEN acc.n1 + 1 ELSE acc.n1,
                                         !.o2 = IF c2 THEN Mx(acc.o2, e.lv - Mx(Level, LevelFloor)) ELSE acc.o2,
                                         !.n2 = IF c2 /\ acc.n2 < 1000000 THEN acc.n2 + 1 ELSE acc.n2,
                                         !.o2b = IF c2 /\ w.run >= 400 THEN Mx(acc.o2b, e.lv - Mx(Level, LevelFloor)) ELSE acc.o2b,
                                         !.o2c = IF c2 /\ w.run >= 800 THEN Mx(acc.o2c, e.lv - Mx(Level, LevelFloor)) ELSE acc.o2c,
                                         !.o5 = IF c5 /\ CngRef + M5Slack <= Level - M5Of THEN Mx(acc.o5, e.lv - Level) ELSE acc.o5,
                                         !.o5b = IF c5 /\ CngRef + M5Slack > Level - M5Of THEN Mx(acc.o5b, e.lv - CngRef) ELSE acc.o5b,
                                         !.n5b = IF c5 /\ CngRef + M5Slack > Level - M5Of /\ acc.n5b < 1000000 THEN acc.n5b + 1 ELSE acc.n5b,
                                         !.n5 = IF c5 /\ CngRef + M5Slack <= Level - M5Of /\ acc.n5 < 1000000 THEN acc.n5 + 1 ELSE acc.n5,
                                         !.sf3 = IF r3 THEN acc.sf3 + e.fe ELSE acc.sf3,
                                         !.sp3 = IF r3 THEN acc.sp3 + e.pe ELSE acc.sp3,
                                         !.nf3 = IF r3 THEN acc.nf3 + 1 ELSE acc.nf3,
                                         !.o7 = IF c7 THEN Mx(acc.o7, e.lv - Mx(Level, LevelFloor)) ELSE acc.o7,
                                         !.n7 = IF c7 /\ acc.n7 < 1000000 THEN acc.n7 + 1 ELSE acc.n7,
                                         !.o7b = IF c7b THEN Mx(acc.o7b, e.lv - Mx(Level, LevelFloor)) ELSE acc.o7b,
                                         !.n7b = IF c7b /\ acc.n7b < 1000000 THEN acc.n7b + 1 ELSE acc.n7b]
                   /\ (IF Conforms(e) THEN TRUE ELSE Drift(<<"decoder control state", e.t, e.pk>>))
                   /\ l' = l + 1 /\ UNCHANGED cf
    [] e.k = "endW" ->
         \* after packets resume the output converges back to the loss-free decoder's: within the 1.2 s (or more)
         \* that follow the last loss some stretch of about 200 ms is within -M4 of the twin, relative to the signal
         LET judged == w.on /\ w.lost /\ w.tailu >= 480 /\ w.best < BigErr IN
         IF w.on /\ e.pos # w.pos THEN Reject(<<"harness: end position", e.pos, w.pos>>)
         ELSE IF CheckM4 /\ judged /\ w.best > 0 - M4 THEN Reject(<<"output has not converged back to the loss-free decoder", w.best, w.tailu>>)
         ELSE /\ w' = NoW /\ l' = l + 1 /\ UNCHANGED cf
              /\ acc' = IF judged THEN [acc EXCEPT !.o4 = Mx(acc.o4, w.best), !.n4 = acc.n4 + 1] ELSE acc
    [] e.k = "endL" ->
         \* in-band FEC reconstructs the lost frames far more accurately than concealment does:
         \* aggregated over the stream, error energy at most M3Num/M3Den of the concealment error
         \* (judged on the StrongFecStream sub-domain, isolated losses only)
         IF CheckM3 /\ acc.nf3 >= MinFecFrames /\ acc.sf3 > (acc.sp3 \div M3Den) * M3Num
         THEN Reject(<<"FEC is not far more accurate than concealment", acc.sf3, acc.sp3, acc.nf3>>)
         ELSE /\ PrintT("OBS " \o ToString(<<cf.x, acc.nf, acc.sf, acc.sp, acc.o1, acc.n1, acc.o2, acc.n2, acc.o4, acc.n4, acc.o2b, acc.o2c, acc.o5, acc.o5b, acc.n5, acc.nf3, acc.sf3, acc.sp3, acc.o6, acc.n6, acc.n5b, acc.o7, acc.n7, acc.o7b, acc.n7b>>))
              /\ cf' = NoCfg /\ w' = NoW /\ acc' = [NoAcc EXCEPT !.drift = acc.drift] /\ l' = l + 1
    [] OTHER -> Reject(<<"unexpected event", e.k>>)       \* Hang, Canary, bad

Next == \/ /\ l >= 1 /\ l <= Len(Tr) /\ Step(Tr[l])
        \/ /\ (l < 1 \/ l > Len(Tr)) /\ UNCHANGED vars
Spec == Init /\ [][Next]_vars

Done == (l > Len(Tr) \/ l < 1) => PrintT(<<"END", l, acc.drift>>)
=============================================================================
