------------------------------ MODULE Link_mc ------------------------------
(***************************************************************************)
(* Exhaustive TLC runs on module Link.  Several small systems share the     *)
(* variables; a cfg file picks one SPECIFICATION:                           *)
(*   SpecHS    the redundancy handshake: every (mode, tell, budget, wish,    *)
(*             direction, size, rate mode)        -> RedundancySignalAgrees  *)
(*   SpecPK    every packet of the encoder envelope x every decoder          *)
(*             configuration (stateless, one fan-out step)                   *)
(*                                 -> EveryPacketParses, DurationMatches,    *)
(*                                    DecoderAcceptsAll, FitsBuffer           *)
(*   SpecC02   all sequences <= MaxSteps of {control change, Encode(duration, *)
(*             budget class, signal class)} x decoder (Fs_out, ch_out), the   *)
(*             encoder choosing any packet of the envelope that honours the   *)
(*             settings (EncCtl) -> the same theorems along behaviours,       *)
(*                                  EnvelopeNonEmpty, DecTypeOK               *)
(*   SpecC09   all 2^K fates of K packets x receiver policy x duration class  *)
(*             x stream kind: Deliver and Drop are separate actions           *)
(*                                 -> DurationsExact, TimelineExact,          *)
(*                                    FecOnlyWhenPossible,                    *)
(*                                    GoodPacketsUnaffected, no deadlock      *)
(*   SpecG02 / SpecG09   behaviour generation for the conformance runs       *)
(***************************************************************************)
EXTENDS Link, TLC
CONSTANTS MaxSteps,      \* SpecC02 / SpecG02: length of the histories
          K,             \* SpecC09 / SpecG09: number of packets whose fate is chosen
          Durs,          \* duration classes (units of 2.5 ms)
          Pols,          \* receiver policies
          Reserve,       \* bits the MDCT layer reserves in a hybrid frame (37)
          DirZero,       \* admit a direction bit that costs no whole bit (see Link!DirCost)
          TellMax, BudgetMax
VARIABLES st, n, S, G, d, hist

vars == <<st, n, S, G, d, hist>>
None == [none |-> TRUE]

-----------------------------------------------------------------------------
(* SpecHS *)
HSInit == st = [k |-> "start"] /\ n = 0 /\ S = None /\ G = None /\ d = None /\ hist = <<>>
HSNext ==
  /\ st.k = "start"
  /\ \E mode \in {MODE_SILK, MODE_HYBRID}, tell \in 1..TellMax, B \in 1..BudgetMax, want \in BOOLEAN,
        c2s \in BOOLEAN, rbWant \in {1, 2, 3, 5, 9, 300}, cbr \in BOOLEAN :
        st' = [k |-> "case", mode |-> mode, tell |-> tell, B |-> B, want |-> want, c2s |-> c2s, rbWant |-> rbWant, cbr |-> cbr]
  /\ UNCHANGED <<n, S, G, d, hist>>
SpecHS == HSInit /\ [][HSNext]_vars

RedundancySignalAgrees ==
  st.k # "start" => RedundancySignalAgreesAt(st.mode, st.tell, st.B, st.want, st.c2s, st.rbWant, st.cbr, Reserve, DirZero)
\* the handshake is exercised in every branch (vacuity guard: these must be VIOLATED)
SomeRedSilk   == ~(st.k # "start" /\ st.mode = MODE_SILK /\ \E f \in EncFrames(st.mode, st.tell, st.B, st.want, st.c2s, st.rbWant, st.cbr, Reserve, DirZero) : f.red)
SomeRedHybrid == ~(st.k # "start" /\ st.mode = MODE_HYBRID /\ \E f \in EncFrames(st.mode, st.tell, st.B, st.want, st.c2s, st.rbWant, st.cbr, Reserve, DirZero) : f.red /\ f.main < st.B - f.rb)
PaddingOK == st.k = "start" => \A len \in {0, 1, 2, 3, 100, 251, 252, 253, 600, 1275} : \A padTo \in {3, 4, 5, 100, 255, 256, 257, 258, 300, 511, 512, 513, 514, 1000, 1276} :
                (len + 3 <= padTo) => PaddingInvisible(72, len, padTo)

-----------------------------------------------------------------------------
(* The envelope: packets an encoder may emit for U units into mb bytes.      *)
ModeBw == {<<MODE_SILK, BW_NB>>, <<MODE_SILK, BW_MB>>, <<MODE_SILK, BW_WB>>, <<MODE_HYBRID, BW_SWB>>,
           <<MODE_HYBRID, BW_FB>>, <<MODE_CELT, BW_NB>>, <<MODE_CELT, BW_WB>>, <<MODE_CELT, BW_SWB>>, <<MODE_CELT, BW_FB>>}
\* payload sizes per frame: all frames alike, or the first one different
SizePatterns(cnt, dtxOK) ==
  LET base == {2, 3, 40, 252, 253} \cup (IF dtxOK THEN {0, 1} ELSE {1}) IN
  {[i \in 1..cnt |-> a] : a \in base} \cup
  (IF cnt > 1 THEN {[i \in 1..cnt |-> IF i = 1 THEN a ELSE b] : a \in {0, 3, 252}, b \in {2, 40}} ELSE {})

EnvAll(U, mb, dtxOK) ==
  {p \in UNION {UNION {{EncPacket(mb2[1], mb2[2], stereo, U, sz, pad) : pad \in {0, mb}}
                        : sz \in SizePatterns(Cut(mb2[1], U)[1], dtxOK), stereo \in BOOLEAN}
                : mb2 \in {x \in ModeBw : ModeOKFor(x[1], U)}}
     : p.len <= mb}
  \cup {p \in {TocOnlyPacket(mb2[1], mb2[2], stereo, U) : mb2 \in {x \in ModeBw : ModeOKFor(x[1], U)}, stereo \in BOOLEAN} : p.len <= mb}

MbClasses == {1, 2, 3, 7, 60, 1276}
DecConfigs == {<<fs, ch>> : fs \in FsSet, ch \in {1, 2}}

PacketTheorems(p, U, Fs, mb, fo, co) ==
  LET nS == U * Q(Fs)
      res == D!DecodeRes(D!DecInit(fo, co), p, 48 * Q(fo), 0) IN
  /\ Parse(p, FALSE).ok                                     \* EveryPacketParses
  /\ PacketOK(p, nS, Fs)                                    \* DurationMatches
  /\ res.ok /\ res.n = DecodeWant(nS, Fs, fo)               \* DecoderAcceptsAll
  /\ p.len <= mb                                            \* FitsBuffer

PKInit == HSInit
PKNext == /\ st.k = "start"
          /\ \E U \in Durs, mb \in MbClasses, Fs \in FsSet, dc \in DecConfigs :
                st' = [k |-> "case", U |-> U, mb |-> mb, Fs |-> Fs, fo |-> dc[1], co |-> dc[2]]
          /\ UNCHANGED <<n, S, G, d, hist>>
SpecPK == PKInit /\ [][PKNext]_vars
EnvelopeTheorems ==
  st.k # "start" => \A p \in EnvAll(st.U, st.mb, TRUE) : PacketTheorems(p, st.U, st.Fs, st.mb, st.fo, st.co)
\* exactly the durations other than 100 ms have a one-byte packet ("one byte is refused only for 100 ms")
OneByteOnly100 ==
  \A U \in Units : (\E toc \in 0..255 : PacketOK([hdr |-> <<toc>>, len |-> 1, fill |-> 0], U * 120, 48000)) <=> (U # 40)
SomeBigEnvelope == ~(st.k # "start" /\ \E p \in EnvAll(st.U, st.mb, TRUE) : Parse(p, FALSE).count = 5)

-----------------------------------------------------------------------------
(* SpecC02: histories of control changes and encode calls.                  *)
CtlGrid == {<<E!SET_FORCE_CHANNELS, v>> : v \in {OPUS_AUTO, 1, 2}} \cup
           {<<E!SET_BANDWIDTH, v>> : v \in {OPUS_AUTO, BW_NB, BW_WB, BW_FB}} \cup
           {<<E!SET_MAX_BANDWIDTH, v>> : v \in {BW_NB, BW_MB, BW_FB}} \cup
           {<<E!SET_EXPERT_FRAME_DURATION, v>> : v \in {5000, 5001, 5004, 5006, 5009}} \cup
           {<<E!SET_DTX, v>> : v \in {0, 1}} \cup {<<E!SET_VBR, v>> : v \in {0, 1}} \cup
           {<<E!SET_FORCE_MODE, v>> : v \in {OPUS_AUTO, MODE_SILK, MODE_CELT}}

C02Init == /\ st = [k |-> "run"] /\ n = 0 /\ hist = <<>>
           /\ \E Fs \in {8000, 48000}, ch \in {1, 2}, app \in {APP_VOIP, APP_LOWDELAY} : S = E!InitS(Fs, ch, app)
           /\ G = E!InitG
           /\ \E dc \in DecConfigs : d = D!DecInit(dc[1], dc[2])

Ctl == /\ n < MaxSteps
       /\ \E c \in CtlGrid :
            LET outs == E!EncSet(S, G, c[1], c[2])
                ok == {o \in outs : o.ret = OK} IN
            /\ ok # {} /\ \E o \in ok : S' = o.S /\ G' = o.G
            /\ hist' = Append(hist, <<"C", c[1], c[2]>>)
       /\ n' = n + 1 /\ UNCHANGED <<st, d>>

\* the envelope under the settings in force: packets that honour them (EncCtl!EncodeHonours)
Honours(p, nS) == E!EncodeHonours(S, G, nS, E!PktAttr(Parse(p, FALSE), S.Fs))
Env(U, mb, sig) == {p \in EnvAll(U, mb, sig = "silence" /\ S.dtx = 1) : Honours(p, U * Q(S.Fs))}

\* the frame_size argument for U units under the duration setting: with a fixed duration the call
\* consumes that duration (if the argument is long enough); the model submits exactly what is consumed
UnitsConsumed(U) == IF S.frameDuration = E!FRAMESIZE_ARG THEN U
                    ELSE E!DurSamples(S.frameDuration, S.Fs) \div Q(S.Fs)

Encode ==
  /\ n < MaxSteps
  /\ \E U0 \in Durs, mb \in MbClasses, sig \in {"silence", "loud"} :
       LET U == UnitsConsumed(U0)
           nS == U * Q(S.Fs) IN
       /\ U0 >= U
       /\ ~(mb = 1 /\ U = 40)
       /\ \E p \in Env(U, mb, sig) :
            LET res == D!DecodeRes(d, p, 48 * D!Q(d), 0) IN
            /\ st' = [k |-> "enc", p |-> p, U |-> U, mb |-> mb, res |-> res, env |-> TRUE]
            /\ \E x \in res.nexts : d' = x
            /\ G' \in E!EncGhostAfterEncode(S, G, p.len, E!PktAttr(Parse(p, FALSE), S.Fs), {-1})
            /\ hist' = Append(hist, <<"E", U, mb, sig>>)
  /\ n' = n + 1 /\ UNCHANGED S

C02Next == Ctl \/ Encode
SpecC02 == C02Init /\ [][C02Next]_vars
ViewC02 == <<n, S, G, d>>

StepTheorems ==
  (st.k # "run") =>
     /\ PacketOK(st.p, st.U * Q(S.Fs), S.Fs)
     /\ st.res.ok /\ st.res.n = st.U * D!Q(d)
     /\ st.p.len <= st.mb
     /\ D!RetContractOf(st.res, 48 * D!Q(d))
StepOK == [][(st' # st) => StepTheorems']_vars
DecTypeOK == D!DecTypeOK(d)
\* whatever the settings, for every duration the call can take and every buffer of two bytes or more
\* (one byte unless 100 ms) there is a packet that honours all of them: "succeeds" is satisfiable
EnvelopeNonEmpty ==
  \A U0 \in Durs, mb \in {1, 2, 3} :
     LET U == UnitsConsumed(U0) IN (U0 >= U /\ ~(mb = 1 /\ U = 40)) => Env(U, mb, "loud") # {}

-----------------------------------------------------------------------------
(* SpecG02: settings-change histories for replay (abstract classes; the      *)
(* check draws the concrete values from the boundary grid).                   *)
CtlClasses == {"bitrate", "vbr", "cvbr", "complexity", "bandwidth", "maxbw", "forcech", "forcemode", "fec", "loss",
               "dtx", "lsb", "pred", "pinv", "dur", "signal", "reset"}
DurClasses == {"short", "10", "20", "40-60", "80-120"}
BudClasses == {"tiny", "edge", "mid", "big"}
G02Init == st = [k |-> "gen"] /\ n = 0 /\ S = None /\ G = None /\ d = None /\ hist = <<>>
G02Next == /\ n < MaxSteps
           /\ \/ \E c \in CtlClasses : /\ (hist = <<>> \/ hist[Len(hist)] # <<"C", c>>) /\ n + 1 < MaxSteps
                                      /\ hist' = Append(hist, <<"C", c>>)
              \/ \E dc \in DurClasses, bc \in BudClasses : hist' = Append(hist, <<"E", dc, bc>>)
           /\ n' = n + 1 /\ UNCHANGED <<st, S, G, d>>
SpecG02 == G02Init /\ [][G02Next]_vars
EmitG02 == (n = MaxSteps) => PrintT("HIST " \o ToString(hist))

-----------------------------------------------------------------------------
(* SpecC09: the lossy channel.                                              *)
(*   st    [pol, U, kind, i, owed, pos, tok, ended, calls]                    *)
(*   hist  the fates so far (TRUE = lost)                                     *)
(*   d     decoder state                                                      *)
Kinds == {"silk", "hybrid", "celt", "dtx"}
KindOK(kind, U) == (kind = "celt") \/ U >= 4

\* packet i of a stream of the given kind (header bytes include the first payload byte so that
\* the LBRR flag can be read): speech packets announce LBRR for the previous packet from i = 1 on
LbrrByte(mode, U, i) == IF i >= 1 /\ mode # MODE_CELT THEN 2 ^ (7 - SilkFramesPerFrame(TocOf(mode, IF mode = MODE_SILK THEN BW_WB ELSE BW_FB, Cut(mode, U)[2], FALSE))) ELSE 0
StreamPacket(kind, U, i) ==
  LET mode == IF kind = "hybrid" THEN MODE_HYBRID ELSE IF kind = "celt" THEN MODE_CELT ELSE MODE_SILK
      bw == IF mode = MODE_SILK THEN BW_WB ELSE BW_FB
      cnt == Cut(mode, U)[1]
      isDtx == kind = "dtx" /\ i % 3 = 1
      p == EncPacket(mode, bw, FALSE, U, [j \in 1..cnt |-> IF isDtx THEN 0 ELSE 40], 0) IN
  IF isDtx THEN p ELSE [p EXCEPT !.hdr = p.hdr \o <<LbrrByte(mode, U, i)>>]
\* the encoder's final-range token of packet i (0: TOC-only packets end with a zero range)
TokOf(kind, U, i) == IF StreamPacket(kind, U, i).len <= 2 THEN 0 ELSE i + 1
FecTok == -1

\* apply a sequence of calls to the decoder: set of <<d', results>> (prevRedundancy is guessed)
RECURSIVE Apply(_, _, _, _)
Apply(ds, cs, kind, U) ==
  IF cs = <<>> THEN ds
  ELSE LET c == Head(cs) IN
       Apply(UNION {LET res == CallRes(x.d, c, IF c.i >= 0 THEN StreamPacket(kind, U, c.i) ELSE [hdr |-> <<>>, len |-> 0, fill |-> 0], U) IN
                    {[d |-> y,
                      ok |-> x.ok /\ res.ok /\ res.n = CallWant(x.d, c, U),
                      fecok |-> x.fecok /\ (res.out = "fec" => (c.t = "F" /\ TocMode(StreamPacket(kind, U, c.i).hdr[1]) # MODE_CELT
                                                                 /\ c.u >= Cut(TocMode(StreamPacket(kind, U, c.i).hdr[1]), U)[2] /\ x.d.mode # MODE_CELT))
                                       /\ (FecPossible(x.d, IF c.i >= 0 THEN StreamPacket(kind, U, c.i) ELSE [hdr |-> <<>>, len |-> 0, fill |-> 0], c) => res.out = "fec"),
                      units |-> x.units + CallUnits(c, U),
                      tok |-> IF c.t = "D" \/ (c.t = "X" /\ StreamPacket(kind, U, c.i).len > 2) THEN TokOf(kind, U, c.i)
                              ELSE IF c.t = "F" /\ res.out = "fec" THEN FecTok ELSE 0] : y \in res.nexts}
                    : x \in ds}, Tail(cs), kind, U)

C09Init == /\ n = 0 /\ S = None /\ G = None /\ hist = <<>>
           /\ \E pol \in Pols, U \in Durs, kind \in Kinds :
                /\ KindOK(kind, U) /\ (pol = "DX" <=> kind = "dtx")
                /\ st = [k |-> "rx", pol |-> pol, U |-> U, kind |-> kind, owed |-> 0, pos |-> 0, tok |-> 0, ended |-> FALSE,
                         ok |-> TRUE, fecok |-> TRUE, calls |-> <<>>]
           /\ \E fo \in {8000, 48000} : d = D!DecInit(fo, 1)

Step(r, owed2, calls) ==
  /\ d' = r.d
  /\ st' = [st EXCEPT !.owed = owed2, !.pos = st.pos + r.units, !.tok = r.tok, !.ok = r.ok, !.fecok = r.fecok, !.calls = calls]

Start(x) == {[d |-> x, ok |-> TRUE, fecok |-> TRUE, units |-> 0, tok |-> st.tok]}

Deliver == /\ n < K /\ ~st.ended
           /\ LET o == OnDeliver(st.pol, st.owed, n, st.U) IN
              \E r \in Apply(Start(d), o[1], st.kind, st.U) : Step(r, o[2], o[1])
           /\ hist' = Append(hist, FALSE) /\ n' = n + 1 /\ UNCHANGED <<S, G>>
Drop ==    /\ n < K /\ ~st.ended
           /\ LET o == OnDrop(st.pol, st.owed, st.U) IN
              \E r \in Apply(Start(d), o[1], st.kind, st.U) : Step(r, o[2], o[1])
           /\ hist' = Append(hist, TRUE) /\ n' = n + 1 /\ UNCHANGED <<S, G>>
EndOfStream == /\ n = K /\ ~st.ended
               /\ LET o == OnEnd(st.pol, st.owed, st.U) IN
                  \E r \in Apply(Start(d), o[1], st.kind, st.U) :
                     /\ d' = r.d
                     /\ st' = [st EXCEPT !.owed = 0, !.pos = st.pos + r.units, !.tok = r.tok, !.ok = r.ok, !.fecok = r.fecok,
                                         !.calls = o[1], !.ended = TRUE]
               /\ UNCHANGED <<n, S, G, hist>>
Done == st.ended /\ UNCHANGED vars        \* the only state without a real successor

C09Next == Deliver \/ Drop \/ EndOfStream \/ Done
SpecC09 == C09Init /\ [][C09Next]_vars

DurationsExact == st.ok                          \* every call so far returned exactly what it was asked for
TimelineExact  == /\ st.pos + st.owed * st.U = n * st.U          \* audio owed is bounded and nothing is lost or doubled
                  /\ st.owed <= OwedMax(st.pol)
                  /\ st.ended => st.pos = K * st.U
FecOnlyWhenPossible ==
  /\ st.fecok                                     \* in-band data is used exactly when it can be
  /\ \A j \in 1..Len(st.calls) : st.calls[j].t = "F" =>       \* FEC is only asked of a packet that has arrived
        /\ st.calls[j].i + 1 <= Len(hist) /\ ~hist[st.calls[j].i + 1]
        /\ st.calls[j].u \in {st.U, 2 * st.U}
\* a packet that arrives is decoded with the encoder's range, whatever was lost or recovered before it
GoodPacketsUnaffected == (n > 0 /\ ~st.ended /\ ~hist[n]) => st.tok = TokOf(st.kind, st.U, n - 1)
ScheduleAgrees == st.ended => LET s == FullSchedule(st.pol, hist, 0, st.U) IN ScheduleUnits(s, st.U) = K * st.U
C09TypeOK == D!DecTypeOK(d)
\* vacuity guards (must be VIOLATED): in-band FEC data is really used somewhere; a two-packet FEC call happens
SomeFecUsed == ~(st.tok = FecTok)
SomeDoubleFec == ~(\E j \in 1..Len(st.calls) : st.calls[j].t = "F" /\ st.calls[j].u = 2 * st.U)

-----------------------------------------------------------------------------
(* SpecG09: the call schedules for replay: every fate pattern of K packets   *)
(* (after five delivered ones) x policy, for each duration class.            *)
G09Init == st = [k |-> "gen"] /\ n = 0 /\ S = None /\ G = None /\ d = None /\ hist = <<>>
G09Next == /\ n < K /\ \E b \in BOOLEAN : hist' = Append(hist, b)
           /\ n' = n + 1 /\ UNCHANGED <<st, S, G, d>>
SpecG09 == G09Init /\ [][G09Next]_vars
Five == <<FALSE, FALSE, FALSE, FALSE, FALSE>>
Tok(c) == IF c.t = "P" THEN "P" \o ToString(c.u)
          ELSE IF c.t = "F" THEN "F" \o ToString(c.i) \o ":" \o ToString(c.u)
          ELSE c.t \o ToString(c.i)
RECURSIVE Toks(_)
Toks(cs) == IF cs = <<>> THEN "" ELSE Tok(Head(cs)) \o " " \o Toks(Tail(cs))
B2S(b) == IF b THEN "1" ELSE "0"
RECURSIVE Bits(_)
Bits(f) == IF f = <<>> THEN "" ELSE B2S(Head(f)) \o Bits(Tail(f))
EmitG09 == (n = K) => \A U \in Durs, pol \in Pols :
              PrintT("SCHED " \o pol \o " " \o ToString(U) \o " " \o Bits(hist) \o " | " \o Toks(FullSchedule(pol, Five \o hist, 0, U)))
=============================================================================
