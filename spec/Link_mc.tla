------------------------------ MODULE Link_mc ------------------------------
(***************************************************************************)
(* Exhaustive TLC runs on module Link.  Several small systems share the     *)
(* variables; a cfg file picks one SPECIFICATION:                           *)
(*   SpecHS    the redundancy handshake: every (mode, tell, budget, wish,    *)
(*             direction, size, rate mode)        -> RedundancySignalAgrees  *)
(*   SpecPK    every packet of the encoder envelope x every decoder          *)
(*             configuration (stateless, one fan-out step)                   *)
(*                                 -> EveryPacketParses, DurationMatches,    *)
(*                                    DecoderAcceptsAll, FitsBuffer           *)
(*   SpecC02   all sequences <= MaxSteps of {control change, Encode(duration, *)
(*             budget class, signal class)} x decoder (Fs_out, ch_out), the   *)
(*             encoder choosing any packet of the envelope that honours the   *)
(*             settings (EncCtl) -> the same theorems along behaviours,       *)
(*                                  EnvelopeNonEmpty, DecTypeOK               *)
(*   SpecC09   all 2^K fates of K packets x receiver policy x duration class  *)
(*             x stream kind: Deliver and Drop are separate actions           *)
(*                                 -> DurationsExact, TimelineExact,          *)
(*                                    FecOnlyWhenPossible,                    *)
(*                                    GoodPacketsUnaffected, no deadlock      *)
(*   SpecG02 / SpecG09   behaviour generation for the conformance runs       *)
(***************************************************************************)
EXTENDS Link, TLC
CONSTANTS MaxSteps,      \* SpecC02 / SpecG02: length of the histories
          K,             \* SpecC09 / SpecG09: number of packets whose fate is chosen
          Durs,          \* duration classes (units of 2.5 ms)
          Pols,          \* receiver policies
          Reserve,       \* bits the MDCT layer reserves in a hybrid frame (37)
          DirZero,       \* admit a direction bit that costs no whole bit (see Link!DirCost)
          TellMax, BudgetMax,
          CtlReqs, EncRates, DecSet   \* SpecC02: control requests, encoder rates and decoder configurations explored
VARIABLES xst, xn, xS, xG, xd, xhist

vars == <<xst, xn, xS, xG, xd, xhist>>
None == [none |-> TRUE]

-----------------------------------------------------------------------------
(* SpecHS *)
HSInit == xst = [k |-> "start"] /\ xn = 0 /\ xS = None /\ xG = None /\ xd = None /\ xhist = <<>>
HSNext ==
  /\ xst.k = "start"
  /\ \E mode \in {MODE_SILK, MODE_HYBRID}, tell \in 1..TellMax, B \in 1..BudgetMax, want \in BOOLEAN,
        c2s \in BOOLEAN, rbWant \in {1, 2, 3, 5, 9, 300}, cbr \in BOOLEAN :
        xst' = [k |-> "case", mode |-> mode, tell |-> tell, B |-> B, want |-> want, c2s |-> c2s, rbWant |-> rbWant, cbr |-> cbr]
  /\ UNCHANGED <<xn, xS, xG, xd, xhist>>
SpecHS == HSInit /\ [][HSNext]_vars

RedundancySignalAgrees ==
  xst.k # "start" => RedundancySignalAgreesAt(xst.mode, xst.tell, xst.B, xst.want, xst.c2s, xst.rbWant, xst.cbr, Reserve, DirZero)
\* the handshake is exercised in every branch (vacuity guard: these must be VIOLATED)
SomeRedSilk   == ~(xst.k # "start" /\ xst.mode = MODE_SILK /\ \E f \in EncFrames(xst.mode, xst.tell, xst.B, xst.want, xst.c2s, xst.rbWant, xst.cbr, Reserve, DirZero) : f.red)
SomeRedHybrid == ~(xst.k # "start" /\ xst.mode = MODE_HYBRID /\ \E f \in EncFrames(xst.mode, xst.tell, xst.B, xst.want, xst.c2s, xst.rbWant, xst.cbr, Reserve, DirZero) : f.red /\ f.main < xst.B - f.rb)
ObsSet == {[red |-> r, c2s |-> c, rb |-> b] : r \in BOOLEAN, c \in BOOLEAN, b \in {0, 1, 2, 3, 4, 9, 10, 11, 12, 13, 14, 257, 258}}
ExplainsClosedForm == xst.k = "start" => \A mode \in {MODE_SILK, MODE_HYBRID, MODE_CELT}, len \in 0..14, obs \in ObsSet :
                         DecFrameExplains(mode, len, obs) <=> DecFrameAllows(mode, len, obs)
PaddingOK == xst.k = "start" => \A len \in {0, 1, 2, 3, 100, 251, 252, 253, 600, 1275} : \A padTo \in {3, 4, 5, 100, 255, 256, 257, 258, 300, 511, 512, 513, 514, 1000, 1276} :
                (len + 3 <= padTo) => PaddingInvisible(72, len, padTo)

-----------------------------------------------------------------------------
(* The envelope: packets an encoder may emit for U units into mb bytes.      *)
ModeBw == {<<MODE_SILK, BW_NB>>, <<MODE_SILK, BW_MB>>, <<MODE_SILK, BW_WB>>, <<MODE_HYBRID, BW_SWB>>,
           <<MODE_HYBRID, BW_FB>>, <<MODE_CELT, BW_NB>>, <<MODE_CELT, BW_WB>>, <<MODE_CELT, BW_SWB>>, <<MODE_CELT, BW_FB>>}
\* payload sizes per frame: all frames alike, or the first one different
SizePatterns(cnt, dtxOK) ==
  LET base == {2, 3, 40, 252, 253} \cup (IF dtxOK THEN {0, 1} ELSE {1}) IN
  {[i \in 1..cnt |-> a] : a \in base} \cup
  (IF cnt > 1 THEN {[i \in 1..cnt |-> IF i = 1 THEN a ELSE b] : a \in {0, 3, 252}, b \in {2, 40}} ELSE {})

EnvAll(U, mb, dtxOK) ==
  {p \in UNION {UNION {{EncPacket(mb2[1], mb2[2], stereo, U, sz, pad) : pad \in {0, mb}}
                        : sz \in SizePatterns(Cut(mb2[1], U)[1], dtxOK), stereo \in BOOLEAN}
                : mb2 \in {x \in ModeBw : ModeOKFor(x[1], U)}}
     : p.len <= mb}
  \cup {p \in {TocOnlyPacket(mb2[1], mb2[2], stereo, U) : mb2 \in {x \in ModeBw : ModeOKFor(x[1], U)}, stereo \in BOOLEAN} : p.len <= mb}

MbClasses == {1, 2, 3, 7, 60, 1276}
DecConfigs == {<<fs, ch>> : fs \in FsSet, ch \in {1, 2}}

PacketTheorems(p, U, Fs, mb, fo, co) ==
  LET nS == U * Q(Fs)
      res == D!DecodeRes(D!DecInit(fo, co), p, 48 * Q(fo), 0) IN
  /\ Parse(p, FALSE).ok                                     \* EveryPacketParses
  /\ PacketOK(p, nS, Fs)                                    \* DurationMatches
  /\ res.ok /\ res.n = DecodeWant(nS, Fs, fo)               \* DecoderAcceptsAll
  /\ p.len <= mb                                            \* FitsBuffer

PKInit == HSInit
PKNext == /\ xst.k = "start"
          /\ \E U \in Durs, mb \in MbClasses : xst' = [k |-> "case", U |-> U, mb |-> mb]
          /\ UNCHANGED <<xn, xS, xG, xd, xhist>>
SpecPK == PKInit /\ [][PKNext]_vars
EnvelopeTheorems ==
  xst.k # "start" => \A p \in EnvAll(xst.U, xst.mb, TRUE) : \A Fs \in FsSet, dc \in DecConfigs :
                         PacketTheorems(p, xst.U, Fs, xst.mb, dc[1], dc[2])
\* exactly the durations other than 100 ms have a one-byte packet ("one byte is refused only for 100 ms")
OneByteOnly100 ==
  \A U \in Units : (\E toc \in 0..255 : PacketOK([hdr |-> <<toc>>, len |-> 1, fill |-> 0], U * 120, 48000)) <=> (U # 40)
SomeBigEnvelope == ~(xst.k # "start" /\ \E p \in EnvAll(xst.U, xst.mb, TRUE) : Parse(p, FALSE).count = 5)

-----------------------------------------------------------------------------
(* SpecC02: histories of control changes and encode calls.                  *)
(* The decoder's step depends on the packet only, the set of packets the     *)
(* encoder may choose from depends on the settings only; SpecPK has already   *)
(* quantified over EVERY packet of the envelope, so along behaviours the      *)
(* encoder chooses among class representatives (every mode x bandwidth x      *)
(* channel count x {coded, not transmitted, TOC-only}) that honour the        *)
(* settings in force.                                                        *)
CtlGrid == {c \in {<<E!SET_FORCE_CHANNELS, v>> : v \in {OPUS_AUTO, 1, 2}} \cup
                  {<<E!SET_BANDWIDTH, v>> : v \in {OPUS_AUTO, BW_NB, BW_WB, BW_FB}} \cup
                  {<<E!SET_MAX_BANDWIDTH, v>> : v \in {BW_NB, BW_MB, BW_FB}} \cup
                  {<<E!SET_EXPERT_FRAME_DURATION, v>> : v \in {5000, 5001, 5004, 5006, 5009}} \cup
                  {<<E!SET_DTX, v>> : v \in {0, 1}} \cup {<<E!SET_VBR, v>> : v \in {0, 1}} \cup
                  {<<E!SET_FORCE_MODE, v>> : v \in {OPUS_AUTO, MODE_SILK, MODE_CELT}} : c[1] \in CtlReqs}

DecSetQuick == {<<8000, 1>>, <<48000, 2>>}
C02Init == /\ xst = [k |-> "run"] /\ xn = 0 /\ xhist = <<>>
           /\ \E Fs \in EncRates, ch \in {1, 2}, app \in {APP_VOIP, APP_LOWDELAY} : xS = E!InitS(Fs, ch, app)
           /\ xG = E!InitG
           /\ \E dc \in DecSet : xd = D!DecInit(dc[1], dc[2])

Ctl == /\ xn < MaxSteps
       /\ \E c \in CtlGrid :
            LET outs == E!EncSet(xS, xG, c[1], c[2])
                ok == {o \in outs : o.ret = OK} IN
            /\ ok # {} /\ \E o \in ok : xS' = o.S /\ xG' = o.G
            /\ xhist' = Append(xhist, <<"C", c[1], c[2]>>)
       /\ xn' = xn + 1 /\ UNCHANGED <<xst, xd>>

\* class representatives, computed once (TLCEval forces the table): per duration, mode x bandwidth,
\* channel count, kind (coded frames / frames not transmitted / TOC-only) and constant-rate size
RepPkt(U, x, stereo, kind, pad) ==
  IF kind = "toc" THEN TocOnlyPacket(x[1], x[2], stereo, U)
  ELSE EncPacket(x[1], x[2], stereo, U, [i \in 1..Cut(x[1], U)[1] |-> IF kind = "dtx" THEN 0 ELSE 3], pad)
RepRec(U, x, stereo, kind, pad) ==
  LET p == RepPkt(U, x, stereo, kind, pad)
      pr == Parse(p, FALSE) IN
  [U |-> U, kind |-> kind, pad |-> pad, p |-> p, len |-> p.len,
   attr |-> [f \in FsSet |-> E!PktAttr(pr, f)]]
RepTable == TLCEval([U \in Units |->
              {RepRec(U, x, stereo, kp[1], kp[2]) :
                 x \in {y \in ModeBw : ModeOKFor(y[1], U)}, stereo \in BOOLEAN,
                 kp \in {<<"coded", 0>>, <<"coded", 3>>, <<"coded", 60>>, <<"dtx", 0>>, <<"toc", 0>>}}])

\* the envelope under the settings in force: representatives that fit and honour them (EncCtl!EncodeHonours)
InEnv(r, U, mb, sig) ==
  /\ r.len <= mb
  /\ r.pad = (IF xS.vbr = 0 /\ r.kind = "coded" THEN mb ELSE 0)
  /\ r.kind = "dtx" => (sig = "silence" /\ xS.dtx = 1)
HonoursRep(r, U) == E!EncodeHonours(xS, xG, U * Q(xS.Fs), r.attr[xS.Fs])
Env(U, mb, sig) == {r \in RepTable[U] : InEnv(r, U, mb, sig) /\ HonoursRep(r, U)}

\* the frame_size argument for U units under the duration setting: with a fixed duration the call
\* consumes that duration (if the argument is long enough); the model submits exactly what is consumed
UnitsConsumed(U) == IF xS.frameDuration = E!FRAMESIZE_ARG THEN U
                    ELSE E!DurSamples(xS.frameDuration, xS.Fs) \div Q(xS.Fs)

\* budget classes and signal classes only restrict the envelope; the successor state depends on the
\* packet alone, so the action ranges over the packets some (budget, signal) class admits and records
\* the smallest such budget
MbSet == {1, 2, 3, 60}
Admits(U, r) == IF ~HonoursRep(r, U) THEN {}
                ELSE {mb \in MbSet : ~(mb = 1 /\ U = 40) /\ \E sig \in {"silence", "loud"} : InEnv(r, U, mb, sig)}
Encode ==
  /\ xn < MaxSteps
  /\ \E U0 \in Durs :
       LET U == UnitsConsumed(U0) IN
       /\ U0 >= U
       /\ \E r \in RepTable[U] :
            LET p == r.p
                adm == Admits(U, r)
                res == D!DecodeRes(xd, p, 48 * D!Q(xd), 0) IN
            /\ adm # {}
            /\ xst' = [k |-> "enc", p |-> p, U |-> U, mb |-> CHOOSE m \in adm : \A m2 \in adm : m <= m2, res |-> res]
            /\ \E x \in res.nexts : xd' = x
            \* (the size of the last coded frame is not read by anything here: one representative)
            /\ \E g \in E!EncGhostAfterEncode(xS, xG, p.len, r.attr[xS.Fs], {-1}) : g.pfs = r.attr[xS.Fs].fsz /\ xG' = g
            /\ xhist' = Append(xhist, <<"E", U>>)
  /\ xn' = xn + 1 /\ UNCHANGED xS

C02Next == Ctl \/ Encode
SpecC02 == C02Init /\ [][C02Next]_vars
\* fields that are written but never read by the envelope or the decoder contract are left out of the view
ViewC02 == <<xn, xS, [xG EXCEPT !.pfs = 0], [xd EXCEPT !.lastDur = 0]>>

\* checked on EVERY transition (also those that lead to a state already seen)
EncodeStepOK ==
  (xst'.k = "enc" /\ xn' # xn) =>
     LET x == xst' IN
     /\ PacketOK(x.p, x.U * Q(xS.Fs), xS.Fs)                        \* EveryPacketParses, DurationMatches
     /\ x.res.ok /\ x.res.n = x.U * D!Q(xd)                        \* DecoderAcceptsAll
     /\ x.p.len <= x.mb
     /\ D!RetContractOf(x.res, 48 * D!Q(xd)) /\ D!LastDurTracksOf(xd, x.res)
StepOK == [][EncodeStepOK]_vars
DecTypeOK == D!DecTypeOK(xd)
\* whatever the settings, for every duration the call can take and every buffer of two bytes or more
\* (one byte unless 100 ms) there is a packet that honours all of them: "succeeds" is satisfiable
EnvelopeNonEmpty ==
  \A U0 \in Durs, mb \in {1, 2, 3} :
     LET U == UnitsConsumed(U0) IN (U0 >= U /\ ~(mb = 1 /\ U = 40)) => Env(U, mb, "loud") # {}

-----------------------------------------------------------------------------
(* SpecG02: settings-change histories for replay (abstract classes; the      *)
(* check draws the concrete values from the boundary grid).                   *)
CtlClasses == {"bitrate", "vbr", "cvbr", "complexity", "bandwidth", "maxbw", "forcech", "forcemode", "fec", "loss",
               "dtx", "lsb", "pred", "pinv", "dur", "signal", "reset"}
DurClasses == {"short", "10", "20", "40-60", "80-120"}
BudClasses == {"tiny", "edge", "mid", "big"}
G02Init == xst = [k |-> "gen"] /\ xn = 0 /\ xS = None /\ xG = None /\ xd = None /\ xhist = <<>>
G02Next == /\ xn < MaxSteps
           /\ \/ \E c \in CtlClasses : /\ (IF xhist = <<>> THEN TRUE ELSE xhist[Len(xhist)] # <<"C", c>>) /\ xn + 1 < MaxSteps
                                      /\ xhist' = Append(xhist, <<"C", c>>)
              \/ \E dc \in DurClasses, bc \in BudClasses : xhist' = Append(xhist, <<"E", dc, bc>>)
           /\ xn' = xn + 1 /\ UNCHANGED <<xst, xS, xG, xd>>
SpecG02 == G02Init /\ [][G02Next]_vars
EmitG02 == (xn = MaxSteps) => PrintT("HIST " \o ToString(xhist))

-----------------------------------------------------------------------------
(* SpecC09: the lossy channel.                                              *)
(*   xst    [pol, U, kind, i, owed, pos, tok, ended, calls]                    *)
(*   xhist  the fates so far (TRUE = lost)                                     *)
(*   xd     decoder state                                                      *)
Kinds == {"silk", "hybrid", "celt", "dtx"}
KindOK(kind, U) == (kind = "celt") \/ U >= 4

\* packet i of a stream of the given kind (header bytes include the first payload byte so that
\* the LBRR flag can be read): speech packets announce LBRR for the previous packet from i = 1 on
LbrrByte(mode, U, i) == IF i >= 1 /\ mode # MODE_CELT THEN 2 ^ (7 - SilkFramesPerFrame(TocOf(mode, IF mode = MODE_SILK THEN BW_WB ELSE BW_FB, Cut(mode, U)[2], FALSE))) ELSE 0
StreamPacket(kind, U, i) ==
  LET mode == IF kind = "hybrid" THEN MODE_HYBRID ELSE IF kind = "celt" THEN MODE_CELT ELSE MODE_SILK
      bw == IF mode = MODE_SILK THEN BW_WB ELSE BW_FB
      cnt == Cut(mode, U)[1]
      isDtx == kind = "dtx" /\ i % 3 = 1
      p == EncPacket(mode, bw, FALSE, U, [j \in 1..cnt |-> IF isDtx THEN 0 ELSE 40], 0) IN
  IF isDtx THEN p ELSE [p EXCEPT !.hdr = p.hdr \o <<LbrrByte(mode, U, i)>>]
\* the encoder's final-range token of packet i (0: TOC-only packets end with a zero range)
TokOf(kind, U, i) == IF StreamPacket(kind, U, i).len <= 2 THEN 0 ELSE i + 1
FecTok == -1

\* apply a sequence of calls to the decoder: set of <<xd', results>> (prevRedundancy is guessed)
RECURSIVE Apply(_, _, _, _)
Apply(ds, cs, kind, U) ==
  IF cs = <<>> THEN ds
  ELSE LET c == Head(cs) IN
       Apply(UNION {LET res == CallRes(x.d, c, IF c.i >= 0 THEN StreamPacket(kind, U, c.i) ELSE [hdr |-> <<>>, len |-> 0, fill |-> 0], U) IN
                    {[d |-> y,
                      ok |-> x.ok /\ res.ok /\ res.n = CallWant(x.d, c, U),
                      fecok |-> x.fecok /\ (res.out = "fec" => (c.t = "F" /\ TocMode(StreamPacket(kind, U, c.i).hdr[1]) # MODE_CELT
                                                                 /\ c.u >= Cut(TocMode(StreamPacket(kind, U, c.i).hdr[1]), U)[2] /\ x.d.mode # MODE_CELT))
                                       /\ (FecPossible(x.d, IF c.i >= 0 THEN StreamPacket(kind, U, c.i) ELSE [hdr |-> <<>>, len |-> 0, fill |-> 0], c) => res.out = "fec"),
                      used |-> x.used \/ res.out = "fec",
                      units |-> x.units + CallUnits(c, U),
                      tok |-> IF c.t = "D" \/ (c.t = "X" /\ StreamPacket(kind, U, c.i).len > 2) THEN TokOf(kind, U, c.i)
                              ELSE IF c.t = "F" /\ res.out = "fec" THEN FecTok ELSE 0] : y \in res.nexts}
                    : x \in ds}, Tail(cs), kind, U)

C09Init == /\ xn = 0 /\ xS = None /\ xG = None /\ xhist = <<>>
           /\ \E pol \in Pols, U \in Durs, kind \in Kinds :
                /\ KindOK(kind, U) /\ (pol = "DX" <=> kind = "dtx")
                /\ xst = [k |-> "rx", pol |-> pol, U |-> U, kind |-> kind, owed |-> 0, pos |-> 0, tok |-> 0, ended |-> FALSE,
                         ok |-> TRUE, fecok |-> TRUE, used |-> FALSE, calls |-> <<>>]
           /\ \E fo \in {8000, 48000} : xd = D!DecInit(fo, 1)

Step(r, owed2, calls) ==
  /\ xd' = r.d
  /\ xst' = [xst EXCEPT !.owed = owed2, !.pos = xst.pos + r.units, !.tok = r.tok, !.ok = r.ok, !.fecok = r.fecok, !.used = r.used, !.calls = calls]

Start(x) == {[d |-> x, ok |-> xst.ok, fecok |-> xst.fecok, used |-> xst.used, units |-> 0, tok |-> xst.tok]}

Deliver == /\ xn < K /\ ~xst.ended
           /\ LET o == OnDeliver(xst.pol, xst.owed, xn, xst.U) IN
              \E r \in Apply(Start(xd), o[1], xst.kind, xst.U) : Step(r, o[2], o[1])
           /\ xhist' = Append(xhist, FALSE) /\ xn' = xn + 1 /\ UNCHANGED <<xS, xG>>
Drop ==    /\ xn < K /\ ~xst.ended
           /\ LET o == OnDrop(xst.pol, xst.owed, xst.U) IN
              \E r \in Apply(Start(xd), o[1], xst.kind, xst.U) : Step(r, o[2], o[1])
           /\ xhist' = Append(xhist, TRUE) /\ xn' = xn + 1 /\ UNCHANGED <<xS, xG>>
EndOfStream == /\ xn = K /\ ~xst.ended
               /\ LET o == OnEnd(xst.pol, xst.owed, xst.U) IN
                  \E r \in Apply(Start(xd), o[1], xst.kind, xst.U) :
                     /\ xd' = r.d
                     /\ xst' = [xst EXCEPT !.owed = 0, !.pos = xst.pos + r.units, !.tok = r.tok, !.ok = r.ok, !.fecok = r.fecok, !.used = r.used,
                                         !.calls = o[1], !.ended = TRUE]
               /\ UNCHANGED <<xn, xS, xG, xhist>>
Done == xst.ended /\ UNCHANGED vars        \* the only state without a real successor

C09Next == Deliver \/ Drop \/ EndOfStream \/ Done
SpecC09 == C09Init /\ [][C09Next]_vars

DurationsExact == xst.ok                          \* every call so far returned exactly what it was asked for
TimelineExact  == /\ xst.pos + xst.owed * xst.U = xn * xst.U          \* audio owed is bounded and nothing is lost or doubled
                  /\ xst.owed <= OwedMax(xst.pol)
                  /\ xst.ended => xst.pos = K * xst.U
FecOnlyWhenPossible ==
  /\ xst.fecok                                     \* in-band data is used exactly when it can be
  /\ \A j \in 1..Len(xst.calls) : xst.calls[j].t = "F" =>       \* FEC is only asked of a packet that has arrived
        /\ xst.calls[j].i + 1 <= Len(xhist) /\ ~xhist[xst.calls[j].i + 1]
        /\ xst.calls[j].u \in {xst.U, 2 * xst.U}
\* a packet that arrives is decoded with the encoder's range, whatever was lost or recovered before it
GoodPacketsUnaffected == (xn > 0 /\ ~xst.ended /\ ~xhist[xn]) => xst.tok = TokOf(xst.kind, xst.U, xn - 1)
ScheduleAgrees == xst.ended => LET s == FullSchedule(xst.pol, xhist, 0, xst.U) IN ScheduleUnits(s, xst.U) = K * xst.U
C09TypeOK == D!DecTypeOK(xd)
\* vacuity guards (must be VIOLATED): in-band FEC data is really used somewhere; a two-packet FEC call happens
SomeFecUsed == ~xst.used
SomeDoubleFec == ~(\E j \in 1..Len(xst.calls) : xst.calls[j].t = "F" /\ xst.calls[j].u = 2 * xst.U)

-----------------------------------------------------------------------------
(* SpecG09: the call schedules for replay: every fate pattern of K packets   *)
(* (after five delivered ones) x policy, for each duration class.            *)
G09Init == xst = [k |-> "gen"] /\ xn = 0 /\ xS = None /\ xG = None /\ xd = None /\ xhist = <<>>
G09Next == /\ xn < K /\ \E b \in BOOLEAN : xhist' = Append(xhist, b)
           /\ xn' = xn + 1 /\ UNCHANGED <<xst, xS, xG, xd>>
SpecG09 == G09Init /\ [][G09Next]_vars
Five == <<FALSE, FALSE, FALSE, FALSE, FALSE>>
Tok(c) == IF c.t = "P" THEN "P" \o ToString(c.u)
          ELSE IF c.t = "F" THEN "F" \o ToString(c.i) \o ":" \o ToString(c.u)
          ELSE c.t \o ToString(c.i)
RECURSIVE Toks(_)
Toks(cs) == IF cs = <<>> THEN "" ELSE Tok(Head(cs)) \o " " \o Toks(Tail(cs))
B2S(b) == IF b THEN "1" ELSE "0"
RECURSIVE Bits(_)
Bits(f) == IF f = <<>> THEN "" ELSE B2S(Head(f)) \o Bits(Tail(f))
EmitG09 == (xn = K) => \A U \in Durs, pol \in Pols :
              PrintT("SCHED " \o pol \o " " \o ToString(U) \o " " \o Bits(xhist) \o " | " \o Toks(FullSchedule(pol, Five \o xhist, 0, U)))

\* long bursts (up to 10 s): the schedule in closed form - prefix, a group of calls repeated, suffix -
\* proved equal to FullSchedule for short bursts (BurstFormOK), printed for the long ones
BurstPols == {"PW", "PSa", "PSc", "F1", "F2"}
BurstGroup(pol, U) == IF pol \in {"F1", "F2"} THEN <<CallP(U)>> ELSE ConcealCalls(pol, U)
BurstReps(pol, L) == IF pol = "F1" THEN L - 1 ELSE IF pol = "F2" THEN L - 2 ELSE L
BurstSuffix(pol, L, U) == (IF pol = "F1" THEN <<CallF(5 + L, U)>> ELSE IF pol = "F2" THEN <<CallF(5 + L, 2 * U)>> ELSE <<>>) \o <<CallD(5 + L)>>
BurstPrefix == <<CallD(0), CallD(1), CallD(2), CallD(3), CallD(4)>>
RECURSIVE RepSeq(_, _)
RepSeq(g, k) == IF k <= 0 THEN <<>> ELSE g \o RepSeq(g, k - 1)
BurstFormOK == \A pol \in BurstPols \cap Pols, U \in Durs, L \in 2..8 :
                 BurstPrefix \o RepSeq(BurstGroup(pol, U), BurstReps(pol, L)) \o BurstSuffix(pol, L, U)
                   = FullSchedule(pol, Five \o [j \in 1..L |-> TRUE] \o <<FALSE>>, 0, U)
EmitBursts == (xn = 0) => \A pol \in BurstPols \cap Pols, U \in Durs, ms \in {400, 500, 1000, 1500, 3000, 10000} :
                 LET L == (ms * 2) \div (5 * U) IN
                 L < 2 \/ PrintT("BURST " \o pol \o " " \o ToString(U) \o " " \o ToString(L) \o " | " \o Toks(BurstPrefix) \o "| "
                                 \o Toks(BurstGroup(pol, U)) \o "| " \o ToString(BurstReps(pol, L)) \o " | " \o Toks(BurstSuffix(pol, L, U)))

\* TWO sustained bursts separated by a stretch of G received packets (the concealing policies): the earlier one long
\* (seconds: a network drop), then packets resume, then a second sustained loss.  Closed form - prefix, group x L1,
\* D(5+L1) .. D(5+L1+G-1), group x L2, D(5+L1+G+L2) - proved equal to FullSchedule for short ones (Burst2FormOK),
\* printed for the long ones (the replay side expands "first middle packet" + G into the run of D calls)
Burst2Pols == {"PW", "PSa", "PSc"}
RunD(first, n) == [j \in 1..n |-> CallD(first + j - 1)]
Burst2Form(pol, U, L1, G, L2) == BurstPrefix \o RepSeq(BurstGroup(pol, U), L1) \o RunD(5 + L1, G)
                                   \o RepSeq(BurstGroup(pol, U), L2) \o <<CallD(5 + L1 + G + L2)>>
Burst2FormOK == \A pol \in Burst2Pols \cap Pols, U \in Durs, L1 \in 2..4, G \in 1..3, L2 \in 2..3 :
                  Burst2Form(pol, U, L1, G, L2)
                    = FullSchedule(pol, Five \o [j \in 1..L1 |-> TRUE] \o [j \in 1..G |-> FALSE] \o [j \in 1..L2 |-> TRUE] \o <<FALSE>>, 0, U)
EmitBursts2 == (xn = 0) => \A pol \in Burst2Pols \cap Pols, U \in Durs, ms1 \in {3000, 10000, 26000}, msg \in {500, 1000, 2500}, ms2 \in {1500, 3000} :
                 LET L1 == (ms1 * 2) \div (5 * U)
                     G  == (msg * 2) \div (5 * U)
                     L2 == (ms2 * 2) \div (5 * U) IN
                 L1 < 2 \/ G < 1 \/ L2 < 2 \/
                 PrintT("BURST2 " \o pol \o " " \o ToString(U) \o " " \o ToString(L1) \o " " \o ToString(G) \o " " \o ToString(L2) \o " | "
                        \o Toks(BurstPrefix) \o "| " \o Toks(BurstGroup(pol, U)) \o "| " \o Toks(<<CallD(5 + L1)>>) \o "| " \o Toks(<<CallD(5 + L1 + G + L2)>>))
=============================================================================
