--------------------------------- MODULE MS ---------------------------------
(***************************************************************************)
(* Multistream, surround, ambisonics and projection coding (property C10). *)
(*                                                                         *)
(* Sources: RFC 7845 section 5.1.1 (channel mapping: stream count N,        *)
(* coupled count M, mapping table, families 0, 1, 255), RFC 8486 section 3  *)
(* (families 2 and 3), RFC 6716 Appendix B (self-delimiting framing, through *)
(* module Framing).  Nothing here is transcribed from the implementation     *)
(* except the section "Budget", which is by its nature a model of the        *)
(* encoder's byte budgeting algorithm.                                       *)
(*                                                                         *)
(* Conventions: a layout is (ch, S, C, map): ch output channels, S streams   *)
(* of which the first C are coupled (stereo), map a sequence of ch entries   *)
(* 0..255 (TLA+ sequences are 1-based: map[c] belongs to channel c-1).       *)
(* The decoded channels are numbered 0..S+C-1: 2s and 2s+1 are left and      *)
(* right of coupled stream s < C, s + C is mono stream s >= C.               *)
(***************************************************************************)
EXTENDS Framing, FiniteSets

MUTE == 255

-----------------------------------------------------------------------------
(* Layouts (RFC 7845 section 5.1.1: "stream count" N > 0, "coupled count"    *)
(* M <= N, M + N <= 255; a mapping entry is an index < M + N or 255).        *)

LayoutShapeOK(ch, S, C) ==
  /\ ch \in 1..255 /\ S \in 1..255 /\ C \in 0..S /\ S + C <= 255

ValidLayoutDec(ch, S, C, map) ==
  /\ LayoutShapeOK(ch, S, C)
  /\ \A i \in 1..ch : map[i] = MUTE \/ map[i] < S + C

\* decoded channel k -> (stream, side)
SlotOf(C, k) ==
  IF k < 2 * C THEN [stream |-> k \div 2, side |-> IF k % 2 = 0 THEN "L" ELSE "R"]
  ELSE [stream |-> k - C, side |-> "M"]

MuteRoute == [stream |-> MUTE, side |-> "mute"]

\* where output channel c (1-based) comes from
Route(map, C, c) == IF map[c] = MUTE THEN MuteRoute ELSE SlotOf(C, map[c])

\* the output channels fed by decoded channel k
Fed(ch, map, k) == {c \in 1..ch : map[c] = k}

(* An encoder additionally needs an input for every decoded channel: both    *)
(* sides of every coupled stream and every mono stream are fed by an input   *)
(* channel.  (S + C <= ch follows, see EncCountImplied.)                     *)
AllFed(ch, S, C, map) == \A k \in 0..(S + C - 1) : Fed(ch, map, k) # {}

ValidLayoutEnc(ch, S, C, map) ==
  /\ ValidLayoutDec(ch, S, C, map)
  /\ S + C <= ch
  /\ AllFed(ch, S, C, map)

\* the input channel an encoder takes for decoded channel k: the first one mapped to it
EncSource(ch, map, k) == CHOOSE c \in Fed(ch, map, k) : \A d \in Fed(ch, map, k) : c <= d

(* Theorems about layouts (TLC, MS_mc mode "layout").                       *)
RouteTypeOK(ch, S, C, map) ==
  ValidLayoutDec(ch, S, C, map) =>
    \A c \in 1..ch :
      LET r == Route(map, C, c) IN
      \/ r = MuteRoute /\ map[c] = MUTE
      \/ /\ r.stream \in 0..(S - 1)
         /\ (r.side \in {"L", "R"}) = (r.stream < C)
         /\ (r.side = "M") = (r.stream >= C)
         \* Route and Fed are inverse to each other
         /\ c \in Fed(ch, map, map[c])
         /\ SlotOf(C, map[c]) = r

\* the slots are a bijection between 0..S+C-1 and {(s, L), (s, R) : s < C} u {(s, M) : C <= s < S}
SlotsBijective(S, C) ==
  /\ \A j, k \in 0..(S + C - 1) : SlotOf(C, j) = SlotOf(C, k) => j = k
  /\ {SlotOf(C, k) : k \in 0..(S + C - 1)} =
       {[stream |-> s, side |-> sd0] : s \in 0..(C - 1), sd0 \in {"L", "R"}} \cup
       {[stream |-> s, side |-> "M"] : s \in C..(S - 1)}

\* the explicit S + C <= ch of ValidLayoutEnc is implied by "every decoded channel is fed"
EncCountImplied(ch, S, C, map) ==
  (ValidLayoutDec(ch, S, C, map) /\ AllFed(ch, S, C, map)) => S + C <= ch

EncImpliesDec(ch, S, C, map) == ValidLayoutEnc(ch, S, C, map) => ValidLayoutDec(ch, S, C, map)

-----------------------------------------------------------------------------
(* Mapping families.  Family(f, ch) is the layout a surround / ambisonics /  *)
(* projection encoder must come up with, or Reject.                          *)

Reject == [ok |-> FALSE]
Lay(S, C, map) == [ok |-> TRUE, S |-> S, C |-> C, map |-> map]
Identity(n) == [i \in 1..n |-> i - 1]

(* Family 1 (RFC 7845 section 5.1.1.2): 1..8 channels in the Vorbis order.   *)
Speakers(ch) ==
  CASE ch = 1 -> <<"FC">>
    [] ch = 2 -> <<"FL", "FR">>
    [] ch = 3 -> <<"FL", "FC", "FR">>
    [] ch = 4 -> <<"FL", "FR", "RL", "RR">>
    [] ch = 5 -> <<"FL", "FC", "FR", "RL", "RR">>
    [] ch = 6 -> <<"FL", "FC", "FR", "RL", "RR", "LFE">>
    [] ch = 7 -> <<"FL", "FC", "FR", "SL", "SR", "RC", "LFE">>
    [] ch = 8 -> <<"FL", "FC", "FR", "SL", "SR", "RL", "RR", "LFE">>

(* The RFC fixes the order of the output channels, not how they are spread   *)
(* over streams (the mapping table travels in the header).  The layout       *)
(* recorded here is the conventional one (Vorbis I / opus-tools): left/right *)
(* pairs share a coupled stream - front, side, rear, in that order - then    *)
(* the two centres when both exist; what is left gets mono streams in        *)
(* channel order, so that the LFE, when present, is alone on the last one.   *)
PairOrder == << <<"FL", "FR">>, <<"SL", "SR">>, <<"RL", "RR">>, <<"FC", "RC">> >>

InSeq(x, s) == \E i \in 1..Len(s) : s[i] = x
IndexIn(x, s) == CHOOSE i \in 1..Len(s) : s[i] = x

Fam1Pairs(ch) == LET sp == Speakers(ch) PresentPair(pr) == InSeq(pr[1], sp) /\ InSeq(pr[2], sp)
                 IN SelectSeq(PairOrder, PresentPair)
Fam1Monos(ch) == LET sp == Speakers(ch) prs == Fam1Pairs(ch)
                     Single(x) == ~\E j \in 1..Len(prs) : x \in {prs[j][1], prs[j][2]}
                 IN SelectSeq(sp, Single)
Fam1(ch) ==
  LET sp == Speakers(ch) prs == Fam1Pairs(ch) mon == Fam1Monos(ch)
      nC == Len(prs)
      idx(x) == IF InSeq(x, mon) THEN 2 * nC + IndexIn(x, mon) - 1
                ELSE LET j == CHOOSE q \in 1..nC : x \in {prs[q][1], prs[q][2]} IN
                     2 * (j - 1) + (IF x = prs[j][1] THEN 0 ELSE 1)
  IN Lay(nC + Len(mon), nC, [i \in 1..ch |-> idx(sp[i])])

\* the stream that carries the LFE (-1: none)
Fam1LfeStream(ch) ==
  IF ch \in 1..8 /\ InSeq("LFE", Speakers(ch))
  THEN Len(Fam1Pairs(ch)) + IndexIn("LFE", Fam1Monos(ch)) - 1 ELSE -1

(* Families 2 and 3 (RFC 8486 section 3): (n+1)^2 ambisonic channels in ACN  *)
(* order, n = 0..14, optionally followed by two non-diegetic stereo channels.*)
AmbiOrders == 0..14
AmbiCounts(orders) == {(n + 1) * (n + 1) + 2 * j : n \in orders, j \in {0, 1}}
AmbiAcn(ch) == LET n == CHOOSE m \in AmbiOrders : ch - (m + 1) * (m + 1) \in {0, 2} IN (n + 1) * (n + 1)

(* Family 2: every ambisonic channel has a mono stream of its own, the       *)
(* non-diegetic pair one coupled stream (coupled streams come first in the   *)
(* packet, RFC 7845).                                                       *)
Fam2(ch) ==
  LET acn == AmbiAcn(ch) nd == IF ch > acn THEN 1 ELSE 0 IN
  Lay(acn + nd, nd, [i \in 1..ch |-> IF i <= acn THEN 2 * nd + (i - 1) ELSE i - acn - 1])

(* Family 3: the encoder mixes the channels through a matrix and sends the   *)
(* result pairwise; the matrix must be one of the built-in ones.             *)
ProjOrders == 1..5
Fam3(ch) == Lay((ch + 1) \div 2, ch \div 2, Identity(ch))

Family(f, ch) ==
  IF ch \notin 1..255 THEN Reject
  ELSE IF f = 0 THEN (IF ch \in {1, 2} THEN Lay(1, ch - 1, Identity(ch)) ELSE Reject)
  ELSE IF f = 1 THEN (IF ch \in 1..8 THEN Fam1(ch) ELSE Reject)
  ELSE IF f = 255 THEN Lay(ch, 0, Identity(ch))
  ELSE IF f = 2 THEN (IF ch \in AmbiCounts(AmbiOrders) THEN Fam2(ch) ELSE Reject)
  ELSE IF f = 3 THEN (IF ch \in AmbiCounts(ProjOrders) THEN Fam3(ch) ELSE Reject)
  ELSE Reject

LfeStream(f, ch) == IF f = 1 THEN Fam1LfeStream(ch) ELSE -1

(* Theorems about the family table (TLC, MS_mc mode "family").              *)
RightOf(x) == CASE x = "FL" -> "FR" [] x = "SL" -> "SR" [] x = "RL" -> "RR"
IsPermutation(ch, map) == {map[i] : i \in 1..ch} = 0..(ch - 1)
FamilySound(f, ch) ==
  LET y == Family(f, ch) IN
  y.ok =>
    /\ ValidLayoutEnc(ch, y.S, y.C, y.map)
    /\ y.S + y.C = ch                        \* every channel is carried on its own
    /\ IsPermutation(ch, y.map)              \* ... none twice, none muted
    /\ f \in {0, 3, 255} => y.map = Identity(ch)
    /\ f = 1 =>
         LET sp == Speakers(ch) IN
         \A i \in 1..ch :
           LET r == Route(y.map, y.C, i) IN
           \* left speakers sit on left sides, right speakers on right sides of one coupled stream
           /\ sp[i] \in {"FL", "SL", "RL"} =>
                /\ r.side = "L"
                /\ \E j \in 1..ch : /\ sp[j] = RightOf(sp[i])
                                    /\ Route(y.map, y.C, j) = [stream |-> r.stream, side |-> "R"]
           /\ sp[i] = "LFE" => r.side = "M" /\ r.stream = y.S - 1 /\ i = ch
    /\ f = 2 =>
         LET acn == AmbiAcn(ch) IN
         /\ \A i \in 1..acn : Route(y.map, y.C, i).side = "M"
         /\ \A i, j \in 1..acn : i < j => Route(y.map, y.C, i).stream < Route(y.map, y.C, j).stream
         /\ ch > acn => /\ Route(y.map, y.C, acn + 1) = [stream |-> 0, side |-> "L"]
                        /\ Route(y.map, y.C, acn + 2) = [stream |-> 0, side |-> "R"]

-----------------------------------------------------------------------------
(* Multistream packets: S - 1 self-delimited packets followed by one in      *)
(* standard framing, all of the same duration.                               *)

Zeros(n) == [i \in 1..n |-> 0]
RECURSIVE EncSizesOf(_)
EncSizesOf(s) == IF s = <<>> THEN <<>> ELSE EncSize(Head(s)) \o EncSizesOf(Tail(s))

\* padding length chain for `pd` bytes of padding data (RFC 6716 section 3.2.5)
RECURSIVE PadLenBytes(_)
PadLenBytes(pd) == IF pd >= 255 THEN <<255>> \o PadLenBytes(pd - 254) ELSE <<pd>>

(* All bytes of one elementary packet.  tq = toc \div 4 (configuration and   *)
(* stereo flag), sizes the frame sizes, vbr whether lengths are coded per    *)
(* frame, pd the number of padding data bytes (-1: no padding flag), sdf     *)
(* self-delimited or not.  Payload and padding bytes are zero.               *)
EmitSub(tq, sizes, vbr, pd, sdf) ==
  LET M    == Len(sizes)
      code == IF pd >= 0 \/ M > 2 THEN 3 ELSE IF M = 1 THEN 0 ELSE IF vbr THEN 2 ELSE 1
      toc  == 4 * tq + code
      sdl  == IF sdf THEN EncSize(sizes[M]) ELSE <<>>
      body == Zeros(SumSeq(sizes))
  IN IF code \in {0, 1} THEN <<toc>> \o sdl \o body
     ELSE IF code = 2 THEN <<toc>> \o EncSize(sizes[1]) \o sdl \o body
     ELSE <<toc, M + (IF pd >= 0 THEN 64 ELSE 0) + (IF vbr THEN 128 ELSE 0)>>
          \o (IF pd >= 0 THEN PadLenBytes(pd) ELSE <<>>)
          \o (IF vbr THEN EncSizesOf(SubSeq(sizes, 1, M - 1)) ELSE <<>>)
          \o sdl \o body \o Zeros(IF pd >= 0 THEN pd ELSE 0)

\* subs: sequence of [tq, sizes, vbr, pd]
RECURSIVE MsPacketFrom(_, _)
MsPacketFrom(subs, i) ==
  IF i > Len(subs) THEN <<>>
  ELSE EmitSub(subs[i].tq, subs[i].sizes, subs[i].vbr, subs[i].pd, i < Len(subs)) \o MsPacketFrom(subs, i + 1)
MsPacket(subs) == MsPacketFrom(subs, 1)

\* the Framing packet that starts at byte offset o of the byte string b
ViewAt(b, o) == [hdr |-> IF o >= Len(b) THEN <<>> ELSE SubSeq(b, o + 1, Len(b)), len |-> Len(b) - o, fill |-> 0]

Dur48Of(r) == r.count * Dur48(r.toc)

(* MsValidate(b, S): Bad, or the offsets at which the S sub-packets start,   *)
(* their parse results and the common duration (48 kHz samples).             *)
RECURSIVE MsWalkFrom(_, _, _, _)
MsWalkFrom(b, o, s, S) ==
  IF Len(b) - o <= 0 THEN Bad
  ELSE LET r == Parse(ViewAt(b, o), s < S) IN
       IF ~r.ok THEN Bad
       ELSE IF s = S THEN [ok |-> TRUE, offs |-> <<o>>, subs |-> <<r>>]
       ELSE LET t == MsWalkFrom(b, o + r.consumed, s + 1, S) IN
            IF t.ok THEN [ok |-> TRUE, offs |-> <<o>> \o t.offs, subs |-> <<r>> \o t.subs] ELSE Bad

MsValidate(b, S) ==
  LET w == MsWalkFrom(b, 0, 1, S) IN
  IF ~w.ok THEN Bad
  ELSE IF \E i \in 2..S : Dur48Of(w.subs[i]) # Dur48Of(w.subs[1]) THEN Bad
  ELSE [ok |-> TRUE, offs |-> w.offs, subs |-> w.subs, dur |-> Dur48Of(w.subs[1])]

(* The same judgement on a recorded split of a packet that is too long to    *)
(* be logged byte by byte.  total = packet length; offs[i] = where the        *)
(* recorder says sub-packet i starts; hdrs[i] = the first bytes found there   *)
(* (at least the whole framing header; missing bytes are zero).  The split    *)
(* is right iff every sub-packet parses where the previous one ends.          *)
SplitView(total, offs, hdrs, i) == [hdr |-> hdrs[i], len |-> total - offs[i], fill |-> 0]
SplitParse(total, offs, hdrs, i, S) == Parse(SplitView(total, offs, hdrs, i), i < S)
SplitOK(total, offs, hdrs, S) ==
  /\ Len(offs) = S /\ Len(hdrs) = S /\ offs[1] = 0
  /\ \A i \in 1..S :
       LET r == SplitParse(total, offs, hdrs, i, S) IN
       /\ total - offs[i] > 0
       /\ r.ok
       /\ i < S => offs[i + 1] = offs[i] + r.consumed
       /\ i = S => r.consumed = total - offs[i]
       /\ Dur48Of(r) = Dur48Of(SplitParse(total, offs, hdrs, 1, S))

(* The standard-framing form of a self-delimited packet: the extra length    *)
(* (the one of the last frame, coded just before the frame data) removed.     *)
(* Framing_mc!InvStdVsSd is the theorem that this is a valid packet with the  *)
(* same frames.  Returns the number of bytes removed and where.               *)
SdExtraLen(r) == IF r.sizes[r.count] < 252 THEN 1 ELSE 2

(* Theorems about packets (TLC, MS_mc mode "packet").                       *)
SubDur48(d) == Len(d.sizes) * Dur48(4 * d.tq)
SubLen(d, sdf) == Len(EmitSub(d.tq, d.sizes, d.vbr, d.pd, sdf))
RECURSIVE CumOffs(_, _, _)
CumOffs(subs, i, acc) ==
  IF i > Len(subs) THEN <<>> ELSE <<acc>> \o CumOffs(subs, i + 1, acc + SubLen(subs[i], i < Len(subs)))

\* a concatenation of well-formed sub-packets is split exactly at the seams, and is a multistream
\* packet iff the durations agree
ConcatTheorem(subs) ==
  LET S == Len(subs) b == MsPacket(subs) w == MsWalkFrom(b, 0, 1, S) v == MsValidate(b, S) IN
  /\ w.ok
  /\ w.offs = CumOffs(subs, 1, 0)
  /\ \A i \in 1..S : /\ w.subs[i].sizes = subs[i].sizes
                     /\ w.subs[i].toc \div 4 = subs[i].tq
                     /\ w.subs[i].pad = (IF subs[i].pd >= 0 THEN subs[i].pd ELSE 0)
  /\ v.ok = (\A i \in 1..S : SubDur48(subs[i]) = SubDur48(subs[1]))
  /\ v.ok => v.dur = SubDur48(subs[1])

\* whatever the bytes: an accepted packet has ordered offsets, a legal duration, at least 2S-1 bytes,
\* and the recorded-split judgement agrees with it
ValidateSane(b, S) ==
  LET v == MsValidate(b, S) IN
  v.ok =>
    /\ Len(b) >= 2 * S - 1
    /\ v.offs[1] = 0 /\ \A i \in 1..(S - 1) : v.offs[i + 1] >= v.offs[i] + 2
    /\ v.dur \in 120..MaxDur48 /\ v.dur % 120 = 0
    /\ SplitOK(Len(b), v.offs, [i \in 1..S |-> ViewAt(b, v.offs[i]).hdr], S)

-----------------------------------------------------------------------------
(* Budget: the byte budgeting of the multistream encoder.  M is the budget   *)
(* for the whole packet, tot what the streams before s (0-based) have used.  *)
(* The stream encoder is offered CurrMax bytes; re-framing its packet as     *)
(* self-delimited adds the length of the last frame (one byte below 252,     *)
(* two from 252 on); it never makes a packet longer otherwise.  The model is  *)
(* loose in what the stream encoders do: any length from the shortest packet  *)
(* (TOC only; TOC + frame count for 100 ms, which needs code 3) up to the     *)
(* offer.                                                                   *)
FRAME_TMP == 6 * 1275 + 12

Smallest(S, is100) == 2 * S - 1 + (IF is100 THEN S ELSE 0)
Reserve(S, s, is100) == Max(0, 2 * (S - s - 1) - 1) + (IF is100 THEN S - s - 1 ELSE 0)
CurrMax(M, tot, S, s, is100) ==
  LET c == Min(M - tot - Reserve(S, s, is100), FRAME_TMP) IN
  IF s # S - 1 THEN c - (IF c > 253 THEN 2 ELSE 1) ELSE c
MinEnc(is100) == IF is100 THEN 2 ELSE 1
\* bytes the re-framed packet may occupy, given that the stream encoder returned len bytes
OutLens(len, last) ==
  IF last THEN 1..len
  ELSE 2..(len + (IF len - 1 >= 252 THEN 2 ELSE 1))

\* one stream: the offer is usable, and whatever comes back fits into what is left of the budget
BudgetStepOK(M, tot, S, s, is100) ==
  LET cm == CurrMax(M, tot, S, s, is100) IN
  /\ cm >= MinEnc(is100)
  /\ \A len \in {MinEnc(is100), cm} : \A out \in OutLens(len, s = S - 1) : out <= M - tot
\* the inductive invariant behind NeverOverrun: the streams still to come have their minimum left
BudgetInv(M, tot, S, s, is100) == M - tot >= Smallest(S - s, is100)

-----------------------------------------------------------------------------
(* Projection (family 3): the demixing matrix inverts the mixing matrix up   *)
(* to the stated gain.  Matrices are column-major Q15, n rows; only the      *)
(* leading K x K blocks are used (K = n with the non-diegetic pair, n - 2     *)
(* without).  gainQ8 is the gain the decoder is told to apply after demixing  *)
(* (dB, S7.8), so demix * mix = 10^(-gain/20) * identity.                     *)

Cell(m, n, r, c) == m[n * c + r + 1]          \* row r, column c, 0-based

\* 2^(-2^-k) in Q15, k = 1..16
HalfPow == <<23170, 27554, 30048, 31379, 32066, 32415, 32591, 32679, 32724, 32746, 32757, 32762, 32765, 32767, 32767, 32768>>
MulQ15(a, b) == (a * b + 16384) \div 32768
RECURSIVE FracPow(_, _, _)
\* multiply acc by 2^(-f / 65536) where f < 65536 is given by its bits, most significant first
FracPow(acc, f, k) ==
  IF k > 16 THEN acc
  ELSE LET bit == (f \div (2 ^ (16 - k))) % 2 IN
       FracPow(IF bit = 1 THEN MulQ15(acc, HalfPow[k]) ELSE acc, f, k + 1)
\* 10^(-(g/256)/20) in Q15 for 0 <= g <= 32767:  2^(-g * log2(10)/5120);  log2(10)/5120 * 2^24 = 10885.3
GainLinQ15(g) ==
  LET e == g * 10885
      ip == e \div 16777216
      fr == (e % 16777216) \div 256
  IN FracPow(32768, fr, 1) \div (2 ^ ip)

\* (demix * mix)[i][j], every product scaled by 2^-8 so that the sum stays below 2^31
RECURSIVE DotFrom(_, _, _, _, _, _, _)
DotFrom(dmx, mix, n, K, i, j, k) ==
  IF k >= K THEN 0
  ELSE (Cell(dmx, n, i, k) * Cell(mix, n, k, j)) \div 256 + DotFrom(dmx, mix, n, K, i, j, k + 1)
Prod(dmx, mix, n, K, i, j) == DotFrom(dmx, mix, n, K, i, j, 0)

Abs(x) == IF x < 0 THEN 0 - x ELSE x
\* 2^30 / 2^8 * GainLinQ15 / 2^15
ExpectDiag(g) == 128 * GainLinQ15(g)

MatrixRowOK(dmx, mix, n, K, g, i, tolDiv) ==
  LET e == ExpectDiag(g) IN
  \A j \in 0..(K - 1) :
    LET x == Prod(dmx, mix, n, K, i, j) IN
    IF i = j THEN Abs(x - e) <= e \div tolDiv ELSE Abs(x) <= e \div tolDiv

MatrixIdentity(dmx, mix, n, K, g, tolDiv) ==
  /\ g \in 0..32767 /\ Len(dmx) = n * n /\ Len(mix) = n * n /\ K \in 1..n
  /\ \A i \in 0..(K - 1) : MatrixRowOK(dmx, mix, n, K, g, i, tolDiv)

\* rows of the built-in matrix of order n (with room for the non-diegetic pair)
ProjRows(order) == (order + 1) * (order + 1) + 2
=============================================================================
