------------------------------- MODULE MS_mc -------------------------------
(***************************************************************************)
(* Exhaustive evaluation of the MS theorems (property C10).  One state      *)
(* variable; the sub-models are selected by the set constant Modes:          *)
(*  "layout"  every layout with ch <= MaxCh, S <= MaxS, C <= S and           *)
(*            map in {0..S+C-1, 255, S+C}^ch, plus hand-picked ones          *)
(*  "family"  Family(f, ch) for f in Fams, ch in 0..256                      *)
(*  "packet"  concatenations of up to MaxSub packets of a small library,     *)
(*            and corruptions of them                                       *)
(*  "budget"  the encoder's byte budgeting for S <= 4                        *)
(*  "matrix"  demix * mix = gain * identity on the matrices exported from    *)
(*            the built library (NDJSON file named by IOEnv.MATRICES)        *)
(* With Gen = TRUE every layout / (family, ch) / byte string visited is      *)
(* printed, for replay through the real library.                            *)
(***************************************************************************)
EXTENDS MS, TLC, Json, IOUtils
CONSTANTS Modes, MaxCh, MaxS, Fams, MaxSub, BudgetAll, BudgetGrid, TolDiv, Gen, PrintMax
VARIABLE st
vars == <<st>>

-----------------------------------------------------------------------------
(* layouts *)
MapVals(S, C) == (0..(S + C - 1)) \cup {MUTE, S + C}

Alt(n, a, b) == [i \in 1..n |-> IF i % 2 = 1 THEN a ELSE b]
Hand == {
  [ch |-> 255, S |-> 255, C |-> 0,   map |-> Identity(255)],
  [ch |-> 255, S |-> 128, C |-> 127, map |-> Identity(255)],                       \* S + C = 255
  [ch |-> 255, S |-> 200, C |-> 56,  map |-> Identity(255)],                       \* S + C = 256
  [ch |-> 255, S |-> 1,   C |-> 1,   map |-> Alt(255, 0, 1)],                      \* duplicates
  [ch |-> 255, S |-> 1,   C |-> 0,   map |-> [i \in 1..255 |-> 0]],
  [ch |-> 255, S |-> 2,   C |-> 1,   map |-> [i \in 1..255 |-> IF i = 100 THEN 2 ELSE IF i % 3 = 0 THEN 255 ELSE i % 2]],
  [ch |-> 255, S |-> 2,   C |-> 1,   map |-> [i \in 1..255 |-> 255]],                \* all mute
  [ch |-> 8,   S |-> 2,   C |-> 1,   map |-> [i \in 1..8 |-> 255]],
  [ch |-> 2,   S |-> 255, C |-> 0,   map |-> <<0, 254>>],                          \* streams nobody listens to
  [ch |-> 2,   S |-> 255, C |-> 0,   map |-> <<0, 255>>],
  [ch |-> 6,   S |-> 4,   C |-> 2,   map |-> <<0, 4, 1, 2, 3, 5>>],
  [ch |-> 6,   S |-> 4,   C |-> 2,   map |-> <<0, 4, 1, 2, 3, 6>>],                  \* one past the end
  [ch |-> 6,   S |-> 4,   C |-> 2,   map |-> <<1, 5, 0, 3, 2, 4>>],
  [ch |-> 6,   S |-> 3,   C |-> 3,   map |-> <<5, 4, 3, 2, 1, 0>>],
  [ch |-> 5,   S |-> 3,   C |-> 3,   map |-> <<0, 1, 2, 3, 4>>],                     \* S + C > ch
  [ch |-> 256, S |-> 1,   C |-> 0,   map |-> [i \in 1..256 |-> 0]],
  [ch |-> 0,   S |-> 1,   C |-> 0,   map |-> <<>>],
  [ch |-> 1,   S |-> 0,   C |-> 0,   map |-> <<0>>],
  [ch |-> 2,   S |-> 1,   C |-> 2,   map |-> <<0, 1>>],
  [ch |-> 2,   S |-> 1,   C |-> -1,  map |-> <<0, 0>>],
  [ch |-> 1,   S |-> 256, C |-> 0,   map |-> <<0>>],
  [ch |-> 3,   S |-> -1,  C |-> 0,   map |-> <<0, 0, 0>>] }

InitLayout ==
  \/ \E ch \in 1..MaxCh, S \in 1..MaxS : \E C \in 0..S : st = [m |-> "shape", ch |-> ch, S |-> S, C |-> C]
  \/ \E h \in Hand : st = [m |-> "layout", ch |-> h.ch, S |-> h.S, C |-> h.C, map |-> h.map]
NextLayout ==
  /\ st.m = "shape"
  /\ \E mp \in [1..st.ch -> MapVals(st.S, st.C)] :
       st' = [m |-> "layout", ch |-> st.ch, S |-> st.S, C |-> st.C, map |-> mp]

LayoutTheorems ==
  st.m = "layout" =>
    /\ RouteTypeOK(st.ch, st.S, st.C, st.map)
    /\ EncCountImplied(st.ch, st.S, st.C, st.map)
    /\ EncImpliesDec(st.ch, st.S, st.C, st.map)
    /\ LayoutShapeOK(st.ch, st.S, st.C) => SlotsBijective(st.S, st.C)
    \* an encoder's source channels are distinct and routed back to where they came from
    /\ ValidLayoutEnc(st.ch, st.S, st.C, st.map) =>
         /\ \A j, k \in 0..(st.S + st.C - 1) :
               j # k => EncSource(st.ch, st.map, j) # EncSource(st.ch, st.map, k)
         /\ \A k \in 0..(st.S + st.C - 1) :
               Route(st.map, st.C, EncSource(st.ch, st.map, k)) = SlotOf(st.C, k)

-----------------------------------------------------------------------------
(* families *)
InitFamily == \E f \in Fams, ch \in 0..256 : st = [m |-> "family", f |-> f, ch |-> ch]

Accepted(f) == {ch \in 0..256 : Family(f, ch).ok}
FamilyTheorems ==
  st.m = "family" =>
    /\ FamilySound(st.f, st.ch)
    /\ (st.ch = 0 /\ st.f = 0) =>      \* once: the accepted channel counts
         /\ Accepted(0) = {1, 2}
         /\ Accepted(1) = 1..8
         /\ Accepted(255) = 1..255
         /\ Accepted(2) = {1, 3, 4, 6, 9, 11, 16, 18, 25, 27, 36, 38, 49, 51, 64, 66, 81, 83, 100, 102,
                           121, 123, 144, 146, 169, 171, 196, 198, 225, 227}
         /\ Accepted(3) = {4, 6, 9, 11, 16, 18, 25, 27, 36, 38}
         /\ Accepted(4) = {}
         /\ \A c \in 1..8 : LfeStream(1, c) = (IF c >= 6 THEN Family(1, c).S - 1 ELSE -1)

-----------------------------------------------------------------------------
(* packets *)
Sub(tq, sizes, vbr, pd) == [tq |-> tq, sizes |-> sizes, vbr |-> vbr, pd |-> pd]
\* tq = toc \div 4 = 2 * configuration + stereo flag
tqCelt20  == 62      \* config 31 (CELT FB 20 ms) mono
tqCelt20s == 63      \*                           stereo
tqCelt10  == 60      \* config 30 (CELT FB 10 ms) mono
tqCelt25  == 56      \* config 28 (CELT FB 2.5 ms) mono
tqSilk20  == 2       \* config 1  (SILK NB 20 ms) mono
tqSilk20s == 3
tqSilk60  == 6       \* config 3  (SILK NB 60 ms) mono
tqHyb20   == 30      \* config 15 (hybrid FB 20 ms) mono
Lib == {
  Sub(tqCelt20,  <<3>>, FALSE, -1),
  Sub(tqCelt20s, <<0>>, FALSE, -1),                 \* TOC only
  Sub(tqSilk20,  <<2>>, FALSE, -1),
  Sub(tqSilk20s, <<251>>, FALSE, -1),
  Sub(tqHyb20,   <<252>>, FALSE, -1),               \* two-byte length
  Sub(tqCelt10,  <<2, 2>>, FALSE, -1),              \* code 1, 20 ms
  Sub(tqCelt10,  <<1, 3>>, TRUE, -1),               \* code 2, 20 ms
  Sub(tqCelt25,  [i \in 1..8 |-> 1], FALSE, -1),    \* code 3 CBR, 8 x 2.5 ms = 20 ms
  Sub(tqCelt25,  [i \in 1..8 |-> i % 3], TRUE, 2),  \* code 3 VBR with padding, 20 ms
  Sub(tqCelt20,  <<2>>, FALSE, 0),                  \* code 3, one frame, empty padding
  Sub(tqCelt10,  <<2>>, FALSE, -1),                 \* 10 ms
  Sub(tqSilk60,  <<4>>, FALSE, -1),                 \* 60 ms
  Sub(tqCelt20,  <<1, 1, 1>>, FALSE, -1),           \* 60 ms as 3 x 20
  Sub(tqCelt25,  <<1>>, FALSE, -1) }                \* 2.5 ms

DropAt(b, i) == SubSeq(b, 1, i - 1) \o SubSeq(b, i + 1, Len(b))
Corruptions(b) ==
  {b, b \o <<0>>, b \o <<0, 0>>} \cup
  (IF Len(b) >= 2 THEN {SubSeq(b, 1, Len(b) - 1), DropAt(b, 2), Tail(b)} ELSE {}) \cup
  (IF Len(b) >= 3 THEN {[b EXCEPT ![2] = 255], [b EXCEPT ![2] = (b[2] + 1) % 256], [b EXCEPT ![1] = (b[1] + 8) % 256]} ELSE {})

InitPacket ==
  \E S \in 1..MaxSub : \E subs \in [1..S -> Lib] : st = [m |-> "concat", S |-> S, subs |-> subs, b |-> MsPacket(subs)]
NextPacket ==
  /\ st.m = "concat"
  /\ \E b2 \in Corruptions(st.b), S2 \in {st.S, st.S + 1} :
        /\ S2 >= 1
        /\ st' = [m |-> "bytes", S |-> S2, b |-> b2]

PacketTheorems ==
  /\ st.m = "concat" => ConcatTheorem(st.subs) /\ ValidateSane(st.b, st.S)
  /\ st.m = "bytes" => ValidateSane(st.b, st.S)

-----------------------------------------------------------------------------
(* budget *)
InitBudget ==
  \E M \in (1..BudgetAll) \cup BudgetGrid, S \in 1..4, h \in BOOLEAN :
     /\ M >= Smallest(S, h)
     /\ st = [m |-> "budget", M |-> M, S |-> S, h |-> h, s |-> 0, tot |-> 0]
OutChoices(M, cm, last, h) ==
  LET lo == IF last THEN 1 ELSE 2
      hi == IF last THEN cm ELSE cm + (IF cm - 1 >= 252 THEN 2 ELSE 1) IN
  IF M <= BudgetAll THEN lo..hi
  ELSE {x \in {lo, lo + 1, 252, 253, 254, 255, 256, 257, hi - 3, hi - 2, hi - 1, hi} : x >= lo /\ x <= hi}
NextBudget ==
  /\ st.m = "budget" /\ st.s < st.S
  /\ LET cm == CurrMax(st.M, st.tot, st.S, st.s, st.h) IN
     \E out \in OutChoices(st.M, cm, st.s = st.S - 1, st.h) :
        st' = [st EXCEPT !.s = st.s + 1, !.tot = st.tot + out]

\* OutChoices covers exactly what MS!OutLens allows over all lengths the stream encoder may return
OutChoicesComplete ==
  (st.m = "budget" /\ st.s < st.S /\ st.M <= BudgetAll) =>
     LET cm == CurrMax(st.M, st.tot, st.S, st.s, st.h) last == (st.s = st.S - 1) IN
     cm >= MinEnc(st.h) =>
       UNION {OutLens(len, last) : len \in MinEnc(st.h)..cm} = OutChoices(st.M, cm, last, st.h)

NeverOverrun ==
  st.m = "budget" =>
    /\ st.tot <= st.M
    /\ BudgetInv(st.M, st.tot, st.S, st.s, st.h)
    /\ st.s < st.S => /\ CurrMax(st.M, st.tot, st.S, st.s, st.h) >= MinEnc(st.h)
                      /\ BudgetStepOK(st.M, st.tot, st.S, st.s, st.h)

-----------------------------------------------------------------------------
(* matrices *)
InitMatrix ==
  LET mx == ndJsonDeserialize(IOEnv.MATRICES) IN
  \E q \in 1..Len(mx) : \E K \in {mx[q].n, mx[q].n - 2} : \E i \in 0..(K - 1) :
     st = [m |-> "matrix", o |-> mx[q].o, n |-> mx[q].n, g |-> mx[q].g, gm |-> mx[q].gm,
           mix |-> mx[q].mix, dmx |-> mx[q].dmx, K |-> K, i |-> i]

MatrixTheorems ==
  st.m = "matrix" =>
    /\ st.n = ProjRows(st.o) /\ st.o \in ProjOrders
    /\ st.g \in 0..32767 /\ st.gm = 0
    /\ Len(st.dmx) = st.n * st.n /\ Len(st.mix) = st.n * st.n
    /\ MatrixRowOK(st.dmx, st.mix, st.n, st.K, st.g, st.i, TolDiv)
\* the deviation actually found, for the evidence file (parts per million of the diagonal)
MatrixReport ==
  (st.m = "matrix" /\ Gen) =>
    LET e == ExpectDiag(st.g)
        dev(j) == LET x == Prod(st.dmx, st.mix, st.n, st.K, st.i, j) IN IF j = st.i THEN Abs(x - e) ELSE Abs(x)
        worst == CHOOSE w \in {dev(j) : j \in 0..(st.K - 1)} : \A j \in 0..(st.K - 1) : dev(j) <= w
    IN PrintT(<<"MXDEV", st.o, st.K, st.i, (Min(worst, 1000000) * 1000) \div (e \div 1000)>>)

-----------------------------------------------------------------------------
Init == \/ "layout" \in Modes /\ InitLayout
        \/ "family" \in Modes /\ InitFamily
        \/ "packet" \in Modes /\ InitPacket
        \/ "budget" \in Modes /\ InitBudget
        \/ "matrix" \in Modes /\ InitMatrix
Next == NextLayout \/ NextPacket \/ NextBudget
Spec == Init /\ [][Next]_vars

\* behaviour generation: the inputs of every case, one line each
Emit ==
  Gen =>
    /\ st.m = "layout" => PrintT("LAY " \o ToString(st.ch) \o " " \o ToString(st.S) \o " " \o ToString(st.C) \o " " \o ToString(st.map))
    /\ st.m = "family" => PrintT("FAM " \o ToString(st.f) \o " " \o ToString(st.ch))
    /\ (st.m \in {"concat", "bytes"} /\ Len(st.b) <= PrintMax) => PrintT("MSP " \o ToString(st.S) \o " " \o ToString(st.b))
=============================================================================
