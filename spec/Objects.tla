------------------------------ MODULE Objects ------------------------------
(* Codec objects whose abstract state is their effective call history (properties C12, C13).  *)
(*                                                                                            *)
(* An object is  [live, kind, cfg, settings, base, hist, ehist]:                              *)
(*   kind      "e" encoder, "d" decoder, "E" multistream encoder, "D" multistream decoder,    *)
(*             "P" projection decoder                                                         *)
(*   cfg       what it was created with (rate, channels / layout, application; the run-time   *)
(*             selected arch level and the arithmetic of the build are part of it: the        *)
(*             properties do not relate different arch levels or builds - C15 does)           *)
(*   settings  request |-> value: the ctl values it carries (last value wins)                 *)
(*   hist      the state-affecting calls since creation or the last reset, in order: encode   *)
(*             and decode calls with all their arguments, and ctl calls made after the first  *)
(*             such call (a ctl on an object with an empty history only changes `settings`:   *)
(*             that is what "a newly created one carrying the same settings" means)           *)
(*   base      the settings that were in force when the history began (<< >> while it is      *)
(*             empty): the calls in hist were made under base as modified by the ctl entries  *)
(*             of hist.  (A first version of this module left it out; TLC refuted             *)
(*             EquivOutputsEqual on Objects_mc with two objects that had made the same calls  *)
(*             under different settings and then been given the same settings.)               *)
(*   ehist     hist with the declared-unobservable components erased (see EraseCall)          *)
(*                                                                                            *)
(* C12: the output of a call is a function of (kind, cfg, settings, hist, call) and of        *)
(* nothing else - not of the address, of heap or stack contents, of which other objects       *)
(* exist, of calls on other objects.  Copy yields an object with the same abstract state,     *)
(* Reset one with hist = << >>.  Two objects are equivalent iff these components are equal;   *)
(* equivalent objects given equal calls must produce equal outputs (EquivOutputsEqual, judged *)
(* on recorded executions by ObjectsTrace).                                                   *)
(* C13: additionally the sample format of an encode call is unobservable while the encoder's  *)
(* LSB depth is at most 16, and the format of a decode call is unobservable in the control    *)
(* outcome (sample count, final range, and everything later calls return).                    *)
EXTENDS Integers, Sequences, FiniteSets, TLC

EncKinds == {"e", "E"}
DecKinds == {"d", "D", "P"}
Kinds    == EncKinds \cup DecKinds
Fmts     == {"i16", "i24", "f32"}

LSB_DEPTH_REQ == 4036            \* OPUS_SET_LSB_DEPTH
DEFAULT_LSB   == 24

Dead == [live |-> FALSE]

NoSettings == << >>
SetTo(s, req, v) == (req :> v) @@ s
LsbDepth(s) == IF LSB_DEPTH_REQ \in DOMAIN s THEN s[LSB_DEPTH_REQ] ELSE DEFAULT_LSB

\* ---- declared unobservable components (C13) -----------------------------------------------
\* encoders: the sample format, as long as the LSB depth in force at the call is <= 16
\* decoders: the sample format, as far as the control outcome is concerned
EraseCall(kind, s, c) ==
  IF "fmt" \notin DOMAIN c THEN c
  ELSE IF kind \in EncKinds
         THEN IF LsbDepth(s) <= 16 THEN [c EXCEPT !.fmt = "any"] ELSE c
         ELSE [c EXCEPT !.fmt = "any"]

\* ---- abstract transitions ------------------------------------------------------------------
Create(kind, cfg) ==
  [live |-> TRUE, kind |-> kind, cfg |-> cfg, settings |-> NoSettings, base |-> NoSettings, hist |-> << >>, ehist |-> << >>]

\* a ctl that the library refused is remembered under the negated request number: no claim is
\* made that a refused ctl leaves the object untouched (that is C11's subject, not C12's)
CtlKey(req, ok) == IF ok THEN req ELSE 0 - req

Ctl(st, req, v, ok) ==
  LET s2 == SetTo(st.settings, CtlKey(req, ok), v)
      c  == [op |-> "ctl", req |-> req, v |-> v, ok |-> ok]
  IN IF st.hist = << >>
       THEN [st EXCEPT !.settings = s2]
       ELSE [st EXCEPT !.settings = s2, !.hist = Append(@, c), !.ehist = Append(@, c)]

Call(st, c) ==
  [st EXCEPT !.base = IF st.hist = << >> THEN st.settings ELSE @,
             !.hist = Append(@, c), !.ehist = Append(@, EraseCall(st.kind, st.settings, c))]

Reset(st) == [st EXCEPT !.base = NoSettings, !.hist = << >>, !.ehist = << >>]

CopyOf(st) == st

\* ---- equivalence and the keys under which outputs are compared ---------------------------
Equivalent(a, b) ==
  /\ a.live /\ b.live
  /\ a.kind = b.kind /\ a.cfg = b.cfg /\ a.settings = b.settings /\ a.base = b.base /\ a.hist = b.hist

EquivalentModFmt(a, b) ==
  /\ a.live /\ b.live
  /\ a.kind = b.kind /\ a.cfg = b.cfg /\ a.settings = b.settings /\ a.base = b.base /\ a.ehist = b.ehist

FullKey(st, c)   == <<st.kind, st.cfg, st.settings, st.base, st.hist, c>>
ErasedKey(st, c) == <<st.kind, st.cfg, st.settings, st.base, st.ehist, EraseCall(st.kind, st.settings, c)>>

\* the object a reset one must be indistinguishable from: newly created, then given the settings
RECURSIVE ApplySettings(_, _, _)
ApplySettings(st, s, todo) ==
  IF todo = {} THEN st
  ELSE LET r == CHOOSE x \in todo : TRUE
       IN ApplySettings(IF r > 0 THEN Ctl(st, r, s[r], TRUE) ELSE Ctl(st, 0 - r, s[r], FALSE), s, todo \ {r})
FreshWithSettings(st) == ApplySettings(Create(st.kind, st.cfg), st.settings, DOMAIN st.settings)

\* ---- sample relations between the formats (C13, decoders) -------------------------------
\* The harness measures, against the float twin's output of the same call: the number of 24-bit samples further
\* than half a unit from float * 2^23, and of 16-bit samples further than half a unit from sat(clip(float) * 2^15)
\* under two readings of "passed through the library's soft clipper" (A: the clipper sees decoded packets only,
\* concealed and FEC frames are saturated without it; B: every frame goes through it) and without clipper (H).
\* In a fixed-point build the library never soft-clips: there the relation is demanded with plain saturation.
SampleRelationOK(fmt, e) ==
  CASE fmt = "i24" -> e.m24 = 0
    [] fmt = "i16" -> IF e.fx = 1 THEN e.m16h = 0 ELSE ~(e.m16a # 0 /\ e.m16b # 0)    \* (A or B; written without a disjunction so that TLC does not split the action)
    [] OTHER       -> e.ds = e.sds

\* projection decoder: the 16-bit (and 24-bit) output stays within ProjTol 16-bit units of the float output,
\* saturated; asserted when no decoded stream sample exceeded +-1 (otherwise the 16-bit path clips the streams
\* before the matrix and the two outputs legitimately differ by more than rounding).  The rounding of the matrix
\* products is at most one unit per input channel (half a unit for the 16-bit input sample times a coefficient of at
\* most one, half a unit for the product); the layouts driven here have four input channels, the largest difference
\* observed on the pinned tree is 4 units, ProjTol = 8 leaves a factor of two (R3).
ProjTol == 8
ProjectionOK(fmt, e) ==
  IF fmt = "f32" THEN e.ds = e.sds
  ELSE e.sover = 0 => e.pdiff <= ProjTol
=============================================================================
