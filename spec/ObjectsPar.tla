----------------------------- MODULE ObjectsPar -----------------------------
(* Property C14: independent codec instances do not interfere when used concurrently.                *)
(*                                                                                                    *)
(* Processes p \in Proc each own their codec objects (DESIGN 4.12: an object's abstract state is its   *)
(* effective history) and drive them through a program of library calls: create (which includes the   *)
(* first-use work of the library: CPU-feature detection - a pure probe - and the look-up of constant   *)
(* tables), ctl, run (encode / decode), destroy.  The library is a sequential library used from       *)
(* several threads, so a call is NOT atomic with respect to the other processes' calls: it is modelled *)
(* as two steps, Begin and End, between which other processes may run.                                 *)
(*                                                                                                    *)
(* SharedCells is the set of writable global cells of the library - every symbol of the built archive  *)
(* that lies in a writable section, and every libc function with hidden static state it calls          *)
(* (lib/inventory.py).  The model is conservative about them, because nothing is known about a cell    *)
(* except that the library can write it: a call may WRITE every shared cell (with data that depends on *)
(* the calling process's object - a scratch buffer, a cached decision, a generator state) at Begin,    *)
(* and READS every shared cell at Begin and at End; what a call returns is a function of the object's  *)
(* state, the call, and the contents of the shared cells it read.                                      *)
(*                                                                                                    *)
(* NonInterference: whatever the interleaving, each process's sequence of outputs is the sequence it    *)
(* produces when it runs alone.  With SharedCells = {} nothing connects the processes and the          *)
(* invariant holds; with any cell in the set TLC exhibits the interfering interleaving (another        *)
(* process's Begin between this process's Begin and End - the scratch-buffer pattern - or before its   *)
(* Begin - the cached-value / generator pattern).                                                      *)
EXTENDS Integers, Sequences, FiniteSets, TLC

CONSTANTS Proc,            \* processes (threads)
          SharedCells,     \* writable global cells of the library (from the inventory)
          MaxLen,          \* program length (calls per process)
          Kinds            \* kinds of object a process may own: "enc", "dec", "ms", "rp"

Ops == {"create", "ctl", "run", "destroy"}
CpuProbe == 4                                   \* CPU-feature detection is a pure function of the machine

\* well-formed programs of exactly n calls: create first; nothing after destroy except a new create
RECURSIVE Progs(_)
Progs(n) == IF n = 0 THEN {<< >>}
            ELSE {Append(pr, o) : pr \in Progs(n - 1), o \in Ops}
WellFormed(pr) ==
  /\ Len(pr) >= 1 /\ pr[1] = "create"
  /\ \A i \in 2..Len(pr) :
        /\ (pr[i - 1] = "destroy") <=> (pr[i] = "create")
Programs(n) == {pr \in Progs(n) : WellFormed(pr)}

\* ---- one process's view ----------------------------------------------------------------------------
\* the object: dead, or [kind, arch, hist]
Dead == [live |-> FALSE]
ObjAfter(ob, kind, op, n) ==
  CASE op = "create"  -> [live |-> TRUE, kind |-> kind, arch |-> CpuProbe, hist |-> << >>]
    [] op = "destroy" -> Dead
    [] OTHER          -> [ob EXCEPT !.hist = Append(@, <<op, n>>)]

\* what process p deposits in a shared cell during its n-th call (something that depends on its own object)
Deposit(p, n, ob) == <<p, n>>
\* result of a call: object state, call, the shared cells as read at Begin and at End
Result(ob, op, n, seenB, seenE) == [obj |-> ob, op |-> op, n |-> n, begin |-> seenB, end |-> seenE]

\* ---- the solo run: p alone in the process, cells initially untouched -------------------------------
InitCells == [c \in SharedCells |-> <<"init">>]
RECURSIVE SoloFrom(_, _, _, _, _, _)
SoloFrom(p, kind, pr, n, ob, cells) ==
  IF n > Len(pr) THEN << >>
  ELSE LET op == pr[n]
           seenB == cells
           c2 == [c \in SharedCells |-> Deposit(p, n, ob)]
           seenE == c2
           ob2 == ObjAfter(ob, kind, op, n)
       IN <<Result(ob, op, n, seenB, seenE)>> \o SoloFrom(p, kind, pr, n + 1, ob2, c2)
Solo(p, kind, pr) == SoloFrom(p, kind, pr, 1, Dead, InitCells)
=============================================================================
