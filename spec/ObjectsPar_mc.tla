--------------------------- MODULE ObjectsPar_mc ---------------------------
(* Every interleaving of the processes of module ObjectsPar: each process is given a well-formed      *)
(* program of 1..MaxLen library calls (create incl. first-use arch detection, ctl, run, destroy) on an *)
(* object of some kind; a call is two steps (Begin, End); TLC explores all assignments of programs and  *)
(* all interleavings and checks NonInterference in every reachable state.                              *)
(* SharedCells comes from the shared-state inventory of the built library: the cfg file is written at  *)
(* check time.  Empty set: the invariant must hold.  Non-empty: TLC must refute it (the counterexample  *)
(* is the interfering schedule) and the check reports the cells as a violation of C14.                 *)
EXTENDS ObjectsPar
VARIABLES prog, kind, solo, pc, ob, cells, seen, out
vars == <<prog, kind, solo, pc, ob, cells, seen, out>>

None == << >>
Init == /\ prog = [p \in Proc |-> None] /\ kind = [p \in Proc |-> "none"] /\ solo = [p \in Proc |-> None]
        /\ pc = [p \in Proc |-> [n |-> 0, ph |-> "idle"]]
        /\ ob = [p \in Proc |-> Dead] /\ cells = InitCells
        /\ seen = [p \in Proc |-> InitCells] /\ out = [p \in Proc |-> << >>]

AllProgs == UNION {Programs(n) : n \in 1..MaxLen}

\* a process is handed its program (one fan-out step per process, before it makes its first call)
Choose(p) ==
  /\ pc[p].n = 0
  /\ \E pr \in AllProgs, k \in Kinds :
        /\ prog' = [prog EXCEPT ![p] = pr] /\ kind' = [kind EXCEPT ![p] = k]
        /\ solo' = [solo EXCEPT ![p] = Solo(p, k, pr)]
  /\ pc' = [pc EXCEPT ![p] = [n |-> 1, ph |-> "idle"]]
  /\ UNCHANGED <<ob, cells, seen, out>>

Begin(p) ==
  /\ pc[p].n >= 1 /\ pc[p].n <= Len(prog[p]) /\ pc[p].ph = "idle"
  /\ seen' = [seen EXCEPT ![p] = cells]
  /\ cells' = [c \in SharedCells |-> Deposit(p, pc[p].n, ob[p])]
  /\ pc' = [pc EXCEPT ![p].ph = "mid"]
  /\ UNCHANGED <<prog, kind, solo, ob, out>>

End(p) ==
  /\ pc[p].ph = "mid"
  /\ LET n == pc[p].n  op == prog[p][n] IN
     /\ out' = [out EXCEPT ![p] = Append(@, Result(ob[p], op, n, seen[p], cells))]
     /\ ob' = [ob EXCEPT ![p] = ObjAfter(@, kind[p], op, n)]
     /\ pc' = [pc EXCEPT ![p] = [n |-> n + 1, ph |-> "idle"]]
  /\ UNCHANGED <<prog, kind, solo, cells, seen>>

Next == \E p \in Proc : Choose(p) \/ Begin(p) \/ End(p)
Spec == Init /\ [][Next]_vars

\* ---- C14 -----------------------------------------------------------------------------------------
NonInterference == \A p \in Proc : out[p] = SubSeq(solo[p], 1, Len(out[p]))
\* CPU detection is a pure function stored per object; an object is touched by its owner only (by construction:
\* ob[p] is written by p's End alone), and a finished process has produced its whole solo log
ArchPure == \A p \in Proc : ob[p].live => ob[p].arch = CpuProbe
Complete == \A p \in Proc : (pc[p].n > Len(prog[p]) /\ prog[p] # None) => Len(out[p]) = Len(solo[p])
=============================================================================
