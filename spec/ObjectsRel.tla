----------------------------- MODULE ObjectsRel -----------------------------
(* Property C14, second half: "independent" also covers objects that the CALLER has related.          *)
(*                                                                                                    *)
(* The API lets a caller (a) duplicate an object with memcpy of *_get_size() bytes and (b) place       *)
(* objects back to back in memory of his own at their *_get_size() sizes (the *_init functions).       *)
(* Either way the two objects are independent instances and may be used by two threads.                *)
(* ObjectsPar says nothing about this: there the only thing two objects could share is a global cell.  *)
(* Here memory is explicit.  An object is a block of Size cells at some base address:                   *)
(*   cell 0      "header": how the object finds its sub-state - an OFFSET (position independent, what   *)
(*               libopus does: silk_enc_offset, celt_dec_offset, align(sizeof(...)) arithmetic) or,     *)
(*               with the design defect StoresAbsPtr, an absolute ADDRESS taken at init time;           *)
(*   cells 1..   the sub-state a call reads and updates.                                                *)
(* A call by the owner reads the sub-state cell it resolves through the header, returns a value that    *)
(* depends on it, and writes it back; with the design defect Overreach = k it also clears k cells       *)
(* beyond the end of its own block (a reset that sizes the object by another rule than get_size).       *)
(* Set-up (done by the caller before the threads start): "none" - two separately initialised objects;   *)
(* "copy" - B is a byte copy of A taken after A has made History calls; "adjacent" - B's block starts   *)
(* where A's ends.                                                                                      *)
(* NonInterference: under every interleaving each owner's outputs are those of the same set-up with     *)
(* only that owner running.  TLC: holds for all three relations when both defects are absent; refuted   *)
(* for copy + StoresAbsPtr (the copy inherits a pointer into the original) and for adjacent + Overreach *)
(* (the neighbour's cells are cleared) - the two witness configurations, which are also the shapes of   *)
(* the seeded changes C14-7 and C14-8.  Bound to the code by hx_par's pair mode (harness/par.c).        *)
EXTENDS Integers, Sequences, FiniteSets, TLC

CONSTANTS Relation,        \* "none", "copy", "adjacent"
          StoresAbsPtr,    \* BOOLEAN
          Overreach,       \* 0..Size
          History,         \* calls A makes before the copy is taken
          MaxCalls         \* calls per owner after the set-up

Size == 3
Gap  == 4                                   \* distance between separately allocated blocks
Owners == {"A", "B"}
BaseOf(o) == IF o = "A" THEN 0 ELSE IF Relation = "adjacent" THEN Size ELSE Size + Gap
MemTop == 2 * Size + Gap + Size              \* room for an overreach past B
Addr == 0..(MemTop - 1)

\* ---- one object ------------------------------------------------------------------------------------
InitBlock(mem, base) ==
  [a \in Addr |-> IF a = base THEN (IF StoresAbsPtr THEN base + 1 ELSE 1)      \* header: address or offset of the sub-state
                  ELSE IF a > base /\ a < base + Size THEN 0 ELSE mem[a]]
SubAddr(mem, base) == IF StoresAbsPtr THEN mem[base] ELSE base + mem[base]
\* a call: output = f(sub-state, who); sub-state advances; the defect clears cells past the block
CallOut(mem, o) == <<o, mem[SubAddr(mem, BaseOf(o))]>>
CallMem(mem, o) ==
  LET b == BaseOf(o)  s == SubAddr(mem, b) IN
  [a \in Addr |-> IF a = s THEN mem[s] + (IF o = "A" THEN 1 ELSE 10)
                  ELSE IF a >= b + Size /\ a < b + Size + Overreach THEN 0
                  ELSE mem[a]]

\* ---- the caller's set-up ---------------------------------------------------------------------------
RECURSIVE Repeat(_, _, _)
Repeat(mem, o, n) == IF n = 0 THEN mem ELSE Repeat(CallMem(mem, o), o, n - 1)
Blank == [a \in Addr |-> 99]                 \* whatever the caller's memory held
SetUp ==
  LET m1 == Repeat(InitBlock(Blank, BaseOf("A")), "A", History) IN
  IF Relation = "copy"
    THEN [a \in Addr |-> IF a >= BaseOf("B") /\ a < BaseOf("B") + Size THEN m1[a - BaseOf("B") + BaseOf("A")] ELSE m1[a]]
    ELSE InitBlock(m1, BaseOf("B"))

\* ---- the solo run of one owner from the set-up --------------------------------------------------------
RECURSIVE SoloFrom(_, _, _)
SoloFrom(mem, o, n) == IF n = 0 THEN << >> ELSE <<CallOut(mem, o)>> \o SoloFrom(CallMem(mem, o), o, n - 1)
Solo(o) == SoloFrom(SetUp, o, MaxCalls)
=============================================================================
