--------------------------- MODULE ObjectsRel_mc ---------------------------
(* Every interleaving of the two owners' calls after the caller's set-up (module ObjectsRel).          *)
EXTENDS ObjectsRel
VARIABLES mem, out, n
vars == <<mem, out, n>>

Init == mem = SetUp /\ out = [o \in Owners |-> << >>] /\ n = [o \in Owners |-> 0]
Call(o) == /\ n[o] < MaxCalls
           /\ out' = [out EXCEPT ![o] = Append(@, CallOut(mem, o))]
           /\ mem' = CallMem(mem, o)
           /\ n' = [n EXCEPT ![o] = @ + 1]
Next == \E o \in Owners : Call(o)
Spec == Init /\ [][Next]_vars

NonInterference == \A o \in Owners : out[o] = SubSeq(Solo(o), 1, Len(out[o]))
\* an owner's calls touch its own block only (what makes NonInterference hold)
OwnBlockOnly == \A o \in Owners : \A a \in Addr :
                  (CallMem(mem, o)[a] # mem[a]) => (a >= BaseOf(o) /\ a < BaseOf(o) + Size)
\* the blocks do not overlap and, for a copy, the copy is usable on its own (its header resolves inside itself)
Layout == /\ BaseOf("A") + Size <= BaseOf("B")
          /\ \A o \in Owners : SubAddr(SetUp, BaseOf(o)) > BaseOf(o) /\ SubAddr(SetUp, BaseOf(o)) < BaseOf(o) + Size
=============================================================================
