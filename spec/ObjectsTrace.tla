---------------------------- MODULE ObjectsTrace ----------------------------
(* Validation of recorded executions over several codec objects against module Objects         *)
(* (properties C12 and C13).  TLC is the equivalence oracle: it maintains every object's       *)
(* abstract state and remembers, for every (abstract pre-state, call) it has seen - from any    *)
(* object, at any earlier point of the trace, in any earlier history - what the real library    *)
(* returned.  When the same key comes up again the recorded output must be identical            *)
(* (EquivOutputsEqual); otherwise it is remembered.                                             *)
(*                                                                                              *)
(* Representation.  An abstract state (kind, cfg, settings, base, hist) of module Objects is    *)
(* held as a node of a trie: `roots` interns (kind, cfg, settings) of objects with an empty     *)
(* history, `trF` maps <<node, call>> to [next node, output, ...].  Node identity is therefore  *)
(* equality of (kind, cfg, the settings at the root = Objects' `base`, the calls made since),   *)
(* i.e. Objects!Equivalent.  `trE` is the same over calls with the declared-unobservable format *)
(* erased (Objects!EraseCall), i.e. Objects!EquivalentModFmt.                                   *)
(*                                                                                              *)
(* CheckC12: outputs under the full key are equal (determinism; copy; reset == fresh + settings)*)
(* CheckC13: outputs under the erased key are equal (packets of the three entry points; sample  *)
(*           counts and final ranges of the three decoder formats) and every decode event       *)
(*           satisfies the sample relations of Objects!SampleRelationOK / ProjectionOK.         *)
(* Getter snapshots (G events, recorded after every operation on a live object): what the     *)
(*           getters of an object and of its streams report is a function of its abstract state *)
(*           too.  CheckC12: equal under the full key - for an object with an empty history     *)
(*           the key is (kind, cfg, settings), so a reset object must report what a newly        *)
(*           created one carrying the same settings reports, and what it reported itself before  *)
(*           its first call; a copy what its original reported.  CheckC13: the control outcome   *)
(*           read back (last packet duration, final range) is equal under the erased key.        *)
(* TolerateResetGetters (set by the runner only while the two provisional findings are carried): (1) a decoder that has     *)
(*           been reset goes on reporting the pitch of the stream before the reset through OPUS_GET_PITCH (until a speech-   *)
(*           layer frame is decoded) where a new decoder reports 0; (2) between a reset and the next call a multistream      *)
(*           encoder's streams still carry the bitrate / forced channel count / bandwidth its last encode call gave them.   *)
(*           Snapshots of exactly that shape (the pitch component of a decoder that has been reset; the snapshot of a reset *)
(*           multistream encoder with an empty history) are neither compared nor remembered; those that differ from what is *)
(*           remembered are counted and printed.                                                                            *)
(* TolerateProj16 (set by the runner only while finding F14 is listed as known): the projection  *)
(*           decoder's 16-bit relation is waived, counted and printed on runs in which the      *)
(*           float output comes within 32 units of the 16-bit limits, i.e. where the 16-bit     *)
(*           output has to saturate: the 16-bit matrix product accumulates in 16 bits and wraps *)
(*           there.                                                                             *)
(* Every other mismatch leaves the trace unconsumed (REJECTED_AT).                               *)
EXTENDS Objects, Json, IOUtils
CONSTANTS CheckC12, CheckC13, TolerateProj16, TolerateResetGetters
VARIABLES l, obj, roots, trF, trE, nextId, trG
vars == <<l, obj, roots, trF, trE, nextId, trG>>

Tr == ndJsonDeserialize(IOEnv.TRACE)
MAXOBJ == 8
Slots == 0..(MAXOBJ - 1)

DeadObj == [live |-> FALSE]
NewObj(kind, cfg) == [live |-> TRUE, kind |-> kind, cfg |-> cfg, settings |-> NoSettings, nf |-> 0, ne |-> 0,
                      copied |-> FALSE, wasReset |-> FALSE, sov |-> FALSE]

\* counters (TLC registers; one worker): 1 full-key comparisons, 2 erased-key comparisons, 3 comparisons on copies,
\* 4 comparisons on reset objects, 5 erased-key comparisons between different formats,
\* 6 decode events with samples beyond +-1 whose 16-bit relation was evaluated, 7 projection events evaluated,
\* 8 projection events let through as the known 16-bit wrap, 9 getter snapshots compared under the full key,
\* 10 of these on reset objects with an empty history, 11 getter snapshots compared under the erased key,
\* 12 snapshots of reset objects that differ in the tolerated shape
Holds(b) == b = TRUE      \* evaluate a formula as a value (TLC would otherwise split the action on its disjunctions)
Bump(i) == TLCSet(i, TLCGet(i) + 1)
BumpIf(b, i) == IF b THEN Bump(i) ELSE TRUE

Init == /\ l = 1 /\ obj = [o \in Slots |-> DeadObj] /\ roots = << >> /\ trF = << >> /\ trE = << >> /\ nextId = 1 /\ trG = << >>
        /\ \A i \in 1..12 : TLCSet(i, 0)

Ev == Tr[l]
More == l <= Len(Tr)

\* ---- events that do not touch an object's history ------------------------------------------
TSkip == /\ More /\ Ev.k \in {"P", "B"} /\ l' = l + 1 /\ UNCHANGED <<obj, roots, trF, trE, nextId, trG>>

THist == /\ More /\ Ev.k = "H" /\ obj' = [o \in Slots |-> DeadObj] /\ l' = l + 1
         /\ UNCHANGED <<roots, trF, trE, nextId, trG>>

TCreate == /\ More /\ Ev.k = "C" /\ Ev.o \in Slots
           /\ obj' = [obj EXCEPT ![Ev.o] = IF Ev.rc = 0 THEN NewObj(Ev.kind, Ev.cfg) ELSE DeadObj]
           /\ l' = l + 1 /\ UNCHANGED <<roots, trF, trE, nextId, trG>>

TCopy == /\ More /\ Ev.k = "Y" /\ Ev.o \in Slots /\ Ev.o2 \in Slots /\ obj[Ev.o].live
         /\ obj' = [obj EXCEPT ![Ev.o2] = [obj[Ev.o] EXCEPT !.copied = TRUE]]
         /\ l' = l + 1 /\ UNCHANGED <<roots, trF, trE, nextId, trG>>

TReset == /\ More /\ Ev.k = "R" /\ Ev.o \in Slots /\ obj[Ev.o].live /\ Ev.rc = 0
          /\ obj' = [obj EXCEPT ![Ev.o] = [@ EXCEPT !.nf = 0, !.ne = 0, !.wasReset = TRUE, !.sov = FALSE]]
          /\ l' = l + 1 /\ UNCHANGED <<roots, trF, trE, nextId, trG>>

TDestroy == /\ More /\ Ev.k = "X" /\ Ev.o \in Slots /\ obj[Ev.o].live
            /\ obj' = [obj EXCEPT ![Ev.o] = DeadObj]
            /\ l' = l + 1 /\ UNCHANGED <<roots, trF, trE, nextId, trG>>

\* ---- a call that extends the history: look the key up, compare or remember ------------------
\* c: the call as the model sees it; outF / outE: what is compared under the full / erased key
Step(o, c, outF, outE, st2) ==
  LET st == obj[o]
      rk == <<st.kind, st.cfg, st.settings>>
      atRoot == st.nf = 0
      needRoot == atRoot /\ rk \notin DOMAIN roots
      rid == IF rk \in DOMAIN roots THEN roots[rk] ELSE nextId
      id1 == IF needRoot THEN nextId + 1 ELSE nextId
      nf == IF atRoot THEN rid ELSE st.nf
      ne == IF atRoot THEN rid ELSE st.ne
      kF == <<nf, c>>
      kE == <<ne, EraseCall(st.kind, st.settings, c)>>
      sF == kF \in DOMAIN trF
      sE == kE \in DOMAIN trE
      nfN == IF sF THEN trF[kF].next ELSE id1
      id2 == IF sF THEN id1 ELSE id1 + 1
      neN == IF sE THEN trE[kE].next ELSE id2
      id3 == IF sE THEN id2 ELSE id2 + 1
      eqF == sF => trF[kF].out = outF
      eqE == sE => trE[kE].out = outE
  IN /\ CheckC12 => Holds(eqF)
     \* a difference between same-format twins is C12's subject; C13 speaks when the full key agrees or is new
     /\ CheckC13 => Holds(eqE \/ ~eqF)
     /\ roots' = IF needRoot THEN (rk :> rid) @@ roots ELSE roots
     /\ trF' = IF sF THEN trF ELSE (kF :> [next |-> nfN, out |-> outF]) @@ trF
     /\ trE' = IF sE THEN trE ELSE (kE :> [next |-> neN, out |-> outE, fmt |-> IF "fmt" \in DOMAIN c THEN c.fmt ELSE "-"]) @@ trE
     /\ nextId' = id3
     /\ obj' = [obj EXCEPT ![o] = [st2 EXCEPT !.nf = nfN, !.ne = neN]]
     /\ BumpIf(sF, 1) /\ BumpIf(sE, 2) /\ BumpIf(sF /\ st.copied, 3) /\ BumpIf(sF /\ st.wasReset, 4)
     /\ BumpIf(sE /\ "fmt" \in DOMAIN c /\ trE[kE].fmt # c.fmt, 5)
     /\ UNCHANGED trG

TCtl ==
  /\ More /\ Ev.k = "T" /\ Ev.o \in Slots /\ obj[Ev.o].live
  /\ LET st == obj[Ev.o]
         ok == Ev.rc = 0
         s2 == SetTo(st.settings, CtlKey(Ev.req, ok), Ev.v)
     IN IF st.nf = 0
          THEN /\ obj' = [obj EXCEPT ![Ev.o].settings = s2]
               /\ UNCHANGED <<roots, trF, trE, nextId, trG>>
          ELSE LET c == [op |-> "ctl", req |-> Ev.req, v |-> Ev.v] out == [rc |-> Ev.rc]
               IN Step(Ev.o, c, out, out, [st EXCEPT !.settings = s2])
  /\ l' = l + 1

TEncode ==
  /\ More /\ Ev.k = "E" /\ Ev.o \in Slots /\ obj[Ev.o].live /\ obj[Ev.o].kind \in EncKinds
  /\ LET e == Ev
         c == [op |-> "run", fmt |-> e.fmt, sig |-> e.sig, k0 |-> e.k0, n |-> e.n, fd |-> e.fd, maxb |-> e.maxb, xd |-> e.xd]
         \* d digests the per-call digests (bytes + length + final range of every packet) and the lengths
         out == [rc |-> e.rc, len |-> e.len, rng |-> e.rng, d |-> e.d]
     IN Step(e.o, c, out, out, obj[e.o])
  /\ l' = l + 1

TDecode ==
  /\ More /\ Ev.k = "D" /\ Ev.o \in Slots /\ obj[Ev.o].live /\ obj[Ev.o].kind \in DecKinds
  /\ LET e == Ev
         st == obj[e.o]
         c == [op |-> "run", fmt |-> e.fmt, pd |-> e.pd, n |-> e.n, mode |-> e.mode, fs |-> e.fs, fq |-> e.fq]
         \* dF digests (PCM of every call, sample counts, final ranges); dE the same of the float twin, which is what
         \* objects in different formats have in common once the event's own relations (rel) hold
         outF == [rc |-> e.rc, d |-> e.dF]
         outE == [rc |-> e.rc, d |-> e.dE]
         sov2 == st.sov \/ e.sover > 0
         projKnown == TolerateProj16 /\ st.kind = "P" /\ e.fmt = "i16" /\ e.near > 0
         rel == /\ e.cnts = e.scnts /\ e.rngs = e.srngs           \* same sample count and final range as the float twin
                /\ IF st.kind = "P" THEN (sov2 \/ ProjectionOK(e.fmt, e) \/ projKnown) /\ (e.fmt = "f32" => e.ds = e.sds)
                   ELSE SampleRelationOK(e.fmt, e)
     IN /\ CheckC13 => Holds(rel)
        /\ Step(e.o, c, outF, outE, [st EXCEPT !.sov = sov2])
        /\ BumpIf(CheckC13 /\ st.kind # "P" /\ e.fmt = "i16" /\ e.over > 0, 6)
        /\ BumpIf(CheckC13 /\ st.kind = "P" /\ e.fmt # "f32" /\ ~sov2, 7)
        /\ BumpIf(CheckC13 /\ st.kind = "P" /\ ~sov2 /\ ~ProjectionOK(e.fmt, e), 8)
        /\ IF CheckC13 /\ st.kind = "P" /\ ~sov2 /\ ~ProjectionOK(e.fmt, e) THEN PrintT(<<"TOLERATED_PROJ", l>>) ELSE TRUE
  /\ l' = l + 1

\* ---- a getter snapshot: no effect on the object; compared with what was read in the same abstract state before ------
TGet ==
  /\ More /\ Ev.k = "G" /\ Ev.o \in Slots /\ obj[Ev.o].live
  /\ LET st == obj[Ev.o]
         atRoot == st.nf = 0
         rootKey == <<"r", st.kind, st.cfg, st.settings>>
         kF == IF atRoot THEN <<"F">> \o rootKey ELSE <<"F", "n", st.nf>>
         kP == IF atRoot THEN <<"P">> \o rootKey ELSE <<"P", "n", st.nf>>
         kE == IF atRoot THEN <<"E">> \o rootKey ELSE <<"E", "n", st.ne>>
         outF == [g |-> Ev.g, gs |-> Ev.gs]
         outP == [gp |-> Ev.gp]
         outE == [gc |-> Ev.gc]
         sF == kF \in DOMAIN trG
         sP == kP \in DOMAIN trG
         sE == kE \in DOMAIN trG
         eqF == sF => trG[kF] = outF
         eqP == sP => trG[kP] = outP
         eqE == sE => trG[kE] = outE
         resetRoot == atRoot /\ st.wasReset
         tolF == TolerateResetGetters /\ resetRoot /\ st.kind = "E"
         tolP == TolerateResetGetters /\ ((st.wasReset /\ st.kind \in DecKinds) \/ (resetRoot /\ st.kind = "E"))
     IN /\ CheckC12 => Holds(tolF \/ eqF)
        /\ CheckC12 => Holds(tolP \/ eqP)
        /\ CheckC13 => Holds(eqE \/ ~eqF)
        /\ trG' = (IF sF \/ tolF THEN << >> ELSE (kF :> outF)) @@ (IF sP \/ tolP THEN << >> ELSE (kP :> outP))
                   @@ (IF sE THEN << >> ELSE (kE :> outE)) @@ trG
        /\ BumpIf(sF /\ ~tolF, 9) /\ BumpIf(sF /\ resetRoot /\ ~tolF, 10) /\ BumpIf(sE, 11)
        /\ BumpIf(CheckC12 /\ ((tolF /\ ~eqF) \/ (tolP /\ ~eqP)), 12)
        /\ IF CheckC12 /\ ((tolF /\ ~eqF) \/ (tolP /\ ~eqP)) THEN PrintT(<<"TOLERATED_GET", l>>) ELSE TRUE
  /\ l' = l + 1 /\ UNCHANGED <<obj, roots, trF, trE, nextId>>

Next == TSkip \/ THist \/ TCreate \/ TCopy \/ TReset \/ TDestroy \/ TCtl \/ TEncode \/ TDecode \/ TGet
Spec == Init /\ [][Next]_vars

Accepted ==
  LET n == TLCGet("stats").diameter IN
  /\ PrintT(<<"STATS", TLCGet(1), TLCGet(2), TLCGet(3), TLCGet(4), TLCGet(5), TLCGet(6), TLCGet(7), TLCGet(8), TLCGet(9), TLCGet(10), TLCGet(11), TLCGet(12)>>)
  /\ IF n - 1 = Len(Tr) THEN TRUE
     ELSE PrintT(<<"REJECTED_AT", n, ToString(Tr[n])>>)
=============================================================================
