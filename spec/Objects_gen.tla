----------------------------- MODULE Objects_gen -----------------------------
(* Behaviour generation for C12/C13: every history of exactly Depth operations over at most    *)
(* NObj objects (create, create-like = new object given another one's settings, ctl, run of     *)
(* encode/decode calls, copy, reset, destroy) in which at least one call is made from an        *)
(* abstract state (module Objects) that was seen before in the same history - the only          *)
(* histories on which equivalence can be observed.  Breadth first this enumerates them all      *)
(* (each is printed once, when complete); with -simulate it yields long random ones.            *)
(* The operations are abstract tokens: the runner chooses the kind of object, the               *)
(* configuration, which ctl a setting token stands for, the signal, the run lengths and what    *)
(* the call variants mean (sample format for encoders, normal / lost / FEC for decoders).       *)
(* Symmetric histories are pruned: objects are created in index order, the first operation is   *)
(* a creation, the last one a run.                                                              *)
EXTENDS Objects
CONSTANTS NObj, Depth, MaxLive, Tokens, Lens, Variants, MinHits
VARIABLES abs, h, keys, ekeys, hits
vars == <<abs, h, keys, ekeys, hits>>

O == 1..NObj
Live(o) == abs[o].live
LiveSet == {o \in O : Live(o)}
FirstDead == CHOOSE o \in O : ~Live(o) /\ \A p \in O : p < o => Live(p)
HasDead == \E o \in O : ~Live(o)
CanAdd == HasDead /\ Cardinality(LiveSet) < MaxLive

\* blocks consumed since creation / reset (the runner feeds "the next blocks of the signal")
RECURSIVE PosOf(_)
PosOf(hist) == IF hist = << >> THEN 0
               ELSE LET c == hist[Len(hist)] IN (IF c.op = "run" THEN c.n ELSE 0) + PosOf(SubSeq(hist, 1, Len(hist) - 1))

Init == abs = [o \in O |-> Dead] /\ h = << >> /\ keys = {} /\ ekeys = {} /\ hits = 0

GCreate == /\ CanAdd
           /\ abs' = [abs EXCEPT ![FirstDead] = Create("e", "cfg")]
           /\ h' = Append(h, <<"C", FirstDead>>) /\ UNCHANGED <<keys, ekeys, hits>>
GLike(o) == /\ Live(o) /\ CanAdd /\ h # << >>
            /\ abs' = [abs EXCEPT ![FirstDead] = FreshWithSettings(abs[o])]
            /\ h' = Append(h, <<"L", o, FirstDead>>) /\ UNCHANGED <<keys, ekeys, hits>>
GCtl(o, t) == /\ Live(o)
              /\ (h # << >> => h[Len(h)] # <<"T", o, t>>)
              /\ abs' = [abs EXCEPT ![o] = Ctl(@, t, 1, TRUE)]
              /\ h' = Append(h, <<"T", o, t>>) /\ UNCHANGED <<keys, ekeys, hits>>
GRun(o, n, v) == /\ Live(o)
                 /\ LET c == [op |-> "run", fmt |-> v, pos |-> PosOf(abs[o].hist), n |-> n]
                        k == FullKey(abs[o], c)
                        ke == <<abs[o].settings, abs[o].base, abs[o].ehist, [c EXCEPT !.fmt = "any"]>>
                    IN /\ hits' = hits + (IF k \in keys \/ ke \in ekeys THEN 1 ELSE 0)
                       /\ keys' = keys \cup {k} /\ ekeys' = ekeys \cup {ke}
                       /\ abs' = [abs EXCEPT ![o] = [Call(@, c) EXCEPT !.ehist = Append(abs[o].ehist, [c EXCEPT !.fmt = "any"])]]
                       /\ h' = Append(h, <<"U", o, c.pos, n, v>>)
GCopy(o) == /\ Live(o) /\ CanAdd
            /\ abs' = [abs EXCEPT ![FirstDead] = CopyOf(abs[o])]
            /\ h' = Append(h, <<"Y", o, FirstDead>>) /\ UNCHANGED <<keys, ekeys, hits>>
GReset(o) == /\ Live(o) /\ abs[o].hist # << >>
             /\ abs' = [abs EXCEPT ![o] = Reset(@)]
             /\ h' = Append(h, <<"R", o>>) /\ UNCHANGED <<keys, ekeys, hits>>
GDestroy(o) == /\ Live(o) /\ Cardinality(LiveSet) >= 2
               /\ abs' = [abs EXCEPT ![o] = Dead]
               /\ h' = Append(h, <<"X", o>>) /\ UNCHANGED <<keys, ekeys, hits>>

Next == /\ Len(h) < Depth
        /\ IF h = << >> THEN GCreate
           ELSE \/ GCreate
                \/ \E o \in O : \/ GLike(o) \/ GCopy(o) \/ GReset(o) \/ GDestroy(o)
                                \/ \E t \in Tokens : GCtl(o, t)
                                \/ \E n \in Lens, v \in Variants : GRun(o, n, v)
Spec == Init /\ [][Next]_vars

Complete == Len(h) = Depth /\ h[Depth][1] = "U" /\ hits >= MinHits
Emit == Complete => PrintT(<<"HIST", ToString(h)>>)
=============================================================================
