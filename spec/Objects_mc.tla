----------------------------- MODULE Objects_mc -----------------------------
(* Exhaustive check of the object design behind C12/C13 on a small concrete memory model.        *)
(*                                                                                              *)
(* Next to the abstract state of module Objects every live object has a memory block            *)
(*   [addr, ptr, conf, stale, sig, tail]                                                        *)
(* laid out as in libopus: a configuration part in front of the reset marker (`conf`: the        *)
(* settings; `stale`: a field in front of the marker that encode calls write - the pinned tree   *)
(* has such fields, e.g. the FEC hysteresis flag), signal state behind the marker (`sig`), and   *)
(* the sub-codec state in the last cells of the block (`tail`).  Sub-states are found through    *)
(* offsets; `ptr` models an absolute self-pointer, which the design must not have.  A block      *)
(* comes from the allocator filled with poison.  What a call returns is a function of the cells  *)
(* it reads (Obs).  TLC explores every history of at most MaxOps operations over the objects     *)
(* Obj (create, ctl, encode in any format, copy, reset, destroy; every poison value) and checks  *)
(* that objects with equal abstract state are indistinguishable.                                 *)
(*                                                                                              *)
(* The constants select the design: the intended one (whole-state clear at creation, reset       *)
(* clears everything that encode calls write, copy takes the announced size, no pointers) must   *)
(* satisfy the invariants; each single departure from it must violate them (witness cfgs, used   *)
(* as vacuity guards).  ResetClearsStale = FALSE is the pinned tree (finding F3).               *)
EXTENDS Objects
CONSTANTS Obj, MaxOps, MaxLive,
          InitClearsAll,      \* creation clears the whole block before setting defaults
          ResetClearsStale,   \* reset also clears the signal-dependent field in front of the marker
          CopyAll,            \* a copy takes all cells (the size query covers the whole block)
          StoresPointer       \* the state holds an absolute pointer into itself
VARIABLES abs, mem, nextAddr, ops
vars == <<abs, mem, nextAddr, ops>>

FEC_REQ == 4012
Blocks == {1, 2}
MFmts == {"i16", "f32"}
CtlChoices == {<<FEC_REQ, 1>>, <<LSB_DEPTH_REQ, 16>>, <<LSB_DEPTH_REQ, 24>>}
Poison == {0 - 1, 0 - 2}
TheKind == "e"
TheCfg == "cfg"

FecOn(conf) == FEC_REQ \in DOMAIN conf /\ conf[FEC_REQ] = 1

\* what the encoder works on: the input converted to the internal resolution.  With an LSB depth of at most
\* 16 the three entry points deliver the same values; above, the 24-bit and float views may carry more
FmtCode(fmt) == IF fmt = "i16" THEN 116 ELSE IF fmt = "i24" THEN 124 ELSE 132
Internal(conf, fmt, b) == IF LsbDepth(conf) <= 16 THEN <<b>> ELSE <<b, FmtCode(fmt)>>

Raw(a, p) == [addr |-> a, ptr |-> <<p>>, conf |-> NoSettings, stale |-> <<p>>, sig |-> <<p>>, tail |-> <<p>>]

InitBlock(m) ==
  [m EXCEPT !.ptr = IF StoresPointer THEN <<m.addr>> ELSE << >>,
            !.conf = NoSettings, !.stale = << >>, !.sig = << >>,
            !.tail = IF InitClearsAll THEN << >> ELSE @]

\* the observable result of encoding block b in format f
Obs(m, f, b) ==
  [conf  |-> m.conf,
   stale |-> IF FecOn(m.conf) THEN m.stale ELSE << >>,
   sig   |-> m.sig, tail |-> m.tail,
   deref |-> IF m.ptr = << >> \/ m.ptr = <<m.addr>> THEN "ok" ELSE "wild",
   x     |-> Internal(m.conf, f, b)]

EncodeBlock(m, f, b) ==
  LET x == Internal(m.conf, f, b) IN
  [m EXCEPT !.stale = @ \o x, !.sig = @ \o x, !.tail = @ \o x]

ResetBlock(m) == [m EXCEPT !.sig = << >>, !.tail = << >>, !.stale = IF ResetClearsStale THEN << >> ELSE @]

CopyBlock(m, a, p) ==
  [addr |-> a, ptr |-> m.ptr, conf |-> m.conf, stale |-> m.stale, sig |-> m.sig,
   tail |-> IF CopyAll THEN m.tail ELSE <<p>>]

Live(o) == abs[o].live
NLive == Cardinality({o \in Obj : Live(o)})

Init == /\ abs = [o \in Obj |-> Dead] /\ mem = [o \in Obj |-> Dead] /\ nextAddr = 1 /\ ops = 0

ACreate(o) == /\ ~Live(o) /\ NLive < MaxLive
              /\ \E p \in Poison : mem' = [mem EXCEPT ![o] = InitBlock(Raw(nextAddr, p))]
              /\ abs' = [abs EXCEPT ![o] = Create(TheKind, TheCfg)]
              /\ nextAddr' = nextAddr + 1
ACtl(o) == /\ Live(o)
           /\ \E c \in CtlChoices :
                /\ abs' = [abs EXCEPT ![o] = Ctl(@, c[1], c[2], TRUE)]
                /\ mem' = [mem EXCEPT ![o].conf = SetTo(@, c[1], c[2])]
           /\ UNCHANGED nextAddr
AEncode(o) == /\ Live(o)
              /\ \E f \in MFmts, b \in Blocks :
                   /\ abs' = [abs EXCEPT ![o] = Call(@, [op |-> "run", fmt |-> f, blk |-> b])]
                   /\ mem' = [mem EXCEPT ![o] = EncodeBlock(@, f, b)]
              /\ UNCHANGED nextAddr
ACopy(o, o2) == /\ Live(o) /\ ~Live(o2) /\ NLive < MaxLive
                /\ \E p \in Poison : mem' = [mem EXCEPT ![o2] = CopyBlock(mem[o], nextAddr, p)]
                /\ abs' = [abs EXCEPT ![o2] = CopyOf(abs[o])]
                /\ nextAddr' = nextAddr + 1
AReset(o) == /\ Live(o)
             /\ abs' = [abs EXCEPT ![o] = Reset(@)]
             /\ mem' = [mem EXCEPT ![o] = ResetBlock(@)]
             /\ UNCHANGED nextAddr
ADestroy(o) == /\ Live(o)
               /\ abs' = [abs EXCEPT ![o] = Dead] /\ mem' = [mem EXCEPT ![o] = Dead]
               /\ UNCHANGED nextAddr

Next == /\ ops < MaxOps /\ ops' = ops + 1
        /\ \E o \in Obj : \/ ACreate(o) \/ ACtl(o) \/ AEncode(o) \/ AReset(o) \/ ADestroy(o)
                          \/ \E o2 \in Obj \ {o} : ACopy(o, o2)
Spec == Init /\ [][Next]_vars

\* ---- invariants ------------------------------------------------------------------------------
\* C12: equivalent objects are indistinguishable by any next call (whatever their address, their
\* allocation's poison, the other objects)
EquivOutputsEqual ==
  \A o1, o2 \in Obj : Equivalent(abs[o1], abs[o2]) =>
     \A f \in MFmts, b \in Blocks : LET a == Obs(mem[o1], f, b) c == Obs(mem[o2], f, b) IN a = c
\* C13: ... also when they were fed the same audio through different entry points under LSB depth <= 16
EquivModFmtOutputsEqual ==
  \A o1, o2 \in Obj : EquivalentModFmt(abs[o1], abs[o2]) =>
     \A f1, f2 \in MFmts, b \in Blocks :
        (LsbDepth(abs[o1].settings) <= 16 \/ f1 = f2) => Obs(mem[o1], f1, b) = Obs(mem[o2], f2, b)
\* reset yields the abstract state of a newly created object carrying the same settings
ResetIsFresh == \A o \in Obj : Live(o) => Reset(abs[o]) = FreshWithSettings(abs[o])
\* equivalence is preserved by equal calls, and full equivalence implies equivalence modulo format
EquivPreserved ==
  \A o1, o2 \in Obj : Equivalent(abs[o1], abs[o2]) =>
     /\ EquivalentModFmt(abs[o1], abs[o2])
     /\ \A f \in MFmts, b \in Blocks :
          LET c == [op |-> "run", fmt |-> f, blk |-> b] IN
          /\ Equivalent(Call(abs[o1], c), Call(abs[o2], c))
          /\ FullKey(abs[o1], c) = FullKey(abs[o2], c)
     /\ \A c \in CtlChoices : Equivalent(Ctl(abs[o1], c[1], c[2], TRUE), Ctl(abs[o2], c[1], c[2], TRUE))
\* no two live blocks share an address (the allocator model is sane)
AddrDistinct == \A o1, o2 \in Obj : (Live(o1) /\ Live(o2) /\ o1 # o2) => mem[o1].addr # mem[o2].addr
=============================================================================
