----------------------------- MODULE OpusConst -----------------------------
(***************************************************************************)
(* Constants of the Opus API and of RFC 6716 shared by all modules.        *)
(* The TOC table is written from RFC 6716 section 3.1 (Table 2), not from   *)
(* the implementation's gen_toc().                                         *)
(***************************************************************************)
EXTENDS Naturals, Integers, Sequences

OK              == 0
BAD_ARG         == -1
BUFFER_TOO_SMALL== -2
INTERNAL_ERROR  == -3
INVALID_PACKET  == -4
UNIMPLEMENTED   == -5
INVALID_STATE   == -6
ALLOC_FAIL      == -7

OPUS_AUTO        == -1000
OPUS_BITRATE_MAX == -1

BW_NB  == 1101
BW_MB  == 1102
BW_WB  == 1103
BW_SWB == 1104
BW_FB  == 1105

MODE_SILK   == 1000
MODE_HYBRID == 1001
MODE_CELT   == 1002

APP_VOIP     == 2048
APP_AUDIO    == 2049
APP_LOWDELAY == 2051

FsSet == {8000, 12000, 16000, 24000, 48000}

\* RFC 6716 Table 2: configuration number c = toc \div 8
TocConfig(toc) == toc \div 8
TocStereo(toc) == (toc \div 4) % 2 = 1
TocCode(toc)   == toc % 4
TocChannels(toc) == IF TocStereo(toc) THEN 2 ELSE 1

ModeOfConfig(c) == IF c <= 11 THEN MODE_SILK ELSE IF c <= 15 THEN MODE_HYBRID ELSE MODE_CELT
TocMode(toc) == ModeOfConfig(TocConfig(toc))

BwOfConfig(c) ==
  IF c <= 3 THEN BW_NB ELSE IF c <= 7 THEN BW_MB ELSE IF c <= 11 THEN BW_WB
  ELSE IF c <= 13 THEN BW_SWB ELSE IF c <= 15 THEN BW_FB
  ELSE IF c <= 19 THEN BW_NB ELSE IF c <= 23 THEN BW_WB
  ELSE IF c <= 27 THEN BW_SWB ELSE BW_FB
TocBandwidth(toc) == BwOfConfig(TocConfig(toc))

\* frame duration in 48 kHz samples (2.5 ms = 120)
Dur48OfConfig(c) ==
  IF c <= 11 THEN <<480, 960, 1920, 2880>>[(c % 4) + 1]
  ELSE IF c <= 15 THEN <<480, 960>>[(c % 2) + 1]
  ELSE <<120, 240, 480, 960>>[(c % 4) + 1]
Dur48(toc) == Dur48OfConfig(TocConfig(toc))

\* samples per frame at sampling rate Fs (Fs divides 48000 for every supported rate)
SamplesPerFrame(toc, Fs) == (Dur48(toc) * (Fs \div 400)) \div 120

MaxDur48 == 5760          \* 120 ms
MaxFrameBytes == 1275
MaxFrames == 48

RECURSIVE SumSeq(_)
SumSeq(s) == IF s = <<>> THEN 0 ELSE Head(s) + SumSeq(Tail(s))

Min(a, b) == IF a < b THEN a ELSE b
Max(a, b) == IF a > b THEN a ELSE b
=============================================================================
