----------------------------- MODULE ParTrace -----------------------------
(* Binding of module ObjectsPar (property C14) to executions of the real library: hx_par runs N threads *)
(* at the same time, each on objects of its own, and - separately, one process per program - the same    *)
(* programs alone.  Every library call is one "ev" event with the thread, a per-thread sequence number,  *)
(* the operation, its return value and a digest of everything it produced.                               *)
(* Obligation (NonInterference on the recorded schedule): each thread's concurrent log equals its solo   *)
(* log, event by event.                                                                                   *)
(* File layout: {"k":"round"} solo events of all threads, {"k":"conc"} concurrent events, {"k":"done"}.  *)
EXTENDS Integers, Sequences, TLC, Json, IOUtils
VARIABLES l, solo, pos, phase
vars == <<l, solo, pos, phase>>

Tr == ndJsonDeserialize(IOEnv.TRACE)
MaxThreads == 64
Threads == 0..(MaxThreads - 1)

Init == l = 1 /\ solo = [t \in Threads |-> << >>] /\ pos = [t \in Threads |-> 0] /\ phase = "none"

TRound == /\ Tr[l].k = "round"
          /\ solo' = [t \in Threads |-> << >>] /\ pos' = [t \in Threads |-> 0] /\ phase' = "solo"
TConc  == /\ Tr[l].k = "conc" /\ phase = "solo"
          /\ \E t \in Threads : solo[t] # << >>                 \* there is something to compare with
          /\ phase' = "conc" /\ UNCHANGED <<solo, pos>>
Same(a, b) == a.op = b.op /\ a.ret = b.ret /\ a.dg = b.dg
TEv == /\ Tr[l].k = "ev"
       /\ LET e == Tr[l] IN
          /\ e.th \in Threads
          /\ IF e.ph = "solo"
               THEN /\ phase = "solo" /\ e.seq = Len(solo[e.th]) + 1
                    /\ solo' = [solo EXCEPT ![e.th] = Append(@, e)] /\ UNCHANGED pos
               ELSE /\ phase = "conc" /\ e.ph = "conc"
                    /\ e.seq = pos[e.th] + 1 /\ e.seq <= Len(solo[e.th])
                    /\ Same(e, solo[e.th][e.seq])                \* the call returned what it returns when run alone
                    /\ pos' = [pos EXCEPT ![e.th] = e.seq] /\ UNCHANGED solo
       /\ UNCHANGED phase
\* every thread's concurrent log is complete
TDone == /\ Tr[l].k = "done" /\ phase = "conc"
         /\ \A t \in Threads : pos[t] = Len(solo[t])
         /\ \A t \in 0..(Tr[l].n - 1) : Len(solo[t]) > 0
         /\ phase' = "none" /\ UNCHANGED <<solo, pos>>

Next == /\ l <= Len(Tr) /\ l' = l + 1
        /\ (TRound \/ TConc \/ TEv \/ TDone)
Spec == Init /\ [][Next]_vars

Accepted ==
  LET n == TLCGet("stats").diameter IN
  IF n - 1 = Len(Tr) THEN TRUE
  ELSE PrintT(<<"REJECTED_AT", n, ToString(Tr[n])>>)
=============================================================================
