------------------------------ MODULE RCTrace ------------------------------
(***************************************************************************)
(* Validation of recorded executions of the REAL range coder (harness/rc.c)*)
(* at the library's width (CODE_BITS..BITRES = 32, 8, 8, 32, 3).            *)
(*                                                                         *)
(* Trace (NDJSON, IOEnv.TRACE):                                            *)
(*  line 1   {k:"tabs", t:[[icdf table]..], f:[ftb..]}   tables used by id  *)
(*  per execution                                                          *)
(*   {k:"begin", x, n0, n1, b:[n1 bytes], err, e0, tb, pt:[[v,n]..],        *)
(*    et:[tell,frac,rhi,rlo], dt:[..], can, tdiff, dmod, ...}               *)
(*        n0 initial size, n1 final storage, b the bytes the decoder read   *)
(*        (garb = 1: the driver overwrote the stream with random bytes to   *)
(*        exercise the decoder on arbitrary input; premise false), e0/err   *)
(*        encoder error flag before/after ec_enc_done, tb = ec_tell before  *)
(*        ec_enc_done, pt the initial-bit patches in call order, et/dt the  *)
(*        counters of a fresh encoder / decoder, can = canaries intact,     *)
(*        tdiff = bytes beyond the (shrunk) buffer that changed,            *)
(*        dmod = bytes the decoder changed                                  *)
(*   {k:"op", o, a, e:[tell,frac,rhi,rlo], v, u, d:[tell,frac,rhi,rlo]}     *)
(*        o/a the call and its arguments (the encoded value included),      *)
(*        e the encoder's counters after the call, v what the decoder       *)
(*        returned for the dual call, u the [fl,fh) the driver passed to    *)
(*        ec_dec_update, d the decoder's counters after the call.           *)
(*        32-bit words are logged as two 16-bit halves (R6).                *)
(*   {k:"end", x}                                                           *)
(*                                                                         *)
(* Obligations (the clauses of property C08), judged here and only here:    *)
(*   inverse      enc error = 0 (and patches well-formed) => v = encoded    *)
(*   tellEqual    ... => e = d after every op, et = dt                      *)
(*   fracMonotone tell_frac never decreases (each side, unconditionally)    *)
(*   fracVsWhole  tell = ceil(tell_frac/8) (each side)                      *)
(*   outside      can = 1, tdiff = 0, dmod = 0                              *)
(*   doneCannotFail  e0 = 0 /\ tb <= 8*n1 => err = 0                        *)
(*   budget       tb <= 8*n1 and no patch was refused => err = 0            *)
(*   patchRefused a patch of n bits after fewer than n coded bits sets error*)
(* and, as exact normative arithmetic (R1: decoder arithmetic is normative),*)
(*   m32val/m32tell  TLC's own decoding of b with RangeDec32 returns the    *)
(*                same values, tell and tell_frac as the real decoder       *)
(*   m32rng       ... and the same range (reported as SPEC-DRIFT if alone)  *)
(* A rejected execution is printed (<<"REJECTED_AT", line, x, reasons>>),   *)
(* the rest of it is skipped, validation continues with the next one.       *)
(***************************************************************************)
EXTENDS RangeCoder, Json, IOUtils, TLC

VARIABLES l, st

D == INSTANCE RangeDec32

Tr == ndJsonDeserialize(IOEnv.TRACE)
NoRedecode == "NOREDECODE" \in DOMAIN IOEnv /\ IOEnv.NOREDECODE = "1"

TabOf(id)  == Tr[1].t[id]
(***************************************************************************)
(* the op of an event in the form used by RangeCoder (values that may       *)
(* exceed 2^31 stay in halves and are handled separately)                   *)
(***************************************************************************)
EvOp(e) ==
  CASE e.o = "enc"    -> Op("enc", <<e.a[1], e.a[2], e.a[3]>>)
    [] e.o = "bin"    -> Op("bin", <<e.a[1], e.a[2], e.a[3]>>)
    [] e.o = "logp"   -> Op("logp", <<e.a[1], e.a[2]>>)
    [] e.o \in {"icdf", "icdf16"} -> Op("icdf", <<e.a[1], TabOf(e.a[2]), e.a[3]>>)
    [] e.o = "bits"   -> Op("bits", <<e.a[1], e.a[2]>>)
    [] e.o = "uint"   -> Op("uint", <<0, 2>>)          \* never an exact leading op; judged on halves
    [] e.o = "patch"  -> Op("patch", <<e.a[1], e.a[2]>>)
    [] e.o = "shrink" -> Op("shrink", <<e.a[1]>>)

\* legal arguments (the driver is supposed to produce nothing else; an illegal event is rejected
\* as "illegal", which the check reports as an infrastructure error, not as a violation)
EvLegal(e) ==
  CASE e.o = "uint" -> /\ (e.a[3] > 0 \/ e.a[4] >= 2)                         \* ft >= 2
                       /\ (e.a[1] < e.a[3] \/ (e.a[1] = e.a[3] /\ e.a[2] < e.a[4]))   \* v < ft
    [] e.o \in {"icdf", "icdf16"} -> e.a[2] >= 1 /\ e.a[2] <= Len(Tr[1].t) /\ OpLegal(EvOp(e))
    [] OTHER -> OpLegal(EvOp(e))

\* leading exact bits among the first n coding ops of the execution whose events start at line i
RECURSIVE LeadScan(_, _, _)
LeadScan(i, n, acc) ==
  IF n = 0 \/ i > Len(Tr) \/ Tr[i].k # "op" THEN acc
  ELSE LET op == EvOp(Tr[i]) IN
       IF ~IsCoding(op) THEN LeadScan(i + 1, n, acc)
       ELSE LET k == ExactBits(op) IN
            IF k = 0 \/ acc + k > SYM_BITS THEN acc ELSE LeadScan(i + 1, n - 1, acc + k)
\* entenc.h: the exact bits must have been coded BEFORE the patch call; pt[i] = <<v, n, coding ops before it>>
PatchesWFAt(h, pt) == \A i \in 1..Len(pt) : pt[i][2] <= LeadScan(h + 1, pt[i][3], 0)
RECURSIVE PatchBitsOf(_, _, _)
PatchBitsOf(pt, i, pb) ==
  IF i > Len(pt) THEN pb
  ELSE LET v == pt[i][1]  n == pt[i][2] IN
       PatchBitsOf(pt, i + 1, [j \in 1..SYM_BITS |-> IF j <= n THEN Shr(v, n - j) % 2 ELSE pb[j]])

Quad(d) == <<D!Tell(d), D!TellFrac(d), D!RngHalves(d.rm)[1], D!RngHalves(d.rm)[2]>>

(***************************************************************************)
(* begin                                                                   *)
(***************************************************************************)
BeginReasons(h, e) ==
  LET pb == PatchBitsOf(e.pt, 1, NoPatch)
      wf == PatchesWFAt(h, e.pt)
      prem == e.err = 0 /\ wf /\ e.garb = 0
      d0 == D!Init(e.b, e.n1) IN
  (IF prem /\ e.et # e.dt THEN {"tellEqual"} ELSE {})
  \cup (IF ~FracWholeRel(e.et[1], e.et[2]) \/ ~FracWholeRel(e.dt[1], e.dt[2]) THEN {"fracVsWhole"} ELSE {})
  \cup (IF e.can # 1 \/ e.tdiff # 0 \/ e.dmod # 0 THEN {"outside"} ELSE {})
  \cup (IF e.e0 = 0 /\ e.tb <= 8 * e.n1 /\ e.err # 0 THEN {"doneCannotFail"} ELSE {})
  \* the same clause read over the whole run: within budget the only error is a refused patch
  \* (perr = number of ec_enc_patch_initial_bits calls that set the error flag)
  \cup (IF e.tb <= 8 * e.n1 /\ e.perr = 0 /\ e.err # 0 THEN {"budget"} ELSE {})
  \cup (IF Len(e.b) # e.n1 \/ e.n1 > e.n0 THEN {"illegal"} ELSE {})
  \cup (IF NoRedecode THEN {}
        ELSE (IF Quad(d0)[1] # e.dt[1] \/ Quad(d0)[2] # e.dt[2] THEN {"m32tell"} ELSE {})
             \cup (IF Quad(d0)[3] # e.dt[3] \/ Quad(d0)[4] # e.dt[4] THEN {"m32rng"} ELSE {}))

BeginState(h, e) ==
  LET pb == PatchBitsOf(e.pt, 1, NoPatch) IN
  [h |-> h, skip |-> FALSE, prem |-> e.err = 0 /\ e.garb = 0 /\ PatchesWFAt(h, e.pt),
   pb |-> pb, o |-> 0, pe |-> e.et, pd |-> e.dt,
   d |-> IF NoRedecode THEN <<>> ELSE D!Init(e.b, e.n1), np |-> 0, ns |-> e.n0, nc |-> 0]

(***************************************************************************)
(* op                                                                      *)
(***************************************************************************)
\* TLC's own decoding step: <<d', value as <<hi, lo>> >>
Redecode(s, e) ==
  LET buf == Tr[s.h].b IN
  CASE e.o = "enc"  -> LET a == D!Decode(s.d, e.a[3]) IN <<D!Update(buf, a[1], e.u[1], e.u[2], e.a[3]), <<0, a[2]>> >>
    [] e.o = "bin"  -> LET a == D!DecodeBin(s.d, e.a[3]) IN <<D!Update(buf, a[1], e.u[1], e.u[2], Pow2(e.a[3])), <<0, a[2]>> >>
    [] e.o = "logp" -> LET a == D!BitLogp(buf, s.d, e.a[2]) IN <<a[1], <<0, a[2]>> >>
    [] e.o \in {"icdf", "icdf16"} -> LET a == D!Icdf(buf, s.d, TabOf(e.a[2]), e.a[3]) IN <<a[1], <<0, a[2]>> >>
    [] e.o = "bits" -> LET a == D!Bits(buf, s.d, e.a[2]) IN <<a[1], <<0, a[2]>> >>
    [] e.o = "uint" -> LET a == D!Uint(buf, s.d, e.a[3], e.a[4]) IN <<a[1], <<a[2], a[3]>> >>

\* the value the real decoder returned, as halves
RetHalves(e) == IF e.o = "uint" THEN <<e.v[1], e.v[2]>> ELSE <<0, e.v>>

CodingReasons(s, e) ==
  LET op == EvOp(e)
      k == ExactBits(op)
      lead == s.o >= 0 /\ k > 0 /\ s.o + k <= SYM_BITS
      x == ExpectedValue(op, IF lead THEN s.o ELSE -1, s.pb)
      matches == IF e.o = "uint" THEN e.v[1] = e.a[1] /\ e.v[2] = e.a[2] ELSE ValueMatches(op, x, e.v)
      \* the driver must have updated with the expected interval whenever the returned value fell in it
      \* (it stands for a caller whose table has that symbol); anything else is a driver fault
      upd == e.o \in {"enc", "bin"} => (/\ e.u[1] <= e.v /\ e.v < e.u[2]
                                        /\ (ValueMatches(op, x, e.v) => (e.u[1] = x /\ e.u[2] = x + (op.a[2] - op.a[1]))))
      r == Redecode(s, e) IN
  (IF s.prem /\ ~matches THEN {"inverse"} ELSE {})
  \cup (IF s.prem /\ e.e # e.d THEN {"tellEqual"} ELSE {})
  \cup (IF e.e[2] < s.pe[2] \/ e.d[2] < s.pd[2] THEN {"fracMonotone"} ELSE {})
  \cup (IF ~FracWholeRel(e.e[1], e.e[2]) \/ ~FracWholeRel(e.d[1], e.d[2]) THEN {"fracVsWhole"} ELSE {})
  \cup (IF ~upd THEN {"illegal"} ELSE {})
  \cup (IF NoRedecode THEN {}
        ELSE (IF r[2] # RetHalves(e) THEN {"m32val"} ELSE {})
             \cup (IF Quad(r[1])[1] # e.d[1] \/ Quad(r[1])[2] # e.d[2] THEN {"m32tell"} ELSE {})
             \cup (IF Quad(r[1])[3] # e.d[3] \/ Quad(r[1])[4] # e.d[4] THEN {"m32rng"} ELSE {}))

CodingState(s, e) ==
  LET op == EvOp(e)
      k == ExactBits(op)
      lead == s.o >= 0 /\ k > 0 /\ s.o + k <= SYM_BITS IN
  [s EXCEPT !.o = IF lead THEN s.o + k ELSE -1, !.pe = e.e, !.pd = e.d, !.nc = @ + 1,
            !.d = IF NoRedecode THEN <<>> ELSE Redecode(s, e)[1]]

\* patch / shrink: encoder-only calls; the counters must not move (the decoder's do not)
OtherReasons(s, e) ==
  (IF e.e # s.pe THEN {"tellEqual"} ELSE {})
  \cup (IF e.o = "patch" /\ (s.np + 1 > Len(Tr[s.h].pt) \/ Tr[s.h].pt[s.np + 1] # <<e.a[1], e.a[2], s.nc>>) THEN {"illegal"} ELSE {})
  \* "the encoder can verify the number of encoded bits is sufficient": fewer than n bits coded so far
  \* (tell-1 < n; tell rounds up) and no error yet => the patch must be refused (error flag set)
  \cup (IF e.o = "patch" /\ e.pe[1] = 0 /\ s.pe[1] - 1 < e.a[2] /\ e.pe[2] = 0 THEN {"patchRefused"} ELSE {})
  \cup (IF e.o = "shrink" /\ e.a[1] > s.ns THEN {"illegal"} ELSE {})
OtherState(s, e) ==
  IF e.o = "patch" THEN [s EXCEPT !.np = @ + 1] ELSE [s EXCEPT !.ns = e.a[1]]

EndReasons(s, e) ==
  (IF s.np # Len(Tr[s.h].pt) \/ s.ns # Tr[s.h].n1 \/ e.x # Tr[s.h].x THEN {"illegal"} ELSE {})
  \* the decoder's own error flag (ec_dec_uint out of range) as TLC's decoding has it
  \cup (IF ~NoRedecode /\ e.derr # s.d.err THEN {"m32val"} ELSE {})
  \* an error-free encoder run never trips it
  \cup (IF s.prem /\ e.derr # 0 THEN {"inverse"} ELSE {})

(***************************************************************************)
(* cursor                                                                  *)
(***************************************************************************)
Idle == [h |-> 0, skip |-> TRUE]
Reject(e, x, why) == PrintT(<<"REJECTED_AT", l, x, ToString(why)>>)

Step(e) ==
  IF e.k = "tabs" THEN l = 1 /\ st' = Idle
  ELSE IF e.k = "begin"
  THEN LET why == BeginReasons(l, e) IN
       IF why = {} THEN st' = BeginState(l, e)
       ELSE Reject(e, e.x, why) /\ st' = Idle
  ELSE IF st.skip THEN st' = st
  ELSE IF e.k = "op"
  THEN IF ~EvLegal(e) THEN Reject(e, Tr[st.h].x, {"illegal"}) /\ st' = Idle
       ELSE LET why == IF IsCoding(EvOp(e)) THEN CodingReasons(st, e) ELSE OtherReasons(st, e) IN
            IF why = {} THEN st' = (IF IsCoding(EvOp(e)) THEN CodingState(st, e) ELSE OtherState(st, e))
            ELSE Reject(e, Tr[st.h].x, why) /\ st' = Idle
  ELSE IF e.k = "end"
  THEN LET why == EndReasons(st, e) IN
       IF why = {} THEN st' = Idle ELSE Reject(e, e.x, why) /\ st' = Idle
  ELSE Reject(e, -1, {"illegal"}) /\ st' = Idle

Init == l = 1 /\ st = Idle
Next == /\ l <= Len(Tr)
        /\ Step(Tr[l])
        /\ l' = l + 1
        /\ (l = Len(Tr) => PrintT(<<"CONSUMED", l>>))
Spec == Init /\ [][Next]_<<l, st>>

(***************************************************************************)
(* stateless cases: the exhaustive ec_tell_frac sweep over constructed      *)
(* contexts  {k:"tf", rh, rl, nb, tf, tl}                                   *)
(***************************************************************************)
RmOf(rh, rl) == IF rl > 0 THEN rh * 65536 + (rl - 1) ELSE (rh - 1) * 65536 + 65535
TfOK(e) ==
  LET rm == RmOf(e.rh, e.rl) IN
  /\ e.tf = D!TellFracOf(e.nb, rm, FALSE)          \* the defining iterated-squaring computation
  /\ e.tf = D!TellFracOf(e.nb, rm, TRUE)
  /\ e.tl = e.nb - D!IlogP1(rm)
  /\ FracWholeRel(e.tl, e.tf)
CaseOK == LET e == Tr[l] IN IF e.k = "tf" THEN TfOK(e) ELSE FALSE
CInit == l \in 1..Len(Tr) /\ st = Idle
CNext == UNCHANGED <<l, st>>
CSpec == CInit /\ [][CNext]_<<l, st>>
=============================================================================
