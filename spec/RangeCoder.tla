----------------------------- MODULE RangeCoder -----------------------------
(***************************************************************************)
(* The Opus range coder (celt/entenc.c, entdec.c, entcode.c, mfrngcod.h)   *)
(* as two state machines, parametric in the word sizes.                    *)
(*                                                                         *)
(*   CODE_BITS  bits in the state registers          (library: 32)         *)
(*   SYM_BITS   bits output at a time                 (library: 8)          *)
(*   UINT_BITS  range-coded part of ec_enc_uint       (library: 8)          *)
(*   WINDOW     bits in the raw-bit window            (library: 32)         *)
(*   BITRES     fractional bit resolution             (library: 3)          *)
(*                                                                         *)
(* Encoder / decoder state:                                                *)
(*   [rng, val, rem, ext, offs, endOffs, endWin, nEnd, nbits, err,          *)
(*    storage, buf]  (+ ghost fields oob, cov in the encoder).              *)
(* buf is a sequence (1-based: C index i is buf[i+1]) whose length is the   *)
(* initial buffer size; storage is the current size (ec_enc_shrink).        *)
(* The arithmetic is the plain transcription of the C code; it is only      *)
(* evaluated by TLC at reduced width (all values < 2^31).  The full-width   *)
(* decoder is RangeDec32 (overflow-safe forms of the same steps).           *)
(***************************************************************************)
EXTENDS Integers, Sequences

CONSTANTS CODE_BITS, SYM_BITS, UINT_BITS, WINDOW, BITRES,
          PATCH_FIX      \* TRUE: ec_enc_patch_initial_bits as in the library (commit 85f44ce1); FALSE: before that repair

Pow2(n)   == 2 ^ n
Shr(x, n) == x \div Pow2(n)
Low(x, n) == x % Pow2(n)
RECURSIVE Ilog(_)
Ilog(x) == IF x = 0 THEN 0 ELSE 1 + Ilog(x \div 2)
Min(a, b) == IF a < b THEN a ELSE b
RECURSIVE BitOr(_, _)
BitOr(a, b) == IF a = 0 THEN b ELSE IF b = 0 THEN a
               ELSE (IF a % 2 = 1 \/ b % 2 = 1 THEN 1 ELSE 0) + 2 * BitOr(a \div 2, b \div 2)

SYM_MAX    == Pow2(SYM_BITS) - 1
CODE_SHIFT == CODE_BITS - SYM_BITS - 1
CODE_TOP   == Pow2(CODE_BITS - 1)
CODE_BOT   == CODE_TOP \div Pow2(SYM_BITS)
CODE_EXTRA == ((CODE_BITS - 2) % SYM_BITS) + 1
MaxRaw     == WINDOW - SYM_BITS + 1          \* largest legal _bits of ec_enc_bits (library: 25)

(***************************************************************************)
(* tell / tell_frac (entcode.h:111, entcode.c:69-84)                       *)
(* Mant16: the 16 most significant bits of rng (rng>>(l-16) in the         *)
(* library where l >= 24; at reduced width the mantissa is padded).        *)
(***************************************************************************)
Mant16(rng) == LET lg == Ilog(rng) IN IF lg >= 16 THEN Shr(rng, lg - 16) ELSE rng * Pow2(16 - lg)
Correction == <<35733, 38967, 42495, 46340, 50535, 55109, 60097, 65535>>
\* table-driven form (the compiled branch)
FracOfMant(r) == LET b == (r \div 4096) - 8 IN b + (IF r > Correction[b + 1] THEN 1 ELSE 0)
\* defining form (the #else branch): BITRES squarings of the mantissa, r*r>>15 computed in
\* 8-bit halves so that every intermediate is < 2^31
SqShr15(r) == LET h == r \div 256  lo == r % 256 IN 2 * h * h + ((512 * h * lo + lo * lo) \div 32768)
RECURSIVE FracIter(_, _, _)
FracIter(r, acc, i) == IF i = 0 THEN acc
                       ELSE LET q == SqShr15(r)  b == q \div 65536 IN
                            FracIter(q \div Pow2(b), 2 * acc + b, i - 1)
FracOfMantDef(r) == FracIter(r, 0, BITRES)

Tell(s)     == s.nbits - Ilog(s.rng)
TellFrac(s) == s.nbits * Pow2(BITRES) - (Ilog(s.rng) * Pow2(BITRES) + FracOfMant(Mant16(s.rng)))
TellFracDef(s) == s.nbits * Pow2(BITRES) - (Ilog(s.rng) * Pow2(BITRES) + FracOfMantDef(Mant16(s.rng)))
\* the relation between the two counters (confirmed by FracVsWhole in RangeCoder_mc and by
\* TellFracFormula in RangeDec32): tell = ceil(tell_frac / 2^BITRES)
FracWholeRel(t, tf) == /\ Pow2(BITRES) * (t - 1) < tf
                       /\ tf <= Pow2(BITRES) * t

(***************************************************************************)
(* Encoder                                                                 *)
(***************************************************************************)
EncInit(size) ==
  [rng |-> CODE_TOP, val |-> 0, rem |-> -1, ext |-> 0, offs |-> 0, endOffs |-> 0, endWin |-> 0,
   nEnd |-> 0, nbits |-> CODE_BITS + 1, err |-> 0, storage |-> size,
   buf |-> [i \in 1..size |-> 0], oob |-> FALSE, cov |-> {}]

Tag(e, t) == [e EXCEPT !.cov = @ \cup {t}]

\* a store to C index i; a store outside [0, storage) is remembered in the ghost flag oob
Store(e, i, v) == IF i >= 0 /\ i < e.storage /\ i < Len(e.buf)
                  THEN [e EXCEPT !.buf[i + 1] = v % Pow2(SYM_BITS)]
                  ELSE [e EXCEPT !.oob = TRUE]

WriteByte(e, v) ==
  IF e.offs + e.endOffs >= e.storage THEN Tag([e EXCEPT !.err = -1], "collision")
  ELSE [Store(e, e.offs, v) EXCEPT !.offs = @ + 1]
WriteByteAtEnd(e, v) ==
  IF e.offs + e.endOffs >= e.storage THEN Tag([e EXCEPT !.err = -1], "collision_end")
  ELSE [Store(e, e.storage - (e.endOffs + 1), v) EXCEPT !.endOffs = @ + 1]

RECURSIVE WriteRun(_, _, _)
WriteRun(e, sym, n) == IF n = 0 THEN e ELSE WriteRun(WriteByte(e, sym), sym, n - 1)

CarryOut(e, c) ==
  IF c # SYM_MAX
  THEN LET carry == Shr(c, SYM_BITS)
           e1 == IF e.rem >= 0 THEN WriteByte(e, e.rem + carry) ELSE e
           e2 == IF e1.ext > 0
                 THEN [WriteRun(Tag(e1, IF carry = 1 THEN "carry_into_run" ELSE "run_no_carry"),
                                (SYM_MAX + carry) % Pow2(SYM_BITS), e1.ext) EXCEPT !.ext = 0]
                 ELSE e1
           e3 == IF carry = 1 THEN Tag(e2, "carry") ELSE e2
       IN [e3 EXCEPT !.rem = c % Pow2(SYM_BITS)]
  ELSE [e EXCEPT !.ext = @ + 1]

RECURSIVE EncNormalize(_)
EncNormalize(e) ==
  IF e.rng <= CODE_BOT
  THEN LET e1 == CarryOut(e, Shr(e.val, CODE_SHIFT)) IN
       EncNormalize([e1 EXCEPT !.val = (e.val * Pow2(SYM_BITS)) % CODE_TOP,
                               !.rng = e.rng * Pow2(SYM_BITS),
                               !.nbits = e.nbits + SYM_BITS])
  ELSE e

\* ec_encode
Encode(e, fl, fh, ft) ==
  LET r == e.rng \div ft IN
  EncNormalize(IF fl > 0
               THEN [e EXCEPT !.val = e.val + e.rng - r * (ft - fl), !.rng = r * (fh - fl)]
               ELSE [e EXCEPT !.rng = e.rng - r * (ft - fh)])
\* ec_encode_bin
EncodeBin(e, fl, fh, bits) ==
  LET r == Shr(e.rng, bits) IN
  EncNormalize(IF fl > 0
               THEN [e EXCEPT !.val = e.val + e.rng - r * (Pow2(bits) - fl), !.rng = r * (fh - fl)]
               ELSE [e EXCEPT !.rng = e.rng - r * (Pow2(bits) - fh)])
\* ec_enc_bit_logp
BitLogp(e, b, logp) ==
  LET s == Shr(e.rng, logp)  r == e.rng - s IN
  EncNormalize(IF b # 0 THEN [e EXCEPT !.val = e.val + r, !.rng = s] ELSE [e EXCEPT !.rng = r])
\* ec_enc_icdf / ec_enc_icdf16 (tbl is the table, 1-based: C _icdf[i] is tbl[i+1])
Icdf(e, s, tbl, ftb) ==
  LET r == Shr(e.rng, ftb) IN
  EncNormalize(IF s > 0
               THEN [e EXCEPT !.val = e.val + e.rng - r * tbl[s], !.rng = r * (tbl[s] - tbl[s + 1])]
               ELSE [e EXCEPT !.rng = e.rng - r * tbl[s + 1]])

\* ec_enc_bits
RECURSIVE FlushWin(_, _, _)
\* do { write; window>>=SYM; used-=SYM } while (used >= SYM)   (entered after the first write)
FlushWin(e, window, used) ==
  LET e1 == WriteByteAtEnd(e, window % Pow2(SYM_BITS))
      w1 == Shr(window, SYM_BITS)
      u1 == used - SYM_BITS IN
  IF u1 >= SYM_BITS THEN FlushWin(e1, w1, u1) ELSE [e1 EXCEPT !.endWin = w1, !.nEnd = u1]
Bits(e, v, n) ==
  LET e1 == IF e.nEnd + n > WINDOW THEN FlushWin(e, e.endWin, e.nEnd) ELSE e IN
  [e1 EXCEPT !.endWin = e1.endWin + v * Pow2(e1.nEnd),     \* the bits above nEnd are zero
             !.nEnd = e1.nEnd + n,
             !.nbits = e1.nbits + n]

\* ec_enc_uint
Uint(e, v, ft) ==
  LET ftm == ft - 1
      ftb == Ilog(ftm) IN
  IF ftb > UINT_BITS
  THEN LET b == ftb - UINT_BITS
           t == Shr(ftm, b) + 1
           fl == Shr(v, b) IN
       Bits(Encode(e, fl, fl + 1, t), Low(v, b), b)
  ELSE Encode(e, v, v + 1, ftm + 1)

\* ec_enc_patch_initial_bits: replace the n bits at position p (from bit p upwards) of word w by v
PatchField(w, p, n, v) == w - (Shr(w, p) % Pow2(n)) * Pow2(p) + v * Pow2(p)
\* PATCH_FIX = TRUE is the library since commit 85f44ce1: a first output symbol equal to SYM_MAX is not
\* held in rem but counted in ext (rem = -1); it is moved to rem and patched there (no carry can ever
\* reach the first symbol).  PATCH_FIX = FALSE is the code before that commit, which patched the
\* *second* symbol in val (or refused) in this situation -- found by RangeCoder_mc (Inverse) and
\* confirmed on the library (findings/F5_c08_patch_initial_bits.c); kept as a regression variant.
PatchFirstDeferred(e) == e.offs = 0 /\ e.rem < 0 /\ e.ext > 0
PatchInitial(e, v, n) ==
  LET shift == SYM_BITS - n IN
  IF e.offs > 0 THEN Tag(Store(e, 0, PatchField(e.buf[1], shift, n, v)), "patch_buf")
  ELSE IF e.rem >= 0 THEN Tag([e EXCEPT !.rem = PatchField(e.rem, shift, n, v)], "patch_rem")
  ELSE IF PATCH_FIX /\ e.ext > 0
       THEN Tag([e EXCEPT !.rem = PatchField(SYM_MAX, shift, n, v), !.ext = @ - 1], "patch_deferred_fixed")
  ELSE LET e0 == IF PatchFirstDeferred(e) THEN Tag(e, "patch_first_deferred") ELSE e IN
       IF e.rng <= Shr(CODE_TOP, n)
       THEN Tag([e0 EXCEPT !.val = PatchField(e.val, CODE_SHIFT + shift, n, v)], "patch_val")
       ELSE Tag([e0 EXCEPT !.err = -1], "patch_err")

\* ec_enc_shrink (OPUS_MOVE = memmove).  Legal when offs+endOffs <= size (celt_assert) and
\* size <= storage.
ShrinkLegal(e, size) == e.offs + e.endOffs <= size /\ size <= e.storage
Shrink(e, size) ==
  LET src(i) == e.buf[e.storage - e.endOffs + i + 1]        \* C: buf[storage-end_offs+i]
      moved == [j \in 1..Len(e.buf) |->
                  LET i == (j - 1) - (size - e.endOffs) IN
                  IF i >= 0 /\ i < e.endOffs THEN src(i) ELSE e.buf[j]]
      e1 == [e EXCEPT !.buf = moved, !.storage = size] IN
  IF e.endOffs > 0 /\ size < e.storage THEN Tag(e1, "shrink_moves") ELSE e1

\* ec_enc_done
RECURSIVE DoneOut(_, _, _)
DoneOut(e, end, nl) ==
  IF nl > 0
  THEN DoneOut(CarryOut(e, Shr(end, CODE_SHIFT)), (end * Pow2(SYM_BITS)) % CODE_TOP, nl - SYM_BITS)
  ELSE [e |-> e, l |-> nl]
RECURSIVE FlushWhole(_, _, _)
FlushWhole(e, window, used) ==
  IF used >= SYM_BITS
  THEN FlushWhole(WriteByteAtEnd(e, window % Pow2(SYM_BITS)), Shr(window, SYM_BITS), used - SYM_BITS)
  ELSE [e |-> e, window |-> window, used |-> used]
RECURSIVE ClearRange(_, _, _)
ClearRange(e, from, n) == IF n <= 0 THEN e ELSE ClearRange(Store(e, from, 0), from + 1, n - 1)

Done(e) ==
  LET l0 == CODE_BITS - Ilog(e.rng)
      m0 == Shr(CODE_TOP - 1, l0)
      end0 == ((e.val + m0) \div (m0 + 1)) * (m0 + 1)
      more == end0 + m0 >= e.val + e.rng
      l1 == IF more THEN l0 + 1 ELSE l0
      m1 == IF more THEN m0 \div 2 ELSE m0
      end1 == IF more THEN ((e.val + m1) \div (m1 + 1)) * (m1 + 1) ELSE end0
      o == DoneOut(e, end1, l1)
      e2 == IF o.e.rem >= 0 \/ o.e.ext > 0 THEN CarryOut(o.e, 0) ELSE o.e
      f == FlushWhole(e2, e2.endWin, e2.nEnd)
      e3 == f.e IN
  IF e3.err # 0 THEN Tag(e3, "bust")
  ELSE LET e4 == ClearRange(e3, e3.offs, e3.storage - e3.offs - e3.endOffs) IN
       IF f.used > 0
       THEN IF e4.endOffs >= e4.storage THEN Tag([e4 EXCEPT !.err = -1], "bust_no_range_data")
            ELSE LET spare == -o.l
                     busted == e4.offs + e4.endOffs >= e4.storage /\ spare < f.used
                     w == IF busted THEN f.window % Pow2(spare) ELSE f.window
                     idx == e4.storage - e4.endOffs - 1
                     e5 == Store(e4, idx, BitOr(e4.buf[idx + 1], w % Pow2(SYM_BITS)))
                     e6 == IF e4.offs + e4.endOffs >= e4.storage THEN Tag(e5, "shared_last_byte") ELSE e5
                 IN IF busted THEN Tag([e6 EXCEPT !.err = -1], "bust_raw_truncated") ELSE e6
       ELSE e4

(***************************************************************************)
(* Decoder                                                                 *)
(***************************************************************************)
ByteAt(d, i) == IF i >= 0 /\ i < d.storage THEN d.buf[i + 1] ELSE 0
\* ec_read_byte: returns <<byte, offs'>>
ReadByte(d) == IF d.offs < d.storage THEN <<d.buf[d.offs + 1], d.offs + 1>> ELSE <<0, d.offs>>

RECURSIVE DecNormalize(_)
DecNormalize(d) ==
  IF d.rng <= CODE_BOT
  THEN LET rb == ReadByte(d)
           sym == Shr(d.rem * Pow2(SYM_BITS) + rb[1], SYM_BITS - CODE_EXTRA)
           nsym == SYM_MAX - (sym % Pow2(SYM_BITS))               \* EC_SYM_MAX & ~sym
       IN DecNormalize([d EXCEPT !.nbits = d.nbits + SYM_BITS,
                                 !.rng = d.rng * Pow2(SYM_BITS),
                                 !.rem = rb[1], !.offs = rb[2],
                                 !.val = (d.val * Pow2(SYM_BITS) + nsym) % CODE_TOP])
  ELSE d

DecInit(buf, storage) ==
  LET d0 == [rng |-> Pow2(CODE_EXTRA), val |-> 0, rem |-> 0, ext |-> 0, offs |-> 0, endOffs |-> 0,
             endWin |-> 0, nEnd |-> 0,
             nbits |-> CODE_BITS + 1 - ((CODE_BITS - CODE_EXTRA) \div SYM_BITS) * SYM_BITS,
             err |-> 0, storage |-> storage, buf |-> buf]
      rb == ReadByte(d0)
  IN DecNormalize([d0 EXCEPT !.rem = rb[1], !.offs = rb[2],
                             !.val = d0.rng - 1 - Shr(rb[1], SYM_BITS - CODE_EXTRA)])

\* ec_decode / ec_decode_bin: <<d', fs>>
Decode(d, ft) ==
  LET ext == d.rng \div ft  s == d.val \div ext IN
  <<[d EXCEPT !.ext = ext], ft - Min(s + 1, ft)>>
DecodeBin(d, bits) ==
  LET ext == Shr(d.rng, bits)  s == d.val \div ext IN
  <<[d EXCEPT !.ext = ext], Pow2(bits) - Min(s + 1, Pow2(bits))>>
\* ec_dec_update
DecUpdate(d, fl, fh, ft) ==
  LET s == d.ext * (ft - fh) IN
  DecNormalize([d EXCEPT !.val = d.val - s,
                         !.rng = IF fl > 0 THEN d.ext * (fh - fl) ELSE d.rng - s])
\* ec_dec_bit_logp: <<d', bit>>
DecBitLogp(d, logp) ==
  LET s == Shr(d.rng, logp)  ret == d.val < s IN
  <<DecNormalize([d EXCEPT !.val = IF ret THEN d.val ELSE d.val - s,
                           !.rng = IF ret THEN s ELSE d.rng - s]),
    IF ret THEN 1 ELSE 0>>
\* ec_dec_icdf: <<d', symbol>>
RECURSIVE IcdfSearch(_, _, _, _, _)
IcdfSearch(r, dval, tbl, k, t) ==          \* k: 0-based candidate, t: previous s
  LET s == r * tbl[k + 1] IN
  IF dval < s /\ k + 1 < Len(tbl) THEN IcdfSearch(r, dval, tbl, k + 1, s) ELSE <<k, t, s>>
DecIcdf(d, tbl, ftb) ==
  LET r == Shr(d.rng, ftb)
      f == IcdfSearch(r, d.val, tbl, 0, d.rng) IN
  <<DecNormalize([d EXCEPT !.val = d.val - f[3], !.rng = f[2] - f[3]]), f[1]>>

\* ec_dec_bits: <<d', value>>
RECURSIVE Refill(_, _, _, _)
Refill(d, window, avail, eo) ==
  LET b == IF eo < d.storage THEN d.buf[d.storage - (eo + 1) + 1] ELSE 0
      eo1 == IF eo < d.storage THEN eo + 1 ELSE eo
      w1 == window + b * Pow2(avail)
      a1 == avail + SYM_BITS IN
  IF a1 <= WINDOW - SYM_BITS THEN Refill(d, w1, a1, eo1) ELSE <<w1, a1, eo1>>
DecBits(d, n) ==
  LET f == IF d.nEnd < n THEN Refill(d, d.endWin, d.nEnd, d.endOffs) ELSE <<d.endWin, d.nEnd, d.endOffs>> IN
  <<[d EXCEPT !.endWin = Shr(f[1], n), !.nEnd = f[2] - n, !.endOffs = f[3], !.nbits = d.nbits + n],
    Low(f[1], n)>>

\* ec_dec_uint: <<d', value>>
DecUint(d, ft) ==
  LET ftm == ft - 1
      ftb == Ilog(ftm) IN
  IF ftb > UINT_BITS
  THEN LET b == ftb - UINT_BITS
           t == Shr(ftm, b) + 1
           a == Decode(d, t)
           d1 == DecUpdate(a[1], a[2], a[2] + 1, t)
           c == DecBits(d1, b)
           v == a[2] * Pow2(b) + c[2] IN
       IF v <= ftm THEN <<c[1], v>> ELSE <<[c[1] EXCEPT !.err = 1], ftm>>
  ELSE LET a == Decode(d, ftm + 1) IN <<DecUpdate(a[1], a[2], a[2] + 1, ftm + 1), a[2]>>

(***************************************************************************)
(* Operations as data.  An op is [k |-> kind, a |-> <<args>>]:             *)
(*   "enc" <<fl,fh,ft>>  "bin" <<fl,fh,bits>>  "logp" <<b,logp>>           *)
(*   "icdf" <<s,tbl,ftb>>  "uint" <<v,ft>>  "bits" <<v,n>>                 *)
(*   "patch" <<v,n>>  "shrink" <<size>>                                    *)
(***************************************************************************)
Op(k, a) == [k |-> k, a |-> a]
IsCoding(op) == op.k \notin {"patch", "shrink"}

EncApply(e, op) ==
  CASE op.k = "enc"    -> Encode(e, op.a[1], op.a[2], op.a[3])
    [] op.k = "bin"    -> EncodeBin(e, op.a[1], op.a[2], op.a[3])
    [] op.k = "logp"   -> BitLogp(e, op.a[1], op.a[2])
    [] op.k = "icdf"   -> Icdf(e, op.a[1], op.a[2], op.a[3])
    [] op.k = "uint"   -> Uint(e, op.a[1], op.a[2])
    [] op.k = "bits"   -> Bits(e, op.a[1], op.a[2])
    [] op.k = "patch"  -> PatchInitial(e, op.a[1], op.a[2])
    [] op.k = "shrink" -> Shrink(e, op.a[1])

\* the encoded value of a coding op as the decoder reports it (for enc/bin: the decoder returns
\* a cumulative frequency fs, which must fall in [fl,fh): see ValueMatches)
EncodedValue(op) ==
  CASE op.k \in {"enc", "bin"} -> op.a[1]
    [] OTHER -> op.a[1]

\* the decoder dual of a coding op: <<d', returned value>>; for enc/bin the update uses the
\* interval [ufl,ufh) chosen by the caller from the returned fs
DecApply(d, op, ufl, ufh) ==
  CASE op.k = "enc"  -> LET a == Decode(d, op.a[3]) IN <<DecUpdate(a[1], ufl, ufh, op.a[3]), a[2]>>
    [] op.k = "bin"  -> LET a == DecodeBin(d, op.a[3]) IN <<DecUpdate(a[1], ufl, ufh, Pow2(op.a[3])), a[2]>>
    [] op.k = "logp" -> DecBitLogp(d, op.a[2])
    [] op.k = "icdf" -> DecIcdf(d, op.a[2], op.a[3])
    [] op.k = "uint" -> DecUint(d, op.a[2])
    [] op.k = "bits" -> DecBits(d, op.a[2])
\* value the decoder would return before any update (enc/bin only)
DecPeek(d, op) == IF op.k = "enc" THEN Decode(d, op.a[3])[2] ELSE DecodeBin(d, op.a[3])[2]

(***************************************************************************)
(* What "decoded = encoded" means in the presence of ec_enc_patch_initial_bits.*)
(* The leading ops that code exactly-k-bit symbols (an "enc"/"bin" op with  *)
(* a power-of-two total and an aligned power-of-two interval, a "logp" op    *)
(* with logp = 1) put their values verbatim, most significant first, into the top *)
(* bits of the first output symbol; a patch of n bits overwrites the first n *)
(* of these bits.  Let T be the number of bits so covered by the leading     *)
(* exact ops (capped at SYM_BITS).  A patch (v, n) is well-formed when       *)
(* n <= T; the expected decoded value of a leading exact op is its encoded   *)
(* value with the patched bits replaced.  Executions with a patch that is    *)
(* not well-formed are outside the premise (read conservatively, rule R2).   *)
(***************************************************************************)
IsPow2(x) == x >= 1 /\ x = Pow2(Ilog(x) - 1)
\* an enc/bin op whose total is 2^m and whose interval [fl,fh) has a power-of-two width w < 2^m
\* with w | fl codes the (m - log2 w)-bit value fl/w exactly
ExactWidth(op) == IF op.k \in {"enc", "bin"} THEN op.a[2] - op.a[1] ELSE 1
ExactBits(op) ==
  IF op.k \in {"enc", "bin"}
  THEN LET ft == IF op.k = "enc" THEN op.a[3] ELSE Pow2(op.a[3])
           w == op.a[2] - op.a[1] IN
       IF IsPow2(ft) /\ IsPow2(w) /\ w < ft /\ op.a[1] % w = 0 THEN Ilog(ft) - Ilog(w) ELSE 0
  ELSE IF op.k = "logp" /\ op.a[2] = 1 THEN 1
  ELSE 0
\* bits covered by the leading exact ops among the coding ops (stops at the first other coding op
\* or when SYM_BITS would be exceeded)
RECURSIVE LeadBits(_, _, _)
LeadBits(opl, i, acc) ==
  IF i > Len(opl) THEN acc
  ELSE IF ~IsCoding(opl[i]) THEN LeadBits(opl, i + 1, acc)
  ELSE LET k == ExactBits(opl[i]) IN
       IF k = 0 \/ acc + k > SYM_BITS THEN acc ELSE LeadBits(opl, i + 1, acc + k)
\* the patched top bits: a function 1..SYM_BITS -> {-1,0,1} (bit 1 = most significant)
RECURSIVE PatchBits(_, _, _)
PatchBits(opl, i, pb) ==
  IF i > Len(opl) THEN pb
  ELSE IF opl[i].k = "patch"
       THEN LET v == opl[i].a[1]  n == opl[i].a[2] IN
            PatchBits(opl, i + 1, [j \in 1..SYM_BITS |-> IF j <= n THEN Shr(v, n - j) % 2 ELSE pb[j]])
       ELSE PatchBits(opl, i + 1, pb)
NoPatch == [j \in 1..SYM_BITS |-> -1]
MaxPatched(pb) == IF \E j \in 1..SYM_BITS : pb[j] >= 0
                  THEN CHOOSE j \in 1..SYM_BITS : pb[j] >= 0 /\ \A q \in (j + 1)..SYM_BITS : pb[q] < 0
                  ELSE 0
\* entenc.h: "at least _nbits bits must have ALREADY been encoded using probabilities that are an exact
\* power of two": the leading exact ops BEFORE the patch call must cover its n bits
RECURSIVE PatchesWF(_, _)
PatchesWF(opl, i) ==
  IF i > Len(opl) THEN TRUE
  ELSE (opl[i].k = "patch" => opl[i].a[2] <= LeadBits(SubSeq(opl, 1, i - 1), 1, 0)) /\ PatchesWF(opl, i + 1)
PatchesWellFormed(opl) == PatchesWF(opl, 1)
\* "The encoder can verify the number of encoded bits is sufficient": a patch of n bits issued when fewer
\* than n bits have been coded (tell-1 < n, tell rounds up) must be refused, i.e. set the error flag
RECURSIVE PatchRefusedOK(_, _, _)
PatchRefusedOK(e, opl, i) ==
  IF i > Len(opl) THEN TRUE
  ELSE LET e1 == EncApply(e, opl[i]) IN
       /\ (opl[i].k = "patch" /\ e.err = 0 /\ Tell(e) - 1 < opl[i].a[2]) => e1.err # 0
       /\ PatchRefusedOK(e1, opl, i + 1)
\* value of a k-bit field whose first bit is bit number o+1, after patching
RECURSIVE MergeBits(_, _, _, _, _)
MergeBits(v, k, o, pb, j) ==       \* j = 1..k, most significant first
  IF j > k THEN 0
  ELSE LET orig == Shr(v, k - j) % 2
           b == IF pb[o + j] >= 0 THEN pb[o + j] ELSE orig IN
       b * Pow2(k - j) + MergeBits(v, k, o, pb, j + 1)
\* expected value of an op that starts at lead-bit offset o (o < 0: not a leading exact op)
ExpectedValue(op, o, pb) ==
  IF o < 0 THEN EncodedValue(op)
  ELSE MergeBits(EncodedValue(op) \div ExactWidth(op), ExactBits(op), o, pb, 1) * ExactWidth(op)

\* does the decoder's return value r match the expected value x of op
ValueMatches(op, x, r) ==
  IF op.k \in {"enc", "bin"} THEN x <= r /\ r < x + (op.a[2] - op.a[1]) ELSE r = x

\* Legal parameters of an op (preconditions of the library functions)
IsIcdfTable(tbl, ftb) == /\ Len(tbl) >= 1 /\ tbl[Len(tbl)] = 0
                         /\ tbl[1] < Pow2(ftb)
                         /\ \A i \in 1..(Len(tbl) - 1) : tbl[i] > tbl[i + 1]
OpLegal(op) ==
  CASE op.k = "enc"    -> 0 <= op.a[1] /\ op.a[1] < op.a[2] /\ op.a[2] <= op.a[3]
                          /\ op.a[3] <= Pow2(CODE_BITS - 2 * SYM_BITS)
    [] op.k = "bin"    -> 0 <= op.a[1] /\ op.a[1] < op.a[2] /\ op.a[2] <= Pow2(op.a[3])
                          /\ op.a[3] >= 1 /\ op.a[3] <= CODE_BITS - 2 * SYM_BITS
    [] op.k = "logp"   -> op.a[1] \in {0, 1} /\ op.a[2] >= 1 /\ op.a[2] <= CODE_BITS - 2 * SYM_BITS - 1
    [] op.k = "icdf"   -> IsIcdfTable(op.a[2], op.a[3]) /\ op.a[1] >= 0 /\ op.a[1] < Len(op.a[2])
                          /\ op.a[3] <= CODE_BITS - 2 * SYM_BITS
    [] op.k = "uint"   -> op.a[2] >= 2 /\ op.a[1] >= 0 /\ op.a[1] < op.a[2]
    [] op.k = "bits"   -> op.a[2] >= 1 /\ op.a[2] <= MaxRaw /\ op.a[1] >= 0 /\ op.a[1] < Pow2(op.a[2])
    [] op.k = "patch"  -> op.a[2] >= 1 /\ op.a[2] <= SYM_BITS /\ op.a[1] >= 0 /\ op.a[1] < Pow2(op.a[2])
    [] op.k = "shrink" -> op.a[1] >= 0

(***************************************************************************)
(* The composed run: encoder over ops, Done, decoder over the same ops.    *)
(***************************************************************************)
RECURSIVE EncRun(_, _, _, _)
\* returns [e, trl] where trl[i] = <<tell, tell_frac, rng>> after op i
EncRun(e, opl, i, trl) ==
  IF i > Len(opl) THEN [e |-> e, trl |-> trl]
  ELSE LET e1 == EncApply(e, opl[i]) IN
       EncRun(e1, opl, i + 1, Append(trl, <<Tell(e1), TellFrac(e1), e1.rng>>))

\* Decoder over ops.  res[i] = [v, x, ok, t] (returned value, expected value, matched, <<tell,frac,rng>>);
\* decoding stops at the first mismatch of an enc/bin op (no table to continue with).
RECURSIVE DecRun(_, _, _, _, _, _)
DecRun(d, opl, i, o, pb, res) ==
  IF i > Len(opl) THEN [d |-> d, res |-> res, complete |-> TRUE]
  ELSE LET op == opl[i] IN
       IF ~IsCoding(op) THEN DecRun(d, opl, i + 1, o, pb, Append(res, [v |-> -1, x |-> -1, ok |-> TRUE, t |-> <<Tell(d), TellFrac(d), d.rng>>]))
       ELSE LET k == ExactBits(op)
                lead == o >= 0 /\ k > 0 /\ o + k <= SYM_BITS
                x == ExpectedValue(op, IF lead THEN o ELSE -1, pb)
                o1 == IF lead THEN o + k ELSE -1
                w == op.a[2] - op.a[1]
                peek == IF op.k \in {"enc", "bin"} THEN DecPeek(d, op) ELSE 0
                okp == IF op.k \in {"enc", "bin"} THEN ValueMatches(op, x, peek) ELSE TRUE IN
            IF ~okp THEN [d |-> d, complete |-> FALSE,
                          res |-> Append(res, [v |-> peek, x |-> x, ok |-> FALSE, t |-> <<Tell(d), TellFrac(d), d.rng>>])]
            ELSE LET a == DecApply(d, op, x, x + w) IN
                 DecRun(a[1], opl, i + 1, o1, pb,
                        Append(res, [v |-> a[2], x |-> x, ok |-> ValueMatches(op, x, a[2]),
                                     t |-> <<Tell(a[1]), TellFrac(a[1]), a[1].rng>>]))
=============================================================================
