--------------------------- MODULE RangeCoder_mc ---------------------------
(***************************************************************************)
(* RCLink: the encoder of RangeCoder runs over an op list, ec_enc_done     *)
(* finishes the stream, the decoder runs over the produced buffer with the  *)
(* same op list.  Every op list up to depth Depth over the alphabet given   *)
(* by the configuration is a state (the list itself is a variable); the     *)
(* analysis of the finished stream is computed once per state into chk and  *)
(* the invariants read it.                                                  *)
(***************************************************************************)
EXTENDS RangeCoder, TLC, FiniteSets

CONSTANTS Sizes,        \* buffer sizes (in symbols)
          Depth,        \* maximal op list length
          EncOps,       \* set of <<fl,fh,ft>>
          BinOps,       \* set of <<fl,fh,bits>>
          LogpOps,      \* set of <<b,logp>>
          IcdfOps,      \* set of <<s,tableIndex,ftb>>
          UintOps,      \* set of <<v,ft>>
          BitsOps,      \* set of <<v,n>>
          PatchOps,     \* set of <<v,n>>
          ShrinkBy,     \* set of amounts by which Shrink reduces the storage
          EmitPerTag    \* how many op lists per coverage tag each worker prints (behaviour generation)

VARIABLES ops, enc, tr, chk

Tables == << <<1, 0>>, <<6, 3, 1, 0>>, <<15, 14, 1, 0>>, <<7, 6, 5, 4, 3, 2, 1, 0>>, <<12, 0>> >>


(***************************************************************************)
(* alphabets (selected by the configurations with  X <- Name)              *)
(* reduced width: ft <= 16, bits <= 4, logp <= 3, ftb <= 4, uniform ft <=   *)
(* 256, raw bits 1..5, patch 1..4 bits                                      *)
(***************************************************************************)
A_Enc == {<<0,1,2>>, <<1,2,2>>, <<0,1,3>>, <<1,2,3>>, <<2,3,3>>, <<0,2,3>>, <<0,1,5>>, <<2,3,5>>, <<4,5,5>>, <<1,4,5>>,
          <<0,1,16>>, <<7,8,16>>, <<15,16,16>>, <<1,15,16>>, <<0,1,1>>}
A_Bin == {<<0,1,1>>, <<1,2,1>>, <<0,1,2>>, <<3,4,2>>, <<1,3,2>>, <<0,1,4>>, <<9,10,4>>, <<15,16,4>>, <<14,16,4>>}
A_Logp == {<<0,1>>, <<1,1>>, <<0,2>>, <<1,2>>, <<0,3>>, <<1,3>>}
A_Icdf == {<<0,1,1>>, <<1,1,1>>, <<0,1,3>>, <<1,1,3>>, <<0,2,3>>, <<1,2,3>>, <<3,2,3>>, <<0,3,4>>, <<2,3,4>>, <<3,3,4>>, <<7,4,3>>, <<1,5,4>>}
A_Uint == {<<0,2>>, <<1,2>>, <<2,3>>, <<6,7>>, <<0,8>>, <<7,8>>, <<8,9>>, <<16,17>>, <<99,100>>, <<50,100>>, <<255,256>>, <<0,256>>, <<128,255>>}
A_Bits == {<<0,1>>, <<1,1>>, <<2,2>>, <<7,3>>, <<0,4>>, <<15,4>>, <<21,5>>, <<31,5>>, <<0,5>>}
A_Patch == {<<0,1>>, <<1,1>>, <<2,2>>, <<5,3>>, <<0,4>>, <<15,4>>}
\* a thin alphabet for deeper runs: the ops that build carries, runs of SYM_MAX, raw bits and collisions
B_Enc == {<<0,1,3>>, <<2,3,3>>, <<1,4,5>>}
B_Bin == {<<15,16,4>>, <<0,1,4>>, <<1,2,1>>}
B_Logp == {<<1,3>>, <<0,1>>}
B_Icdf == {<<3,2,3>>, <<0,3,4>>}
B_Uint == {<<99,100>>, <<255,256>>}
B_Bits == {<<21,5>>, <<15,4>>, <<1,1>>}
B_Patch == {<<2,2>>, <<15,4>>}
\* a narrow alphabet for deep runs: carries into runs of deferred SYM_MAX symbols
K_Enc == {<<1,4,5>>, <<2,3,3>>}
K_Bin == {<<15,16,4>>, <<0,1,4>>}
K_Logp == {<<0,1>>, <<1,3>>}
K_Bits == {<<21,5>>}
\* patches of every width issued after 0..3 coded bits of exact symbols and after an inexact one,
\* followed by more symbols
P_Enc == {<<0,1,3>>}
P_Bin == {<<1,2,2>>}
P_Logp == {<<0,1>>, <<1,1>>}
P_Patch == {<<1,1>>, <<2,2>>, <<5,3>>, <<10,4>>}
Empty == {}
\* every symbol of every small table (thorough)
C_Enc == {t \in (0..5) \X (1..5) \X {1, 2, 3, 5} : t[1] < t[2] /\ t[2] <= t[3]}
         \cup {t \in {0, 1, 8, 15} \X {1, 8, 15, 16} \X {16} : t[1] < t[2]}

D32 == INSTANCE RangeDec32      \* the overflow-safe decoder at the same (reduced) width

AllTags == {"collision", "collision_end", "carry", "carry_into_run", "run_no_carry", "patch_buf",
            "patch_rem", "patch_val", "patch_err", "patch_first_deferred", "patch_deferred_fixed", "shrink_moves", "bust", "bust_no_range_data",
            "bust_raw_truncated", "shared_last_byte",
            "op_enc", "op_bin", "op_logp", "op_icdf", "op_uint", "op_bits", "op_patch", "op_shrink",
            "decoder_error", "decoded_all"}

(***************************************************************************)
(* the overflow-safe decoder run next to the plain one                     *)
(***************************************************************************)
SameState(d, s) ==
  /\ s.rm + 1 = d.rng /\ s.val = d.val /\ s.rem = d.rem /\ s.offs = d.offs /\ s.nbits = d.nbits
  /\ s.err = d.err /\ D32!Tell(s) = Tell(d) /\ D32!TellFrac(s) = TellFrac(d)
  /\ D32!TellFracDef(s) = TellFrac(d)
  /\ s.rawpos = SYM_BITS * d.endOffs - d.nEnd \/ d.endOffs = d.storage   \* FIFO position (until zeros are appended)
RECURSIVE SafeRun(_, _, _, _, _, _)
SafeRun(buf, d, s, opl, res, i) ==
  \* d: plain decoder state before op i, s: safe decoder state; res: the DecRun results
  IF i > Len(res) THEN SameState(d, s)
  ELSE LET op == opl[i] IN
       IF ~IsCoding(op) THEN SafeRun(buf, d, s, opl, res, i + 1)
       ELSE IF ~res[i].ok /\ op.k \in {"enc", "bin"} THEN SameState(d, s)
       ELSE
       LET v == res[i].v
           \* the interval used for the update is the one DecRun used: it is recovered from the
           \* returned value only for unit-width ops; for wide ops DecRun used [x, x+w)
           dn == CASE op.k = "enc"  -> LET a == Decode(d, op.a[3])
                                           sa == D32!Decode(s, op.a[3])
                                           w == op.a[2] - op.a[1]
                                           x == res[i].x IN
                                       <<DecUpdate(a[1], x, x + w, op.a[3]), D32!Update(buf, sa[1], x, x + w, op.a[3]), a[2] = sa[2]>>
                  [] op.k = "bin"  -> LET a == DecodeBin(d, op.a[3])
                                          sa == D32!DecodeBin(s, op.a[3])
                                          w == op.a[2] - op.a[1]
                                          x == res[i].x IN
                                      <<DecUpdate(a[1], x, x + w, Pow2(op.a[3])), D32!Update(buf, sa[1], x, x + w, Pow2(op.a[3])), a[2] = sa[2]>>
                  [] op.k = "logp" -> LET a == DecBitLogp(d, op.a[2])  sa == D32!BitLogp(buf, s, op.a[2]) IN <<a[1], sa[1], a[2] = sa[2]>>
                  [] op.k = "icdf" -> LET a == DecIcdf(d, op.a[2], op.a[3])  sa == D32!Icdf(buf, s, op.a[2], op.a[3]) IN <<a[1], sa[1], a[2] = sa[2]>>
                  [] op.k = "uint" -> LET a == DecUint(d, op.a[2])  sa == D32!Uint(buf, s, 0, op.a[2]) IN <<a[1], sa[1], a[2] = sa[3] /\ sa[2] = 0>>
                  [] op.k = "bits" -> LET a == DecBits(d, op.a[2])  sa == D32!Bits(buf, s, op.a[2]) IN <<a[1], sa[1], a[2] = sa[2]>>
       IN dn[3] /\ SameState(dn[1], dn[2]) /\ SafeRun(buf, dn[1], dn[2], opl, res, i + 1)

(***************************************************************************)
(* analysis of one op list                                                 *)
(***************************************************************************)
Triple(s) == <<Tell(s), TellFrac(s), s.rng>>
RECURSIVE NonDecr(_, _, _)
NonDecr(seq, i, prev) == IF i > Len(seq) THEN TRUE ELSE seq[i] >= prev /\ NonDecr(seq, i + 1, seq[i])

Analyse(opl, e, etr) ==
  LET fin == Done(e)
      wf == PatchesWellFormed(opl)
      pb == PatchBits(opl, 1, NoPatch)
      d0 == DecInit(fin.buf, fin.storage)
      run == DecRun(d0, opl, 1, 0, pb, <<>>)
      res == run.res
      e0 == EncInit(Len(e.buf))
      premise == fin.err = 0 /\ wf
      \* regression variant (PATCH_FIX = FALSE): the premise that held before the repair
      premiseOld == premise /\ "patch_first_deferred" \notin fin.cov
      encFr == [i \in 1..Len(etr) |-> etr[i][2]]
      decFr == [i \in 1..Len(res) |-> res[i].t[2]]
      allT == {etr[i] : i \in 1..Len(etr)} \cup {res[i].t : i \in 1..Len(res)} \cup {Triple(e0), Triple(d0)}
      s0 == D32!Init(fin.buf, fin.storage)
  IN [ inverse   |-> premise => (run.complete /\ \A i \in 1..Len(res) : res[i].ok),
       inverseOld |-> premiseOld => (run.complete /\ \A i \in 1..Len(res) : res[i].ok),
       tellEqualOld |-> premiseOld => (Len(res) = Len(etr) /\ \A i \in 1..Len(res) : res[i].t = etr[i]),
       tellEqual |-> premise => (/\ Triple(d0) = Triple(e0)
                                 /\ Len(res) = Len(etr)
                                 /\ \A i \in 1..Len(res) : res[i].t = etr[i]),
       \* encoder-only ops leave the counters alone; Done leaves them alone
       tellStable |-> /\ \A i \in 1..Len(opl) : ~IsCoding(opl[i]) =>
                            etr[i] = (IF i = 1 THEN Triple(e0) ELSE etr[i - 1])
                      /\ Triple(fin) = Triple(e),
       fracMonotone |-> NonDecr(encFr, 1, TellFrac(e0)) /\ NonDecr(decFr, 1, TellFrac(d0)),
       fracVsWhole  |-> \A t \in allT : FracWholeRel(t[1], t[2]),
       rngNormalised |-> \A t \in allT : t[3] > CODE_BOT /\ t[3] <= CODE_TOP,
       noWriteOutside |-> ~fin.oob /\ \A j \in (fin.storage + 1)..Len(fin.buf) : fin.buf[j] = e.buf[j],
       \* finishing cannot fail: no error so far, tell within budget => no error after Done
       doneCannotFail |-> (e.err = 0 /\ Tell(e) <= SYM_BITS * e.storage) => fin.err = 0,
       \* stronger reading: within budget the only possible error is a refused patch
       budgetNoError  |-> (Tell(e) <= SYM_BITS * e.storage /\ "patch_err" \notin fin.cov) => fin.err = 0,
       patchRefused |-> PatchRefusedOK(e0, opl, 1),
       fracDef |-> TellFracDef(e) = TellFrac(e) /\ TellFracDef(d0) = TellFrac(d0),
       decValLtRng |-> run.d.val < run.d.rng,
       safeDec |-> SameState(d0, s0) /\ SafeRun(fin.buf, d0, s0, opl, res, 1),
       err |-> fin.err, wf |-> wf,
       \* coverage: encoder corners, op kinds in the list (vacuity guard), decoder outcomes
       cov |-> fin.cov \cup {"op_" \o opl[i].k : i \in 1..Len(opl)}
               \cup (IF run.d.err # 0 THEN {"decoder_error"} ELSE {})
               \cup (IF premise /\ run.complete /\ Len(opl) >= 2 THEN {"decoded_all"} ELSE {}),
       decErr |-> run.d.err,
       bytes |-> fin.offs + fin.endOffs ]

OpsOfKind ==
  [ enc   |-> {Op("enc", a) : a \in EncOps},
    bin   |-> {Op("bin", a) : a \in BinOps},
    logp  |-> {Op("logp", a) : a \in LogpOps},
    icdf  |-> {Op("icdf", <<a[1], Tables[a[2]], a[3]>>) : a \in IcdfOps},
    uint  |-> {Op("uint", a) : a \in UintOps},
    bits  |-> {Op("bits", a) : a \in BitsOps},
    patch |-> {Op("patch", a) : a \in PatchOps} ]

ASSUME \A k \in DOMAIN OpsOfKind : \A op \in OpsOfKind[k] : OpLegal(op)
\* every worker's registers start at 0 (emission limits)
ASSUME TLCSet(1, [t \in AllTags |-> 0])

Step(op) ==
  /\ Len(ops) < Depth
  /\ LET e1 == EncApply(enc, op)
         o1 == Append(ops, op)
         t1 == Append(tr, Triple(e1)) IN
     /\ ops' = o1 /\ enc' = e1 /\ tr' = t1
     /\ chk' = Analyse(o1, e1, t1)

DoEncode    == \E op \in OpsOfKind.enc   : Step(op)
DoEncodeBin == \E op \in OpsOfKind.bin   : Step(op)
DoBitLogp   == \E op \in OpsOfKind.logp  : Step(op)
DoIcdf      == \E op \in OpsOfKind.icdf  : Step(op)
DoUint      == \E op \in OpsOfKind.uint  : Step(op)
DoBits      == \E op \in OpsOfKind.bits  : Step(op)
DoPatch     == \E op \in OpsOfKind.patch : Step(op)
DoShrink    == \E by \in ShrinkBy : LET size == enc.storage - by IN
                  size >= 0 /\ ShrinkLegal(enc, size) /\ Step(Op("shrink", <<size>>))

Init == \E size \in Sizes :
          /\ ops = <<>> /\ enc = EncInit(size) /\ tr = <<>>
          /\ chk = Analyse(<<>>, EncInit(size), <<>>)
Next == DoEncode \/ DoEncodeBin \/ DoBitLogp \/ DoIcdf \/ DoUint \/ DoBits \/ DoPatch \/ DoShrink
Spec == Init /\ [][Next]_<<ops, enc, tr, chk>>

Inverse        == chk.inverse
InverseBeforeFix   == chk.inverseOld
TellEqualBeforeFix == chk.tellEqualOld
TellEqual      == chk.tellEqual
TellStable     == chk.tellStable
FracMonotone   == chk.fracMonotone
FracVsWhole    == chk.fracVsWhole
RngNormalised  == chk.rngNormalised
NoWriteOutside == chk.noWriteOutside
DoneCannotFail == chk.doneCannotFail
BudgetNoError  == chk.budgetNoError
PatchRefused   == chk.patchRefused
FracDefAgrees  == chk.fracDef
DecValLtRng    == chk.decValLtRng
SafeDecAgrees  == chk.safeDec
\* a successful encoder run decodes without the decoder's own error flag
NoDecErr       == (chk.err = 0 /\ chk.wf) => chk.decErr = 0

(***************************************************************************)
(* coverage / behaviour generation: each worker prints up to EmitPerTag op  *)
(* lists per coverage tag (carry into a run of deferred symbols, front/back *)
(* collision, bust, the three patch cases, shrink moving raw bytes ...).    *)
(* The printed lists are lifted to the real coder by the check.             *)
(***************************************************************************)
OpText(op) == <<op.k, op.a>>
Emit ==
  \A t \in chk.cov :
     LET c == TLCGet(1) IN
     IF c[t] < EmitPerTag
     THEN /\ TLCSet(1, [c EXCEPT ![t] = @ + 1])
          /\ PrintT(<<"COV", t, Len(enc.buf), chk.err, ToString([i \in 1..Len(ops) |-> OpText(ops[i])])>>)
     ELSE TRUE
=============================================================================
