----------------------------- MODULE RangeDec32 -----------------------------
(***************************************************************************)
(* The range DECODER and tell/tell_frac in overflow-safe form, so that TLC *)
(* (32-bit signed integers, overflow is fatal: rule R6) can evaluate it at  *)
(* the library's width (CODE_BITS, SYM_BITS, UINT_BITS, WINDOW, BITRES) =   *)
(* (32, 8, 8, 32, 3).                                                       *)
(*                                                                         *)
(*  - rng is stored as rm = rng-1  (rng in (2^23, 2^31]  =>  rm < 2^31)     *)
(*  - every product is ordered so that its mathematical value is < 2^31     *)
(*  - the raw-bit window (up to 32 bits) is not stored: the bits read from  *)
(*    the end of the buffer form a FIFO, so the value returned by           *)
(*    ec_dec_bits is a function of the number of raw bits consumed so far   *)
(*    (rawpos) and the buffer; bytes before the start of the buffer read 0  *)
(*  - ec_dec_uint works on 32-bit arguments given as two 16-bit halves      *)
(*                                                                         *)
(* The module is parametric: RangeCoder_mc instantiates it at the reduced   *)
(* width and checks that it agrees step for step with the plain            *)
(* transcription in RangeCoder (invariant SafeDecAgrees); RCTrace           *)
(* instantiates it at (32,8,8,32,3) to re-decode recorded buffers.          *)
(*                                                                         *)
(* The buffer is passed as an argument buf (sequence, C index i is          *)
(* buf[i+1]) and is not part of the decoder state, which stays small.       *)
(***************************************************************************)
EXTENDS Integers, Sequences

CONSTANTS CODE_BITS, SYM_BITS, UINT_BITS, WINDOW, BITRES

Pow2(n)   == 2 ^ n
RECURSIVE Ilog(_)
Ilog(x) == IF x = 0 THEN 0 ELSE 1 + Ilog(x \div 2)
Min(a, b) == IF a < b THEN a ELSE b

SYM_MAX    == Pow2(SYM_BITS) - 1
CODE_EXTRA == ((CODE_BITS - 2) % SYM_BITS) + 1
TOPM       == Pow2(CODE_BITS - 2) - 1 + Pow2(CODE_BITS - 2)      \* CODE_TOP-1 without forming 2^31
BOT        == Pow2(CODE_BITS - 1 - SYM_BITS)                       \* CODE_BOT

\* floor((rm+1)/d) without forming rm+1
DivP1(rm, d) == (rm \div d) + (IF rm % d = d - 1 THEN 1 ELSE 0)
\* ilog(rm+1)
IlogP1(rm) == IF rm = TOPM THEN CODE_BITS ELSE Ilog(rm + 1)

(***************************************************************************)
(* tell / tell_frac                                                        *)
(***************************************************************************)
\* top 16 bits of rng = rm+1 (rng >= 2^16 at full width; padded at reduced width)
Mant16P1(rm) ==
  LET lg == IlogP1(rm) IN
  IF lg >= 16 THEN DivP1(rm, Pow2(lg - 16)) ELSE (rm + 1) * Pow2(16 - lg)
Correction == <<35733, 38967, 42495, 46340, 50535, 55109, 60097, 65535>>
FracOfMant(r) == LET b == (r \div 4096) - 8 IN b + (IF r > Correction[b + 1] THEN 1 ELSE 0)
SqShr15(r) == LET h == r \div 256  lo == r % 256 IN 2 * h * h + ((512 * h * lo + lo * lo) \div 32768)
RECURSIVE FracIter(_, _, _)
FracIter(r, acc, i) == IF i = 0 THEN acc
                       ELSE LET q == SqShr15(r)  b == q \div 65536 IN
                            FracIter(q \div Pow2(b), 2 * acc + b, i - 1)
FracOfMantDef(r) == FracIter(r, 0, BITRES)

Tell(d)        == d.nbits - IlogP1(d.rm)
TellFrac(d)    == d.nbits * Pow2(BITRES) - (IlogP1(d.rm) * Pow2(BITRES) + FracOfMant(Mant16P1(d.rm)))
TellFracDef(d) == d.nbits * Pow2(BITRES) - (IlogP1(d.rm) * Pow2(BITRES) + FracOfMantDef(Mant16P1(d.rm)))
\* the same from raw arguments (used for the exhaustive sweep over constructed contexts)
TellFracOf(nbits, rm, table) ==
  nbits * Pow2(BITRES) - (IlogP1(rm) * Pow2(BITRES) +
                          (IF table THEN FracOfMant(Mant16P1(rm)) ELSE FracOfMantDef(Mant16P1(rm))))

\* TellFracFormula: for every value r of the top 16 bits of a range, the table-driven
\* ec_tell_frac equals the defining iterated squaring, and the fraction is in 0..2^BITRES-1
TellFracFormulaAt(r) == /\ FracOfMant(r) = FracOfMantDef(r)
                        /\ FracOfMant(r) >= 0 /\ FracOfMant(r) < Pow2(BITRES)
\* ... and it is monotone in r
TellFracMonoAt(r) == r = 32768 \/ FracOfMant(r - 1) <= FracOfMant(r)

(***************************************************************************)
(* decoder state: [rm, val, rem, ext, offs, rawpos, nbits, err, storage]   *)
(***************************************************************************)
RECURSIVE Normalize(_, _)
Normalize(buf, d) ==
  IF d.rm < BOT        \* rng <= CODE_BOT
  THEN LET b == IF d.offs < d.storage THEN buf[d.offs + 1] ELSE 0
           o1 == IF d.offs < d.storage THEN d.offs + 1 ELSE d.offs
           sym == (d.rem * Pow2(SYM_BITS) + b) \div Pow2(SYM_BITS - CODE_EXTRA)
           nsym == SYM_MAX - (sym % Pow2(SYM_BITS))
           v1 == (d.val * Pow2(SYM_BITS) + nsym)                  \* val < rng <= 2^(CODE_BITS-1-SYM_BITS)
       IN Normalize(buf, [d EXCEPT !.nbits = d.nbits + SYM_BITS,
                                 !.rm = d.rm * Pow2(SYM_BITS) + SYM_MAX,
                                 !.rem = b, !.offs = o1,
                                 !.val = IF v1 > TOPM THEN v1 - TOPM - 1 ELSE v1])
  ELSE d

Init(buf, storage) ==
  LET b == IF 0 < storage THEN buf[1] ELSE 0
      d0 == [rm |-> Pow2(CODE_EXTRA) - 1, val |-> Pow2(CODE_EXTRA) - 1 - (b \div Pow2(SYM_BITS - CODE_EXTRA)),
             rem |-> b, ext |-> 0, offs |-> IF 0 < storage THEN 1 ELSE 0, rawpos |-> 0,
             nbits |-> CODE_BITS + 1 - ((CODE_BITS - CODE_EXTRA) \div SYM_BITS) * SYM_BITS,
             err |-> 0, storage |-> storage]
  IN Normalize(buf, d0)

\* ec_decode: <<d', fs>>     (ft <= 2^16 at full width)
Decode(d, ft) ==
  IF ft = 1 THEN <<[d EXCEPT !.ext = -1], 0>>      \* ext = rng (may be 2^31: not formed), s = 0
  ELSE LET ext == DivP1(d.rm, ft)  s == d.val \div ext IN
       <<[d EXCEPT !.ext = ext], ft - Min(s + 1, ft)>>
DecodeBin(d, bits) == Decode(d, Pow2(bits))       \* rng>>bits = rng/2^bits
\* ec_dec_update:  ext*(ft-fh) < rng,  ext*(fh-fl) <= rng and = rng only if fl = 0
Update(buf, d, fl, fh, ft) ==
  LET s == IF ft = fh THEN 0 ELSE d.ext * (ft - fh) IN
  Normalize(buf, [d EXCEPT !.val = d.val - s,
                         !.rm = IF fl > 0 THEN d.ext * (fh - fl) - 1 ELSE d.rm - s])
\* ec_dec_bit_logp: <<d', bit>>
BitLogp(buf, d, logp) ==
  LET s == DivP1(d.rm, Pow2(logp))  ret == d.val < s IN
  <<Normalize(buf, [d EXCEPT !.val = IF ret THEN d.val ELSE d.val - s,
                           !.rm = IF ret THEN s - 1 ELSE d.rm - s]),
    IF ret THEN 1 ELSE 0>>
\* ec_dec_icdf / ec_dec_icdf16: <<d', symbol>>;  k 0-based, tm1 = (previous s) - 1
RECURSIVE IcdfSearch(_, _, _, _, _)
IcdfSearch(r, dval, tbl, k, tm1) ==
  LET s == r * tbl[k + 1] IN
  IF dval < s /\ k + 1 < Len(tbl) THEN IcdfSearch(r, dval, tbl, k + 1, s - 1) ELSE <<k, tm1, s>>
Icdf(buf, d, tbl, ftb) ==
  LET r == DivP1(d.rm, Pow2(ftb))
      f == IcdfSearch(r, d.val, tbl, 0, d.rm) IN
  <<Normalize(buf, [d EXCEPT !.val = d.val - f[3], !.rm = f[2] - f[3]]), f[1]>>

\* raw bits: bit q of the stream read from the end is bit q%SYM_BITS of the (q \div SYM_BITS)-th
\* byte from the end, 0 beyond the start of the buffer
RawByte(buf, storage, j) == IF j < storage THEN buf[storage - j] ELSE 0
RECURSIVE RawBits(_, _, _, _)
RawBits(buf, storage, q, n) ==        \* value of n bits starting at stream position q (n <= 25)
  IF n = 0 THEN 0
  ELSE LET inb == q % SYM_BITS
           take == Min(n, SYM_BITS - inb)
           part == (RawByte(buf, storage, q \div SYM_BITS) \div Pow2(inb)) % Pow2(take) IN
       part + Pow2(take) * RawBits(buf, storage, q + take, n - take)
Bits(buf, d, n) ==
  <<[d EXCEPT !.rawpos = d.rawpos + n, !.nbits = d.nbits + n], RawBits(buf, d.storage, d.rawpos, n)>>

\* ec_dec_uint with ft = fth*2^16 + ftl (2 <= ft <= 2^32-1): <<d', vh, vl>>, value = vh*2^16+vl
\* (at reduced width pass fth = 0)
Uint(buf, d, fth, ftl) ==
  LET mh == IF ftl = 0 THEN fth - 1 ELSE fth          \* ft-1 as halves
      ml == IF ftl = 0 THEN 65535 ELSE ftl - 1
      ftb == IF mh > 0 THEN 16 + Ilog(mh) ELSE Ilog(ml) IN
  IF ftb > UINT_BITS
  THEN LET b == ftb - UINT_BITS                        \* 1..24 raw bits
           \* (ft-1) >> b
           top == IF mh > 0
                  THEN (mh * Pow2(UINT_BITS) + (ml \div Pow2(16 - UINT_BITS))) \div Pow2(Ilog(mh))
                  ELSE ml \div Pow2(b)
           t == top + 1
           a == Decode(d, t)
           d1 == Update(buf, a[1], a[2], a[2] + 1, t)
           c == Bits(buf, d1, b)
           s == a[2]
           \* value = s<<b | raw, as halves
           vh == IF b <= 16 THEN (s * Pow2(b) + c[2]) \div 65536 ELSE s * Pow2(b - 16) + (c[2] \div 65536)
           vl == IF b <= 16 THEN (s * Pow2(b) + c[2]) % 65536 ELSE c[2] % 65536
           inrange == vh < mh \/ (vh = mh /\ vl <= ml) IN
       IF inrange THEN <<c[1], vh, vl>> ELSE <<[c[1] EXCEPT !.err = 1], mh, ml>>
  ELSE LET a == Decode(d, ml + 1) IN <<Update(buf, a[1], a[2], a[2] + 1, ml + 1), 0, a[2]>>

\* rng = rm+1 as two 16-bit halves <<hi, lo>> (hi can be 32768 when rng = 2^31)
RngHalves(rm) == <<(rm \div 65536) + (IF rm % 65536 = 65535 THEN 1 ELSE 0), ((rm % 65536) + 1) % 65536>>
=============================================================================
