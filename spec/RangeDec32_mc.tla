--------------------------- MODULE RangeDec32_mc ---------------------------
(* TellFracFormula: for all 32768 values r of the top 16 bits of a range, the   *)
(* table-driven ec_tell_frac (correction[]) equals the defining computation      *)
(* (BITRES iterated squarings, products split so that they stay below 2^31),     *)
(* lies in 0..2^BITRES-1 and is monotone in r.                                   *)
EXTENDS RangeDec32, TLC
VARIABLE r
Init == r \in 32768..65535
Next == UNCHANGED r
Spec == Init /\ [][Next]_r
TellFracFormula == TellFracFormulaAt(r)
TellFracMonotone == TellFracMonoAt(r)
\* the whole counter on a constructed context: tell = ceil(tell_frac/8) for every magnitude
TellFracVsTell == \A l \in 24..31 :
                     LET rm == r * (2 ^ (l - 16)) - 1
                         tf == TellFracOf(40, rm, TRUE)  t == 40 - IlogP1(rm) IN
                     8 * (t - 1) < tf /\ tf <= 8 * t /\ tf = TellFracOf(40, rm, FALSE)
=============================================================================
