--------------------------- MODULE RangeDec32_mc ---------------------------
(* TellFracFormula: for all 32768 values r of the top 16 bits of a range, the   *)
(* table-driven ec_tell_frac (correction[]) equals the defining computation      *)
(* (BITRES iterated squarings, products split so that they stay below 2^31),     *)
(* lies in 0..2^BITRES-1 and is monotone in r.                                   *)
EXTENDS RangeDec32, TLC
VARIABLE mant
\* one initial state, one step that fans out (TLC enumerates initial states single-threaded)
MInit == mant = 65535
Next == mant = 65535 /\ mant' \in 32768..65534
Spec == MInit /\ [][Next]_mant
TellFracFormula == TellFracFormulaAt(mant)
TellFracMonotone == TellFracMonoAt(mant)
\* the whole counter on a constructed context: tell = ceil(tell_frac/8) for every magnitude
TellFracVsTell == \A lg \in 24..31 :
                     LET rm == mant * (2 ^ (lg - 16)) - 1
                         tf == TellFracOf(40, rm, TRUE)  t == 40 - IlogP1(rm) IN
                     8 * (t - 1) < tf /\ tf <= 8 * t /\ tf = TellFracOf(40, rm, FALSE)
=============================================================================
