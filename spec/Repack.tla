------------------------------- MODULE Repack -------------------------------
(***************************************************************************)
(* The repacketizer (opus_repacketizer_init / _cat / _out_range / _out /    *)
(* _get_nb_frames) and the stateless opus_packet_pad / _unpad and           *)
(* opus_multistream_packet_pad / _unpad, as property C07 describes them.     *)
(*                                                                         *)
(* State  rp = [cfg, frames, pads]                                          *)
(*   cfg     toc \div 4 of the first packet accepted since init (-1: none)   *)
(*   frames  sequence of [fid, len]: fid is a ghost identity of the frame's  *)
(*           payload bytes, so that "byte for byte, in order" is a statement *)
(*           about identities                                               *)
(*   pads    one padding record per frame: [n, d] with n = number of frames   *)
(*           of the packet the frame came from and d = its raw padding bytes *)
(*           for the first frame of every accepted packet, NoPad for others  *)
(*                                                                         *)
(* A wire packet is a Framing packet [hdr, len, fill] plus the ghosts        *)
(* fids (identities of its frames in order) and padb (its padding bytes).   *)
(*                                                                         *)
(* Written from the API documentation (include/opus.h) and RFC 6716, not     *)
(* from the control flow of src/repacketizer.c.  Extension semantics come    *)
(* from module Ext.                                                         *)
(***************************************************************************)
EXTENDS Framing, FiniteSets
E == INSTANCE Ext

NoPad   == [n |-> 0, d |-> <<>>]
EmptyRp == [cfg |-> -1, frames |-> <<>>, pads |-> <<>>]

SzBytes(s) == IF s < 252 THEN 1 ELSE 2
AllEq(sizes) == \A i \in 1..Len(sizes) : sizes[i] = sizes[1]
SizesOf(fs) == [i \in 1..Len(fs) |-> fs[i].len]
FidsOf(fs)  == [i \in 1..Len(fs) |-> fs[i].fid]

RECURSIVE EncSizes(_)
EncSizes(s) == IF s = <<>> THEN <<>> ELSE EncSize(Head(s)) \o EncSizes(Tail(s))

(* RFC 6716 3.2.5: a total of A >= 1 bytes of padding *including* the length *)
(* bytes is coded as k bytes 255 (each standing for 254 padding bytes and    *)
(* one more length byte) and a final byte A - 255k - 1.                      *)
PadChain(A) == IF A = 0 THEN <<>>
               ELSE LET k == (A - 1) \div 255 IN Rep(k, 255) \o <<A - 255 * k - 1>>

(* Enc: the encoding of frames `sizes` under configuration cfg (= toc \div 4)*)
(* sd: self-delimited; A: total padding amount (length bytes included);     *)
(* force3: use code 3 even where a shorter code exists.                      *)
(* With A = 0 and ~force3 this is the canonical (shortest) encoding:        *)
(* 1 frame -> code 0; 2 equal -> code 1; 2 unequal -> code 2; otherwise     *)
(* code 3, CBR iff all sizes are equal.                                     *)
Enc(cfg, sizes, sd, A, force3) ==
  LET n    == Len(sizes)
      t0   == cfg * 4
      sdb  == IF sd THEN EncSize(sizes[n]) ELSE <<>>
      tot  == SumSeq(sizes)
      eq   == AllEq(sizes)
      low  == ~force3 /\ A = 0 IN
  IF low /\ n = 1 THEN [hdr |-> <<t0>> \o sdb, len |-> 1 + Len(sdb) + tot, pad |-> 0]
  ELSE IF low /\ n = 2 /\ eq THEN [hdr |-> <<t0 + 1>> \o sdb, len |-> 1 + Len(sdb) + tot, pad |-> 0]
  ELSE IF low /\ n = 2 THEN
       LET h == <<t0 + 2>> \o EncSize(sizes[1]) \o sdb IN [hdr |-> h, len |-> Len(h) + tot, pad |-> 0]
  ELSE LET b2    == n + (IF eq THEN 0 ELSE 128) + (IF A > 0 THEN 64 ELSE 0)
           chain == PadChain(A)
           lens  == IF eq THEN <<>> ELSE EncSizes(SubSeq(sizes, 1, n - 1))
           h     == <<t0 + 3, b2>> \o chain \o lens \o sdb IN
       [hdr |-> h, len |-> Len(h) + tot + (A - Len(chain)), pad |-> A - Len(chain)]

Canon(cfg, sizes, sd) == Enc(cfg, sizes, sd, 0, FALSE)

-----------------------------------------------------------------------------
(* cat *)
CatAccepts(rp, pk) ==
  LET r == Parse(pk, FALSE) IN
  /\ r.ok                                                     \* a valid packet
  /\ (rp.frames = <<>> \/ rp.cfg = r.toc \div 4)              \* same configuration bits
  /\ (Len(rp.frames) + r.count) * Dur48(r.toc) <= MaxDur48    \* at most 120 ms in total

CatResult(rp, pk) ==
  IF ~CatAccepts(rp, pk) THEN rp                               \* rejection leaves the contents unchanged
  ELSE LET r == Parse(pk, FALSE) IN
       [cfg    |-> IF rp.frames = <<>> THEN r.toc \div 4 ELSE rp.cfg,
        frames |-> rp.frames \o [i \in 1..r.count |-> [fid |-> pk.fids[i], len |-> r.sizes[i]]],
        pads   |-> rp.pads \o <<[n |-> r.count, d |-> pk.padb]>> \o Rep(r.count - 1, NoPad)]

-----------------------------------------------------------------------------
(* selections [b, e) (0-based, e exclusive) *)
RangeOK(rp, b, e) == 0 <= b /\ b < e /\ e <= Len(rp.frames)
Sel(rp, b, e) == SubSeq(rp.frames, b + 1, e)

\* 1-based index of the first frame of the packet that frame i (1-based) came from
SrcStart(rp, i) == CHOOSE j \in 1..i : rp.pads[j].n > 0 /\ \A k \in (j + 1)..i : rp.pads[k].n = 0

PadParse(pr) == E!ParseRaw(pr.d, pr.n)
PadContents(pr) == E!ExtContents(pr.d, pr.n)          \* sequence of [id, frame, data]
Strip(list) == [i \in 1..Len(list) |-> [id |-> list[i].id, data |-> list[i].data]]

\* a selected frame comes from a packet whose padding is not a well-formed extension list
\* (such a packet is valid RFC 6716 framing; its padding carries nothing)
SelBadExt(rp, b, e) == \E i \in (b + 1)..e : ~PadParse(rp.pads[SrcStart(rp, i)]).ok

(* What the selected frame k (0-based within the selection) carries: the    *)
(* extensions its source packet attaches to it, in bitstream order -- also   *)
(* when the selection cuts that packet (original frame j of a packet whose   *)
(* first frame sits at position p goes to output frame p + j - b and is kept *)
(* iff b <= p + j < e).  Malformed padding carries nothing.                  *)
NaturalExts(rp, b, k) ==
  LET i == b + 1 + k
      j == SrcStart(rp, i)
      pr == rp.pads[j] IN
  IF ~PadParse(pr).ok THEN <<>>
  ELSE Strip(E!ExtsOfFrame(PadContents(pr), i - j))

\* all extensions the model output carries: [id, frame, data], frame order
RECURSIVE CarriedFrom(_, _, _, _)
CarriedFrom(rp, b, k, cnt) ==
  IF k >= cnt THEN <<>>
  ELSE LET x == NaturalExts(rp, b, k) IN
       [i \in 1..Len(x) |-> [id |-> x[i].id, frame |-> k, data |-> x[i].data]] \o CarriedFrom(rp, b, k + 1, cnt)
Carried(rp, b, e) == CarriedFrom(rp, b, 0, e - b)
\* the selection carries at least one extension
SelHasExt(rp, b, e) == Carried(rp, b, e) # <<>>

\* least total padding amount whose padding bytes hold L bytes of extensions
AmountFor(L) == CHOOSE A \in (L + 1)..(L + L \div 254 + 2) :
                   /\ A - Len(PadChain(A)) >= L
                   /\ \A B \in (L + 1)..(A - 1) : B - Len(PadChain(B)) < L

(* The model's output for a valid range: the canonical encoding when nothing *)
(* is carried, otherwise code 3 with the carried extensions in the padding   *)
(* (after as many 0x01 bytes as the length coding forces).                   *)
OutModel(rp, b, e) ==
  LET sel == Sel(rp, b, e)
      car == Carried(rp, b, e) IN
  IF car = <<>> THEN
     LET c == Canon(rp.cfg, SizesOf(sel), FALSE) IN
     [hdr |-> c.hdr, len |-> c.len, fill |-> 0, fids |-> FidsOf(sel), padb |-> <<>>, sizes |-> SizesOf(sel)]
  ELSE
     LET xb == E!GenCanon(car, e - b)
         A  == AmountFor(Len(xb))
         c  == Enc(rp.cfg, SizesOf(sel), FALSE, A, TRUE) IN
     [hdr |-> c.hdr, len |-> c.len, fill |-> 0, fids |-> FidsOf(sel),
      padb |-> Rep(c.pad - Len(xb), 1) \o xb, sizes |-> SizesOf(sel)]

OutRange(rp, b, e, maxlen) ==
  IF ~RangeOK(rp, b, e) THEN [ret |-> BAD_ARG]
  ELSE LET o == OutModel(rp, b, e) IN
       IF o.len <= maxlen THEN [ret |-> o.len, out |-> o] ELSE [ret |-> BUFFER_TOO_SMALL]
Out(rp, maxlen) == OutRange(rp, 0, Len(rp.frames), maxlen)
GetNbFrames(rp) == Len(rp.frames)

(* exact size of the output when the selection carries nothing              *)
NeedPlain(rp, b, e) == Canon(rp.cfg, SizesOf(Sel(rp, b, e)), FALSE).len

(* An upper bound on the size of any sensible encoding of a selection that  *)
(* carries extensions: code 3, every extension with its own separator, id   *)
(* byte and laced length, one spare byte per extension, padding length bytes.*)
RECURSIVE NaiveExtBytes(_)
NaiveExtBytes(list) ==
  IF list = <<>> THEN 0
  ELSE LET d == Len(Head(list).data) IN 2 + 1 + (d \div 255 + 1) + d + 1 + NaiveExtBytes(Tail(list))
RECURSIVE SumData(_)
SumData(list) == IF list = <<>> THEN 0 ELSE Len(Head(list).data) + SumData(Tail(list))
NeedUpper(rp, b, e) ==
  LET x == NaiveExtBytes(Carried(rp, b, e)) IN
  Enc(rp.cfg, SizesOf(Sel(rp, b, e)), FALSE, 0, TRUE).len + x + x \div 254 + 2
\* and a lower bound: code 3, one padding length byte, one id byte, every payload byte
NeedLower(rp, b, e) ==
  Enc(rp.cfg, SizesOf(Sel(rp, b, e)), FALSE, 0, TRUE).len + 2 + SumData(Carried(rp, b, e))

-----------------------------------------------------------------------------
(* stateless: pad, unpad and their multistream forms.  pk is a wire packet,  *)
(* sd tells whether it is self-delimited (all but the last stream).          *)
UnpadModel(pk, sd) ==
  LET r == Parse(pk, sd) IN
  IF ~r.ok THEN [ok |-> FALSE]
  ELSE LET c == Canon(r.toc \div 4, r.sizes, sd) IN
       [ok |-> TRUE, hdr |-> c.hdr, len |-> c.len, fill |-> 0, fids |-> pk.fids, padb |-> <<>>]

\* base: size of the unpadded code-3 encoding; every n >= base is reachable
PadBase(pk) == LET r == Parse(pk, FALSE) IN Enc(r.toc \div 4, r.sizes, FALSE, 0, TRUE).len
PadModel(pk, n) ==
  LET r == Parse(pk, FALSE) IN
  IF ~r.ok \/ n < pk.len THEN [ok |-> FALSE]
  ELSE IF n = pk.len THEN [ok |-> TRUE, hdr |-> pk.hdr, len |-> pk.len, fill |-> pk.fill, fids |-> pk.fids]
  ELSE LET c == Enc(r.toc \div 4, r.sizes, FALSE, n - PadBase(pk), TRUE) IN
       [ok |-> TRUE, hdr |-> c.hdr, len |-> c.len, fill |-> 0, fids |-> pk.fids]

\* same frames: sizes, identities and configuration bits
SameFrames(pk, sd1, q, sd2) ==
  LET a == Parse(pk, sd1)  c == Parse(q, sd2) IN
  /\ a.ok /\ c.ok /\ a.sizes = c.sizes /\ a.toc \div 4 = c.toc \div 4 /\ pk.fids = q.fids

-----------------------------------------------------------------------------
(* Growth: the internal entry points with all their parameters.             *)
(*  - opus_repacketizer_out_range_impl(rp, b, e, data, maxlen, sd, pad,      *)
(*    extensions): self-delimited output (what multistream uses) and padding *)
(*    up to exactly maxlen                                                  *)
(*  - opus_packet_pad_impl(data, len, new_len, pad, extensions): padding     *)
(*    that ADDS extensions (the encoder's DRED path)                         *)
(* An extension list is a sequence of [id, frame, data].                     *)

\* EncWithExts: frames `sizes` carrying the extensions `list`; total = 0 asks for the minimal
\* encoding, total > 0 for exactly that many bytes.  [ok |-> FALSE] when it cannot be done.
EncWithExts(cfg, sizes, sd, list, total) ==
  LET n     == Len(sizes)
      canon == Canon(cfg, sizes, sd)
      base3 == Enc(cfg, sizes, sd, 0, TRUE).len IN
  IF list = <<>> THEN
     IF total = 0 \/ total = canon.len THEN [ok |-> TRUE, hdr |-> canon.hdr, len |-> canon.len, padb |-> <<>>]
     ELSE IF total < base3 THEN [ok |-> FALSE]
     ELSE LET c == Enc(cfg, sizes, sd, total - base3, TRUE) IN
          [ok |-> TRUE, hdr |-> c.hdr, len |-> c.len, padb |-> Rep(c.pad, 0)]
  ELSE
     LET xb == E!GenCanon(list, n)
         A  == IF total = 0 THEN AmountFor(Len(xb)) ELSE total - base3 IN
     IF A < 1 THEN [ok |-> FALSE]
     ELSE LET c == Enc(cfg, sizes, sd, A, TRUE) IN
          IF c.pad < Len(xb) THEN [ok |-> FALSE]
          ELSE [ok |-> TRUE, hdr |-> c.hdr, len |-> c.len, padb |-> Rep(c.pad - Len(xb), 1) \o xb]

\* size bounds of any sensible encoding of frames + extensions (generator contract: the generator
\* may use repeats/short forms, never more than the naive form)
ExtUpper(cfg, sizes, sd, list) ==
  LET x == NaiveExtBytes(list) IN Enc(cfg, sizes, sd, 0, TRUE).len + x + x \div 254 + 2
ExtLower(cfg, sizes, sd, list) == Enc(cfg, sizes, sd, 0, TRUE).len + 2 + SumData(list)

\* out_range_impl: selection [b,e), self-delimited or not, padded to maxlen or not, plus added extensions
OutModelX(rp, b, e, sd, total, added) ==
  LET sel == Sel(rp, b, e)
      o   == EncWithExts(rp.cfg, SizesOf(sel), sd, Carried(rp, b, e) \o added, total) IN
  IF ~o.ok THEN o
  ELSE [ok |-> TRUE, hdr |-> o.hdr, len |-> o.len, fill |-> 0, fids |-> FidsOf(sel), padb |-> o.padb]

\* the extensions a wire packet carries (malformed padding carries nothing)
PkExts(pk, cnt) == LET x == E!ParseRaw(pk.padb, cnt) IN IF x.ok THEN E!XContentsOf(pk.padb, x.exts) ELSE <<>>

\* opus_packet_pad_impl with new_len > len
PadWithExt(pk, n, pad, list) ==
  LET r == Parse(pk, FALSE) IN
  IF ~r.ok \/ n <= pk.len \/ ~E!GenArgsLegal(list, r.count) THEN [ok |-> FALSE]
  ELSE LET o == EncWithExts(r.toc \div 4, r.sizes, FALSE, PkExts(pk, r.count) \o list, IF pad THEN n ELSE 0) IN
       IF ~o.ok \/ o.len > n THEN [ok |-> FALSE]
       ELSE [ok |-> TRUE, hdr |-> o.hdr, len |-> o.len, fill |-> 0, fids |-> pk.fids, padb |-> o.padb]

\* per frame k: what an output may hold when `own` were carried and `added` were passed in
\* (each list keeps its order; which of the two comes first within a frame is left open)
FrameExtsOK(got, own, added, k) ==
  LET g == Strip(E!ExtsOfFrame(got, k))
      a == Strip(E!ExtsOfFrame(own, k))
      c == Strip(E!ExtsOfFrame(added, k)) IN
  g = a \o c \/ g = c \o a
=============================================================================
