---------------------------- MODULE RepackTrace ----------------------------
(***************************************************************************)
(* Validation of recorded executions of the real repacketizer / pad / unpad *)
(* calls (harness/repack.c) against module Repack.  Stateful: cursor l walks *)
(* the NDJSON trace, rp is the model's repacketizer contents.  The model is  *)
(* a function of the event (the ghost identities travel in the events), so   *)
(* every event is judged and the walk continues; every event that breaks an *)
(* obligation is printed as                                                 *)
(*   <<"REJECTED_AT", line, "{names of the broken obligations}", facts>>     *)
(* facts = <<selection carries extensions, selection touches a packet with   *)
(* malformed extension padding, 0>> (0/1).                                   *)
(*                                                                         *)
(* The real bytes are judged by the model's own parser: the logged header    *)
(* bytes of every output go through Framing!Parse, the logged raw padding    *)
(* bytes through Ext!ParseRaw; the frame table the harness recovered from    *)
(* the output payload (offset, length, identity, intact) must be the table   *)
(* that parse implies for the selected frames.                              *)
(***************************************************************************)
EXTENDS Repack, Json, IOUtils, TLC
VARIABLES l, rp

Tr == ndJsonDeserialize(IOEnv.TRACE)

Pk(h, n) == [hdr |-> h, len |-> n, fill |-> 0]
\* the identity as far as a payload of L bytes can show it (bytes 0,1 carry the fid)
FidView(f, L) == IF L = 0 THEN 0 ELSE IF L = 1 THEN f % 256 ELSE f
Fails(obs) == {obs[i][1] : i \in {k \in 1..Len(obs) : ~obs[k][2]}}
B(x) == IF x THEN 1 ELSE 0
\* raw padding bytes of a logged packet (all-zero padding is logged as a count only; it
\* carries no extension, like the empty string)
PadB(z, d) == IF z = 1 THEN <<>> ELSE d
IsPrefixOf(s, t) == Len(s) <= Len(t) /\ SubSeq(t, 1, Len(s)) = s

\* input table rows <<off, len, fid>>: what the harness put into the packet it submitted
InTableOK(tab, r, base) ==
  LET fo == FrameOffsets(r.off, r.sizes) IN
  /\ Len(tab) = r.count
  /\ \A i \in 1..r.count : tab[i][1] = base + fo[i] /\ tab[i][2] = r.sizes[i]
InFids(tab, cnt) == [i \in 1..cnt |-> IF i <= Len(tab) THEN tab[i][3] ELSE 0]
\* output table rows <<off, len, recovered fid, intact>> against a parse q and expected identities
OutTableOK(tab, q, fids, base) ==
  LET fo == FrameOffsets(q.off, q.sizes) IN
  /\ Len(tab) = q.count /\ Len(fids) = q.count
  /\ \A i \in 1..q.count :
        /\ tab[i][1] = base + fo[i]
        /\ tab[i][2] = q.sizes[i]
        /\ tab[i][3] = FidView(fids[i], q.sizes[i])
        /\ tab[i][4] = 1

Res(newrp, obs, facts) == [rp |-> newrp, fails |-> Fails(obs), facts |-> facts]
NoFacts == <<0, 0, 0>>

-----------------------------------------------------------------------------
CatJ(e) ==
  LET pk   == Pk(e.h, e.n)
      r    == Parse(pk, FALSE)
      wire == [hdr |-> e.h, len |-> e.n, fill |-> 0,
               fids |-> IF r.ok THEN InFids(e.fr, r.count) ELSE <<>>,
               padb |-> PadB(e.pdz, e.pd)]
      acc  == CatAccepts(rp, wire)
      new  == CatResult(rp, wire) IN
  Res(new,
      << <<"HarnessConsistent", r.ok => (InTableOK(e.fr, r, 0) /\ e.pdn = r.pad)>>,
         <<"CatAcceptsIffValidCompatibleWithin120ms", (e.ret = 0) = acc /\ e.ret <= 0>>,
         <<"RejectKeeps_GetNbFrames", e.nb = Len(new.frames)>> >>,
      NoFacts)

OutJ(e) ==
  LET n  == Len(rp.frames)
      b  == IF e.all = 1 THEN 0 ELSE e.b
      ee == IF e.all = 1 THEN n ELSE e.e IN
  IF ~RangeOK(rp, b, ee)
  THEN Res(rp, << <<"BadRangeRefused", e.ret < 0>>, <<"Canary", e.can = 1>>,
                  <<"GetNbFrames", e.nb = n>> >>, NoFacts)
  ELSE
  LET cnt   == ee - b
      sel   == Sel(rp, b, ee)
      has   == SelHasExt(rp, b, ee)
      bad   == SelBadExt(rp, b, ee)
      plain == NeedPlain(rp, b, ee)
      upper == IF has THEN NeedUpper(rp, b, ee) ELSE plain
      facts == <<B(has), B(bad), 0>> IN
  IF e.ret < 0
  THEN Res(rp, << <<"RefusedOnlyWhenMaxlenTooSmall", e.m < upper>>,
                  <<"Suff1277", e.m < 1277 * cnt>>,
                  <<"Canary", e.can = 1>>,
                  <<"GetNbFrames", e.nb = n>> >>, facts)
  ELSE
  LET q  == Parse(Pk(e.h, e.ret), FALSE)
      pd == PadB(e.pdz, e.pd)
      x  == E!ParseRaw(pd, cnt)
      xc == E!XContentsOf(pd, x.exts) IN
  Res(rp, << <<"OutFits", e.ret >= 1 /\ e.ret <= e.m>>,
             <<"ExactSize", IF has THEN e.ret >= NeedLower(rp, b, ee) /\ e.ret <= upper ELSE e.ret = plain>>,
             <<"OutReparses", /\ q.ok
                              /\ q.toc \div 4 = rp.cfg
                              /\ q.sizes = SizesOf(sel)
                              /\ OutTableOK(e.fr, q, FidsOf(sel), 0)
                              /\ e.pdn = q.pad>>,
             <<"OutExtensionsWellFormed", x.ok>>,
             \* every selected frame carries exactly the extensions its source packet gave it,
             \* whether or not the range cuts that packet; nothing else is carried
             <<"ExtCarried", x.ok => /\ \A k \in 0..(cnt - 1) : Strip(E!ExtsOfFrame(xc, k)) = NaturalExts(rp, b, k)
                                     /\ Len(xc) = Len(Carried(rp, b, ee))>>,
             <<"Canary", e.can = 1>>,
             <<"GetNbFrames", e.nb = n>> >>, facts)

-----------------------------------------------------------------------------
(* stateless: pad / unpad *)
PadJ(e) ==
  LET p == Parse(Pk(e.h, e.n), FALSE) IN
  IF e.n < 1 \/ e.nn < e.n THEN Res(rp, << <<"PadBadArgRefused", e.ret < 0>>, <<"Canary", e.can = 1>> >>, NoFacts)
  ELSE IF ~p.ok THEN Res(rp, << <<"PadInvalidRefused", IF e.nn = e.n THEN e.ret <= 0 ELSE e.ret < 0>>,
                                <<"Canary", e.can = 1>> >>, NoFacts)
  ELSE
  LET pin == PadB(e.pdz, e.pd)
      xin == E!ParseRaw(pin, p.count)
      q   == Parse(Pk(e.oh, e.nn), FALSE)
      po  == PadB(e.opdz, e.opd)
      xo  == E!ParseRaw(po, p.count) IN
  Res(rp, << <<"HarnessConsistent", InTableOK(e.fr, p, 0) /\ e.pdn = p.pad>>,
             <<"PadSucceeds", e.ret = 0>>,
             <<"PadExact", e.ret = 0 => /\ q.ok
                                        /\ q.toc \div 4 = p.toc \div 4
                                        /\ q.sizes = p.sizes
                                        /\ OutTableOK(e.ofr, q, InFids(e.fr, p.count), 0)
                                        /\ e.opdn = q.pad>>,
             <<"PadKeepsExtensions", (e.ret = 0 /\ e.nn > e.n) =>
                   /\ xo.ok
                   /\ E!StableSortByFrame(E!XContentsOf(po, xo.exts), p.count)
                        = (IF xin.ok THEN E!StableSortByFrame(E!XContentsOf(pin, xin.exts), p.count) ELSE <<>>)>>,
             <<"Canary", e.can = 1>> >>,
      <<B(Len(xin.exts) > 0), B(~xin.ok), 0>>)

UnpadJ(e) ==
  LET p == Parse(Pk(e.h, e.n), FALSE) IN
  IF e.n < 1 \/ ~p.ok THEN Res(rp, << <<"UnpadInvalidRefused", e.ret < 0>>, <<"Canary", e.can = 1>> >>, NoFacts)
  ELSE
  LET c == Canon(p.toc \div 4, p.sizes, FALSE)
      q == Parse(Pk(e.oh, e.ret), FALSE) IN
  Res(rp, << <<"HarnessConsistent", InTableOK(e.fr, p, 0)>>,
             <<"UnpadSucceeds", e.ret > 0>>,
             <<"UnpadCanonical", e.ret > 0 => (e.ret = c.len /\ IsPrefixOf(c.hdr, e.oh))>>,
             <<"UnpadNotLonger", e.ret <= e.n>>,
             <<"UnpadSameFrames", e.ret > 0 => /\ q.ok /\ q.pad = 0 /\ e.opdn = 0
                                               /\ q.toc \div 4 = p.toc \div 4
                                               /\ q.sizes = p.sizes
                                               /\ OutTableOK(e.ofr, q, InFids(e.fr, p.count), 0)>>,
             <<"UnpadIdempotent", e.ret > 0 => (e.r2 = e.ret /\ e.same2 = 1)>>,
             <<"Canary", e.can = 1>> >>, NoFacts)

-----------------------------------------------------------------------------
(* multistream: S streams, all but the last self-delimited *)
RECURSIVE MsWalk(_, _, _, _, _)
MsWalk(st, s, S, at, n) ==
  IF s > S THEN <<>>
  ELSE IF n - at <= 0 THEN <<[ok |-> FALSE]>>
  ELSE LET r == Parse(Pk(st[s].h, n - at), s < S) IN
       IF ~r.ok THEN <<[ok |-> FALSE]>>
       ELSE <<[ok |-> TRUE, r |-> r, at |-> at]>> \o MsWalk(st, s + 1, S, at + r.consumed, n)
MsValid(w, S) == Len(w) = S /\ \A s \in 1..S : w[s].ok

MsInConsistent(e, w) ==
  \A s \in 1..e.S : e.st[s].at = w[s].at /\ InTableOK(e.st[s].fr, w[s].r, 0)

RECURSIVE SumLens(_, _)
SumLens(cs, k) == IF k = 0 THEN 0 ELSE cs[k].len + SumLens(cs, k - 1)

MsUnpadJ(e) ==
  LET w == IF e.n >= 1 THEN MsWalk(e.st, 1, e.S, 0, e.n) ELSE <<>> IN
  IF e.n < 1 \/ ~MsValid(w, e.S) THEN Res(rp, << <<"MsUnpadInvalidRefused", e.ret < 0>>, <<"Canary", e.can = 1>> >>, NoFacts)
  ELSE
  LET S  == e.S
      cs == [s \in 1..S |-> Canon(w[s].r.toc \div 4, w[s].r.sizes, s < S)]
      tot == SumLens(cs, S) IN
  Res(rp, << <<"HarnessConsistent", MsInConsistent(e, w)>>,
             <<"MsUnpadSucceeds", e.ret > 0>>,
             <<"MsUnpadCanonicalPerStream", e.ret > 0 =>
                  /\ e.ret = tot
                  /\ Len(e.ost) = S
                  /\ \A s \in 1..S :
                       LET oat == SumLens(cs, s - 1)
                           q   == Parse(Pk(e.ost[s].h, e.ret - oat), s < S) IN
                       /\ e.ost[s].at = oat
                       /\ IsPrefixOf(cs[s].hdr, e.ost[s].h)
                       /\ q.ok /\ q.pad = 0 /\ q.consumed = cs[s].len
                       /\ q.sizes = w[s].r.sizes /\ q.toc \div 4 = w[s].r.toc \div 4
                       /\ OutTableOK(e.ost[s].fr, q, InFids(e.st[s].fr, w[s].r.count), 0)>>,
             <<"MsUnpadNotLonger", e.ret <= e.n>>,
             <<"MsUnpadIdempotent", e.ret > 0 => (e.r2 = e.ret /\ e.same2 = 1)>>,
             <<"Canary", e.can = 1>> >>, NoFacts)

MsPadJ(e) ==
  LET w == IF e.n >= 1 THEN MsWalk(e.st, 1, e.S, 0, e.n) ELSE <<>> IN
  IF e.n < 1 \/ e.nn < e.n THEN Res(rp, << <<"MsPadBadArgRefused", e.ret < 0>>, <<"Canary", e.can = 1>> >>, NoFacts)
  ELSE IF ~MsValid(w, e.S) THEN Res(rp, << <<"MsPadInvalidRefused", IF e.nn = e.n THEN e.ret <= 0 ELSE e.ret < 0>>,
                                           <<"Canary", e.can = 1>> >>, NoFacts)
  ELSE
  LET S   == e.S
      cntS == w[S].r.count
      pin == PadB(e.st[S].pdz, e.st[S].pd)
      xin == E!ParseRaw(pin, cntS) IN
  Res(rp, << <<"HarnessConsistent", MsInConsistent(e, w)>>,
             <<"PadSucceeds", e.ret = 0>>,
             <<"MsPadExactPerStream", e.ret = 0 =>
                  /\ Len(e.ost) = S
                  /\ \A s \in 1..S :
                       LET q == Parse(Pk(e.ost[s].h, e.nn - w[s].at), s < S) IN
                       /\ e.ost[s].at = w[s].at                           \* earlier streams do not move
                       /\ q.ok
                       /\ q.sizes = w[s].r.sizes /\ q.toc \div 4 = w[s].r.toc \div 4
                       /\ (s < S => q = w[s].r)                            \* and are unchanged,
                       /\ (s < S => /\ e.ost[s].pdn = e.st[s].pdn          \* padding bytes (extensions) included
                                    /\ PadB(e.ost[s].pdz, e.ost[s].pd) = PadB(e.st[s].pdz, e.st[s].pd))
                       /\ LET xi == E!ParseRaw(PadB(e.st[s].pdz, e.st[s].pd), w[s].r.count)
                              xq == E!ParseRaw(PadB(e.ost[s].pdz, e.ost[s].pd), w[s].r.count) IN
                          (xi.ok /\ (s < S \/ e.nn > e.n)) =>             \* every stream keeps its extensions
                             /\ xq.ok
                             /\ E!StableSortByFrame(E!XContentsOf(PadB(e.ost[s].pdz, e.ost[s].pd), xq.exts), w[s].r.count)
                                  = E!StableSortByFrame(E!XContentsOf(PadB(e.st[s].pdz, e.st[s].pd), xi.exts), w[s].r.count)
                       /\ (s = S => q.consumed = e.nn - w[s].at)          \* the last one fills the new length
                       /\ OutTableOK(e.ost[s].fr, q, InFids(e.st[s].fr, w[s].r.count), 0)>>,
             <<"PadKeepsExtensions", (e.ret = 0 /\ e.nn > e.n /\ Len(e.ost) = S) =>
                   LET po == PadB(e.ost[S].pdz, e.ost[S].pd)
                       xo == E!ParseRaw(po, cntS) IN
                   /\ xo.ok
                   /\ E!StableSortByFrame(E!XContentsOf(po, xo.exts), cntS)
                        = (IF xin.ok THEN E!StableSortByFrame(E!XContentsOf(pin, xin.exts), cntS) ELSE <<>>)>>,
             <<"Canary", e.can = 1>> >>,
      <<B(Len(xin.exts) > 0), B(~xin.ok), 0>>)

-----------------------------------------------------------------------------
(* decoded audio: decoder A got the packet as encoded, B the padded packet,  *)
(* C the padded-then-unpadded packet; digests of the PCM and final ranges.   *)
AudioJ(e) ==
  Res(rp, << <<"PadSucceeds", e.pr = 0>>,
             <<"UnpadSucceeds", e.ur > 0 /\ e.ur <= e.n>>,
             <<"SameDecodedAudio", e.sA > 0 /\ e.sA = e.sB /\ e.sA = e.sC /\ e.dA = e.dB /\ e.dA = e.dC>>,
             <<"SameFinalRange", e.rA = e.rB /\ e.rA = e.rC>>,
             <<"Canary", e.can = 1>> >>, NoFacts)


-----------------------------------------------------------------------------
(* Growth: opus_repacketizer_out_range_impl(rp, b, e, data, m, sd, pad, NULL, 0) called directly *)
OutXJ(e) ==
  LET n  == Len(rp.frames)
      sd == e.sd = 1
      pad == e.pad = 1 IN
  IF ~RangeOK(rp, e.b, e.e)
  THEN Res(rp, << <<"BadRangeRefused", e.ret < 0>>, <<"Canary", e.can = 1>>, <<"GetNbFrames", e.nb = n>> >>, NoFacts)
  ELSE
  LET b     == e.b
      cnt   == e.e - b
      sel   == Sel(rp, b, e.e)
      car   == Carried(rp, b, e.e)
      has   == car # <<>>
      canon == Canon(rp.cfg, SizesOf(sel), sd)
      upper == IF has THEN ExtUpper(rp.cfg, SizesOf(sel), sd, car) ELSE canon.len
      lower == IF has THEN ExtLower(rp.cfg, SizesOf(sel), sd, car) ELSE canon.len
      facts == <<B(has), B(SelBadExt(rp, b, e.e)), 0>> IN
  IF e.ret < 0
  THEN Res(rp, << <<"RefusedOnlyWhenMaxlenTooSmall", e.m < upper>>,
                  <<"Canary", e.can = 1>>, <<"GetNbFrames", e.nb = n>> >>, facts)
  ELSE
  LET q  == Parse(Pk(e.h, e.ret), sd)
      pd == PadB(e.pdz, e.pd)
      x  == E!ParseRaw(pd, cnt)
      xc == E!XContentsOf(pd, x.exts) IN
  Res(rp, << <<"OutFits", e.ret >= 1 /\ e.ret <= e.m>>,
             \* pad = 1: exactly maxlen; pad = 0: the canonical size, or within the generator's bounds
             <<"ExactSize", IF pad THEN e.ret = e.m /\ e.m >= lower
                            ELSE IF has THEN e.ret >= lower /\ e.ret <= upper ELSE e.ret = canon.len>>,
             <<"CanonicalWhenNothingAdded", (~pad /\ ~has) => IsPrefixOf(canon.hdr, e.h)>>,
             <<"OutReparses", /\ q.ok
                              /\ q.consumed = e.ret                  \* self-delimited: the packet is all of the output
                              /\ q.toc \div 4 = rp.cfg
                              /\ q.sizes = SizesOf(sel)
                              /\ OutTableOK(e.fr, q, FidsOf(sel), 0)
                              /\ e.pdn = q.pad>>,
             <<"OutExtensionsWellFormed", x.ok>>,
             <<"ExtCarried", x.ok => /\ \A k \in 0..(cnt - 1) : Strip(E!ExtsOfFrame(xc, k)) = NaturalExts(rp, b, k)
                                     /\ Len(xc) = Len(car)>>,
             <<"PaddingIsZeroWhenNoExtensions", (~has /\ e.pdn > 0) => e.pdz = 1>>,
             <<"Canary", e.can = 1>>,
             <<"GetNbFrames", e.nb = n>> >>, facts)

(* Growth: opus_packet_pad_impl(data, n, nn, pad, extensions): e.xl = <<id, frame, data>> rows *)
XList(xl) == [i \in 1..Len(xl) |-> [id |-> xl[i][1], frame |-> xl[i][2], data |-> xl[i][3]]]
PadXJ(e) ==
  LET p   == Parse(Pk(e.h, e.n), FALSE)
      pad == e.pad = 1 IN
  IF e.n < 1 \/ e.nn < e.n THEN Res(rp, << <<"PadBadArgRefused", e.ret < 0>>, <<"Canary", e.can = 1>> >>, NoFacts)
  ELSE IF ~p.ok THEN Res(rp, << <<"PadInvalidRefused", IF e.nn = e.n THEN e.ret <= 0 ELSE e.ret < 0>>,
                                <<"Canary", e.can = 1>> >>, NoFacts)
  ELSE IF e.nn = e.n THEN       \* documented shortcut: nothing to do, the packet is returned as it is
       Res(rp, << <<"PadSucceeds", e.ret = 0>>, <<"Canary", e.can = 1>> >>, NoFacts)
  ELSE
  LET list  == XList(e.xl)
      legal == E!GenArgsLegal(list, p.count)
      pin   == PadB(e.pdz, e.pd)
      xin   == E!ParseRaw(pin, p.count)
      own   == IF xin.ok THEN E!XContentsOf(pin, xin.exts) ELSE <<>>
      all   == own \o list
      has   == all # <<>>
      cfg   == p.toc \div 4
      canon == Canon(cfg, p.sizes, FALSE)
      upper == IF has THEN ExtUpper(cfg, p.sizes, FALSE, all) ELSE IF pad THEN Enc(cfg, p.sizes, FALSE, 0, TRUE).len ELSE canon.len
      lower == IF has THEN ExtLower(cfg, p.sizes, FALSE, all) ELSE canon.len
      facts == <<B(has), B(~xin.ok), 0>> IN
  IF ~legal THEN Res(rp, << <<"HarnessConsistent", InTableOK(e.fr, p, 0) /\ e.pdn = p.pad>>,
                            <<"IllegalExtensionRefused", e.ret < 0>>, <<"Canary", e.can = 1>> >>, facts)
  ELSE IF e.ret <= 0
  THEN Res(rp, << <<"HarnessConsistent", InTableOK(e.fr, p, 0) /\ e.pdn = p.pad>>,
                  <<"RefusedOnlyWhenNewLenTooSmall", e.ret < 0 /\ e.nn < upper>>,
                  <<"Canary", e.can = 1>> >>, facts)
  ELSE
  LET q  == Parse(Pk(e.oh, e.ret), FALSE)
      po == PadB(e.opdz, e.opd)
      xo == E!ParseRaw(po, p.count)
      got == E!XContentsOf(po, xo.exts) IN
  Res(rp, << <<"HarnessConsistent", InTableOK(e.fr, p, 0) /\ e.pdn = p.pad>>,
             <<"OutFits", e.ret <= e.nn>>,
             <<"ExactSize", IF pad THEN e.ret = e.nn /\ e.nn >= lower
                            ELSE IF has THEN e.ret >= lower /\ e.ret <= upper ELSE e.ret = canon.len>>,
             <<"PadSameFrames", /\ q.ok
                                /\ q.toc \div 4 = cfg
                                /\ q.sizes = p.sizes
                                /\ OutTableOK(e.ofr, q, InFids(e.fr, p.count), 0)
                                /\ e.opdn = q.pad>>,
             <<"OutExtensionsWellFormed", xo.ok>>,
             \* the packet's own extensions and the added ones, per frame, nothing else
             <<"PadAddsExtensions", xo.ok => /\ Len(got) = Len(all)
                                            /\ \A k \in 0..(p.count - 1) : FrameExtsOK(got, own, list, k)>>,
             <<"Canary", e.can = 1>> >>, facts)

-----------------------------------------------------------------------------
J(e) ==
  CASE e.k = "new"     -> Res(EmptyRp, << <<"GetNbFrames", e.nb = 0>> >>, NoFacts)
    [] e.k = "init"    -> Res(EmptyRp, << <<"GetNbFrames", e.nb = 0>> >>, NoFacts)
    [] e.k = "cat"     -> CatJ(e)
    [] e.k = "out"     -> OutJ(e)
    [] e.k = "outx"    -> OutXJ(e)
    [] e.k = "padx"    -> PadXJ(e)
    [] e.k = "pad"     -> PadJ(e)
    [] e.k = "unpad"   -> UnpadJ(e)
    [] e.k = "mspad"   -> MsPadJ(e)
    [] e.k = "msunpad" -> MsUnpadJ(e)
    [] e.k = "audio"   -> AudioJ(e)
    [] OTHER           -> Res(rp, << <<"UnknownEvent", FALSE>> >>, NoFacts)

Init == l = 1 /\ rp = EmptyRp
Next == \/ /\ l <= Len(Tr)
           /\ LET j == J(Tr[l]) IN
                /\ rp' = j.rp
                /\ IF j.fails = {} THEN TRUE ELSE PrintT(<<"REJECTED_AT", l, ToString(j.fails), j.facts>>)
           /\ l' = l + 1
        \/ /\ l > Len(Tr) /\ UNCHANGED <<l, rp>>
Spec == Init /\ [][Next]_<<l, rp>>
=============================================================================
