----------------------------- MODULE Repack_mc -----------------------------
(***************************************************************************)
(* Exhaustive exploration of the repacketizer model: every sequence of      *)
(* init / cat / out_range / out operations with at most Depth cat calls      *)
(* over a library of valid and invalid abstract packets; the C07 clauses as  *)
(* invariants and action properties.  With Gen = TRUE the same module emits  *)
(* behaviours (operation sequences with model-chosen maxlen probes) for      *)
(* replay against the implementation.                                       *)
(***************************************************************************)
EXTENDS Repack, TLC
CONSTANTS Depth,      \* bound on the number of cat calls (mc) / history length (gen)
          AllPairs,   \* every [b,e) (valid and invalid) is probed in states with at most this many frames; boundary ranges beyond
          Gen,        \* TRUE: behaviour generation
          GenIds,     \* packet ids offered to cat ({} = the whole library)
          Track       \* TRUE: last.seen accumulates the kinds of step taken (vacuity witness)
VARIABLES rp, ncat, last, hist

vars == <<rp, ncat, last, hist>>
IsPrefix(s, t) == Len(s) <= Len(t) /\ SubSeq(t, 1, Len(s)) = s

-----------------------------------------------------------------------------
(* The packet library.  Valid packets are described abstractly and put on    *)
(* the wire by Wire (any code, canonical or not); invalid ones are named     *)
(* corruptions given directly as wire bytes.                                *)
Wire(id, cfg, code, vbr, sizes, A, padb) ==
  LET n   == Len(sizes)
      t0  == cfg * 4
      tot == SumSeq(sizes)
      h   == IF code = 0 THEN <<t0>>
             ELSE IF code = 1 THEN <<t0 + 1>>
             ELSE IF code = 2 THEN <<t0 + 2>> \o EncSize(sizes[1])
             ELSE <<t0 + 3, n + (IF vbr THEN 128 ELSE 0) + (IF A > 0 THEN 64 ELSE 0)>> \o PadChain(A)
                  \o (IF vbr THEN EncSizes(SubSeq(sizes, 1, n - 1)) ELSE <<>>)
      np  == A - Len(PadChain(A)) IN
  [id |-> id, hdr |-> h, len |-> Len(h) + tot + np, fill |-> 0,
   fids |-> [i \in 1..n |-> 64 * id + i - 1],
   padb |-> IF padb = <<>> THEN Rep(np, 0) ELSE padb]
Raw(id, h, len) == [id |-> id, hdr |-> h, len |-> len, fill |-> 0, fids |-> <<>>, padb |-> <<>>]

cA == 32    \* CELT NB 2.5 ms mono
cB == 2     \* SILK NB 20 ms mono
cBs == 3    \* SILK NB 20 ms stereo
cC == 6     \* SILK NB 60 ms mono

Lib == <<
  Wire(1,  cA, 0, FALSE, <<0>>, 0, <<>>),
  Wire(2,  cA, 0, FALSE, <<1>>, 0, <<>>),
  Wire(3,  cA, 0, FALSE, <<251>>, 0, <<>>),
  Wire(4,  cA, 0, FALSE, <<252>>, 0, <<>>),
  Wire(5,  cA, 0, FALSE, <<1275>>, 0, <<>>),
  Wire(6,  cA, 1, FALSE, <<2, 2>>, 0, <<>>),
  Wire(7,  cA, 2, TRUE,  <<1, 253>>, 0, <<>>),
  Wire(8,  cA, 2, TRUE,  <<252, 0>>, 0, <<>>),
  Wire(9,  cA, 3, FALSE, Rep(24, 1), 0, <<>>),
  Wire(10, cA, 3, TRUE,  [i \in 1..23 |-> i % 3], 0, <<>>),
  Wire(11, cA, 3, FALSE, Rep(47, 2), 0, <<>>),
  Wire(12, cA, 3, FALSE, <<2, 2, 2>>, 1, <<>>),
  Wire(13, cA, 3, TRUE,  <<2, 2, 2>>, 5, <<>>),                        \* VBR coding of equal sizes, zero padding
  Wire(14, cA, 3, FALSE, <<3>>, 3, <<11, 119>>),                        \* short extension id 5 on frame 0
  Wire(15, cA, 3, FALSE, <<2, 2>>, 4, <<2, 11, 119>>),                  \* separator, extension on frame 1
  Wire(16, cA, 3, FALSE, <<1275>>, 5, <<80, 1, 2, 3>>),                 \* long extension id 40, L = 0 (finding F2)
  Wire(17, cA, 3, FALSE, <<2>>, 4, <<81, 200, 1>>),                     \* padding that is not a well-formed extension list
  Wire(18, cA, 3, FALSE, <<1>>, 300, <<>>),                             \* long zero padding (chain 255, 44)
  Wire(19, cA, 3, FALSE, <<2>>, 7, <<67, 2, 9, 9, 0, 0>>),              \* laced long extension id 33 then padding
  Wire(20, cB, 0, FALSE, <<2>>, 0, <<>>),
  Wire(21, cB, 1, FALSE, <<1, 1>>, 0, <<>>),
  Wire(22, cB, 3, FALSE, <<1, 1, 1>>, 0, <<>>),
  Wire(23, cB, 3, TRUE,  <<1, 0, 2, 1, 0, 1>>, 0, <<>>),
  Wire(24, cB, 2, TRUE,  <<1, 2>>, 0, <<>>),
  Wire(25, cBs, 0, FALSE, <<2>>, 0, <<>>),
  Wire(26, cC, 0, FALSE, <<1>>, 0, <<>>),
  Wire(27, cC, 1, FALSE, <<1, 1>>, 0, <<>>),
  Wire(28, cC, 0, FALSE, <<252>>, 0, <<>>),
  Wire(29, cB, 3, FALSE, <<1, 1>>, 6, <<11, 119, 2, 11, 102>>),         \* extensions on frames 0 and 1
  \* invalid packets
  Raw(40, <<>>, 0),                                   \* empty
  Raw(41, <<cA * 4 + 1>>, 4),                         \* code 1, odd payload
  Raw(42, <<cA * 4 + 2, 10>>, 5),                     \* code 2, first length does not fit
  Raw(43, <<cA * 4 + 3>>, 1),                         \* code 3 without a count byte
  Raw(44, <<cA * 4 + 3, 0>>, 5),                      \* code 3, M = 0
  Raw(45, <<cA * 4 + 3, 49>>, 51),                    \* code 3, 49 frames
  Raw(46, <<cB * 4 + 3, 7>>, 9),                      \* code 3, 7 x 20 ms
  Raw(47, <<cA * 4>>, 1277),                          \* frame of 1276 bytes
  Raw(48, <<cA * 4 + 3, 3>>, 6),                      \* CBR, payload not divisible
  Raw(49, <<cA * 4 + 3, 131, 252>>, 3),               \* VBR, truncated length
  Raw(50, <<cA * 4 + 3, 65, 10>>, 5),                 \* padding longer than the packet
  Raw(51, <<cC * 4 + 3, 3>>, 5),                      \* 3 x 60 ms
  Raw(52, <<cB * 4 + 2, 252>>, 2)                     \* code 2, two-byte length cut
>>
NLib == Len(Lib)

-----------------------------------------------------------------------------
\* ranges probed in a state with n frames
PairsUpTo(n, lim) ==
  IF n <= lim THEN (-1..(n + 1)) \X (-1..(n + 1))
  ELSE {<<0, n>>, <<0, 1>>, <<0, 2>>, <<1, 2>>, <<1, n>>, <<0, n - 1>>, <<n - 1, n>>, <<n - 2, n>>, <<1, n - 1>>,
        <<n \div 2, n \div 2 + 3>>, <<-1, 1>>, <<0, 0>>, <<0, n + 1>>, <<2, 1>>, <<n, n>>}
Pairs(n) == PairsUpTo(n, AllPairs)
See(tag) == IF Track THEN last.seen \cup {tag} ELSE {}
Init == /\ rp = EmptyRp /\ ncat = 0 /\ last = [op |-> "start", ret |-> 0, seen |-> {}] /\ hist = <<>>

Bound == IF Gen THEN Len(hist) < Depth ELSE ncat < Depth

DoInit == /\ Bound
          /\ rp' = EmptyRp /\ ncat' = ncat
          /\ last' = [op |-> "init", ret |-> 0, seen |-> See(IF rp.frames = <<>> THEN "init_empty" ELSE "init_clears")]
          /\ hist' = IF Gen THEN Append(hist, <<"I">>) ELSE hist

DoCat == /\ Bound
         /\ \E k \in 1..NLib :
              /\ (GenIds = {} \/ Lib[k].id \in GenIds)
              /\ rp' = CatResult(rp, Lib[k])
              /\ last' = [op |-> "cat", ret |-> IF CatAccepts(rp, Lib[k]) THEN OK ELSE INVALID_PACKET,
                         seen |-> See(IF CatAccepts(rp, Lib[k]) THEN "cat_ok" ELSE IF rp.frames = <<>> THEN "cat_rej_empty" ELSE "cat_rej_keeps")]
              /\ hist' = IF Gen THEN Append(hist, <<"C", Lib[k].id>>) ELSE hist
         /\ ncat' = ncat + 1

\* out_range / out do not change the contents; their results are judged by the invariants
\* below for every range and maxlen in every reachable state
DoOut == /\ ~Gen /\ last.op # "out"
         /\ last' = [op |-> "out", ret |-> Out(rp, 1277 * Len(rp.frames)).ret,
                     seen |-> See(IF Out(rp, 1277 * Len(rp.frames)).ret > 0 THEN "out_ok" ELSE IF rp.frames = <<>> THEN "out_empty" ELSE "out_1277_too_small")]
         /\ UNCHANGED <<rp, ncat, hist>>

Next == DoInit \/ DoCat \/ DoOut
Spec == Init /\ [][Next]_vars

-----------------------------------------------------------------------------
(* C07 clauses on the model *)
N == Len(rp.frames)

\* the contents only ever grow at the end, or are cleared
AppendOnly == [][IsPrefix(rp.frames, rp'.frames) \/ rp'.frames = <<>>]_vars
\* a refused cat leaves the contents unchanged; an accepted one adds exactly the packet's frames
RejectKeeps == [][last'.op = "cat" =>
                    IF last'.ret = OK THEN Len(rp'.frames) > Len(rp.frames) /\ Len(rp'.pads) = Len(rp'.frames)
                    ELSE rp' = rp]_vars
DurBound == /\ (rp.frames # <<>> => N * Dur48(rp.cfg * 4) <= MaxDur48)
            /\ N <= MaxFrames
            /\ Len(rp.pads) = N
            /\ (rp.frames = <<>>) = (rp.cfg = -1)

\* what comes out parses back (Framing!Parse of the emitted bytes) to exactly the selected
\* identities, in order, with the configuration bits of the first packet, and the padding
\* of the output holds exactly the extensions of the selected frames renumbered from b
ReparsesP(b, e, o) ==
  LET q == Parse(o, FALSE) IN
  /\ q.ok
  /\ q.toc \div 4 = rp.cfg
  /\ q.count = e - b
  /\ q.sizes = SizesOf(Sel(rp, b, e))
  /\ o.fids = FidsOf(Sel(rp, b, e))
  /\ q.pad = Len(o.padb)
  /\ E!ParseRaw(o.padb, e - b).ok
  /\ E!ExtContents(o.padb, e - b) = Carried(rp, b, e)
  /\ \A k \in 0..(e - b - 1) : Strip(E!ExtsOfFrame(E!ExtContents(o.padb, e - b), k)) = NaturalExts(rp, b, k)

\* never more than maxlen; refused exactly when maxlen is too small
OutWith(o, m) == IF o.len <= m THEN [ret |-> o.len, out |-> o] ELSE [ret |-> BUFFER_TOO_SMALL]
FitsP(b, e, o) ==
  \A m \in {0, o.len - 1, o.len, o.len + 1, 1277 * (e - b)} :
    LET r == OutWith(o, m) IN
    /\ r.ret > 0 => (r.ret <= m /\ r.ret = r.out.len)
    /\ r.ret < 0 => m < o.len
    /\ r.ret # 0

\* 1277 bytes per selected frame always suffice -- for selections that carry no extensions.
\* (Suff1277All is the clause as the property states it; the model itself refutes it: finding F2.)
SuffP(b, e, o) == o.padb = <<>> => o.len <= 1277 * (e - b)

OutClausesFor(P(_, _, _)) ==
  \A p \in Pairs(N) :
    IF RangeOK(rp, p[1], p[2]) THEN P(p[1], p[2], OutModel(rp, p[1], p[2]))
    ELSE \A m \in {0, 2000} : OutRange(rp, p[1], p[2], m).ret < 0       \* bad ranges are refused
OutReparses == OutClausesFor(ReparsesP)
OutFits     == OutClausesFor(FitsP)
Suff1277    == OutClausesFor(SuffP)
AllP(b, e, o) == ReparsesP(b, e, o) /\ FitsP(b, e, o) /\ SuffP(b, e, o)
OutClauses  == OutClausesFor(AllP)          \* the three together, one OutModel evaluation per range
Suff1277All == OutClausesFor(LAMBDA b, e, o : o.len <= 1277 * (e - b))
OutDef == \A p \in Pairs(N) : RangeOK(rp, p[1], p[2]) =>
             \A m \in {0, 3000} : OutRange(rp, p[1], p[2], m) = OutWith(OutModel(rp, p[1], p[2]), m)
GetNb == GetNbFrames(rp) = N
\* vacuity witness (expected to be VIOLATED in the Track run): some behaviour takes every kind of step
AllKinds == {"init_empty", "init_clears", "cat_ok", "cat_rej_keeps", "out_ok", "out_empty", "out_1277_too_small"}
NotAllSeen == last.seen # AllKinds

\* stateless operations over the library
PadLens(pk) == {pk.len + d : d \in {0, 1, 2, 3, 253, 254, 255, 256, 257, 258, 509, 510, 511, 512, 513, 765, 766, 767}}
PadExact ==
  \A k \in 1..NLib :
    LET pk == Lib[k] IN
    Parse(pk, FALSE).ok =>
      \A n \in PadLens(pk) :
        LET o == PadModel(pk, n) IN
        /\ o.ok /\ o.len = n
        /\ SameFrames(pk, FALSE, o, FALSE)
SameFramesSizes(a, c, sd) ==
  LET x == Parse(a, sd)  y == Parse(c, sd) IN x.ok /\ y.ok /\ x.sizes = y.sizes /\ x.toc \div 4 = y.toc \div 4
UnpadCanonical ==
  \A k \in 1..NLib : \A sd \in BOOLEAN :
    LET pk == Lib[k]
        u  == UnpadModel(pk, sd) IN
    IF ~Parse(pk, sd).ok THEN ~u.ok
    ELSE /\ u.ok
         /\ u.len <= Parse(pk, sd).consumed                      \* never longer
         /\ SameFrames(pk, sd, u, sd)                           \* same frames
         /\ Parse(u, sd).pad = 0
         /\ LET v == UnpadModel(u, sd) IN v.ok /\ v.hdr = u.hdr /\ v.len = u.len    \* idempotent
         \* canonical: no valid encoding of the same frames is shorter (checked against every library packet)
         /\ \A j \in 1..NLib : SameFramesSizes(Lib[j], pk, sd) => u.len <= Parse(Lib[j], sd).consumed
         /\ u.len <= Enc(Parse(pk, sd).toc \div 4, Parse(pk, sd).sizes, sd, 0, TRUE).len

\* the library really contains what its comments say
LibSane ==
  /\ \A k \in 1..NLib : Lib[k].id < 40 <=> Parse(Lib[k], FALSE).ok
  /\ \A k \in 1..NLib : Parse(Lib[k], FALSE).ok =>
        /\ Len(Lib[k].fids) = Parse(Lib[k], FALSE).count
        /\ Len(Lib[k].padb) = Parse(Lib[k], FALSE).pad
  /\ \A k \in 1..NLib : (Lib[k].id \in {14, 15, 16, 19, 29}) => (E!ParseRaw(Lib[k].padb, Len(Lib[k].fids)).ok /\ Len(E!ParseRaw(Lib[k].padb, Len(Lib[k].fids)).exts) > 0)
  /\ \A k \in 1..NLib : Lib[k].id = 17 => ~E!ParseRaw(Lib[k].padb, 1).ok


-----------------------------------------------------------------------------
(* Growth theorems: self-delimited / padded output, padding that adds extensions *)
XLists(n) == {<<>>,
              <<[id |-> 5, frame |-> 0, data |-> <<7>>]>>,
              <<[id |-> 40, frame |-> n - 1, data |-> Rep(255, 9)]>>,
              [i \in 1..Min(n, 3) |-> [id |-> 33, frame |-> i - 1, data |-> <<i, i>>]]}     \* repeat-eligible
OutSdPad ==
  \A p \in PairsUpTo(N, 4) : RangeOK(rp, p[1], p[2]) =>
    \A sd \in BOOLEAN :
      LET b == p[1]  e == p[2]
          m0 == OutModelX(rp, b, e, sd, 0, <<>>) IN
      /\ m0.ok
      /\ (~sd => (m0.len = OutModel(rp, b, e).len /\ m0.hdr = OutModel(rp, b, e).hdr))
      /\ \A d \in {0, 1, 255, 256} :
           LET o == OutModelX(rp, b, e, sd, m0.len + d, <<>>)
               q == Parse(o, sd) IN
           \* with nothing carried every length >= the minimal one is reachable; otherwise all but +0 may need the 0x01 fill
           /\ (Carried(rp, b, e) = <<>> => o.ok)
           /\ o.ok => /\ o.len = m0.len + d
                      /\ q.ok /\ q.consumed = o.len
                      /\ q.sizes = SizesOf(Sel(rp, b, e)) /\ q.toc \div 4 = rp.cfg
                      /\ q.pad = Len(o.padb)
                      /\ E!ParseRaw(o.padb, e - b).ok
                      /\ E!ExtContents(o.padb, e - b) = Carried(rp, b, e)
PadWithExtThm ==
  \A k \in 1..NLib :
    LET pk == Lib[k]  r == Parse(pk, FALSE) IN
    r.ok => \A list \in XLists(r.count), pad \in BOOLEAN :
      LET all == PkExts(pk, r.count) \o list
          up  == ExtUpper(r.toc \div 4, r.sizes, FALSE, all) IN
      /\ \A n \in {pk.len + 1, pk.len + 40, up, up + 300} :
           LET o == PadWithExt(pk, n, pad, list) IN
           /\ (n >= up /\ n > pk.len => o.ok)                      \* refused only when new_len is too small
           /\ o.ok => /\ (pad => o.len = n) /\ o.len <= n
                      /\ (all # <<>> => o.len >= ExtLower(r.toc \div 4, r.sizes, FALSE, all))
                      /\ SameFrames(pk, FALSE, o, FALSE)
                      /\ E!ParseRaw(o.padb, r.count).ok
                      /\ E!ExtContents(o.padb, r.count) = E!StableSortByFrame(all, r.count)
                      /\ \A f \in 0..(r.count - 1) : FrameExtsOK(E!ExtContents(o.padb, r.count), PkExts(pk, r.count), list, f)
      \* an extension for a frame the packet does not have is refused
      /\ ~PadWithExt(pk, pk.len + 100, pad, <<[id |-> 5, frame |-> r.count, data |-> <<>>]>>).ok

-----------------------------------------------------------------------------
(* behaviour generation: for every history (sequence of init / cat) the      *)
(* probes to run in the state it reaches.                                    *)
ProbePairs(n) ==
  {<<0, n>>, <<0, 1>>, <<n - 1, n>>, <<1, n>>, <<0, n - 1>>, <<n \div 2, n \div 2 + 2>>, <<1, 2>>,
   <<0, 0>>, <<0, n + 1>>, <<-1, 1>>, <<2, 1>>}
ProbeLens(b, e) ==
  IF ~RangeOK(rp, b, e) THEN {1500}
  ELSE LET need == OutModel(rp, b, e).len IN {0, need - 1, need, 1277 * (e - b)}
PR(p) == {<<"O", p[1], p[2], m>> : m \in {x \in ProbeLens(p[1], p[2]) : x >= 0}}
           \cup (IF RangeOK(rp, p[1], p[2]) THEN {<<"Q", p[1], p[2], 0>>} ELSE {})
Probes == UNION {PR(p) : p \in ProbePairs(N)} \cup {<<"A", m, 0, 0>> : m \in {x \in ProbeLens(0, N) : x >= 0}}
EmitInv == Gen => PrintT(<<"BEH", ToString(hist), ToString(Probes)>>)
EmitLib == Gen => (hist # <<>> \/ PrintT(<<"LIB", ToString([k \in 1..NLib |->
                     LET pk == Lib[k]  r == Parse(pk, FALSE) IN
                     [id |-> pk.id, hdr |-> pk.hdr, len |-> pk.len,
                      fr |-> IF r.ok THEN [i \in 1..r.count |-> <<FrameOffsets(r.off, r.sizes)[i], r.sizes[i], pk.fids[i]>>] ELSE <<>>,
                      padat |-> IF r.ok THEN r.padAt ELSE 0, padb |-> pk.padb]])>>))
=============================================================================
