------------------------------ MODULE Resampler ------------------------------
(* G14 - the SILK resampler (silk/resampler.c, resampler_private_down_FIR.c,    *)
(* resampler_private_IIR_FIR.c, resampler_private_up2_HQ.c) as an exact integer *)
(* index / state machine.  Sample VALUES are abstracted away; what is modelled  *)
(* is every length, count, index and fill mark, so that the model says how many *)
(* output samples a call writes, which buffer cells it touches and WHICH input  *)
(* samples (indices of the input stream) each output sample is computed from.   *)
(*                                                                              *)
(* Mapping to SilkEncCtl.tla (which owns the rate-switch control machine):      *)
(* its internal rate fs_kHz (8/12/16) is FsOut/1000 of the encoder-side machine *)
(* here (forEnc = TRUE, FsIn = API_fs_Hz) and FsIn/1000 of the decoder-side one *)
(* (forEnc = FALSE, FsOut = API_sampleRate); a SilkEncCtl rate change is one    *)
(* ReInit step here (silk_setup_resamplers), see SetupResamplers below.         *)
(* Mapping to DecOp.tla: its per-frame sample count at the API rate is DecOut.  *)
(*                                                                              *)
(* R6: every product below stays under 2^31 (SMULWW is split into 16-bit halves)*)
EXTENDS Integers, Sequences, FiniteSets

CONSTANT RoundUpLoop      \* TRUE: invRatio_Q16 is rounded up as in the code; FALSE: witness with the loop removed

Min2(a, b) == IF a < b THEN a ELSE b
Max2(a, b) == IF a > b THEN a ELSE b

FN_COPY == 0      \* USE_silk_resampler_copy
FN_UP2 == 1       \* USE_silk_resampler_private_up2_HQ_wrapper
FN_IIRFIR == 2    \* USE_silk_resampler_private_IIR_FIR
FN_DOWNFIR == 3   \* USE_silk_resampler_private_down_FIR

Rates5 == {8000, 12000, 16000, 24000, 48000}
Rates3 == {8000, 12000, 16000}
MAX_BATCH_MS == 10          \* RESAMPLER_MAX_BATCH_SIZE_MS
DELAYBUF_LEN == 48          \* delayBuf[ 48 ]
SFIR_LEN == 36              \* SILK_RESAMPLER_MAX_FIR_ORDER (sFIR.i32[36] / i16[36])
ORDER_FIR_12 == 8           \* RESAMPLER_ORDER_FIR_12

\* #define rateID(R) ( ( ( ((R)>>12) - ((R)>16000) ) >> ((R)>24000) ) - 1 )   -- 0-based
RateID(R) == (((R \div 4096) - (IF R > 16000 THEN 1 ELSE 0)) \div (IF R > 24000 THEN 2 ELSE 1)) - 1

DelayEnc == << <<6, 0, 3>>, <<0, 7, 3>>, <<0, 1, 10>>, <<0, 2, 6>>, <<18, 10, 12>> >>       \* delay_matrix_enc[in][out]
DelayDec == << <<4, 0, 2, 0, 0>>, <<0, 9, 4, 7, 4>>, <<0, 3, 12, 7, 7>> >>                    \* delay_matrix_dec[in][out]

\* the input check of silk_resampler_init
RatesOK(fi, fo, enc) == IF enc THEN fi \in Rates5 /\ fo \in Rates3 ELSE fi \in Rates3 /\ fo \in Rates5

\* coefficient table / ratio class of the down-sampler: <<id, FIR_Fracs, FIR_Order>>; id 0 = "None available"
\* ids: 1 = 3:4, 2 = 2:3, 3 = 1:2, 4 = 1:3, 5 = 1:4, 6 = 1:6
DownClass(fi, fo) ==
  IF fo * 4 = fi * 3 THEN <<1, 3, 18>>
  ELSE IF fo * 3 = fi * 2 THEN <<2, 2, 18>>
  ELSE IF fo * 2 = fi THEN <<3, 1, 24>>
  ELSE IF fo * 3 = fi THEN <<4, 1, 36>>
  ELSE IF fo * 4 = fi THEN <<5, 1, 36>>
  ELSE IF fo * 6 = fi THEN <<6, 1, 36>>
  ELSE <<0, 0, 0>>

InitAccepts(fi, fo, enc) == RatesOK(fi, fo, enc) /\ (fo < fi => DownClass(fi, fo)[1] # 0)

FnOf(fi, fo) == IF fo > fi THEN (IF fo = 2 * fi THEN FN_UP2 ELSE FN_IIRFIR) ELSE IF fo < fi THEN FN_DOWNFIR ELSE FN_COPY
Up2x(fi, fo) == IF FnOf(fi, fo) = FN_IIRFIR THEN 1 ELSE 0

\* silk_SMULWW(a, b) = (int64 a * b) >> 16 for a >= 0 and b a multiple of 32 (all five rates are): split a into halves
SMULWW(a, b) == (a \div 65536) * b + (((a % 65536) * (b \div 32)) \div 2048)

\* S->invRatio_Q16 = LSHIFT32( DIV32( LSHIFT32( Fs_Hz_in, 14 + up2x ), Fs_Hz_out ), 2 )
Inv0(fi, fo) == ((fi * (IF Up2x(fi, fo) = 1 THEN 32768 ELSE 16384)) \div fo) * 4
InvTarget(fi, fo) == fi * (IF Up2x(fi, fo) = 1 THEN 2 ELSE 1)
LOOP_MAX == 16
\* while( SMULWW( invRatio_Q16, Fs_Hz_out ) < LSHIFT32( Fs_Hz_in, up2x ) ) invRatio_Q16++
LoopSteps(fi, fo) ==
  LET S == {d \in 0..LOOP_MAX : SMULWW(Inv0(fi, fo) + d, fo) >= InvTarget(fi, fo)} IN
  IF S = {} THEN LOOP_MAX + 1 ELSE CHOOSE d \in S : \A d2 \in S : d <= d2
InvRatio(fi, fo) == Inv0(fi, fo) + (IF RoundUpLoop THEN LoopSteps(fi, fo) ELSE 0)

\* the state silk_resampler_init leaves (everything else in the struct is zero)
InitRec(fi, fo, enc) ==
  LET dc == IF fo < fi THEN DownClass(fi, fo) ELSE <<0, 0, 0>> IN
  [fi |-> fi, fo |-> fo, enc |-> enc,
   kin |-> fi \div 1000, kout |-> fo \div 1000,
   delay |-> IF enc THEN DelayEnc[RateID(fi) + 1][RateID(fo) + 1] ELSE DelayDec[RateID(fi) + 1][RateID(fo) + 1],
   batch |-> (fi \div 1000) * MAX_BATCH_MS,
   fn |-> FnOf(fi, fo), coefs |-> dc[1], fracs |-> dc[2], order |-> dc[3],
   inv |-> InvRatio(fi, fo),
   \* ghost fill marks: how many samples of the (delayed) input stream E = zeros(delay) ++ input have been filtered, how
   \* many output samples written, how many input samples were dropped by down_FIR's "inLen > 1" exit
   consumed |-> 0, produced |-> 0, dropped |-> 0, calls |-> 0]

------------------------------------------------------------------------------
(* one call of the private resampler function on n input samples *)

Dom(S) == IF S.fn = FN_IIRFIR THEN 2 ELSE 1          \* index domain: the 2x up-sampled buffer for IIR_FIR
TapSpan(S) == IF S.fn = FN_IIRFIR THEN ORDER_FIR_12 ELSE S.order       \* taps buf_ptr[0 .. TapSpan-1]
BufLen(S) == S.batch * Dom(S) + TapSpan(S)             \* ALLOC( buf, ... )
MaxIndexQ16(S, n) == n * 65536 * Dom(S)                \* nSamplesIn << 16 (+1)
\* trip count of "for( index_Q16 = 0; index_Q16 < max_index_Q16; index_Q16 += index_increment_Q16 )"
NOutBatch(S, n) == (MaxIndexQ16(S, n) + S.inv - 1) \div S.inv
TapOf(S, j) == (j * S.inv) \div 65536                  \* buf_ptr = buf + (index_Q16 >> 16) for the j-th output of a batch
FracOf(S, j) == (j * S.inv) % 65536
\* the interpolation phase: down_FIR order 18: SMULWB(frac, FIR_Fracs); IIR_FIR: SMULWB(frac, 12); others: none
PhaseOf(S, j) == IF S.fn = FN_IIRFIR THEN (FracOf(S, j) * 12) \div 65536
                 ELSE IF S.fn = FN_DOWNFIR /\ S.order = 18 THEN (FracOf(S, j) * S.fracs) \div 65536 ELSE 0
PhaseCount(S) == IF S.fn = FN_IIRFIR THEN 12 ELSE IF S.fn = FN_DOWNFIR /\ S.order = 18 THEN S.fracs ELSE 1

\* batch sizes of one private call (while(1) { nSamplesIn = min(inLen, batchSize); ...; if (inLen > 1 | 0) ... else break })
RECURSIVE Batches(_, _)
Batches(S, n) ==
  LET nS == Min2(n, S.batch)
      rest == n - nS IN
  IF rest > (IF S.fn = FN_DOWNFIR THEN 1 ELSE 0) THEN <<nS>> \o Batches(S, rest) ELSE <<nS>>

RECURSIVE SumSeq(_)
SumSeq(s) == IF s = <<>> THEN 0 ELSE Head(s) + SumSeq(Tail(s))

SubOut(S, n) ==
  IF S.fn = FN_COPY THEN n
  ELSE IF S.fn = FN_UP2 THEN 2 * n
  ELSE LET b == Batches(S, n) IN SumSeq([i \in 1..Len(b) |-> NOutBatch(S, b[i])])
SubConsumed(S, n) == IF S.fn \in {FN_COPY, FN_UP2} THEN n ELSE SumSeq(Batches(S, n))

\* greatest buffer index the interpolation loop reads in a batch of n samples (-1: none)
MaxRead(S, n) == IF NOutBatch(S, n) = 0 THEN 0 - 1 ELSE TapOf(S, NOutBatch(S, n) - 1) + TapSpan(S) - 1
\* value of index_Q16 when the loop exits
ExitIndex(S, n) == NOutBatch(S, n) * S.inv

BatchSafe(S, n) ==
  /\ n <= S.batch
  /\ MaxRead(S, n) < n * Dom(S) + TapSpan(S)          \* only cells filled by the history copy and this batch's filter output
  /\ n * Dom(S) + TapSpan(S) <= BufLen(S)             \* filter output and the carry copy buf[n*Dom .. +TapSpan) stay inside buf
  /\ TapSpan(S) <= SFIR_LEN
  /\ ExitIndex(S, n) < 2147483647 - S.inv             \* no 32-bit overflow of index_Q16

------------------------------------------------------------------------------
(* silk_resampler( S, out, in, inLen ) *)

CallPre(S, inLen) == inLen >= S.kin /\ S.delay <= S.kin          \* the two celt_asserts

CallRec(S, inLen) ==
  LET nSamples == S.kin - S.delay
      first == SubOut(S, S.kin)                        \* from delayBuf, written at out[0..)
      second == SubOut(S, inLen - S.kin)               \* from in[nSamples..), written at out[Fs_out_kHz..)
      cons2 == SubConsumed(S, inLen - S.kin) IN
  [first |-> first, second |-> second,
   hw |-> Max2(first, IF second > 0 THEN S.kout + second ELSE 0),        \* one past the last output cell written
   overlap |-> first # S.kout,                                             \* gap or overwrite between the two parts
   inMaxRead |-> Max2(nSamples + cons2, inLen) ,                           \* one past the last input cell read (tail copy reads up to inLen)
   delayWr |-> S.delay + nSamples,                                         \* one past the last delayBuf cell written by the splice
   dropped |-> (inLen - S.kin) - cons2]

CallSafe(S, inLen) ==
  LET c == CallRec(S, inLen) IN
  /\ c.delayWr <= DELAYBUF_LEN /\ S.kin <= DELAYBUF_LEN /\ S.delay <= DELAYBUF_LEN
  /\ c.inMaxRead <= inLen /\ inLen - S.delay >= 0
  /\ S.fn \in {FN_IIRFIR, FN_DOWNFIR} =>
       /\ BatchSafe(S, S.kin)
       /\ \A i \in 1..Len(Batches(S, inLen - S.kin)) : BatchSafe(S, Batches(S, inLen - S.kin)[i])

CallNext(S, inLen) ==
  LET c == CallRec(S, inLen) IN
  [S EXCEPT !.consumed = @ + inLen - c.dropped, !.produced = @ + c.hw, !.dropped = @ + c.dropped, !.calls = @ + 1]

------------------------------------------------------------------------------
(* which input samples feed which output sample *)

\* lowest terms of the index ratio in the interpolation domain: P outputs per Q domain samples
RECURSIVE Gcd(_, _)
Gcd(a, b) == IF b = 0 THEN a ELSE Gcd(b, a % b)
PerOut(S) == S.kout \div Gcd(S.kout, S.kin * Dom(S))
PerIn(S) == (S.kin * Dom(S)) \div Gcd(S.kout, S.kin * Dom(S))

\* canonical tap / phase of global output o when every batch starts on a millisecond boundary (BatchCanon proves it)
CanonTap(S, o) == (o \div PerOut(S)) * PerIn(S) + TapOf(S, o % PerOut(S))
CanonPhase(S, o) == PhaseOf(S, o % PerOut(S))

\* index (in the delayed stream E) of the newest sample output o depends on; -1: history only
NewestE(S, o) ==
  IF S.fn = FN_COPY THEN o
  ELSE IF S.fn = FN_UP2 THEN o \div 2
  ELSE IF S.fn = FN_DOWNFIR THEN CanonTap(S, o) - 1
  ELSE ((CanonTap(S, o) + 1) \div 2) - 1            \* 2x domain: cells 2i, 2i+1 come from E[i]; newest cell CanonTap-1
\* ... and of the input stream proper (E = zeros(delay) ++ input)
NewestIn(S, o) == NewestE(S, o) - S.delay

\* first output index that can depend on input sample i
FirstDep(S, i) ==
  LET est == ((i + S.delay) * S.kout) \div S.kin
      lo == Max2(0, est - 3 * S.kout)
      C == {o \in lo..(est + 3 * S.kout) : NewestIn(S, o) >= i} IN
  CHOOSE o \in C : \A o2 \in C : o <= o2

------------------------------------------------------------------------------
(* callers' contracts *)

\* silk/dec_API.c: *nSamplesOut = nSamplesOutDec * API_sampleRate / (fs_kHz * 1000), one resampler call of nSamplesOutDec samples
DecOut(fsk, api, ms) == ((ms * fsk) * api) \div (fsk * 1000)
\* a decoder whose API rate equals the internal rate runs the copy path: a pure delay of CopyDelay samples.  Pushing that
\* output through a resampler internal -> api reproduces the output of a decoder at rate api, InSituShift samples later
\* (whole, because CopyDelay is a multiple of every input period: T_Dec); harness/resampler.c measures exactly this
CopyDelay(fi) == DelayDec[RateID(fi) + 1][RateID(fi) + 1]
InSituShift(fi, fo) == (CopyDelay(fi) * (fo \div 1000)) \div (fi \div 1000)
\* silk/enc_API.c: 10 ms blocks: nSamplesFromInput = nSamplesToBuffer * API_fs_Hz / (fs_kHz * 1000)
EncFromInput(fsk, api, nToBuffer) == (nToBuffer * api) \div (fsk * 1000)

\* silk_setup_resamplers (control_codec.c) on a rate change old_fsk -> new_fsk with API rate api:
\*   buf_length_ms = 2 * nb_subfr * 5 + LA_SHAPE_MS(5); old_buf_samples = buf_length_ms * old_fsk
\*   temp resampler (old_fsk*1000 -> api, forEnc 0): api_buf_samples = buf_length_ms * (api / 1000)
\*   new resampler (api -> new_fsk*1000, forEnc 1) converts api_buf_samples back into x_buf
LA_SHAPE_MS == 5
X_BUF_LEN(fsk) == 2 * 20 * fsk + LA_SHAPE_MS * fsk     \* x_buf[ 2 * MAX_FRAME_LENGTH + LA_SHAPE_MAX ], MAX_FRAME_LENGTH = 20 ms * 16
X_BUF_MAX == 2 * 320 + 5 * 16
SetupResamplers(oldk, newk, api, nbSubfr) ==
  LET ms == 2 * nbSubfr * 5 + LA_SHAPE_MS
      T == InitRec(oldk * 1000, api, FALSE)
      N == InitRec(api, newk * 1000, TRUE) IN
  [ms |-> ms, oldSamples |-> ms * oldk, apiSamples |-> ms * (api \div 1000),
   upOut |-> CallRec(T, ms * oldk).hw, downOut |-> CallRec(N, ms * (api \div 1000)).hw,
   newSamples |-> ms * newk]
=============================================================================
