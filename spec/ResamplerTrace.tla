--------------------------- MODULE ResamplerTrace ---------------------------
(* Validation of recorded executions of the real resampler (harness/resampler.c) *)
(* against module Resampler.  Stateless: one initial state per recorded case;    *)
(* the always-true invariant Judge prints <<"REJ", l, class, clause>> for every   *)
(* clause a case breaks: class "prop" = a clause a listed property states         *)
(* (C01/C02 sample count and memory safety, C12 determinism / copy / reset),      *)
(* class "drift" = the implementation differs from the model (SPEC-DRIFT).        *)
EXTENDS Resampler, Json, IOUtils, TLC
VARIABLE l

Tr == ndJsonDeserialize(IOEnv.TRACE)

IMP_SLACK == 12          \* outputs: calibrated (largest seen 5, at 8 -> 48 kHz, over all pairs x 3 chunkings x 60+ positions; R3: >= 2x)
\* what the delay matrices are for: the delay of the impulse-response peak (inputDelay + filter delay) is equalised per
\* internal rate.  Centres in microseconds measured over all pairs (spread <= +-65 us incl. the sub-sample position of the
\* impulse); tolerance 250 us (R3: > 2x the spread)
DelayCentre(R) == IF R.enc THEN (IF R.kout = 8 THEN 750 ELSE IF R.kout = 12 THEN 600 ELSE 640)
                  ELSE (IF R.kin = 8 THEN 560 ELSE IF R.kin = 12 THEN 750 ELSE 740)
DELAY_TOL == 250
PeakDelayUs(R, e) == (e.peak * 1000) \div R.kout - (e.i * 1000) \div R.kin

StOf(R) == <<R.kin, R.kout, R.delay, R.batch, R.inv, R.fn, R.coefs, R.fracs, R.order>>
B(x) == IF x THEN 1 ELSE 0
Acc(e) == InitAccepts(e.fi, e.fo, e.enc = 1)
R0(e) == InitRec(e.fi, e.fo, e.enc = 1)

\* ---- TOC arithmetic (RFC 6716 section 3.1), enough for the packets of the tree's own encoder
TocCfg(t) == t \div 8
TocFrames(e) == LET c == e.toc % 4 IN IF c = 0 THEN 1 ELSE IF c = 3 THEN e.cnt % 64 ELSE 2
\* samples per frame at rate fs
TocSpf(t, fs) == LET c == TocCfg(t) IN
  IF c < 12 THEN (fs * <<10, 20, 40, 60>>[(c % 4) + 1]) \div 1000
  ELSE IF c < 16 THEN (fs * <<10, 20>>[(c % 2) + 1]) \div 1000
  ELSE ((fs \div 400) * <<1, 2, 4, 8>>[(c % 4) + 1])
TocIntFs(t) == LET c == TocCfg(t) IN IF c < 4 THEN 8000 ELSE IF c < 8 THEN 12000 ELSE 16000

\* each clause: <<class, name, holds>>
Clauses(e) ==
  IF e.k = "init" THEN
    << <<"drift", "G14.accept", e.r = (IF Acc(e) THEN 0 ELSE 0 - 1) /\ e.r2 = e.r>>,
       <<"drift", "G14.initstate", Acc(e) /\ e.r = 0 => e.st = StOf(R0(e))>>,
       <<"drift", "G14.initfresh", e.same = 1>> >>
  ELSE IF e.k = "seq" THEN
    LET R == R0(e) IN
    << <<"prop", "C01.canary", \A i \in 1..Len(e.can) : e.can[i] = 1>>,
       <<"drift", "G14.ret", e.r = 0 /\ \A i \in 1..Len(e.ret) : e.ret[i] = 0>>,
       <<"drift", "G14.count", e.r = 0 => \A i \in 1..Len(e.lens) :
                    (CallPre(R, e.lens[i]) => e.hw[i] = CallRec(R, e.lens[i]).hw /\ e.holes[i] = 0)>>,
       <<"drift", "G14.state", e.r = 0 => e.st = StOf(R)>> >>
  ELSE IF e.k = "chunk" THEN
    << <<"prop", "C12.chunking", e.ms = e.msb => (e.da = e.db /\ e.na = e.nb)>>,
       <<"drift", "G14.count", e.na = e.ms * R0(e).kout /\ e.nb = e.msb * R0(e).kout>> >>
  ELSE IF e.k = "mem" THEN
    << <<"prop", "C12.memory", e.df = e.dd /\ e.nf = e.nd>>,
       <<"prop", "C12.copy", e.cloned = 1 => (e.df = e.dc /\ e.nf = e.nc)>>,
       <<"drift", "G14.initfresh", e.sd = 1 /\ e.sc = 1>>,
       <<"drift", "G14.count", e.nf = e.ms * R0(e).kout>> >>
  ELSE IF e.k = "imp" THEN
    LET R == R0(e) IN
    << <<"drift", "G14.count", e.n = e.ms * R.kout>>,
       <<"drift", "G14.causal", (e.first >= 0 /\ e.i >= 0 /\ e.i < e.ms * R.kin) => e.first >= FirstDep(R, e.i)>>,
       <<"drift", "G14.groupdelay", (e.i >= 0 /\ e.i < (e.ms - 3) * R.kin /\ e.peak >= 0) =>
            (PeakDelayUs(R, e) >= DelayCentre(R) - DELAY_TOL /\ PeakDelayUs(R, e) <= DelayCentre(R) + DELAY_TOL)>>,
       <<"drift", "G14.firstdep", (e.i >= 0 /\ e.i < (e.ms - 2) * R.kin) => (e.first >= 0 /\ e.first <= FirstDep(R, e.i) + IMP_SLACK)>> >>
  ELSE IF e.k = "dec" THEN
    IF e.toc < 0 THEN << <<"prop", "C02.encode", FALSE>> >>
    ELSE
    LET want == TocFrames(e) * TocSpf(e.toc, e.dapi)
        R == InitRec(TocIntFs(e.toc), e.dapi, FALSE) IN
    << <<"prop", "C01.count", e.ret = want /\ e.lpd = want>>,
       <<"prop", "C01.canary", e.can = 1>>,
       <<"prop", "C02.duration", TocFrames(e) * TocSpf(e.toc, e.api) = (e.api * e.fms) \div 1000>>,
       <<"drift", "G14.decstate", TocCfg(e.toc) < 16 => e.st = StOf(R)>>,
       <<"drift", "G14.decstate1", (TocCfg(e.toc) < 16 /\ "st1" \in DOMAIN e /\ e.st1[1] # 0 /\ e.toc % 8 >= 4) => e.st1 = StOf(R)>>,
       <<"drift", "G14.deccall", TocCfg(e.toc) < 16 =>
            LET fms == IF TocCfg(e.toc) < 12 /\ TocCfg(e.toc) % 4 = 0 THEN 10 ELSE IF TocCfg(e.toc) >= 12 /\ TocCfg(e.toc) % 2 = 0 THEN 10 ELSE 20
                n == fms * R.kin IN
            CallPre(R, n) /\ CallSafe(R, n) /\ CallRec(R, n).hw = DecOut(R.kin, e.dapi, fms)>> >>
  ELSE IF e.k = "insitu" THEN
    LET int == TocIntFs(e.toc)
        sh == InSituShift(int, e.dapi)
        In(x, q) == \E i \in 1..Len(q) : q[i] = x IN
    << <<"drift", "G14.insitu.setup", e.toc >= 0 /\ (e.tocsame = 1 => (e.intfs = int /\ e.nz > 0 /\ e.na * (int \div 1000) = e.nb * (e.dapi \div 1000)))>>,
       <<"drift", "G14.insitu.values", (e.toc >= 0 /\ e.tocsame = 1) => (In(sh, e.sh0) /\ (e.ch = 2 => In(sh, e.sh1)))>> >>
  ELSE IF e.k = "enc" THEN
    << <<"prop", "C02.encode", e.len >= 1>>,
       <<"drift", "G14.encstate", (e.fsk \in {8, 12, 16} /\ e.apif = e.api) /\ e.st = StOf(InitRec(e.apif, e.fsk * 1000, TRUE))>>,
       <<"drift", "G14.encstate1", ("st1" \in DOMAIN e /\ e.st1[1] # 0) => e.st1 = StOf(InitRec(e.apif, e.fsk1 * 1000, TRUE))>> >>
  ELSE << <<"drift", "G14.unknown", FALSE>> >>

\* the TOC arithmetic used above is OpusConst's (the framework's shared reading of RFC 6716 section 3.1): checked once
OC == INSTANCE OpusConst
ASSUME \A t \in 0..255 : \A fs \in Rates5 : TocSpf(t, fs) = OC!SamplesPerFrame(t, fs)

Judge == LET e == Tr[l]
             c == Clauses(e) IN
         \A i \in 1..Len(c) : c[i][3] \/ PrintT(<<"REJ", l, c[i][1], c[i][2]>>)

Init == l \in 1..Len(Tr)
Next == UNCHANGED l
Spec == Init /\ [][Next]_l
=============================================================================
