---------------------------- MODULE Resampler_gen ----------------------------
(* Behaviour generation for harness/resampler.c: every maximal call schedule of  *)
(* Resampler_mc (pair x forEnc x MaxCalls call lengths from Ks) is printed once.  *)
EXTENDS Resampler_mc
VARIABLE h
InitG == Init /\ h = <<>>
NextG == \/ DoInit /\ h' = h
         \/ DoCall /\ h' = Append(h, last'.k)
SpecG == InitG /\ [][NextG]_<<S, last, h>>
Emit == (Accepted(S) /\ S.calls = MaxCalls) =>
          PrintT(<<"SCHED", S.fi, S.fo, IF S.enc THEN 1 ELSE 0, h>>)
=============================================================================
