---------------------------- MODULE Resampler_mc ----------------------------
(* Exhaustive TLC runs of the Resampler machine: every (FsIn, FsOut, forEnc)   *)
(* the init is offered (documented rates and foreign ones), every call length   *)
(* k ms for k in Ks, sequences of MaxCalls calls, re-initialisation from any    *)
(* state; the theorems are invariants over the reachable states.                *)
EXTENDS Resampler, TLC

CONSTANTS Cand,        \* candidate rates offered to silk_resampler_init
          Ks,          \* call lengths in ms
          MaxCalls,    \* calls per stream
          ReInit       \* TRUE: Init may also be taken from a used state

VARIABLES S,           \* the resampler state record, or a rejection record, or "none"
          last         \* what the last step did (judged by the invariants)

vars == <<S, last>>
Ks60 == 1..60

None == [none |-> TRUE]
Accepted(s) == "fn" \in DOMAIN s

Init == S = None /\ last = [a |-> "start"]

DoInit ==
  /\ (S = None \/ (ReInit /\ Accepted(S) /\ S.calls >= 1))
  /\ \E fi \in Cand, fo \in Cand, enc \in BOOLEAN :
       /\ S' = IF InitAccepts(fi, fo, enc) THEN InitRec(fi, fo, enc) ELSE [rej |-> TRUE, fi |-> fi, fo |-> fo, enc |-> enc]
       /\ last' = [a |-> "init", fresh |-> (S = None)]

DoCall ==
  /\ Accepted(S) /\ S.calls < MaxCalls
  /\ \E k \in Ks :
       LET n == k * S.kin IN
       /\ last' = [a |-> "call", k |-> k, pre |-> CallPre(S, n), safe |-> CallSafe(S, n), c |-> CallRec(S, n), kout |-> S.kout]
       /\ S' = CallNext(S, n)

Next == DoInit \/ DoCall
Spec == Init /\ [][Next]_vars

------------------------------------------------------------------------------
Documented(fi, fo, enc) == IF enc THEN fi \in Rates5 /\ fo \in Rates3 ELSE fi \in Rates3 /\ fo \in Rates5

\* Init accepts exactly the documented pairs (in particular: every documented down-sampling ratio has a coefficient table)
T_Accept == S # None => (Accepted(S) <=> Documented(S.fi, S.fo, S.enc))

\* the function matrix of the header comment of resampler.c
MatrixFn(fi, fo) ==
  IF fi = fo THEN FN_COPY
  ELSE IF fo = 2 * fi THEN FN_UP2
  ELSE IF fo > fi THEN FN_IIRFIR ELSE FN_DOWNFIR
T_Init == Accepted(S) =>
  /\ S.fn = MatrixFn(S.fi, S.fo)
  /\ S.delay \in 0..S.kin /\ S.kin <= DELAYBUF_LEN              \* celt_assert( S->inputDelay <= S->Fs_in_kHz )
  /\ S.batch = 10 * S.kin /\ S.batch <= 480                      \* RESAMPLER_MAX_BATCH_SIZE_IN
  /\ (S.fn = FN_DOWNFIR <=> S.order \in {18, 24, 36})
  /\ (S.fn = FN_DOWNFIR => S.order <= SFIR_LEN /\ S.fracs \in 1..3 /\ (S.order = 18 <=> S.fracs > 1))
  /\ LoopSteps(S.fi, S.fo) <= LOOP_MAX                           \* the round-up loop terminates
  /\ S.inv > 0 /\ S.inv < 2 * 65536 * 6
  \* invRatio_Q16 is the least Q16 value whose product with Fs_out reaches Fs_in (<< up2x)
  /\ (RoundUpLoop => SMULWW(S.inv, S.fo) >= InvTarget(S.fi, S.fo))

\* every call of k ms produces exactly k * Fs_out_kHz samples, first part exactly 1 ms, nothing dropped, all accesses inside
T_Call == last.a = "call" =>
  /\ last.pre /\ last.safe
  /\ last.c.hw = last.k * last.kout
  /\ ~last.c.overlap
  /\ last.c.dropped = 0
T_Stream == Accepted(S) =>
  /\ S.produced * S.kin = S.consumed * S.kout
  /\ S.dropped = 0

\* a re-initialised state equals the freshly initialised one (C12 reset at this level): InitRec does not read S
T_InitFresh == (last.a = "init" /\ Accepted(S)) => S = InitRec(S.fi, S.fo, S.enc)

------------------------------------------------------------------------------
(* pair-level theorems, evaluated once per pair (in the state right after Init) *)
Fresh == Accepted(S) /\ S.calls = 0
IsFir(s) == s.fn \in {FN_IIRFIR, FN_DOWNFIR}

\* within a batch of m ms the j-th output has the canonical tap and phase: the rounding of invRatio_Q16 never moves an
\* index across an integer or phase boundary (drift < one phase step over 10 ms)
CanonOK(s) == IsFir(s) => \A m \in 1..MAX_BATCH_MS : \A j \in 0..(NOutBatch(s, m * s.kin) - 1) :
                  TapOf(s, j) = CanonTap(s, j) /\ PhaseOf(s, j) = CanonPhase(s, j) /\ PhaseOf(s, j) < PhaseCount(s)
CountOK(s) == IsFir(s) => \A m \in 1..MAX_BATCH_MS : NOutBatch(s, m * s.kin) = m * s.kout
\* the exact rational positions: output j of a period sits at j * PerIn / PerOut; tap = floor, phase = floor(frac * phases)
ExactOK(s) == IsFir(s) => \A j \in 0..(PerOut(s) - 1) :
                  /\ TapOf(s, j) = (j * PerIn(s)) \div PerOut(s)
                  /\ PhaseOf(s, j) = ((((j * PerIn(s)) % PerOut(s)) * PhaseCount(s)) \div PerOut(s))
T_Canon == Fresh => CanonOK(S) /\ CountOK(S) /\ ExactOK(S)

\* where the round-up loop is needed: with the loop removed the pair breaks iff the loop runs at least once
NoLoop(s) == [s EXCEPT !.inv = Inv0(s.fi, s.fo)]
PairOK(s) == CanonOK(s) /\ CountOK(s) /\ ExactOK(s)
T_LoopIff == (Fresh /\ RoundUpLoop) => ((LoopSteps(S.fi, S.fo) > 0 /\ IsFir(S)) <=> ~PairOK(NoLoop(S)))

\* chunking invariance, explicitly: the (tap, phase) sequence of a 20 ms stream in three chunkings, built from the real
\* call / batch structure, is the canonical one
RECURSIVE BatchDeps(_, _, _)
\* deps of the batches bs starting at domain offset off
BatchDeps(s, bs, off) ==
  IF bs = <<>> THEN <<>>
  ELSE [j \in 1..NOutBatch(s, Head(bs)) |-> <<off + TapOf(s, j - 1), PhaseOf(s, j - 1)>>] \o BatchDeps(s, Tail(bs), off + Head(bs) * Dom(s))
RECURSIVE StreamDeps(_, _, _)
StreamDeps(s, ks, off) ==
  IF ks = <<>> THEN <<>>
  ELSE LET n == Head(ks) * s.kin IN
       BatchDeps(s, <<s.kin>>, off) \o BatchDeps(s, Batches(s, n - s.kin), off + s.kin * Dom(s))
         \o StreamDeps(s, Tail(ks), off + n * Dom(s))
Chunkings == << <<20>>, <<10, 10>>, [i \in 1..20 |-> 1], <<1, 19>>, <<7, 2, 11>>, <<15, 5>> >>
T_Chunking == (Fresh /\ IsFir(S)) =>
  LET ref == [o \in 1..(20 * S.kout) |-> <<CanonTap(S, o - 1), CanonPhase(S, o - 1)>>] IN
  \A i \in 1..Len(Chunkings) : StreamDeps(S, Chunkings[i], 0) = ref

\* causality bookkeeping: FirstDep is monotone and consistent with NewestIn
T_Dep == Fresh => \A i \in {0, 1, 7, S.kin, 3 * S.kin + 1, 10 * S.kin - 1} :
            LET o == FirstDep(S, i) IN NewestIn(S, o) >= i /\ (o > 0 => NewestIn(S, o - 1) < i)

------------------------------------------------------------------------------
(* callers, evaluated in the initial state *)
T_Dec == S = None => \A fsk \in {8, 12, 16}, api \in Rates5, ms \in {10, 20} :
           LET R == InitRec(fsk * 1000, api, FALSE) IN
           /\ CallPre(R, ms * fsk) /\ CallSafe(R, ms * fsk)
           /\ CallRec(R, ms * fsk).hw = DecOut(fsk, api, ms)
           /\ DecOut(fsk, api, ms) = ms * (api \div 1000)
           \* the copy path's delay is a whole number of periods of every decoder-side resampler, hence a whole output shift
           /\ (CopyDelay(fsk * 1000) * Dom(R)) % PerIn(R) = 0
           /\ (CopyDelay(fsk * 1000) * R.kout) % R.kin = 0
           /\ InSituShift(fsk * 1000, api) * R.kin = CopyDelay(fsk * 1000) * R.kout
T_Enc == S = None => \A fsk \in {8, 12, 16}, api \in Rates5 :
           LET R == InitRec(api, fsk * 1000, TRUE)
               n == EncFromInput(fsk, api, 10 * fsk) IN
           /\ n = 10 * (api \div 1000)
           /\ CallPre(R, n) /\ CallSafe(R, n) /\ CallRec(R, n).hw = 10 * fsk
T_Setup == S = None => \A oldk \in {8, 12, 16}, newk \in {8, 12, 16}, api \in Rates5, nb \in {2, 4} :
           LET r == SetupResamplers(oldk, newk, api, nb)
               T == InitRec(oldk * 1000, api, FALSE)
               N == InitRec(api, newk * 1000, TRUE) IN
           /\ CallPre(T, r.oldSamples) /\ CallSafe(T, r.oldSamples) /\ r.upOut = r.apiSamples      \* fits x_buf_API_fs_Hz exactly
           /\ CallPre(N, r.apiSamples) /\ CallSafe(N, r.apiSamples) /\ r.downOut = r.newSamples     \* = new_buf_samples
           /\ r.oldSamples <= X_BUF_MAX /\ r.newSamples <= X_BUF_MAX                                  \* fits x_buf / x_bufFIX

\* agreement with SilkEncCtl.tla (the owner of the rate-switch control machine): its internal rates are this module's encoder
\* output rates; every (API rate, internal rate) its ControlBW can select from an Opus-legal API rate is a pair Init accepts;
\* the two API rates check_control_input admits beyond Opus' five (32000, 44100) are exactly the ones Init would reject
SE == INSTANCE SilkEncCtl
T_CtlAgree == S = None =>
  /\ SE!IntRates = Rates3 /\ Rates5 \subseteq SE!ApiRates
  /\ \A api \in SE!ApiRates, fs \in SE!IntRates : InitAccepts(api, fs, TRUE) <=> api \in Rates5
  /\ {api \in SE!ApiRates : ~InitAccepts(api, 16000, TRUE)} = {32000, 44100}
  /\ \A api \in Rates5, desI \in SE!IntRates, maxI \in SE!IntRates, minI \in SE!IntRates :
        /\ InitAccepts(api, Min2(desI, api), TRUE)                                  \* ControlBW path "init"
        /\ InitAccepts(api, Max2(Min2(api, maxI), minI), TRUE)                      \* ControlBW path "clamp"
        /\ InitAccepts(Min2(desI, api), api, FALSE)                                 \* the temporary resampler of silk_setup_resamplers

\* vacuity guards: must be violated
W_NoDown == ~(Accepted(S) /\ S.fn = FN_DOWNFIR /\ S.calls = MaxCalls)
W_NoIirFir == ~(Accepted(S) /\ S.fn = FN_IIRFIR /\ S.calls = MaxCalls)
W_NoReject == ~(S # None /\ ~Accepted(S))

PrintPairs == Fresh => PrintT(<<"PAIR", S.fi, S.fo, IF S.enc THEN 1 ELSE 0, S.fn, S.delay, S.inv, LoopSteps(S.fi, S.fo), S.order, S.fracs>>)
=============================================================================
