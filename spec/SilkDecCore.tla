---------------------------- MODULE SilkDecCore ----------------------------
(***************************************************************************)
(* Growth module G15: the SILK decoder's synthesis buffers as an exact      *)
(* INDEX MACHINE - which array cells every frame reads and writes.          *)
(*                                                                          *)
(*   silk/decode_core.c   silk_decode_core                                   *)
(*   silk/decode_frame.c  the outBuf shift                                   *)
(*   silk/decoder_set_fs.c geometry, what is cleared                         *)
(*   silk/PLC.c           silk_PLC_conceal / silk_PLC_energy (indices only;  *)
(*                        the PARAMETERS are module SilkPlc's, instanced     *)
(*                        here for the lag evolution)                        *)
(*   silk/CNG.c           buffer rotation, mask, CNG_sig_Q14                 *)
(*   silk/dec_API.c       the stereo carving of samplesOut1_tmp_storage1     *)
(*                                                                          *)
(* Arrays are abstracted to their LENGTHS; an access is a record            *)
(*   [a |-> array, w |-> 0 read / 1 write / 2 read-modify-write,             *)
(*    lo |-> first cell, hi |-> last cell, ln |-> source line]               *)
(* (hi < lo: empty).  A call is the SEQUENCE of its accesses in program      *)
(* order; loops whose iterations read cells that earlier iterations of the   *)
(* same loop wrote are split into "cells that must exist before the loop"    *)
(* and a loop-carried distance condition (LoopOK).                           *)
(*                                                                          *)
(* Arrays:  sLTP[ltp]  sLTPQ[ltp+frl] (sLTP_Q15 / sLTP_Q14)  res[sfl]         *)
(*          sLPC[sfl+16]  exc[320] (exc_Q14)  outBuf[480]  lpcbuf[16]         *)
(*          (sLPC_Q14_buf)  xq[frl]  pulses[(frl+15)&~15]  cngbuf[320]        *)
(*          cngsig[len+16]  frame[len]  tmp[nch*(frl+2)]                      *)
(***************************************************************************)
EXTENDS Integers, Sequences, FiniteSets, TLC

PL == INSTANCE SilkPlc

MAX_LPC_ORDER == 16
LTP_ORDER == 5
LTPH == 2                            \* LTP_ORDER / 2
MAX_FRAME_LENGTH == 320
MAX_SUB_FRAME_LENGTH == 80
OUTBUF_LEN == 480                    \* MAX_FRAME_LENGTH + 2 * MAX_SUB_FRAME_LENGTH
RAND_BUF_SIZE == 128
CNG_BUF_MASK_MAX == 255
SHELL == 16
TYPE_VOICED == 2
MAX_FRAMES_PER_PACKET == 3

Min2(a, b) == IF a < b THEN a ELSE b
Max2(a, b) == IF a > b THEN a ELSE b

\* silk_decoder_set_fs: the geometry is a function of (fs_kHz, nb_subfr)
Geo(fs, nb) == [fs |-> fs, nb |-> nb, sfl |-> 5 * fs, frl |-> nb * 5 * fs, ltp |-> 20 * fs, ord |-> IF fs = 16 THEN 16 ELSE 10]
MinLag(fs) == 2 * fs
MaxLag(fs) == 18 * fs

Size(g, a, len) ==
  CASE a = "sLTP" -> g.ltp
    [] a = "sLTPQ" -> g.ltp + g.frl
    [] a = "res" -> g.sfl
    [] a = "sLPC" -> g.sfl + MAX_LPC_ORDER
    [] a = "exc" -> MAX_FRAME_LENGTH
    [] a = "outBuf" -> OUTBUF_LEN
    [] a = "lpcbuf" -> MAX_LPC_ORDER
    [] a = "xq" -> g.frl
    [] a = "pulses" -> ((g.frl + SHELL - 1) \div SHELL) * SHELL
    [] a = "cngbuf" -> MAX_FRAME_LENGTH
    [] a = "cngsig" -> len + MAX_LPC_ORDER
    [] a = "frame" -> len
    [] OTHER -> 0

A(a, w, lo, hi, ln) == [a |-> a, w |-> w, lo |-> lo, hi |-> hi, ln |-> ln]
Inside(g, x, len) == x.hi < x.lo \/ (x.lo >= 0 /\ x.hi < Size(g, x.a, len))
OutOfBounds(g, acc, len) == {i \in 1..Len(acc) : ~Inside(g, acc[i], len)}

-----------------------------------------------------------------------------
(* silk_decode_core.  d: lagPrev, lc (lossCnt), ps (prevSignalType).          *)
(* in: sig, pl[1..4], interp (NLSFInterpCoef_Q2 < 4), gch[k] gain differs     *)
(* from the previous sub-frame's, ga[k] gain_adj_Q16 # 1<<16 (implies gch).   *)

Forced(d, in, k) == d.lc > 0 /\ d.ps = TYPE_VOICED /\ in.sig # TYPE_VOICED /\ k < 2      \* decode_core.c:132
Voiced(d, in, k) == in.sig = TYPE_VOICED \/ Forced(d, in, k)
LagAt(d, in, k) == IF Forced(d, in, k) THEN d.lagPrev ELSE in.pl[k + 1]
Rewhiten(in, k) == k = 0 \/ (k = 2 /\ in.interp = 1)                                     \* :147
StartIdx(g, lag) == g.ltp - lag - g.ord - LTPH                                           \* :149
\* what the frame leaves in psDecCtrl->pitchL (:139 overwrites the forced sub-frames)
PitchOut(g, d, in) == [k \in 1..4 |-> IF k <= g.nb /\ Forced(d, in, k - 1) THEN d.lagPrev ELSE in.pl[k]]

\* accesses of sub-frame k (0-based); bi = sLTP_buf_idx on entry
SubAcc(g, d, in, k, bi) ==
  LET v == Voiced(d, in, k)
      lag == LagAt(d, in, k)
      si == StartIdx(g, lag)
      gadj == IF in.gch[k + 1] = 1 THEN <<A("sLPC", 2, 0, MAX_LPC_ORDER - 1, 121)>> ELSE <<>>
      whiten == (IF k = 2 THEN <<A("xq", 0, 0, 2 * g.sfl - 1, 153), A("outBuf", 1, g.ltp, g.ltp + 2 * g.sfl - 1, 153)>> ELSE <<>>)
                \o <<A("outBuf", 0, si + k * g.sfl, g.ltp + k * g.sfl - 1, 156), A("sLTP", 1, si, g.ltp - 1, 156),
                     A("sLTP", 0, g.ltp - lag - LTPH, g.ltp - 1, 165), A("sLTPQ", 1, bi - lag - LTPH, bi - 1, 165)>>
      rescale == IF in.ga[k + 1] = 1 THEN <<A("sLTPQ", 2, bi - lag - LTPH, bi - 1, 171)>> ELSE <<>>
      ltp == IF v THEN (IF Rewhiten(in, k) THEN whiten ELSE rescale)
                       \o <<A("sLTPQ", 0, bi - lag - LTPH, Min2(bi - 1, bi - lag + LTPH + g.sfl - 1), 185),
                            A("exc", 0, k * g.sfl, (k + 1) * g.sfl - 1, 193), A("res", 1, 0, g.sfl - 1, 193),
                            A("sLTPQ", 1, bi, bi + g.sfl - 1, 196), A("res", 0, 0, g.sfl - 1, 228)>>
             ELSE <<A("exc", 0, k * g.sfl, (k + 1) * g.sfl - 1, 200)>>
      lpc == <<A("sLPC", 0, MAX_LPC_ORDER - g.ord, MAX_LPC_ORDER - 1, 208), A("sLPC", 1, MAX_LPC_ORDER, MAX_LPC_ORDER + g.sfl - 1, 228),
               A("xq", 1, k * g.sfl, (k + 1) * g.sfl - 1, 231),
               A("sLPC", 0, g.sfl, g.sfl + MAX_LPC_ORDER - 1, 235), A("sLPC", 1, 0, MAX_LPC_ORDER - 1, 235)>>
  IN gadj \o ltp \o lpc

RECURSIVE SubLoopAcc(_, _, _, _, _)
SubLoopAcc(g, d, in, k, bi) ==
  IF k = g.nb THEN <<>>
  ELSE SubAcc(g, d, in, k, bi) \o SubLoopAcc(g, d, in, k + 1, IF Voiced(d, in, k) THEN bi + g.sfl ELSE bi)

CoreAcc(g, d, in) ==
  <<A("pulses", 0, 0, g.frl - 1, 81), A("exc", 1, 0, g.frl - 1, 81),
    A("lpcbuf", 0, 0, MAX_LPC_ORDER - 1, 97), A("sLPC", 1, 0, MAX_LPC_ORDER - 1, 97)>>
  \o SubLoopAcc(g, d, in, 0, g.ltp)
  \o <<A("sLPC", 0, 0, MAX_LPC_ORDER - 1, 241), A("lpcbuf", 1, 0, MAX_LPC_ORDER - 1, 241)>>

\* the sub-frames that re-whiten, their start_idx (celt_assert( start_idx > 0 ), :150) and the silk_LPC_analysis_filter call
WhitenK(g, d, in) == {k \in 0..(g.nb - 1) : Voiced(d, in, k) /\ Rewhiten(in, k)}
StartIdxs(g, d, in) == {StartIdx(g, LagAt(d, in, k)) : k \in WhitenK(g, d, in)}
\* <<offset of the input in outBuf, len, order>>, in call order
AfOf(g, d, in, k) == LET si == StartIdx(g, LagAt(d, in, k)) IN <<si + k * g.sfl, g.ltp - si, g.ord>>
CoreAf(g, d, in) ==
  (IF 0 \in WhitenK(g, d, in) THEN <<AfOf(g, d, in, 0)>> ELSE <<>>) \o (IF 2 \in WhitenK(g, d, in) THEN <<AfOf(g, d, in, 2)>> ELSE <<>>)
\* loop-carried reads (:185-196, PLC.c:338-348): iteration i reads up to sLTP_buf_idx - lag + 2 + i and has written up to
\* sLTP_buf_idx + i - 1; the read is of an existing cell iff lag >= 3
VoicedLags(g, d, in) == {LagAt(d, in, k) : k \in {j \in 0..(g.nb - 1) : Voiced(d, in, j)}}
LoopOK(lag) == lag - LTPH >= 1

-----------------------------------------------------------------------------
(* read-before-write over the scratch arrays of one call: the written part   *)
(* of each is an interval (writes that neither overlap nor abut the interval *)
(* replace it: conservative)                                                 *)
Scratch == {"sLTP", "sLTPQ", "sLPC", "res", "cngsig"}
NoneW == [a \in Scratch |-> <<0, -1>>]
RECURSIVE Rbw(_, _, _, _)
Rbw(acc, i, wr, bad) ==
  IF i > Len(acc) THEN bad
  ELSE LET x == acc[i] IN
       IF x.a \notin Scratch \/ x.hi < x.lo THEN Rbw(acc, i + 1, wr, bad)
       ELSE LET w == wr[x.a]
                rdOK == x.w = 1 \/ (w[1] <= x.lo /\ x.hi <= w[2])
                nw == IF x.w = 0 THEN w
                      ELSE IF w[2] < w[1] THEN <<x.lo, x.hi>>
                      ELSE IF x.lo <= w[2] + 1 /\ x.hi >= w[1] - 1 THEN <<Min2(w[1], x.lo), Max2(w[2], x.hi)>>
                      ELSE <<x.lo, x.hi>>
            IN Rbw(acc, i + 1, [wr EXCEPT ![x.a] = nw], IF rdOK THEN bad ELSE bad \cup {<<x.ln, x.a, x.lo, x.hi, w>>})
ReadBeforeWrite(acc) == Rbw(acc, 1, NoneW, {})

-----------------------------------------------------------------------------
(* silk_decode_frame: the outBuf shift (decode_frame.c:104-107, 145-148)     *)
MvLen(g) == g.ltp - g.frl
ShiftAcc(g) ==
  <<A("outBuf", 0, g.frl, g.frl + MvLen(g) - 1, 106), A("outBuf", 1, 0, MvLen(g) - 1, 106),
    A("frame", 0, 0, g.frl - 1, 107), A("outBuf", 1, MvLen(g), g.ltp - 1, 107)>>
FrameOK(g) == g.frl > 0 /\ g.frl <= MAX_FRAME_LENGTH /\ g.ltp >= g.frl                  \* :68, :104
PulsesLen(g) == ((g.frl + SHELL - 1) \div SHELL) * SHELL                                 \* :78 (120 -> 128 at 10 ms, 12 kHz)

-----------------------------------------------------------------------------
(* silk_PLC_conceal.  p: pitchL_Q8 on entry, pnb / psfl: sPLC.nb_subfr /       *)
(* sPLC.subfr_length (what silk_PLC_update or silk_PLC_Reset left), first:   *)
(* the first of the last two sub-frames has the lower energy.  slack: the    *)
(* lag clamp raised by slack samples (0 in the code; witness runs).          *)
Drift(p, fs, slack) == Min2(PL!SMLAWB(p, p, PL!PITCH_DRIFT_FAC), PL!MaxLagQ8(fs) + 256 * slack)        \* PLC.c:360-361
RECURSIVE DriftN(_, _, _, _)
DriftN(p, fs, slack, n) == IF n = 0 THEN p ELSE DriftN(Drift(p, fs, slack), fs, slack, n - 1)
RandOff(pnb, psfl, first) == Max2(0, (IF first THEN pnb - 1 ELSE pnb) * psfl - RAND_BUF_SIZE)      \* :264 / :267
PlcIdx(g, p) == g.ltp - PL!LagOf(p) - g.ord - LTPH                                                   \* :318
RECURSIVE PlcSubAcc(_, _, _, _, _)
PlcSubAcc(g, p, slack, k, ro) ==
  IF k = g.nb THEN <<>>
  ELSE LET lag == PL!LagOf(p)  bi == g.ltp + k * g.sfl IN
       <<A("sLTPQ", 0, bi - lag - LTPH, Min2(bi - 1, bi - lag + LTPH + g.sfl - 1), 338),
         A("exc", 0, ro, ro + RAND_BUF_SIZE - 1, 348), A("sLTPQ", 1, bi, bi + g.sfl - 1, 348)>>
       \o PlcSubAcc(g, Drift(p, g.fs, slack), slack, k + 1, ro)
ConcealAcc(g, p, pnb, psfl, first, slack) ==
  LET idx == PlcIdx(g, p)  ro == RandOff(pnb, psfl, first) IN
  <<A("exc", 0, (g.nb - 2) * g.sfl, g.nb * g.sfl - 1, 206),
    A("outBuf", 0, idx, g.ltp - 1, 320), A("sLTP", 1, idx, g.ltp - 1, 320),
    A("sLTP", 0, idx + g.ord, g.ltp - 1, 325), A("sLTPQ", 1, idx + g.ord, g.ltp - 1, 325)>>
  \o PlcSubAcc(g, p, slack, 0, ro)
  \o <<A("lpcbuf", 0, 0, MAX_LPC_ORDER - 1, 371), A("sLTPQ", 1, g.ltp - MAX_LPC_ORDER, g.ltp - 1, 371),
       A("sLTPQ", 0, g.ltp - g.ord, g.ltp - 1, 378), A("sLTPQ", 2, g.ltp, g.ltp + g.frl - 1, 393), A("frame", 1, 0, g.frl - 1, 397),
       A("sLTPQ", 0, g.ltp + g.frl - MAX_LPC_ORDER, g.ltp + g.frl - 1, 419), A("lpcbuf", 1, 0, MAX_LPC_ORDER - 1, 419)>>
PlcLags(g, p, slack) == {PL!LagOf(DriftN(p, g.fs, slack, k)) : k \in 0..(g.nb - 1)}
PlcAf(g, p) == LET idx == PlcIdx(g, p) IN <<idx, g.ltp - idx, g.ord>>

-----------------------------------------------------------------------------
(* silk_CNG.  len: the length argument (frame_length), sub: the sub-frame      *)
(* with the highest gain                                                     *)
RECURSIVE MaskFrom(_, _)
MaskFrom(m, len) == IF m > len THEN MaskFrom(m \div 2, len) ELSE m                      \* CNG.c:46-49
ExcMask(len) == MaskFrom(CNG_BUF_MASK_MAX, len)
IsPow2Minus1(m) == \E e \in 0..8 : m = 2 ^ e - 1
CngUpdateAcc(g, sub) ==
  <<A("cngbuf", 0, 0, (g.nb - 1) * g.sfl - 1, 115), A("cngbuf", 1, g.sfl, g.sfl + (g.nb - 1) * g.sfl - 1, 115),
    A("exc", 0, sub * g.sfl, (sub + 1) * g.sfl - 1, 116), A("cngbuf", 1, 0, g.sfl - 1, 116)>>
CngLostAcc(g, len) ==
  <<A("cngbuf", 0, 0, ExcMask(len), 57), A("cngsig", 1, MAX_LPC_ORDER, MAX_LPC_ORDER + len - 1, 57),
    A("cngsig", 1, 0, MAX_LPC_ORDER - 1, 152), A("cngsig", 0, MAX_LPC_ORDER - g.ord, MAX_LPC_ORDER - 1, 157),
    A("cngsig", 2, MAX_LPC_ORDER, MAX_LPC_ORDER + len - 1, 177), A("frame", 2, 0, len - 1, 180),
    A("cngsig", 0, len, len + MAX_LPC_ORDER - 1, 183)>>

-----------------------------------------------------------------------------
(* silk_Decode: samplesOut1_tmp_storage1 of nch * (frl + 2) cells             *)
(* (dec_API.c:313-316); channel n owns [n*(frl+2), (n+1)*(frl+2) - 1]: two    *)
(* cells of stereo history, then the frame silk_decode_frame writes (:349)   *)
TmpLen(g, nch) == nch * (g.frl + 2)
TmpBase(g, n) == n * (g.frl + 2)
TmpOwn(g, n) == TmpBase(g, n)..(TmpBase(g, n) + g.frl + 1)
TmpFrame(g, n) == (TmpBase(g, n) + 2)..(TmpBase(g, n) + 2 + g.frl - 1)
FramesPerPacket(ms) == CASE ms \in {0, 10, 20} -> 1 [] ms = 40 -> 2 [] ms = 60 -> 3 [] OTHER -> 0       \* :181-196
=============================================================================
