-------------------------- MODULE SilkDecCoreTrace --------------------------
(***************************************************************************)
(* Binding of module SilkDecCore to libopus (growth module G15).             *)
(* IOEnv.TRACE is the NDJSON log of harness/silkdeccore.c: every call the    *)
(* real decoder made of silk_decode_core, silk_PLC (lost), silk_CNG,         *)
(* silk_decode_frame and silk_decoder_set_fs with the fields the index       *)
(* arithmetic depends on and the spans it passed to                          *)
(* silk_LPC_analysis_filter.  TLC replays the index machine on every call    *)
(* and prints "REJ <<line, class, what>>":                                   *)
(*   "drift" the recorded spans / values are not the model's (SPEC-DRIFT)    *)
(*   "C01"   an access interval of the call (computed by the model from the  *)
(*           RECORDED geometry, lags and state) or a recorded span leaves    *)
(*           its array, or start_idx / idx is not positive, or a frame       *)
(*           shape check of decode_frame.c fails                             *)
(*   "C12"   a scratch cell would be read before it was written in the call  *)
(*           (output depending on stack contents); or the twin execution of  *)
(*           the same call over a differently filled stack gave different    *)
(*           output / state (event "twin")                                   *)
(***************************************************************************)
EXTENDS SilkDecCore, Json, IOUtils

VARIABLES cur, seen, last
vars == <<cur, seen, last>>
Tr == ndJsonDeserialize(IOEnv.TRACE)

GOf(a) == [fs |-> a[1], nb |-> a[2], sfl |-> a[3], frl |-> a[4], ltp |-> a[5], ord |-> a[6]]
Rej(cls, what) == PrintT("REJ " \o ToString(<<cur, cls, what>>))
Say(ok, cls, what) == IF ok THEN TRUE ELSE Rej(cls, what)
GeoSane(g) == g.fs \in {8, 12, 16} /\ g.nb \in {2, 4}
\* a span handed to silk_LPC_analysis_filter: input inside outBuf, output (len cells ending at sLTP[ltp-1]) inside sLTP
SpanOK(g, sp) == sp[1] >= 0 /\ sp[2] >= 0 /\ sp[1] + sp[2] <= OUTBUF_LEN /\ sp[2] < g.ltp /\ sp[3] \in {10, 16} /\ sp[3] <= sp[2]
AfList(e) == [i \in 1..Min2(e.naf, 4) |-> <<e.af[3 * i - 2], e.af[3 * i - 1], e.af[3 * i]>>]

StepCore(e) ==
  \E g \in {GOf(e.g)} :
  \E d \in {[lagPrev |-> e.d[1], lc |-> e.d[2], ps |-> e.d[3]]} :
  \E in \in {[sig |-> e.sig, pl |-> e.pl, interp |-> e.ip, gch |-> e.gch, ga |-> e.ga]} :
  IF ~GeoSane(g) THEN Say(FALSE, "C01", <<"geometry", e.g>>) /\ UNCHANGED seen ELSE
  \E acc \in {CoreAcc(g, d, in)} :
  LET oob == {acc[i] : i \in OutOfBounds(g, acc, g.frl)}
      sis == StartIdxs(g, d, in)
      rbw == ReadBeforeWrite(acc)
      af == AfList(e)
      lagdom == e.sig = 2 => \A k \in 1..g.nb : e.pl[k] \in MinLag(g.fs)..MaxLag(g.fs)
      tags == {ToString(<<"core", g.fs, g.nb, e.sig>>)} \cup (IF \E k \in 0..1 : Forced(d, in, k) THEN {"core.forced"} ELSE {})
              \cup (IF 2 \in WhitenK(g, d, in) THEN {"core.k2"} ELSE {}) \cup (IF 2 * g.fs - g.ord - LTPH \in sis THEN {ToString(<<"core.margin", g.fs>>)} ELSE {})
              \cup (IF \E k \in 1..4 : e.gch[k] = 1 /\ e.ga[k] = 0 THEN {"core.gadj1"} ELSE {}) \cup (IF \E k \in 2..4 : e.ga[k] = 1 /\ e.sig = 2 THEN {"core.rescale"} ELSE {})
  IN
  /\ Say(g = Geo(g.fs, g.nb), "drift", <<"geometry", e.g>>)
  /\ Say(FrameOK(g) /\ OutOfBounds(g, ShiftAcc(g), g.frl) = {}, "C01", <<"frameShape", e.g>>)
  /\ Say(oob = {}, "C01", <<"outOfBounds", oob>>)
  /\ Say(\A si \in sis : si > 0, "C01", <<"start_idx", sis>>)
  /\ Say(\A l \in VoicedLags(g, d, in) : LoopOK(l), "C01", <<"loopCarried", VoicedLags(g, d, in)>>)
  /\ Say(\A i \in 1..Len(af) : SpanOK(g, af[i]), "C01", <<"span", af>>)
  /\ Say(rbw = {}, "C12", <<"readBeforeWrite", rbw>>)
  /\ Say(e.naf = Len(af) /\ af = CoreAf(g, d, in), "drift", <<"spans", af, CoreAf(g, d, in)>>)
  /\ Say(e.plo = [k \in 1..4 |-> IF k <= g.nb THEN PitchOut(g, d, in)[k] ELSE 0], "drift", <<"pitchOut", e.plo>>)
  /\ Say(lagdom, "drift", <<"lagRange", e.pl>>)
  /\ Say(e.pg0 = 1, "drift", <<"prevGainZero">>)
  /\ seen' = seen \cup tags

StepPlc(e) ==
  \E g \in {GOf(e.g)} :
  IF ~GeoSane(g) THEN Say(FALSE, "C01", <<"geometry", e.g>>) /\ UNCHANGED seen ELSE
  LET reset == e.pre[2] # g.fs
      p0 == IF reset THEN g.frl * 128 ELSE e.pre[1]
      pnb == IF reset THEN 2 ELSE e.pre[3]
      psfl == IF reset THEN 20 ELSE e.pre[4]
      prange == p0 >= 0 /\ p0 <= PL!MaxLagQ8(g.fs) /\ pnb \in {2, 4} /\ psfl \in {20, 40, 60, 80}
  IN
  IF ~prange THEN Say(FALSE, "C01", <<"plcParams", p0, pnb, psfl>>) /\ UNCHANGED seen ELSE
  \E acc \in {ConcealAcc(g, p0, pnb, psfl, TRUE, 0) \o ConcealAcc(g, p0, pnb, psfl, FALSE, 0)} :
  LET oob == {acc[i] : i \in OutOfBounds(g, acc, g.frl)}
      rbw == ReadBeforeWrite(acc)
      af == AfList(e)
      post == DriftN(p0, g.fs, 0, g.nb)
      tags == {ToString(<<"plc", g.fs, g.nb>>)} \cup (IF reset THEN {"plc.reset"} ELSE {}) \cup (IF post = PL!MaxLagQ8(g.fs) THEN {"plc.clamp"} ELSE {})
              \cup (IF post > p0 THEN {"plc.drift"} ELSE {}) \cup (IF pnb * psfl < RAND_BUF_SIZE THEN {"plc.shortexc"} ELSE {})
  IN
  /\ Say(g = Geo(g.fs, g.nb), "drift", <<"geometry", e.g>>)
  /\ Say(PlcIdx(g, p0) > 0, "C01", <<"idx", PlcIdx(g, p0)>>)
  /\ Say(oob = {}, "C01", <<"outOfBounds", oob>>)
  /\ Say(\A l \in PlcLags(g, p0, 0) : LoopOK(l), "C01", <<"loopCarried", PlcLags(g, p0, 0)>>)
  /\ Say(\A i \in 1..Len(af) : SpanOK(g, af[i]), "C01", <<"span", af>>)
  /\ Say(rbw = {}, "C12", <<"readBeforeWrite", rbw>>)
  /\ Say(e.naf = 1 /\ af = <<PlcAf(g, p0)>>, "drift", <<"spans", af, PlcAf(g, p0)>>)
  /\ Say(e.post = post /\ e.lago = PL!LagOf(post), "drift", <<"pitchDrift", e.post, post, e.lago>>)
  /\ seen' = seen \cup tags

StepCng(e) ==
  \E g \in {GOf(e.g)} :
  IF ~GeoSane(g) \/ e.len < 0 \/ e.len > 100000 THEN Say(FALSE, "C01", <<"geometry", e.g, e.len>>) /\ UNCHANGED seen ELSE
  \E acc \in {CngLostAcc(g, e.len) \o CngUpdateAcc(g, 0) \o CngUpdateAcc(g, g.nb - 1)} :
  LET oob == {acc[i] : i \in OutOfBounds(g, acc, e.len)} IN
  /\ Say(oob = {} /\ e.len <= MAX_FRAME_LENGTH /\ ExcMask(e.len) <= CNG_BUF_MASK_MAX, "C01", <<"cng", oob, e.len>>)
  /\ Say(ReadBeforeWrite(acc) = {}, "C12", <<"readBeforeWrite", ReadBeforeWrite(acc)>>)
  /\ Say(e.len = g.frl, "drift", <<"cngLength", e.len, g.frl>>)
  /\ seen' = seen \cup {IF e.lc > 0 THEN "cng.lost" ELSE IF e.ps = 0 THEN "cng.update" ELSE "cng.idle"}

StepDf(e) ==
  \E g \in {GOf(e.g)} :
  /\ Say(GeoSane(g) /\ FrameOK(g), "C01", <<"frameShape", e.g>>)
  /\ Say(e.r = 0 /\ e.n = g.frl, "drift", <<"frameReturn", e.r, e.n>>)
  /\ Say(e.ms = 0 /\ e.mc = 0, "drift", <<"outBufShift", e.ms, e.mc>>)
  /\ Say(e.dp \in {0, g.frl + 2}, "drift", <<"stereoCarve", e.dp, g.frl + 2>>)
  /\ seen' = seen \cup {ToString(<<"df", e.lf>>)} \cup (IF e.dp # 0 THEN {"df.stereo"} ELSE {}) \cup (IF g.nb = 2 THEN {"df.10ms"} ELSE {"df.20ms"})

StepSetFs(e) ==
  \E pre \in {GOf(e.pre)} :
  \E post \in {GOf(e.post)} :
  LET changed == pre.fs # e.fs IN
  /\ Say(e.fs \in {8, 12, 16} /\ post.nb \in {2, 4} /\ post = Geo(e.fs, post.nb) /\ e.r = 0, "drift", <<"setfs", e.fs, e.post, e.r>>)
  /\ Say(changed => (e.nzo = 0 /\ e.nzl = 0 /\ e.lagp = 100 /\ e.ffar = 1 /\ e.ps = 0), "drift", <<"setfsClears", e.nzo, e.nzl, e.lagp, e.ffar, e.ps>>)
  /\ seen' = seen \cup {IF changed THEN (IF pre.fs = 0 THEN "setfs.first" ELSE "setfs.change") ELSE IF pre.frl # post.frl THEN "setfs.framelen" ELSE "setfs.same"}

\* the twin executions of the previous core / plc event (function level).  tw: the same call on a copy of the state over a
\* differently filled stack - a different result means an unwritten scratch cell was read (C12: output depends on memory
\* contents).  tp: the same call on a copy whose exc_Q14 / outBuf cells OUTSIDE the read set rs were flipped - a different result
\* means the call reads state cells the model does not (drift; rs itself must be the model's read set)
ModelRs(e) ==
  IF e.w = "core" /\ last.k = "core"
  THEN LET g == GOf(last.g)
           d == [lagPrev |-> last.d[1], lc |-> last.d[2], ps |-> last.d[3]]
           in == [sig |-> last.sig, pl |-> last.pl, interp |-> last.ip, gch |-> last.gch, ga |-> last.ga]
           af == CoreAf(g, d, in)
           lo == IF Len(af) = 0 THEN OUTBUF_LEN ELSE IF Len(af) = 1 THEN af[1][1] ELSE Min2(af[1][1], af[2][1]) IN
       <<lo, g.ltp - 1>>
  ELSE IF e.w = "plc" /\ last.k = "plc"
  THEN LET g == GOf(last.g)
           reset == last.pre[2] # g.fs
           p0 == IF reset THEN g.frl * 128 ELSE last.pre[1]
           pnb == IF reset THEN 2 ELSE last.pre[3]
           psfl == IF reset THEN 20 ELSE last.pre[4] IN
       <<(g.nb - 2) * g.sfl, g.nb * g.sfl - 1, RandOff(pnb, psfl, TRUE), RandOff(pnb, psfl, TRUE) + RAND_BUF_SIZE - 1,
         RandOff(pnb, psfl, FALSE), RandOff(pnb, psfl, FALSE) + RAND_BUF_SIZE - 1, PlcIdx(g, p0), g.ltp - 1>>
  ELSE <<>>
StepTwin(e) ==
  /\ Say(e.rs = ModelRs(e), "drift", <<"readSet", e.w, e.rs, ModelRs(e)>>)
  /\ Say(e.tw = 0, "C12", <<"stackDependence", e.w, e.tw>>)
  /\ Say(e.tp = 0, "drift", <<"readOutsideReadSet", e.w, e.tp, e.rs>>)
  /\ seen' = seen \cup {"twin." \o e.w}

Init == cur = 1 /\ seen = {} /\ last = [k |-> "none"]
Next ==
  /\ cur <= Len(Tr)
  /\ LET e == Tr[cur] IN
     CASE e.k = "core" -> StepCore(e)
       [] e.k = "plc" -> StepPlc(e)
       [] e.k = "cng" -> StepCng(e)
       [] e.k = "df" -> StepDf(e)
       [] e.k = "setfs" -> StepSetFs(e)
       [] e.k = "twin" -> StepTwin(e)
       [] e.k = "new" -> seen' = seen \cup {e.w}
       [] OTHER -> UNCHANGED seen
  /\ cur' = cur + 1
  /\ last' = IF Tr[cur].k \in {"core", "plc"} THEN Tr[cur] ELSE last
Spec == Init /\ [][Next]_vars
Done == (cur > Len(Tr)) => PrintT("SEEN " \o ToString(seen))
=============================================================================
