-------------------------- MODULE SilkDecCore_mc --------------------------
(***************************************************************************)
(* Theorems of module SilkDecCore, closed by TLC.                            *)
(*                                                                          *)
(* One variable s.  The root state fans out (one Next step) into             *)
(*  "core"  one silk_decode_core call: geometry x EVERY lag vector the        *)
(*          bitstream can code (SilkParams!PitchLags over lagIndex            *)
(*          -16..MaxAbsLagIndex+22 [absolute coding plus the delta coding of  *)
(*          up to three frames] x every contour; LiStep thins lagIndex in     *)
(*          the quick tier, the extremes always stay) x NLSF interpolation x  *)
(*          gain-change pattern; and the forced voiced->unvoiced transition   *)
(*          for every lagPrev in MinLag..MaxLag                               *)
(*  "plc"   silk_PLC_conceal: geometry x every start pitch (every lag in       *)
(*          range [thinned by LiStep in the quick tier, extremes kept]        *)
(*          range, and silk_PLC_Reset's frame_length/2), then Conceal steps    *)
(*          until the lag clamp is reached (closed: the fixpoint)             *)
(*  "cng", "carve"  silk_CNG, the stereo carving                              *)
(*  "m"     the frame-to-frame machine: SetFs / DecodeGood / Conceal / Reset   *)
(*          with outBuf as blocks of one sub-frame, lagPrev as a class         *)
(* LagSlack raises the lag clamp (0: the code; > 0: witness runs).            *)
(* BoxLags (witness): lag vectors from the whole box instead of the contour   *)
(* code books - NoReadBeforeWrite must then be REFUTED (a lag that grows by   *)
(* more than a sub-frame between sub-frames reads sLTP_Q15 below the          *)
(* back-filled part): the theorem rests on the code books' small deltas.      *)
(***************************************************************************)
EXTENDS SilkDecCore

CONSTANTS LagSlack, LiStep, FsSet, NbSet, BoxLags
VARIABLE s

SP == INSTANCE SilkParams

LiLo == 16                         \* negated: lagIndex >= -16 (two delta steps of -8 below absolute 0)
LiHi(fs) == SP!MaxAbsLagIndex(fs) + 22
LiSet(fs) == {li \in (-LiLo)..LiHi(fs) : li % LiStep = 0 \/ li <= 0 \/ li >= SP!MaxAbsLagIndex(fs) - 12}
Raise(fs, l) == IF l = MaxLag(fs) THEN l + LagSlack ELSE l
Pad4(v, nb) == [k \in 1..4 |-> IF k <= nb THEN v[k] ELSE 0]
\* BoxLags (witness only): lag vectors that no contour can produce - the extremes of the box [MinLag, MaxLag]^nb
BoxVecs(fs, nb) == {Pad4(v, nb) : v \in [1..nb -> {MinLag(fs), MaxLag(fs)}]}
LagVecs(fs, nb) == IF BoxLags THEN BoxVecs(fs, nb) ELSE {Pad4([k \in 1..nb |-> Raise(fs, SP!PitchLags(li, ci, fs, nb)[k])], nb) : li \in LiSet(fs), ci \in 0..(SP!NContours(fs, nb) - 1)}
\* gain patterns: 0 no change; 1 every gain differs and rescales; 2 every gain differs, gain_adj_Q16 rounds to 1<<16; 3 / 4 only sub-frame 1 / 3
GainPat(m) == CASE m = 0 -> [gch |-> <<0, 0, 0, 0>>, ga |-> <<0, 0, 0, 0>>]
                [] m = 1 -> [gch |-> <<1, 1, 1, 1>>, ga |-> <<1, 1, 1, 1>>]
                [] m = 2 -> [gch |-> <<1, 1, 1, 1>>, ga |-> <<0, 0, 0, 0>>]
                [] m = 3 -> [gch |-> <<0, 1, 0, 0>>, ga |-> <<0, 1, 0, 0>>]
                [] OTHER -> [gch |-> <<0, 0, 0, 1>>, ga |-> <<0, 0, 0, 1>>]
In(sig, pl, interp, m) == [sig |-> sig, pl |-> pl, interp |-> interp, gch |-> GainPat(m).gch, ga |-> GainPat(m).ga]
D0 == [lagPrev |-> 100, lc |-> 0, ps |-> 0]


\* ---------------------------------------------------------------- the machine
NBlk(fs) == OUTBUF_LEN \div (5 * fs)
\* outBuf block tags: 0 cleared, n > 0 the output sub-frame emitted n sub-frames ago, -1 scratch copy of the current frame (:153)
ObClear(fs) == [i \in 1..NBlk(fs) |-> 0]
ObShift(ob, nb) == [i \in 1..Len(ob) |-> IF i <= 4 - nb THEN (IF ob[i + nb] > 0 THEN ob[i + nb] + nb ELSE ob[i + nb])
                                        ELSE IF i <= 4 THEN 5 - i ELSE ob[i]]
ObScratch(ob) == [i \in 1..Len(ob) |-> IF i \in {5, 6} THEN -1 ELSE ob[i]]
Fresh(fs, nb) == [kind |-> "m", fs |-> fs, nb |-> nb, lp |-> "100", lc |-> 0, ps |-> 0, ob |-> ObClear(fs), since |-> 0,
                  en |-> 0, ehi |-> "zero", efs |-> fs]
MSetFs(m, fs, nb) ==
  IF fs # m.fs THEN [m EXCEPT !.fs = fs, !.nb = nb, !.lp = "100", !.ps = 0, !.ob = ObClear(fs), !.since = 0,
                              !.ehi = IF m.en > 0 \/ m.ehi = "old" THEN "old" ELSE "zero", !.en = 0, !.efs = fs]
  ELSE [m EXCEPT !.nb = nb]
\* the blocks a frame's re-whitening reads: blocks 1..4 for k = 0; after the scratch copy, blocks 3..6 for k = 2
MGood(m, sig, interp) ==
  LET forced == m.lc > 0 /\ m.ps = 2 /\ sig # 2
      lp == IF sig = 2 THEN "inrange" ELSE IF forced /\ m.nb = 2 THEN m.lp ELSE "zero"
      ob1 == IF (sig = 2 /\ interp = 1 /\ m.nb = 4) THEN ObScratch(m.ob) ELSE m.ob IN
  [m EXCEPT !.lp = lp, !.lc = 0, !.ps = sig, !.ob = ObShift(ob1, m.nb), !.since = Min2(4, m.since + m.nb),
            !.ehi = IF m.en > m.nb * 5 * m.fs \/ m.ehi = "old" THEN "old" ELSE m.ehi, !.en = m.nb * 5 * m.fs]
MLost(m) == [m EXCEPT !.lp = "inrange", !.lc = Min2(2, m.lc + 1), !.ob = ObShift(m.ob, m.nb), !.since = Min2(4, m.since + m.nb)]
MNext(m) ==
  \/ \E fs \in FsSet, nb \in NbSet : s' = MSetFs(m, fs, nb)
  \/ \E sig \in 0..2, ip \in {0, 1} : s' = MGood(m, sig, ip)
  \/ s' = MLost(m)
  \/ \E fs \in FsSet, nb \in NbSet : s' = Fresh(fs, nb)

PlcStartSet(fs, nb) == {256 * l : l \in {x \in MinLag(fs)..(MaxLag(fs) + LagSlack) : x % LiStep = 0 \/ x <= MinLag(fs) + 2 \/ x >= MaxLag(fs) - 4}} \cup {nb * 5 * fs * 128}
PlcShapes(fs) == {<<2, 20>>, <<2, 5 * fs>>, <<4, 5 * fs>>}
\* the root fans out in two steps so that TLC's workers share the enumeration
RootNext == \E fs \in FsSet, nb \in NbSet, ip \in {0, 1}, m \in 0..4 : s' = [kind |-> "fan", fs |-> fs, nb |-> nb, ip |-> ip, m |-> m]
FanNext(fs, nb, ip, m) ==
     \/ \E pl \in LagVecs(fs, nb) : s' = [kind |-> "core", g |-> Geo(fs, nb), d |-> D0, in |-> In(2, pl, ip, m)]
     \/ \E lp \in MinLag(fs)..(MaxLag(fs) + LagSlack), sig \in {0, 1} :
           m \in {0, 1, 3} /\ s' = [kind |-> "core", g |-> Geo(fs, nb), d |-> [lagPrev |-> lp, lc |-> 1, ps |-> 2], in |-> In(sig, <<0, 0, 0, 0>>, ip, m)]
     \/ \E sig \in {0, 1} : m \in {0, 1} /\ s' = [kind |-> "core", g |-> Geo(fs, nb), d |-> D0, in |-> In(sig, <<0, 0, 0, 0>>, ip, m)]
     \/ \E p \in PlcStartSet(fs, nb), pn \in PlcShapes(fs) : ip = 0 /\ m = 0 /\ s' = [kind |-> "plc", g |-> Geo(fs, nb), p |-> p, pnb |-> pn[1], psfl |-> pn[2], n |-> 0]
     \/ \E sb \in 0..3 : ip = 0 /\ m = 0 /\ s' = [kind |-> "cng", g |-> Geo(fs, nb), len |-> nb * 5 * fs, sub |-> sb]
     \/ \E c \in {1, 2} : ip = 0 /\ m = 0 /\ s' = [kind |-> "carve", g |-> Geo(fs, nb), nch |-> c]
     \/ ip = 0 /\ m = 0 /\ s' = Fresh(fs, nb)

Init == s = [kind |-> "root"]
Next ==
  CASE s.kind = "root" -> RootNext
    [] s.kind = "fan" -> FanNext(s.fs, s.nb, s.ip, s.m)
    [] s.kind = "plc" -> /\ s.p < PL!MaxLagQ8(s.g.fs) + 256 * LagSlack \/ s.n = 0
                         /\ s' = [s EXCEPT !.p = DriftN(s.p, s.g.fs, LagSlack, s.g.nb), !.n = Min2(1, s.n + 1)]
    [] s.kind = "m" -> MNext(s)
    [] OTHER -> UNCHANGED s
Spec == Init /\ [][Next]_s

\* ---------------------------------------------------------------- theorems
Acc == CASE s.kind = "core" -> CoreAcc(s.g, s.d, s.in)
         [] s.kind = "plc" -> ConcealAcc(s.g, s.p, s.pnb, s.psfl, TRUE, LagSlack) \o ConcealAcc(s.g, s.p, s.pnb, s.psfl, FALSE, LagSlack)
         [] s.kind = "cng" -> CngUpdateAcc(s.g, Min2(s.sub, s.g.nb - 1)) \o CngLostAcc(s.g, s.len)
         [] OTHER -> <<>>
LenOf == IF s.kind = "cng" THEN s.len ELSE IF s.kind \in {"core", "plc"} THEN s.g.frl ELSE 0

\* C01 as arithmetic: every access interval of every call lies inside its array (per site: the ln field is the source line)
AllInside == s.kind \in {"core", "plc", "cng"} => OutOfBounds(s.g, Acc, LenOf) = {}
\* celt_assert( start_idx > 0 ) decode_core.c:150 and celt_assert( idx > 0 ) PLC.c:319
StartIdxPositive == s.kind = "core" => \A si \in StartIdxs(s.g, s.d, s.in) : si > 0
PlcIdxPositive == s.kind = "plc" => PlcIdx(s.g, s.p) > 0
\* the exact margin: 2*fs - LPC_order - 2 at the largest lag: 4 at 8 kHz (lag 144), 12 at 12 kHz, 14 at 16 kHz
Margin(fs) == 2 * fs - (IF fs = 16 THEN 16 ELSE 10) - LTPH
StartIdxMargin == s.kind = "core" => \A si \in StartIdxs(s.g, s.d, s.in) : si >= Margin(s.g.fs) - LagSlack
PlcIdxMargin == s.kind = "plc" => PlcIdx(s.g, s.p) >= Margin(s.g.fs) - LagSlack
\* ... and it is attained: these two must be REFUTED (vacuity guards of the margin)
MarginNotAttained == ~(s.kind = "core" /\ s.g.fs = 8 /\ Margin(8) - LagSlack \in StartIdxs(s.g, s.d, s.in))
PlcMarginNotAttained == ~(s.kind = "plc" /\ s.g.fs = 8 /\ PlcIdx(s.g, s.p) = Margin(8) - LagSlack)
\* no cell of a scratch array (sLTP, sLTP_Q15 / sLTP_Q14, sLPC_Q14, res_Q14, CNG_sig_Q14) is read before it was written in the same call
NoReadBeforeWrite == s.kind \in {"core", "plc", "cng"} => ReadBeforeWrite(Acc) = {}
LoopCarriedOK == /\ s.kind = "core" => \A l \in VoicedLags(s.g, s.d, s.in) : LoopOK(l)
                 /\ s.kind = "plc" => \A l \in PlcLags(s.g, s.p, LagSlack) : LoopOK(l)
\* the concealment's lag stays a lag: within [0, 18 ms] and, drifting upwards within the call, never reaches below the re-whitened part
PlcLagRange == s.kind = "plc" => /\ s.p >= 0 /\ s.p <= PL!MaxLagQ8(s.g.fs) + 256 * LagSlack
                                 /\ (LagSlack = 0 => Drift(s.p, s.g.fs, 0) = PL!SubStep(<<PL!Zeros(5), 0, s.p>>, 0, 0, s.g.fs)[3])
\* silk_CNG: the mask is a power of two minus one, at most CNG_BUF_MASK_MAX and at most length; rotation within MAX_FRAME_LENGTH
CngMaskOK == s.kind = "cng" => /\ IsPow2Minus1(ExcMask(s.len)) /\ ExcMask(s.len) <= CNG_BUF_MASK_MAX /\ ExcMask(s.len) <= s.len
                               /\ 2 * ExcMask(s.len) + 1 > Min2(s.len, CNG_BUF_MASK_MAX)
                               /\ s.g.nb * s.g.sfl <= MAX_FRAME_LENGTH /\ s.len + MAX_LPC_ORDER = Size(s.g, "cngsig", s.len)
\* decode_frame: L in range, ltp_mem_length >= frame_length, the shift stays inside outBuf, pulses[] rounded up to the shell block
FrameShapeOK == s.kind \in {"core", "plc"} => (/\ FrameOK(s.g) /\ OutOfBounds(s.g, ShiftAcc(s.g), s.g.frl) = {} /\ MvLen(s.g) \in {0, 2 * s.g.sfl}
                                             /\ PulsesLen(s.g) >= s.g.frl /\ PulsesLen(s.g) % SHELL = 0 /\ PulsesLen(s.g) < s.g.frl + SHELL
                                             /\ ((s.g.fs = 12 /\ s.g.nb = 2) => PulsesLen(s.g) = 128))
\* dec_API: the two channels' parts of samplesOut1_tmp_storage1 are disjoint, inside the allocation, and the frame written by
\* silk_decode_frame / zeroed for a missing side channel (frame_length cells from offset 2) lies in the channel's own part
CarveOK == s.kind = "carve" => /\ (\A n \in 0..(s.nch - 1) : TmpOwn(s.g, n) \subseteq 0..(TmpLen(s.g, s.nch) - 1) /\ TmpFrame(s.g, n) \subseteq TmpOwn(s.g, n))
                               /\ (s.nch = 2 => TmpOwn(s.g, 0) \cap TmpOwn(s.g, 1) = {})
                               /\ \A ms \in {10, 20, 40, 60} : FramesPerPacket(ms) \in 1..MAX_FRAMES_PER_PACKET
\* the machine: after every frame outBuf[0 .. ltp_mem_length-1] is the last four sub-frames of output, oldest first (cleared cells
\* where fewer were produced since the last clear); the scratch cells beyond are never part of it
OutBufExact == s.kind = "m" => \A i \in 1..4 : s.ob[i] = (IF 5 - i <= s.since THEN 5 - i ELSE 0)
\* the forced transition (decode_core.c:132-139) only ever sees a lagPrev that is a coded / concealed lag or set_fs's 100
ForcedLagIsLag == s.kind = "m" => ((s.lc > 0 /\ s.ps = 2) => s.lp \in {"inrange", "100"})
Lag100InRange == \A fs \in FsSet : 100 \in MinLag(fs)..MaxLag(fs)
\* exc_Q14 is NOT cleared by silk_decoder_set_fs and a 10 ms / 8 kHz frame writes only 80 of the 128 cells rand_ptr reads: the
\* concealment can read excitation of an older configuration (never uninitialised: init / reset clear all 320 cells).  This invariant
\* says "a concealment reads only cells the last decoded frame wrote" and is expected to be REFUTED (observation, no listed property)
ExcFreshWitness == s.kind = "m" => (s.lc > 0 => (s.en >= Min2(RAND_BUF_SIZE, MAX_FRAME_LENGTH) /\ s.en >= s.nb * 5 * s.fs))
=============================================================================
