---------------------------- MODULE SilkEncCtl ----------------------------
(***************************************************************************)
(* G10: the SILK encoder's control and rate-bookkeeping state machine.      *)
(*                                                                         *)
(* One application of Encode(s, c, pf, nblk, av, o) is one call of          *)
(* silk_Encode() (silk/enc_API.c); inside it FrameStep is one coded frame.  *)
(* Transcribed, with exact integer arithmetic:                              *)
(*   silk/check_control_input.c   CheckControl                              *)
(*   silk/control_audio_bandwidth.c  ControlBW (the sLP.mode /               *)
(*        transition_frame_no / saved_fs_kHz switching machine)             *)
(*   silk/control_codec.c  ControlEncoder, SetupFs, CxDerived (the           *)
(*        complexity table), SetupLBRR, FsDerived (memory lengths)          *)
(*   silk/control_SNR.c    Snr (the three rate->SNR tables)                  *)
(*   silk/enc_API.c        Encode / Loop / FrameStep / PacketEnd            *)
(*   silk/LP_variable_cutoff.c  only the transition counter (LpStep)        *)
(*   silk/float/encode_frame_FLP.c  only: VAD->DTX counters (through        *)
(*        Dtx!SilkStep), LBRR flag, first_frame_after_reset                  *)
(* Everything the signal decides is an oracle o:                            *)
(*   o.lbrrBits   bits the LBRR data of the previous packet took            *)
(*   o.bytes      bytes in the range coder after the last frame             *)
(*   o.fr[i]      per coded frame: T (total target rate, -1 = "no balance    *)
(*                correction"), act0/act1 (speech_activity_Q8 of mid/side),  *)
(*                midOnly, mid (mid-channel rate chosen by the stereo        *)
(*                front end)                                                *)
(* Rates are in Hz / bits per second as in the code; all values < 2^31.     *)
(***************************************************************************)
EXTENDS Integers, Sequences, FiniteSets

D == INSTANCE Dtx

TRANSITION_FRAMES == 256
DECAY_MS          == 500        \* BITRESERVOIR_DECAY_TIME_MS
ACT_THR_Q8        == 13         \* SILK_FIX_CONST(SPEECH_ACTIVITY_DTX_THRES, 8)
LBRR_ACT_THR_Q8   == 77         \* SILK_FIX_CONST(LBRR_SPEECH_ACTIVITY_THRES, 8)
SW_SLOPE_Q24      == 3188       \* SILK_FIX_CONST((1 - 0.05) / 5000, 16 + 8)
NBE_MAX           == 10000
MIN_TARGET        == 5000

CODE_INDEP == 0   CODE_INDEP_NO_LTP == 1   CODE_COND == 2

E_FS == 102  E_PKT == 103  E_LOSS == 105  E_CX == 106  E_FEC == 107  E_DTX == 108  E_CBR == 109  E_CH == 111  E_SAMPLES == 101
\* (the code returns the negated values; cfg files and this module keep them positive)

Min(a, b) == IF a < b THEN a ELSE b
Max(a, b) == IF a > b THEN a ELSE b
TDiv(a, b) == IF a >= 0 THEN a \div b ELSE 0 - ((0 - a) \div b)          \* C division (b > 0)
LIMIT(a, l1, l2) == IF l1 > l2 THEN (IF a > l1 THEN l1 ELSE IF a < l2 THEN l2 ELSE a)
                    ELSE (IF a > l2 THEN l2 ELSE IF a < l1 THEN l1 ELSE a)
Z3 == <<0, 0, 0>>

-----------------------------------------------------------------------------
(* check_control_input(): 0 or the (positive) error number                  *)
ApiRates == {8000, 12000, 16000, 24000, 32000, 44100, 48000}
IntRates == {8000, 12000, 16000}
CheckControl(c) ==
  IF \/ c.api \notin ApiRates \/ c.desI \notin IntRates \/ c.maxI \notin IntRates \/ c.minI \notin IntRates
     \/ c.minI > c.desI \/ c.maxI < c.desI \/ c.minI > c.maxI THEN E_FS
  ELSE IF c.ms \notin {10, 20, 40, 60} THEN E_PKT
  ELSE IF c.loss < 0 \/ c.loss > 100 THEN E_LOSS
  ELSE IF c.dtx < 0 \/ c.dtx > 1 THEN E_DTX
  ELSE IF c.cbr < 0 \/ c.cbr > 1 THEN E_CBR
  ELSE IF c.fec < 0 \/ c.fec > 1 THEN E_FEC
  ELSE IF c.nAPI < 1 \/ c.nAPI > 2 THEN E_CH
  ELSE IF c.nInt < 1 \/ c.nInt > 2 THEN E_CH
  ELSE IF c.nInt > c.nAPI THEN E_CH
  ELSE IF c.cx < 0 \/ c.cx > 10 THEN E_CX
  ELSE 0

-----------------------------------------------------------------------------
(* control_SNR.c                                                           *)
SNR_NB == <<
   0, 15, 39, 52, 61, 68, 74, 79, 84, 88, 92, 95, 99, 102, 105, 108, 111, 114, 117, 119, 122, 124, 
   126, 129, 131, 133, 135, 137, 139, 142, 143, 145, 147, 149, 151, 153, 155, 157, 158, 160, 162, 163, 
   165, 167, 168, 170, 171, 173, 174, 176, 177, 179, 180, 182, 183, 185, 186, 187, 189, 190, 192, 193, 
   194, 196, 197, 199, 200, 201, 203, 204, 205, 207, 208, 209, 211, 212, 213, 215, 216, 217, 219, 220, 
   221, 223, 224, 225, 227, 228, 230, 231, 232, 234, 235, 236, 238, 239, 241, 242, 243, 245, 246, 248, 
   249, 250, 252, 253, 255>>
SNR_MB == <<
   0, 0, 28, 43, 52, 59, 65, 70, 74, 78, 81, 85, 87, 90, 93, 95, 98, 100, 102, 105, 107, 109, 111, 
   113, 115, 116, 118, 120, 122, 123, 125, 127, 128, 130, 131, 133, 134, 136, 137, 138, 140, 141, 143, 
   144, 145, 147, 148, 149, 151, 152, 153, 154, 156, 157, 158, 159, 160, 162, 163, 164, 165, 166, 167, 
   168, 169, 171, 172, 173, 174, 175, 176, 177, 178, 179, 180, 181, 182, 183, 184, 185, 186, 187, 188, 
   188, 189, 190, 191, 192, 193, 194, 195, 196, 197, 198, 199, 200, 201, 202, 203, 203, 204, 205, 206, 
   207, 208, 209, 210, 211, 212, 213, 214, 214, 215, 216, 217, 218, 219, 220, 221, 222, 223, 224, 224, 
   225, 226, 227, 228, 229, 230, 231, 232, 233, 234, 235, 236, 236, 237, 238, 239, 240, 241, 242, 243, 
   244, 245, 246, 247, 248, 249, 250, 251, 252, 253, 254, 255>>
SNR_WB == <<
   0, 0, 0, 8, 29, 41, 49, 56, 62, 66, 70, 74, 77, 80, 83, 86, 88, 91, 93, 95, 97, 99, 101, 103, 105, 
   107, 108, 110, 112, 113, 115, 116, 118, 119, 121, 122, 123, 125, 126, 127, 129, 130, 131, 132, 134, 
   135, 136, 137, 138, 140, 141, 142, 143, 144, 145, 146, 147, 148, 149, 150, 151, 152, 153, 154, 156, 
   157, 158, 159, 159, 160, 161, 162, 163, 164, 165, 166, 167, 168, 169, 170, 171, 171, 172, 173, 174, 
   175, 176, 177, 177, 178, 179, 180, 181, 181, 182, 183, 184, 185, 185, 186, 187, 188, 189, 189, 190, 
   191, 192, 192, 193, 194, 195, 195, 196, 197, 198, 198, 199, 200, 200, 201, 202, 203, 203, 204, 205, 
   206, 206, 207, 208, 209, 209, 210, 211, 211, 212, 213, 214, 214, 215, 216, 216, 217, 218, 219, 219, 
   220, 221, 221, 222, 223, 224, 224, 225, 226, 226, 227, 228, 229, 229, 230, 231, 232, 232, 233, 234, 
   234, 235, 236, 237, 237, 238, 239, 240, 240, 241, 242, 243, 243, 244, 245, 246, 246, 247, 248, 249, 
   249, 250, 251, 252, 253, 255>>
SnrTab(fs) == IF fs = 8 THEN SNR_NB ELSE IF fs = 12 THEN SNR_MB ELSE SNR_WB
Snr(fs, nbsub, rate) ==
  LET t  == IF nbsub = 2 THEN rate - (2000 + fs \div 16) ELSE rate
      id == Min(TDiv(t + 200, 400) - 10, Len(SnrTab(fs)) - 1)
  IN IF id <= 0 THEN 0 ELSE SnrTab(fs)[id + 1] * 21

-----------------------------------------------------------------------------
(* what silk_setup_fs() and silk_setup_complexity() derive                  *)
FsDerived(fs, nbsub) ==
  [subfr |-> 5 * fs, ltpMem |-> 20 * fs, laPitch |-> 2 * fs, maxLag |-> 18 * fs,
   pitchWin |-> (IF nbsub = 4 THEN 24 ELSE 14) * fs, predOrder |-> IF fs = 16 THEN 16 ELSE 10]
\* <<pitchEstimationComplexity, threshold_Q16, pitchEstimationLPCOrder, shapingLPCOrder, la_shape/fs, nStatesDelayedDecision,
\*   useInterpolatedNLSFs, NLSF_MSVQ_Survivors, warping>>
CxRow(cx) ==
  IF cx < 1 THEN <<0, 52429, 6, 12, 3, 1, 0, 2, 0>>
  ELSE IF cx < 2 THEN <<1, 49807, 8, 14, 5, 1, 0, 3, 0>>
  ELSE IF cx < 3 THEN <<0, 52429, 6, 12, 3, 2, 0, 2, 0>>
  ELSE IF cx < 4 THEN <<1, 49807, 8, 14, 5, 2, 0, 4, 0>>
  ELSE IF cx < 6 THEN <<1, 48497, 10, 16, 5, 2, 1, 6, 1>>
  ELSE IF cx < 8 THEN <<1, 47186, 12, 20, 5, 3, 1, 8, 1>>
  ELSE <<2, 45875, 16, 24, 5, 4, 1, 16, 1>>
WARP_Q16 == 983                 \* SILK_FIX_CONST(WARPING_MULTIPLIER, 16)
CxDerived(cx, fs) ==
  LET r == CxRow(cx) IN
  [peCx |-> r[1], peThr |-> r[2], peOrder |-> Min(r[3], FsDerived(fs, 4).predOrder), shOrder |-> r[4], laShape |-> r[5] * fs,
   nStates |-> r[6], interp |-> r[7], surv |-> r[8], warp |-> r[9] * fs * WARP_Q16, shapeWin |-> 5 * fs + 2 * r[5] * fs]

-----------------------------------------------------------------------------
(* channel state (silk_encoder_state, the control part)                     *)
ChanInit ==
  [fs |-> 0, pkt |-> 0, nfpp |-> 0, nbsub |-> 0, flen |-> 0, nfe |-> 0, ibx |-> 0, ffar |-> 1, csl |-> 0, prefill |-> 0,
   lbrrEn |-> 0, lbrrGain |-> 0, loss |-> 0, tr |-> 0, snr |-> 0, cx |-> 0, lpMode |-> 0, lpTrans |-> 0, lpSaved |-> 0,
   prevApi |-> 0, api |-> 0, useDTX |-> 0, inDTX |-> 0, noSp |-> 0, allow |-> 0, lbrrFlags |-> Z3, lbrrFlag |-> 0,
   act |-> 0, vad |-> Z3, maxI |-> 0, minI |-> 0, desI |-> 0, fec |-> 0, cbr |-> 0]

SInit == [ch |-> <<ChanInit, ChanInit>>, nbe |-> 0, nlbrr |-> 0, nAPI |-> 1, nInt |-> 1, nPrev |-> 0, tsince |-> 0,
          allow |-> 0, pdom |-> 0, midOnly |-> Z3]
\* silk_InitEncoder leaves nChannelsAPI = nChannelsInternal = 1

-----------------------------------------------------------------------------
(* control_audio_bandwidth.c.  Returns the new rate (kHz), the LP machine    *)
(* state and whether it raised switchReady.                                 *)
ControlBW(ch, c) ==
  LET orig == IF ch.fs = 0 THEN ch.lpSaved ELSE ch.fs
      hz   == orig * 1000
      same == [fs |-> orig, mode |-> ch.lpMode, trans |-> ch.lpTrans, ready |-> FALSE, path |-> "idle"]
  IN
  IF hz = 0 THEN [same EXCEPT !.fs = Min(ch.desI, ch.api) \div 1000, !.path = "init"]
  ELSE IF hz > ch.api \/ hz > ch.maxI \/ hz < ch.minI
    THEN [same EXCEPT !.fs = Max(Min(ch.api, ch.maxI), ch.minI) \div 1000, !.path = "clamp"]
  ELSE
    LET m1 == IF ch.lpTrans >= TRANSITION_FRAMES THEN 0 ELSE ch.lpMode IN
    IF ~(ch.allow = 1 \/ c.canSw = 1) THEN [same EXCEPT !.mode = m1]
    ELSE IF hz > ch.desI THEN
      LET t1 == IF m1 = 0 THEN TRANSITION_FRAMES ELSE ch.lpTrans IN
      IF c.canSw = 1 THEN [fs |-> IF orig = 16 THEN 12 ELSE 8, mode |-> 0, trans |-> t1, ready |-> FALSE, path |-> "down"]
      ELSE IF t1 <= 0 THEN [fs |-> orig, mode |-> m1, trans |-> t1, ready |-> TRUE, path |-> "readyDown"]
      ELSE [fs |-> orig, mode |-> 0 - 2, trans |-> t1, ready |-> FALSE, path |-> "goingDown"]
    ELSE IF hz < ch.desI THEN
      IF c.canSw = 1 THEN [fs |-> IF orig = 8 THEN 12 ELSE 16, mode |-> 1, trans |-> 0, ready |-> FALSE, path |-> "up"]
      ELSE IF m1 = 0 THEN [fs |-> orig, mode |-> 0, trans |-> ch.lpTrans, ready |-> TRUE, path |-> "readyUp"]
      ELSE [fs |-> orig, mode |-> 1, trans |-> ch.lpTrans, ready |-> FALSE, path |-> "goingUp"]
    ELSE [same EXCEPT !.mode = IF m1 < 0 THEN 1 ELSE m1, !.path = "hold"]

\* "make room for redundancy"
ReadyMaxBits(mb, ms) == mb - TDiv(mb * 5, ms + 5)

SetupFs(ch, fs, ms) ==
  LET a == IF ms # ch.pkt
           THEN [ch EXCEPT !.nfpp = IF ms <= 10 THEN 1 ELSE ms \div 20,
                           !.nbsub = IF ms <= 10 THEN (IF ms = 10 THEN 2 ELSE 1) ELSE 4,
                           !.flen = IF ms <= 10 THEN ms * fs ELSE 20 * fs, !.pkt = ms, !.tr = 0]
           ELSE ch
  IN IF a.fs # fs
     THEN [a EXCEPT !.ibx = 0, !.nfe = 0, !.tr = 0, !.ffar = 1, !.fs = fs, !.flen = 5 * fs * a.nbsub]
     ELSE a
SetupFsRet(ch, ms) == IF ms # ch.pkt /\ ms \notin {10, 20, 40, 60} THEN E_PKT ELSE 0

\* silk_SMULWB(loss, SILK_FIX_CONST(0.2, 16)) = (loss * 13107) >> 16
LbrrGain(loss) == Max(7 - ((loss * 13107) \div 65536), 3)
SetupLBRR(ch, c) ==
  [ch EXCEPT !.lbrrEn = c.lbrr,
             !.lbrrGain = IF c.lbrr # 0 THEN (IF ch.lbrrEn = 0 THEN 7 ELSE LbrrGain(ch.loss)) ELSE ch.lbrrGain]

\* silk_control_encoder(): [ch, ready]
ControlEncoder(ch0, c, allow, force) ==
  LET ch == [ch0 EXCEPT !.useDTX = c.dtx, !.cbr = c.cbr, !.api = c.api, !.maxI = c.maxI, !.minI = c.minI, !.desI = c.desI,
                        !.fec = c.fec, !.allow = allow]
  IN
  IF ch.csl # 0 /\ ch.prefill = 0
  THEN [ch |-> IF ch.api # ch.prevApi /\ ch.fs > 0 THEN [ch EXCEPT !.prevApi = ch.api] ELSE ch, ready |-> FALSE, path |-> "mid"]
  ELSE
    LET bw == ControlBW(ch, c)
        fs == IF force # 0 THEN force ELSE bw.fs
        a  == [ch EXCEPT !.lpMode = bw.mode, !.lpTrans = bw.trans, !.prevApi = ch.api]
        b  == SetupFs(a, fs, c.ms)
        d  == SetupLBRR([b EXCEPT !.cx = c.cx, !.loss = c.loss], c)
    IN [ch |-> [d EXCEPT !.csl = 1], ready |-> bw.ready, path |-> bw.path]

-----------------------------------------------------------------------------
(* per-frame pieces                                                        *)
LpStep(ch) == IF ch.lpMode # 0 THEN [ch EXCEPT !.lpTrans = LIMIT(ch.lpTrans + ch.lpMode, 0, TRANSITION_FRAMES)] ELSE ch

\* silk_encode_do_VAD_Fxx(): av is the Opus layer's decision (0 = no activity)
Vad(ch, act, av, i) ==
  LET a  == IF av = 0 /\ act >= ACT_THR_Q8 THEN ACT_THR_Q8 - 1 ELSE act
      on == a >= ACT_THR_Q8
      st == D!SilkStep(ch.noSp, on)
  IN [ch EXCEPT !.act = a, !.noSp = st.ctr, !.inDTX = IF st.dtx THEN ch.inDTX ELSE 0,
                !.vad[i + 1] = IF on THEN 1 ELSE 0]

\* the part of silk_encode_frame_Fxx() this module follows
CodeFrame(ch, rate, pf) ==
  LET a == LpStep([ch EXCEPT !.tr = rate, !.snr = Snr(ch.fs, ch.nbsub, rate)]) IN
  IF pf # 0 THEN a
  ELSE [a EXCEPT !.ffar = 0,
                 !.lbrrFlags[ch.nfe + 1] = IF ch.lbrrEn # 0 /\ ch.act > LBRR_ACT_THR_Q8 THEN 1 ELSE ch.lbrrFlags[ch.nfe + 1]]

PacketBits(c) == TDiv(c.br * c.ms, 1000)
\* rate before the in-packet balance correction
BaseRate(nlbrr, nbe, nfpp, c) ==
  LET nBits == TDiv(PacketBits(c) - nlbrr, nfpp) IN
  [nBits |-> nBits, rate |-> nBits * (IF c.ms = 10 THEN 100 ELSE 50) - TDiv(nbe * 1000, DECAY_MS)]
ClampT(t, c) == LIMIT(t, c.br, MIN_TARGET)
\* T = ClampT(base - 2 * bitsBalance) for some integer balance
TargetLegal(T, base, c) ==
  LET lo == Min(c.br, MIN_TARGET)  hi == Max(c.br, MIN_TARGET) IN
  T \in lo..hi /\ (T = lo \/ T = hi \/ (base - T) % 2 = 0)

\* caps handed to the frame coder: cumulative over the packet
MaxBitsAt(mb, tot, cur) ==
  IF tot = 2 /\ cur = 0 THEN TDiv(mb * 3, 5)
  ELSE IF tot = 3 /\ cur = 0 THEN TDiv(mb * 2, 5)
  ELSE IF tot = 3 /\ cur = 1 THEN TDiv(mb * 3, 4)
  ELSE mb

MinMid(fs) == 2000 + 600 * fs
\* stereo_LR_to_MS(): the split of the total rate (what the signal decides is o.midOnly / o.mid)
StereoRates(T, c, fs, o) ==
  LET tot == Max(1, T - (IF c.ms = 10 THEN 1200 ELSE 600))
      \* symbolic classes: -1 the smallest legal mid rate, -2 the largest
      mid == IF o.mid >= 0 THEN o.mid
             ELSE IF tot - 1 >= MinMid(fs) THEN (IF o.mid = 0 - 1 THEN MinMid(fs) ELSE tot - 1) ELSE Max(1, tot - 1)
  IN
  IF o.midOnly = 1 THEN [ms |-> <<tot, 0>>, ok |-> TRUE]
  ELSE [ms |-> <<mid, Max(1, tot - mid)>>,
        ok |-> IF tot - 1 >= MinMid(fs) THEN mid \in MinMid(fs)..(tot - 1) ELSE mid = Max(1, tot - 1)]

\* one iteration of the loop body that codes a frame.  Returns [s, ok, rec]
FrameStep(s, c, pf, av, tot, cur, o, lbrrBits) ==
  LET c0   == s.ch[1]
      i    == c0.nfe
      \* LBRR flags of the previous packet are written (and cleared) with frame 0
      wl   == i = 0 /\ pf = 0
      lf(ch) == IF wl THEN [ch EXCEPT !.lbrrFlag = IF ch.lbrrFlags # Z3 /\ \E j \in 1..3 : j <= ch.nfpp /\ ch.lbrrFlags[j] = 1 THEN 1 ELSE 0,
                                      !.lbrrFlags = Z3] ELSE ch
      a0   == lf(c0)
      a1   == IF c.nInt = 2 THEN lf(s.ch[2]) ELSE s.ch[2]
      cur_ == IF wl THEN lbrrBits ELSE 0
      nl   == IF pf # 0 THEN s.nlbrr
              ELSE IF cur_ < 10 THEN 0 ELSE IF s.nlbrr < 10 THEN cur_ ELSE (s.nlbrr + cur_) \div 2
      br_  == BaseRate(IF pf # 0 THEN 0 ELSE nl, s.nbe, a0.nfpp, c)
      dflt == ClampT(br_.rate, c)
      \* symbolic oracle classes for exhaustive runs: -1 no correction, -2 / -3 a balance of +400 / -400 bits
      T    == IF o.T = 0 - 1 \/ i = 0 \/ pf # 0 THEN dflt
              ELSE IF o.T = 0 - 2 THEN ClampT(br_.rate - 800, c) ELSE IF o.T = 0 - 3 THEN ClampT(br_.rate + 800, c) ELSE o.T
      tok  == T = dflt \/ (i > 0 /\ pf = 0 /\ TargetLegal(T, br_.rate, c))
      mb   == MaxBitsAt(c.maxBits, tot, cur)
  IN
  IF c.nInt = 1 THEN
    LET v0 == Vad(a0, o.act0, av, i)
        e0 == CodeFrame(v0, T, pf)
        f0 == [e0 EXCEPT !.csl = 0, !.ibx = 0, !.nfe = i + 1]
    IN [s |-> [s EXCEPT !.ch[1] = f0, !.nlbrr = nl, !.pdom = s.midOnly[i + 1]], ok |-> tok,
        rec |-> [T |-> T, rates |-> <<T, 0>>, maxBits |-> <<mb, mb>>, cbr |-> <<IF c.cbr = 1 /\ cur = tot - 1 THEN 1 ELSE 0, 0>>,
                 cond |-> <<IF i = 0 THEN CODE_INDEP ELSE CODE_COND, 0 - 1>>, ffar |-> <<v0.ffar, 0 - 1>>]]
  ELSE
    LET sr == StereoRates(T, c, a0.fs, o)
        side == o.midOnly = 0
        \* first frame with side coding after mid-only frames: the side channel restarts
        b1 == IF side THEN Vad(IF s.pdom = 1 THEN [a1 EXCEPT !.ffar = 1] ELSE a1, o.act1, av, i) ELSE [a1 EXCEPT !.vad[i + 1] = 0]
        v0 == Vad(a0, o.act0, av, i)
        e0 == CodeFrame(v0, sr.ms[1], pf)
        e1 == IF sr.ms[2] > 0 THEN CodeFrame(b1, sr.ms[2], pf) ELSE b1
        f0 == [e0 EXCEPT !.csl = 0, !.ibx = 0, !.nfe = i + 1]
        f1 == [e1 EXCEPT !.csl = 0, !.ibx = 0, !.nfe = b1.nfe + 1]
        cb == IF c.cbr = 1 /\ cur = tot - 1 THEN 1 ELSE 0
        m0 == IF sr.ms[2] > 0 THEN mb - TDiv(c.maxBits, tot * 2) ELSE mb
    IN [s |-> [s EXCEPT !.ch[1] = f0, !.ch[2] = f1, !.nlbrr = nl, !.midOnly[i + 1] = o.midOnly, !.pdom = o.midOnly],
        ok |-> tok /\ sr.ok,
        rec |-> [T |-> T, rates |-> sr.ms, maxBits |-> <<m0, mb>>, cbr |-> <<IF sr.ms[2] > 0 THEN 0 ELSE cb, cb>>,
                 cond |-> <<IF i = 0 THEN CODE_INDEP ELSE CODE_COND,
                            IF sr.ms[2] <= 0 THEN 0 - 1 ELSE IF i = 0 THEN CODE_INDEP ELSE IF s.pdom = 1 THEN CODE_INDEP_NO_LTP ELSE CODE_COND>>,
                 ffar |-> <<v0.ffar, IF sr.ms[2] > 0 THEN b1.ffar ELSE 0 - 1>>]]

\* "Insert VAD and FEC flags ..." : reservoir and bandwidth-switch permission at the end of a packet
PacketEnd(s, c, bytes) ==
  LET dtxAll == s.ch[1].inDTX = 1 /\ (c.nInt = 1 \/ s.ch[2].inDTX = 1)
      out    == IF dtxAll THEN 0 ELSE bytes
      thr    == ACT_THR_Q8 + ((SW_SLOPE_Q24 * s.tsince) \div 65536)
      ok     == s.ch[1].act < thr
  IN [s |-> [s EXCEPT !.nbe = LIMIT(s.nbe + 8 * out - PacketBits(c), 0, NBE_MAX),
                      !.allow = IF ok THEN 1 ELSE 0, !.tsince = IF ok THEN 0 ELSE s.tsince + c.ms],
      out |-> out]

NoFrame == [T |-> 0 - 1, act0 |-> 0, act1 |-> 0, midOnly |-> 0, mid |-> 0]
FrameOr(o, k) == IF k <= Len(o.fr) THEN o.fr[k] ELSE NoFrame

\* the while(1) loop: rem = input still to be buffered, in samples at the internal rate.
\* (Helper operators with parameters instead of LET chains: TLC evaluates a parameter once, a LET body at every use.)
RECURSIVE Loop(_, _, _, _, _, _, _, _, _, _)
LoopC(pe, fok, rec, c, pf, av, rem1, bufMax1, tot, cur, o, acc) ==
  IF rem1 = 0 THEN [s |-> pe.s, ok |-> acc.ok /\ fok, frames |-> Append(acc.frames, rec), out |-> pe.out]
  ELSE Loop(pe.s, c, pf, av, rem1, bufMax1, tot, cur + 1, o,
            [acc EXCEPT !.ok = acc.ok /\ fok, !.frames = Append(acc.frames, rec), !.out = pe.out])
LoopB(fs_, raw, c, pf, av, rem1, bufMax1, tot, cur, o, acc) ==
  LoopC(IF raw > 0 /\ fs_.s.ch[1].nfe = fs_.s.ch[1].nfpp THEN PacketEnd(fs_.s, c, raw) ELSE [s |-> fs_.s, out |-> raw],
        fs_.ok, fs_.rec, c, pf, av, rem1, bufMax1, tot, cur, o, acc)
LoopA(s1, c, pf, av, rem1, bufMax1, tot, cur, o, acc) ==
  IF s1.ch[1].ibx < s1.ch[1].flen THEN [s |-> s1, ok |-> acc.ok, frames |-> acc.frames, out |-> acc.out]
  ELSE LoopB(FrameStep(s1, c, pf, av, tot, cur, FrameOr(o, Len(acc.frames) + 1), o.lbrrBits), IF pf # 0 THEN 0 ELSE o.bytes,
             c, pf, av, rem1, bufMax1, tot, cur, o, acc)
Loop(s, c, pf, av, rem, bufMax1, tot, cur, o, acc) ==
  LET c0   == s.ch[1]
      want == Min(c0.flen - c0.ibx, acc.bufMax)
      g1   == IF c.nInt = 2 THEN [s.ch[2] EXCEPT !.ibx = s.ch[2].ibx + Min(s.ch[2].flen - s.ch[2].ibx, bufMax1)] ELSE s.ch[2]
  IN LoopA([s EXCEPT !.ch[1] = [c0 EXCEPT !.ibx = c0.ibx + want], !.ch[2] = g1, !.allow = 0],
           c, pf, av, rem - Min(want, rem), bufMax1, tot, cur, o, acc)

(***************************************************************************)
(* silk_Encode().  pf = prefillFlag (0, 1, 2), nblk = input length in 10 ms *)
(* blocks, av = the Opus layer's activity decision.  Result:                *)
(*   ret (0 or positive error number), s (state after), frames (one record  *)
(*   per coded frame), out (bytes returned), ready (switchReady), maxBits    *)
(*   (as left in the control struct), ok (the oracles were legal), paths.   *)
(***************************************************************************)
EncFail(e, s, c) == [ret |-> e, s |-> s, frames |-> <<>>, out |-> 0, ready |-> FALSE, maxBits |-> c.maxBits, ok |-> TRUE,
                     paths |-> <<"none", "none">>]
EncFin(r, c, pf, k0, k1, mb1) ==
  LET fin(ch) == IF pf # 0 THEN [ch EXCEPT !.csl = 0, !.prefill = 0] ELSE ch IN
  [ret |-> 0,
   s |-> [r.s EXCEPT !.nPrev = c.nInt, !.ch[1] = fin(r.s.ch[1]), !.ch[2] = IF c.nInt = 2 THEN fin(r.s.ch[2]) ELSE r.s.ch[2]],
   frames |-> r.frames, out |-> r.out, ready |-> k0.ready \/ k1.ready, maxBits |-> mb1, ok |-> r.ok, paths |-> <<k0.path, k1.path>>]
EncRun(sE, c, cc1, pf, nblk, av, o, k0, k1) ==
  EncFin(IF nblk = 0 THEN [s |-> sE, ok |-> TRUE, frames |-> <<>>, out |-> 0]
         ELSE Loop(sE, cc1, pf, av, 10 * nblk * sE.ch[1].fs, 10 * nblk * sE.ch[2].fs, IF nblk > 1 THEN nblk \div 2 ELSE 1, 0, o,
                   [ok |-> TRUE, frames |-> <<>>, out |-> 0, bufMax |-> 10 * nblk * sE.ch[1].fs]),
         c, pf, k0, k1, cc1.maxBits)
EncCtl2(sD, c, cc, pf, nblk, av, o, transition, k0, k1, mb1) ==
  LET nf0 == k0.ch.nfpp
      clr(ch) == LET a == IF ch.ffar = 1 \/ transition
                          THEN [ch EXCEPT !.lbrrFlags = [j \in 1..3 |-> IF j <= nf0 THEN 0 ELSE ch.lbrrFlags[j]]] ELSE ch
                 IN [a EXCEPT !.inDTX = a.useDTX]
  IN EncRun([sD EXCEPT !.ch[1] = clr(k0.ch), !.ch[2] = IF c.nInt = 2 THEN clr(k1.ch) ELSE sD.ch[2]],
            c, [cc EXCEPT !.maxBits = mb1], pf, nblk, av, o, k0, k1)
EncCtl1(sD, c, cc, pf, nblk, av, o, transition, k0, mb0) ==
  LET k1 == IF c.nInt = 2 THEN ControlEncoder(sD.ch[2], [cc EXCEPT !.maxBits = mb0], sD.allow, k0.ch.fs)
            ELSE [ch |-> sD.ch[2], ready |-> FALSE, path |-> "none"]
  IN EncCtl2(sD, c, cc, pf, nblk, av, o, transition, k0, k1, IF k1.ready THEN ReadyMaxBits(mb0, cc.ms) ELSE mb0)
EncCtl0(sD, c, cc, pf, nblk, av, o, transition, k0) ==
  EncCtl1(sD, c, cc, pf, nblk, av, o, transition, k0, IF k0.ready THEN ReadyMaxBits(cc.maxBits, cc.ms) ELSE cc.maxBits)
EncPre(sC, c, pf, nblk, av, o, transition) ==
  LET keep == [lpMode |-> sC.ch[1].lpMode, lpTrans |-> sC.ch[1].lpTrans, lpSaved |-> sC.ch[1].fs]
      pre(ch) == IF pf = 0 THEN ch
                 ELSE LET z == IF pf = 2 THEN [ChanInit EXCEPT !.lpMode = keep.lpMode, !.lpTrans = keep.lpTrans, !.lpSaved = keep.lpSaved]
                               ELSE ChanInit
                      IN [z EXCEPT !.csl = 0, !.prefill = 1]
      sD  == [sC EXCEPT !.ch[1] = pre(sC.ch[1]), !.ch[2] = IF c.nInt = 2 THEN pre(sC.ch[2]) ELSE sC.ch[2]]
      cc  == IF pf # 0 THEN [c EXCEPT !.ms = 10, !.cx = 0] ELSE c
  IN EncCtl0(sD, c, cc, pf, nblk, av, o, transition, ControlEncoder(sD.ch[1], cc, sD.allow, 0))
EncChk(sA, c, pf, nblk, av, o) ==
  LET sB  == IF c.nInt > sA.nInt THEN [sA EXCEPT !.ch[2] = ChanInit] ELSE sA
      transition == c.ms # sB.ch[1].pkt \/ sB.nInt # c.nInt
      sC  == [sB EXCEPT !.nAPI = c.nAPI, !.nInt = c.nInt]
  IN
  IF pf # 0 /\ nblk # 1 THEN EncFail(E_SAMPLES, sC, c)
  ELSE IF pf = 0 /\ (nblk < 0 \/ nblk * 10 > c.ms) THEN EncFail(E_SAMPLES, sC, c)
  ELSE EncPre(sC, c, pf, nblk, av, o, transition)
Encode(s0, c, pf, nblk, av, o) ==
  LET rd(ch) == IF c.redDep = 1 THEN [ch EXCEPT !.ffar = 1] ELSE ch
      sA  == [s0 EXCEPT !.ch[1] = [rd(s0.ch[1]) EXCEPT !.nfe = 0], !.ch[2] = [rd(s0.ch[2]) EXCEPT !.nfe = 0]]
  IN IF CheckControl(c) # 0 THEN EncFail(CheckControl(c), sA, c) ELSE EncChk(sA, c, pf, nblk, av, o)

\* what silk_Encode() writes back for the Opus layer
AllowOut(s)  == s.allow
InWBOut(s)   == IF s.ch[1].fs = 16 /\ s.ch[1].lpMode = 0 THEN 1 ELSE 0
IntRateOut(s) == s.ch[1].fs * 1000

-----------------------------------------------------------------------------
(* State predicates that hold after every successful call (they are proved   *)
(* on the model by SilkEncCtl_mc and asserted on libopus under the real      *)
(* Opus encoder, where the individual silk_Encode() calls are not seen).     *)
ChanWF(ch) ==
  /\ ch.fs \in {8, 12, 16} /\ ch.pkt \in {10, 20, 40, 60}
  /\ ch.nfpp = (IF ch.pkt <= 10 THEN 1 ELSE ch.pkt \div 20) /\ ch.nbsub = (IF ch.pkt = 10 THEN 2 ELSE 4)
  /\ ch.flen = 5 * ch.fs * ch.nbsub /\ ch.ibx \in 0..ch.flen
  /\ ch.lpTrans \in 0..TRANSITION_FRAMES /\ ch.lpMode \in {0 - 2, 0, 1}
  /\ ch.noSp \in 0..(D!SILK_BEFORE + D!SILK_MAXRUN) /\ (ch.inDTX = 1 => ch.useDTX = 1)
  /\ ch.snr = Snr(ch.fs, ch.nbsub, ch.tr) \/ ch.tr = 0
  /\ ch.lbrrGain \in {0} \cup 3..7
SuperWF(s) ==
  /\ s.nbe \in 0..NBE_MAX /\ s.nlbrr >= 0 /\ s.allow \in {0, 1} /\ s.tsince >= 0
  /\ s.nInt \in {1, 2} /\ s.nInt <= s.nAPI /\ s.nPrev = s.nInt
  /\ ChanWF(s.ch[1]) /\ (s.nInt = 2 => ChanWF(s.ch[2]) /\ s.ch[2].fs = s.ch[1].fs)
  /\ (s.allow = 1 => s.tsince = 0)
  \* (the side channel's flag is not refreshed on mid-only frames)
  /\ (s.ch[1].inDTX = 1 => s.ch[1].noSp > D!SILK_BEFORE)
=============================================================================
