-------------------------- MODULE SilkEncCtlTrace --------------------------
(***************************************************************************)
(* Stateful validation of executions recorded by harness/silkencctl.c       *)
(* against module SilkEncCtl.  The cursor carries the MODEL's state ts.      *)
(*                                                                         *)
(* direct executions ("dnew" / "sc" / "ck"): every silk_Encode() call is     *)
(*   replayed on the model with the oracles TLC derives from the             *)
(*   observation (activity and VAD flags, mid-only flags, the last frame's    *)
(*   target rate, the range coder's bit count) and chooses (the LBRR bit     *)
(*   count, from the few values the smoothed counter allows); the complete   *)
(*   control state afterwards and everything handed back to the Opus layer   *)
(*   must EQUAL the model's (drift).  check_control_input() accepts iff       *)
(*   CheckControl = 0.                                                       *)
(* Opus executions ("onew" / "octl" / "oe"): the individual silk_Encode()    *)
(*   calls are not seen (prefill calls, 2-3 calls per 80-120 ms packet), so   *)
(*   the state after every opus_encode is held against the state theorems    *)
(*   of SilkEncCtl_mc and the tables (drift), and the clauses that listed    *)
(*   properties state are judged as prop:                                    *)
(*    C11  a SILK-coded packet's internal rate never exceeds the maximum     *)
(*         bandwidth that was in force before the first frame (a later       *)
(*         change goes through the 2.5 s transition: not asserted) nor        *)
(*         Nyquist; a forced channel count in force for three audio packets   *)
(*         is the SILK encoder's nChannelsInternal                           *)
(*    C05  1 <= length <= max_data_bytes                                     *)
(*    C02  no internal error; the decoder returns the frame size and ends     *)
(*         with the encoder's final range                                    *)
(*    C20  the in-DTX query is true on a DTX packet of the speech layer      *)
(*         (and equals Dtx!SilkInDtx on the counters: drift)                  *)
(* A rejected event is printed ("REJ ...") and validation resumes from the   *)
(* recorded state.                                                          *)
(***************************************************************************)
EXTENDS SilkEncCtl, Json, IOUtils, TLC
VARIABLES tl, ts, tg, tt

tvars == <<tl, ts, tg, tt>>
Tr == ndJsonDeserialize(IOEnv.TRACE)
NEv == Len(Tr)

ChanOf(v) ==
  [fs |-> v[1], pkt |-> v[2], nfpp |-> v[3], nbsub |-> v[4], flen |-> v[5], nfe |-> v[6], ibx |-> v[7], ffar |-> v[8], csl |-> v[9],
   prefill |-> v[10], lbrrEn |-> v[11], lbrrGain |-> v[12], loss |-> v[13], tr |-> v[14], snr |-> v[15], cx |-> v[16],
   lpMode |-> v[17], lpTrans |-> v[18], lpSaved |-> v[19], prevApi |-> v[20], api |-> v[21], useDTX |-> v[22], inDTX |-> v[23],
   noSp |-> v[24], allow |-> v[25], lbrrFlags |-> <<v[26], v[27], v[28]>>, lbrrFlag |-> v[29], act |-> v[30],
   vad |-> <<v[31], v[32], v[33]>>, maxI |-> v[51], minI |-> v[52], desI |-> v[53], fec |-> v[54], cbr |-> v[55]]
SOf(e) == [ch |-> <<ChanOf(e.c0), ChanOf(e.c1)>>, nbe |-> e.su[2], nlbrr |-> e.su[1], nAPI |-> e.su[3], nInt |-> e.su[4],
           nPrev |-> e.su[5], tsince |-> e.su[6], allow |-> e.su[7], pdom |-> e.su[8], midOnly |-> <<e.mo[1], e.mo[2], e.mo[3]>>]
CtlOf(v) == [api |-> v[1], maxI |-> v[2], minI |-> v[3], desI |-> v[4], ms |-> v[5], br |-> v[6], loss |-> v[7], cx |-> v[8],
             fec |-> v[9], lbrr |-> v[10], dtx |-> v[11], cbr |-> v[12], maxBits |-> v[13], toMono |-> v[14], canSw |-> v[15],
             redDep |-> v[16], nAPI |-> v[17], nInt |-> v[18]]

Names(pairs) == {p[1] : p \in {x \in pairs : ~x[2]}}

\* what silk_setup_fs / silk_setup_complexity derived, as recorded in a channel vector
DerivedOK(v) ==
  LET f == FsDerived(v[1], v[4])  d == CxDerived(v[16], v[1]) IN
  v[1] = 0 \/ (/\ <<v[34], v[35], v[36], v[37], v[38], v[39]>> = <<f.subfr, f.ltpMem, f.laPitch, f.maxLag, f.pitchWin, f.predOrder>>
               /\ <<v[40], v[41], v[42], v[43], v[44], v[45], v[46], v[47], v[48], v[49]>>
                    = <<d.peCx, d.peThr, d.peOrder, d.shOrder, d.laShape, d.nStates, d.interp, d.surv, d.warp, d.shapeWin>>)

-----------------------------------------------------------------------------
(* direct executions                                                        *)
RepAct(v, l) == IF v = 1 THEN (IF l = 1 THEN 200 ELSE ACT_THR_Q8) ELSE 0
OracleOf(e, c, post, lb) ==
  LET p0 == post.ch[1]  p1 == post.ch[2]
      last == p0.nfe
      sub == IF (IF e.pf # 0 THEN 10 ELSE c.ms) = 10 THEN 1200 ELSE 600
      fr(k) == IF k = last
               THEN [T |-> IF c.nInt = 1 THEN p0.tr ELSE p0.tr + (IF post.midOnly[k] = 1 THEN 0 ELSE p1.tr) + sub,
                     act0 |-> p0.act, act1 |-> p1.act, midOnly |-> post.midOnly[k], mid |-> p0.tr]
               ELSE [T |-> 0 - 1, act0 |-> RepAct(p0.vad[k], p0.lbrrFlags[k]), act1 |-> RepAct(p1.vad[k], p1.lbrrFlags[k]),
                     midOnly |-> post.midOnly[k], mid |-> 0 - 1]
  IN [lbrrBits |-> lb, bytes |-> (e.tell + 7) \div 8, fr |-> <<fr(1), fr(2), fr(3)>>]

LbCands(pre, post) == {x \in {0, post.nlbrr, 2 * post.nlbrr - pre.nlbrr, 2 * post.nlbrr - pre.nlbrr + 1} : x >= 0}

JudgeCall(e, m) ==
  LET c    == CtlOf(e.cin)
      post == SOf(e)
      outs(r) == <<r.out, IF r.ready THEN 1 ELSE 0, r.maxBits, AllowOut(r.s), InWBOut(r.s), IntRateOut(r.s)>>
      \* (a call that only buffers half a frame leaves *nBytesOut untouched)
      obs  == <<IF e.pf = 0 /\ post.ch[1].ibx > 0 THEN 0 ELSE e.out, e.sr, e.mbo, e.al, e.wb, e.ir>>
      R    == {Encode(m, c, e.pf, e.nblk, e.av, OracleOf(e, c, post, lb)) : lb \in LbCands(m, post)}
      \* the side channel's target rate is set by the last frame that coded it: when the last frame of a multi-frame packet
      \* is mid-only that frame's rate split was not observed
      mask(st) == IF c.nInt = 2 /\ post.ch[1].nfe > 1 /\ post.midOnly[post.ch[1].nfe] = 1
                  THEN [st EXCEPT !.ch[2].tr = 0, !.ch[2].snr = 0, !.ch[2].act = 0] ELSE st
      full == {r \in R : r.ret = 0 - e.ret /\ r.ok /\ mask(r.s) = mask(post) /\ outs(r) = obs}
      any  == CHOOSE r \in R : TRUE
      best == IF full # {} THEN CHOOSE r \in full : TRUE ELSE any
      lastF == IF Len(best.frames) > 0 THEN best.frames[Len(best.frames)] ELSE [ffar |-> <<0, 0>>]
      drift == Names({
        <<"Accepted", e.ret = 0 /\ CheckControl(c) = 0>>,
        <<"Call.ret", \E r \in R : r.ret = 0 - e.ret>>,
        <<"Call.oracleLegal", \E r \in R : r.ok>>,
        <<"Call.super", \E r \in R : [r.s EXCEPT !.ch = 0] = [post EXCEPT !.ch = 0]>>,
        <<"Call.ch0", \E r \in R : r.s.ch[1] = post.ch[1]>>,
        <<"Call.ch1", \E r \in R : mask(r.s).ch[2] = mask(post).ch[2]>>,
        <<"Call.outputs", \E r \in R : outs(r) = obs>>,
        <<"Call.whole", full # {}>>,
        <<"Derived.ch0", DerivedOK(e.c0)>>, <<"Derived.ch1", DerivedOK(e.c1)>>,
        <<"PrefillRestoresControl", e.ms2 = c.ms /\ e.cx2 = c.cx>>,
        \* a frame coded right after a reset / rate change does not interpolate with the NLSFs of the past
        <<"FirstFrameNoInterpolation", (e.pf = 0 /\ lastF.ffar[1] = 1) => e.c0[50] = 4>> })
      tags == {best.paths[1]} \cup (IF c.nInt = 2 THEN {"stereo", "s_" \o best.paths[2]} ELSE {"mono"})
              \cup (IF e.pf = 1 THEN {"prefill1"} ELSE IF e.pf = 2 THEN {"prefill2"} ELSE {})
              \cup (IF e.pf = 0 /\ e.nblk * 10 < c.ms THEN {"half"} ELSE {})
              \cup (IF Len(best.frames) > 1 THEN {"multi"} ELSE {})
              \cup (IF e.pf = 0 /\ e.out = 0 /\ e.tell > 1 THEN {"dtxZero"} ELSE {})
              \cup (IF post.nbe = NBE_MAX THEN {"reservoirFull"} ELSE {})
              \cup (IF post.nbe > 0 /\ post.nbe < NBE_MAX THEN {"reservoirMid"} ELSE {})
              \cup (IF post.nlbrr > 0 THEN {"lbrrBits"} ELSE {})
              \cup (IF post.ch[1].lbrrEn = 1 THEN {"lbrrOn"} ELSE {})
              \cup (IF m.nInt = 2 /\ c.nInt = 1 THEN {"toMono"} ELSE {}) \cup (IF m.nInt = 1 /\ c.nInt = 2 /\ m.nPrev # 0 THEN {"toStereo"} ELSE {})
              \cup (IF c.nInt = 2 /\ \E k \in 1..3 : k <= post.ch[1].nfe /\ post.midOnly[k] = 1 THEN {"midOnly"} ELSE {})
              \cup (IF e.sr = 1 /\ c.nInt = 2 /\ e.mbo < ReadyMaxBits(c.maxBits, c.ms) THEN {"readyTwice"} ELSE {})
              \cup (IF c.cbr = 1 THEN {"cbr"} ELSE {}) \cup (IF post.allow = 1 THEN {"allowed"} ELSE {})
              \cup (IF post.ch[1].lpMode = 1 /\ post.ch[1].lpTrans = TRANSITION_FRAMES THEN {"rampUpDone"} ELSE {})
  IN [drift |-> drift, prop |-> {}, tags |-> tags]

JudgeCheck(e) ==
  LET want == CheckControl(CtlOf(e.cin)) IN
  [drift |-> Names({<<"CheckControl.accepts", (e.ret = 0) <=> (want = 0)>>,
                    <<"CheckControl.code", e.ret \in {0, 0 - 999} \/ 0 - e.ret = want>>}),
   prop |-> {}, tags |-> IF want = 0 THEN {"ckLegal"} ELSE {"ckIllegal"}]

-----------------------------------------------------------------------------
(* Opus executions                                                          *)
OPUS_AUTO == 0 - 1000
TocCfg(t) == t \div 8
TocSilkFamily(t) == TocCfg(t) < 16
TocSilkOnly(t) == TocCfg(t) < 12
TocBw(t) == LET g == TocCfg(t) IN IF g < 4 THEN 1101 ELSE IF g < 8 THEN 1102 ELSE IF g < 12 THEN 1103 ELSE IF g < 14 THEN 1104 ELSE 1105
TocCh(t) == IF (t \div 4) % 2 = 1 THEN 2 ELSE 1
BwOfFs(fs) == IF fs = 8 THEN 1101 ELSE IF fs = 12 THEN 1102 ELSE 1103
NyqBw(Fs) == IF Fs <= 8000 THEN 1101 ELSE IF Fs <= 12000 THEN 1102 ELSE IF Fs <= 16000 THEN 1103 ELSE IF Fs <= 24000 THEN 1104 ELSE 1105
Adjacent(a, b) == <<a, b>> \in {<<8, 12>>, <<12, 8>>, <<12, 16>>, <<16, 12>>}

G0 == [Fs |-> 48000, ch |-> 1, started |-> FALSE, fcAge |-> 2, mbAge |-> 2, prevFs |-> 0, prevMode |-> 0]

JudgeOpus(e, g) ==
  LET st   == SOf(e)
      c0   == st.ch[1]  c1 == st.ch[2]
      sm   == CtlOf(e.sm)
      want == e.q * (g.Fs \div 400)
      ok   == e.r > 0
      toc  == IF ok THEN e.toc ELSE 255
      nf   == IF ok THEN e.nf ELSE 0
      silkPkt == ok /\ TocSilkFamily(toc)
      audio   == ok /\ e.r > 2 * nf + 2                      \* (R2: well inside "a packet that codes audio")
      ran  == c0.fs # 0
      mode == e.pk[1]
      prop == Names({
        <<"C02.NoInternalError", e.r # 0 - 3>>,
        <<"C05.WithinBudget", e.r \in 1..e.mx \/ (e.r = 0 - 2 /\ e.mx <= 2)>>,
        <<"C02.Lockstep", ok => e.dn = want /\ e.rok = 1>>,
        <<"C11.InternalRateWithinMax", (silkPkt /\ audio /\ g.mbAge >= 2) => BwOfFs(c0.fs) <= Min(e.mxb, NyqBw(g.Fs))>>,
        <<"C11.ForcedChannelsInternal", (silkPkt /\ audio /\ g.ch = 2 /\ e.fc # OPUS_AUTO /\ g.fcAge >= 2) => st.nInt = e.fc>>,
        <<"C20.InDtxOnDtxPacket", (ok /\ TocSilkOnly(toc) /\ e.dtx = 1 /\ e.r <= 2 /\ e.mx >= 10 /\ e.pk[10] >= 6000) => e.indtx = 1>> })
      chanOK(ch, v) == ChanWF(ch) /\ DerivedOK(v)
      drift == IF ~ran THEN {} ELSE Names({
        <<"State.super", st.nbe \in 0..NBE_MAX /\ st.nlbrr >= 0 /\ st.allow \in {0, 1} /\ st.tsince >= 0 /\ (st.allow = 1 => st.tsince = 0)
                         /\ st.nInt \in {1, 2} /\ st.nInt <= st.nAPI /\ st.nAPI = g.ch>>,
        <<"State.ch0", chanOK(c0, e.c0)>>,
        <<"State.ch1", st.nInt = 2 => chanOK(c1, e.c1) /\ c1.fs = c0.fs>>,
        \* after a speech-layer packet: what the call handed down is what the state holds, what it hands back is the state
        <<"Silk.copies", silkPkt /\ audio => /\ c0.api = sm.api /\ c0.maxI = sm.maxI /\ c0.minI = sm.minI /\ c0.desI = sm.desI
                                            /\ c0.lbrrEn = sm.lbrr /\ c0.loss = sm.loss /\ c0.cx = sm.cx /\ c0.useDTX = sm.dtx
                                            /\ c0.pkt = sm.ms /\ st.nInt = sm.nInt /\ c0.nfe = c0.nfpp /\ c0.ibx = 0 /\ c0.csl = 0>>,
        <<"Silk.outputs", silkPkt /\ audio => /\ e.sm[19] = c0.fs * 1000 /\ e.sm[20] = st.allow
                                             /\ e.sm[21] = (IF c0.fs = 16 /\ c0.lpMode = 0 THEN 1 ELSE 0)>>,
        <<"Silk.limits", silkPkt /\ audio => c0.fs * 1000 <= sm.maxI /\ c0.fs * 1000 >= sm.minI /\ c0.fs * 1000 <= sm.api>>,
        <<"Silk.tocIsInternalRate", silkPkt /\ audio => (IF TocSilkOnly(toc) THEN TocBw(toc) = BwOfFs(c0.fs) ELSE c0.fs = 16)
                                                     /\ TocCh(toc) = st.nInt>>,
        <<"Silk.target", silkPkt /\ audio /\ st.nInt = 1 => c0.tr >= Min(sm.br, MIN_TARGET) /\ c0.tr <= Max(sm.br, MIN_TARGET)>>,
        <<"Silk.lbrrNeedsFecAndLoss", sm.lbrr = 1 => sm.fec = 1 /\ sm.loss > 0>>,
        <<"Silk.oneStep", (silkPkt /\ audio /\ g.prevFs # 0 /\ g.prevFs # c0.fs /\ g.prevMode # 1002) =>
                              \/ Adjacent(g.prevFs, c0.fs)
                              \/ g.prevFs * 1000 > Min(sm.api, sm.maxI) \/ g.prevFs * 1000 < sm.minI>>,
        <<"Dtx.queryIsCounter", (sm.dtx = 1 /\ e.pk[2] \in {1000, 1001}) =>
             e.indtx = (IF D!SilkInDtx(c0.noSp) /\ (st.nInt = 1 \/ st.pdom = 1 \/ D!SilkInDtx(c1.noSp)) THEN 1 ELSE 0)>> })
      tags == (IF silkPkt /\ audio THEN {"oSilk"} \cup (IF TocSilkOnly(toc) THEN {"oSilkOnly"} ELSE {"oHybrid"})
                                         \cup (IF st.nInt = 2 THEN {"oStereo"} ELSE {"oMono"})
                                         \cup (IF nf > 1 THEN {"oMulti"} ELSE {}) ELSE {})
              \cup (IF silkPkt /\ audio /\ g.prevFs # 0 /\ g.prevFs # c0.fs THEN {"oRateChange"} ELSE {})
              \cup (IF silkPkt /\ audio /\ g.mbAge >= 2 /\ e.mxb < 1103 THEN {"oMaxBwBinds"} ELSE {})
              \cup (IF silkPkt /\ audio /\ g.ch = 2 /\ e.fc # OPUS_AUTO /\ g.fcAge >= 2 THEN {"oForcedChBinds"} ELSE {})
              \cup (IF ok /\ TocSilkOnly(toc) /\ e.dtx = 1 /\ e.r <= 2 THEN {"oDtxPacket"} ELSE {})
              \cup (IF ran /\ c0.lbrrEn = 1 THEN {"oLbrr"} ELSE {}) \cup (IF ran /\ e.sm[22] = 1 THEN {"oSwitchReady"} ELSE {})
              \cup (IF ran /\ c0.lpMode # 0 THEN {"oTransition"} ELSE {})
  IN [drift |-> drift, prop |-> prop, tags |-> tags, audio |-> audio,
      prevFs |-> IF silkPkt /\ audio THEN c0.fs ELSE g.prevFs, mode |-> mode]

-----------------------------------------------------------------------------
Init == tl = 1 /\ ts = SInit /\ tg = G0 /\ tt = {}

Report(kind, names) == PrintT("REJ " \o ToString(<<tl, kind, names>>))
Finish(s) == IF tl = NEv THEN PrintT("SEEN " \o ToString(s)) ELSE TRUE
Verdict(v) == /\ (IF v.prop # {} THEN Report("prop", v.prop) ELSE TRUE)
              /\ (IF v.drift # {} THEN Report("drift", v.drift) ELSE TRUE)

Step ==
  /\ tl <= NEv
  /\ LET e == Tr[tl] IN
     CASE e.k = "dnew" ->
            /\ ts' = SOf(e) /\ tg' = G0
            /\ (IF SOf(e) # SInit THEN Report("drift", {"InitialState"}) ELSE TRUE)
            /\ tt' = tt \cup {"dnew"} /\ Finish(tt')
       [] e.k = "sc" ->
            \E v \in {JudgeCall(e, ts)} :
              /\ ts' = SOf(e) /\ tg' = tg /\ Verdict(v) /\ tt' = tt \cup v.tags /\ Finish(tt')
       [] e.k = "ck" ->
            \E v \in {JudgeCheck(e)} : /\ UNCHANGED <<ts, tg>> /\ Verdict(v) /\ tt' = tt \cup v.tags /\ Finish(tt')
       [] e.k = "onew" ->
            /\ ts' = SOf(e) /\ tg' = [G0 EXCEPT !.Fs = e.Fs, !.ch = e.ch]
            /\ (IF [SOf(e) EXCEPT !.nAPI = 1, !.nInt = 1] # SInit THEN Report("drift", {"InitialStateOpus"}) ELSE TRUE)
            /\ tt' = tt \cup {"onew"} /\ Finish(tt')
       [] e.k = "octl" ->
            /\ ts' = ts
            /\ tg' = IF e.r # 0 THEN tg
                     \* (settings survive OPUS_RESET_STATE; a forced bandwidth takes precedence over the maximum: the
                     \*  rate clause is asserted only on executions that never force one and never move the maximum mid-stream)
                     ELSE IF e.rq = "rs" THEN [G0 EXCEPT !.Fs = tg.Fs, !.ch = tg.ch, !.mbAge = tg.mbAge]
                     ELSE IF e.rq = "fc" /\ tg.started THEN [tg EXCEPT !.fcAge = 0]
                     ELSE IF e.rq = "bw" \/ (e.rq = "mb" /\ tg.started) THEN [tg EXCEPT !.mbAge = 0] ELSE tg
            /\ tt' = tt \cup (IF e.rq = "rs" THEN {"oReset"} ELSE {}) /\ Finish(tt')
       [] e.k = "oe" ->
            \E v \in {JudgeOpus(e, tg)} :
              /\ ts' = SOf(e) /\ Verdict(v) /\ tt' = tt \cup v.tags /\ Finish(tt')
              /\ tg' = [tg EXCEPT !.started = TRUE, !.fcAge = IF v.audio THEN Min(2, tg.fcAge + 1) ELSE tg.fcAge,
                                  !.prevFs = v.prevFs, !.prevMode = v.mode]
       [] OTHER -> UNCHANGED <<ts, tg, tt>> /\ Finish(tt)
  /\ tl' = tl + 1

Spec == Init /\ [][Step]_tvars

Accepted == LET n == TLCGet("stats").diameter IN
            IF n - 1 = NEv THEN TRUE ELSE PrintT(<<"REJECTED_AT", n>>) /\ FALSE
=============================================================================
