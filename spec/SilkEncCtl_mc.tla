--------------------------- MODULE SilkEncCtl_mc ---------------------------
(***************************************************************************)
(* Exhaustive exploration of the SilkEncCtl machine.  Between two calls of  *)
(* silk_Encode() ONE field of the control structure may change (any ctl);   *)
(* every call draws every oracle class.  Four systems (INIT/NEXT in cfg):   *)
(*   InitB/NextB   "bw": the bandwidth-switching machine under the Opus      *)
(*                 protocol (opusCanSwitch = switchReady of the previous     *)
(*                 call) and, with FreeCanSw, under an arbitrary flag.        *)
(*                 Closed state graph; liveness under WF.                    *)
(*   InitB/NextR   "rate": reservoir / targets / maxBits / LBRR / channel    *)
(*                 transitions / prefill at bounded depth.                    *)
(*   InitT/NextT   rule tables over their argument grids (one state each).  *)
(*   InitB/NextG   behaviour generation: control schedules printed for      *)
(*                 replay on libopus.                                        *)
(***************************************************************************)
EXTENDS SilkEncCtl, TLC
CONSTANTS ApiSet, IntSet, MsSet, BrSet, LossSet, ChSet, PfSet, ActSet, ByteClasses, TSet, LbrrBitsSet,
          FreeCanSw, Depth, VaryRate, GenDepth
VARIABLES s, c, ready, res, g, n, hist

vars == <<s, c, ready, res, g, n, hist>>

C0(api) == [api |-> api, maxI |-> 16000, minI |-> 8000, desI |-> 16000, ms |-> 20, br |-> 24000, loss |-> 0, cx |-> 5, fec |-> 0,
            lbrr |-> 0, dtx |-> 0, cbr |-> 0, maxBits |-> 1000, toMono |-> 0, canSw |-> 0, redDep |-> 0, nAPI |-> 2, nInt |-> 1]
TF8 == 8              \* cfg: TRANSITION_FRAMES <- TF8 abstracts the length of the ramp (the exact length is run separately)
None == [kind |-> "none"]
G0 == [mode |-> 0, start |-> 0, frames |-> 0]

InitB == /\ s = SInit /\ c \in {C0(a) : a \in ApiSet} /\ ready = FALSE /\ res = None /\ g = G0 /\ n = 0 /\ hist = <<>>

\* the oracle classes of one call
Bytes(cc, k) == Max(1, (PacketBits(cc) * k) \div 16)            \* k / 2 of the packet's bit budget, in bytes
FrameOrs == {[T |-> 0 - t, act0 |-> a, act1 |-> a, midOnly |-> m, mid |-> 0 - q] : t \in TSet, a \in ActSet, m \in {0, 1}, q \in {1, 2}}
Oracles(cc) == {[lbrrBits |-> lb, bytes |-> Bytes(cc, k), fr |-> <<f, f, f>>] : lb \in LbrrBitsSet, k \in ByteClasses, f \in FrameOrs}
MonoOr(o) == [o EXCEPT !.fr = [j \in 1..3 |-> [o.fr[j] EXCEPT !.midOnly = 0, !.mid = 0 - 1, !.act1 = 0]]]
OrSet(cc) == IF cc.nInt = 1 THEN {MonoOr(o) : o \in Oracles(cc)} ELSE Oracles(cc)

Legal(cc) == cc.minI <= cc.desI /\ cc.desI <= cc.maxI
BwChanges(cc) == {[cc EXCEPT !.desI = d] : d \in IntSet} \cup {[cc EXCEPT !.maxI = m, !.desI = Min(cc.desI, m)] : m \in IntSet}
                 \cup {[cc EXCEPT !.minI = 16000, !.desI = 16000, !.maxI = 16000], [cc EXCEPT !.minI = 8000]}
ChChanges(cc) == {[cc EXCEPT !.nInt = k] : k \in ChSet}
RateChanges(cc) ==
  {[cc EXCEPT !.br = b, !.maxBits = (TDiv(b * cc.ms, 1000) * k) \div 2] : b \in BrSet, k \in {1, 3}}
  \cup {[cc EXCEPT !.ms = m, !.maxBits = (TDiv(cc.br * m, 1000) * 3) \div 2] : m \in MsSet}
  \cup {[cc EXCEPT !.loss = l, !.fec = IF l > 0 THEN 1 ELSE 0, !.lbrr = k] : l \in LossSet, k \in {0, 1}}
  \cup {[cc EXCEPT !.cbr = 1 - cc.cbr], [cc EXCEPT !.dtx = 1 - cc.dtx], [cc EXCEPT !.redDep = 1 - cc.redDep], [cc EXCEPT !.toMono = 1 - cc.toMono]}

\* the part of the state before the call that the step theorems read
PreOf(p) == [nInt |-> p.nInt, allow |-> p.allow, nbe |-> p.nbe,
             ch |-> <<[fs |-> p.ch[1].fs, csl |-> p.ch[1].csl, lpTrans |-> p.ch[1].lpTrans, lpMode |-> p.ch[1].lpMode,
                       desI |-> p.ch[1].desI, lbrrEn |-> p.ch[1].lbrrEn], [fs |-> p.ch[2].fs]>>]
Summary(pre, cc, pf, nblk, r) ==
  [kind |-> "call", pre |-> PreOf(pre), c |-> cc, pf |-> pf, nblk |-> nblk, ret |-> r.ret, frames |-> r.frames, out |-> r.out,
   rdy |-> r.ready, maxBits |-> r.maxBits, paths |-> r.paths, ok |-> r.ok]

Ghost(gg, pre, r) ==
  LET m == r.s.ch[1].lpMode IN
  IF r.ret = 0 /\ m = gg.mode /\ m # 0 /\ r.paths[1] \in {"idle", "goingDown", "goingUp", "hold", "readyDown", "readyUp"}
     /\ pre.ch[1].lpMode = m /\ Len(r.frames) > 0 /\ pre.ch[1].lpTrans \notin {0, TRANSITION_FRAMES}
  THEN [gg EXCEPT !.frames = gg.frames + Len(r.frames)]
  ELSE [mode |-> m, start |-> r.s.ch[1].lpTrans, frames |-> 0]

Call(cc, pf, nblk, av, o) ==
  \E r \in {Encode(s, cc, pf, nblk, av, o)} :          \* (bound once; a LET would be re-evaluated at every use)
  /\ r.ok
  /\ s' = r.s /\ ready' = (r.ret = 0 /\ r.ready) /\ res' = Summary(s, cc, pf, nblk, r) /\ g' = Ghost(g, s, r)
  /\ c' = [cc EXCEPT !.canSw = 0] /\ n' = IF Depth > 0 THEN n + 1 ELSE 0

CanSwSet == IF FreeCanSw THEN {0, 1} ELSE {IF ready THEN 1 ELSE 0}

NextB ==
  /\ hist' = hist /\ s.ch[1].csl = 0            \* (half a frame buffered: only the second half may follow, see NextR)
  /\ \E c1 \in {c} \cup BwChanges(c) \cup ChChanges(c) \cup (IF VaryRate THEN RateChanges(c) ELSE {}) :
       \E sw \in CanSwSet, pf \in PfSet :
          LET cc == [c1 EXCEPT !.canSw = sw] IN
          /\ Legal(cc)
          /\ \E o \in OrSet(cc) : Call(cc, pf, IF pf # 0 THEN 1 ELSE cc.ms \div 10, 1, o)

\* half-frame input (10 ms of a 20 ms packet) as well
NextR ==
  \/ NextB
  \/ /\ c.ms = 20 /\ hist' = hist
     /\ \E c1 \in {c} \cup BwChanges(c) : Legal(c1) /\ \E o \in OrSet(c1) : Call([c1 EXCEPT !.canSw = 0], 0, 1, 1, o)

DepthOK == n <= Depth
SpecB == InitB /\ [][NextB]_vars /\ WF_vars(NextB)

-----------------------------------------------------------------------------
(* Theorems                                                                *)
Pre  == res.pre
Post == s
IsCall == res.kind = "call"
Good == IsCall /\ res.ret = 0
Whole == Good /\ res.pf = 0 /\ res.nblk * 10 = res.c.ms /\ Pre.ch[1].csl = 0

\* control input accepted iff check_control_input says so
AcceptIffLegal == IsCall => ((res.ret = 0) <=> (CheckControl(res.c) = 0))
\* nBitsExceeded in [0, 10000]; the structural state predicates
StateWF == /\ s.nbe \in 0..NBE_MAX
           /\ (Good /\ (res.pf # 0 \/ Whole) => SuperWF(s))
\* per-frame target and maxBits never negative; caps are cumulative (non-decreasing), the last one is what the
\* Opus layer handed down (after the "room for redundancy" cut), mid's share never above the frame's cap
FramesOK ==
  Good => LET F == res.frames IN
    /\ \A i \in 1..Len(F) :
         /\ F[i].T >= Min(res.c.br, MIN_TARGET) /\ F[i].T <= Max(res.c.br, MIN_TARGET)
         /\ F[i].rates[1] >= 1 /\ F[i].rates[2] >= 0 /\ F[i].rates[1] + F[i].rates[2] <= Max(2, F[i].T)
         /\ (res.c.maxBits >= 0 => F[i].maxBits[1] >= 0 /\ F[i].maxBits[2] >= 0 /\ F[i].maxBits[1] <= F[i].maxBits[2]
                                   /\ F[i].maxBits[2] <= res.maxBits)
         /\ (i > 1 /\ res.c.maxBits >= 0 => F[i].maxBits[2] >= F[i - 1].maxBits[2])
    /\ (Whole /\ Len(F) > 0 /\ res.c.nInt = 1 => F[Len(F)].maxBits[1] = res.maxBits)
    /\ res.maxBits <= Max(res.c.maxBits, 0) /\ (res.c.maxBits >= 0 => res.maxBits >= 0)
    /\ (~res.rdy => res.maxBits = res.c.maxBits)
\* a whole packet codes exactly nFramesPerPacket frames and leaves the buffers empty
PacketBoundary ==
  /\ Whole => /\ Len(res.frames) = s.ch[1].nfpp /\ s.ch[1].nfe = s.ch[1].nfpp /\ s.ch[1].ibx = 0 /\ s.ch[1].csl = 0
              /\ (res.c.nInt = 2 => s.ch[2].nfe = s.ch[1].nfpp /\ s.ch[2].ibx = 0)
  /\ (Good /\ res.pf # 0 => Len(res.frames) = 1 /\ res.out = 0 /\ s.nbe = Pre.nbe /\ s.allow = 0)
\* the rate changes only at a packet boundary ...
SwitchAtBoundary == Good /\ res.pf = 0 /\ Pre.ch[1].csl # 0 => s.ch[1].fs = Pre.ch[1].fs /\ res.paths[1] = "mid"
\* ... only when the Opus layer allowed it or on the forced path, one step at a time
Adjacent(a, b) == <<a, b>> \in {<<8, 12>>, <<12, 8>>, <<12, 16>>, <<16, 12>>}
OrigOf(ch, pf) == IF pf = 2 \/ ch.fs # 0 THEN (IF pf = 2 THEN ch.fs ELSE ch.fs) ELSE ch.lpSaved
SwitchDiscipline ==
  Good /\ res.pf # 1 /\ Pre.ch[1].fs # 0 /\ s.ch[1].fs # Pre.ch[1].fs =>
     \/ res.paths[1] = "clamp" /\ (Pre.ch[1].fs * 1000 > Min(res.c.api, res.c.maxI) \/ Pre.ch[1].fs * 1000 < res.c.minI)
     \/ res.paths[1] \in {"up", "down"} /\ res.c.canSw = 1 /\ Adjacent(Pre.ch[1].fs, s.ch[1].fs)
        /\ (res.paths[1] = "up" => s.ch[1].lpMode = 1 /\ s.ch[1].lpTrans = Len(res.frames))
        /\ (res.paths[1] = "down" => s.ch[1].lpMode = 0)
ReadyNeedsPermission ==
  Good /\ res.rdy => (Pre.allow = 1 \/ res.c.canSw = 1) /\ s.ch[1].fs = Pre.ch[1].fs /\ res.c.canSw = 0
\* under the Opus protocol a down-switch happens with the transition filter fully closed
DownSwitchClosed ==
  Good /\ ~FreeCanSw /\ res.paths[1] = "down" /\ res.c.desI = Pre.ch[1].desI => Pre.ch[1].lpTrans = 0
\* the transition counter walks at double speed down, single speed up, one step per coded frame
RampExact ==
  /\ (s.ch[1].lpMode = 0 - 2 /\ g.mode = 0 - 2 => s.ch[1].lpTrans = Max(0, g.start - 2 * g.frames))
  /\ (s.ch[1].lpMode = 1 /\ g.mode = 1 => s.ch[1].lpTrans = Min(TRANSITION_FRAMES, g.start + g.frames))
\* the coded rate is within what was handed down (C11 at the SILK level)
RateWithinLimits ==
  Good /\ res.paths[1] # "mid" => /\ s.ch[1].fs * 1000 <= res.c.maxI
                                 /\ (res.paths[1] # "init" \/ res.c.minI <= res.c.api => s.ch[1].fs * 1000 >= res.c.minI)
                                 /\ (res.c.minI <= res.c.api /\ res.c.desI <= res.c.api => s.ch[1].fs * 1000 <= res.c.api)   \* (the Opus layer never asks for more than Nyquist)
                                 /\ s.nInt = res.c.nInt
\* after a rate change (or a reset) the first frame is coded without reference to the past
FirstFrameIndependent ==
  Good /\ Len(res.frames) > 0 =>
    /\ (Pre.ch[1].csl = 0 => res.frames[1].cond[1] = CODE_INDEP)
    /\ (s.ch[1].fs # Pre.ch[1].fs \/ res.c.redDep = 1 => res.frames[1].ffar[1] = 1)
    /\ (res.c.nInt = 2 /\ res.frames[1].cond[2] >= 0 /\ (Pre.nInt = 1 \/ s.ch[2].fs # Pre.ch[2].fs) => res.frames[1].ffar[2] = 1)
    /\ \A i \in 1..Len(res.frames) : res.frames[i].cond[2] = CODE_COND => i > 1 /\ res.frames[i - 1].cond[2] >= 0
LbrrFollowsControl ==
  Good /\ res.paths[1] # "mid" => s.ch[1].lbrrEn = res.c.lbrr /\ (res.c.lbrr = 1 => s.ch[1].lbrrGain \in 3..7)
                                 /\ (res.c.lbrr = 1 /\ Pre.ch[1].lbrrEn = 0 => s.ch[1].lbrrGain = 7)
\* cross-check with Dtx.tla: the in-DTX flag is exactly Dtx!SilkInDtx on the counter when DTX is on and the last frame was inactive
DtxAgrees ==
  Whole /\ res.c.dtx = 1 => (s.ch[1].inDTX = 1 <=> (s.ch[1].noSp > D!SILK_BEFORE))

\* liveness: a requested lower rate is eventually reached (closed "bw" system, protocol, WF)
Reaches == [](s.ch[1].fs # 0 => <>(s.ch[1].fs * 1000 <= c.desI \/ s.ch[1].fs = 0))

\* witnesses (must be refuted: the interesting transitions are reachable)
NoDown == ~(Good /\ res.paths[1] = "down")
NoUp == ~(Good /\ res.paths[1] = "up")
NoClamp == ~(Good /\ res.paths[1] = "clamp" /\ s.ch[1].fs # Pre.ch[1].fs)
NoReadyTwice == ~(Good /\ res.c.nInt = 2 /\ res.rdy /\ res.maxBits < ReadyMaxBits(res.c.maxBits, res.c.ms))
NoReservoirFull == s.nbe < NBE_MAX
NoStereoToMono == ~(Good /\ Pre.nInt = 2 /\ s.nInt = 1)
NoSideRestart == ~(Good /\ res.c.nInt = 2 /\ \E i \in 1..Len(res.frames) : res.frames[i].cond[2] = CODE_INDEP_NO_LTP)

-----------------------------------------------------------------------------
(* Rule tables                                                             *)
\* (the query lives in `hist')
InitT == s = SInit /\ c = C0(16000) /\ ready = FALSE /\ res = None /\ g = G0 /\ n = 0 /\ hist = <<"start">>
NextT == /\ hist = <<"start">> /\ UNCHANGED <<s, c, ready, res, g, n>>
         /\ \/ \E fs \in {8, 12, 16}, nb \in {2, 4}, k \in 0..220 : hist' = <<"snr", fs, nb, k * 400 + 150>>
            \/ \E cx \in 0..10, fs \in {8, 12, 16} : hist' = <<"cx", cx, fs>>
            \/ \E loss \in 0..100 : hist' = <<"lbrr", loss>>
            \/ \E mb \in {0, 1, 7, 99, 1000, 10191, 30000}, tot \in 1..3 : hist' = <<"mb", mb, tot>>
TablesOK ==
  CASE hist[1] = "snr" -> LET v == Snr(hist[2], hist[3], hist[4])  w == Snr(hist[2], hist[3], hist[4] + 400) IN
                        v >= 0 /\ v <= 255 * 21 /\ w >= v /\ (hist[4] < 4000 => v = 0) /\ Snr(hist[2], hist[3], 200000) = 255 * 21
    [] hist[1] = "cx"  -> LET d == CxDerived(hist[2], hist[3]) IN           \* the celt_asserts of silk_setup_complexity
                        d.peOrder <= 16 /\ d.shOrder <= 24 /\ d.nStates \in 1..4 /\ d.warp <= 32767 /\ d.laShape <= 80
                        /\ d.shapeWin <= 240 /\ d.peOrder <= FsDerived(hist[3], 4).predOrder
    [] hist[1] = "lbrr" -> LbrrGain(hist[2]) \in 3..7 /\ (hist[2] < 100 => LbrrGain(hist[2] + 1) <= LbrrGain(hist[2]))
    [] hist[1] = "mb"  -> /\ \A k \in 0..(hist[3] - 1) : MaxBitsAt(hist[2], hist[3], k) \in 0..hist[2]
                        /\ MaxBitsAt(hist[2], hist[3], hist[3] - 1) = hist[2]
                        /\ \A k \in 0..(hist[3] - 1) : MaxBitsAt(hist[2], hist[3], k) - TDiv(hist[2], hist[3] * 2) >= 0
    [] OTHER -> TRUE

-----------------------------------------------------------------------------
(* Behaviour generation: schedules of control changes for the harness.      *)
GenOps == {<<"des", 8000>>, <<"des", 12000>>, <<"des", 16000>>, <<"max", 8000>>, <<"max", 12000>>, <<"max", 16000>>,
           <<"ni", 1>>, <<"ni", 2>>, <<"ms", 10>>, <<"ms", 20>>, <<"ms", 40>>, <<"ms", 60>>, <<"pf", 1>>, <<"pf", 2>>,
           <<"br", 8000>>, <<"br", 40000>>, <<"lb", 1>>, <<"lb", 0>>}
NextG == /\ Len(hist) < GenDepth
         /\ \E op \in GenOps : hist' = Append(hist, op)
         /\ UNCHANGED <<s, c, ready, res, g, n>>
EmitG == IF Len(hist) = GenDepth THEN PrintT("SCHED " \o ToString(<<c.api, hist>>)) ELSE TRUE
=============================================================================
