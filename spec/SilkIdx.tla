------------------------------- MODULE SilkIdx -------------------------------
(***************************************************************************)
(* The speech-layer FRAME as a decoder (and mirror-image encoder) of a      *)
(* SYMBOL SEQUENCE - the layer module FrameHdr treats as an opaque "frame    *)
(* body" op (kind 6):                                                       *)
(*                                                                         *)
(*  (a) side information, RFC 6716 sections 4.2.7.3 - 4.2.7.7               *)
(*      (silk/decode_indices.c, silk/encode_indices.c, silk/NLSF_unpack.c,  *)
(*      table selection in silk/decoder_set_fs.c): signal type + quantiser  *)
(*      offset, sub-frame gains, normalised LSF stage 1 / stage 2 with the   *)
(*      +-4 extension symbols, LSF interpolation factor, primary pitch lag  *)
(*      (delta with escape, or absolute high/low part), pitch contour, LTP  *)
(*      periodicity index, LTP filter indices, LTP scaling, LCG seed;       *)
(*  (b) excitation, RFC 6716 section 4.2.7.8 (silk/decode_pulses.c,         *)
(*      silk/encode_pulses.c, silk/shell_coder.c, silk/code_signs.c): rate  *)
(*      level, pulse count per shell block with the "17 = one more LSB"     *)
(*      escape chain (at most 10), the shell split tree, the LSBs, the      *)
(*      signs.                                                              *)
(*                                                                         *)
(* Given the frame parameters                                               *)
(*   rq = [fs (8|12|16 kHz), nb (2|4 sub-frames), fi (frame index in the    *)
(*         packet), lbrr (0|1), cond (0 independent, 1 independent without  *)
(*         LTP scaling, 2 conditional), vad, prevSig, prevLag (the decoder's *)
(*         ec_prevSignalType / ec_prevLagIndex), vals (abstract stream)]    *)
(* the model fixes the exact ORDER and the TABLE of every symbol read.  An  *)
(* op is <<2, 8, 1000*table + offset, symbol>> (inverse-CDF symbol of the   *)
(* sub-table that starts at `offset` of table `table`, ftb 8) or            *)
(* <<8, 8, k, symbol>> (sign symbol with the two-entry table {sign[k], 0}). *)
(* The range coder's bit counter (FrameHdr: RcInit, RcSym, Tell, TellFrac)   *)
(* is carried along, so the model also says what ec_tell and rng are after  *)
(* each stage - in the encoder and in the decoder alike.                    *)
(*                                                                         *)
(* The table WORDS come from the built library at check time (JSON,         *)
(* IOEnv.SIDXTAB); SilkIdxTables holds the RFC values they are compared to. *)
(***************************************************************************)
EXTENDS FrameHdr, SilkIdxTables, Json, IOUtils, FiniteSets

Tab == ndJsonDeserialize(IOEnv.SIDXTAB)[1]

\* table numbers (op[3] \div 1000)
X_TYPENOVAD == 1   X_TYPEVAD == 2   X_GAIN == 3      X_DGAIN == 4    X_U8 == 5       X_CB1NB == 6   X_CB1WB == 7
X_ECNB == 8        X_ECWB == 9      X_EXT == 10      X_INTERP == 11  X_PDELTA == 12  X_PLAG == 13   X_U4 == 14
X_U6 == 15         X_CONT == 16     X_CONTNB == 17   X_CONT10 == 18  X_CONT10NB == 19  X_PER == 20  X_LTP0 == 21
X_LTPSCALE == 24   X_RL == 25       X_PPB == 26      X_SH0 == 27     X_LSB == 31     X_SIGN == 32
TBOf(t) == << t.typenovad, t.typevad, t.gain, t.dgain, t.u8, t.cb[1].icdf1, t.cb[2].icdf1, t.cb[1].ecicdf, t.cb[2].ecicdf,
              t.ext, t.interp, t.pdelta, t.plag, t.u4, t.u6, t.cont, t.contnb, t.cont10, t.cont10nb, t.per, t.ltp0, t.ltp1,
              t.ltp2, t.ltpscale, t.rl, t.ppb, t.sh0, t.sh1, t.sh2, t.sh3, t.lsb, t.sign >>
TB == TBOf(Tab)
NTables == 32

\* constants of the format (RFC 6716 4.2.7); SxConstOK compares them with what the library was built with
NLSF_AMP == 4                 \* stage-2 residuals -4..4 are coded directly, the two ends open an extension symbol
MAX_PULSES == 16              \* pulses per shell block; MAX_PULSES+1 is the "one more LSB" escape
N_RATE == 10                  \* rate levels: 9 selectable + the one used after an escape
MAX_LSB == 10                 \* after this many escapes the escape symbol is no longer in the alphabet
SHELL == 16                   \* samples per shell block
MaxPulseTab == <<8, 10, 12, 16>>    \* what the ENCODER allows per 2, 4, 8, 16 samples before it scales down
ShOff(p) == (p * (p + 1)) \div 2 - 1        \* start of the (p+1)-symbol split table for p >= 1 pulses
TYPE_VOICED == 2

SxOrder(fs) == IF fs = 16 THEN 16 ELSE 10
SxCbNo(fs) == IF fs = 16 THEN 2 ELSE 1
SxCb1Tab(fs) == IF fs = 16 THEN X_CB1WB ELSE X_CB1NB
SxEcTab(fs) == IF fs = 16 THEN X_ECWB ELSE X_ECNB
SxNVec == 32
SxLowTab(fs) == IF fs = 16 THEN X_U8 ELSE IF fs = 12 THEN X_U6 ELSE X_U4
SxContTab(fs, nb) == IF fs = 8 THEN (IF nb = 4 THEN X_CONTNB ELSE X_CONT10NB) ELSE (IF nb = 4 THEN X_CONT ELSE X_CONT10)
SxNCont(fs, nb) == IF fs = 8 THEN (IF nb = 4 THEN 11 ELSE 3) ELSE (IF nb = 4 THEN 34 ELSE 12)
SxMaxAbsLag(fs) == 32 * (fs \div 2) - 1
SxFrameLen(fs, nb) == nb * 5 * fs
SxNBlocks(flen) == (flen \div SHELL) + (IF flen % SHELL # 0 THEN 1 ELSE 0)        \* 120 samples (10 ms at 12 kHz) take 8 blocks
\* silk_NLSF_unpack: the stage-2 table of coefficient i (1-based) is chosen by three bits of the selector byte of the stage-1 index
SxEcIx(fs, cb1) ==
  LET cb == Tab.cb[SxCbNo(fs)] IN
  [i \in 1..cb.order |->
     LET e == cb.sel[(cb1 * cb.order) \div 2 + (i - 1) \div 2 + 1] IN
     IF (i - 1) % 2 = 0 THEN ((e \div 2) % 8) * (2 * NLSF_AMP + 1) ELSE ((e \div 32) % 8) * (2 * NLSF_AMP + 1)]

-----------------------------------------------------------------------------
(* the bit counter under one inverse-CDF symbol (all tables of this layer have ft = 256) *)
SxSym(c, T, off, s) == RcSym(c, IF s = 0 THEN 0 ELSE 256 - T[off + s], 256 - T[off + s + 1], 256)
SxSymSign(c, k, s) == LET x == TB[X_SIGN][k + 1] IN IF s = 0 THEN RcSym(c, 0, 256 - x, 256) ELSE RcSym(c, 256 - x, 256, 256)
\* an op list applied to a counter (used for op lists that were not produced by the machines below)
SxOpC(c, op) == IF op[1] = 2 THEN SxSym(c, TB[op[3] \div 1000], op[3] % 1000, op[4]) ELSE SxSymSign(c, op[3], op[4])

\* the part of an inverse-CDF table that a symbol of alphabet size n uses is a proper inverse CDF:
\* below 256, strictly decreasing (no symbol of probability zero), ending in 0 exactly at entry n
IcdfOK(T, off, n) ==
  /\ off + n <= Len(T) /\ T[off + 1] < 256 /\ T[off + n] = 0
  /\ \A j \in 1..(n - 1) : T[off + j] > T[off + j + 1]

-----------------------------------------------------------------------------
(* Reader / writer state.                                                   *)
(*  i next unused choice of rq.vals; c bit counter; ops the symbols so far; *)
(*  last the value of the last symbol; idx the side information; sums / nls *)
(*  pulse count and LSB count per shell block; pul the excitation;           *)
(*  dl the set of branches taken (coverage)                                  *)

Idx0 == [sig |-> 0, qoff |-> 0, g |-> <<>>, nl |-> <<>>, interp |-> 4, lag |-> 0, cont |-> 0, per |-> 0, ltp |-> <<>>,
         scale |-> 0, seed |-> 0]
SxInit(rq) == [rq |-> rq, i |-> 1, c |-> RcInit, ops |-> <<>>, last |-> 0, acc |-> 0, dl |-> {}, idx |-> Idx0,
               pul |-> <<>>, sums |-> <<>>, nls |-> <<>>, rl |-> 0, ci |-> RcInit, nidx |-> 0,
               ps |-> rq.prevSig, pl |-> rq.prevLag, d |-> 0]

\* classes of symbols (what a policy stream distinguishes)
CL_TYPE == 1  CL_GMSB == 2  CL_GLSB == 3  CL_DGAIN == 4  CL_CB1 == 5  CL_NLSF2 == 6  CL_EXT == 7  CL_INTERP == 8
CL_PDELTA == 9  CL_LAGHI == 10  CL_LAGLO == 11  CL_CONT == 12  CL_PER == 13  CL_LTP == 14  CL_SCALE == 15  CL_SEED == 16
CL_RL == 17  CL_COUNT == 18  CL_COUNTX == 19  CL_SHELL == 20  CL_LSB == 21  CL_SIGN == 22

(* A stream is either explicit (rq.pm = 0: rq.vals, a symbol takes vals[i] modulo its alphabet, 0 when the stream is  *)
(* exhausted) or a POLICY (rq.pm = 1: rq.pol says, per class of symbol, which value to take) - the model checker      *)
(* enumerates policies, the conformance runs use explicit streams.                                                    *)
Ext3(x, k, n) == IF x = 0 THEN 0 ELSE IF x = 1 THEN n - 1 ELSE (7 * k + 3) % n
PolVal(pol, cls, k, n) ==
  CASE cls = CL_TYPE -> pol.type % n
    [] cls = CL_CB1 -> pol.cb1 % n
    [] cls = CL_NLSF2 -> (CASE pol.nlsf = 0 -> NLSF_AMP                     \* no extension anywhere
                            [] pol.nlsf = 1 -> 0                            \* every coefficient at the low end
                            [] pol.nlsf = 2 -> 2 * NLSF_AMP                 \* ... at the high end
                            [] OTHER -> <<0, 2 * NLSF_AMP, 3, 8, 0, 5>>[(k % 6) + 1])
    [] cls = CL_PDELTA -> <<0, 1, 20, 9>>[(pol.lag % 4) + 1]                \* escape, -8, +11, 0
    [] cls = CL_PER -> pol.per % n
    [] cls = CL_RL -> pol.rl % n
    [] cls = CL_COUNT -> (CASE pol.blk = 0 -> 0
                            [] pol.blk = 1 -> MAX_PULSES
                            [] pol.blk = 2 -> MAX_PULSES + 1
                            [] pol.blk = 3 -> IF k % 3 = 0 THEN MAX_PULSES + 1 ELSE (5 * k + 1) % (MAX_PULSES + 1)
                            [] OTHER -> (3 * k + pol.fin) % (MAX_PULSES + 1))
    \* k = 100*block + escapes so far; chain length pol.chain (block-dependent for blk = 3), then the final count
    [] cls = CL_COUNTX -> LET b == k \div 100  j == k % 100
                              L == IF pol.blk = 3 THEN (b + pol.chain) % (MAX_LSB + 1) ELSE pol.chain IN
                          IF j < L THEN MAX_PULSES + 1 ELSE pol.fin
    [] cls = CL_SHELL -> IF pol.sh = 0 THEN 0 ELSE IF pol.sh = 1 THEN n - 1 ELSE n \div 2
    [] cls = CL_LSB -> IF pol.bit = 2 THEN k % 2 ELSE pol.bit
    [] cls = CL_SIGN -> IF pol.bit = 2 THEN (k + 1) % 2 ELSE pol.bit
    [] OTHER -> Ext3(pol.ext, k, n)                                          \* symbols that steer nothing

SxVal(ds, cls, k, n) ==
  IF ds.rq.pm = 1 THEN Min(PolVal(ds.rq.pol, cls, k, n), n - 1)
  ELSE IF ds.i <= Len(ds.rq.vals) THEN ds.rq.vals[ds.i] % n ELSE 0

\* read one symbol of alphabet size n from the sub-table at `off` of table `tid`.
\* rq.pm = 2: the stream is a BYTE string (rq.buf): the symbol is decoded with the full-width range decoder of module
\* RangeDec32 (state ds.d) - used to parse packets of the real encoder
SxRd(ds, cls, k, tid, off, n) ==
  IF ds.rq.pm = 2
  THEN Only({ [ds EXCEPT !.d = r[1], !.i = @ + 1, !.c = SxSym(@, TB[tid], off, r[2]), !.ops = Append(@, <<2, 8, 1000 * tid + off, r[2]>>), !.last = r[2]]
              : r \in {R!Icdf(ds.rq.buf, ds.d, SubSeq(TB[tid], off + 1, off + n), 8)} })
  ELSE LET v == SxVal(ds, cls, k, n) IN
       [ds EXCEPT !.i = @ + 1, !.c = SxSym(@, TB[tid], off, v), !.ops = Append(@, <<2, 8, 1000 * tid + off, v>>), !.last = v]
SxRdSign(ds, k, off) ==
  IF ds.rq.pm = 2
  THEN Only({ [ds EXCEPT !.d = r[1], !.i = @ + 1, !.c = SxSymSign(@, off, r[2]), !.ops = Append(@, <<8, 8, off, r[2]>>), !.last = r[2]]
              : r \in {R!Icdf(ds.rq.buf, ds.d, <<TB[X_SIGN][off + 1], 0>>, 8)} })
  ELSE LET v == SxVal(ds, CL_SIGN, k, 2) IN
       [ds EXCEPT !.i = @ + 1, !.c = SxSymSign(@, off, v), !.ops = Append(@, <<8, 8, off, v>>), !.last = v]
\* write one symbol with a given value
SxPut(ds, tid, off, v) ==
  [ds EXCEPT !.c = SxSym(@, TB[tid], off, v), !.ops = Append(@, <<2, 8, 1000 * tid + off, v>>), !.last = v]
SxPutSign(ds, off, v) ==
  [ds EXCEPT !.c = SxSymSign(@, off, v), !.ops = Append(@, <<8, 8, off, v>>), !.last = v]
Tag(ds, t) == [ds EXCEPT !.dl = @ \cup {t}]
ZeroSeq(n) == [k \in 1..n |-> 0]

-----------------------------------------------------------------------------
(* (a) side information: silk_decode_indices *)

\* signal type and quantiser offset: the table depends on the VAD flag of the frame (LBRR frames count as active)
DecType(ds) ==
  LET active == ds.rq.lbrr = 1 \/ ds.rq.vad = 1 IN
  Only({ LET ix == IF active THEN d.last + 2 ELSE d.last IN
         [Tag(d, IF active THEN "type_vad" ELSE "type_novad") EXCEPT !.idx.sig = ix \div 2, !.idx.qoff = ix % 2]
         : d \in {IF active THEN SxRd(ds, CL_TYPE, 0, X_TYPEVAD, 0, 4) ELSE SxRd(ds, CL_TYPE, 0, X_TYPENOVAD, 0, 2)} })

\* gains: first sub-frame delta coded when conditional, else 3 MSBs (table by signal type) + 3 LSBs; the others delta coded
RECURSIVE DecGainRest(_, _)
DecGainRest(ds, k) ==
  IF k > ds.rq.nb THEN ds
  ELSE Only({ DecGainRest([d EXCEPT !.idx.g = Append(@, d.last)], k + 1) : d \in {SxRd(ds, CL_DGAIN, k, X_DGAIN, 0, 41)} })
DecGains(ds) ==
  IF ds.rq.cond = CODE_CONDITIONALLY
  THEN Only({ DecGainRest([Tag(d, "gain_delta") EXCEPT !.idx.g = <<d.last>>], 2) : d \in {SxRd(ds, CL_DGAIN, 1, X_DGAIN, 0, 41)} })
  ELSE Only({ Only({ DecGainRest([Tag(e, "gain_abs") EXCEPT !.idx.g = <<8 * d.last + e.last>>], 2)
                     : e \in {SxRd(d, CL_GLSB, 0, X_U8, 0, 8)} })
              : d \in {SxRd(ds, CL_GMSB, 0, X_GAIN, 8 * ds.idx.sig, 8)} })

\* normalised LSFs: stage 1 (table half by signalType >> 1), then one stage-2 symbol per coefficient from the table
\* silk_NLSF_unpack selects; symbols 0 and 2*NLSF_AMP are followed by an extension symbol
RECURSIVE DecNlsf2(_, _, _)
DecNlsf2(ds, ecix, i) ==
  IF i > Len(ecix) THEN ds
  ELSE Only({ DecNlsf2(
                IF d.last = 0
                THEN Only({ [Tag(e, "nlsf_ext_lo") EXCEPT !.idx.nl = Append(@, 0 - e.last - NLSF_AMP)] : e \in {SxRd(d, CL_EXT, i, X_EXT, 0, 7)} })
                ELSE IF d.last = 2 * NLSF_AMP
                THEN Only({ [Tag(e, "nlsf_ext_hi") EXCEPT !.idx.nl = Append(@, NLSF_AMP + e.last)] : e \in {SxRd(d, CL_EXT, i, X_EXT, 0, 7)} })
                ELSE [Tag(d, "nlsf_plain") EXCEPT !.idx.nl = Append(@, d.last - NLSF_AMP)],
                ecix, i + 1)
              : d \in {SxRd(ds, CL_NLSF2, i, SxEcTab(ds.rq.fs), ecix[i], 2 * NLSF_AMP + 1)} })
DecNlsf(ds) ==
  Only({ DecNlsf2([d EXCEPT !.idx.nl = <<d.last>>], SxEcIx(ds.rq.fs, d.last), 1)
         : d \in {SxRd(ds, CL_CB1, 0, SxCb1Tab(ds.rq.fs), (ds.idx.sig \div 2) * SxNVec, SxNVec)} })
\* interpolation factor: only frames of 4 sub-frames carry it
DecInterp(ds) ==
  IF ds.rq.nb = 4
  THEN Only({ [Tag(d, "interp") EXCEPT !.idx.interp = d.last] : d \in {SxRd(ds, CL_INTERP, 0, X_INTERP, 0, 5)} })
  ELSE [Tag(ds, "interp_skip") EXCEPT !.idx.interp = 4]

\* primary lag: a delta symbol when conditional coding follows a voiced frame (0 = escape to absolute coding),
\* absolute = high part (32 values) times fs/2 plus a uniform low part
DecLagAbs(ds) ==
  Only({ Only({ [e EXCEPT !.idx.lag = d.last * (ds.rq.fs \div 2) + e.last]
                : e \in {SxRd(d, CL_LAGLO, 0, SxLowTab(ds.rq.fs), 0, ds.rq.fs \div 2)} })
         : d \in {SxRd(ds, CL_LAGHI, 0, X_PLAG, 0, 32)} })
DecLag(ds) ==
  IF ds.rq.cond = CODE_CONDITIONALLY /\ ds.ps = TYPE_VOICED
  THEN Only({ IF d.last > 0 THEN [Tag(d, "lag_delta") EXCEPT !.idx.lag = ds.pl + d.last - 9]
              ELSE DecLagAbs(Tag(d, "lag_escape"))
              : d \in {SxRd(ds, CL_PDELTA, 0, X_PDELTA, 0, 21)} })
  ELSE DecLagAbs(Tag(ds, "lag_abs"))
RECURSIVE DecLtpIdx(_, _)
DecLtpIdx(ds, k) ==
  IF k > ds.rq.nb THEN ds
  ELSE Only({ DecLtpIdx([d EXCEPT !.idx.ltp = Append(@, d.last)], k + 1)
              : d \in {SxRd(ds, CL_LTP, k, X_LTP0 + ds.idx.per, 0, 8 * P2(ds.idx.per))} })
DecCont(ds) ==
  Only({ [x EXCEPT !.idx.cont = x.last, !.pl = x.idx.lag]
         : x \in {SxRd(ds, CL_CONT, 0, SxContTab(ds.rq.fs, ds.rq.nb), 0, SxNCont(ds.rq.fs, ds.rq.nb))} })
DecPer(ds) == Only({ [x EXCEPT !.idx.per = x.last] : x \in {SxRd(ds, CL_PER, 0, X_PER, 0, 3)} })
\* LTP scaling: only when the frame is coded independently (cond 0); cond 1 and 2 leave it at 0
DecScale(ds) ==
  IF ds.rq.cond = CODE_INDEPENDENTLY
  THEN Only({ [Tag(g, "ltpscale") EXCEPT !.idx.scale = g.last] : g \in {SxRd(ds, CL_SCALE, 0, X_LTPSCALE, 0, 3)} })
  ELSE [Tag(ds, "ltpscale_skip") EXCEPT !.idx.scale = 0]
Then(x, F(_)) == Only({ F(d) : d \in {x} })
DecVoiced(ds) ==
  IF ds.idx.sig # TYPE_VOICED THEN [Tag(ds, "unvoiced") EXCEPT !.idx.ltp = ZeroSeq(ds.rq.nb)]
  ELSE Then(Then(Then(Then(DecLag(Tag(ds, "voiced")), DecCont), DecPer), LAMBDA d : DecLtpIdx(d, 1)), DecScale)
DecSeed(ds) ==
  Only({ [d EXCEPT !.idx.seed = d.last, !.ps = d.idx.sig] : d \in {SxRd(ds, CL_SEED, 0, X_U4, 0, 4)} })

SxDecIdx(ds) == DecSeed(DecVoiced(DecInterp(DecNlsf(DecGains(DecType(ds))))))

-----------------------------------------------------------------------------
(* (b) excitation: silk_decode_pulses *)
\* pulse count of block b (0-based): rate-level table first, after an escape the last table, and after MAX_LSB escapes
\* that table shifted by one entry (the escape is no longer a symbol)
RECURSIVE DecCountChain(_, _, _)
DecCountChain(d, b, nl) ==
  IF d.last = MAX_PULSES + 1
  THEN Only({ DecCountChain(e, b, nl + 1)
              : e \in {SxRd(d, CL_COUNTX, 100 * b + nl, X_PPB, (MAX_PULSES + 2) * (N_RATE - 1) + (IF nl + 1 = MAX_LSB THEN 1 ELSE 0),
                            IF nl + 1 = MAX_LSB THEN MAX_PULSES + 1 ELSE MAX_PULSES + 2)} })
  ELSE [Tag(d, IF nl = 0 THEN "count_plain" ELSE IF nl = MAX_LSB THEN "count_chain_max" ELSE "count_chain")
          EXCEPT !.sums = Append(@, d.last), !.nls = Append(@, nl)]
RECURSIVE DecCounts(_, _, _)
DecCounts(ds, b, nblk) ==
  IF b >= nblk THEN ds
  ELSE Only({ DecCounts(DecCountChain(d, b, 0), b + 1, nblk)
              : d \in {SxRd(ds, CL_COUNT, b, X_PPB, (MAX_PULSES + 2) * ds.rl, MAX_PULSES + 2)} })
\* the shell tree: a split symbol per node with p > 0 pulses (table by level, sub-table by p), node before its left
\* subtree before its right subtree; lvl 4 = 16 samples ... lvl 0 = one sample
RECURSIVE DecShell(_, _, _)
DecShell(ds, p, lvl) ==
  IF lvl = 0 THEN [ds EXCEPT !.pul = Append(@, p)]
  ELSE IF p = 0 THEN [ds EXCEPT !.pul = @ \o ZeroSeq(P2(lvl))]
  ELSE Only({ Only({ DecShell(DecShell(d, c1, lvl - 1), p - c1, lvl - 1) : c1 \in {d.last} })
              : d \in {SxRd(ds, CL_SHELL, lvl, X_SH0 + lvl - 1, ShOff(p), p + 1)} })
RECURSIVE DecShells(_, _, _)
DecShells(ds, b, nblk) ==
  IF b >= nblk THEN ds
  ELSE DecShells(DecShell(IF ds.sums[b + 1] > 0 THEN Tag(ds, "shell") ELSE Tag(ds, "shell_skip"), ds.sums[b + 1], 4), b + 1, nblk)
\* LSBs: nls[b] bits per sample of a block that took escapes, most significant first
RECURSIVE DecLsbBits(_, _, _)
DecLsbBits(ds, a, j) ==
  IF j = 0 THEN [ds EXCEPT !.acc = a]
  ELSE Only({ DecLsbBits(d, 2 * a + d.last, j - 1) : d \in {SxRd(ds, CL_LSB, j, X_LSB, 0, 2)} })
RECURSIVE DecLsbBlock(_, _, _, _)
DecLsbBlock(ds, base, k, nl) ==
  IF k > SHELL THEN ds
  ELSE Only({ DecLsbBlock([d EXCEPT !.pul[base + k] = d.acc], base, k + 1, nl) : d \in {DecLsbBits(ds, ds.pul[base + k], nl)} })
RECURSIVE DecLsbs(_, _, _)
DecLsbs(ds, b, nblk) ==
  IF b >= nblk THEN ds
  ELSE DecLsbs(IF ds.nls[b + 1] > 0 THEN DecLsbBlock(Tag(ds, "lsb"), SHELL * b, 1, ds.nls[b + 1]) ELSE ds, b + 1, nblk)
\* signs: one symbol per non-zero sample of every block that has pulses or LSBs; the table entry depends on signal type,
\* quantiser offset and min(pulse count, 6)
SignOff(sig, qoff, sum) == 7 * (qoff + 2 * sig) + Min(sum, 6)
RECURSIVE DecSignBlock(_, _, _, _)
DecSignBlock(ds, base, k, off) ==
  IF k > SHELL THEN ds
  ELSE IF ds.pul[base + k] > 0
       THEN Only({ DecSignBlock([d EXCEPT !.pul[base + k] = @ * (2 * d.last - 1)], base, k + 1, off) : d \in {SxRdSign(ds, k, off)} })
       ELSE DecSignBlock(ds, base, k + 1, off)
RECURSIVE DecSigns(_, _, _)
DecSigns(ds, b, nblk) ==
  IF b >= nblk THEN ds
  ELSE DecSigns(IF ds.sums[b + 1] > 0 \/ ds.nls[b + 1] > 0
                THEN DecSignBlock(IF ds.sums[b + 1] = 0 THEN Tag(ds, "sign_lsb_only") ELSE ds, SHELL * b, 1,
                                  SignOff(ds.idx.sig, ds.idx.qoff, ds.sums[b + 1]))
                ELSE ds, b + 1, nblk)
SxDecPulses(ds) ==
  LET nblk == SxNBlocks(SxFrameLen(ds.rq.fs, ds.rq.nb)) IN
  Only({ DecSigns(DecLsbs(DecShells(DecCounts([d EXCEPT !.rl = d.last], 0, nblk), 0, nblk), 0, nblk), 0, nblk)
         : d \in {SxRd(IF nblk * SHELL # SxFrameLen(ds.rq.fs, ds.rq.nb) THEN Tag(ds, "blocks_rounded_up") ELSE ds,
                       CL_RL, 0, X_RL, (N_RATE - 1) * (ds.idx.sig \div 2), N_RATE - 1)} })

\* one frame: side information, then excitation; ci / nidx = counter and number of ops after the side information
SxDecFrame(rq) == Only({ SxDecPulses([d EXCEPT !.ci = d.c, !.nidx = Len(d.ops)]) : d \in {SxDecIdx(SxInit(rq))} })
SxDecIdxOnly(rq) == SxDecIdx(SxInit(rq))
\* a frame in the middle of a packet: counter c0 and (pm = 2) range decoder state d0
SxDecFrameAt(rq, c0, d0) ==
  Only({ SxDecPulses([d EXCEPT !.ci = d.c, !.nidx = Len(d.ops)]) : d \in {SxDecIdx([SxInit(rq) EXCEPT !.c = c0, !.d = d0])} })

-----------------------------------------------------------------------------
(* The ENCODER's order: silk_encode_indices for an index record x (same fields as idx), silk_encode_pulses for an     *)
(* excitation q (signed, |q| <= 127) and a rate level the encoder is free to choose.                                   *)

RECURSIVE EncGainRest(_, _, _)
EncGainRest(ds, x, k) == IF k > ds.rq.nb THEN ds ELSE EncGainRest(SxPut(ds, X_DGAIN, 0, x.g[k]), x, k + 1)
EncGains(ds, x) ==
  IF ds.rq.cond = CODE_CONDITIONALLY THEN EncGainRest(SxPut(ds, X_DGAIN, 0, x.g[1]), x, 2)
  ELSE EncGainRest(SxPut(SxPut(ds, X_GAIN, 8 * x.sig, x.g[1] \div 8), X_U8, 0, x.g[1] % 8), x, 2)
RECURSIVE EncNlsf2(_, _, _, _)
EncNlsf2(ds, x, ecix, i) ==
  IF i > Len(ecix) THEN ds
  ELSE LET r == x.nl[i + 1]  t == SxEcTab(ds.rq.fs) IN
       EncNlsf2(IF r >= NLSF_AMP THEN SxPut(SxPut(ds, t, ecix[i], 2 * NLSF_AMP), X_EXT, 0, r - NLSF_AMP)
                ELSE IF r <= 0 - NLSF_AMP THEN SxPut(SxPut(ds, t, ecix[i], 0), X_EXT, 0, 0 - r - NLSF_AMP)
                ELSE SxPut(ds, t, ecix[i], r + NLSF_AMP), x, ecix, i + 1)
EncLagAbs(ds, x) ==
  LET half == ds.rq.fs \div 2 IN SxPut(SxPut(ds, X_PLAG, 0, x.lag \div half), SxLowTab(ds.rq.fs), 0, x.lag % half)
EncLag(ds, x) ==
  IF ds.rq.cond = CODE_CONDITIONALLY /\ ds.ps = TYPE_VOICED
  THEN LET dl == x.lag - ds.pl IN
       IF dl < 0 - 8 \/ dl > 11 THEN EncLagAbs(SxPut(ds, X_PDELTA, 0, 0), x) ELSE SxPut(ds, X_PDELTA, 0, dl + 9)
  ELSE EncLagAbs(ds, x)
RECURSIVE EncLtpIdx(_, _, _)
EncLtpIdx(ds, x, k) == IF k > ds.rq.nb THEN ds ELSE EncLtpIdx(SxPut(ds, X_LTP0 + x.per, 0, x.ltp[k]), x, k + 1)
EncVoiced(ds, x) ==
  IF x.sig # TYPE_VOICED THEN ds
  ELSE Only({ IF ds.rq.cond = CODE_INDEPENDENTLY THEN SxPut(d, X_LTPSCALE, 0, x.scale) ELSE d
              : d \in {EncLtpIdx(SxPut(SxPut([EncLag(ds, x) EXCEPT !.pl = x.lag], SxContTab(ds.rq.fs, ds.rq.nb), 0, x.cont),
                                       X_PER, 0, x.per), x, 1)} })
SxEncIdx(ds, x) ==
  LET to == 2 * x.sig + x.qoff
      d1 == IF ds.rq.lbrr = 1 \/ to >= 2 THEN SxPut(ds, X_TYPEVAD, 0, to - 2) ELSE SxPut(ds, X_TYPENOVAD, 0, to)
      d2 == EncGains(d1, x)
      d3 == SxPut(d2, SxCb1Tab(ds.rq.fs), (x.sig \div 2) * SxNVec, x.nl[1])
      d4 == EncNlsf2(d3, x, SxEcIx(ds.rq.fs, x.nl[1]), 1)
      d5 == IF ds.rq.nb = 4 THEN SxPut(d4, X_INTERP, 0, x.interp) ELSE d4
      d6 == EncVoiced(d5, x)
  IN [SxPut(d6, X_U4, 0, x.seed) EXCEPT !.ps = x.sig, !.idx = x]
\* what the encoder can be asked to code (its own assertions), for frame parameters rq
SxEncWantOK(rq, x) ==
  /\ x.sig \in 0..2 /\ x.qoff \in 0..1 /\ (rq.lbrr = 1 => x.sig >= 1)
  /\ (rq.lbrr = 0 => (x.sig = 0) = (rq.vad = 0))          \* silk_encode_frame: no voice activity <=> type 0
  /\ Len(x.g) = rq.nb /\ x.g[1] \in 0..(IF rq.cond = CODE_CONDITIONALLY THEN 40 ELSE 63) /\ \A k \in 2..rq.nb : x.g[k] \in 0..40
  /\ Len(x.nl) = SxOrder(rq.fs) + 1 /\ x.nl[1] \in 0..(SxNVec - 1)
  /\ \A k \in 2..Len(x.nl) : x.nl[k] \in (0 - NLSF_AMP - 6)..(NLSF_AMP + 6)
  /\ (IF rq.nb = 4 THEN x.interp \in 0..4 ELSE x.interp = 4)
  /\ x.seed \in 0..3
  /\ (x.sig = TYPE_VOICED =>
        /\ x.cont \in 0..(SxNCont(rq.fs, rq.nb) - 1) /\ x.per \in 0..2 /\ Len(x.ltp) = rq.nb
        /\ \A k \in 1..rq.nb : x.ltp[k] \in 0..(8 * P2(x.per) - 1)
        /\ (IF rq.cond = CODE_INDEPENDENTLY THEN x.scale \in 0..2 ELSE x.scale = 0)
        /\ (\/ x.lag \in 0..SxMaxAbsLag(rq.fs)
            \/ (rq.cond = CODE_CONDITIONALLY /\ rq.prevSig = TYPE_VOICED /\ x.lag - rq.prevLag \in (0 - 8)..11)))

\* excitation, encoder side
AbsOf(v) == IF v < 0 THEN 0 - v ELSE v
RECURSIVE SumOf(_, _, _)
SumOf(a, lo, hi) == IF lo > hi THEN 0 ELSE a[lo] + SumOf(a, lo + 1, hi)
\* combine_and_check x 4: no pair above 8, no 4 above 10, no 8 above 12, all 16 not above 16
CombOK(a) ==
  /\ \A k \in 0..7 : a[2 * k + 1] + a[2 * k + 2] <= MaxPulseTab[1]
  /\ \A k \in 0..3 : SumOf(a, 4 * k + 1, 4 * k + 4) <= MaxPulseTab[2]
  /\ \A k \in 0..1 : SumOf(a, 8 * k + 1, 8 * k + 8) <= MaxPulseTab[3]
  /\ SumOf(a, 1, 16) <= MaxPulseTab[4]
ShrSeq(a, n) == [k \in 1..Len(a) |-> a[k] \div P2(n)]
RECURSIVE NRshift(_, _)
NRshift(a, n) == IF CombOK(ShrSeq(a, n)) THEN n ELSE NRshift(a, n + 1)
\* per block: <<number of right shifts, amplitudes after the shifts, their sum>>
BlockPlan(a) == Only({ Only({ <<n, s, SumOf(s, 1, 16)>> : s \in {[k \in 1..16 |-> a[k] \div P2(n)]} }) : n \in {NRshift(a, 0)} })
RECURSIVE EncChain(_, _)
EncChain(ds, k) == IF k <= 0 THEN ds ELSE EncChain(SxPut(ds, X_PPB, (MAX_PULSES + 2) * (N_RATE - 1), MAX_PULSES + 1), k - 1)
EncCount(ds, rl, bp) ==
  IF bp[1] = 0 THEN SxPut(ds, X_PPB, (MAX_PULSES + 2) * rl, bp[3])
  ELSE SxPut(EncChain(SxPut(ds, X_PPB, (MAX_PULSES + 2) * rl, MAX_PULSES + 1), bp[1] - 1),
             X_PPB, (MAX_PULSES + 2) * (N_RATE - 1), bp[3])           \* (never the shifted table: see EncShiftsSmall)
RECURSIVE EncShell(_, _, _, _)
EncShell(ds, a, lo, lvl) ==          \* the 2^lvl amplitudes a[lo+1 .. lo+2^lvl]
  IF lvl = 0 THEN ds
  ELSE LET half == P2(lvl - 1)
           p1 == SumOf(a, lo + 1, lo + half)
           p == p1 + SumOf(a, lo + half + 1, lo + 2 * half) IN
       IF p = 0 THEN ds
       ELSE EncShell(EncShell(SxPut(ds, X_SH0 + lvl - 1, ShOff(p), p1), a, lo, lvl - 1), a, lo + half, lvl - 1)
RECURSIVE EncLsbSample(_, _, _)
EncLsbSample(ds, a, j) == IF j < 0 THEN ds ELSE EncLsbSample(SxPut(ds, X_LSB, 0, (a \div P2(j)) % 2), a, j - 1)
RECURSIVE EncLsbBlock(_, _, _, _)
EncLsbBlock(ds, a, k, nr) == IF k > SHELL THEN ds ELSE EncLsbBlock(EncLsbSample(ds, a[k], nr - 1), a, k + 1, nr)
RECURSIVE EncSignBlock(_, _, _, _)
EncSignBlock(ds, q, k, off) ==
  IF k > SHELL THEN ds
  ELSE EncSignBlock(IF q[k] # 0 THEN SxPutSign(ds, off, IF q[k] > 0 THEN 1 ELSE 0) ELSE ds, q, k + 1, off)
RECURSIVE EncBlocks(_, _, _, _, _, _)
\* stage 1 counts, 2 shells, 3 LSBs, 4 signs; plans: one BlockPlan per block; q the signed excitation
EncBlocks(ds, stage, plans, q, b, sq) ==
  IF b > Len(plans) THEN ds
  ELSE LET bp == plans[b]
           a == SubSeq(q, SHELL * (b - 1) + 1, SHELL * b) IN
       EncBlocks(CASE stage = 1 -> EncCount(ds, ds.rl, bp)
                   [] stage = 2 -> IF bp[3] > 0 THEN EncShell(ds, bp[2], 0, 4) ELSE ds
                   [] stage = 3 -> IF bp[1] > 0 THEN EncLsbBlock(ds, [k \in 1..SHELL |-> AbsOf(a[k])], 1, bp[1]) ELSE ds
                   [] OTHER -> IF bp[3] > 0 THEN EncSignBlock(ds, a, 1, SignOff(sq[1], sq[2], bp[3])) ELSE ds,
                 stage, plans, q, b + 1, sq)
RECURSIVE PlansRec(_, _, _)
PlansRec(q, b, acc) ==
  IF b > Len(q) \div SHELL THEN acc
  ELSE PlansRec(q, b + 1, Append(acc, BlockPlan([k \in 1..SHELL |-> AbsOf(q[SHELL * (b - 1) + k])])))
PlansOf(q) == PlansRec(q, 1, <<>>)
\* (the encoder clears the samples of the last block that lie beyond the frame: 10 ms at 12 kHz)
SxEncPulses(ds, sig, qoff, q0, rl) ==
  LET flen == SxFrameLen(ds.rq.fs, ds.rq.nb)
      q == [k \in 1..Len(q0) |-> IF k > flen THEN 0 ELSE q0[k]] IN
  Only({ Only({ EncBlocks(EncBlocks(EncBlocks(EncBlocks(d, 1, plans, q, 1, <<sig, qoff>>), 2, plans, q, 1, <<sig, qoff>>),
                                    3, plans, q, 1, <<sig, qoff>>), 4, plans, q, 1, <<sig, qoff>>)
                : d \in {[SxPut(ds, X_RL, (N_RATE - 1) * (sig \div 2), rl) EXCEPT !.rl = rl]} })
         : plans \in {PlansOf(q)} })
SxEncFrame(rq, x, q, rl) ==
  Only({ SxEncPulses([d EXCEPT !.ci = d.c, !.nidx = Len(d.ops)], x.sig, x.qoff, q, rl) : d \in {SxEncIdx(SxInit(rq), x)} })
SxEncIdxOnly(rq, x) == SxEncIdx(SxInit(rq), x)

-----------------------------------------------------------------------------
(* Design theorems (evaluated by SilkIdx_mc)                                 *)

SxOpsOf(ds) == ds.ops
SxValues(ops) == [j \in 1..Len(ops) |-> ops[j][4]]
\* every symbol was read from a proper inverse CDF whose alphabet is the one the format states (so the value read has
\* a non-zero probability and the table ends where the alphabet ends)
AlphabetOf(ds, op) ==          \* the alphabet size the format gives the sub-table an op used
  LET t == op[3] \div 1000  off == op[3] % 1000 IN
  CASE t = X_TYPENOVAD -> 2 [] t = X_TYPEVAD -> 4 [] t = X_GAIN -> 8 [] t = X_DGAIN -> 41 [] t = X_U8 -> 8
    [] t \in {X_CB1NB, X_CB1WB} -> SxNVec [] t \in {X_ECNB, X_ECWB} -> 2 * NLSF_AMP + 1 [] t = X_EXT -> 7 [] t = X_INTERP -> 5
    [] t = X_PDELTA -> 21 [] t = X_PLAG -> 32 [] t = X_U4 -> 4 [] t = X_U6 -> 6
    [] t = X_CONT -> 34 [] t = X_CONTNB -> 11 [] t = X_CONT10 -> 12 [] t = X_CONT10NB -> 3 [] t = X_PER -> 3
    [] t \in {X_LTP0, X_LTP0 + 1, X_LTP0 + 2} -> 8 * P2(t - X_LTP0) [] t = X_LTPSCALE -> 3 [] t = X_RL -> N_RATE - 1
    [] t = X_PPB -> IF off % (MAX_PULSES + 2) = 1 THEN MAX_PULSES + 1 ELSE MAX_PULSES + 2
    [] t \in {X_SH0, X_SH0 + 1, X_SH0 + 2, X_SH0 + 3} -> (CHOOSE p \in 1..MAX_PULSES : ShOff(p) = off) + 1
    [] t = X_LSB -> 2
    [] OTHER -> 0
OpTableOK(ds, op) ==
  IF op[1] = 8 THEN op[3] \in 0..41 /\ TB[X_SIGN][op[3] + 1] \in 1..255 /\ op[4] \in 0..1
  ELSE LET t == op[3] \div 1000  off == op[3] % 1000  n == AlphabetOf(ds, op) IN
       n > 0 /\ op[4] \in 0..(n - 1) /\ IcdfOK(TB[t], off, n)
AllTablesOK(ds) == \A j \in 1..Len(ds.ops) : OpTableOK(ds, ds.ops[j])
\* the offsets stay inside the frame of their table: sub-tables are whole rows
OffsetsOK(ds) ==
  \A j \in 1..Len(ds.ops) :
     LET op == ds.ops[j]  t == op[3] \div 1000  off == op[3] % 1000 IN
     op[1] = 2 =>
       CASE t = X_GAIN -> off \in {0, 8, 16} [] t \in {X_CB1NB, X_CB1WB} -> off \in {0, SxNVec}
         [] t \in {X_ECNB, X_ECWB} -> off % (2 * NLSF_AMP + 1) = 0 /\ off < 8 * (2 * NLSF_AMP + 1)
         [] t = X_RL -> off \in {0, N_RATE - 1}
         [] t = X_PPB -> off < N_RATE * (MAX_PULSES + 2) /\ (off % (MAX_PULSES + 2) = 1 => off = (MAX_PULSES + 2) * (N_RATE - 1) + 1)
                         /\ off % (MAX_PULSES + 2) \in {0, 1}
         [] t \in {X_SH0, X_SH0 + 1, X_SH0 + 2, X_SH0 + 3} -> \E p \in 1..MAX_PULSES : off = ShOff(p)
         [] OTHER -> off = 0

\* the index domains (what module SilkParams - property C18 - assumes of the indices a bitstream can carry)
SxIdxDomainOK(rq, x, prevLag) ==
  /\ x.sig \in 0..2 /\ x.qoff \in 0..1
  /\ Len(x.g) = rq.nb /\ x.g[1] \in 0..(IF rq.cond = CODE_CONDITIONALLY THEN 40 ELSE 63) /\ \A k \in 2..rq.nb : x.g[k] \in 0..40
  /\ Len(x.nl) = SxOrder(rq.fs) + 1 /\ x.nl[1] \in 0..(SxNVec - 1) /\ \A k \in 2..Len(x.nl) : x.nl[k] \in (0 - 10)..10
  /\ x.interp \in 0..4 /\ (rq.nb = 2 => x.interp = 4) /\ x.seed \in 0..3
  /\ (x.sig = TYPE_VOICED =>
        /\ (x.lag \in 0..SxMaxAbsLag(rq.fs) \/ (rq.cond = CODE_CONDITIONALLY /\ rq.prevSig = TYPE_VOICED /\ x.lag - prevLag \in (0 - 8)..11))
        /\ x.cont \in 0..(SxNCont(rq.fs, rq.nb) - 1) /\ x.per \in 0..2
        /\ Len(x.ltp) = rq.nb /\ \A k \in 1..rq.nb : x.ltp[k] \in 0..(8 * P2(x.per) - 1)
        /\ x.scale \in 0..2 /\ (rq.cond # CODE_INDEPENDENTLY => x.scale = 0))
  /\ (x.sig # TYPE_VOICED => x.lag = 0 /\ x.cont = 0 /\ x.per = 0 /\ x.scale = 0)
\* signal type 0 <=> the no-activity table
TypeVsVad(rq, x) == IF rq.lbrr = 1 \/ rq.vad = 1 THEN x.sig >= 1 ELSE x.sig = 0

\* conditional coding never reads an absolute lag unless the delta symbol was the escape (or the previous frame was not
\* voiced); a frame that is not conditionally coded never reads the delta symbol
HasTab(ds, t) == \E j \in 1..Len(ds.ops) : ds.ops[j][1] = 2 /\ ds.ops[j][3] \div 1000 = t
OpWithTab(ds, t) == CHOOSE j \in 1..Len(ds.ops) : ds.ops[j][1] = 2 /\ ds.ops[j][3] \div 1000 = t
LagCodingOK(ds) ==
  LET rq == ds.rq  viaDelta == rq.cond = CODE_CONDITIONALLY /\ rq.prevSig = TYPE_VOICED IN
  /\ (ds.idx.sig # TYPE_VOICED => ~HasTab(ds, X_PDELTA) /\ ~HasTab(ds, X_PLAG) /\ ~HasTab(ds, X_PER))
  /\ (ds.idx.sig = TYPE_VOICED =>
        /\ HasTab(ds, X_PDELTA) = viaDelta
        /\ HasTab(ds, X_PLAG) = (~viaDelta \/ ds.ops[OpWithTab(ds, X_PDELTA)][4] = 0)
        /\ HasTab(ds, X_LTPSCALE) = (rq.cond = CODE_INDEPENDENTLY))
  /\ ds.ps = ds.idx.sig /\ ds.pl = (IF ds.idx.sig = TYPE_VOICED THEN ds.idx.lag ELSE rq.prevLag)
\* a frame that is not conditionally coded does not depend on the decoder's memory of the previous frame
HistoryFree(rq) ==
  rq.cond # CODE_CONDITIONALLY =>
    LET a == SxDecIdxOnly(rq)  b == SxDecIdxOnly([rq EXCEPT !.prevSig = TYPE_VOICED, !.prevLag = 77]) IN
    a.ops = b.ops /\ a.idx = b.idx /\ a.c = b.c

\* structure of the excitation stage
PulsesShapeOK(ds) ==
  LET nblk == SxNBlocks(SxFrameLen(ds.rq.fs, ds.rq.nb)) IN
  /\ Len(ds.sums) = nblk /\ Len(ds.nls) = nblk /\ Len(ds.pul) = SHELL * nblk
  /\ \A b \in 1..nblk :
       /\ ds.sums[b] \in 0..MAX_PULSES /\ ds.nls[b] \in 0..MAX_LSB
       \* the shell tree distributes exactly the block's pulse count; the LSBs extend every sample by nls bits
       /\ SumOf([k \in 1..SHELL |-> AbsOf(ds.pul[SHELL * (b - 1) + k]) \div P2(ds.nls[b])], 1, SHELL) = ds.sums[b]
       /\ \A k \in 1..SHELL : AbsOf(ds.pul[SHELL * (b - 1) + k]) < (MAX_PULSES + 1) * P2(ds.nls[b])
\* number of symbols of the excitation stage, counted independently from the decoded values: one count symbol per block
\* and escape, one split symbol per aligned group of 2, 4, 8, 16 samples that holds a pulse, 16 LSBs per escape, one
\* sign per non-zero sample
NSplit(a) == Cardinality({<<lvl, g>> \in (1..4) \X (0..7) : g < 16 \div P2(lvl) /\ SumOf(a, g * P2(lvl) + 1, (g + 1) * P2(lvl)) > 0})
OpsWith(ds, S) == Cardinality({j \in (ds.nidx + 1)..Len(ds.ops) : ds.ops[j][1] = 2 /\ ds.ops[j][3] \div 1000 \in S})
PulsesOpCountOK(ds) ==
  LET nblk == Len(ds.sums) IN
  /\ OpsWith(ds, {X_RL}) = 1 /\ ds.ops[ds.nidx + 1][3] \div 1000 = X_RL
  /\ OpsWith(ds, {X_PPB}) = nblk + SumOf(ds.nls, 1, nblk)
  /\ OpsWith(ds, {X_SH0, X_SH0 + 1, X_SH0 + 2, X_SH0 + 3}) =
       SumOf([b \in 1..nblk |-> NSplit([k \in 1..SHELL |-> AbsOf(ds.pul[SHELL * (b - 1) + k]) \div P2(ds.nls[b])])], 1, nblk)
  /\ OpsWith(ds, {X_LSB}) = SHELL * SumOf(ds.nls, 1, nblk)
  /\ Cardinality({j \in (ds.nidx + 1)..Len(ds.ops) : ds.ops[j][1] = 8}) = Cardinality({k \in 1..Len(ds.pul) : ds.pul[k] # 0})
  /\ \A j \in (ds.nidx + 1)..Len(ds.ops) : ds.ops[j][1] = 8 \/ ds.ops[j][3] \div 1000 \in {X_RL, X_PPB, X_SH0, X_SH0 + 1, X_SH0 + 2, X_SH0 + 3, X_LSB}

\* MIRROR, decoder -> encoder: re-encoding what was decoded gives the symbols that were read, except where the decoder
\* accepts a non-canonical code the encoder never writes: a lag escape although the delta was codable; for the
\* excitation the encoder's own choice of shifts differs unless the decoded block is what BlockPlan produces
LagCanonical(ds) ==
  ~(ds.rq.cond = CODE_CONDITIONALLY /\ ds.rq.prevSig = TYPE_VOICED /\ ds.idx.sig = TYPE_VOICED
    /\ ds.ops[OpWithTab(ds, X_PDELTA)][4] = 0 /\ ds.idx.lag - ds.rq.prevLag \in (0 - 8)..11)
IdxMirrorOK(rq) ==
  LET d == SxDecIdxOnly(rq) IN
  (LagCanonical(d) /\ (d.idx.sig # TYPE_VOICED \/ d.idx.lag >= 0)) =>
     LET e == SxEncIdxOnly(rq, d.idx) IN e.ops = d.ops /\ e.c = d.c /\ e.ps = d.ps /\ e.pl = d.pl
PulsesCanonical(ds) ==
  /\ \A k \in 1..Len(ds.pul) : AbsOf(ds.pul[k]) <= 127 /\ (k > SxFrameLen(ds.rq.fs, ds.rq.nb) => ds.pul[k] = 0)
  /\ \A b \in 1..Len(ds.sums) :
       LET bp == BlockPlan([k \in 1..SHELL |-> AbsOf(ds.pul[SHELL * (b - 1) + k])]) IN bp[1] = ds.nls[b] /\ bp[3] = ds.sums[b]
FrameMirrorOfOK(rq, d) ==
  (LagCanonical(d) /\ (d.idx.sig # TYPE_VOICED \/ d.idx.lag >= 0) /\ PulsesCanonical(d)) =>
     LET e == SxEncFrame(rq, d.idx, d.pul, d.rl) IN e.ops = d.ops /\ e.c = d.c /\ e.ci = d.ci /\ e.nidx = d.nidx
FrameMirrorOK(rq) == FrameMirrorOfOK(rq, SxDecFrame(rq))
\* MIRROR, encoder -> decoder: whatever the encoder can want, the decoder reads back symbol for symbol
EncDecOK(rq, x, q, rl) ==
  LET e == SxEncFrame(rq, x, q, rl)
      d == SxDecFrame([rq EXCEPT !.pm = 0, !.vals = SxValues(e.ops)]) IN
  /\ d.ops = e.ops /\ d.c = e.c /\ d.ci = e.ci /\ d.idx = x /\ d.pul = q /\ d.ps = e.ps /\ d.pl = e.pl
\* the encoder never scales a block down more than 7 times (8-bit excitation), so it never needs the shifted table
\* the decoder switches to after MAX_LSB escapes, and a block it scaled down keeps at least one pulse (which is why it can
\* code the signs from the pulse count alone while the decoder also looks at the LSB count)
EncShiftsSmall(a) == LET bp == BlockPlan(a) IN bp[1] <= 7 /\ (bp[1] > 0 => bp[3] > 0)

\* the constants and the exported tables
SxConstOK ==
  /\ Tab.maxamp = NLSF_AMP /\ Tab.maxpulses = MAX_PULSES /\ Tab.nratelevels = N_RATE /\ Tab.shellblock = SHELL
  /\ Tab.maxp = MaxPulseTab /\ Len(Tab.shoff) = MAX_PULSES + 1
  /\ \A p \in 1..MAX_PULSES : Tab.shoff[p + 1] = ShOff(p)
  /\ \A k \in 1..2 : Tab.cb[k].nv = SxNVec /\ Tab.cb[k].order = (IF k = 1 THEN 10 ELSE 16)
                     /\ Len(Tab.cb[k].sel) = (SxNVec * Tab.cb[k].order) \div 2
\* every table, in every sub-table the format uses, is a proper inverse CDF (clause of C17 for this layer)
WholeTablesOK ==
  /\ IcdfOK(TB[X_TYPENOVAD], 0, 2) /\ IcdfOK(TB[X_TYPEVAD], 0, 4) /\ \A s \in 0..2 : IcdfOK(TB[X_GAIN], 8 * s, 8)
  /\ IcdfOK(TB[X_DGAIN], 0, 41) /\ IcdfOK(TB[X_U8], 0, 8) /\ IcdfOK(TB[X_U4], 0, 4) /\ IcdfOK(TB[X_U6], 0, 6)
  /\ \A t \in {X_CB1NB, X_CB1WB} : \A h \in 0..1 : IcdfOK(TB[t], SxNVec * h, SxNVec)
  /\ \A t \in {X_ECNB, X_ECWB} : \A r \in 0..7 : IcdfOK(TB[t], (2 * NLSF_AMP + 1) * r, 2 * NLSF_AMP + 1)
  /\ IcdfOK(TB[X_EXT], 0, 7) /\ IcdfOK(TB[X_INTERP], 0, 5) /\ IcdfOK(TB[X_PDELTA], 0, 21) /\ IcdfOK(TB[X_PLAG], 0, 32)
  /\ IcdfOK(TB[X_CONT], 0, 34) /\ IcdfOK(TB[X_CONTNB], 0, 11) /\ IcdfOK(TB[X_CONT10], 0, 12) /\ IcdfOK(TB[X_CONT10NB], 0, 3)
  /\ IcdfOK(TB[X_PER], 0, 3) /\ \A p \in 0..2 : IcdfOK(TB[X_LTP0 + p], 0, 8 * P2(p)) /\ IcdfOK(TB[X_LTPSCALE], 0, 3)
  /\ \A h \in 0..1 : IcdfOK(TB[X_RL], (N_RATE - 1) * h, N_RATE - 1)
  /\ \A r \in 0..(N_RATE - 1) : IcdfOK(TB[X_PPB], (MAX_PULSES + 2) * r, MAX_PULSES + 2)
  /\ IcdfOK(TB[X_PPB], (MAX_PULSES + 2) * (N_RATE - 1) + 1, MAX_PULSES + 1)
  /\ \A l \in 0..3 : \A p \in 1..MAX_PULSES : IcdfOK(TB[X_SH0 + l], ShOff(p), p + 1)
  /\ IcdfOK(TB[X_LSB], 0, 2) /\ \A k \in 1..42 : TB[X_SIGN][k] \in 1..255
\* the exported tables are the RFC's, word for word; the names of those that are not
CbFields == {"nv", "order", "icdf1", "sel", "ecicdf"}
TablesDiffer ==
  {f \in RfcFields : Tab[f] # RfcTab[f]}
  \cup {"cb1_" \o g : g \in {h \in CbFields : Tab.cb[1][h] # RfcTab.cb[1][h]}}
  \cup {"cb2_" \o g : g \in {h \in CbFields : Tab.cb[2][h] # RfcTab.cb[2][h]}}
=============================================================================
